/-
  Model/WalRun.lean — operation language and runs of the sequential WAL model
  and of the reference log; the vocabulary of C05's refinement theorem.
-/
import RaftWal.Model.Wal
import RaftWal.Spec.Log
namespace RaftWal

inductive Op
  | store (logs : List Log)
  | del (min max : Nat)
  | get (idx : Nat)
  | first
  | last
  | close
  | reopen
  deriving Repr, DecidableEq

/-- canonical observable answer of a call (error *class* only) -/
inductive Ans
  | ok
  | nat (n : Nat)
  | log (l : Log)
  | notFound
  | closed
  | rejected      -- any other error
  deriving Repr, DecidableEq

def Err.ans : Err → Ans
  | .notFound => .notFound
  | .closed => .closed
  | _ => .rejected

def Spec.SErr.ans : Spec.SErr → Ans
  | .notFound => .notFound
  | .closed => .closed
  | .rejected => .rejected

/-- one call on the WAL model. A failed `reopen` leaves the WAL closed. -/
def Wal.step (w : Wal) : Op → Wal × Ans
  | .store logs => let (w', e) := w.storeLogs logs; (w', match e with | none => .ok | some e => e.ans)
  | .del mn mx => let (w', e) := w.deleteRange mn mx; (w', match e with | none => .ok | some e => e.ans)
  | .get i => let (w', r) := w.getLog i; (w', match r with | .ok l => .log l | .error e => e.ans)
  | .first => (w, match w.firstIndexApi with | .ok n => .nat n | .error e => e.ans)
  | .last => (w, match w.lastIndexApi with | .ok n => .nat n | .error e => e.ans)
  | .close => (w.close, .ok)
  | .reopen => match w.reopen with
    | some w' => (w', .ok)
    | none => (w.close, .rejected)

def Spec.SLog.step (s : Spec.SLog) : Op → Spec.SLog × Ans
  | .store logs => let (s', e) := s.store logs; (s', match e with | none => .ok | some e => e.ans)
  | .del mn mx => let (s', e) := s.delete mn mx; (s', match e with | none => .ok | some e => e.ans)
  | .get i => (s, match s.get i with | .ok l => .log l | .error e => e.ans)
  | .first => (s, if s.closed then .closed else .nat s.firstIndex)
  | .last => (s, if s.closed then .closed else .nat s.lastIndex)
  | .close => (s.close, .ok)
  | .reopen => (s.reopen, .ok)

def Wal.run (w : Wal) : List Op → List Ans
  | [] => []
  | op :: ops => let (w', a) := w.step op; a :: Wal.run w' ops

def Spec.SLog.run (s : Spec.SLog) : List Op → List Ans
  | [] => []
  | op :: ops => let (s', a) := s.step op; a :: Spec.SLog.run s' ops

/-- side conditions on a program: indexes stay below the 64-bit limit (`max+1` must not wrap),
    which is all the WAL needs of its caller -/
def Op.inRange : Op → Prop
  | .store logs => ∀ l ∈ logs, l.index < 2^64 - 1
  | .del _ mx => mx < 2^64
  | _ => True

end RaftWal
