/-
  Model/Wal.lean — wal.go + state.go as written, over *logical* segment files
  (L2 of DESIGN §5.4): a file is the list of entries committed to it plus the
  byte sizes that drive the sealing decision. Sequential semantics: every call
  runs to completion, the background rotation is performed before the next
  call looks at the state (the harness inserts a barrier that waits for it).

  uint64 wrap-around is modelled where the Go code can hit it
  (`max + 1`, `nTruncated` arithmetic).
-/
import RaftWal.Model.Codec
import RaftWal.Model.Frame
import RaftWal.Model.Segment
namespace RaftWal

/-- `segmentState` / `types.SegmentInfo` as kept in memory and in the meta store -/
structure SegS where
  id         : Nat
  base       : Nat
  min        : Nat
  max        : Nat
  indexStart : Nat
  sealed     : Bool
  codec      : Nat
  sizeLimit  : Nat
  deriving Repr, DecidableEq, Inhabited

/-- how reads of a segment are served -/
inductive Rdr
  /-- a `segment.Writer` (the tail, or a segment sealed since the last Open): frozen `info.MinIndex` -/
  | writer (frozenMin : Nat)
  /-- a `segment.Reader` from `Filer.Open`: `info` frozen at Open time -/
  | sealed (min max indexStart : Nat)
  deriving Repr, DecidableEq, Inhabited

/-- logical content of a segment file -/
structure FileL where
  id         : Nat
  base       : Nat
  codec      : Nat
  entries    : List Log   -- committed entries; entry i has index base + i
  wsize      : Nat        -- write offset: bytes up to and including the last commit frame (0: nothing committed)
  indexStart : Nat        -- ≠ 0 once an index frame has been committed (the file is sealed on disk)
  deriving Repr, DecidableEq, Inhabited

structure Counters where
  appends       : Nat := 0
  entriesW      : Nat := 0
  bytesW        : Nat := 0
  entriesR      : Nat := 0
  bytesR        : Nat := 0
  rotations     : Nat := 0
  headTrunc     : Nat := 0   -- uint64, wraps
  tailTrunc     : Nat := 0
  stableGets    : Nat := 0
  stableSets    : Nat := 0
  deriving Repr, DecidableEq, Inhabited

structure WalCfg where
  segmentSize : Nat
  codecId     : Nat      -- `w.codec.ID()`
  newSegCodec : Nat      -- what `newSegment` records (pinned tree: CodecBinaryV1 regardless of the codec)
  deriving Repr, DecidableEq, Inhabited

structure Wal where
  cfg      : WalCfg
  nextID   : Nat
  segs     : List (SegS × Rdr)   -- sorted by base (immutable.SortedMap); meta store = the SegS components
  files    : List FileL          -- the directory
  stable   : List (Bytes × Bytes)
  ctr      : Counters
  closed   : Bool
  deriving Repr, Inhabited

inductive Err
  | notFound | closed | sealed | corrupt | other
  deriving Repr, DecidableEq, Inhabited

/-! ## helpers over the directory -/

def Wal.file? (w : Wal) (id : Nat) : Option FileL := w.files.find? (·.id = id)

def updFile (files : List FileL) (f : FileL) : List FileL :=
  files.map (fun g => if g.id = f.id then f else g)

def FileL.commitIdx (f : FileL) : Nat := if f.entries.length > 0 then f.base + f.entries.length - 1 else 0

/-- the tail: last segment of the map and its file -/
def Wal.tailSeg (w : Wal) : Option (SegS × Rdr) := w.segs.getLast?

/-- `s.tail.LastIndex()` -/
def Wal.tailCommitIdx (w : Wal) : Nat :=
  match w.tailSeg with
  | none => 0
  | some (s, _) => match w.file? s.id with
    | none => 0
    | some f => f.commitIdx

/-- `state.lastIndex` evaluated on a segment list `segs` (which may already have had entries deleted) with the
    tail writer's commit index `tci` -/
def lastIndexOf (segs : List (SegS × Rdr)) (tci : Nat) : Nat :=
  if tci > 0 then tci
  else match segs.reverse with
    | [] => 0
    | [_] => 0
    | t :: _ :: _ => if t.1.base = 0 then 0 else t.1.base - 1

def Wal.lastIndex (w : Wal) : Nat := lastIndexOf w.segs w.tailCommitIdx

/-- `state.firstIndex` -/
def Wal.firstIndex (w : Wal) : Nat :=
  match w.segs with
  | [] => 0
  | (s, _) :: _ => if ¬ s.sealed ∧ w.tailCommitIdx = 0 then 0 else s.min

/-- `findSegmentReader`: Seek(idx) = first base ≥ idx (else done); Prev; if base > idx, Prev again -/
def findSegment (segs : List (SegS × Rdr)) (idx : Nat) : Option (SegS × Rdr) :=
  let before := segs.takeWhile (fun s => s.1.base < idx)
  match segs.drop before.length with
  | [] => none                       -- iterator done: Prev returns !ok
  | s :: _ =>
    let cand := if s.1.base > idx then before.getLast? else some s
    match cand with
    | none => none
    | some c => if c.1.min ≤ idx ∧ (c.1.max = 0 ∨ c.1.max ≥ idx) then some c else none

/-- read entry `idx` through a reader of file `f` -/
def readVia (r : Rdr) (f : FileL) (idx : Nat) : Except Err Log :=
  match r with
  | .writer frozenMin =>
    if idx < f.base ∨ idx < frozenMin ∨ idx > f.commitIdx then .error .notFound
    else match f.entries[idx - f.base]? with
      | some l => .ok l
      | none => .error .other
  | .sealed min max indexStart =>
    if indexStart = 0 then .error .other
    else if idx < min ∨ (max > 0 ∧ idx > max) then .error .notFound
    else if idx < f.base then .error .other      -- offset arithmetic wraps; reads garbage / EOF
    else match f.entries[idx - f.base]? with
      | some l => .ok l
      | none => .error .other

/-- `state.getLog` -/
def Wal.getLogRaw (w : Wal) (idx : Nat) : Except Err Log :=
  let viaSegs : Except Err Log :=
    match findSegment w.segs idx with
    | none => .error .notFound
    | some (s, r) => match w.file? s.id with
      | none => .error .other
      | some f => readVia r f idx
  match w.tailSeg with
  | none => viaSegs
  | some (s, r) =>
    if idx < s.min then viaSegs     -- the tail is consulted only at or above the MinIndex recorded in the state
    else match w.file? s.id with
    | none => viaSegs
    | some f => match readVia r f idx with
      | .ok l => .ok l
      | .error .notFound => viaSegs
      | .error e => .error e

def encLen (l : Log) : Nat := ((encode l).getD []).length

/-- `WAL.GetLog` -/
def Wal.getLog (w : Wal) (idx : Nat) : Wal × Except Err Log :=
  if w.closed then (w, .error .closed) else
  let w := { w with ctr := { w.ctr with entriesR := w.ctr.entriesR + 1 } }
  match w.getLogRaw idx with
  | .error e => (w, .error e)
  | .ok l => ({ w with ctr := { w.ctr with bytesR := w.ctr.bytesR + encLen l } }, .ok l)

/-! ## segment creation -/

def Wal.newSeg (w : Wal) (id base : Nat) : SegS :=
  { id := id, base := base, min := base, max := 0, indexStart := 0, sealed := false,
    codec := w.cfg.newSegCodec, sizeLimit := u32 w.cfg.segmentSize }

/-- `createNextSegment` + its postCommit (`sf.Create`): appends a fresh tail. `none` = Create failed
    (BaseIndex 0 is refused by the filer; a file of that name already exists). -/
def Wal.createNext (w : Wal) (nextBaseIfEmpty : Nat) : Option Wal :=
  let base := match w.segs.getLast? with
    | some (t, _) => u64 (t.max + 1)
    | none => if nextBaseIfEmpty > 0 then nextBaseIfEmpty else 1
  let s := w.newSeg w.nextID base
  if base = 0 ∨ (w.files.any (fun f => f.id = s.id ∧ f.base = s.base)) then none
  else some { w with nextID := w.nextID + 1
                   , segs := w.segs ++ [(s, .writer s.min)]
                   , files := w.files ++ [{ id := s.id, base := s.base, codec := s.codec, entries := [], wsize := 0, indexStart := 0 }] }

/-- finalizer of a truncation: unlink the files of the removed segments -/
def Wal.removeFiles (w : Wal) (ids : List Nat) : Wal :=
  { w with files := w.files.filter (fun f => ¬ ids.contains f.id) }

/-! ## Open -/

/-- `wal.Open` on an existing directory + meta (sequential: files are whatever a clean run left).
    `none` = Open returns an error. -/
def Wal.reopen (w : Wal) : Option Wal :=
  -- per meta segment: codec check, then Open / RecoverTail
  let rec build : List (SegS × Rdr) → List (SegS × Rdr) → Option (List (SegS × Rdr) × Bool)
    | [], acc => some (acc.reverse, false)
    | (s, _) :: rest, acc =>
      if s.codec ≠ w.cfg.codecId then none
      else if ¬ s.sealed then
        if ¬ rest.isEmpty then none      -- "unsealed segment is not at tail"
        else some (((s, Rdr.writer s.min) :: acc).reverse, true)
      else match w.files.find? (fun f => f.id = s.id ∧ f.base = s.base) with
        | none => none
        | some f => if f.codec ≠ s.codec ∨ f.wsize = 0 then none   -- header must be there and match
                    else build rest ((s, Rdr.sealed s.min s.max s.indexStart) :: acc)
  match build w.segs [] with
  | none => none
  | some (segs, recoveredTail) =>
    let w := { w with segs := segs, closed := false }
    -- a missing tail file is re-created
    let w := match w.tailSeg with
      | some (s, _) =>
        if recoveredTail ∧ ¬ w.files.any (fun f => f.id = s.id ∧ f.base = s.base) then
          { w with files := w.files ++ [({ id := s.id, base := s.base, codec := s.codec, entries := [], wsize := 0, indexStart := 0 } : FileL)] }
        else w
      | none => w
    let w? := if recoveredTail then some w else w.createNext 0
    -- delete every listed file that meta does not name
    w?.map fun w => { w with files := w.files.filter (fun f => w.segs.any (fun s => s.1.id = f.id)) }

/-- a brand new directory -/
def Wal.init (cfg : WalCfg) : Option Wal :=
  ({ cfg := cfg, nextID := 0, segs := [], files := [], stable := [], ctr := {}, closed := false } : Wal).reopen

/-! ## StoreLogs -/

/-- bytes the batch adds to the commit buffer (entry frames) -/
def batchFrameBytes (logs : List Log) : Nat := (logs.map (fun l => encodedFrameSize (encLen l))).sum

/-- `Writer.Append` at L2 on the tail file: `none` = error (writer rolled back) -/
def appendFile (f : FileL) (sizeLimit : Nat) (logs : List Log) : Except Err FileL :=
  if f.indexStart > 0 then .error .sealed
  else
    -- appendEntry's check: index = base + number of offsets
    let rec okIdx : Nat → List Log → Bool
      | _, [] => true
      | n, l :: ls => l.index = n ∧ okIdx (n + 1) ls
    if ¬ okIdx (f.base + f.entries.length) logs then .error .other
    else
      let hdr := if f.wsize = 0 then fileHeaderLen else 0
      let buf := hdr + batchFrameBytes logs
      let n := f.entries.length + logs.length
      -- (uint32 in the code; files are below 4 GiB — the documented limit — so plain arithmetic here;
      --  the wrap-around itself is modelled at L1, Model/Segment.lean)
      let doSeal := f.wsize + (buf + indexFrameSize n) > sizeLimit
      let buf' := if doSeal then buf + indexFrameSize n else buf
      .ok { f with entries := f.entries ++ logs
                 , wsize := f.wsize + (buf' + frameHeaderLen)
                 , indexStart := if doSeal then f.wsize + (buf + frameHeaderLen) else 0 }

/-- `rotateSegmentLocked`: seal the tail in meta and add a new tail -/
def Wal.rotate (w : Wal) (indexStart : Nat) : Wal :=
  match w.segs.reverse with
  | [] => w
  | (t, r) :: before =>
    let t' := { t with sealed := true, max := w.tailCommitIdx, indexStart := indexStart }
    let w1 := { w with segs := (before.reverse ++ [(t', r)]), ctr := { w.ctr with rotations := w.ctr.rotations + 1 } }
    (w1.createNext 0).getD w   -- a failed rotation is only logged; state unchanged

/-- `resetEmptyFirstSegmentBaseIndex` -/
def Wal.resetBase (w : Wal) (newBase : Nat) : Option Wal :=
  if w.lastIndex > 0 then none
  else match w.segs.reverse with
    | [] => w.createNext newBase
    | (t, _) :: before =>
      if t.base = newBase then some w
      else
        let w1 := { w with segs := before.reverse }
        (w1.createNext newBase).map (fun w2 => w2.removeFiles [t.id])

/-- `WAL.StoreLogs` (rotation performed before returning, see header) -/
def Wal.storeLogs (w : Wal) (logs : List Log) : Wal × Option Err :=
  if w.closed then (w, some .closed) else
  match logs with
  | [] => (w, none)
  | first :: _ =>
  let lastIdx := w.lastIndex
  let tailBase := (w.tailSeg.map (·.1.base)).getD 0
  let w? := if lastIdx = 0 ∧ first.index ≠ tailBase then w.resetBase first.index else some w
  match w? with
  | none => (w, some .other)
  | some w =>
    -- monotonicity + encode loop
    let rec chk : Nat → List Log → Bool
      | _, [] => true
      | last, l :: ls => (if last > 0 ∧ l.index ≠ last + 1 then false else
                           if (encode l).isNone then false else chk l.index ls)
    if ¬ chk lastIdx logs then (w, some .other)
    else match w.tailSeg with
      | none => (w, some .other)
      | some (t, _) => match w.file? t.id with
        | none => (w, some .other)
        | some f => match appendFile f t.sizeLimit logs with
          | .error e => (w, some e)
          | .ok f' =>
            let nBytes := (logs.map encLen).sum
            let w := { w with files := updFile w.files f'
                            , ctr := { w.ctr with appends := w.ctr.appends + 1, entriesW := w.ctr.entriesW + logs.length
                                                , bytesW := w.ctr.bytesW + nBytes } }
            let w := if f'.indexStart > 0 then w.rotate f'.indexStart else w
            (w, none)

/-! ## DeleteRange -/

/-- entries of `[first, last]` below `newMin` (what a head truncation really removes) -/
def headRemoved (first last newMin : Nat) : Nat :=
  if first > 0 ∧ newMin > first then (Nat.min newMin (last + 1)) - first else 0

/-- `truncateHeadLocked` -/
def Wal.truncateHead (w : Wal) (newMin : Nat) : Wal × Option Err :=
  let tci := w.tailCommitIdx
  let oldLast := w.lastIndex
  let n := headRemoved w.firstIndex oldLast newMin
  -- walk the segments in order, deleting until the new head is found
  let rec walk : List (SegS × Rdr) → List (SegS × Rdr) → List Nat → (Option (SegS × Rdr) × List (SegS × Rdr) × List Nat)
    | [], _, del => (none, [], del)
    | (s, r) :: rest, remaining, del =>
      -- `remaining` = the map as it is now (segments not yet deleted), for lastIndex()
      if (¬ s.sealed ∧ lastIndexOf remaining tci ≥ newMin) ∨ (s.sealed ∧ s.max ≥ newMin) then (some (s, r), rest, del)
      else walk rest remaining.tail (del ++ [s.id])
  let (head, rest, del) := walk w.segs w.segs []
  let w := { w with ctr := { w.ctr with headTrunc := u64 (w.ctr.headTrunc + n) } }
  match head with
  | some (h, r) =>
    ({ w with segs := ({ h with min := newMin }, r) :: rest }.removeFiles del, none)
  | none =>
    let w1 := { w with segs := [] }
    match w1.createNext (u64 (oldLast + 1)) with
    | none => (w, some .other)
    | some w2 => (w2.removeFiles del, none)

/-- `truncateTailLocked` -/
def Wal.truncateTail (w : Wal) (newMax : Nat) : Wal × Option Err :=
  let tci := w.tailCommitIdx
  let n := if w.lastIndex > newMax then w.lastIndex - newMax else 0
  -- reverse walk: delete segments with base > newMax
  let rec walk : List (SegS × Rdr) → List Nat → (List (SegS × Rdr) × List Nat)
    | [], del => ([], del)
    | (s, r) :: restRev, del =>
      if s.base ≤ newMax then ((s, r) :: restRev, del)
      else walk restRev (del ++ [s.id])
  let (keptRev, del) := walk w.segs.reverse []
  let bump (w : Wal) : Wal := { w with ctr := { w.ctr with tailTrunc := u64 (w.ctr.tailTrunc + n) } }
  match keptRev with
  | [] =>
    let w1 := { w with segs := [] }
    match w1.createNext 0 with
    | none => (bump w, some .other)
    | some w2 => ((bump w2).removeFiles del, none)
  | (t, r) :: before =>
    -- force-seal the surviving tail if it is the unsealed one
    let (t', files, ok) :=
      if t.sealed then (t, w.files, true)
      else match w.file? t.id with
        | none => (t, w.files, false)
        | some f =>
          if f.indexStart > 0 then ({ t with sealed := true, indexStart := f.indexStart }, w.files, true)
          else if f.entries.length = 0 then (t, w.files, false)     -- appendIndex on an empty writer: io.ErrShortBuffer
          else
            let hdr := if f.wsize = 0 then fileHeaderLen else 0
            let is := f.wsize + (hdr + frameHeaderLen)
            let f' := { f with indexStart := is, wsize := f.wsize + (hdr + indexFrameSize f.entries.length + frameHeaderLen) }
            ({ t with sealed := true, indexStart := is }, updFile w.files f', true)
    let _ := tci
    if ¬ ok then (w, some .other)
    else
      let w1 := { w with segs := (before.reverse ++ [({ t' with max := newMax }, r)]), files := files }
      match w1.createNext 0 with
      | none => (bump w, some .other)
      | some w2 => ((bump w2).removeFiles del, none)

/-- `WAL.DeleteRange` -/
def Wal.deleteRange (w : Wal) (min max : Nat) : Wal × Option Err :=
  if w.closed then (w, some .closed)
  else if min > max then (w, none)
  else
    let first := w.firstIndex
    let last := w.lastIndex
    if max < first ∨ min > last then (w, none)
    else if min ≤ first then w.truncateHead (u64 ((Nat.min max last) + 1))
    else if max ≥ last then w.truncateTail (min - 1)
    else (w, some .other)

/-! ## StableStore, Close -/

def Wal.setStable (w : Wal) (k : Bytes) (v : Option Bytes) : Wal × Option Err :=
  if w.closed then (w, some .closed) else
  let w := { w with ctr := { w.ctr with stableSets := w.ctr.stableSets + 1 } }
  let rest := w.stable.filter (·.1 ≠ k)
  ({ w with stable := match v with | none => rest | some v => rest ++ [(k, v)] }, none)

def Wal.getStable (w : Wal) (k : Bytes) : Wal × Except Err (Option Bytes) :=
  if w.closed then (w, .error .closed) else
  ({ w with ctr := { w.ctr with stableGets := w.ctr.stableGets + 1 } }, .ok ((w.stable.find? (·.1 = k)).map (·.2)))

/-- `SetUint64`: 8 bytes little endian -/
def Wal.setUint64 (w : Wal) (k : Bytes) (v : Nat) : Wal × Option Err := w.setStable k (some (putLE 8 v))

/-- `GetUint64` -/
def Wal.getUint64 (w : Wal) (k : Bytes) : Wal × Except Err Nat :=
  match w.getStable k with
  | (w, .error e) => (w, .error e)
  | (w, .ok none) => (w, .ok 0)
  | (w, .ok (some raw)) => if raw.length = 0 then (w, .ok 0) else if raw.length ≠ 8 then (w, .error .other) else (w, .ok (getLE raw))

def Wal.close (w : Wal) : Wal := { w with closed := true }

def Wal.firstIndexApi (w : Wal) : Except Err Nat := if w.closed then .error .closed else .ok w.firstIndex
def Wal.lastIndexApi (w : Wal) : Except Err Nat := if w.closed then .error .closed else .ok w.lastIndex

end RaftWal
