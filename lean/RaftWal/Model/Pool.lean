/-
  Model/Pool.lean — small-step heap/pool model of the read path's buffer reuse
  (segment/reader.go: readFrame / makeBuffer; segment/filer.go: bufPool, one sync.Pool of 64 KiB slices shared by all
  segment readers of a Filer; types/buffer.go: PooledBuffer{Bs, CloseFn}; wal.go: `func (w *WAL) GetLog`
  `raw, err := s.getLog(index)` … `defer raw.Close()` … `return w.codec.Decode(raw.Bs, log)`; codec.go: decoder.bytes).

  What is modelled: a heap of byte buffers (ids = allocation order), the pool (a multiset of free buffer ids), per
  reader goroutine a program counter that walks through readFrame and WAL.GetLog one shared access per step, and the
  log of results handed back to callers.  A buffer's content is abstract: "the bytes the file holds at frame k's
  offset" (`some k`) or garbage (`none`, a fresh `make([]byte, n)`).  The file content at the offsets read does not
  change (committed frames are immutable), so a ReadAt for frame k always stores `some k`.

  sync.Pool: Get returns any previously Put buffer or a new one — resolved by the schedule (`Act.get … (some b)` /
  `Act.get … none`).  sync.Pool may also drop buffers at any time; that is the same as never choosing them.
-/
namespace RaftWal.Pool

abbrev BufId := Nat
abbrev Frame := Nat
/-- what a buffer holds now: the bytes of frame `k` of the file, or garbage -/
abbrev Content := Option Frame

/-- the code's guards, to be read from the Go source -/
structure PoolCfg where
  /-- codec.go `decoder.bytes`: `bs := make([]byte, n); copy(bs, d.buf[:n])` — Data/Extensions never alias the input -/
  decoderCopies        : Bool
  /-- wal.go GetLog: `defer raw.Close()` — the Put happens after Decode returned (false: Put first, then Decode) -/
  closeAfterDecode     : Bool
  /-- each pooled buffer is Put back at most once per Get (false: a second Close of the same PooledBuffer may run) -/
  closeOnce            : Bool
  /-- reader.go large path: `&types.PooledBuffer{Bs: make([]byte, fh.len)}` has no CloseFn (false: its Close Puts it) -/
  largePathPrivate     : Bool
  /-- reader.go large path: `buf.Close()` runs before the exact-size buffer is allocated (false: after) -/
  largePathClosesFirst : Bool
  deriving Repr, DecidableEq

def PoolCfg.code : PoolCfg :=
  { decoderCopies := true, closeAfterDecode := true, closeOnce := true,
    largePathPrivate := true, largePathClosesFirst := true }

/-- what the caller's raft.Log holds after GetLog -/
inductive Result
  | copied (c : Content)     -- a private copy of what the buffer held when Decode ran
  | alias (b : BufId)        -- a slice pointing into buffer `b`
  deriving Repr, DecidableEq

/-- program counter of a reader goroutine inside WAL.GetLog for frame `k`.  `bs` is the buffer `raw.Bs` points into,
    `pooled` says whether `raw.CloseFn` Puts it into the pool. -/
inductive Pc
  | idle
  | got (k : Frame) (large : Bool) (b : BufId)              -- makeBuffer returned pooled buffer `b`
  | hdr (k : Frame) (b : BufId)                             -- large path: first ReadAt done, frame does not fit in `b`
  | lclosed (k : Frame)                                     -- large path: first buffer Put back
  | lalloc (k : Frame) (p : BufId) (first : Option BufId)   -- large path: exact-size buffer `p` allocated; `first` still held
  | ready (k : Frame) (bs : BufId) (pooled : Bool)          -- readFrame returned: read done
  | decoded (k : Frame) (res : Result) (bs : BufId) (pooled : Bool)   -- Decode returned, Close pending
  | preclosed (k : Frame) (bs : BufId) (pooled : Bool)      -- only if ¬closeAfterDecode: Close ran, Decode pending
  | closed (k : Frame) (res : Result) (bs : BufId) (pooled : Bool)    -- Decode and Close done; next: return
  deriving Repr, DecidableEq

/-- a scheduler choice for one thread -/
inductive Act
  | get (k : Frame) (large : Bool) (pick : Option BufId)  -- start GetLog(k); makeBuffer takes pooled `b` or allocates
  | next                                                   -- the thread's next instruction
  | again                                                  -- a second Close of the same buffer (only if ¬closeOnce)
  | fail                                                   -- readFrame returns an error here (GetLog returns it)
  deriving Repr, DecidableEq

abbrev Step := Nat × Act

/-- the shared-memory effect of one instruction -/
inductive Eff
  | take (b : BufId)             -- bufPool.Get returned `b`
  | alloc                        -- make([]byte, n): new buffer, id = heap size, content garbage
  | put (b : BufId)              -- bufPool.Put(b)
  | fill (b : BufId) (k : Frame) -- rf.ReadAt(b, offset of frame k)
  | ret (k : Frame) (res : Result)
  | loc                          -- thread-local
  deriving Repr, DecidableEq

structure State where
  heap     : List Content := []
  pool     : List BufId := []
  threads  : List Pc := []
  returned : List (Frame × Result) := []    -- (requested frame, what the caller's log holds), in order of return
  deriving Repr, DecidableEq

def load (heap : List Content) (b : BufId) : Content := (heap[b]?).getD none

/-- `codec.Decode(raw.Bs, log)` -/
def decode (cfg : PoolCfg) (heap : List Content) (bs : BufId) : Result :=
  if cfg.decoderCopies then .copied (load heap bs) else .alias bs

/-- instruction table: next pc and effect of thread-choice `act` at `pc`; `none` = not enabled -/
def instr (cfg : PoolCfg) (heap : List Content) (pool : List BufId) : Pc → Act → Option (Pc × Eff)
  -- readFrame: buf := r.makeBuffer()
  | .idle, .get k large (some b) => if b ∈ pool then some (.got k large b, .take b) else none
  | .idle, .get k large none     => some (.got k large heap.length, .alloc)
  -- n, err := r.rf.ReadAt(buf.Bs, offset); small path returns buf re-sliced, same CloseFn
  | .got k large b, .next        => some (if large then .hdr k b else .ready k b true, .fill b k)
  -- large path: buf.Close(); buf = &PooledBuffer{Bs: make([]byte, fh.len)}; ReadAt(buf.Bs, offset+frameHeaderLen)
  | .hdr k b, .next              => if cfg.largePathClosesFirst then some (.lclosed k, .put b)
                                    else some (.lalloc k heap.length (some b), .alloc)
  | .lclosed k, .next            => some (.lalloc k heap.length none, .alloc)
  | .lalloc k p (some b), .next  => some (.lalloc k p none, .put b)
  | .lalloc k p none, .next      => some (.ready k p (!cfg.largePathPrivate), .fill p k)
  -- WAL.GetLog: defer raw.Close(); return w.codec.Decode(raw.Bs, log)
  | .ready k bs pooled, .next    => if cfg.closeAfterDecode then some (.decoded k (decode cfg heap bs) bs pooled, .loc)
                                    else some (.preclosed k bs pooled, if pooled then .put bs else .loc)
  | .decoded k res bs pooled, .next => some (.closed k res bs pooled, if pooled then .put bs else .loc)
  | .preclosed k bs pooled, .next   => some (.closed k (decode cfg heap bs) bs pooled, .loc)
  | .closed k res _ _, .next        => some (.idle, .ret k res)
  | .closed k res bs pooled, .again => if !cfg.closeOnce && pooled then some (.closed k res bs pooled, .put bs) else none
  -- readFrame's error returns; none of them Closes a buffer still held (it is left to the GC)
  | .got _ _ _, .fail            => some (.idle, .loc)   -- ReadAt or readFrameHeader failed
  | .lclosed _, .fail            => some (.idle, .loc)   -- fh.len > MaxEntrySize, after buf.Close()
  | .lalloc _ _ none, .fail      => some (.idle, .loc)   -- the second ReadAt failed
  | _, _ => none

def State.apply (s : State) : Eff → State
  | .take b    => { s with pool := s.pool.erase b }
  | .alloc     => { s with heap := s.heap ++ [none] }
  | .put b     => { s with pool := b :: s.pool }
  | .fill b k  => { s with heap := s.heap.set b (some k) }
  | .ret k res => { s with returned := s.returned ++ [(k, res)] }
  | .loc       => s

def step (cfg : PoolCfg) (s : State) (st : Step) : State :=
  match s.threads[st.1]? with
  | none => s
  | some pc =>
    match instr cfg s.heap s.pool pc st.2 with
    | none => s
    | some (pc', eff) => { s.apply eff with threads := s.threads.set st.1 pc' }

/-- total and executable; disabled steps are ignored -/
def run (cfg : PoolCfg) (s : State) (sched : List Step) : State := sched.foldl (step cfg) s

/-- `n` idle reader goroutines, empty heap, empty pool -/
def init (n : Nat) : State := { threads := List.replicate n .idle }

/-- the frame content the caller sees NOW in a result -/
def observe (s : State) : Result → Content
  | .copied c => c
  | .alias b  => load s.heap b

/-- buffers a thread has obtained (Get / make) and not yet Put back -/
def owned : Pc → List BufId
  | .idle => []
  | .got _ _ b => [b]
  | .hdr _ b => [b]
  | .lclosed _ => []
  | .lalloc _ p first => p :: first.toList
  | .ready _ bs _ => [bs]
  | .decoded _ _ bs _ => [bs]
  | .preclosed _ bs pooled => if pooled then [] else [bs]
  | .closed _ _ bs pooled => if pooled then [] else [bs]

def State.ownedBy (s : State) (t : Nat) : List BufId :=
  match s.threads[t]? with
  | some pc => owned pc
  | none => []

end RaftWal.Pool
