/-
  Model/WalDecide.lean — vocabulary for the decision functions that `harness facts` translates out of wal.go
  (Generated/WalDecide.lean).  Hand-written; nothing here says what the code decides.
-/
import RaftWal.Model.Segment
namespace RaftWal

/-- what `DeleteRange` ends up doing -/
inductive DelAction
  | nothing                 -- returns nil without touching the log
  | head (newMin : Nat)     -- `truncateHeadLocked(newMin)`
  | tail (newMax : Nat)     -- `truncateTailLocked(newMax)`
  | refuse                  -- returns an error
  deriving Repr, DecidableEq, Inhabited

/-- uint64 subtraction (wraps) -/
def u64sub (a b : Nat) : Nat := (a + 2^64 - b % 2^64) % 2^64

end RaftWal
