/-
  Model/OsFs.lean — the production storage layer (fs/fs.go, fs/file.go, metadb.safeInitBoltDB) as sequences of
  system calls over an OS-level durability model: file data becomes durable by `fsync(fd)`, a directory entry
  (creation, removal, rename) by `fsync(dirfd)`.
-/
namespace RaftWal.OsFs

inductive Sys
  | openCreatExcl (name : String)          -- openat(…, O_RDWR|O_CREAT|O_EXCL)
  | openCreat (name : String)              -- openat(…, O_CREAT) without O_EXCL (what bbolt.Open does)
  | openRW (name : String)                 -- openat(…, O_RDWR) of an existing file
  | fallocate (name : String) (size : Nat) -- preallocation: the file reads as `size` zero bytes
  | pwrite (name : String)
  | fsync (name : String)                  -- fsync or fdatasync of the file
  | fsyncDir
  | unlink (name : String)
  | rename (src dst : String)
  deriving Repr, DecidableEq

structure OFile where
  exist        : Bool := false   -- present in the (volatile) namespace
  entryDurable : Bool := false   -- a crash keeps the name
  dirty        : Bool := false   -- holds data written since the last fsync
  size         : Nat := 0
  complete     : Bool := false   -- (for the meta DB) initialisation finished and fsynced
  deriving Repr, DecidableEq

structure OState where
  files          : String → OFile := fun _ => {}
  pendingUnlinks : List String := []    -- removed from the namespace, removal not yet durable

def OState.get (s : OState) (n : String) : OFile := s.files n
def OState.set (s : OState) (n : String) (f : OFile) : OState :=
  { s with files := fun m => if m = n then f else s.files m }

/-- effect of one system call; `none` = the call fails (O_EXCL on an existing file, missing file, …) -/
def exec (s : OState) : Sys → Option OState
  | .openCreatExcl n => if (s.get n).exist then none else some (s.set n { exist := true })
  | .openCreat n => some (if (s.get n).exist then s else s.set n { exist := true })
  | .openRW n => if (s.get n).exist then some s else none
  | .fallocate n sz => if (s.get n).exist then some (s.set n { s.get n with size := sz }) else none
  | .pwrite n => if (s.get n).exist then some (s.set n { s.get n with dirty := true }) else none
  | .fsync n => if (s.get n).exist then some (s.set n { s.get n with dirty := false }) else none
  | .fsyncDir =>
    some { files := fun n => if (s.files n).exist then { s.files n with entryDurable := true } else s.files n
         , pendingUnlinks := [] }
  | .unlink n =>
    if (s.get n).exist then some { (s.set n {}) with pendingUnlinks := n :: s.pendingUnlinks } else none
  | .rename a b =>
    if (s.get a).exist then
      let fa := s.get a
      some ((s.set b { fa with entryDurable := false }).set a {})
    else none

def run (s : OState) : List Sys → Option OState
  | [] => some s
  | c :: cs => match exec s c with
    | none => none
    | some s' => run s' cs

/-! ## the production layer as system-call sequences -/

/-- `fs.FS.Create(dir, name, size)` -/
def fsCreate (name : String) (size : Nat) : List Sys :=
  [.openCreatExcl name] ++ (if size > 0 then [.fallocate name size] else [])

/-- `fs.File.Sync()`: fsync of the file, plus the directory the first time it is called on this handle -/
def fsFileSync (name : String) (firstOnHandle : Bool) : List Sys :=
  [.fsync name] ++ (if firstOnHandle then [.fsyncDir] else [])

/-- `fs.FS.Delete(dir, name)` -/
def fsDelete (name : String) : List Sys := [.unlink name, .fsyncDir]

/-- `fs.FS.OpenWriter`: plain open; the returned handle is wrapped like one from Create -/
def fsOpenWriter (name : String) : List Sys := [.openRW name]

/-- `metadb.safeInitBoltDB`: create and fill the DB under a temporary name, fsync it, rename, fsync the directory -/
def metaInit (tmp final : String) : List Sys :=
  [.openCreat tmp, .pwrite tmp, .fsync tmp, .rename tmp final, .fsyncDir]

/-! ## `fs.File.Sync` when a system call fails

The handle returned by `Create` / `OpenWriter` carries the `new` flag (`isNew`): the directory is fsynced by `Sync` as
long as it is set.  Either fsync may fail; `Sync` then returns the error and the caller may call it again. -/

structure Handle where
  name  : String
  isNew : Bool := true
  deriving Repr, DecidableEq

/-- what the kernel answers to the (up to) two fsyncs of one `Sync` call -/
structure SyncOutcome where
  fileOk : Bool
  dirOk  : Bool
  deriving Repr, DecidableEq

/-- the point of `File.Sync` at which the `new` flag is cleared (read from fs/file.go by the fact extractor) -/
inductive FlagPolicy
  | beforeFileSync    -- before the file's fsync is known to have succeeded
  | afterFileSync     -- after the file's fsync, before the directory's fsync is known to have succeeded
  | afterDirSync      -- only once the directory's fsync has succeeded
  deriving Repr, DecidableEq

def FlagPolicy.ofCode : Nat → FlagPolicy
  | 0 => .beforeFileSync
  | 1 => .afterFileSync
  | _ => .afterDirSync

/-- `fs.File.Sync()`: (handle afterwards, the system calls that took effect, returned nil?) -/
def fileSync (pol : FlagPolicy) (h : Handle) (o : SyncOutcome) : Handle × List Sys × Bool :=
  match pol with
  | .afterDirSync =>
    if !o.fileOk then (h, [], false)
    else if h.isNew then
      if o.dirOk then ({ h with isNew := false }, [.fsync h.name, .fsyncDir], true) else (h, [.fsync h.name], false)
    else (h, [.fsync h.name], true)
  | .afterFileSync =>
    if !o.fileOk then (h, [], false)
    else if h.isNew then
      if o.dirOk then ({ h with isNew := false }, [.fsync h.name, .fsyncDir], true)
      else ({ h with isNew := false }, [.fsync h.name], false)
    else (h, [.fsync h.name], true)
  | .beforeFileSync =>
    if !o.fileOk then ({ h with isNew := false }, [], false)
    else if h.isNew then
      if o.dirOk then ({ h with isNew := false }, [.fsync h.name, .fsyncDir], true)
      else ({ h with isNew := false }, [.fsync h.name], false)
    else (h, [.fsync h.name], true)

/-- what a caller does with one handle: write to the file, or Sync (with the kernel's answers) -/
inductive HOp
  | write
  | sync (o : SyncOutcome)
  deriving Repr, DecidableEq

/-- one call on the handle: (OS state, handle) afterwards and, for a Sync, whether it returned nil -/
def hstep (pol : FlagPolicy) (s : OState) (h : Handle) : HOp → Option (OState × Handle × Option Bool)
  | .write => (exec s (.pwrite h.name)).map (fun s' => (s', h, none))
  | .sync o =>
    let (h', calls, ack) := fileSync pol h o
    (run s calls).map (fun s' => (s', h', some ack))

/-- a history of calls on one handle; the answer of the last call -/
def hrun (pol : FlagPolicy) (s : OState) (h : Handle) : List HOp → Option (OState × Handle × Option Bool)
  | [] => some (s, h, none)
  | [op] => hstep pol s h op
  | op :: ops => match hstep pol s h op with
    | none => none
    | some (s', h', _) => hrun pol s' h' ops

/-! ## `fs.FS.Delete` when a system call fails: the caller may call it again -/

/-- `Delete(dir, name)` in state `s`; `dirOk`: the kernel's answer to the directory fsync.
    unlink fails (ENOENT) when the name is already gone: the error is returned, nothing else happens -/
def fsDeleteF (s : OState) (name : String) (dirOk : Bool) : List Sys × Bool :=
  if !(s.get name).exist then ([], false)
  else if dirOk then ([.unlink name, .fsyncDir], true) else ([.unlink name], false)

/-- one Delete call: the state afterwards and whether it returned nil -/
def dstep (s : OState) (name : String) (dirOk : Bool) : Option (OState × Bool) :=
  let (calls, ack) := fsDeleteF s name dirOk
  (run s calls).map (fun s' => (s', ack))

/-- successive Delete calls for one name; the answer of the last one -/
def drun (s : OState) (name : String) : List Bool → Option (OState × Option Bool)
  | [] => some (s, none)
  | [o] => (dstep s name o).map (fun r => (r.1, some r.2))
  | o :: os => match dstep s name o with
    | none => none
    | some (s', _) => drun s' name os

end RaftWal.OsFs
