/-
  Model/WalRunX.lean — the operation language extended with the StableStore calls, final states of runs,
  and the "true totals" of C20 computed from the reference log only.
-/
import RaftWal.Model.WalRun
namespace RaftWal

/-- log operations plus StableStore operations -/
inductive XOp
  | log (op : Op)
  | set (k : Bytes) (v : Option Bytes)     -- Set(k, v); `none` = nil value (deletes)
  | getk (k : Bytes)
  | setu (k : Bytes) (v : Nat)
  | getu (k : Bytes)
  deriving Repr

inductive XAns
  | log (a : Ans)
  | ok
  | bytes (v : Option Bytes)
  | nat (n : Nat)
  | closed
  | rejected
  deriving Repr, DecidableEq

def Err.xans : Err → XAns
  | .closed => .closed
  | _ => .rejected

def Wal.xstep (w : Wal) : XOp → Wal × XAns
  | .log op => let (w', a) := w.step op; (w', .log a)
  | .set k v => let (w', e) := w.setStable k v; (w', match e with | none => .ok | some e => e.xans)
  | .getk k => let (w', r) := w.getStable k; (w', match r with | .ok v => .bytes v | .error e => e.xans)
  | .setu k v => let (w', e) := w.setUint64 k v; (w', match e with | none => .ok | some e => e.xans)
  | .getu k => let (w', r) := w.getUint64 k; (w', match r with | .ok n => .nat n | .error e => e.xans)

/-- final state of a run -/
def Wal.xrunState (w : Wal) (ops : List XOp) : Wal := ops.foldl (fun w op => (w.xstep op).1) w

def XOp.inRange : XOp → Prop
  | .log op => op.inRange
  | _ => True

/-- the reference StableStore: a map from key to value; `Set(k, nil)` removes the key -/
abbrev SMap := List (Bytes × Bytes)

def SMap.set (m : SMap) (k : Bytes) (v : Option Bytes) : SMap :=
  let rest := m.filter (·.1 ≠ k)
  match v with | none => rest | some v => rest ++ [(k, v)]

def SMap.get (m : SMap) (k : Bytes) : Option Bytes := (m.find? (·.1 = k)).map (·.2)

/-- C20 "true totals", computed from the reference log and the answers only -/
structure Totals where
  appends  : Nat := 0
  entriesW : Nat := 0
  bytesW   : Nat := 0
  entriesR : Nat := 0
  bytesR   : Nat := 0
  head     : Nat := 0
  tail     : Nat := 0
  gets     : Nat := 0
  sets     : Nat := 0
  deriving Repr, DecidableEq

/-- how the reference log and the totals evolve under one call -/
def specTotalsStep (s : Spec.SLog) (t : Totals) : XOp → Spec.SLog × Totals
  | .log (.store logs) =>
    let (s', e) := s.store logs
    (s', if e.isNone ∧ ¬ logs.isEmpty then
            { t with appends := t.appends + 1, entriesW := t.entriesW + logs.length, bytesW := t.bytesW + (logs.map encLen).sum }
          else t)
  | .log (.del mn mx) =>
    let (s', e) := s.delete mn mx
    let removed := s.entries.length - s'.entries.length
    (s', if e.isSome ∨ removed = 0 then t
          else if mn ≤ s.firstIndex then { t with head := t.head + removed } else { t with tail := t.tail + removed })
  | .log (.get i) =>
    (s, if s.closed then t else
          match s.get i with
          | .ok l => { t with entriesR := t.entriesR + 1, bytesR := t.bytesR + encLen l }
          | .error _ => { t with entriesR := t.entriesR + 1 })
  | .log op => ((s.step op).1, t)
  | .set _ _ => (s, if s.closed then t else { t with sets := t.sets + 1 })
  | .setu _ _ => (s, if s.closed then t else { t with sets := t.sets + 1 })
  | .getk _ => (s, if s.closed then t else { t with gets := t.gets + 1 })
  | .getu _ => (s, if s.closed then t else { t with gets := t.gets + 1 })

def specTotals (ops : List XOp) : Spec.SLog × Totals :=
  ops.foldl (fun (st : Spec.SLog × Totals) op => specTotalsStep st.1 st.2 op) ({ first := 0, entries := [] }, {})

def Counters.totals (c : Counters) : Totals :=
  { appends := c.appends, entriesW := c.entriesW, bytesW := c.bytesW, entriesR := c.entriesR, bytesR := c.bytesR,
    head := c.headTrunc, tail := c.tailTrunc, gets := c.stableGets, sets := c.stableSets }

end RaftWal
