/-
  Model/Conc.lean — small-step model of the WAL's lock-free read path against the single writer and Close
  (wal.go: checkClosed / acquireState / release / mutateStateLocked / Close; state.go: acquire / release and the
  finalizer swap).  One shared-memory access per step; a schedule is a list of thread ids.

  What is modelled: the `closed` flag, the atomic state pointer, per state object the reference count and the
  finalizer slot (unset → set → taken), which files each state references, which file handles are open, the
  write lock.  What a read returns is abstracted to: which state object it used and whether the file it needed
  was still open when it read it.

  Shared state objects are immutable except refCount and the finalizer slot, exactly as in the code.
-/
namespace RaftWal.Conc

abbrev FileId := Nat

inductive Fin
  | unset
  | set (closes : List FileId)   -- finalizer attached: closes (and for truncations deletes) these files
  | taken
  deriving Repr, DecidableEq

/-- a `*state` object -/
structure Obj where
  refCount : Nat := 0
  fin      : Fin := .unset
  files    : List FileId := []   -- segment files this snapshot can read from
  empty    : Bool := false       -- the `state{}` Close stores (nil segment map, nil tail)
  deriving Repr, DecidableEq

inductive RRes
  | ok              -- value read from an open file of the snapshot
  | notFound        -- index not in the snapshot
  | errClosed
  | errFile         -- "file already closed"
  | panic           -- nil dereference on the empty state
  deriving Repr, DecidableEq

/-- program counter of a reader (GetLog for the entry stored in file `want`) -/
inductive RPc
  | start                       -- before the closed check
  | checked                     -- closed check passed; next: load the state pointer
  | loaded (sid : Nat)          -- holds the pointer, has not taken a reference yet
  | acquired (sid : Nat)        -- refCount incremented; next: look at the snapshot / read the file
  | finished (sid : Nat) (res : RRes)   -- read done; next: release (decrement, maybe run the finalizer)
  | done (res : RRes)
  deriving Repr, DecidableEq

structure Reader where
  pc   : RPc := .start
  want : FileId := 0
  deriving Repr, DecidableEq

/-- a state change the writer performs under the lock (truncation / rotation): the successor snapshot keeps
    `keep ⊆ files(cur)` and adds `add` (fresh files) -/
structure Mutation where
  keep : List FileId
  add  : List FileId
  deriving Repr, DecidableEq

inductive WPc
  | idle
  | locked                                -- writeMu taken, closed re-checked
  | held (sid : Nat)                      -- loaded cur and took a reference (mutateStateLocked)
  | published (sid : Nat)                 -- successor stored in the state pointer; finalizer not yet attached
  | finSet (sid : Nat)                    -- finalizer attached to the replaced state; next: release it
  deriving Repr, DecidableEq

inductive CPc
  | idle
  | flagged                               -- closed := 1 done; waiting for the lock
  | locked
  | held (sid : Nat)
  | published (sid : Nat)                 -- empty state stored
  | finSet (sid : Nat)
  | done
  deriving Repr, DecidableEq

/-- configuration read from the source: do readers check for the empty state after acquiring (the repaired code)
    or dereference it (the pinned code)? -/
structure Cfg where
  readersCheckEmpty : Bool
  deriving Repr, DecidableEq

structure Sys where
  closed   : Bool := false
  cur      : Nat := 0
  objs     : List Obj := [{}]
  closedFiles : List FileId := []     -- handles that have been closed (finalizers ran)
  doubleClose : Bool := false         -- some handle was closed twice
  lock     : Bool := false            -- writeMu held
  readers  : List Reader := []
  wpc      : WPc := .idle
  wqueue   : List Mutation := []      -- mutations the writer still has to perform
  cpc      : CPc := .idle
  deriving Repr, DecidableEq

inductive Tid
  | reader (i : Nat)
  | writer
  | closer
  deriving Repr, DecidableEq

def Sys.obj (s : Sys) (i : Nat) : Obj := s.objs.getD i {}
def Sys.setObj (s : Sys) (i : Nat) (o : Obj) : Sys := { s with objs := s.objs.set i o }
def Sys.isOpen (s : Sys) (f : FileId) : Bool := ¬ s.closedFiles.contains f

def Sys.closeFiles (s : Sys) (fs : List FileId) : Sys :=
  { s with doubleClose := s.doubleClose || fs.any (fun f => s.closedFiles.contains f)
         , closedFiles := s.closedFiles ++ fs }

/-- `state.release`: decrement; at zero swap the finalizer out and run it -/
def Sys.release (s : Sys) (sid : Nat) : Sys :=
  let o := s.obj sid
  let o' := { o with refCount := o.refCount - 1 }
  if o'.refCount = 0 then
    match o'.fin with
    | .set closes => (s.setObj sid { o' with fin := .taken }).closeFiles closes
    | _ => s.setObj sid o'
  else s.setObj sid o'

/-- one step of reader `i` -/
def stepReader (cfg : Cfg) (s : Sys) (i : Nat) : Sys :=
  match s.readers[i]? with
  | none => s
  | some r =>
    let upd (r' : Reader) (s' : Sys) : Sys := { s' with readers := s'.readers.set i r' }
    match r.pc with
    | .start => if s.closed then upd { r with pc := .done .errClosed } s else upd { r with pc := .checked } s
    | .checked => upd { r with pc := .loaded s.cur } s
    | .loaded sid =>
      let o := s.obj sid
      upd { r with pc := .acquired sid } (s.setObj sid { o with refCount := o.refCount + 1 })
    | .acquired sid =>
      let o := s.obj sid
      let res : RRes :=
        if o.empty then (if cfg.readersCheckEmpty then .errClosed else .panic)
        else if ¬ o.files.contains r.want then .notFound
        else if s.isOpen r.want then .ok
        else if s.closed then .errClosed      -- a file error seen while closed is reported as ErrClosed
        else .errFile
      upd { r with pc := .finished sid res } s
    | .finished sid res => upd { r with pc := .done res } (s.release sid)
    | .done _ => s

/-- one step of the writer performing its next queued mutation -/
def stepWriter (s : Sys) : Sys :=
  match s.wpc with
  | .idle =>
    match s.wqueue with
    | [] => s
    | _ :: _ => if s.lock then s else
        -- lock taken; closed is re-checked under the lock
        if s.closed then { s with wqueue := [] } else { s with lock := true, wpc := .locked }
  | .locked =>
    let o := s.obj s.cur
    { (s.setObj s.cur { o with refCount := o.refCount + 1 }) with wpc := .held s.cur }
  | .held sid =>
    match s.wqueue with
    | [] => s
    | m :: _ =>
      let old := s.obj sid
      let newObj : Obj := { files := m.keep.filter (fun f => old.files.contains f) ++ m.add }
      { s with objs := s.objs ++ [newObj], cur := s.objs.length, wpc := .published sid }
  | .published sid =>
    let old := s.obj sid
    let new := s.obj s.cur
    (s.setObj sid { old with fin := .set (old.files.filter (fun f => ¬ new.files.contains f)) }) |>
      fun s' => { s' with wpc := .finSet sid }
  | .finSet sid =>
    { (s.release sid) with wpc := .idle, lock := false, wqueue := s.wqueue.tail }

/-- one step of Close -/
def stepCloser (s : Sys) : Sys :=
  match s.cpc with
  | .idle => if s.closed then { s with cpc := .done } else { s with closed := true, cpc := .flagged }
  | .flagged => if s.lock then s else { s with lock := true, cpc := .locked }
  | .locked =>
    let o := s.obj s.cur
    { (s.setObj s.cur { o with refCount := o.refCount + 1 }) with cpc := .held s.cur }
  | .held sid =>
    { s with objs := s.objs ++ [{ empty := true }], cur := s.objs.length, cpc := .published sid }
  | .published sid =>
    let old := s.obj sid
    { (s.setObj sid { old with fin := .set old.files }) with cpc := .finSet sid }
  | .finSet sid => { (s.release sid) with cpc := .done, lock := false }
  | .done => s

def step (cfg : Cfg) (s : Sys) : Tid → Sys
  | .reader i => stepReader cfg s i
  | .writer => stepWriter s
  | .closer => stepCloser s

def run (cfg : Cfg) (s : Sys) (sched : List Tid) : Sys := sched.foldl (step cfg) s

/-- initial system: one current state referencing `files`, `n` readers each wanting some file, a writer with a
    queue of mutations -/
def init (files : List FileId) (wants : List FileId) (muts : List Mutation) : Sys :=
  { objs := [{ files := files }], readers := wants.map (fun w => { want := w }), wqueue := muts }

end RaftWal.Conc
