/-
  Model/Fault.lean — I/O errors at the level of the durability protocol (L2 fault model, C10).

  Model/Crash.lean says which I/O actions every API call performs and what a crash at any point leaves.  Here one of
  those actions FAILS (returns an error to the code) and the process lives on: what the call returns, what readers of the
  running process see afterwards, what the following calls do on top of what the failed one left behind, and what a clean
  restart recovers.  Read from wal.go / segment/writer.go:

  * a failing pwrite or fsync inside Append / ForceSeal: the writer rolls its in-memory state back (offsets, commit index,
    write offset, seal flag); the call returns the error; whatever reached the file stays there, beyond the writer's
    offset, until the next write goes over it.  Readers never see it (reads are gated on the commit index).  A restart
    may find the batch whole — the failed call is then applied in full.
  * a failing meta commit: `mutateStateLocked` returns before anything is published; nothing changed, except that a
    ForceSeal that preceded it (tail truncation) or the sealing append (background rotation) has sealed the tail writer.
    With a sealed tail writer Append answers ErrSealed until a truncation or a restart replaces the tail.
  * a failing Create after the commit (`postCommit`): the new state is durable but cannot be published; the process
    stops accepting writes (`writeErr`) and keeps serving reads from the state published before; nothing is deleted.
  * a failing Delete is logged and otherwise ignored (the next Open removes the file).
  * the deletion of the tail replaced by a base-index reset happens when StoreLogs releases the replaced state: when it
    returns, whether or not its append succeeded.
  * errors of the background rotation are logged; the append that queued it has already returned nil.

  The in-memory view of a file is its fsynced content (`synced`): in a live process a file's `pending` is only ever a
  batch that a failed call left behind (a successful append fsyncs before it returns).  Programs are therefore computed
  on the disk as the process believes it to be (`vdisk`), and performed on the disk as it is.
-/
import RaftWal.Model.Crash
namespace RaftWal.Fault
open RaftWal.Crash

/-- what a failing pwrite leaves beyond the writer's offset -/
inductive WriteFail
  | nothing   -- no byte reached the file: what was there stays
  | garbage   -- part of the batch: whatever was there no longer decodes
  | whole     -- every byte (the error came late, e.g. from a short final write that was retried, or the fsync)
  deriving Repr, DecidableEq, Inhabited

structure Proc where
  disk   : Disk
  /-- `some segs`: a committed state change could not be completed; the process refuses writes and keeps serving
      reads from the segment list it had published before -/
  frozen : Option (List Seg) := none
  deriving Repr, DecidableEq, Inhabited

/-- a file as the running process believes it to be: nothing beyond the writer's offset -/
def vfile (f : File) : File := { f with pending := [], sealedP := false }
def vdisk (d : Disk) : Disk := { d with files := d.files.map vfile }

/-- the log readers of the running process see -/
def view (p : Proc) : List (Nat × Entry) :=
  absLog { md := { p.disk.md with segs := p.frozen.getD p.disk.md.segs }, files := (vdisk p.disk).files }

/-- the tail writer is sealed in memory although the published state has the tail unsealed (a ForceSeal or a sealing
    append completed, the meta commit that should have followed failed) -/
def tailSealedMem (d : Disk) : Bool :=
  match d.md.segs.getLast? with
  | none => false
  | some t => !t.sealed && (match d.file? t.id with | some f => f.sealedS | none => false)

/-- a pwrite goes to the writer's offset: over whatever a failed call left there -/
def applyF (d : Disk) : Act → Disk
  | .write id es sealing =>
    { d with files := updFile d.files id (fun f => { f with pending := es, sealedP := sealing }) }
  | a => d.apply a

/-- the effect of an action that fails -/
def failEffect (d : Disk) (wf : WriteFail) : Act → Disk
  | .write id es sealing =>
    match wf with
    | .nothing => d
    | .garbage => { d with files := updFile d.files id (fun f => { f with pending := [], sealedP := false }) }
    | .whole => applyF d (.write id es sealing)
  | _ => d

/-- the fault plan of a call: for each I/O action the call gets to, in order, whether it fails (`some wf`; `wf` says what a
    failing pwrite leaves behind) — actions beyond the end of the plan succeed -/
abbrev Plan := List (Option WriteFail)

/-- perform `as` in order under the plan.  A failing Delete is ignored (and the plan goes on).  Any other failing action
    ends this list of actions.  Result: the disk, the action that failed (if any, other than a Delete), the rest of the plan
    (for what the call still does afterwards). -/
def runActs (d : Disk) : List Act → Plan → Disk × Option Act × Plan
  | [], pl => (d, none, pl)
  | a :: as, [] => runActs (applyF d a) as []
  | a :: as, none :: pl => runActs (applyF d a) as pl
  | a :: as, some wf :: pl =>
    match a with
    | .delete _ => runActs d as pl
    | _ => (failEffect d wf a, some a, pl)

def isCreate : Act → Bool
  | .create _ _ => true
  | _ => false

/-- tail truncation as the process performs it: ForceSeal is a no-op on a writer that is already sealed -/
def delTailActs (v : Disk) (newMax : Nat) : List Act :=
  let kept := v.md.segs.filter (fun s => decide (s.base ≤ newMax))
  let dropped := v.md.segs.filter (fun s => !decide (s.base ≤ newMax))
  match kept.getLast? with
  | none => []
  | some t =>
    let fsealed := match v.file? t.id with | some f => f.sealedS | none => false
    let force : List Act := if t.sealed || fsealed then [] else [.write t.id [] true, .fsync t.id]
    let t' := { t with sealed := true, max := newMax }
    force ++ newTailActs v.md (setSeg kept t') (newMax + 1) ++ dropped.map (fun s => .delete s.id)

/-- one API call under a fault plan (any number of its I/O actions may fail): the process afterwards, and whether the
    call returned nil -/
def runOp (p : Proc) (op : Op) (pl : Plan) : Proc × Bool :=
  match op with
  | .set key val =>
    -- the stable store does not go through the WAL's state: it works in a stopped process too
    let (d1, f, _) := runActs p.disk [.commit { p.disk.md with stable := upsert p.disk.md.stable key val }] pl
    ({ p with disk := d1 }, f.isNone)
  | .store first es seals =>
    if p.frozen.isSome then (p, false) else
    let v := vdisk p.disk
    let (a1, del) := resetActs v first
    let (d1, f1, k1) := runActs p.disk a1 pl
    match f1 with
    | some a => if isCreate a then ({ disk := d1, frozen := some p.disk.md.segs }, false) else ({ disk := d1 }, false)
    | none =>
      let v1 := vdisk d1
      match v1.md.segs.getLast? with
      | none => ({ disk := d1 }, false)
      | some t =>
        if tailSealedMem v1 then ({ disk := d1 }, false)            -- Append: ErrSealed, no I/O
        else
          let (d2, f2, k2) := runActs d1 [.write t.id es seals, .fsync t.id] k1
          let (d3, _, k3) := runActs d2 del k2                    -- StoreLogs releases the replaced state
          if f2.isSome then ({ disk := d3 }, false)
          else if seals then
            -- the call has returned nil; the rotation runs in the background
            let (d4, f4, _) := runActs d3 (rotateActs (vdisk d3)) k3
            match f4 with
            | some a => if isCreate a then ({ disk := d4, frozen := some d3.md.segs }, true) else ({ disk := d4 }, true)
            | none => ({ disk := d4 }, true)
          else ({ disk := d3 }, true)
  | .delHead newMin =>
    if p.frozen.isSome then (p, false) else
    let as := (delHeadProg (vdisk p.disk) newMin).filter (· != .ack)
    let (d1, f, _) := runActs p.disk as pl
    match f with
    | some a => if isCreate a then ({ disk := d1, frozen := some p.disk.md.segs }, false) else ({ disk := d1 }, false)
    | none => ({ disk := d1 }, true)
  | .delTail newMax =>
    if p.frozen.isSome then (p, false) else
    let as := delTailActs (vdisk p.disk) newMax
    let (d1, f, _) := runActs p.disk as pl
    match f with
    | some a => if isCreate a then ({ disk := d1, frozen := some p.disk.md.segs }, false) else ({ disk := d1 }, false)
    | none => ({ disk := d1 }, true)

/-- a clean restart: the process exits (handles gone, page cache stays), Open runs -/
def restart (p : Proc) : Option Proc := (openResult (p.disk.crash .proc)).map (fun d => { disk := d })

def init : Option Proc := (openResult emptyDisk).map (fun d => { disk := d })

end RaftWal.Fault
