/-
  Model/Codec.lean — `BinaryCodec.Encode` / `.Decode` (codec.go) as written.

  `time.Time` is modelled by its *wire form* (what `Time.MarshalBinary` emits and
  `Time.UnmarshalBinary` accepts, Go 1.23 `time/time.go`): version byte 1|2,
  8 bytes seconds (big endian), 4 bytes nanoseconds, 2 bytes zone offset minutes
  (-1 = UTC), and for version 2 one more byte of offset seconds.
  `Log.time = none` stands for a time whose MarshalBinary fails ("unexpected
  zone offset"); that is the only way `Encode` into a `bytes.Buffer` can fail.

  The decoder is modelled with its three outcomes: ok / err / panic. The panic
  is real on the pinned tree unless repaired: `binary.Uvarint` returns n < 0 on
  overflow and `d.buf[n:]` panics.  `decodeCfg.overflowPanics` is a *generated
  fact* (T1 reads whether the decoder guards `n <= 0`).
-/
import RaftWal.Model.Bytes
namespace RaftWal

/-- wire form of a time value -/
structure WTime where
  v2     : Bool
  sec    : Nat   -- < 2^64 (raw two's complement of the int64 seconds since year 1)
  nsec   : Nat   -- < 2^32
  offMin : Nat   -- < 2^16 (raw int16)
  offSec : Nat   -- < 2^8, only meaningful when v2
  deriving Repr, DecidableEq, Inhabited

def WTime.wf (t : WTime) : Prop :=
  t.sec < 2^64 ∧ t.nsec < 2^32 ∧ t.offMin < 2^16 ∧ t.offSec < 2^8 ∧ (t.v2 = false → t.offSec = 0)

instance (t : WTime) : Decidable t.wf := by unfold WTime.wf; infer_instance

def WTime.bytes (t : WTime) : Bytes :=
  [if t.v2 then 2 else 1] ++ putBE 8 t.sec ++ putBE 4 t.nsec ++ putBE 2 t.offMin ++
    (if t.v2 then [t.offSec.toUInt8] else [])

/-- zone offset in seconds as `UnmarshalBinary` computes it:
    `int(int16(offMin))*60 (+ int(offSec) for version 2)`; `-60` means UTC. -/
def WTime.rawOffset (t : WTime) : Int :=
  (if t.offMin < 2^15 then (t.offMin : Int) else (t.offMin : Int) - 2^16) * 60 + (if t.v2 then (t.offSec : Int) else 0)

/-- the zero `time.Time{}` marshals as version 1, sec 0, nsec 0, UTC (-1) -/
def WTime.zero : WTime := { v2 := false, sec := 0, nsec := 0, offMin := 0xffff, offSec := 0 }

structure Log where
  index : Nat          -- uint64
  term  : Nat          -- uint64
  typ   : Nat          -- raft.LogType = uint8
  data  : Bytes        -- nil and empty are identified (decoder returns nil for length 0)
  ext   : Bytes
  time  : Option WTime -- none: MarshalBinary fails
  deriving Repr, DecidableEq, Inhabited

def Log.wf (l : Log) : Prop :=
  l.index < 2^64 ∧ l.term < 2^64 ∧ l.typ < 2^8 ∧ (∀ t, l.time = some t → t.wf)

/-- `BinaryCodec.Encode`; `none` = error returned. -/
def encode (l : Log) : Option Bytes :=
  match l.time with
  | none => none
  | some t =>
    some (putUvarint l.index ++ putUvarint l.term ++ putUvarint l.typ ++
          putUvarint l.data.length ++ l.data ++
          putUvarint l.ext.length ++ l.ext ++ t.bytes)

inductive DecRes
  | ok (l : Log)
  | err
  | panic
  deriving Repr, DecidableEq

/-- configuration of the decoder read from the source by the fact extractor -/
structure DecodeCfg where
  /-- `decoder.varint` slices `d.buf[n:]` without checking `n`'s sign: a uvarint
      overflow panics.  When false the decoder turns `n <= 0` into an error. -/
  overflowPanics : Bool
  /-- when `overflowPanics = false`: is a short varint (`n = 0`) an error (true)
      or silently 0 as in the pinned code (false)? -/
  shortIsErr : Bool
  deriving Repr, DecidableEq

/-- decoder state: remaining buffer and sticky error -/
structure Dec where
  buf : Bytes
  err : Bool
  deriving Repr

/-- `decoder.varint`. `none` = panic. -/
def Dec.varint (cfg : DecodeCfg) (d : Dec) : Option (Nat × Dec) :=
  if d.err then some (0, d) else
  match uvarint d.buf with
  | .ok v rest => some (v, { d with buf := rest })
  | .short => if cfg.shortIsErr then some (0, { d with err := true }) else some (0, d)   -- `d.buf[0:]`
  | .overflow => if cfg.overflowPanics then none else some (0, { d with err := true })

/-- `decoder.bytes`. -/
def Dec.bytes (cfg : DecodeCfg) (d : Dec) : Option (Bytes × Dec) :=
  match d.varint cfg with
  | none => none
  | some (n, d) =>
    if d.err then some ([], d)
    else if n = 0 then some ([], d)
    else if n > d.buf.length then some ([], { d with err := true })
    else some (d.buf.take n, { d with buf := d.buf.drop n })

/-- `Time.UnmarshalBinary` on the whole remaining buffer. `none` = error. -/
def unmarshalTime (buf : Bytes) : Option WTime :=
  match buf with
  | [] => none
  | v :: rest =>
    if v ≠ 1 ∧ v ≠ 2 then none
    else
      let want := if v = 2 then 15 else 14
      if rest.length ≠ want then none
      else some { v2 := v = 2
                , sec := getLE ((rest.take 8).reverse)
                , nsec := getLE (((rest.drop 8).take 4).reverse)
                , offMin := getLE (((rest.drop 12).take 2).reverse)
                , offSec := if v = 2 then (rest.drop 14).headD 0 |>.toNat else 0 }

/-- `BinaryCodec.Decode`. -/
def decode (cfg : DecodeCfg) (bs : Bytes) : DecRes :=
  let d : Dec := { buf := bs, err := false }
  match d.varint cfg with
  | none => .panic
  | some (index, d) =>
  match d.varint cfg with
  | none => .panic
  | some (term, d) =>
  match d.varint cfg with
  | none => .panic
  | some (typ, d) =>
  match d.bytes cfg with
  | none => .panic
  | some (data, d) =>
  match d.bytes cfg with
  | none => .panic
  | some (ext, d) =>
    if d.err then .err
    else match unmarshalTime d.buf with
      | none => .err
      | some t => .ok { index := index, term := term, typ := typ % 256, data := data, ext := ext, time := some t }

end RaftWal
