/-
  Model/Bytes.lean — byte-level primitives the Go code uses:
  little-endian put/get (encoding/binary.LittleEndian), uvarint
  (encoding/binary.PutUvarint / Uvarint with Go's exact return protocol),
  CRC-32C (hash/crc32 Castagnoli, Update/Checksum), big-endian u64 bytes
  (fnv1a.AddUint64 feeds the most significant byte first).

  Core Lean only: this file is linked into the driver executable.
-/
namespace RaftWal

abbrev Bytes := List UInt8

/-! ## little endian -/

/-- `n` little-endian bytes of `v` (the value is truncated to `n` bytes, as the Go
    `PutUintNN` on a `uintNN` does). -/
def putLE : Nat → Nat → Bytes
  | 0, _ => []
  | n+1, v => (v % 256).toUInt8 :: putLE n (v / 256)

/-- little-endian value of a byte string -/
def getLE : Bytes → Nat
  | [] => 0
  | b :: bs => b.toNat + 256 * getLE bs

/-- `n` big-endian bytes of `v`. -/
def putBE (n : Nat) (v : Nat) : Bytes := (putLE n v).reverse

def zeros (n : Nat) : Bytes := List.replicate n 0

/-! ## uvarint -/

/-- Go's `binary.PutUvarint`. -/
def putUvarint (v : Nat) : Bytes :=
  if _h : v < 128 then [v.toUInt8] else (v % 128 + 128).toUInt8 :: putUvarint (v / 128)
termination_by v
decreasing_by omega

/-- outcome of Go's `binary.Uvarint`: `(value, n)` with `n > 0` bytes consumed,
    `n = 0` buffer too small (value 0), `n < 0` overflow (value 0). -/
inductive UvRes
  | ok (v : Nat) (rest : Bytes)   -- n > 0; `rest = buf[n:]`
  | short                          -- n = 0
  | overflow                       -- n < 0
  deriving Repr, DecidableEq

def uvarintAux : (i : Nat) → (shift : Nat) → (acc : Nat) → Bytes → UvRes
  | _, _, _, [] => .short
  | i, s, x, b :: rest =>
    if i = 10 then .overflow
    else if b < 0x80 then
      if i = 9 ∧ b > 1 then .overflow
      else .ok (x + b.toNat * 2 ^ s) rest
    else uvarintAux (i+1) (s+7) (x + (b.toNat % 128) * 2 ^ s) rest

def uvarint (bs : Bytes) : UvRes := uvarintAux 0 0 0 bs

/-! ## CRC-32C (Castagnoli), bitwise, reflected polynomial 0x82F63B78 -/

def crcBit (c : UInt32) : UInt32 :=
  if c &&& 1 == 1 then (c >>> 1) ^^^ 0x82F63B78 else c >>> 1

def crcByte (c : UInt32) (b : UInt8) : UInt32 :=
  let c := c ^^^ b.toUInt32
  crcBit (crcBit (crcBit (crcBit (crcBit (crcBit (crcBit (crcBit c)))))))

/-- Go's `crc32.Update(crc, castagnoliTable, p)`. -/
def crcUpdate (crc : UInt32) (p : Bytes) : UInt32 :=
  ~~~ (p.foldl crcByte (~~~ crc))

/-- Go's `crc32.Checksum(p, castagnoliTable)`. -/
def crc32c (p : Bytes) : UInt32 := crcUpdate 0 p

/-! ## slicing helpers with Go `ReadAt` semantics -/

/-- `ReadAt(buf[:n], off)` on a file: the bytes read (shorter than `n` ⇒ `io.EOF`). -/
def readAt (file : Bytes) (off n : Nat) : Bytes := (file.drop off).take n

/-- `WriteAt(p, off)`: overwrite, extending the file with zeros if needed. -/
def writeAt (file : Bytes) (off : Nat) (p : Bytes) : Bytes :=
  let file := if file.length < off then file ++ zeros (off - file.length) else file
  file.take off ++ p ++ file.drop (off + p.length)

end RaftWal
