/-
  Model/Frame.lean — segment/format.go as written: file header, frame header,
  padding arithmetic, entry / index / commit frames.
-/
import RaftWal.Model.Bytes
namespace RaftWal

def fileHeaderLen : Nat := 32
def frameHeaderLen : Nat := 8
def magic : Nat := 0x58eb6b0d
def formatVersion : Nat := 0
def maxEntrySize : Nat := 64 * 1024 * 1024
def minBufSize : Nat := 64 * 1024

def frameInvalid : Nat := 0
def frameEntry : Nat := 1
def frameIndex : Nat := 2
def frameCommit : Nat := 3

/-- `padLen(n) = (8 - n % 8) & 7` -/
def padLen (n : Nat) : Nat := (frameHeaderLen - n % frameHeaderLen) % frameHeaderLen

def encodedFrameSize (payloadLen : Nat) : Nat := frameHeaderLen + payloadLen + padLen payloadLen

def indexFrameSize (numEntries : Nat) : Nat :=
  if numEntries = 0 then 0 else encodedFrameSize (numEntries * 4)

/-- the three header fields a segment file header carries -/
structure HdrInfo where
  base  : Nat
  id    : Nat
  codec : Nat
  deriving Repr, DecidableEq, Inhabited

/-- `writeFileHeader` (32 bytes) -/
def fileHeader (h : HdrInfo) : Bytes :=
  putLE 4 magic ++ [0, 0, 0, formatVersion.toUInt8] ++ putLE 8 h.base ++ putLE 8 h.id ++ putLE 8 h.codec

/-- `readFileHeader`: `none` = ErrCorrupt (or short buffer). Note the code reads
    bytes 0..8 as one uint64 and compares with the 32-bit magic, so the three
    reserved bytes and the version byte must all be zero. -/
def readFileHeader (buf : Bytes) : Option HdrInfo :=
  if buf.length < fileHeaderLen then none
  else if getLE (buf.take 8) ≠ magic then none
  else if (buf.drop 7).headD 0 ≠ formatVersion.toUInt8 then none
  else some { base := getLE ((buf.drop 8).take 8), id := getLE ((buf.drop 16).take 8), codec := getLE ((buf.drop 24).take 8) }

/-- `validateFileHeader got expect` : true = nil error -/
def validateFileHeader (got expect : HdrInfo) : Bool :=
  expect.id = got.id ∧ expect.base = got.base ∧ expect.codec = got.codec

structure FrameHeader where
  typ : Nat    -- uint8
  len : Nat    -- uint32 (entry, index)
  crc : Nat    -- uint32 (commit)
  deriving Repr, DecidableEq, Inhabited

/-- `writeFrameHeader` -/
def frameHeaderBytes (h : FrameHeader) : Bytes :=
  [h.typ.toUInt8, 0, 0, 0] ++ putLE 4 (if h.typ = frameCommit then h.crc else h.len)

/-- `readFrameHeader` on an 8-byte buffer: `none` = error (corrupt);
    a zero header decodes to typ = FrameInvalid. -/
def readFrameHeader (buf : Bytes) : Option FrameHeader :=
  if buf.length < frameHeaderLen then none
  else
    let t := (buf.headD 0).toNat
    let v := getLE ((buf.drop 4).take 4)
    if t = frameInvalid then
      if buf.take frameHeaderLen = zeros frameHeaderLen then some { typ := 0, len := 0, crc := 0 } else none
    else if t = frameEntry ∨ t = frameIndex then some { typ := t, len := v, crc := 0 }
    else if t = frameCommit then some { typ := t, len := 0, crc := v }
    else none

/-- `writeFrame` for an entry: header, payload, zero padding -/
def entryFrame (payload : Bytes) : Bytes :=
  frameHeaderBytes { typ := frameEntry, len := payload.length % 2^32, crc := 0 } ++ payload ++ zeros (padLen payload.length)

/-- `writeFrame` for a commit frame with the given CRC -/
def commitFrame (crc : Nat) : Bytes :=
  frameHeaderBytes { typ := frameCommit, len := 0, crc := crc }

/-- payload of the index frame: 4 bytes LE per offset, plus 4 zero bytes when odd -/
def indexPayload (offsets : List Nat) : Bytes :=
  (offsets.map (putLE 4)).flatten ++ (if offsets.length % 2 = 1 then zeros 4 else [])

/-- `writeIndexFrame` (only called with at least one offset; `indexFrameSize 0 = 0`
    means nothing at all is written for an empty segment) -/
def indexFrame (offsets : List Nat) : Bytes :=
  if offsets.length = 0 then []
  else frameHeaderBytes { typ := frameIndex, len := offsets.length * 4, crc := 0 } ++ indexPayload offsets

/-- `FileName`: `%020d-%016x.wal` -/
def hexDigit (n : Nat) : Char := if n < 10 then Char.ofNat (48 + n) else Char.ofNat (87 + n)

def natToDigits (base : Nat) (width : Nat) (v : Nat) : List Char :=
  let rec go : Nat → Nat → List Char → List Char
    | 0, _, acc => acc
    | n+1, v, acc => go n (v / base) (hexDigit (v % base) :: acc)
  go width v []

/-- number of digits of `v` in `base` (at least 1) -/
def numDigits (base : Nat) (v : Nat) : Nat :=
  if h : v < base ∨ base < 2 then 1 else 1 + numDigits base (v / base)
termination_by v
decreasing_by
  have : ¬ (v < base ∨ base < 2) := h
  have h1 : base ≤ v := by omega
  have h2 : 2 ≤ base := by omega
  exact Nat.div_lt_self (by omega) (by omega)

/-- Go's `%0Nd` / `%0Nx`: at least N digits, more if the value needs them -/
def fmtPadded (base width v : Nat) : String :=
  String.ofList (natToDigits base (max width (numDigits base v)) v)

def fileName (base id : Nat) : String :=
  fmtPadded 10 20 base ++ "-" ++ fmtPadded 16 16 id ++ ".wal"

end RaftWal
