/-
  Model/Segment.lean — segment/writer.go, reader.go, filer.go as written, over a
  file modelled as a byte list (L1 of DESIGN §5.4).

  I/O faults: a `WriteAt` may fail after a prefix landed, a `Sync` may fail.
  Reads do not fail in the model (the fault plans of C10 do not fail reads).
-/
import RaftWal.Model.Frame
namespace RaftWal

def u32 (n : Nat) : Nat := n % 2^32
def u64 (n : Nat) : Nat := n % 2^64

/-- `types.SegmentInfo` without the wall-clock fields (`sealed` = SealTime set) -/
structure SegInfo where
  id         : Nat
  base       : Nat
  min        : Nat
  max        : Nat
  codec      : Nat
  indexStart : Nat
  sizeLimit  : Nat
  sealed     : Bool
  deriving Repr, DecidableEq, Inhabited

def SegInfo.hdr (i : SegInfo) : HdrInfo := { base := i.base, id := i.id, codec := i.codec }

/-- in-memory state of `segment.Writer` -/
structure Writer where
  info        : SegInfo
  commitBuf   : Bytes
  crc         : UInt32
  writeOffset : Nat     -- uint32
  indexStart  : Nat     -- uint64, 0 = not sealed
  offsets     : List Nat
  commitIdx   : Nat
  deriving Repr, Inhabited

inductive SegErr
  | sealed       -- types.ErrSealed
  | corrupt      -- wraps types.ErrCorrupt
  | notFound     -- types.ErrNotFound
  | io           -- injected I/O failure / EOF read errors
  | nonMonotonic -- appendEntry's index check
  | other
  deriving Repr, DecidableEq, Inhabited

/-- `initEmpty` — note it does **not** reset `indexStart`. -/
def Writer.initEmpty (w : Writer) : Writer :=
  let hdr := fileHeader w.info.hdr
  { w with writeOffset := 0, commitBuf := hdr, crc := crc32c hdr, offsets := [] }

def Writer.fresh (info : SegInfo) : Writer :=
  { info := info, commitBuf := [], crc := 0, writeOffset := 0, indexStart := 0, offsets := [], commitIdx := 0 }

/-- `createFile` after `vfs.Create` -/
def Writer.create (info : SegInfo) : Writer := (Writer.fresh info).initEmpty

/-! ## scanning (`readThroughSegment`) -/

/-- frames met by the scan loop from `off`; stops at EOF (< 8 bytes), a header
    that does not decode, or a zero header.  Fuel bounds the number of frames;
    every step advances by at least 8 bytes, so `file.length / 8 + 1` suffices. -/
def scanFrames (file : Bytes) : Nat → Nat → List (FrameHeader × Nat)
  | 0, _ => []
  | fuel+1, off =>
    let buf := readAt file off frameHeaderLen
    if buf.length < frameHeaderLen then []
    else match readFrameHeader buf with
      | none => []
      | some fh =>
        if fh.typ = frameInvalid then []
        else (fh, off) :: scanFrames file fuel (off + encodedFrameSize fh.len)

def scanFuel (file : Bytes) : Nat := file.length / 8 + 1

/-- header as `readThroughSegment` sees it: a short read leaves the rest of the
    32-byte array zero; an undecodable header becomes the zero info. -/
def scanHeader (file : Bytes) : HdrInfo :=
  let buf := readAt file 0 fileHeaderLen
  let buf := buf ++ zeros (fileHeaderLen - buf.length)
  (readFileHeader buf).getD { base := 0, id := 0, codec := 0 }

def readThroughSegment (file : Bytes) : HdrInfo × List (FrameHeader × Nat) :=
  (scanHeader file, scanFrames file (scanFuel file) fileHeaderLen)

/-! ## recovery (`recoverTail`) -/

/-- a commit frame met by the recovery scan -/
structure CommitInfo where
  crc        : Nat
  offset     : Nat
  crcStart   : Nat     -- end of the previous commit frame in scan order (0 for the first: the CRC covers the file header)
  offsetsLen : Nat     -- entry frames seen up to this commit
  indexStart : Nat     -- start of an index array seen since the previous commit (0: none)
  deriving Repr, DecidableEq, Inhabited

structure RecAcc where
  offsets      : List Nat := []     -- reversed
  pendingIndex : Nat := 0
  crcStart     : Nat := 0
  commits      : List CommitInfo := []   -- reversed: most recent first
  deriving Repr, Inhabited

def recStep (a : RecAcc) (f : FrameHeader × Nat) : RecAcc :=
  let (fh, off) := f
  if fh.typ = frameEntry then { a with offsets := u32 off :: a.offsets }
  else if fh.typ = frameIndex then { a with pendingIndex := off + frameHeaderLen }
  else if fh.typ = frameCommit then
    { a with commits := { crc := fh.crc, offset := off, crcStart := a.crcStart, offsetsLen := a.offsets.length,
                          indexStart := a.pendingIndex } :: a.commits
           , crcStart := off + frameHeaderLen
           , pendingIndex := 0 }
  else a

def commitIdxOf (base : Nat) (offsets : List Nat) : Nat :=
  if offsets.length > 0 then base + offsets.length - 1 else 0

/-- does the batch a commit frame closes validate against its CRC? -/
def commitValid (file : Bytes) (c : CommitInfo) : Bool :=
  let batch := readAt file c.crcStart (c.offset - c.crcStart)
  batch.length = c.offset - c.crcStart ∧ (crc32c batch).toNat = c.crc

/-- `clearStaleTail`: everything behind the recovered write offset is zeroed -/
def clearStale (file : Bytes) (writeOffset : Nat) : Bytes :=
  file.take writeOffset ++ zeros (file.length - writeOffset)

/-- `recoverFile` on the content of the tail file: the writer and the file as recovery leaves it
    (stale bytes behind the recovered tail are zeroed and synced). -/
def recoverTail (info : SegInfo) (file : Bytes) : Except SegErr (Writer × Bytes) :=
  let (hdr, frames) := readThroughSegment file
  let a := frames.foldl recStep {}
  let offsets := a.offsets.reverse
  -- the last commit (in scan order) whose batch is completely on disk
  match a.commits.find? (commitValid file) with
  | none =>
    let w := (Writer.fresh info).initEmpty
    .ok (w, clearStale file 0)
  | some c =>
    let w : Writer := { Writer.fresh info with
                          writeOffset := u32 (c.offset + frameHeaderLen), indexStart := c.indexStart,
                          offsets := offsets.take c.offsetsLen }
    let w := { w with commitIdx := commitIdxOf info.base w.offsets }
    if validateFileHeader hdr info.hdr then .ok (w, clearStale file w.writeOffset)
    else .error .corrupt

/-! ## appending -/

/-- I/O fault injected into one Append / ForceSeal -/
inductive IoFault
  | none
  | write (landed : Nat)   -- WriteAt fails after `landed` bytes reached the file
  | sync                   -- WriteAt ok, Sync fails
  deriving Repr, DecidableEq, Inhabited

/-- `appendFrame` for an entry -/
def Writer.appendEntry (w : Writer) (idx : Nat) (data : Bytes) : Except SegErr Writer :=
  if data.length > maxEntrySize then .error .other      -- ErrTooBig
  else if idx ≠ w.info.base + w.offsets.length then .error .nonMonotonic
  else
    let fr := entryFrame data
    .ok { w with offsets := w.offsets ++ [u32 (w.writeOffset + u32 w.commitBuf.length)]
               , commitBuf := w.commitBuf ++ fr
               , crc := crcUpdate w.crc fr }

/-- `appendIndex`; with no offsets the Go code fails with `io.ErrShortBuffer`. -/
def Writer.appendIndex (w : Writer) : Except SegErr Writer :=
  if w.offsets.length = 0 then .error .other
  else
    let fr := indexFrame w.offsets
    .ok { w with indexStart := w.writeOffset + (w.commitBuf.length + frameHeaderLen)
               , commitBuf := w.commitBuf ++ fr
               , crc := crcUpdate w.crc fr }

/-- `appendCommit` + `sync` + `flush` -/
def Writer.appendCommit (w : Writer) (file : Bytes) (fault : IoFault) : Except SegErr Writer × Bytes :=
  let fr := commitFrame w.crc.toNat
  let buf := w.commitBuf ++ fr
  match fault with
  | .write landed => (.error .io, writeAt file w.writeOffset (buf.take landed))
  | .sync => (.error .io, writeAt file w.writeOffset buf)
  | .none =>
    let file := writeAt file w.writeOffset buf
    let w := { w with writeOffset := u32 (w.writeOffset + u32 buf.length), commitBuf := [], crc := 0 }
    (.ok { w with commitIdx := commitIdxOf w.info.base w.offsets }, file)

def Writer.appendEntries (w : Writer) : List (Nat × Bytes) → Except SegErr Writer
  | [] => .ok w
  | (i, d) :: es => match w.appendEntry i d with
    | .error e => .error e
    | .ok w => w.appendEntries es

/-- does this batch need the index frame? (`Append`'s seal test, uint32 arithmetic) -/
def Writer.needSeal (w : Writer) : Bool :=
  u32 (w.writeOffset + u32 (w.commitBuf.length + indexFrameSize w.offsets.length)) > w.info.sizeLimit

/-- `Writer.Append`. Returns (error?, writer', file'). On error the writer is
    rolled back (the file keeps whatever landed). -/
def Writer.append (w : Writer) (file : Bytes) (entries : List (Nat × Bytes)) (fault : IoFault) :
    Option SegErr × Writer × Bytes :=
  if entries.isEmpty then (none, w, file)
  else if w.indexStart > 0 then (some .sealed, w, file)
  else match w.appendEntries entries with
    | .error e => (some e, w, file)
    | .ok w1 =>
      let w2 := if w1.needSeal then w1.appendIndex else .ok w1
      match w2 with
      | .error e => (some e, w, file)
      | .ok w2 =>
        match w2.appendCommit file fault with
        | (.error e, file) => (some e, w, file)
        | (.ok w3, file) => (none, { w3 with commitIdx := (entries.getLast?.map (·.1)).getD 0 }, file)

def Writer.sealedW (w : Writer) : Bool × Nat := if w.indexStart = 0 then (false, 0) else (true, w.indexStart)

/-- `ForceSeal`. On error the writer is rolled back like `Append` does (the file keeps whatever landed). -/
def Writer.forceSeal (w : Writer) (file : Bytes) (fault : IoFault) : Except SegErr Nat × Writer × Bytes :=
  if w.indexStart > 0 then (.ok w.indexStart, w, file)
  else match w.appendIndex with
    | .error e => (.error e, w, file)
    | .ok w1 => match w1.appendCommit file fault with
      | (.error e, file) => (.error e, w, file)
      | (.ok w2, file) => (.ok w2.indexStart, w2, file)

/-! ## reading -/

/-- `Reader.readFrame`: payload bytes, with read-buffer size `bufSize` (64 KiB in
    production).  Also reports whether the second read was needed. -/
def readFrame (file : Bytes) (offset : Nat) (bufSize : Nat) : Except SegErr (Bytes × Bool) :=
  let buf := readAt file offset bufSize
  if buf.length < bufSize ∧ buf.length < frameHeaderLen then .error .io
  else match readFrameHeader buf with
    | none => .error .corrupt
    | some fh =>
      if frameHeaderLen + fh.len ≤ buf.length then .ok ((buf.drop frameHeaderLen).take fh.len, false)
      else if fh.len > maxEntrySize then .error .corrupt
      else
        let p := readAt file (u32 (offset + frameHeaderLen)) fh.len
        if p.length < fh.len then .error .io else .ok (p, true)

/-- `Writer.OffsetForFrame` -/
def Writer.offsetForFrame (w : Writer) (idx : Nat) : Except SegErr Nat :=
  if idx < w.info.base ∨ idx < w.info.min ∨ idx > w.commitIdx then .error .notFound
  else match w.offsets[idx - w.info.base]? with
    | some o => .ok o
    | none => .error .other   -- would be an index-out-of-range panic

/-- `Writer.GetLog` (tail segment) -/
def Writer.getLog (w : Writer) (file : Bytes) (idx : Nat) (bufSize : Nat := minBufSize) : Except SegErr Bytes :=
  match w.offsetForFrame idx with
  | .error e => .error e
  | .ok off => (readFrame file off bufSize).map (·.1)

/-- `Reader.findFrameOffset` for a sealed segment -/
def sealedFindOffset (info : SegInfo) (file : Bytes) (idx : Nat) : Except SegErr Nat :=
  if info.indexStart = 0 then .error .other
  else if idx < info.min ∨ (info.max > 0 ∧ idx > info.max) then .error .notFound
  else
    let byteOffset := u64 (info.indexStart + u64 ((u64 (idx + 2^64 - info.base)) * 4))
    let bs := readAt file byteOffset 4
    if bs.length < 4 then .error .io else .ok (getLE bs)

/-- `Reader.GetLog` (sealed segment) -/
def sealedGetLog (info : SegInfo) (file : Bytes) (idx : Nat) (bufSize : Nat := minBufSize) : Except SegErr Bytes :=
  match sealedFindOffset info file idx with
  | .error e => .error e
  | .ok off => (readFrame file off bufSize).map (·.1)

/-- `Filer.Open` on the content of a sealed segment file: header must read fully,
    decode, and match. -/
def openSealed (info : SegInfo) (file : Bytes) : Except SegErr Unit :=
  let buf := readAt file 0 fileHeaderLen
  if buf.length < fileHeaderLen then .error .corrupt
  else match readFileHeader buf with
    | none => .error .corrupt
    | some got => if validateFileHeader got info.hdr then .ok () else .error .corrupt

/-! ## DumpSegment -/

structure DumpAcc where
  idx   : Nat
  batch : List (Nat × Nat × Nat) := []  -- (index, offset, len), in order
  out   : List (Nat × Bytes) := []      -- emitted entries, reversed
  stop  : Bool := false
  err   : Bool := false
  deriving Repr, Inhabited

/-- one callback invocation of `DumpSegment` (callback `fn` always continues) -/
def dumpStep (file : Bytes) (after before : Nat) (a : DumpAcc) (f : FrameHeader × Nat) : DumpAcc :=
  if a.stop ∨ a.err then a else
  let (fh, off) := f
  if fh.typ = frameCommit then
    let rec emit : List (Nat × Nat × Nat) → DumpAcc → DumpAcc
      | [], a => a
      | (i, o, l) :: rest, a =>
        if l > maxEntrySize then { a with err := true }
        else
          let p := readAt file (o + frameHeaderLen) l
          if p.length < l then { a with err := true }
          else emit rest { a with out := (i, p) :: a.out }
    let a := emit a.batch a
    { a with batch := [] }
  else if fh.typ ≠ frameEntry then a
  else if a.idx ≤ after then { a with idx := a.idx + 1 }
  else if before > 0 ∧ a.idx ≥ before then { a with stop := true }
  else { a with batch := a.batch ++ [(a.idx, off, fh.len)], idx := a.idx + 1 }

/-- `Filer.DumpSegment`: (entries emitted, error?) -/
def dumpSegment (file : Bytes) (base after before : Nat) : List (Nat × Bytes) × Bool :=
  let (_, frames) := readThroughSegment file
  let a := frames.foldl (dumpStep file after before) { idx := base }
  (a.out.reverse, a.err)

end RaftWal
