/-
  Model/SizeLevel.lean — the part of the segment model that depends on entry
  *sizes* only, so that the 64 MiB boundary can be compared with the real code
  without materialising 64 MiB byte lists in Lean.
-/
import RaftWal.Model.Segment
namespace RaftWal

/-- does `Writer.Append` accept an entry of `n` payload bytes? (the code refuses more than MaxEntrySize,
    the largest frame the reader is willing to read back) -/
def appendAcceptsSize (n : Nat) : Bool := n ≤ maxEntrySize

/-- will the sealing test fire for a fresh segment after a batch with these payload sizes? -/
def freshBatchSeals (sizeLimit : Nat) (sizes : List Nat) : Bool :=
  let buf := fileHeaderLen + (sizes.map encodedFrameSize).sum
  u32 (0 + u32 (buf + indexFrameSize sizes.length)) > sizeLimit

/-- which branch of `readFrame` serves a frame of `n` payload bytes when `avail` bytes are available from its
    offset: true = the single read suffices -/
def singleReadSuffices (n avail bufSize : Nat) : Bool := frameHeaderLen + n ≤ min avail bufSize

end RaftWal
