/-
  Model/Migrate.lean — migrate.CopyLogs / CopyStable as written, over abstract
  stores: the source log is a contiguous list of entries (any first index), the
  destination is the reference log; a cancellation oracle says at which loop
  iteration `ctx.Err()` starts to return non-nil.
-/
import RaftWal.Spec.Log
import RaftWal.Model.Bytes
namespace RaftWal.Migrate
open RaftWal

inductive Res | ok | ctxErr | otherErr deriving Repr, DecidableEq

structure Src where
  first   : Nat           -- FirstIndex (0 when empty)
  entries : List Log      -- entry k has index first + k
  deriving Repr

def Src.last (s : Src) : Nat := if s.entries.isEmpty then 0 else s.first + s.entries.length - 1
def Src.firstIndex (s : Src) : Nat := if s.entries.isEmpty then 0 else s.first

def Src.get (s : Src) (i : Nat) : Option Log :=
  if s.entries.isEmpty ∨ i < s.first then none else s.entries[i - s.first]?

structure CopyOut where
  res     : Res
  dst     : Spec.SLog
  batches : List (List Log)   -- what was handed to dst.StoreLogs, in order
  deriving Repr

/-- generated fact: does CopyLogs return early for an empty source (`last == 0`)? -/
structure CopyCfg where
  emptyGuard : Bool
  deriving Repr

/-- the copy loop: `fuel` iterations remain (idx runs first..last), `iter` counts iterations for the oracle -/
def copyLoop (src : Src) (batchBytes : Int) (cancelAt : Option Nat) :
    Nat → Nat → Nat → List Log → Int → Spec.SLog → List (List Log) → CopyOut
  | 0, _, _, batch, _, dst, bs =>
    -- after the loop: flush a partial batch
    if batch.isEmpty then { res := .ok, dst := dst, batches := bs }
    else
      let (dst', e) := dst.store batch
      match e with
      | some _ => { res := .otherErr, dst := dst, batches := bs ++ [batch] }
      | none => { res := .ok, dst := dst', batches := bs ++ [batch] }
  | fuel+1, idx, iter, batch, size, dst, bs =>
    if cancelAt.any (· ≤ iter) then { res := .ctxErr, dst := dst, batches := bs }
    else match src.get idx with
      | none => { res := .otherErr, dst := dst, batches := bs }
      | some l =>
        let batch := batch ++ [l]
        let size := size + (l.data.length + 32 : Nat)
        if size ≥ batchBytes then
          let (dst', e) := dst.store batch
          match e with
          | some _ => { res := .otherErr, dst := dst, batches := bs ++ [batch] }
          | none => copyLoop src batchBytes cancelAt fuel (idx + 1) (iter + 1) [] 0 dst' (bs ++ [batch])
        else copyLoop src batchBytes cancelAt fuel (idx + 1) (iter + 1) batch size dst bs

/-- `migrate.CopyLogs(ctx, dst, src, batchBytes, progress)` with dst initially `dst0` -/
def copyLogs (cfg : CopyCfg) (src : Src) (dst0 : Spec.SLog) (batchBytes : Int) (cancelAt : Option Nat) : CopyOut :=
  let first := src.firstIndex
  let last := src.last
  if cfg.emptyGuard ∧ last = 0 then { res := .ok, dst := dst0, batches := [] }
  else
    -- `for idx := first; idx <= last; idx++` runs last - first + 1 times (once, for index 0, on an empty source)
    copyLoop src batchBytes cancelAt (last - first + 1) first 0 [] 0 dst0 []

/-! ## CopyStable -/

/-- how a source store answers for an absent key -/
inductive Absent | zero | error deriving Repr, DecidableEq

structure Stable where
  ints   : List (Bytes × Nat) := []
  kvs    : List (Bytes × Bytes) := []
  absent : Absent := .zero      -- answer of `Get` for an absent key
  absentInt : Absent := .zero   -- answer of `GetUint64` for an absent key
  deriving Repr

def Stable.getU (s : Stable) (k : Bytes) : Option Nat :=
  match s.ints.find? (·.1 = k) with
  | some (_, v) => some v
  | none => if s.absentInt = .zero then some 0 else none

def Stable.get (s : Stable) (k : Bytes) : Option Bytes :=
  match s.kvs.find? (·.1 = k) with
  | some (_, v) => some v
  | none => if s.absent = .zero then some [] else none

def Stable.setU (s : Stable) (k : Bytes) (v : Nat) : Stable := { s with ints := s.ints.filter (·.1 ≠ k) ++ [(k, v)] }
def Stable.set (s : Stable) (k : Bytes) (v : Bytes) : Stable := { s with kvs := s.kvs.filter (·.1 ≠ k) ++ [(k, v)] }

def copyInts (src : Stable) (cancelAt : Option Nat) : List Bytes → Nat → Stable → Res × Stable × Nat
  | [], it, dst => (.ok, dst, it)
  | k :: ks, it, dst =>
    if cancelAt.any (· ≤ it) then (.ctxErr, dst, it)
    else match src.getU k with
      | none => (.otherErr, dst, it)
      | some v => copyInts src cancelAt ks (it + 1) (dst.setU k v)

def copyKVs (src : Stable) (cancelAt : Option Nat) : List Bytes → Nat → Stable → Res × Stable
  | [], _, dst => (.ok, dst)
  | k :: ks, it, dst =>
    if cancelAt.any (· ≤ it) then (.ctxErr, dst)
    else match src.get k with
      | none => (.otherErr, dst)
      | some v => copyKVs src cancelAt ks (it + 1) (dst.set k v)

/-- `migrate.CopyStable` with the known-key lists read from the source -/
def copyStable (knownInt known : List Bytes) (src dst : Stable) (extraKeys extraIntKeys : List Bytes) (cancelAt : Option Nat) :
    Res × Stable :=
  match copyInts src cancelAt (knownInt ++ extraIntKeys) 0 dst with
  | (.ok, dst, it) => copyKVs src cancelAt (known ++ extraKeys) it dst
  | (r, dst, _) => (r, dst)

end RaftWal.Migrate
