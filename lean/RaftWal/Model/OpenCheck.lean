/-
  Model/OpenCheck.lean — what `wal.Open` checks about the segment files the meta
  store lists, byte level: the loop over `persisted.Segments` (wal.go:152-230)
  with `Filer.Open` (sealed segments) and `Filer.RecoverTail` / `Filer.Create`
  (the tail) over a directory of byte strings.  Executable, core Lean only.

  Source mapping (paths under /repo = hashicorp/raft-wal, tree at e13d765):

  | model branch                                    | Go source                                                     |
  |-------------------------------------------------|---------------------------------------------------------------|
  | `segName`                                       | segment/filer.go:17-18, 44-46 (`%020d-%016x.wal`)             |
  | `filerOpen`: lookup = none → `.notExist`        | segment/filer.go:83-88; fs/fs.go:105-107 (`os.OpenFile`)      |
  | `filerOpen`: `readAt file 0 32`                 | segment/filer.go:93-95 (`rf.ReadAt(hdr[:], 0)`)               |
  | `filerOpen`: short read → `.corrupt`            | segment/filer.go:95-103 (io.EOF → ErrCorrupt)                 |
  | `filerOpen`: `readFileHeader` = none → corrupt  | segment/filer.go:107-111; segment/format.go:88-100            |
  |    format.go:89 len < 32; :94-96 LE u64 of bytes 0..8 ≠ magic (so magic, the 3 reserved bytes and the version  |
  |    byte must all be as written); :98 byte 7 ≠ version                                                           |
  | `filerOpen`: `validateFileHeader` false         | segment/filer.go:113-116; segment/format.go:107-122           |
  |    format.go:108 ID, :112 BaseIndex, :116 Codec against the record; all wrap ErrCorrupt                         |
  | `filerOpen`: `.ok ()`                           | segment/filer.go:118; segment/reader.go:32-40                 |
  |    `openReader` stores info and file and checks nothing: not IndexStart, not the file size, no frame            |
  | `walOpenCheck` `[]` → `.ok .noTail`             | wal.go:152 loop ends with `recoveredTail = false` (wal.go:232)|
  | codec ≠ codecId → `.unknownCodec`               | wal.go:156-158 (first check of every iteration)               |
  | sealed → `filerOpen`, its error returned        | wal.go:163 (`SealTime.IsZero()` false), 219-222               |
  | unsealed, not last → `.unsealedNotTail`         | wal.go:163-167 (`i < len(persisted.Segments)-1`)              |
  | unsealed last, no file, base = 0 → error        | wal.go:170-171, 180-184; segment/filer.go:69-75, 51-53; fs/fs.go:113-117 |
  | unsealed last, no file → `.created`             | wal.go:180; segment/filer.go:54-61; segment/writer.go:66-81   |
  | unsealed last, file, `recoverTail` error        | wal.go:170, 182-184; segment/filer.go:77; segment/writer.go:83-103, 123-229 |
  | … ok, `indexStart ≠ 0` → `.sealedTail`          | wal.go:191-205 (`sw.Sealed()`; interrupted rotation completed, `break`) |
  | … ok, `indexStart = 0` → `.recovered`           | wal.go:207-213 (`recoveredTail = true; break`)                |

  Not modelled, and why the theorems still transfer: `metaDB.Load` (wal.go:137), `sf.List` (wal.go:145;
  filer.go:130-160, a `.wal` name that does not scan → ErrCorrupt at :146/:151), the creation of a new tail after
  the loop (wal.go:232-271) and VFS-level failures (permissions, I/O errors, filer.go:104) can only turn a success
  into an error; the final `deleteSegments` (wal.go:279, 990-998) never touches a listed segment (wal.go:161) and
  its errors are only logged.  Theorems 1–4 of Proofs/OpenCheckProps have the shape "ok → …" or "… → not ok", so
  extra error paths preserve them (the converse `open_ok_of_sealed_good` and the `.ok` witnesses speak about the
  loop alone).  Reads do not fail in the model: `os.File.ReadAt` returns io.EOF exactly when fewer bytes than
  asked for are available, which is the `length <` test.  Line numbers are those of git HEAD e13d765.
-/
import RaftWal.Model.Segment
namespace RaftWal.OpenCheck
open RaftWal

/-- a directory: file name ↦ content; `List.lookup` is "the file under that name" -/
abbrev Dir := List (String × Bytes)

/-- `segment.FileName(info)` -/
def segName (s : SegInfo) : String := fileName s.base s.id

inductive OpenErr
  | notExist          -- wraps os.ErrNotExist (sealed segment file missing)
  | corrupt           -- wraps types.ErrCorrupt (header unreadable / malformed / not the record's)
  | unknownCodec      -- wal.go:157
  | unsealedNotTail   -- wal.go:166
  | createBaseZero    -- segment/filer.go:52
  | tail (e : SegErr) -- error out of `recoverFile`
  deriving Repr, DecidableEq, Inhabited

/-- what the loop leaves as the tail -/
inductive TailRes
  | noTail                                   -- no unsealed segment listed: a new tail is created after the loop
  | created (w : Writer)                     -- tail file missing: `Create` (empty writer, header not yet on disk)
  | recovered (w : Writer) (file : Bytes)    -- `RecoverTail` ok, still appendable
  | sealedTail (w : Writer) (file : Bytes)   -- `RecoverTail` ok but the file is sealed: rotation is completed
  deriving Repr, Inhabited

/-- `Filer.Open` + `openReader` on the directory content -/
def filerOpen (dir : Dir) (seg : SegInfo) : Except OpenErr Unit :=
  match dir.lookup (segName seg) with
  | none => .error .notExist
  | some file =>
    let hdr := readAt file 0 fileHeaderLen
    if hdr.length < fileHeaderLen then .error .corrupt
    else match readFileHeader hdr with
      | none => .error .corrupt
      | some got => if validateFileHeader got seg.hdr then .ok () else .error .corrupt

/-- the loop over `persisted.Segments` in `wal.Open` -/
def walOpenCheck (dir : Dir) (segs : List SegInfo) (codecId : Nat) : Except OpenErr TailRes :=
  match segs with
  | [] => .ok .noTail
  | s :: rest =>
    if s.codec ≠ codecId then .error .unknownCodec
    else if s.sealed then
      match filerOpen dir s with
      | .error e => .error e
      | .ok () => walOpenCheck dir rest codecId
    else if rest ≠ [] then .error .unsealedNotTail
    else match dir.lookup (segName s) with
      | none => if s.base = 0 then .error .createBaseZero else .ok (.created (Writer.create s))
      | some file =>
        match recoverTail s file with
        | .error e => .error (.tail e)
        | .ok (w, file') => if w.indexStart = 0 then .ok (.recovered w file') else .ok (.sealedTail w file')

end RaftWal.OpenCheck
