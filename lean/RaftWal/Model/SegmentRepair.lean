/-
  Model/SegmentRepair.lean — the planned repair of O21 in segment/writer.go, on the model, WITHOUT touching `Writer`:
  the writer remembers (`dirty` flag) that a failed Append may have left bytes behind the write offset it rolled
  back to; before the NEXT write it zeroes that region and fsyncs (`clearStaleTail` = the model's `clearStale`),
  refusing the append if that fails; the flag is cleared once an append's own fsync succeeded.
-/
import RaftWal.Model.SegmentRun
namespace RaftWal

/-- writer + `dirty` flag -/
abbrev WriterD := Writer × Bool

/-- `clearStaleTail`'s read pass: is any byte behind the write offset non-zero? (if not: no I/O at all) -/
def staleBehind (file : Bytes) (wo : Nat) : Bool := (file.drop wo).any (fun x => x != 0)

/-- the zeroing write of `clearStaleTail` failing after `n` bytes landed -/
def clearStalePartial (file : Bytes) (wo n : Nat) : Bytes :=
  writeAt file wo (zeros (min n (file.length - wo)))

/-- the file after a SUCCESSFUL clearing step (no I/O if the flag is not set or nothing non-zero is there) -/
def cleanFile (s : WriterD) (file : Bytes) : Bytes :=
  if s.2 && staleBehind file s.1.writeOffset then clearStale file s.1.writeOffset else file

/-- `Writer.Append` proper, with the flag: set on a failure under an injected fault, reset on success -/
def appendCoreD (w : Writer) (flag : Bool) (file : Bytes) (es : List (Nat × Bytes)) (fault : IoFault) :
    Option SegErr × WriterD × Bytes :=
  match w.append file es fault with
  | (none, w', file') => (none, (w', false), file')
  | (some e, w', file') => (some e, (w', if fault = .none then flag else true), file')

/-- the repaired `Append`: the clearing step first (it is the I/O the fault hits, if it does any), then the append -/
def appendD (s : WriterD) (file : Bytes) (es : List (Nat × Bytes)) (fault : IoFault) :
    Option SegErr × WriterD × Bytes :=
  if s.2 && staleBehind file s.1.writeOffset then
    match fault with
    | .sync => (some .io, (s.1, true), clearStale file s.1.writeOffset)
    | .write n => (some .io, (s.1, true), clearStalePartial file s.1.writeOffset n)
    | .none => appendCoreD s.1 false (clearStale file s.1.writeOffset) es .none
  else appendCoreD s.1 false file es fault

/-- `ForceSeal` with the flag (its write goes through the same `sync()`): an already sealed writer does no I/O -/
def forceSealD (s : WriterD) (file : Bytes) (fault : IoFault) : Except SegErr Nat × WriterD × Bytes :=
  let core (flag : Bool) (file : Bytes) (fault : IoFault) : Except SegErr Nat × WriterD × Bytes :=
    match s.1.forceSeal file fault with
    | (.ok is, w', file') => (.ok is, (w', false), file')
    | (.error e, w', file') => (.error e, (w', if fault = .none then flag else true), file')
  if s.1.indexStart > 0 then (.ok s.1.indexStart, s, file)
  else if s.1.appendIndex.toOption.isNone then core s.2 file fault        -- fails before any I/O (empty writer)
  else if s.2 && staleBehind file s.1.writeOffset then
    match fault with
    | .sync => (.error .io, (s.1, true), clearStale file s.1.writeOffset)
    | .write n => (.error .io, (s.1, true), clearStalePartial file s.1.writeOffset n)
    | .none => core false (clearStale file s.1.writeOffset) .none
  else core false file fault

/-- recovery in a fresh process: `recoverTail`, flag reset -/
def recoverD (info : SegInfo) (file : Bytes) : Except SegErr (WriterD × Bytes) :=
  (recoverTail info file).map fun p => ((p.1, false), p.2)

end RaftWal
