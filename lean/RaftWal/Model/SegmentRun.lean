/-
  Model/SegmentRun.lean — running a sequence of fault-free appends through the
  writer model; the vocabulary the L1 theorems are stated in.
-/
import RaftWal.Model.Segment
namespace RaftWal

/-- number the payloads of a batch consecutively from `next` -/
def indexBatch (next : Nat) (payloads : List Bytes) : List (Nat × Bytes) :=
  payloads.zipIdx.map (fun (p, i) => (next + i, p))

/-- append the batches one after the other with no I/O faults, numbering entries
    consecutively from `next`; `none` as soon as one append returns an error -/
def Writer.appendAll (w : Writer) (file : Bytes) (next : Nat) : List (List Bytes) → Option (Writer × Bytes)
  | [] => some (w, file)
  | b :: bs =>
    match w.append file (indexBatch next b) .none with
    | (some _, _, _) => none
    | (none, w', file') => w'.appendAll file' (next + b.length) bs

/-- a fresh segment: `Create` on a file preallocated with zeros -/
def freshSegment (info : SegInfo) : Writer × Bytes := (Writer.create info, zeros info.sizeLimit)

/-- what a reader can observe of a writer -/
structure WriterObs where
  offsets     : List Nat
  writeOffset : Nat
  commitIdx   : Nat
  indexStart  : Nat
  deriving Repr, DecidableEq

def Writer.obs (w : Writer) : WriterObs :=
  { offsets := w.offsets, writeOffset := w.writeOffset, commitIdx := w.commitIdx, indexStart := w.indexStart }

end RaftWal

namespace RaftWal

/-- power-loss image of an in-flight write of `len` bytes at offset `off` (8-byte aligned): the file as it was
    (`before`, extended with zeros if the write grew it) except that 8-byte chunk `j` of the written range holds
    the new bytes iff `mask j`. Every subset of un-fsynced chunks may have reached the disk (README, PSOW). -/
def tearImage (before after : Bytes) (off len : Nat) (mask : Nat → Bool) : Bytes :=
  (List.range after.length).map fun i =>
    if off ≤ i ∧ i < off + len ∧ mask ((i - off) / 8) then after.getD i 0 else before.getD i 0

end RaftWal
