/-
  Model/ConcW.lean — small-step model of the WAL's WRITE path against Close and the background rotation
  (wal.go: StoreLogs / DeleteRange head: checkClosed, writeMu.Lock, awaitRotationLocked, closed re-check, use of the
  state; triggerRotateLocked; runRotate; Close).  One shared-memory access (or channel operation) per step; a
  schedule is a list of thread ids.  Complements Model/Conc.lean, which covers the lock-free READ path.

  What is modelled: the `closed` flag, writeMu, whether the state pointer holds the empty state Close installs,
  `w.awaitRotate` (a fresh channel per queued rotation; which channels have been closed), the 1-buffered
  `triggerRotate` channel (a value queued; closed), the rotation goroutine, any number of writers (each either a
  sealing append — it queues a rotation — or any other write call), Close.  Runtime panics are recorded in `bad`:
  dereferencing the empty state, sending on a closed channel, closing a nil or an already closed channel.
  What a write does to the log is Model/Wal.lean's and Model/Crash.lean's business; here only whether it may run.

  Three guards of the code are configuration (read from the source by the fact extractor): with all three the
  theorems of Proofs/ConcWProps.lean hold; switching any one off yields a concrete failing schedule.
-/
namespace RaftWal.ConcW

structure Cfg where
  /-- writers re-check `closed` after the last point at which they (re)take the lock (i.e. after awaitRotationLocked) -/
  recheckAfterAwait : Bool
  /-- Close closes a pending `awaitRotate` channel (wakes a writer waiting for the rotation) -/
  closeWakes : Bool
  /-- runRotate re-checks `closed` after taking the lock, before rotating -/
  rotatorRechecks : Bool
  deriving Repr, DecidableEq

inductive WRes | ok | errClosed | panic
  deriving Repr, DecidableEq

inductive WPc
  | start                 -- before the first (unlocked) closed check
  | wantLock              -- passed it; next: writeMu.Lock()
  | locked                -- holds the lock; next: awaitRotationLocked looks at w.awaitRotate
  | waiting (ch : Nat)    -- dropped the lock, blocked on <-awaitCh
  | relock                -- woken; next: writeMu.Lock()
  | check                 -- holds the lock; next: closed re-check
  | use                   -- holds the lock; next: acquire and use the state, maybe queue a rotation, unlock
  | done (r : WRes)
  deriving Repr, DecidableEq

structure Writer where
  pc    : WPc := .start
  seals : Bool := false   -- this call fills the tail: it queues a rotation
  deriving Repr, DecidableEq

inductive RPc
  | idle                  -- blocked on <-triggerRotate
  | got                   -- received (a value, or the zero value of the closed channel); next: writeMu.Lock()
  | locked                -- holds the lock; next: closed check, rotate, clear awaitRotate, unlock
  | closing (ch : Option Nat)  -- unlocked; next: close(done)
  | exited
  deriving Repr, DecidableEq

inductive CPc | idle | flagged | locked | done
  deriving Repr, DecidableEq

structure Sys where
  closed      : Bool := false
  lock        : Bool := false
  stateEmpty  : Bool := false
  await       : Option Nat := none    -- w.awaitRotate
  nextChan    : Nat := 0
  closedChans : List Nat := []
  trigQueued  : Bool := false
  trigClosed  : Bool := false
  writers     : List Writer := []
  rpc         : RPc := .idle
  cpc         : CPc := .idle
  bad         : Bool := false         -- a runtime panic happened somewhere
  rotations   : Nat := 0              -- rotations performed
  ioAfterClose : Bool := false        -- a rotation (meta commit, file creation) ran after Close had returned
  deriving Repr, DecidableEq

inductive Tid | writer (i : Nat) | rotator | closer
  deriving Repr, DecidableEq

def setW (s : Sys) (i : Nat) (w : Writer) : Sys := { s with writers := s.writers.set i w }

def stepWriter (cfg : Cfg) (s : Sys) (i : Nat) : Sys :=
  match s.writers[i]? with
  | none => s
  | some w =>
    match w.pc with
    | .start => if s.closed then setW s i { w with pc := .done .errClosed } else setW s i { w with pc := .wantLock }
    | .wantLock => if s.lock then s else setW { s with lock := true } i { w with pc := .locked }
    | .locked =>
      -- the variant without the guard checks `closed` here, before awaitRotationLocked, and never again
      if !cfg.recheckAfterAwait && s.closed then setW { s with lock := false } i { w with pc := .done .errClosed }
      else match s.await with
        | some ch => setW { s with lock := false } i { w with pc := .waiting ch }
        | none => setW s i { w with pc := .check }
    | .waiting ch => if s.closedChans.contains ch then setW s i { w with pc := .relock } else s
    | .relock => if s.lock then s else setW { s with lock := true } i { w with pc := .check }
    | .check =>
      if cfg.recheckAfterAwait && s.closed then setW { s with lock := false } i { w with pc := .done .errClosed }
      else setW s i { w with pc := .use }
    | .use =>
      if s.stateEmpty then setW { s with lock := false, bad := true } i { w with pc := .done .panic }
      else if w.seals && !s.closed then
        -- triggerRotateLocked: a fresh awaitRotate channel, then the send
        let s1 := { s with await := some s.nextChan, nextChan := s.nextChan + 1 }
        if s.trigClosed then setW { s1 with lock := false, bad := true } i { w with pc := .done .panic }
        else if s.trigQueued then s      -- the 1-slot buffer is full: the send blocks (holding the lock)
        else setW { s1 with trigQueued := true, lock := false } i { w with pc := .done .ok }
      else setW { s with lock := false } i { w with pc := .done .ok }
    | .done _ => s

def stepRotator (cfg : Cfg) (s : Sys) : Sys :=
  match s.rpc with
  | .idle =>
    if s.trigQueued then { s with trigQueued := false, rpc := .got }
    else if s.trigClosed then
      -- `for x := range ch` ends here; `x := <-ch` receives the zero value and goes on to the lock
      if cfg.rotatorRechecks then { s with rpc := .got } else { s with rpc := .exited }
    else s
  | .got => if s.lock then s else { s with lock := true, rpc := .locked }
  | .locked =>
    if cfg.rotatorRechecks && s.closed then { s with lock := false, rpc := .exited }
    else if s.stateEmpty then { s with bad := true, rpc := .exited }      -- nil map dereference: the process dies
    else { s with rotations := s.rotations + 1, ioAfterClose := s.ioAfterClose || s.cpc == .done,
                  await := none, lock := false, rpc := .closing s.await }
  | .closing ch =>
    match ch with
    | none => { s with bad := true, rpc := .exited }                       -- close of a nil channel
    | some c =>
      if s.closedChans.contains c then { s with bad := true, rpc := .exited }   -- close of a closed channel
      else { s with closedChans := c :: s.closedChans, rpc := .idle }
  | .exited => s

def stepCloser (cfg : Cfg) (s : Sys) : Sys :=
  match s.cpc with
  | .idle => if s.closed then { s with cpc := .done } else { s with closed := true, cpc := .flagged }
  | .flagged => if s.lock then s else { s with lock := true, cpc := .locked }
  | .locked =>
    let s1 := match s.await with
      | some ch => if cfg.closeWakes then { s with closedChans := ch :: s.closedChans } else s
      | none => s
    { s1 with await := none, trigClosed := true, stateEmpty := true, lock := false, cpc := .done }
  | .done => s

def step (cfg : Cfg) (s : Sys) : Tid → Sys
  | .writer i => stepWriter cfg s i
  | .rotator => stepRotator cfg s
  | .closer => stepCloser cfg s

def run (cfg : Cfg) (s : Sys) (sched : List Tid) : Sys := sched.foldl (step cfg) s

/-- `seals`: per writer, whether its call fills the tail -/
def init (seals : List Bool) : Sys := { writers := seals.map (fun b => { seals := b }) }

/-- the code as it is: all three guards -/
def fixed : Cfg := { recheckAfterAwait := true, closeWakes := true, rotatorRechecks := true }

end RaftWal.ConcW
