/-
  Model/Verifier.lean — verifier/store.go + verifier/verifier.go as written:
  FNV-1a running checksum, checkpoint metadata in Extensions, the report the
  background verifier computes, and the 1-buffered hand-off channel.

  The underlying LogStore is the reference contiguous log (Spec.SLog), which the
  WAL is proved (C05) and tested to equal.
-/
import RaftWal.Spec.Log
import RaftWal.Model.Bytes
namespace RaftWal.Verifier
open RaftWal

def prime64 : UInt64 := 1099511628211
def extensionMagic : Nat := 0xafd1f9d60392a503
def logConfiguration : Nat := 5   -- raft.LogConfiguration

def fnvStep (h : UInt64) (b : UInt8) : UInt64 := (h ^^^ b.toUInt64) * prime64

/-- `fnv1a.AddBytes64` (the unrolled Go loop is the plain byte fold) -/
def fnvBytes (h : UInt64) (bs : Bytes) : UInt64 := bs.foldl fnvStep h

/-- the byte string `checksumLog` feeds to FNV for one entry: Index, Term, Type as 8 big-endian
    bytes each (`fnv1a.AddUint64`), then Data, then Extensions when non-empty -/
def hashInput (l : Log) : Bytes :=
  putBE 8 l.index ++ putBE 8 l.term ++ putBE 8 l.typ ++ l.data ++ l.ext

/-- `checksumLog` -/
def checksumLog (sum : UInt64) (l : Log) : UInt64 :=
  if l.index = 1 ∧ l.typ = logConfiguration then 0 else fnvBytes sum (hashInput l)

/-- checksum of a sequence of entries starting from `sum` -/
def chain (sum : UInt64) (ls : List Log) : UInt64 := ls.foldl checksumLog sum

/-- `encodeCheckpointMeta` -/
def encodeMeta (startIdx : Nat) (sum : UInt64) : Bytes :=
  putLE 8 extensionMagic ++ putLE 8 startIdx ++ putLE 8 sum.toNat

/-- `decodeCheckpointMeta`: `none` = error -/
def decodeMeta (bs : Bytes) : Option (Nat × UInt64) :=
  if bs.length < 24 then none
  else if getLE (bs.take 8) ≠ extensionMagic then none
  else some (getLE ((bs.drop 8).take 8), (getLE ((bs.drop 16).take 8)).toUInt64)

inductive RErr
  | none
  | checksumInFlight    -- ErrChecksumMismatch, "in-flight corruption"
  | checksumStorage     -- ErrChecksumMismatch, "storage corruption"
  | rangeMismatch       -- ErrRangeMismatch
  | readError           -- unable to verify log range (GetLog / FirstIndex failed)
  deriving Repr, DecidableEq, Inhabited

structure Report where
  start    : Nat
  stop     : Nat          -- Range.End (exclusive)
  expected : UInt64
  written  : UInt64
  read     : UInt64 := 0
  err      : RErr := .none
  skipped  : Option (Nat × Nat) := none
  deriving Repr, DecidableEq, Inhabited

/-- outcome of the checkpoint predicate on a log -/
inductive CP | no | yes | error deriving Repr, DecidableEq

/-- the harness's IsCheckpointFn: Data starts with "CP" ⇒ checkpoint, "CE" ⇒ the predicate fails -/
def isCheckpoint (l : Log) : CP :=
  if l.data.take 2 = [0x43, 0x50] then .yes else if l.data.take 2 = [0x43, 0x45] then .error else .no

/-- `updateVerifyState`: (log as stored, new sum, new start, report?) or `none` on error -/
def updateVerifyState (l : Log) (checksum : UInt64) (startIdx : Nat) : Option (Log × UInt64 × Nat × Option Report) :=
  match isCheckpoint l with
  | .error => none
  | .no =>
    let startIdx := if startIdx = 0 then l.index else startIdx
    some (l, checksumLog checksum l, startIdx, none)
  | .yes =>
    let startIdx := if startIdx = 0 then l.index else startIdx
    if l.ext.length = 0 then
      -- new checkpoint: we are the leader
      let l' := { l with ext := encodeMeta startIdx checksum }
      let r : Report := { start := startIdx, stop := l.index, expected := checksum, written := checksum }
      some (l', checksumLog 0 l', l.index, some r)
    else match decodeMeta l.ext with
      | none => none
      | some (cpStart, cpSum) =>
        let r : Report := { start := cpStart, stop := l.index, expected := cpSum,
                            written := if cpStart ≠ startIdx then 0 else checksum }
        some (l, checksumLog 0 l, l.index, some r)

/-- per-node state of the middleware -/
structure Node where
  checksum    : UInt64 := 0
  sumStartIdx : Nat := 0
  store       : Spec.SLog := { first := 0, entries := [] }
  /-- GetLog overrides: entries the store returns altered (at-rest corruption injected by the harness) -/
  atRest      : List (Nat × Log) := []
  queued      : Option Report := none      -- the 1-slot channel buffer
  busy        : Option Report := none      -- report the verifier goroutine is delivering (blocked in ReportFn)
  lastCP      : Nat := 0                   -- runVerifier's lastCheckPointIdx
  resetOnDelete : Bool := false            -- generated fact: DeleteRange resets the running sum
  -- counters
  cpWritten   : Nat := 0
  dropped     : Nat := 0
  verified    : Nat := 0
  readFail    : Nat := 0
  writeFail   : Nat := 0
  deriving Repr, Inhabited

def Node.getLog (n : Node) (i : Nat) : Except Spec.SErr Log :=
  match n.store.get i with
  | .error e => .error e
  | .ok l => match n.atRest.find? (·.1 = i) with
    | some (_, l') => .ok l'
    | none => .ok l

/-- `verify`: fill in the report by reading the range back -/
def Node.verify (n : Node) (r : Report) : Node × Report :=
  if r.written ≠ 0 ∧ r.written ≠ r.expected then
    ({ n with writeFail := n.writeFail + 1 }, { r with err := .checksumInFlight })
  else if n.store.closed then (n, { r with err := .readError })
  else if n.store.firstIndex > r.start then (n, { r with err := .rangeMismatch })
  else
    let rec go : Nat → Nat → UInt64 → Option UInt64
      | 0, _, sum => some sum
      | k+1, idx, sum => match n.getLog idx with
        | .error _ => none
        | .ok l => go k (idx + 1) (checksumLog sum l)
    match go (r.stop - r.start) r.start 0 with
    | none => (n, { r with err := .readError })
    | some sum =>
      if sum ≠ r.expected then ({ n with readFail := n.readFail + 1 }, { r with read := sum, err := .checksumStorage })
      else (n, { r with read := sum })

/-- the verifier goroutine takes a report from the channel: skipped-range bookkeeping, verify, then it
    sits in ReportFn (`busy`) until the harness releases it -/
def Node.take (n : Node) (r : Report) : Node :=
  let r := if n.lastCP > 0 ∧ n.lastCP ≠ r.start then { r with skipped := some (n.lastCP, r.start) } else r
  let n := { n with lastCP := r.stop }
  let (n, r) := n.verify r
  { n with busy := some r }

/-- `triggerVerify`: non-blocking send; when the verifier is idle it takes the report at once -/
def Node.trigger (n : Node) (r : Report) : Node :=
  match n.busy with
  | none => n.take r
  | some _ => match n.queued with
    | none => { n with queued := some r }
    | some _ => { n with dropped := n.dropped + 1 }

/-- `LogStore.StoreLogs`: (node', logs as passed to the underlying store, error?) -/
def Node.storeLogs (n : Node) (logs : List Log) : Node × List Log × Bool :=
  if logs.isEmpty then (n, [], false) else
  let rec upd : List Log → UInt64 → Nat → List Log → List Report → Option (List Log × UInt64 × Nat × List Report)
    | [], cs, st, acc, rs => some (acc.reverse, cs, st, rs.reverse)
    | l :: ls, cs, st, acc, rs => match updateVerifyState l cs st with
      | none => none
      | some (l', cs', st', r) => upd ls cs' st' (l' :: acc) (match r with | some r => r :: rs | none => rs)
  match upd logs n.checksum n.sumStartIdx [] [] with
  | none => (n, [], true)
  | some (logs', cs, st, reports) =>
    let (store', e) := n.store.store logs'
    match e with
    | some _ => (n, logs', true)
    | none =>
      let n := { n with store := store', checksum := cs, sumStartIdx := st, cpWritten := n.cpWritten + reports.length }
      (reports.foldl Node.trigger n, logs', false)

/-- `LogStore.DeleteRange` -/
def Node.deleteRange (n : Node) (mn mx : Nat) : Node × Bool :=
  let (store', e) := n.store.delete mn mx
  match e with
  | some _ => (n, true)
  | none =>
    let n := { n with store := store', atRest := n.atRest.filter (fun p => p.1 < mn ∨ p.1 > mx) }
    (if n.resetOnDelete ∧ n.sumStartIdx ≠ 0 ∧ mx ≥ n.sumStartIdx then { n with checksum := 0, sumStartIdx := 0 } else n, false)

/-- the harness lets the blocked ReportFn return: the report is delivered; the goroutine loops and
    takes the queued report, if any -/
def Node.release (n : Node) : Node × Option Report :=
  match n.busy with
  | none => (n, none)
  | some r =>
    let n := { n with busy := none, verified := n.verified + 1 }
    match n.queued with
    | none => (n, some r)
    | some q => (({ n with queued := none }).take q, some r)

/-- middleware restart: fresh running sum, fresh verifier goroutine, same underlying store -/
def Node.restart (n : Node) : Node :=
  { store := n.store, atRest := n.atRest, resetOnDelete := n.resetOnDelete }

end RaftWal.Verifier
