/-
  Model/Crash.lean — the WAL's durability protocol at the level of I/O actions (L2 crash model).

  What is modelled (wal.go: Open, StoreLogs, rotateSegmentLocked/createNextSegment, resetEmptyFirstSegmentBaseIndex,
  truncateHeadLocked, truncateTailLocked, deleteSegments, Set; segment/writer.go: Append = write + fsync,
  ForceSeal = write + fsync, recoverTail's final fsync; fs: first Sync of a handle also fsyncs the directory):
  every API call is the list of I/O actions it performs, in order, with the point at which it returns to the caller
  (`ack`).  A crash cuts that list anywhere.  A process crash leaves the page cache (un-fsynced writes, un-fsynced
  directory entries) in place but not durable; a power loss resolves every un-fsynced batch and every un-fsynced
  directory entry one way or the other.  Open is itself a list of actions computed from what it finds.

  Granularity: a file is its list of entries split into the fsynced prefix and the batch written but not yet
  fsynced.  That a torn batch is recovered as absent or whole — never in part — is the byte-level theorem C02
  (`batch_atomic_any_tear`); that the entries read back are the ones written is C01/C09/C12.  Entries are therefore
  abstract values here.  The meta store commits atomically and durably (BoltDB, trusted).  Sizes are abstracted:
  whether an append seals the tail is an input of the call (the sealing decision itself is Model.Wal's).
  Not modelled: I/O errors (C10), concurrency (C06/C14), the stable store's values beyond a key/value list.
-/
namespace RaftWal.Crash

abbrev Entry := Nat

/-- a segment file -/
structure File where
  id      : Nat
  base    : Nat
  synced  : List Entry   -- entries covered by a completed fsync
  pending : List Entry   -- entries of the batch written but not yet fsynced
  sealedS : Bool         -- an index frame is covered by a completed fsync
  sealedP : Bool         -- an index frame is part of the pending write
  linked  : Bool         -- the directory entry is durable
  hsynced : Bool         -- the handle the process holds on this file has completed a Sync (its first Sync also fsyncs the directory)
  deriving Repr, DecidableEq, Inhabited

/-- what a reader (or recovery) sees: the page cache -/
def File.content (f : File) : List Entry := f.synced ++ f.pending
def File.isSealed (f : File) : Bool := f.sealedS || f.sealedP
/-- index of the last entry in the file (base - 1 when empty) -/
def File.lastIdx (f : File) : Nat := f.base + f.content.length - 1

/-- a segment as recorded in the meta store -/
structure Seg where
  id     : Nat
  base   : Nat
  min    : Nat
  max    : Nat      -- meaningful when sealed
  sealed : Bool
  deriving Repr, DecidableEq, Inhabited

structure Meta where
  nextID : Nat
  segs   : List Seg              -- in base order
  stable : List (Nat × Nat)
  deriving Repr, DecidableEq, Inhabited

structure Disk where
  md    : Meta
  files : List File
  deriving Repr, DecidableEq, Inhabited

inductive Act
  | write (id : Nat) (es : List Entry) (sealing : Bool)  -- one pwrite: the batch's frames (+ index frame) + commit frame
  | fsync (id : Nat)                                     -- fsync of the file; the first one on a handle also fsyncs the directory
  | create (id base : Nat)                               -- exclusive create + preallocation (directory entry not yet durable)
  | commit (m : Meta)                                    -- atomic durable meta commit
  | delete (id : Nat)                                    -- unlink + directory fsync
  | ack                                                  -- the call returns nil to its caller (no I/O)
  deriving Repr, DecidableEq, Inhabited

def Disk.file? (d : Disk) (id : Nat) : Option File := d.files.find? (·.id = id)

def updFile (fs : List File) (id : Nat) (g : File → File) : List File :=
  fs.map (fun f => if f.id = id then g f else f)

def Disk.apply (d : Disk) : Act → Disk
  | .write id es sealing =>
    { d with files := updFile d.files id (fun f => { f with pending := f.pending ++ es, sealedP := f.sealedP || sealing }) }
  | .fsync id =>
    -- fs.File: the first Sync on a handle also fsyncs the parent directory, which makes every directory entry durable
    let dirSync := match d.file? id with | some f => !f.hsynced | none => false
    let fs := updFile d.files id (fun f =>
        { f with synced := f.synced ++ f.pending, pending := [], sealedS := f.sealedS || f.sealedP, sealedP := false, hsynced := true })
    { d with files := if dirSync then fs.map (fun f => { f with linked := true }) else fs }
  | .create id base =>
    if (d.file? id).isSome then d   -- exclusive create fails; never happens (ids are fresh)
    else { d with files := d.files ++ [{ id := id, base := base, synced := [], pending := [], sealedS := false, sealedP := false, linked := false, hsynced := false }] }
  | .commit m => { d with md := m }
  | .delete id => { d with files := d.files.filter (·.id ≠ id) }
  | .ack => d

def Disk.applyAll (d : Disk) (as : List Act) : Disk := as.foldl Disk.apply d

/-! ## crash images -/

inductive CrashKind
  /-- the process dies (or exits: a clean restart is the same thing for the disk): the page cache stays, nothing
      becomes durable, every file handle is gone -/
  | proc
  /-- power loss: `keepPending id` — the un-fsynced batch of file `id` reached the disk (in full; a torn one is
      recovered as absent or whole, C02); `keepUnlinked id` — the not yet durable directory entry of `id` survived -/
  | power (keepPending : Nat → Bool) (keepUnlinked : Nat → Bool)

def File.afterPower (kp ku : Nat → Bool) (f : File) : Option File :=
  if !f.linked && !ku f.id then none
  else
    let keep := kp f.id
    some { f with synced := if keep then f.synced ++ f.pending else f.synced, pending := [],
                  sealedS := f.sealedS || (keep && f.sealedP), sealedP := false, linked := true, hsynced := false }

def Disk.crash (d : Disk) : CrashKind → Disk
  | .proc => { d with files := d.files.map (fun f => { f with hsynced := false }) }   -- handles die with the process
  | .power kp ku => { d with files := d.files.filterMap (File.afterPower kp ku) }

/-! ## the log a disk state stands for -/

/-- (index, entry) pairs a segment contributes: its file's visible entries inside [min, max] -/
def segEntries (d : Disk) (s : Seg) : List (Nat × Entry) :=
  match d.file? s.id with
  | none => []
  | some f =>
    let idx : List (Nat × Entry) := (List.range f.content.length).zip f.content |>.map (fun p => (f.base + p.1, p.2))
    idx.filter (fun p => decide (s.min ≤ p.1) && (!s.sealed || decide (p.1 ≤ s.max)))

def absLog (d : Disk) : List (Nat × Entry) := d.md.segs.flatMap (segEntries d)

def lastIndex (d : Disk) : Nat := match (absLog d).getLast? with | some p => p.1 | none => 0
def firstIndex (d : Disk) : Nat := match (absLog d).head? with | some p => p.1 | none => 0

/-! ## the programs of the API calls (run from a quiescent state of a live process) -/

def newSeg (id base : Nat) : Seg := { id := id, base := base, min := base, max := 0, sealed := false }

def setSeg (segs : List Seg) (s : Seg) : List Seg := segs.map (fun t => if t.id = s.id then s else t)

/-- `createNextSegment` + commit + postCommit: the next tail gets `nextID`; `segs` are the segments to keep -/
def newTailActs (m : Meta) (segs : List Seg) (base : Nat) : List Act :=
  [.commit { m with nextID := m.nextID + 1, segs := segs ++ [newSeg m.nextID base] }, .create m.nextID base]

/-- `rotateSegmentLocked`: the (sealed on disk) tail is recorded as sealed, the next tail follows it -/
def rotateActs (d : Disk) : List Act :=
  match d.md.segs.getLast? with
  | none => []
  | some t =>
    match d.file? t.id with
    | none => []
    | some f =>
      let t' := { t with sealed := true, max := f.lastIdx }
      newTailActs d.md (setSeg d.md.segs t') (f.lastIdx + 1)

/-- `resetEmptyFirstSegmentBaseIndex`: the log is empty and the first index to append is not the tail's base: the
    tail is replaced (commit, create); the old tail's file is deleted by the finalizer of the replaced state, which
    runs when StoreLogs drops its reference to that state — after the append, just before it returns.
    Result: (actions now, deletion to perform before returning) -/
def resetActs (d : Disk) (first : Nat) : List Act × List Act :=
  match d.md.segs.getLast? with
  | none => ([], [])
  | some t =>
    if (absLog d).isEmpty ∧ t.base ≠ first then
      (newTailActs d.md d.md.segs.dropLast first, [.delete t.id])
    else ([], [])

/-- StoreLogs(entries first, first+1, …); `seals`: this append fills the tail -/
def storeProg (d : Disk) (first : Nat) (es : List Entry) (seals : Bool) : List Act :=
  let (a1, del) := resetActs d first
  let d1 := d.applyAll a1
  match d1.md.segs.getLast? with
  | none => a1
  | some t =>
    let a2 : List Act := [.write t.id es seals, .fsync t.id] ++ del ++ [.ack]
    let d2 := d1.applyAll a2
    a1 ++ a2 ++ (if seals then rotateActs d2 else [])

/-- head truncation to `newMin` (DeleteRange(min ≤ first, max = newMin - 1), first < newMin ≤ last + 1) -/
def delHeadProg (d : Disk) (newMin : Nat) : List Act :=
  let last := lastIndex d
  let gone (s : Seg) : Bool := if s.sealed then decide (s.max < newMin) else decide (last < newMin)
  let dropped := d.md.segs.takeWhile gone
  let kept := d.md.segs.dropWhile gone
  match kept with
  | [] => newTailActs d.md [] (last + 1) ++ dropped.map (fun s => .delete s.id) ++ [.ack]
  | h :: rest =>
    [.commit { d.md with segs := { h with min := newMin } :: rest }] ++ dropped.map (fun s => .delete s.id) ++ [.ack]

/-- tail truncation keeping up to `newMax` (first ≤ newMax < last) -/
def delTailProg (d : Disk) (newMax : Nat) : List Act :=
  let kept := d.md.segs.filter (fun s => decide (s.base ≤ newMax))
  let dropped := d.md.segs.filter (fun s => !decide (s.base ≤ newMax))
  match kept.getLast? with
  | none => []    -- not a tail truncation
  | some t =>
    let force : List Act := if t.sealed then [] else [.write t.id [] true, .fsync t.id]
    let t' := { t with sealed := true, max := newMax }
    force ++ newTailActs d.md (setSeg kept t') (newMax + 1) ++ dropped.map (fun s => .delete s.id) ++ [.ack]

def upsert (kv : List (Nat × Nat)) (k v : Nat) : List (Nat × Nat) :=
  if kv.any (·.1 = k) then kv.map (fun p => if p.1 = k then (k, v) else p) else kv ++ [(k, v)]

def setProg (d : Disk) (k v : Nat) : List Act :=
  [.commit { d.md with stable := upsert d.md.stable k v }, .ack]

/-! ## Open (recovery): its actions are computed from what it finds; `none` = Open returns an error -/

def orphanDeletes (d : Disk) (m : Meta) : List Act :=
  (d.files.filter (fun f => !m.segs.any (·.id = f.id))).map (fun f => .delete f.id)

def openProg (d : Disk) : Option (List Act) :=
  let m := d.md
  -- every sealed segment listed in the meta store must open
  if m.segs.any (fun s => s.sealed && (d.file? s.id).isNone) then none
  -- an unsealed segment anywhere but at the end is refused
  else if m.segs.dropLast.any (fun s => !s.sealed) then none
  else
    match m.segs.getLast? with
    | none => some (newTailActs m [] 1 ++ orphanDeletes d m)
    | some t =>
      if t.sealed then some (newTailActs m m.segs (t.max + 1) ++ orphanDeletes d m)
      else match d.file? t.id with
        | none => some ([.create t.id t.base] ++ orphanDeletes d m)      -- the ErrNotExist path
        | some f =>
          -- recovery accepts what it reads and fsyncs it (nothing to fsync when it found no commit at all)
          let rec_ : List Act := if f.content.isEmpty && !f.isSealed then [] else [.fsync f.id]
          if f.isSealed then
            -- the sealing append was durable but the rotation was not committed: complete it
            let t' := { t with sealed := true, max := f.lastIdx }
            some (rec_ ++ newTailActs m (setSeg m.segs t') (f.lastIdx + 1) ++ orphanDeletes d m)
          else some (rec_ ++ orphanDeletes d m)

/-- the state Open leaves (when it succeeds) -/
def openResult (d : Disk) : Option Disk := (openProg d).map d.applyAll

/-! ## API operations -/

inductive Op
  | store (first : Nat) (es : List Entry) (seals : Bool)
  | delHead (newMin : Nat)
  | delTail (newMax : Nat)
  | set (k v : Nat)
  deriving Repr, DecidableEq, Inhabited

def prog (d : Disk) : Op → List Act
  | .store first es seals => storeProg d first es seals
  | .delHead newMin => delHeadProg d newMin
  | .delTail newMax => delTailProg d newMax
  | .set k v => setProg d k v

/-- position of the `ack` in a program (its length when the program has none) -/
def ackPos (as : List Act) : Nat := as.findIdx (· == .ack)

/-- a freshly initialised directory: Open on an empty directory -/
def emptyDisk : Disk := { md := { nextID := 0, segs := [], stable := [] }, files := [] }

end RaftWal.Crash
