/-
  Spec/Format.lean — the on-disk segment format written from README.md alone
  ("Segment Files", "Frames", "Index Frame", "Commit Frame", "Alignment",
  "Sealing"). It does not import the model of the code (only the `Bytes` type
  and the CRC-32C primitive, an external standard).

  One README ambiguity is resolved by the property text of C09 and recorded
  here: the first commit's CRC covers the file header as well ("since just
  after the last commit frame, or just after the file header" is read as "from
  the start of the file" for the first commit — this is what the pinned version
  writes and what golden directories contain).
-/
import RaftWal.Model.Bytes
namespace RaftWal.Spec
open RaftWal

/-- little-endian encoding on `n` bytes -/
def le : Nat → Nat → Bytes
  | 0, _ => []
  | n+1, v => (v % 256).toUInt8 :: le n (v / 256)

/-- round up to the next multiple of 8 -/
def roundUp8 (n : Nat) : Nat := (n + 7) / 8 * 8

/-- 32-byte file header: Magic u32 `0x58eb6b0d`, 3 reserved bytes, Vsn u8 = 0, BaseIndex, SegmentID, Codec (u64 each) -/
def header (base id codec : Nat) : Bytes :=
  le 4 0x58eb6b0d ++ [0, 0, 0] ++ [0] ++ le 8 base ++ le 8 id ++ le 8 codec

/-- frame header: Type u8, 3 reserved bytes, Length/CRC u32 -/
def frameHeader (typ : Nat) (lenOrCrc : Nat) : Bytes := [typ.toUInt8, 0, 0, 0] ++ le 4 lenOrCrc

/-- Entry frame (type 1): header with the payload length, the payload, 0–7 zero bytes up to the next multiple of 8 -/
def entryFrame (payload : Bytes) : Bytes :=
  frameHeader 1 payload.length ++ payload ++ List.replicate (roundUp8 payload.length - payload.length) 0

/-- Index frame (type 2): array of u32 file offsets, Length = 4 × number of entries, padded to 8 -/
def indexFrame (offsets : List Nat) : Bytes :=
  let arr := (offsets.map (le 4)).flatten
  frameHeader 2 arr.length ++ arr ++ List.replicate (roundUp8 arr.length - arr.length) 0

/-- Commit frame (type 3): CRC-32C over all bytes written since the previous commit frame -/
def commitFrame (crc : Nat) : Bytes := frameHeader 3 crc

/-- a batch: the payloads of its entries, and whether this batch seals the segment -/
structure Batch where
  payloads : List Bytes
  sealing  : Bool
  deriving Repr

/-- state of the layout fold: bytes so far, offsets of all entry frames so far,
    position just after the previous commit frame (0 before the first commit) -/
structure Acc where
  bytes       : Bytes
  offsets     : List Nat
  commitStart : Nat
  deriving Repr

def addEntry (a : Acc) (p : Bytes) : Acc :=
  { a with bytes := a.bytes ++ entryFrame p, offsets := a.offsets ++ [a.bytes.length] }

def addBatch (a : Acc) (b : Batch) : Acc :=
  let a := b.payloads.foldl addEntry a
  let a := if b.sealing then { a with bytes := a.bytes ++ indexFrame a.offsets } else a
  let crc := (crc32c (a.bytes.drop a.commitStart)).toNat
  let bytes := a.bytes ++ commitFrame crc
  { a with bytes := bytes, commitStart := bytes.length }

/-- the bytes of a segment file up to its last commit -/
def layoutAcc (base id codec : Nat) (batches : List Batch) : Acc :=
  batches.foldl addBatch { bytes := header base id codec, offsets := [], commitStart := 0 }

def layout (base id codec : Nat) (batches : List Batch) : Bytes :=
  (layoutAcc base id codec batches).bytes

/-- position of the index array (after its frame header) in a sealed segment:
    what README calls `IndexStart` -/
def indexStart (base id codec : Nat) (batches : List Batch) : Nat :=
  match batches.reverse with
  | [] => 0
  | last :: before =>
    let a := (layoutAcc base id codec before.reverse)
    let a := last.payloads.foldl addEntry a
    a.bytes.length + 8

/-- file name: `<BaseIndex>-<SegmentID>.wal`, decimal width 20, lower-case hex width 16 -/
def digit (n : Nat) : Char := if n < 10 then Char.ofNat (48 + n) else Char.ofNat (87 + n)

def fixedWidth (base : Nat) : Nat → Nat → List Char
  | 0, _ => []
  | w+1, v => fixedWidth base w (v / base) ++ [digit (v % base)]

def fileName (baseIndex id : Nat) : String :=
  String.ofList (fixedWidth 10 20 baseIndex ++ ['-'] ++ fixedWidth 16 16 id ++ ".wal".toList)

/-! ## independent decoder -/

/-- parse one frame at the head of `bs`: (type, length/crc field, payload, rest) -/
def parseFrame (bs : Bytes) : Option (Nat × Nat × Bytes × Bytes) :=
  match bs with
  | t :: 0 :: 0 :: 0 :: b0 :: b1 :: b2 :: b3 :: rest =>
    let v := b0.toNat + 256 * (b1.toNat + 256 * (b2.toNat + 256 * b3.toNat))
    if t = 3 then some (3, v, [], rest)
    else if t = 1 ∨ t = 2 then
      if rest.length < roundUp8 v then none
      else some (t.toNat, v, rest.take v, rest.drop (roundUp8 v))
    else none
  | _ => none

/-- decode the committed entry payloads of a segment body (bytes after the header) -/
def decodeBody : Nat → Bytes → List Bytes → List Bytes → List Bytes
  | 0, _, committed, _ => committed
  | fuel+1, bs, committed, pending =>
    match parseFrame bs with
    | none => committed
    | some (t, _, payload, rest) =>
      if t = 1 then decodeBody fuel rest committed (pending ++ [payload])
      else if t = 2 then decodeBody fuel rest committed pending
      else decodeBody fuel rest (committed ++ pending) []

/-- all committed payloads of a file image (no CRC validation: this reads files known to be complete) -/
def decode (file : Bytes) : List Bytes :=
  decodeBody (file.length / 8 + 1) (file.drop 32) [] []

/-- README walk with CRC validation: going through the frames from the header, every commit frame must carry the
    CRC-32C of exactly the bytes since the previous commit frame (since the start of the file for the first one).
    Result: (number of commit frames that check, entries they cover, offset of the first commit frame that does not
    check — 0 when the walk ended at free space or at a frame that does not parse) -/
def walkBody : Nat → Bytes → Nat → Nat → Nat → Nat → Nat → Nat × Nat × Nat
  | 0, _, _, _, commits, covered, _ => (commits, covered, 0)
  | fuel+1, file, off, crcStart, commits, covered, pending =>
    match parseFrame (file.drop off) with
    | none => (commits, covered, 0)
    | some (t, v, _, _) =>
      if t = 1 then walkBody fuel file (off + 8 + roundUp8 v) crcStart commits covered (pending + 1)
      else if t = 2 then walkBody fuel file (off + 8 + roundUp8 v) crcStart commits covered pending
      else
        if (crc32c ((file.drop crcStart).take (off - crcStart))).toNat = v then
          walkBody fuel file (off + 8) (off + 8) (commits + 1) (covered + pending) 0
        else (commits, covered, off)

def walk (file : Bytes) : Nat × Nat × Nat := walkBody (file.length / 8 + 1) file 32 0 0 0 0
end RaftWal.Spec
