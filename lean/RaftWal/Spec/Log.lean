/-
  Spec/Log.lean — the reference model of C05: a contiguous map from index to
  entry. Readable in a minute; everything the WAL does sequentially must equal
  this.
-/
import RaftWal.Model.Codec
namespace RaftWal.Spec
open RaftWal

structure SLog where
  first   : Nat         -- index of `entries[0]`; irrelevant when empty
  entries : List Log
  closed  : Bool := false
  deriving Repr, Inhabited

inductive SErr | notFound | closed | rejected
  deriving Repr, DecidableEq

def SLog.firstIndex (s : SLog) : Nat := if s.entries.isEmpty then 0 else s.first
def SLog.lastIndex (s : SLog) : Nat := if s.entries.isEmpty then 0 else s.first + s.entries.length - 1

def SLog.get (s : SLog) (i : Nat) : Except SErr Log :=
  if s.closed then .error .closed
  else if s.entries.isEmpty ∨ i < s.first then .error .notFound
  else match s.entries[i - s.first]? with
    | some l => .ok l
    | none => .error .notFound

/-- indexes consecutive starting at `n` -/
def consecutiveFrom : Nat → List Log → Bool
  | _, [] => true
  | n, l :: ls => l.index == n && consecutiveFrom (n + 1) ls

/-- a batch is accepted iff it is internally consecutive, every entry is encodable, and it continues
    the log (any start index ≥ 1 when the log is empty) -/
def SLog.accepts (s : SLog) (logs : List Log) : Bool :=
  match logs with
  | [] => true
  | l :: _ =>
    consecutiveFrom l.index logs && logs.all (fun l => (encode l).isSome) &&
    (if s.entries.isEmpty then l.index ≥ 1 else l.index == s.lastIndex + 1)

def SLog.store (s : SLog) (logs : List Log) : SLog × Option SErr :=
  if s.closed then (s, some .closed)
  else if ¬ s.accepts logs then (s, some .rejected)
  else match logs with
    | [] => (s, none)
    | l :: _ => ({ s with first := if s.entries.isEmpty then l.index else s.first, entries := s.entries ++ logs }, none)

/-- inclusive range delete: no-op outside the log, prefix or suffix removal, error for a strict middle -/
def SLog.delete (s : SLog) (min max : Nat) : SLog × Option SErr :=
  if s.closed then (s, some .closed)
  else if min > max then (s, none)
  else if s.entries.isEmpty ∨ max < s.firstIndex ∨ min > s.lastIndex then (s, none)
  else if min ≤ s.firstIndex then
    -- remove the prefix up to and including `max`
    let k := max + 1 - s.first
    ({ s with first := s.first + k, entries := s.entries.drop k }, none)
  else if max ≥ s.lastIndex then
    ({ s with entries := s.entries.take (min - s.first) }, none)
  else (s, some .rejected)

def SLog.close (s : SLog) : SLog := { s with closed := true }
def SLog.reopen (s : SLog) : SLog := { s with closed := false }

end RaftWal.Spec
