import RaftWal.Props.C11
#print axioms RaftWal.C11.decoder_guards_overflow
#print axioms RaftWal.C11.decode_no_panic
#print axioms RaftWal.C11.decode_panic_witness_unguarded
#print axioms RaftWal.C11.scan_bounded
#print axioms RaftWal.C11.scan_fuel_le_file
#print axioms RaftWal.C11.scan_advances
#print axioms RaftWal.C11.scan_offsets_in_file
#print axioms RaftWal.C11.readFrame_rejects_oversize
