import RaftWal.Props.C11
#print axioms RaftWal.C11.decoder_guards_overflow
#print axioms RaftWal.C11.decode_no_panic
#print axioms RaftWal.C11.decode_panic_witness_unguarded
#print axioms RaftWal.C11.scan_bounded
#print axioms RaftWal.C11.scan_fuel_le_file
#print axioms RaftWal.C11.scan_advances
#print axioms RaftWal.C11.scan_offsets_in_file
#print axioms RaftWal.C11.readFrame_rejects_oversize
#print axioms RaftWal.C11.open_fails_on_missing_sealed
#print axioms RaftWal.C11.open_fails_on_short_sealed
#print axioms RaftWal.C11.open_fails_on_foreign_header
#print axioms RaftWal.C11.open_ok_characterised
#print axioms RaftWal.C11.open_total
