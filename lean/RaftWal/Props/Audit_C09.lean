import RaftWal.Props.C09
#print axioms RaftWal.C09.consts_gen_eq
#print axioms RaftWal.C09.padLen_gen_eq
#print axioms RaftWal.C09.encodedFrameSize_gen_eq
#print axioms RaftWal.C09.indexFrameSize_gen_eq
#print axioms RaftWal.C09.fileHeaderLayout_gen_eq
#print axioms RaftWal.C09.frameHeaderLayout_gen_eq
#print axioms RaftWal.C09.writer_bytes_eq_spec
#print axioms RaftWal.C09.indexStart_eq_spec
#print axioms RaftWal.C09.spec_decode_writer
#print axioms RaftWal.C09.fileName_eq_spec
#print axioms RaftWal.C09.frames_aligned
#print axioms RaftWal.C09.writers_wait_for_queued_rotation
