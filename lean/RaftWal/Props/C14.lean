/-
  C14 — Close is clean and final.
  Model: Model/Conc.lean (small-step: readers, the writer's queued state changes, Close; one shared-memory access
  per step; schedules are arbitrary lists of thread ids).  Facts tying the model's configuration to wal.go are
  regenerated on every run (Generated/Conc.lean).  Forced schedules on the real code are compared with this model
  by the conc suite.
-/
import RaftWal.Generated.Conc
import RaftWal.Proofs.ConcProps
import RaftWal.Proofs.ConcWProps
namespace RaftWal.C14
open RaftWal RaftWal.Conc

/-- T1: the source has the three repairs the model's configuration `fixed` stands for -/
theorem readers_check_empty_state : Generated.readersCheckEmptyState = true := by decide
theorem writers_recheck_closed_under_lock : Generated.writersRecheckClosedUnderLock = true := by decide
theorem close_wakes_rotation_waiter : Generated.closeWakesRotationWaiter = true := by decide
theorem rotation_rechecks_closed : Generated.rotationRechecksClosed = true := by decide

/-- the model configuration is the one read from the source -/
theorem cfg_from_source : ({ readersCheckEmpty := Generated.readersCheckEmptyState } : Cfg) = Conc.fixed := by decide

/-- **no panic under any schedule** -/
theorem no_panic (files wants : List FileId) (muts : List Mutation) (s : Sys) (h : Reachable files wants muts s) :
    ∀ r ∈ s.readers, r.pc ≠ .done .panic ∧ ∀ sid, r.pc ≠ .finished sid .panic :=
  Conc.no_panic files wants muts s h

/-- non-vacuity of the repair: the pinned code's reader (no empty-state test) does panic under a 7-step schedule -/
theorem panic_witness_unfixed :
    ∃ sched, ∃ r ∈ (run { readersCheckEmpty := false } (init [1] [1] []) sched).readers, r.pc = .done .panic :=
  Conc.panic_witness_unfixed

/-- **Close is final**: a call starting after the flag is set returns ErrClosed -/
theorem closed_is_final (s : Sys) (i : Nat) (r : Reader) (hr : s.readers[i]? = some r) (hpc : r.pc = .start)
    (hcl : s.closed = true) : ((stepReader fixed s i).readers[i]?.map (·.pc)) = some (.done .errClosed) :=
  Conc.closed_is_final s i r hr hpc hcl

/-- **every handle is released, once, after the last reader**: when Close, the writer and all readers are done,
    every file any state ever referenced is closed, and no handle was closed twice on the way -/
theorem close_releases_all (files wants : List FileId) (muts : List Mutation) (hwf : InitWF files muts) (s : Sys)
    (h : Reachable files wants muts s) (hc : s.cpc = .done) (hw : s.wpc = .idle)
    (hr : ∀ r ∈ s.readers, ∃ res, r.pc = .done res) (hclosed : s.closed = true) :
    (∀ sid, sid < s.objs.length → ∀ f ∈ (s.obj sid).files, s.isOpen f = false) ∧ s.doubleClose = false :=
  ⟨Conc.close_releases_all files wants muts hwf s h hc hw hr hclosed, Conc.no_double_close files wants muts hwf s h⟩

/-! ## the write path: StoreLogs / DeleteRange against Close and the background rotation (Model/ConcW.lean).
    The three guards of the code are the model's configuration, read from wal.go on every run. -/

/-- the model configuration is the one read from the source -/
theorem cfgW_from_source :
    ({ recheckAfterAwait := Generated.writersRecheckClosedUnderLock, closeWakes := Generated.closeWakesRotationWaiter,
       rotatorRechecks := Generated.rotationRechecksClosed } : ConcW.Cfg) = ConcW.fixed := by decide

/-- **no write call and no rotation panics** under any schedule of any number of write calls, the rotation goroutine and
    Close — with appends issued one at a time (hashicorp/raft's single appender; DeleteRange and Close at any time) -/
theorem write_path_no_panic (seals : List Bool) (s : ConcW.Sys) (h : ConcW.Reachable1 seals s) :
    s.bad = false ∧ ∀ w ∈ s.writers, w.pc ≠ .done .panic :=
  ConcW.no_runtime_panic_corrected seals s h

/-- writers themselves never panic under ANY schedule, also with concurrent appenders -/
theorem writers_never_panic (seals : List Bool) (s : ConcW.Sys) (h : ConcW.Reachable seals s) :
    ∀ w ∈ s.writers, w.pc ≠ .done .panic :=
  ConcW.no_runtime_panic_writers seals s h

/-- **every write call returns a result or ErrClosed** (any schedule) -/
theorem write_results (seals : List Bool) (s : ConcW.Sys) (h : ConcW.Reachable seals s) (w : ConcW.Writer)
    (hw : w ∈ s.writers) (r : ConcW.WRes) (hr : w.pc = .done r) : r = .ok ∨ r = .errClosed :=
  ConcW.results seals s h w hw r hr

/-- **no write uses the state once Close has returned**, and **nothing runs after Close**: no rotation (meta commit,
    file creation) is performed after Close returned (any schedule) -/
theorem nothing_after_close (seals : List Bool) (s : ConcW.Sys) (h : ConcW.Reachable seals s) :
    s.ioAfterClose = false ∧ (s.cpc = .done → ∀ w ∈ s.writers, w.pc ≠ .use) :=
  ⟨ConcW.no_io_after_close seals s h, ConcW.no_use_after_close seals s h⟩

/-- **no deadlock**: while a write call has not returned or Close is under way, some thread can move (single appender) -/
theorem write_path_no_deadlock (seals : List Bool) (s : ConcW.Sys) (h : ConcW.Reachable1 seals s)
    (hp : (∃ w ∈ s.writers, ∀ r, w.pc ≠ .done r) ∨ s.cpc = .flagged ∨ s.cpc = .locked) :
    ∃ t, ConcW.step1 ConcW.fixed s t ≠ s :=
  ConcW.no_deadlock_corrected seals s h hp

/-- the write lock is held by at most one thread (any schedule) -/
theorem write_lock_exclusive (seals : List Bool) (s : ConcW.Sys) (h : ConcW.Reachable seals s) :
    ConcW.holders s = (if s.lock then 1 else 0) :=
  ConcW.mutual_exclusion seals s h

/-- each guard is needed: switching one off yields a panic or a deadlock (the seeded changes C14, C14-2 and the pinned
    tree's O8 are exactly these) -/
theorem guards_needed :
    (∃ seals sched, (ConcW.run { ConcW.fixed with recheckAfterAwait := false } (ConcW.init seals) sched).bad = true) ∧
    (∃ seals sched, (ConcW.run { ConcW.fixed with rotatorRechecks := false } (ConcW.init seals) sched).bad = true) :=
  ⟨ConcW.panic_without_recheck, ConcW.panic_without_rotator_recheck⟩

/-- OBSERVATION (not covered by the single-writer discipline the properties assume): with three or more CONCURRENT
    filling appends the single `if` in awaitRotationLocked lets a woken writer overwrite a pending rotation channel —
    the unrestricted statements are false, with concrete schedules -/
theorem concurrent_appenders_can_break : ¬ ConcW.no_runtime_panic_stmt ∧ ¬ ConcW.no_deadlock_stmt :=
  ⟨ConcW.no_runtime_panic_refuted, ConcW.no_deadlock_refuted⟩

/-- every reference a call takes on the current state is given back exactly once (read from the source on every run: each
    `acquireState()` site declares fresh variables and defers the release in the next statement) — the discipline the
    readers of `Model.Conc` follow and `refcount_exact` / `no_double_close` / the reclaim theorems rest on -/
theorem every_acquire_is_released_once : Generated.everyAcquireHasDeferredRelease = true := by decide

/-- the reference count of a state is touched by `acquire` and `release` only (read from the source): every decrement goes
    through `release`, which runs the finalizer at zero — the step `Model.Conc` takes -/
theorem refcount_only_through_acquire_release :
    Generated.refCountTouchedBy = ["state.acquire", "state.release"] := by decide

end RaftWal.C14
