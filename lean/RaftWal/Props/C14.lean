/-
  C14 — Close is clean and final.
  Model: Model/Conc.lean (small-step: readers, the writer's queued state changes, Close; one shared-memory access
  per step; schedules are arbitrary lists of thread ids).  Facts tying the model's configuration to wal.go are
  regenerated on every run (Generated/Conc.lean).  Forced schedules on the real code are compared with this model
  by the conc suite.
-/
import RaftWal.Generated.Conc
import RaftWal.Proofs.ConcProps
namespace RaftWal.C14
open RaftWal RaftWal.Conc

/-- T1: the source has the three repairs the model's configuration `fixed` stands for -/
theorem readers_check_empty_state : Generated.readersCheckEmptyState = true := by decide
theorem writers_recheck_closed_under_lock : Generated.writersRecheckClosedUnderLock = true := by decide
theorem close_wakes_rotation_waiter : Generated.closeWakesRotationWaiter = true := by decide
theorem rotation_rechecks_closed : Generated.rotationRechecksClosed = true := by decide

/-- the model configuration is the one read from the source -/
theorem cfg_from_source : ({ readersCheckEmpty := Generated.readersCheckEmptyState } : Cfg) = Conc.fixed := by decide

/-- **no panic under any schedule** -/
theorem no_panic (files wants : List FileId) (muts : List Mutation) (s : Sys) (h : Reachable files wants muts s) :
    ∀ r ∈ s.readers, r.pc ≠ .done .panic ∧ ∀ sid, r.pc ≠ .finished sid .panic :=
  Conc.no_panic files wants muts s h

/-- non-vacuity of the repair: the pinned code's reader (no empty-state test) does panic under a 7-step schedule -/
theorem panic_witness_unfixed :
    ∃ sched, ∃ r ∈ (run { readersCheckEmpty := false } (init [1] [1] []) sched).readers, r.pc = .done .panic :=
  Conc.panic_witness_unfixed

/-- **Close is final**: a call starting after the flag is set returns ErrClosed -/
theorem closed_is_final (s : Sys) (i : Nat) (r : Reader) (hr : s.readers[i]? = some r) (hpc : r.pc = .start)
    (hcl : s.closed = true) : ((stepReader fixed s i).readers[i]?.map (·.pc)) = some (.done .errClosed) :=
  Conc.closed_is_final s i r hr hpc hcl

/-- **every handle is released, once, after the last reader**: when Close, the writer and all readers are done,
    every file any state ever referenced is closed, and no handle was closed twice on the way -/
theorem close_releases_all (files wants : List FileId) (muts : List Mutation) (hwf : InitWF files muts) (s : Sys)
    (h : Reachable files wants muts s) (hc : s.cpc = .done) (hw : s.wpc = .idle)
    (hr : ∀ r ∈ s.readers, ∃ res, r.pc = .done res) (hclosed : s.closed = true) :
    (∀ sid, sid < s.objs.length → ∀ f ∈ (s.obj sid).files, s.isOpen f = false) ∧ s.doubleClose = false :=
  ⟨Conc.close_releases_all files wants muts hwf s h hc hw hr hclosed, Conc.no_double_close files wants muts hwf s h⟩

end RaftWal.C14
