import RaftWal.Props.C01
#print axioms RaftWal.C01.acked_survive_restart
#print axioms RaftWal.C01.acked_survive_torn_write
#print axioms RaftWal.C01.visible_only_after_sync
