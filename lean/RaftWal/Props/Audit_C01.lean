import RaftWal.Props.C01
#print axioms RaftWal.C01.acked_survive_restart
#print axioms RaftWal.C01.acked_survive_torn_write
#print axioms RaftWal.C01.visible_only_after_sync
#print axioms RaftWal.C01.entries_survive_any_crash
#print axioms RaftWal.C01.acked_append_survives_any_crash
#print axioms RaftWal.C01.protocol_init
#print axioms RaftWal.C01.truncation_scans_from_source
#print axioms RaftWal.C01.acked_survive_any_chain
