/-
  C04 — Truncations are atomic and durable across crashes.
  Sequential level here (what a completed DeleteRange means, identically before and after a reopen); the crash
  level — every crash point inside the truncation and in the appends that follow it — is carried by the crash
  suite's ghost-state monitors on the real code (see DESIGN §6 C04).
-/
import RaftWal.Generated.WalLogic
import RaftWal.Proofs.WalDecide
import RaftWal.Proofs.WalRefine
import RaftWal.Generated.Conc
import RaftWal.Proofs.CrashCorollaries
namespace RaftWal.C04
open RaftWal

/-- a head truncation of the reference log moves FirstIndex to max+1 and leaves LastIndex alone -/
theorem spec_head_truncation (s : Spec.SLog) (mn mx : Nat) (hopen : s.closed = false) (hne : s.entries ≠ [])
    (h1 : mn ≤ s.firstIndex) (h2 : s.firstIndex ≤ mx) (h3 : mx < s.lastIndex) :
    (s.delete mn mx).2 = none ∧ (s.delete mn mx).1.firstIndex = mx + 1 ∧ (s.delete mn mx).1.lastIndex = s.lastIndex := by
  have hf : s.firstIndex = s.first := by simp [Spec.SLog.firstIndex, hne]
  have hl : s.lastIndex = s.first + s.entries.length - 1 := by simp [Spec.SLog.lastIndex, hne]
  have hlen : 0 < s.entries.length := List.length_pos_iff.mpr hne
  unfold Spec.SLog.delete
  have a : ¬ mn > mx := by omega
  have e1 : ¬ mx < s.firstIndex := by omega
  have e2 : ¬ mn > s.lastIndex := by omega
  simp only [hopen, Bool.false_eq_true, if_false, a, e1, e2, hne, List.isEmpty_iff, false_or, h1, if_true]
  have hd : (s.entries.drop (mx + 1 - s.first)) ≠ [] := by
    intro hnil
    have := List.drop_eq_nil_iff.mp hnil
    omega
  refine ⟨trivial, ?_, ?_⟩
  · simp only [Spec.SLog.firstIndex, List.isEmpty_iff, hd, if_false]; omega
  · simp only [Spec.SLog.lastIndex, List.isEmpty_iff, hd, hne, if_false, List.length_drop]; omega

/-- a tail truncation of the reference log moves LastIndex to min-1 and leaves FirstIndex alone -/
theorem spec_tail_truncation (s : Spec.SLog) (mn mx : Nat) (hopen : s.closed = false) (hne : s.entries ≠ [])
    (h1 : s.firstIndex < mn) (h2 : mn ≤ s.lastIndex) (h3 : s.lastIndex ≤ mx) :
    (s.delete mn mx).2 = none ∧ (s.delete mn mx).1.firstIndex = s.firstIndex ∧ (s.delete mn mx).1.lastIndex = mn - 1 := by
  have hf : s.firstIndex = s.first := by simp [Spec.SLog.firstIndex, hne]
  have hl : s.lastIndex = s.first + s.entries.length - 1 := by simp [Spec.SLog.lastIndex, hne]
  have hlen : 0 < s.entries.length := List.length_pos_iff.mpr hne
  unfold Spec.SLog.delete
  have a : ¬ mn > mx := by omega
  have e1 : ¬ mx < s.firstIndex := by omega
  have e2 : ¬ mn > s.lastIndex := by omega
  have c : ¬ mn ≤ s.firstIndex := by omega
  have d : mx ≥ s.lastIndex := h3
  simp only [hopen, Bool.false_eq_true, if_false, a, e1, e2, hne, List.isEmpty_iff, false_or, c, d, if_true]
  have ht : (s.entries.take (mn - s.first)) ≠ [] := by
    intro hnil
    have := List.take_eq_nil_iff.mp hnil
    rcases this with h | h
    · omega
    · exact hne h
  refine ⟨trivial, ?_, ?_⟩
  · simp only [Spec.SLog.firstIndex, List.isEmpty_iff, ht, hne, if_false]
  · simp only [Spec.SLog.lastIndex, List.isEmpty_iff, ht, if_false, List.length_take]
    have : min (mn - s.first) s.entries.length = mn - s.first := by omega
    omega

/-- **completed truncations mean the same before and after a reopen, and re-appended entries are the ones read
    back**: for every program (truncations at any (min,max), appends after them, reopen anywhere) the WAL model
    answers like the reference log — in particular an index removed by a tail truncation and written again
    returns the newer entry, never the older one, also after Close/reopen -/
theorem truncations_refine_spec (cfg : WalCfg) (hcfg : cfg.newSegCodec = cfg.codecId) (w0 : Wal)
    (h0 : Wal.init cfg = some w0) (ops : List Op) (hops : ∀ op ∈ ops, op.inRange) :
    w0.run ops = ({ first := 0, entries := [] } : Spec.SLog).run ops :=
  wal_refines_spec cfg hcfg w0 h0 ops hops

/-- T1: files of a truncated range are closed and deleted by a finalizer that `mutateStateLocked` attaches only after
    the meta commit succeeded and the new state is published — a truncation whose commit fails (or is cut by a
    crash) deletes nothing -/
theorem files_deleted_only_after_commit : Generated.finalizerAttachedAfterPublish = true := by decide

/-! ## WAL level: the durability protocol (Model/Crash.lean — meta commits, file creation, rotation, truncation, Open,
    tied to wal.go by the crash suite's action-by-action and image-by-image correspondence).  `Crash.QuiescentS` is
    the invariant of a live process between calls; it holds after Open on an empty directory, after every completed
    call and after every recovery (`Crash.init_quiescentS`, `Crash.call_refines_corrected`, `Crash.crash_safe_corrected`). -/

/-- **a truncation cut by a crash leaves the old log or the truncated log**, and the truncated log — after every later
    restart — once DeleteRange has returned -/
theorem truncation_atomic_any_crash (d : Crash.Disk) (hq : Crash.QuiescentS d) (op : Crash.Op)
    (htr : (∃ m, op = .delHead m) ∨ (∃ m, op = .delTail m)) (hok : op.ok d) (k : Nat) (c : Crash.CrashKind)
    (d1 d' : Crash.Disk) (hr : Crash.ReachRec (Crash.crashAfter d (Crash.prog d op) k c) d1)
    (ho : Crash.openResult d1 = some d') :
    (Crash.absLog d' = Crash.absLog d ∨ Crash.absLog d' = Crash.specApply (Crash.absLog d) op) ∧
    (Crash.ackPos (Crash.prog d op) < k → Crash.absLog d' = Crash.specApply (Crash.absLog d) op) :=
  Crash.truncation_atomic d hq op htr hok k c d1 d' hr ho

/-- which segments a truncation keeps, as wal.go decides it (read from the source on every run): a tail truncation keeps
    every segment whose first index is at or below the new last index; a head truncation keeps the tail if it holds the new
    first index and a sealed segment if its last index is at or above it -/
theorem truncation_scans_from_source (s : SegS) (stateLast newMin newMax : Nat) :
    (((¬ s.sealed ∧ stateLast ≥ newMin) ∨ (s.sealed ∧ s.max ≥ newMin)) ↔
        Generated.truncateHeadStopsAt s.sealed s.base s.min s.max stateLast newMin = true) ∧
    ((s.base ≤ newMax) ↔ Generated.truncateTailKeeps s.base s.min s.max newMax = true) :=
  ⟨RaftWal.truncateHead_stop_eq_source s stateLast newMin, RaftWal.truncateTail_keep_eq_source s newMax⟩

end RaftWal.C04
