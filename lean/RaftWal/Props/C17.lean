/-
  C17 — Verifier detects every divergence inside a verified range.
-/
import RaftWal.Proofs.VerifierDecide
import RaftWal.Proofs.VerifierReach
import RaftWal.Generated.Verifier
import RaftWal.Generated.Consts
namespace RaftWal.C17
open RaftWal RaftWal.Verifier

/-- T1: the statements of `checksumLog` in the current source are the ones the model implements: the bootstrap
    carve-out, Index, Term, Type as 8 bytes each, Data, Extensions when non-empty, in that order -/
theorem checksumLog_source_shape : Generated.checksumLogStmts =
    [("if log.Index == 1 && log.Type == raft.LogConfiguration", "return 0;"),
     ("do", "sum = fnv1a.AddUint64(sum, log.Index)"),
     ("do", "sum = fnv1a.AddUint64(sum, log.Term)"),
     ("do", "sum = fnv1a.AddUint64(sum, uint64(log.Type))"),
     ("do", "sum = fnv1a.AddBytes64(sum, log.Data)"),
     ("if len(log.Extensions) > 0", "sum = fnv1a.AddBytes64(sum, log.Extensions);"),
     ("return", "sum")] := by decide

/-- T1: the checkpoint metadata layout (magic, start index, sum at offsets 0/8/16, little endian) -/
theorem checkpointMeta_layout :
    Generated.encodeCheckpointMetaLayout =
      [(0, 8, "put-le64", "ExtensionMagicPrefix"), (8, 16, "put-le64", "startIdx"), (16, 24, "put-le64", "sum")] ∧
    Generated.decodeCheckpointMetaLayout =
      [(0, 8, "get-le64-into", "magic"), (8, 16, "get-le64-into", "startIdx"), (16, 24, "get-le64-into", "sum")] ∧
    Generated.ver_ExtensionMagicPrefix = extensionMagic := by decide

/-- **verdict table**: for a fresh report, ErrChecksumMismatch "in flight" is reported exactly when the node
    wrote a different non-zero sum than the leader; "at rest" exactly when — the written sum being absent or
    equal — the node holds the range and the chain over what its store returns differs from the leader's sum -/
theorem verdict_table (n : Node) (r : Report) (hopen : n.store.closed = false) (hfresh : r.err = .none) :
    ((n.verify r).2.err = .checksumInFlight ↔ (r.written ≠ 0 ∧ r.written ≠ r.expected)) ∧
    ((n.verify r).2.err = .checksumStorage ↔
        (¬ (r.written ≠ 0 ∧ r.written ≠ r.expected) ∧ n.store.firstIndex ≤ r.start ∧
         ∃ es, readRange n r.start (r.stop - r.start) = some es ∧ chain 0 es ≠ r.expected)) :=
  verify_verdict_fresh n r hopen hfresh

/-- **detects, up to collisions**: if the node holds the range, the entries its store returns chain to a value
    different from the leader's sum, then the delivered report carries a checksum mismatch -/
theorem detects_mod_collision (n : Node) (r : Report) (es : List Log) (hopen : n.store.closed = false)
    (hfresh : r.err = .none) (hfirst : n.store.firstIndex ≤ r.start)
    (hread : readRange n r.start (r.stop - r.start) = some es) (hne : chain 0 es ≠ r.expected) :
    (n.verify r).2.err = .checksumInFlight ∨ (n.verify r).2.err = .checksumStorage := by
  have h := verify_verdict_fresh n r hopen hfresh
  by_cases hw : r.written ≠ 0 ∧ r.written ≠ r.expected
  · exact .inl (h.1.mpr hw)
  · exact .inr (h.2.mpr ⟨hw, hfirst, es, hread, hne⟩)

/-- **single substitution is always detected** — no collision is possible: two FNV-1a inputs that differ in
    exactly one byte give different sums from any starting state -/
theorem single_substitution_always_detected (h : UInt64) (p t : Bytes) (a b : UInt8) (hab : a ≠ b) :
    fnvBytes h (p ++ a :: t) ≠ fnvBytes h (p ++ b :: t) :=
  fnvBytes_single_substitution h p t a b hab

/-- a one-byte change of Data changes the entry's checksum with certainty -/
theorem detects_data_byte (s : UInt64) (l : Log) (p t : Bytes) (a b : UInt8) (hab : a ≠ b)
    (hl : Hashed l) (hd : l.data = p ++ a :: t) :
    checksumLog s l ≠ checksumLog s { l with data := p ++ b :: t } :=
  checksumLog_detects_data_byte s l p t a b hab hl hd

/-- a change of Term confined to one of its 8 bytes changes the entry's checksum with certainty
    (Index and Type are hashed the same way) -/
theorem detects_term_byte (s : UInt64) (l : Log) (t' : Nat) (p q : Bytes) (a b : UInt8) (hab : a ≠ b)
    (hl : Hashed l) (h1 : putBE 8 l.term = p ++ a :: q) (h2 : putBE 8 t' = p ++ b :: q) :
    checksumLog s l ≠ checksumLog s { l with term := t' } :=
  checksumLog_detects_term_byte s l t' p q a b hab hl h1 h2

/-- **blame is sound**: an in-flight verdict means the node's written sum — which is its running checksum over
    what it passed to its store (C16.running_sum_invariant) — really differs from the leader's -/
theorem inflight_blame_sound (n : Node) (r : Report) (hopen : n.store.closed = false) (hfresh : r.err = .none)
    (h : (n.verify r).2.err = .checksumInFlight) : r.written ≠ 0 ∧ r.written ≠ r.expected :=
  (verify_verdict_fresh n r hopen hfresh).1.mp h

/-- documented carve-out: the bootstrap configuration entry at index 1 hashes to 0 whatever it contains -/
theorem bootstrap_entry_ignored (s : UInt64) (l : Log) (h : l.index = 1 ∧ l.typ = logConfiguration) :
    checksumLog s l = 0 := by
  simp [checksumLog, h]

/-- the running sum never covers a batch the store underneath refused: the code publishes it only after the store
    accepted the batch (fact), as `Node.storeLogs` does — so in-flight blame cannot stem from a rejected append -/
theorem sum_never_covers_rejected_batch : Generated.verifierPublishesAfterStore = true := by decide

/-- in-flight corruption is blamed exactly when the node's written sum is set and differs from the leader's — the condition
    translated from `verify` on every run is the model's -/
theorem inflight_blame_condition_from_source (r : Verifier.Report) :
    (r.written ≠ 0 ∧ r.written ≠ r.expected) ↔
      Generated.verifyBlamesInFlight r.written.toNat r.expected.toNat = true :=
  Verifier.inflight_blame_eq_source r

/-! ### the systematic blind spot, stated exactly (recorded observation, DESIGN §0.6)

    `checksumLog` feeds Data and then Extensions to FNV-1a back to back, with no length or separator in between. Moving
    bytes across that boundary changes both fields and no sum: not a chance collision of the 64-bit hash but an identity
    of its input. Every other single- or multi-field difference changes `hashInput` (the fixed-width Index/Term/Type
    prefix and the concatenation). -/

theorem boundary_shift_undetected (s : UInt64) (l : Log) (d e : Bytes) (h : d ++ e = l.data ++ l.ext) :
    Verifier.checksumLog s { l with data := d, ext := e } = Verifier.checksumLog s l := by
  unfold Verifier.checksumLog Verifier.hashInput
  simp only [List.append_assoc]
  rw [h]

/-- concretely: Data = "ab", Extensions = "c" and Data = "a", Extensions = "bc" have the same sum from every start -/
example (s : UInt64) :
    Verifier.checksumLog s { index := 7, term := 2, typ := 0, data := [0x61, 0x62], ext := [0x63], time := none } =
    Verifier.checksumLog s { index := 7, term := 2, typ := 0, data := [0x61], ext := [0x62, 0x63], time := none } :=
  boundary_shift_undetected s { index := 7, term := 2, typ := 0, data := [0x61], ext := [0x62, 0x63], time := none }
    [0x61, 0x62] [0x63] rfl

end RaftWal.C17
