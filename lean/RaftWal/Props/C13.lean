/-
  C13 — Disk space is reclaimed and segment identities are never reused.
  Sequential level (every run of calls, reopen included); the crash level — orphans left by an interrupted
  truncation/rotation are removed by Open, nothing collides — is checked by the crash suite's directory monitor.
-/
import RaftWal.Generated.Conc
import RaftWal.Proofs.WalInv2
import RaftWal.Proofs.CrashCorollaries
import RaftWal.Proofs.ConcReclaim
namespace RaftWal.C13
open RaftWal

/-- **dir_exact**: after every call of every run (appends with rotations, head/tail/whole-log truncations, base
    resets, Close/reopen, stable calls) the directory holds exactly the files of the live segments — same
    (id, base) pairs — with pairwise distinct ids, all below NextSegmentID: the files of every segment lying wholly
    inside a deleted range are gone as soon as the DeleteRange has returned (no reader pins the old state in a
    sequential run) -/
theorem dir_exact (cfg : WalCfg) (hcfg : cfg.newSegCodec = cfg.codecId) (w0 : Wal) (h0 : Wal.init cfg = some w0)
    (ops : List XOp) (hops : ∀ op ∈ ops, op.inRange) : DirExact (w0.xrunState ops) :=
  dirExact_run cfg hcfg w0 h0 ops hops

/-- **ids_unique**: from any state, a call never lowers NextSegmentID and every segment present afterwards either
    existed before (same id, same base index) or carries an id that was not yet handed out — so no two segments
    created during the lifetime of a directory share an id or a file name -/
theorem ids_never_reused (w : Wal) (op : XOp) :
    let w' := (w.xstep op).1
    w.nextID ≤ w'.nextID ∧
    ∀ s ∈ w'.segs, (∃ s0 ∈ w.segs, s0.1.id = s.1.id ∧ s0.1.base = s.1.base) ∨ w.nextID ≤ s.1.id :=
  ids_fresh_step w op

/-- **create_never_collides**: the exclusive create of a new segment file cannot meet an existing file: when every
    file in the directory has an id below NextSegmentID (part of `dir_exact`), the collision test `createNext`
    performs for the new segment — which gets exactly NextSegmentID — is false whatever the base index -/
theorem create_never_collides (w : Wal) (base : Nat) (hlt : ∀ f ∈ w.files, f.id < w.nextID) :
    (w.files.any (fun f => f.id = (w.newSeg w.nextID base).id ∧ f.base = (w.newSeg w.nextID base).base)) = false := by
  rw [List.any_eq_false]
  intro f hf
  have hl := hlt f hf
  have hne : f.id ≠ w.nextID := by omega
  simp [Wal.newSeg, hne]

/-! ## WAL level: the durability protocol (Model/Crash.lean — meta commits, file creation, rotation, truncation, Open,
    tied to wal.go by the crash suite's action-by-action and image-by-image correspondence).  `Crash.QuiescentS` is
    the invariant of a live process between calls; it holds after Open on an empty directory, after every completed
    call and after every recovery (`Crash.init_quiescentS`, `Crash.call_refines_corrected`, `Crash.crash_safe_corrected`). -/

/-- **after every recovery the directory is exact**: it holds exactly the files of the segments the meta store lists —
    the orphans an interrupted truncation, rotation or base reset left are gone — and every identifier in use is below
    NextSegmentID -/
theorem recovered_dir_exact_any_crash (d : Crash.Disk) (hq : Crash.QuiescentS d) (op : Crash.Op) (hok : op.ok d) (k : Nat)
    (c : Crash.CrashKind) (d1 d' : Crash.Disk) (hr : Crash.ReachRec (Crash.crashAfter d (Crash.prog d op) k c) d1)
    (ho : Crash.openResult d1 = some d') :
    (∀ f ∈ d'.files, ∃ s ∈ d'.md.segs, s.id = f.id) ∧ (∀ s ∈ d'.md.segs, (d'.file? s.id).isSome) ∧
    (∀ s ∈ d'.md.segs, s.id < d'.md.nextID) :=
  Crash.recovered_dir_exact d hq op hok k c d1 d' hr ho

/-! ## under concurrency (Model/Conc.lean, every schedule): reclaimed exactly when the last holder lets go -/

/-- a replaced state that nobody holds any more has run its finalizer -/
theorem reclaimed_when_released (files wants : List Conc.FileId) (muts : List Conc.Mutation) (hwf : Conc.InitWF files muts)
    (s : Conc.Sys) (h : Conc.Reachable files wants muts s) (sid : Nat) (hs : sid < s.objs.length)
    (hfin : (s.obj sid).fin ≠ .unset) (h0 : (s.obj sid).refCount = 0) : (s.obj sid).fin = .taken :=
  Conc.reclaimed_when_released files wants muts hwf s h sid hs hfin h0

/-- … and has then closed (for truncations: deleted) every file it referenced and its successor does not -/
theorem dropped_files_closed (files wants : List Conc.FileId) (muts : List Conc.Mutation) (hwf : Conc.InitWF files muts)
    (s : Conc.Sys) (h : Conc.Reachable files wants muts s) (sid : Nat) (hs : sid + 1 < s.objs.length)
    (hfin : (s.obj sid).fin = .taken) :
    ∀ f ∈ (s.obj sid).files, f ∉ (s.obj (sid + 1)).files → s.isOpen f = false :=
  Conc.dropped_files_closed files wants muts hwf s h sid hs hfin

/-- nothing is closed early: only files a replaced, fully released state dropped; the current state has no finalizer -/
theorem closed_only_by_finalizer (files wants : List Conc.FileId) (muts : List Conc.Mutation) (hwf : Conc.InitWF files muts)
    (s : Conc.Sys) (h : Conc.Reachable files wants muts s) (f : Conc.FileId) (hc : s.isOpen f = false) :
    (∃ sid, sid + 1 < s.objs.length ∧ (s.obj sid).fin = .taken ∧ f ∈ (s.obj sid).files ∧ f ∉ (s.obj (sid + 1)).files) ∧
    (s.obj s.cur).fin = .unset :=
  ⟨Conc.closed_only_by_finalizer files wants muts hwf s h f hc, Conc.current_has_no_finalizer files wants muts hwf s h⟩

/-- every reference a call takes on the current state is given back exactly once (read from the source on every run: each
    `acquireState()` site declares fresh variables and defers the release in the next statement) — the discipline the
    readers of `Model.Conc` follow and `refcount_exact` / `no_double_close` / the reclaim theorems rest on -/
theorem every_acquire_is_released_once : Generated.everyAcquireHasDeferredRelease = true := by decide

/-- the reference count of a state is touched by `acquire` and `release` only (read from the source): every decrement goes
    through `release`, which runs the finalizer at zero — the step `Model.Conc` takes -/
theorem refcount_only_through_acquire_release :
    Generated.refCountTouchedBy = ["state.acquire", "state.release"] := by decide

end RaftWal.C13
