/-
  C13 — Disk space is reclaimed and segment identities are never reused.
  Sequential level (every run of calls, reopen included); the crash level — orphans left by an interrupted
  truncation/rotation are removed by Open, nothing collides — is checked by the crash suite's directory monitor.
-/
import RaftWal.Proofs.WalInv2
namespace RaftWal.C13
open RaftWal

/-- **dir_exact**: after every call of every run (appends with rotations, head/tail/whole-log truncations, base
    resets, Close/reopen, stable calls) the directory holds exactly the files of the live segments — same
    (id, base) pairs — with pairwise distinct ids, all below NextSegmentID: the files of every segment lying wholly
    inside a deleted range are gone as soon as the DeleteRange has returned (no reader pins the old state in a
    sequential run) -/
theorem dir_exact (cfg : WalCfg) (hcfg : cfg.newSegCodec = cfg.codecId) (w0 : Wal) (h0 : Wal.init cfg = some w0)
    (ops : List XOp) (hops : ∀ op ∈ ops, op.inRange) : DirExact (w0.xrunState ops) :=
  dirExact_run cfg hcfg w0 h0 ops hops

/-- **ids_unique**: from any state, a call never lowers NextSegmentID and every segment present afterwards either
    existed before (same id, same base index) or carries an id that was not yet handed out — so no two segments
    created during the lifetime of a directory share an id or a file name -/
theorem ids_never_reused (w : Wal) (op : XOp) :
    let w' := (w.xstep op).1
    w.nextID ≤ w'.nextID ∧
    ∀ s ∈ w'.segs, (∃ s0 ∈ w.segs, s0.1.id = s.1.id ∧ s0.1.base = s.1.base) ∨ w.nextID ≤ s.1.id :=
  ids_fresh_step w op

/-- **create_never_collides**: the exclusive create of a new segment file cannot meet an existing file: when every
    file in the directory has an id below NextSegmentID (part of `dir_exact`), the collision test `createNext`
    performs for the new segment — which gets exactly NextSegmentID — is false whatever the base index -/
theorem create_never_collides (w : Wal) (base : Nat) (hlt : ∀ f ∈ w.files, f.id < w.nextID) :
    (w.files.any (fun f => f.id = (w.newSeg w.nextID base).id ∧ f.base = (w.newSeg w.nextID base).base)) = false := by
  rw [List.any_eq_false]
  intro f hf
  have hl := hlt f hf
  have hne : f.id ≠ w.nextID := by omega
  simp [Wal.newSeg, hne]

end RaftWal.C13
