import RaftWal.Props.C13
#print axioms RaftWal.C13.dir_exact
#print axioms RaftWal.C13.ids_never_reused
#print axioms RaftWal.C13.create_never_collides
#print axioms RaftWal.C13.recovered_dir_exact_any_crash
#print axioms RaftWal.C13.reclaimed_when_released
#print axioms RaftWal.C13.dropped_files_closed
#print axioms RaftWal.C13.closed_only_by_finalizer
#print axioms RaftWal.C13.every_acquire_is_released_once
#print axioms RaftWal.C13.refcount_only_through_acquire_release
