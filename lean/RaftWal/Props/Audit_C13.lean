import RaftWal.Props.C13
#print axioms RaftWal.C13.dir_exact
#print axioms RaftWal.C13.ids_never_reused
#print axioms RaftWal.C13.create_never_collides
#print axioms RaftWal.C13.recovered_dir_exact_any_crash
