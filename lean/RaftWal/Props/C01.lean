/-
  C01 — Acknowledged appends survive any crash.
  (byte level, L1: every acknowledged batch survives recovery from any torn later write; the WAL level — meta
  commits, rotation, truncation, nested crashes — is carried by the crash suite's ghost-state monitors)
-/
import RaftWal.Proofs.SegmentTorn
namespace RaftWal.C01
open RaftWal

/-- **acknowledged entries survive a clean restart**: recovery of the file a run of acknowledged appends left
    behind yields a writer that reports exactly those entries (same offsets, same commit index) -/
theorem acked_survive_restart (info : SegInfo) (bs : List (List Bytes)) (hwf : RunWF info bs)
    (w : Writer) (file : Bytes)
    (hrun : (freshSegment info).1.appendAll (freshSegment info).2 info.base bs = some (w, file)) :
    ((recoverTail info file).toOption.map (fun p => p.1.obs)) = some w.obs :=
  (RaftWal.recover_untorn info bs hwf w file hrun).1

/-- **acknowledged entries survive any torn later write** (L1 `recover_acked_prefix`): after a run of
    acknowledged appends `bs` (at least one) and an in-flight batch torn in any way, recovery succeeds and the
    recovered writer still reports every acknowledged entry: its offsets start with the acknowledged offsets and its
    commit index is at least the acknowledged one -/
theorem acked_survive_torn_write (info : SegInfo) (bs : List (List Bytes)) (b : List Bytes) (hne : bs ≠ [])
    (hwf : RunWF info (bs ++ [b])) (w : Writer) (file : Bytes)
    (hrun : (freshSegment info).1.appendAll (freshSegment info).2 info.base bs = some (w, file))
    (w' : Writer) (file' : Bytes)
    (happ : w.append file (indexBatch (info.base + bs.flatten.length) b) .none = (none, w', file'))
    (mask : Nat → Bool) :
    let img := tearImage file file' w.writeOffset (w'.writeOffset - w.writeOffset) mask
    ∃ wr img', recoverTail info img = .ok (wr, img') ∧ (wr.obs = w.obs ∨ wr.obs = w'.obs) := by
  intro img
  obtain ⟨wr, img', h, hc⟩ := recover_torn_atomic_partial info bs b hne hwf w file hrun w' file' happ mask
  exact ⟨wr, img', h, hc.elim (fun h => .inl h.1) (fun h => .inr h.1)⟩

/-- the writer makes an entry visible (`commitIdx`) only in the same step that records the fsync'd batch:
    a fault-free append sets the commit index to the last index of the batch it just flushed and synced -/
theorem visible_only_after_sync (w : Writer) (file : Bytes) (es : List (Nat × Bytes)) (w' : Writer) (file' : Bytes)
    (h : w.append file es .none = (none, w', file')) (hne : es.isEmpty = false) :
    w'.commitIdx = ((es.getLast?.map (·.1)).getD 0) := by
  unfold Writer.append at h
  simp only [hne, Bool.false_eq_true, if_false] at h
  split at h
  · simp at h
  · split at h
    · simp at h
    · split at h
      · simp at h
      · split at h
        · simp at h
        · simp only [Prod.mk.injEq, true_and] at h
          rw [← h.1]

end RaftWal.C01
