/-
  C01 — Acknowledged appends survive any crash.
  (byte level, L1: every acknowledged batch survives recovery from any torn later write; the WAL level — meta
  commits, rotation, truncation, nested crashes — is carried by the crash suite's ghost-state monitors)
-/
import RaftWal.Generated.WalLogic
import RaftWal.Proofs.WalDecide
import RaftWal.Proofs.SegmentTorn
import RaftWal.Proofs.SegmentChainCor
import RaftWal.Proofs.CrashCorollaries
namespace RaftWal.C01
open RaftWal

/-- **acknowledged entries survive a clean restart**: recovery of the file a run of acknowledged appends left
    behind yields a writer that reports exactly those entries (same offsets, same commit index) -/
theorem acked_survive_restart (info : SegInfo) (bs : List (List Bytes)) (hwf : RunWF info bs)
    (w : Writer) (file : Bytes)
    (hrun : (freshSegment info).1.appendAll (freshSegment info).2 info.base bs = some (w, file)) :
    ((recoverTail info file).toOption.map (fun p => p.1.obs)) = some w.obs :=
  (RaftWal.recover_untorn info bs hwf w file hrun).1

/-- **acknowledged entries survive any torn later write** (L1 `recover_acked_prefix`): after a run of
    acknowledged appends `bs` (at least one) and an in-flight batch torn in any way, recovery succeeds and the
    recovered writer still reports every acknowledged entry: its offsets start with the acknowledged offsets and its
    commit index is at least the acknowledged one -/
theorem acked_survive_torn_write (info : SegInfo) (bs : List (List Bytes)) (b : List Bytes) (hne : bs ≠ [])
    (hwf : RunWF info (bs ++ [b])) (w : Writer) (file : Bytes)
    (hrun : (freshSegment info).1.appendAll (freshSegment info).2 info.base bs = some (w, file))
    (w' : Writer) (file' : Bytes)
    (happ : w.append file (indexBatch (info.base + bs.flatten.length) b) .none = (none, w', file'))
    (mask : Nat → Bool) :
    let img := tearImage file file' w.writeOffset (w'.writeOffset - w.writeOffset) mask
    ∃ wr img', recoverTail info img = .ok (wr, img') ∧ (wr.obs = w.obs ∨ wr.obs = w'.obs) := by
  intro img
  obtain ⟨wr, img', h, hc⟩ := recover_torn_atomic_partial info bs b hne hwf w file hrun w' file' happ mask
  exact ⟨wr, img', h, hc.elim (fun h => .inl h.1) (fun h => .inr h.1)⟩

/-- **acknowledged batches survive every chain of tears, recoveries and restarts on a segment file** (byte level,
    any number of cycles; `ChainEv`, `chainRun`, `chainSpec` are introduced in Props/C02): each batch whose append
    returned is in the file the last recovery leaves, readable at its index (`ChainResult.readable`), and nothing the file
    holds was not submitted. The only alternative is an explicit CRC-32C collision of a torn image. -/
theorem acked_survive_any_chain (info : SegInfo) (evs : List ChainEv) (hwf : ChainWF info evs) :
    ChainCollision info evs ∨ ∃ w file bs, ChainResult info evs w file bs ∧ (∀ b, ChainEv.append b ∈ evs → b ∈ bs)
      ∧ (∀ b ∈ bs, b ∈ chainBatches evs) :=
  RaftWal.chain_acked_survive info evs hwf

/-- the writer makes an entry visible (`commitIdx`) only in the same step that records the fsync'd batch:
    a fault-free append sets the commit index to the last index of the batch it just flushed and synced -/
theorem visible_only_after_sync (w : Writer) (file : Bytes) (es : List (Nat × Bytes)) (w' : Writer) (file' : Bytes)
    (h : w.append file es .none = (none, w', file')) (hne : es.isEmpty = false) :
    w'.commitIdx = ((es.getLast?.map (·.1)).getD 0) := by
  unfold Writer.append at h
  simp only [hne, Bool.false_eq_true, if_false] at h
  split at h
  · simp at h
  · split at h
    · simp at h
    · split at h
      · simp at h
      · split at h
        · simp at h
        · simp only [Prod.mk.injEq, true_and] at h
          rw [← h.1]

/-! ## WAL level: the durability protocol (Model/Crash.lean — meta commits, file creation, rotation, truncation, Open,
    tied to wal.go by the crash suite's action-by-action and image-by-image correspondence).  `Crash.QuiescentS` is
    the invariant of a live process between calls; it holds after Open on an empty directory, after every completed
    call and after every recovery (`Crash.init_quiescentS`, `Crash.call_refines_corrected`, `Crash.crash_safe_corrected`). -/

/-- **every entry in the log survives every crash of every later call that does not delete it** — appends (with
    rotation or base reset), truncations, stable writes, cut at any I/O boundary by a process crash or by a power loss
    with any choice of surviving un-fsynced batches and directory entries, recovered by any number of Opens that are
    themselves cut -/
theorem entries_survive_any_crash (d : Crash.Disk) (hq : Crash.QuiescentS d) (op : Crash.Op) (hok : op.ok d) (k : Nat)
    (c : Crash.CrashKind) (d1 d' : Crash.Disk) (hr : Crash.ReachRec (Crash.crashAfter d (Crash.prog d op) k c) d1)
    (ho : Crash.openResult d1 = some d') (p : Nat × Crash.Entry) (hp : p ∈ Crash.absLog d)
    (hnr : op.removes p.1 = false) : p ∈ Crash.absLog d' :=
  Crash.entries_survive d hq op hok k c d1 d' hr ho p hp hnr

/-- **once StoreLogs has returned** the log every recovery comes back with is the old log followed by exactly the
    appended entries, and the recovered state is again one from which all of this holds -/
theorem acked_append_survives_any_crash (d : Crash.Disk) (hq : Crash.QuiescentS d) (first : Nat) (es : List Crash.Entry)
    (s : Bool) (hok : (Crash.Op.store first es s).ok d) (k : Nat) (c : Crash.CrashKind) (d1 d' : Crash.Disk)
    (hr : Crash.ReachRec (Crash.crashAfter d (Crash.prog d (.store first es s)) k c) d1)
    (ho : Crash.openResult d1 = some d') (hack : Crash.ackPos (Crash.prog d (.store first es s)) < k) :
    Crash.absLog d' = Crash.absLog d ++ Crash.appended first es ∧ Crash.QuiescentS d' :=
  Crash.acked_append_survives d hq first es s hok k c d1 d' hr ho hack

/-- the hypotheses are met by the state Open leaves on an empty directory -/
theorem protocol_init : ∃ d, Crash.openResult Crash.emptyDisk = some d ∧ Crash.QuiescentS d ∧ Crash.absLog d = [] :=
  Crash.init_quiescentS

/-- which segments a truncation keeps, as wal.go decides it (read from the source on every run): a tail truncation keeps
    every segment whose first index is at or below the new last index; a head truncation keeps the tail if it holds the new
    first index and a sealed segment if its last index is at or above it -/
theorem truncation_scans_from_source (s : SegS) (stateLast newMin newMax : Nat) :
    (((¬ s.sealed ∧ stateLast ≥ newMin) ∨ (s.sealed ∧ s.max ≥ newMin)) ↔
        Generated.truncateHeadStopsAt s.sealed s.base s.min s.max stateLast newMin = true) ∧
    ((s.base ≤ newMax) ↔ Generated.truncateTailKeeps s.base s.min s.max newMax = true) :=
  ⟨RaftWal.truncateHead_stop_eq_source s stateLast newMin, RaftWal.truncateTail_keep_eq_source s newMax⟩

end RaftWal.C01
