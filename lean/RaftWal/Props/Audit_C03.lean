import RaftWal.Props.C03
#print axioms RaftWal.C03.recover_total_on_torn
#print axioms RaftWal.C03.recovered_empty_not_sealed
#print axioms RaftWal.C03.usable_after_reopen
#print axioms RaftWal.C03.recovery_usable_any_crash
#print axioms RaftWal.C03.open_can_fail_outside_invariant
#print axioms RaftWal.C03.recovery_total_and_writable_any_chain
