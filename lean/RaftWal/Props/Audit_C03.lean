import RaftWal.Props.C03
#print axioms RaftWal.C03.recover_total_on_torn
#print axioms RaftWal.C03.recovered_empty_not_sealed
#print axioms RaftWal.C03.usable_after_reopen
