/-
  C08 — StableStore is a durable map, isolated from the log.
-/
import RaftWal.Proofs.WalInv2
import RaftWal.Proofs.CrashCorollaries
namespace RaftWal.C08
open RaftWal

/-- **stable_refines**: along any run mixing log calls (appends, rotations, truncations, Close/reopen) and
    StableStore calls, the WAL's stable map is exactly the reference map built from the Set/SetUint64 calls alone:
    log calls never alter stable keys, calls on a closed WAL change nothing, a clean reopen keeps every key -/
theorem stable_refines (cfg : WalCfg) (hcfg : cfg.newSegCodec = cfg.codecId) (w0 : Wal) (h0 : Wal.init cfg = some w0)
    (ops : List XOp) (hops : ∀ op ∈ ops, op.inRange) :
    (w0.xrunState ops).stable = (specStable ops).1 ∧ (w0.xrunState ops).closed = (specStable ops).2 :=
  RaftWal.stable_refines cfg hcfg w0 h0 ops hops

/-- Get returns the value of the latest Set for the key (nil when set to nil) -/
theorem get_after_set (m : SMap) (k : Bytes) (v : Option Bytes) : (m.set k v).get k = v := smap_get_set m k v

/-- … and a Set of another key does not disturb it -/
theorem get_after_set_other (m : SMap) (k k' : Bytes) (v : Option Bytes) (h : k' ≠ k) :
    (m.set k v).get k' = m.get k' := smap_get_set_other m k k' v h

/-- GetUint64 ∘ SetUint64 = id for every 64-bit value (8 bytes little endian) -/
theorem u64_roundtrip (w : Wal) (k : Bytes) (v : Nat) (hv : v < 2^64) (hopen : w.closed = false) :
    ((w.setUint64 k v).1.getUint64 k).2 = .ok v := RaftWal.u64_roundtrip w k v hv hopen

/-- GetUint64 of a key that was never set is 0 -/
theorem getUint64_unset_zero (w : Wal) (k : Bytes) (hopen : w.closed = false) (h : w.stable.find? (·.1 = k) = none) :
    (w.getUint64 k).2 = .ok 0 := RaftWal.getUint64_unset_zero w k hopen h

/-- stable calls never alter the log: segments, files, NextSegmentID and the closed flag are untouched -/
theorem stable_isolated (w : Wal) (k : Bytes) (v : Option Bytes) :
    let w' := (w.setStable k v).1
    w'.segs = w.segs ∧ w'.files = w.files ∧ w'.nextID = w.nextID ∧ w'.closed = w.closed :=
  stable_ops_leave_log w k v

/-! ## WAL level: the durability protocol (Model/Crash.lean — meta commits, file creation, rotation, truncation, Open,
    tied to wal.go by the crash suite's action-by-action and image-by-image correspondence).  `Crash.QuiescentS` is
    the invariant of a live process between calls; it holds after Open on an empty directory, after every completed
    call and after every recovery (`Crash.init_quiescentS`, `Crash.call_refines_corrected`, `Crash.crash_safe_corrected`). -/

/-- **the stable store across crashes**: after recovery it is the store before the call or after it, the one after it
    once the call had returned; log calls never change it -/
theorem stable_any_crash (d : Crash.Disk) (hq : Crash.Quiescent d) (op : Crash.Op) (hok : op.ok d) (k : Nat)
    (c : Crash.CrashKind) (d1 d' : Crash.Disk) (hr : Crash.ReachRec (Crash.crashAfter d (Crash.prog d op) k c) d1)
    (ho : Crash.openResult d1 = some d') :
    (d'.md.stable = d.md.stable ∨ d'.md.stable = (d.applyAll (Crash.prog d op)).md.stable) ∧
    (Crash.ackPos (Crash.prog d op) < k → d'.md.stable = (d.applyAll (Crash.prog d op)).md.stable) :=
  Crash.stable_crash_safe d hq op hok k c d1 d' hr ho

end RaftWal.C08
