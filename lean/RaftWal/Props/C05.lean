/-
  C05 — Sequential behaviour equals a simple contiguous-log model.
-/
import RaftWal.Generated.WalLogic
import RaftWal.Proofs.WalRefine
import RaftWal.Generated.Codec
import RaftWal.Proofs.CrashSpecLink
namespace RaftWal.C05
open RaftWal

/-- T1: `newSegment` records the configured codec's ID, so a WAL reopened with the codec it was created with
    passes Open's codec check (the hypothesis `newSegCodec = codecId` of the refinement) -/
theorem newSegment_records_codec : Generated.newSegmentRecordsConfiguredCodec = true := by decide

/-- **wal_refines_spec**: for every operation sequence over StoreLogs, DeleteRange, GetLog, FirstIndex,
    LastIndex, Close and reopen — any batch shapes, any (min,max), any segment size down to one entry per
    segment, any start index — the answers of the WAL model equal those of the reference contiguous log:
    GetLog returns the stored entry exactly on [FirstIndex, LastIndex] and not-found elsewhere, identically
    before and after a reopen; non-contiguous or internally non-consecutive appends and strict-middle deletions
    are rejected and change nothing; an empty log accepts any start index ≥ 1. -/
theorem wal_refines_spec (cfg : WalCfg) (hcfg : cfg.newSegCodec = cfg.codecId) (w0 : Wal)
    (h0 : Wal.init cfg = some w0) (ops : List Op) (hops : ∀ op ∈ ops, op.inRange) :
    w0.run ops = ({ first := 0, entries := [] } : Spec.SLog).run ops :=
  RaftWal.wal_refines_spec cfg hcfg w0 h0 ops hops

/-- a new directory always opens -/
theorem init_succeeds (cfg : WalCfg) : (Wal.init cfg).isSome = true := by
  simp [Wal.init, Wal.reopen, Wal.reopen.build, Wal.createNext, Wal.tailSeg, Wal.newSeg, u64]

/-! ### what the reference log says (decision logic stated outright) -/

/-- a strict-middle range is rejected and changes nothing -/
theorem spec_delete_middle_rejected (s : Spec.SLog) (mn mx : Nat) (hopen : s.closed = false)
    (hne : s.entries ≠ []) (h1 : s.firstIndex < mn) (h2 : mn ≤ mx) (h3 : mx < s.lastIndex) :
    s.delete mn mx = (s, some .rejected) := by
  unfold Spec.SLog.delete
  have a : ¬ mn > mx := by omega
  have c : ¬ mn ≤ s.firstIndex := by omega
  have d : ¬ mx ≥ s.lastIndex := by omega
  have e1 : ¬ mx < s.firstIndex := by omega
  have e2 : ¬ mn > s.lastIndex := by omega
  simp [hopen, a, c, d, e1, e2, hne]

/-- an empty inclusive range is a no-op -/
theorem spec_delete_empty_range (s : Spec.SLog) (mn mx : Nat) (hopen : s.closed = false) (h : mn > mx) :
    s.delete mn mx = (s, none) := by
  simp [Spec.SLog.delete, hopen, h]

/-- a range entirely outside the log is a no-op -/
theorem spec_delete_disjoint (s : Spec.SLog) (mn mx : Nat) (hopen : s.closed = false) (hle : mn ≤ mx)
    (h : mx < s.firstIndex ∨ mn > s.lastIndex) : s.delete mn mx = (s, none) := by
  unfold Spec.SLog.delete
  have a : ¬ mn > mx := by omega
  rcases h with h | h <;> simp [hopen, a, h]

/-- a rejected append changes nothing -/
theorem spec_store_rejected_unchanged (s : Spec.SLog) (logs : List Log) (h : (s.store logs).2 = some .rejected) :
    (s.store logs).1 = s := by
  unfold Spec.SLog.store at *
  by_cases hc : s.closed = true
  · simp [hc]
  · by_cases ha : s.accepts logs = true
    · cases logs with
      | nil => simp [hc, ha]
      | cons l ls => simp [hc, ha] at h
    · simp [hc, ha]

/-- an empty log accepts any batch that is internally consecutive, encodable and starts at an index ≥ 1 -/
theorem spec_empty_accepts_any_start (s : Spec.SLog) (l : Log) (ls : List Log) (he : s.entries = [])
    (h1 : 1 ≤ l.index) (h2 : Spec.consecutiveFrom l.index (l :: ls) = true)
    (h3 : (l :: ls).all (fun l => (encode l).isSome) = true) : s.accepts (l :: ls) = true := by
  simp only [Spec.SLog.accepts, h2, h3, he, List.isEmpty_nil, if_true, Bool.true_and]
  simpa using h1

-- non-vacuity: a program with rotation, head and tail truncation and reopen meets the hypotheses
example : ∀ op ∈ ([.store [{ index := 7, term := 1, typ := 0, data := [1,2,3], ext := [], time := some WTime.zero }],
                   .del 7 7, .get 7, .reopen, .first, .last] : List Op), op.inRange := by
  intro op h
  simp only [List.mem_cons, List.mem_nil_iff, or_false] at h
  rcases h with h | h | h | h | h | h <;> subst h <;> simp [Op.inRange]

/-! ## one specification: the log the crash theorems (C01–C04) are stated against is this reference log -/

/-- an append the reference log accepts is a legal `store` of the crash model's specification with the same result -/
theorem crash_spec_store_is_reference (tag : Log → Crash.Entry) (s : Spec.SLog) (l : Log) (ls : List Log) (b : Bool)
    (hopen : s.closed = false) (hacc : s.accepts (l :: ls) = true) :
    Crash.view tag (s.store (l :: ls)).1 = Crash.specApply (Crash.view tag s) (.store l.index ((l :: ls).map tag) b) ∧
    (s.store (l :: ls)).2 = none :=
  Crash.store_link tag s l ls b hopen hacc

/-- a prefix DeleteRange of the reference log is the crash model's `delHead` (max clamped to LastIndex, as wal.go does) -/
theorem crash_spec_delHead_is_reference (tag : Log → Crash.Entry) (s : Spec.SLog) (mn mx : Nat) (hopen : s.closed = false)
    (hne : s.entries ≠ []) (h1 : mn ≤ mx) (h2 : mn ≤ s.firstIndex) (h3 : s.firstIndex ≤ mx) :
    Crash.view tag (s.delete mn mx).1 =
      Crash.specApply (Crash.view tag s) (.delHead ((if mx > s.lastIndex then s.lastIndex else mx) + 1)) ∧
    (s.delete mn mx).2 = none :=
  Crash.delHead_link tag s mn mx hopen hne h1 h2 h3

/-- a suffix DeleteRange of the reference log is the crash model's `delTail` -/
theorem crash_spec_delTail_is_reference (tag : Log → Crash.Entry) (s : Spec.SLog) (mn mx : Nat) (hopen : s.closed = false)
    (hne : s.entries ≠ []) (h2 : s.firstIndex < mn) (h3 : mn ≤ s.lastIndex) (h4 : s.lastIndex ≤ mx) :
    Crash.view tag (s.delete mn mx).1 = Crash.specApply (Crash.view tag s) (.delTail (mn - 1)) ∧ (s.delete mn mx).2 = none :=
  Crash.delTail_link tag s mn mx hopen hne h2 h3 h4

/-! ## the decision logic of wal.go, read from the source on every run (T1): the comparisons by which `DeleteRange`
    classifies a range, the truncation scans pick the segments to keep, and `StoreLogs` re-bases or refuses — the ones
    `Model.Wal.deleteRange` / `storeLogs` implement and `wal_refines_spec` is proved about -/

theorem deleteRange_classification_from_source :
    Generated.deleteRangeEmptyGuard = "min > max => return nil" ∧
    Generated.deleteRangeSwitch =
      [("max < first || min > last", "return nil"),
       ("min <= first", "if max > last { max = last } ; return w.truncateHeadLocked(max + 1)"),
       ("max >= last", "return w.truncateTailLocked(min - 1)"),
       ("default", "return error")] := by decide

theorem truncation_scans_from_source :
    Generated.truncateTailStops = ["seg.BaseIndex <= newMax"] ∧
    Generated.truncateHeadStops = ["newState.lastIndex() >= newMin", "seg.MaxIndex >= newMin"] := by decide

theorem storeLogs_guards_from_source :
    Generated.storeResetCond = "lastIdx == 0 && logs[0].Index != ti.BaseIndex" ∧
    Generated.storeNonMonotonicCond = "lastIdx > 0 && l.Index != (lastIdx+1)" := by decide

/-- both writers wait for a queued rotation before they look at the state (the model rotates inside the sealing append:
    no call ever sees a sealed tail that is still the tail) -/
theorem writers_wait_for_queued_rotation : Generated.writersAwaitRotationFirst = true := by decide

end RaftWal.C05
