/-
  C05 — Sequential behaviour equals a simple contiguous-log model.
-/
import RaftWal.Generated.WalLogic
import RaftWal.Proofs.WalDecide
import RaftWal.Proofs.WalDecideScans
import RaftWal.Proofs.WalRefine
import RaftWal.Generated.Codec
import RaftWal.Proofs.CrashSpecLink
namespace RaftWal.C05
open RaftWal

/-- T1: `newSegment` records the configured codec's ID, so a WAL reopened with the codec it was created with
    passes Open's codec check (the hypothesis `newSegCodec = codecId` of the refinement) -/
theorem newSegment_records_codec : Generated.newSegmentRecordsConfiguredCodec = true := by decide

/-- **wal_refines_spec**: for every operation sequence over StoreLogs, DeleteRange, GetLog, FirstIndex,
    LastIndex, Close and reopen — any batch shapes, any (min,max), any segment size down to one entry per
    segment, any start index — the answers of the WAL model equal those of the reference contiguous log:
    GetLog returns the stored entry exactly on [FirstIndex, LastIndex] and not-found elsewhere, identically
    before and after a reopen; non-contiguous or internally non-consecutive appends and strict-middle deletions
    are rejected and change nothing; an empty log accepts any start index ≥ 1. -/
theorem wal_refines_spec (cfg : WalCfg) (hcfg : cfg.newSegCodec = cfg.codecId) (w0 : Wal)
    (h0 : Wal.init cfg = some w0) (ops : List Op) (hops : ∀ op ∈ ops, op.inRange) :
    w0.run ops = ({ first := 0, entries := [] } : Spec.SLog).run ops :=
  RaftWal.wal_refines_spec cfg hcfg w0 h0 ops hops

/-- a new directory always opens -/
theorem init_succeeds (cfg : WalCfg) : (Wal.init cfg).isSome = true := by
  simp [Wal.init, Wal.reopen, Wal.reopen.build, Wal.createNext, Wal.tailSeg, Wal.newSeg, u64]

/-! ### what the reference log says (decision logic stated outright) -/

/-- a strict-middle range is rejected and changes nothing -/
theorem spec_delete_middle_rejected (s : Spec.SLog) (mn mx : Nat) (hopen : s.closed = false)
    (hne : s.entries ≠ []) (h1 : s.firstIndex < mn) (h2 : mn ≤ mx) (h3 : mx < s.lastIndex) :
    s.delete mn mx = (s, some .rejected) := by
  unfold Spec.SLog.delete
  have a : ¬ mn > mx := by omega
  have c : ¬ mn ≤ s.firstIndex := by omega
  have d : ¬ mx ≥ s.lastIndex := by omega
  have e1 : ¬ mx < s.firstIndex := by omega
  have e2 : ¬ mn > s.lastIndex := by omega
  simp [hopen, a, c, d, e1, e2, hne]

/-- an empty inclusive range is a no-op -/
theorem spec_delete_empty_range (s : Spec.SLog) (mn mx : Nat) (hopen : s.closed = false) (h : mn > mx) :
    s.delete mn mx = (s, none) := by
  simp [Spec.SLog.delete, hopen, h]

/-- a range entirely outside the log is a no-op -/
theorem spec_delete_disjoint (s : Spec.SLog) (mn mx : Nat) (hopen : s.closed = false) (hle : mn ≤ mx)
    (h : mx < s.firstIndex ∨ mn > s.lastIndex) : s.delete mn mx = (s, none) := by
  unfold Spec.SLog.delete
  have a : ¬ mn > mx := by omega
  rcases h with h | h <;> simp [hopen, a, h]

/-- a rejected append changes nothing -/
theorem spec_store_rejected_unchanged (s : Spec.SLog) (logs : List Log) (h : (s.store logs).2 = some .rejected) :
    (s.store logs).1 = s := by
  unfold Spec.SLog.store at *
  by_cases hc : s.closed = true
  · simp [hc]
  · by_cases ha : s.accepts logs = true
    · cases logs with
      | nil => simp [hc, ha]
      | cons l ls => simp [hc, ha] at h
    · simp [hc, ha]

/-- an empty log accepts any batch that is internally consecutive, encodable and starts at an index ≥ 1 -/
theorem spec_empty_accepts_any_start (s : Spec.SLog) (l : Log) (ls : List Log) (he : s.entries = [])
    (h1 : 1 ≤ l.index) (h2 : Spec.consecutiveFrom l.index (l :: ls) = true)
    (h3 : (l :: ls).all (fun l => (encode l).isSome) = true) : s.accepts (l :: ls) = true := by
  simp only [Spec.SLog.accepts, h2, h3, he, List.isEmpty_nil, if_true, Bool.true_and]
  simpa using h1

-- non-vacuity: a program with rotation, head and tail truncation and reopen meets the hypotheses
example : ∀ op ∈ ([.store [{ index := 7, term := 1, typ := 0, data := [1,2,3], ext := [], time := some WTime.zero }],
                   .del 7 7, .get 7, .reopen, .first, .last] : List Op), op.inRange := by
  intro op h
  simp only [List.mem_cons, List.mem_nil_iff, or_false] at h
  rcases h with h | h | h | h | h | h <;> subst h <;> simp [Op.inRange]

/-! ## one specification: the log the crash theorems (C01–C04) are stated against is this reference log -/

/-- an append the reference log accepts is a legal `store` of the crash model's specification with the same result -/
theorem crash_spec_store_is_reference (tag : Log → Crash.Entry) (s : Spec.SLog) (l : Log) (ls : List Log) (b : Bool)
    (hopen : s.closed = false) (hacc : s.accepts (l :: ls) = true) :
    Crash.view tag (s.store (l :: ls)).1 = Crash.specApply (Crash.view tag s) (.store l.index ((l :: ls).map tag) b) ∧
    (s.store (l :: ls)).2 = none :=
  Crash.store_link tag s l ls b hopen hacc

/-- a prefix DeleteRange of the reference log is the crash model's `delHead` (max clamped to LastIndex, as wal.go does) -/
theorem crash_spec_delHead_is_reference (tag : Log → Crash.Entry) (s : Spec.SLog) (mn mx : Nat) (hopen : s.closed = false)
    (hne : s.entries ≠ []) (h1 : mn ≤ mx) (h2 : mn ≤ s.firstIndex) (h3 : s.firstIndex ≤ mx) :
    Crash.view tag (s.delete mn mx).1 =
      Crash.specApply (Crash.view tag s) (.delHead ((if mx > s.lastIndex then s.lastIndex else mx) + 1)) ∧
    (s.delete mn mx).2 = none :=
  Crash.delHead_link tag s mn mx hopen hne h1 h2 h3

/-- a suffix DeleteRange of the reference log is the crash model's `delTail` -/
theorem crash_spec_delTail_is_reference (tag : Log → Crash.Entry) (s : Spec.SLog) (mn mx : Nat) (hopen : s.closed = false)
    (hne : s.entries ≠ []) (h2 : s.firstIndex < mn) (h3 : mn ≤ s.lastIndex) (h4 : s.lastIndex ≤ mx) :
    Crash.view tag (s.delete mn mx).1 = Crash.specApply (Crash.view tag s) (.delTail (mn - 1)) ∧ (s.delete mn mx).2 = none :=
  Crash.delTail_link tag s mn mx hopen hne h2 h3 h4

/-! ## the decision logic of wal.go, read from the source on every run (T1): the comparisons by which `DeleteRange`
    classifies a range, the truncation scans pick the segments to keep, and `StoreLogs` re-bases or refuses — the ones
    `Model.Wal.deleteRange` / `storeLogs` implement and `wal_refines_spec` is proved about -/

/-- the model's `DeleteRange` on an open log is "decide, then act" … -/
theorem deleteRange_is_decide_then_act (w : Wal) (min max : Nat) (hc : w.closed = false) :
    w.deleteRange min max = w.applyDel (w.delDecision min max) :=
  RaftWal.deleteRange_eq_decision w min max hc

/-- … and **the decision is the one wal.go takes**, for all uint64 arguments: `Generated.deleteRangeDecide` is
    `DeleteRange`'s empty-range return, its classification switch, the clamping of `max` and the wrapping `max+1` /
    `min-1` it hands to the truncations, translated from the source expression by expression on every run. A rewrite of
    wal.go that keeps the decision still proves; one that changes it for some (min, max, first, last) does not. -/
theorem deleteRange_decision_from_source (w : Wal) (min max : Nat) (hmin : min < 2^64) (hmax : max < 2^64)
    (hf : w.firstIndex < 2^64) (hl : w.lastIndex < 2^64) :
    w.delDecision min max = Generated.deleteRangeDecide min max w.firstIndex w.lastIndex :=
  RaftWal.delDecision_eq_source w min max hmin hmax hf hl

/-- **the model's DeleteRange is the code's decision applied with the code's scans**: `applyDelVia` runs the model's
    truncations with their scan conditions replaced by the predicates translated from wal.go (`truncateHeadVia
    Generated.truncateHeadStopsAt`, `truncateTailVia Generated.truncateTailKeeps` — copies of `Wal.truncateHead` /
    `Wal.truncateTail` that ask the translated predicate at every step of the scan) -/
theorem deleteRange_via_source (w : Wal) (min max : Nat) (hc : w.closed = false)
    (hmin : min < 2^64) (hmax : max < 2^64) (hf : w.firstIndex < 2^64) (hl : w.lastIndex < 2^64) :
    w.deleteRange min max = w.applyDelVia (Generated.deleteRangeDecide min max w.firstIndex w.lastIndex) :=
  RaftWal.deleteRange_via_source w min max hc hmin hmax hf hl

theorem truncateHead_is_source_scan (w : Wal) (n : Nat) :
    w.truncateHead n = w.truncateHeadVia Generated.truncateHeadStopsAt n := RaftWal.truncateHead_eq_via w n

theorem truncateTail_is_source_scan (w : Wal) (n : Nat) :
    w.truncateTail n = w.truncateTailVia Generated.truncateTailKeeps n := RaftWal.truncateTail_eq_via w n

/-- `StoreLogs` with the two guards translated from wal.go is the model's, for indexes below 2^64 − 1 (the bound is
    tight: `ScansCex.storeLogs_eq_via_needs_hypothesis_uint64`) -/
theorem storeLogs_is_source_guards (w : Wal) (logs : List Log)
    (h0 : w.lastIndex + 1 < 2^64) (h : ∀ l ∈ logs.dropLast, l.index + 1 < 2^64) :
    w.storeLogs logs = w.storeLogsVia Generated.storeRebases Generated.storeRefusesIndex logs :=
  RaftWal.storeLogs_eq_via w logs h0 h

/-- the two decisions seeded changes broke, stated outright on the translated code: "everything up to MaxUint64" from at
    or below the first index is a head truncation to `last+1` (no wrap to 0), and a range touching only the first entry is
    a head truncation, not a no-op -/
theorem deleteRange_source_boundaries :
    (∀ first last, 0 < first → first ≤ last → last < 2^64 - 1 →
        Generated.deleteRangeDecide first (2^64 - 1) first last = .head (last + 1)) ∧
    (∀ first last mn, 0 < first → first ≤ last → last < 2^64 - 1 → mn ≤ first →
        Generated.deleteRangeDecide mn first first last = .head (first + 1)) := by
  refine ⟨?_, ?_⟩
  · intro first last h0 h1 h2
    unfold Generated.deleteRangeDecide
    simp only [u64, u64sub, Bool.or_eq_true, Bool.and_eq_true, decide_eq_true_eq, Bool.not_eq_true', decide_eq_false_iff_not,
      Bool.not_eq_eq_eq_not, Bool.not_true, Nat.reducePow] at *
    repeat' split
    all_goals first
      | (exfalso; omega)
      | (simp only [DelAction.head.injEq, DelAction.tail.injEq, reduceCtorEq]; omega)
      | rfl
  · intro first last mn h0 h1 h2 h3
    unfold Generated.deleteRangeDecide
    simp only [u64, u64sub, Bool.or_eq_true, Bool.and_eq_true, decide_eq_true_eq, Bool.not_eq_true', decide_eq_false_iff_not,
      Bool.not_eq_eq_eq_not, Bool.not_true, Nat.reducePow] at *
    repeat' split
    all_goals first
      | (exfalso; omega)
      | (simp only [DelAction.head.injEq, DelAction.tail.injEq, reduceCtorEq]; omega)
      | rfl

/-- the truncation scans and `StoreLogs`' two guards, as functions translated from the source, decide as the model's do -/
theorem truncation_scans_from_source (s : SegS) (stateLast newMin newMax : Nat) :
    (((¬ s.sealed ∧ stateLast ≥ newMin) ∨ (s.sealed ∧ s.max ≥ newMin)) ↔
        Generated.truncateHeadStopsAt s.sealed s.base s.min s.max stateLast newMin = true) ∧
    ((s.base ≤ newMax) ↔ Generated.truncateTailKeeps s.base s.min s.max newMax = true) :=
  ⟨RaftWal.truncateHead_stop_eq_source s stateLast newMin, RaftWal.truncateTail_keep_eq_source s newMax⟩

theorem storeLogs_guards_from_source (lastIdx firstNew tailBase idx : Nat) (h : lastIdx + 1 < 2^64) :
    ((lastIdx = 0 ∧ firstNew ≠ tailBase) ↔ Generated.storeRebases lastIdx firstNew tailBase = true) ∧
    ((lastIdx > 0 ∧ idx ≠ lastIdx + 1) ↔ Generated.storeRefusesIndex lastIdx idx = true) :=
  ⟨RaftWal.store_rebase_eq_source lastIdx firstNew tailBase, RaftWal.store_refuses_eq_source lastIdx idx h⟩

/-- at the very end of the index space the code's monotonicity check wraps (after 2^64−1 it would accept index 0):
    the reason `wal_refines_spec` is stated for indexes below 2^64−1 (`Op.inRange`) -/
theorem storeLogs_guard_wraps_at_max : Generated.storeRefusesIndex (2^64 - 1) 0 = false :=
  RaftWal.store_refuses_wraps

/-- both writers wait for a queued rotation before they look at the state (the model rotates inside the sealing append:
    no call ever sees a sealed tail that is still the tail) -/
theorem writers_wait_for_queued_rotation : Generated.writersAwaitRotationFirst = true := by decide

end RaftWal.C05
