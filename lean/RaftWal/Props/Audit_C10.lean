import RaftWal.Props.C10
#print axioms RaftWal.C10.failed_append_invisible
#print axioms RaftWal.C10.failed_forceSeal_rolled_back
#print axioms RaftWal.C10.failed_call_then_restart_partial
