import RaftWal.Props.C10
#print axioms RaftWal.C10.failed_append_invisible
#print axioms RaftWal.C10.failed_forceSeal_rolled_back
#print axioms RaftWal.C10.failed_call_then_restart_partial
#print axioms RaftWal.C10.readers_see_exactly_the_acknowledged_calls
#print axioms RaftWal.C10.restart_applies_failed_calls_in_full_or_not_at_all
#print axioms RaftWal.C10.failed_call_invisible_successful_call_applied
#print axioms RaftWal.C10.fault_invariant_always
#print axioms RaftWal.C10.fault_model_starts
#print axioms RaftWal.C10.fault_model_extends_crash_model
#print axioms RaftWal.C10.restart_needs_the_stronger_invariant
#print axioms RaftWal.C10.failed_append_stale_bytes_fabricate_an_entry
#print axioms RaftWal.C10.chain_atomic_with_faults_refuted
#print axioms RaftWal.C10.chain_atomic_faults_partial
#print axioms RaftWal.C10.repaired_witnesses
#print axioms RaftWal.C10.chain_atomic_repaired_sync
#print axioms RaftWal.C10.writer_clears_stale_tail_before_write
