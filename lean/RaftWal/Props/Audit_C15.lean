import RaftWal.Props.C15
#print axioms RaftWal.C15.accepted_implies_readable
#print axioms RaftWal.C15.accepted_within_max
#print axioms RaftWal.C15.oversize_refused
#print axioms RaftWal.C15.appendAcceptsSize_iff
