/-
  C15 — Entry-size boundaries: whatever is accepted is readable.
-/
import RaftWal.Proofs.SegmentL1
import RaftWal.Model.SizeLevel
namespace RaftWal.C15
open RaftWal

/-- **accepted_implies_readable**: if the writer acknowledged a run of batches, every entry of every batch — in
    every batch position, whatever its size relative to the read buffer (any buffer of at least one frame header,
    64 KiB in production), the segment size limit (an entry or batch larger than the whole segment is written,
    sealed and readable) or the 8-byte padding — is returned byte for byte. No size hypothesis: -/
theorem accepted_implies_readable (info : SegInfo) (bs : List (List Bytes)) (hwf : RunWF info bs)
    (hmin : info.min = info.base) (w : Writer) (file : Bytes)
    (hrun : (freshSegment info).1.appendAll (freshSegment info).2 info.base bs = some (w, file))
    (k : Nat) (hk : k < bs.flatten.length) (bufSize : Nat) (hbuf : 8 ≤ bufSize) :
    w.getLog file (info.base + k) bufSize = .ok (bs.flatten[k]'hk) :=
  RaftWal.accepted_implies_readable info bs hwf hmin w file hrun k hk bufSize hbuf

/-- … because acceptance itself implies every payload is within `MaxEntrySize` (64 MiB): an entry the reader
    could not read back is refused with an error, not acknowledged -/
theorem accepted_within_max (w : Writer) (file : Bytes) (next : Nat) (bs : List (List Bytes)) (w' : Writer) (file' : Bytes)
    (hrun : w.appendAll file next bs = some (w', file')) : ∀ b ∈ bs, ∀ p ∈ b, p.length ≤ maxEntrySize :=
  appendAll_payload_le w file next bs w' file' hrun

/-- an entry above the maximum is refused by `appendEntry` -/
theorem oversize_refused (w : Writer) (idx : Nat) (data : Bytes) (h : data.length > maxEntrySize) :
    w.appendEntry idx data = .error .other := by
  simp [Writer.appendEntry, h]

/-- the size-level acceptance function the `sizes` suite compares with the real code is the model's guard -/
theorem appendAcceptsSize_iff (n : Nat) : appendAcceptsSize n = true ↔ n ≤ maxEntrySize := by
  simp [appendAcceptsSize]

end RaftWal.C15
