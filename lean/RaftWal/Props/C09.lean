/-
  C09 — On-disk format matches the documented layout and stays readable.
-/
import RaftWal.Generated.WalLogic
import RaftWal.Proofs.SegmentL1
import RaftWal.Generated.Layout
import RaftWal.Generated.Consts
namespace RaftWal.C09
open RaftWal

/-! ### T1: the constants and straight-line layout code of the current source are the model's -/

theorem consts_gen_eq :
    Generated.seg_magic = magic ∧ Generated.seg_version = formatVersion ∧ Generated.seg_fileHeaderLen = fileHeaderLen ∧
    Generated.seg_frameHeaderLen = frameHeaderLen ∧ Generated.seg_MaxEntrySize = maxEntrySize ∧
    Generated.seg_minBufSize = minBufSize ∧ Generated.seg_FrameInvalid = frameInvalid ∧ Generated.seg_FrameEntry = frameEntry ∧
    Generated.seg_FrameIndex = frameIndex ∧ Generated.seg_FrameCommit = frameCommit ∧
    Generated.seg_segmentFileNamePattern = "%020d-%016x.wal" ∧ Generated.metadb_FileName = "wal-meta.db" := by decide

/-- `padLen` as written in format.go (`(8 - n % 8) & 7`) is the model's -/
theorem padLen_gen_eq (n : Nat) : Generated.padLen n = padLen n := by
  unfold Generated.padLen padLen frameHeaderLen
  have := Nat.and_two_pow_sub_one_eq_mod (8 - n % 8) 3
  simpa using this

theorem encodedFrameSize_gen_eq (n : Nat) : Generated.encodedFrameSize n = encodedFrameSize n := by
  unfold Generated.encodedFrameSize encodedFrameSize frameHeaderLen
  rw [padLen_gen_eq]

theorem indexFrameSize_gen_eq (n : Nat) : Generated.indexFrameSize n = indexFrameSize n := by
  unfold Generated.indexFrameSize indexFrameSize
  rw [encodedFrameSize_gen_eq]

/-- the byte ranges `writeFileHeader` / `readFileHeader` touch, as read from the source -/
theorem fileHeaderLayout_gen_eq :
    Generated.writeFileHeaderLayout =
      [(0, 4, "put-le32", "magic"), (4, 5, "put-byte", "0"), (5, 6, "put-byte", "0"), (6, 7, "put-byte", "0"),
       (7, 8, "put-byte", "version"), (8, 16, "put-le64", "info.BaseIndex"), (16, 24, "put-le64", "info.ID"),
       (24, 32, "put-le64", "info.Codec")] ∧
    Generated.readFileHeaderLayout =
      [(0, 8, "get-le64-into", "m"), (7, 8, "cmp-byte!=", "version"), (8, 16, "get-le64-into", "i.BaseIndex"),
       (16, 24, "get-le64-into", "i.ID"), (24, 32, "get-le64-into", "i.Codec")] := by decide

theorem frameHeaderLayout_gen_eq :
    Generated.writeFrameHeaderLayout =
      [(0, 1, "put-byte", "h.typ"), (1, 2, "put-byte", "0"), (2, 3, "put-byte", "0"), (3, 4, "put-byte", "0"),
       (4, 8, "put-le32", "lOrCRC")] ∧
    Generated.readFrameHeaderLayout = [(4, 8, "get-le32-into", "h.len"), (4, 8, "get-le32-into", "h.crc")] ∧
    Generated.frameHeaderCommitUsesCRC = true := by decide

/-! ### the writer produces exactly the README layout -/

/-- **writer_bytes_eq_spec**: for every segment info and every sequence of acknowledged batches (all payload
    lengths and residues mod 8, any number of batches, sealing or not) the bytes in the file up to the write
    offset are exactly what the independent README encoder lays out — 32-byte header, 8-byte aligned zero-padded
    entry frames, one commit frame per batch whose CRC-32C covers exactly the bytes since the previous commit (the
    header included for the first), an index frame before the last commit iff the segment sealed — and everything
    behind is still zero. -/
theorem writer_bytes_eq_spec (info : SegInfo) (bs : List (List Bytes)) (hwf : RunWF info bs)
    (w : Writer) (file : Bytes)
    (hrun : (freshSegment info).1.appendAll (freshSegment info).2 info.base bs = some (w, file)) (hne : bs ≠ []) :
    file.take w.writeOffset = Spec.layout info.base info.id info.codec (specBatches (w.indexStart > 0) bs)
    ∧ (∀ b ∈ file.drop w.writeOffset, b = 0) :=
  RaftWal.writer_bytes_eq_spec info bs hwf w file hrun hne

/-- **indexStart_is_payload_offset**: the `IndexStart` a sealed writer reports (and the WAL stores in meta) is the
    position README assigns to the index array -/
theorem indexStart_eq_spec (info : SegInfo) (bs : List (List Bytes)) (hwf : RunWF info bs)
    (w : Writer) (file : Bytes)
    (hrun : (freshSegment info).1.appendAll (freshSegment info).2 info.base bs = some (w, file))
    (hsealed : w.indexStart > 0) :
    w.indexStart = Spec.indexStart info.base info.id info.codec (specBatches true bs) :=
  writer_indexStart_eq_spec info bs hwf w file hrun hsealed

/-- **spec_decode_layout**: the independent README decoder reads back exactly the payloads that were appended -/
theorem spec_decode_writer (info : SegInfo) (bs : List (List Bytes)) (hwf : RunWF info bs)
    (w : Writer) (file : Bytes)
    (hrun : (freshSegment info).1.appendAll (freshSegment info).2 info.base bs = some (w, file)) :
    Spec.decode file = bs.flatten :=
  RaftWal.spec_decode_writer info bs hwf w file hrun

/-- **fileName_roundtrip**: `%020d-%016x.wal` is README's fixed-width naming for all 64-bit values -/
theorem fileName_eq_spec (base id : Nat) (hb : base < 2^64) (hi : id < 2^64) :
    fileName base id = Spec.fileName base id :=
  RaftWal.fileName_eq_spec base id hb hi

/-- frames are 8-byte aligned: every encoded frame size is a multiple of 8 -/
theorem frames_aligned (n : Nat) : encodedFrameSize n % 8 = 0 := by
  unfold encodedFrameSize padLen frameHeaderLen; omega

/-- StoreLogs and DeleteRange — every kind of DeleteRange — wait for a queued rotation after taking the write lock and
    before they look at the state (read from the source on every run): no call runs between a sealing append and its rotation -/
theorem writers_wait_for_queued_rotation : Generated.writersAwaitRotationFirst = true := by decide

end RaftWal.C09
