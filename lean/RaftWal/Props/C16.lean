/-
  C16 — Verifier raises no false alarms.   Property theorems only.
-/
import RaftWal.Proofs.VerifierReach
import RaftWal.Generated.Verifier
namespace RaftWal.C16
open RaftWal RaftWal.Verifier

/-- T1: the current source resets the running checksum in `LogStore.DeleteRange` (the model's `resetOnDelete`) -/
theorem delete_resets_sum : Generated.verifierDeleteResets = true := by decide

/-- **batch independence**: the running sum over a sequence of entries does not depend on how the entries
    were split into StoreLogs batches -/
theorem batch_independent (s : UInt64) (a b : List Log) : chain s (a ++ b) = chain (chain s a) b :=
  chain_append s a b

/-- **running_sum_invariant**: on every node, after *any* sequence of middleware operations (appends in any
    batching, with or without checkpoints, leader or follower; head or tail truncations; report deliveries;
    middleware restarts), whenever a running sum exists it is exactly the FNV chain over the entries the node's
    store holds from the sum's start index to the end of its log; with no start index the sum is 0. -/
theorem running_sum_invariant (ops : List NodeOp) :
    let n := ({ resetOnDelete := Generated.verifierDeleteResets } : Node).run ops
    SumInv n ∧ StoreWF n := by
  have h := reach_run ops { resetOnDelete := true } reach_init
  have e : ({ resetOnDelete := Generated.verifierDeleteResets } : Node) = { resetOnDelete := true } := by
    rw [delete_resets_sum]
  simp only [e]
  exact ⟨h.sum, h.wf⟩

/-- every report the middleware hands to the verifier starts without an error and without a read sum -/
theorem fresh_report (l l' : Log) (cs cs' : UInt64) (st st' : Nat) (r : Report)
    (h : updateVerifyState l cs st = some (l', cs', st', some r)) : r.err = .none ∧ r.read = 0 :=
  uvs_report_err l l' cs cs' st st' r h

/-- the written sum a follower's report carries is either absent (0) or the node's running checksum, and it is
    present only when the node's sum started exactly where the leader's did -/
theorem written_sum_is_running_sum (l l' : Log) (cs cs' : UInt64) (st st' : Nat) (r : Report)
    (h : updateVerifyState l cs st = some (l', cs', st', some r)) (hf : l.ext.length ≠ 0) :
    r.written = 0 ∨ (r.written = cs ∧ r.start = (if st = 0 then l.index else st)) := by
  unfold updateVerifyState at h
  split at h
  · cases h
  · cases h
  · simp only [] at h
    split at h
    · rename_i h0; exact absurd h0 hf
    · split at h
      · cases h
      · rename_i cpStart cpSum _
        simp only [Option.some.injEq, Prod.mk.injEq] at h
        obtain ⟨_, _, _, hr⟩ := h
        subst hr
        simp only
        by_cases hc : cpStart ≠ (if st = 0 then l.index else st)
        · left; simp [hc]
        · right
          have hc' : cpStart = (if st = 0 then l.index else st) := by simpa using hc
          exact ⟨by simp [hc'], hc'⟩

/-- **no false alarm**: when the node wrote what the leader summed (or carries no written sum), holds the whole
    range, and its store returns for every index of the range exactly the entries `es` whose chain is the
    leader's expected sum, the delivered report carries no error — in particular no ErrChecksumMismatch — and
    its read sum equals the expected sum. -/
theorem no_false_alarm (n : Node) (r : Report) (es : List Log) (hopen : n.store.closed = false)
    (hfresh : r.err = .none)
    (hw : r.written = 0 ∨ r.written = r.expected) (hfirst : n.store.firstIndex ≤ r.start)
    (hread : readRange n r.start (r.stop - r.start) = some es) (hexp : r.expected = chain 0 es) :
    (n.verify r).2.err = .none ∧ (n.verify r).2.read = r.expected :=
  verify_clean n r es hopen hfresh hw hfirst hread hexp

/-- **range mismatch is not corruption**: a node that lacks the beginning of the range reports
    ErrRangeMismatch -/
theorem range_mismatch_not_corruption (n : Node) (r : Report) (hopen : n.store.closed = false)
    (hw : r.written = 0 ∨ r.written = r.expected) (hfirst : n.store.firstIndex > r.start) :
    (n.verify r).2.err = .rangeMismatch :=
  verify_range_mismatch n r hopen hw hfirst

-- non-vacuity: a concrete follower history reaches a state with a live running sum
example : ∃ ops : List NodeOp, (({ resetOnDelete := true } : Node).run ops).sumStartIdx ≠ 0 :=
  ⟨[.store [{ index := 5, term := 1, typ := 0, data := [1], ext := [], time := some WTime.zero }]], by decide⟩

end RaftWal.C16
