/-
  C16 — Verifier raises no false alarms.   Property theorems only.
-/
import RaftWal.Proofs.VerifierDecide
import RaftWal.Proofs.VerifierReach
import RaftWal.Proofs.VerifierCluster
import RaftWal.Generated.Verifier
namespace RaftWal.C16
open RaftWal RaftWal.Verifier

/-- T1: the current source resets the running checksum in `LogStore.DeleteRange` (the model's `resetOnDelete`) -/
theorem delete_resets_sum : Generated.verifierDeleteResets = true := by decide

/-- the code publishes the running sum (and hands reports over) only after the store underneath accepted the batch — the
    order of `Node.storeLogs`, whose error branch returns the node unchanged (`C18.failed_store_changes_nothing`) -/
theorem sum_published_after_store : Generated.verifierPublishesAfterStore = true := by decide

/-- **batch independence**: the running sum over a sequence of entries does not depend on how the entries
    were split into StoreLogs batches -/
theorem batch_independent (s : UInt64) (a b : List Log) : chain s (a ++ b) = chain (chain s a) b :=
  chain_append s a b

/-- **running_sum_invariant**: on every node, after *any* sequence of middleware operations (appends in any
    batching, with or without checkpoints, leader or follower; head or tail truncations; report deliveries;
    middleware restarts), whenever a running sum exists it is exactly the FNV chain over the entries the node's
    store holds from the sum's start index to the end of its log; with no start index the sum is 0. -/
theorem running_sum_invariant (ops : List NodeOp) :
    let n := ({ resetOnDelete := Generated.verifierDeleteResets } : Node).run ops
    SumInv n ∧ StoreWF n := by
  have h := reach_run ops { resetOnDelete := true } reach_init
  have e : ({ resetOnDelete := Generated.verifierDeleteResets } : Node) = { resetOnDelete := true } := by
    rw [delete_resets_sum]
  simp only [e]
  exact ⟨h.sum, h.wf⟩

/-- every report the middleware hands to the verifier starts without an error and without a read sum -/
theorem fresh_report (l l' : Log) (cs cs' : UInt64) (st st' : Nat) (r : Report)
    (h : updateVerifyState l cs st = some (l', cs', st', some r)) : r.err = .none ∧ r.read = 0 :=
  uvs_report_err l l' cs cs' st st' r h

/-- the written sum a follower's report carries is either absent (0) or the node's running checksum, and it is
    present only when the node's sum started exactly where the leader's did -/
theorem written_sum_is_running_sum (l l' : Log) (cs cs' : UInt64) (st st' : Nat) (r : Report)
    (h : updateVerifyState l cs st = some (l', cs', st', some r)) (hf : l.ext.length ≠ 0) :
    r.written = 0 ∨ (r.written = cs ∧ r.start = (if st = 0 then l.index else st)) := by
  unfold updateVerifyState at h
  split at h
  · cases h
  · cases h
  · simp only [] at h
    split at h
    · rename_i h0; exact absurd h0 hf
    · split at h
      · cases h
      · rename_i cpStart cpSum _
        simp only [Option.some.injEq, Prod.mk.injEq] at h
        obtain ⟨_, _, _, hr⟩ := h
        subst hr
        simp only
        by_cases hc : cpStart ≠ (if st = 0 then l.index else st)
        · left; simp [hc]
        · right
          have hc' : cpStart = (if st = 0 then l.index else st) := by simpa using hc
          exact ⟨by simp [hc'], hc'⟩

/-- **no false alarm**: when the node wrote what the leader summed (or carries no written sum), holds the whole
    range, and its store returns for every index of the range exactly the entries `es` whose chain is the
    leader's expected sum, the delivered report carries no error — in particular no ErrChecksumMismatch — and
    its read sum equals the expected sum. -/
theorem no_false_alarm (n : Node) (r : Report) (es : List Log) (hopen : n.store.closed = false)
    (hfresh : r.err = .none)
    (hw : r.written = 0 ∨ r.written = r.expected) (hfirst : n.store.firstIndex ≤ r.start)
    (hread : readRange n r.start (r.stop - r.start) = some es) (hexp : r.expected = chain 0 es) :
    (n.verify r).2.err = .none ∧ (n.verify r).2.read = r.expected :=
  verify_clean n r es hopen hfresh hw hfirst hread hexp

/-- **range mismatch is not corruption**: a node that lacks the beginning of the range reports
    ErrRangeMismatch -/
theorem range_mismatch_not_corruption (n : Node) (r : Report) (hopen : n.store.closed = false)
    (hw : r.written = 0 ∨ r.written = r.expected) (hfirst : n.store.firstIndex > r.start) :
    (n.verify r).2.err = .rangeMismatch :=
  verify_range_mismatch n r hopen hw hfirst

/-! ## two nodes, any histories: the per-node invariant and the verdict theorem composed -/

/-- what a leader reached by ANY history writes into a new checkpoint: the range start is where its running sum starts
    and the expected sum is the FNV chain over the entries it holds from there -/
theorem leader_checkpoint_is_chain (opsL : List NodeOp) (cp cp' : Log) (cs : UInt64) (st : Nat) (rL : Report)
    (hext : cp.ext = [])
    (h : updateVerifyState cp (node0.run opsL).checksum (node0.run opsL).sumStartIdx = some (cp', cs, st, some rL)) :
    let L := node0.run opsL
    rL.stop = cp.index ∧
    rL.start = (if L.sumStartIdx = 0 then cp.index else L.sumStartIdx) ∧
    rL.expected = chain 0 (if L.sumStartIdx = 0 then [] else storeFrom L L.sumStartIdx) ∧
    cp'.ext = encodeMeta rL.start rL.expected ∧ cp'.index = cp.index :=
  leader_stamp opsL cp cp' cs st rL hext h

/-- **no false alarm, leader and follower reached by arbitrary histories** (any batching, any truncations, restarts and
    report deliveries before the checkpoint — leadership changes are such histories): if the follower wrote, from the
    range start on, what the leader's sum covers, and reads the range back unchanged, its report carries no error and its
    read sum is the leader's -/
theorem cluster_no_false_alarm (opsL opsF : List NodeOp) (cp cp' l2 : Log) (csL csF : UInt64) (stL stF : Nat)
    (rL r : Report) (Fv : Node)
    (hext : cp.ext = []) (hidx : cp.index < 2 ^ 64)
    (hstart : (node0.run opsL).sumStartIdx < 2 ^ 64)
    (hL : updateVerifyState cp (node0.run opsL).checksum (node0.run opsL).sumStartIdx = some (cp', csL, stL, some rL))
    (hF : updateVerifyState cp' (node0.run opsF).checksum (node0.run opsF).sumStartIdx = some (l2, csF, stF, some r))
    (hw : (if (node0.run opsF).sumStartIdx = 0 then cp.index else (node0.run opsF).sumStartIdx) = rL.start →
          (if (node0.run opsF).sumStartIdx = 0 then [] else storeFrom (node0.run opsF) (node0.run opsF).sumStartIdx) =
          (if (node0.run opsL).sumStartIdx = 0 then [] else storeFrom (node0.run opsL) (node0.run opsL).sumStartIdx))
    (hopen : Fv.store.closed = false) (hfirst : Fv.store.firstIndex ≤ r.start)
    (hread : readRange Fv r.start (r.stop - r.start) =
          some (if (node0.run opsL).sumStartIdx = 0 then [] else storeFrom (node0.run opsL) (node0.run opsL).sumStartIdx)) :
    r.start = rL.start ∧ r.stop = rL.stop ∧ r.expected = rL.expected ∧
    (Fv.verify r).2.err = .none ∧ (Fv.verify r).2.read = rL.expected :=
  Verifier.cluster_no_false_alarm opsL opsF cp cp' l2 csL csF stL stF rL r Fv hext hidx hstart hL hF hw hopen hfirst hread

/-- … and a node that lacks the beginning of that range reports ErrRangeMismatch, never corruption -/
theorem cluster_range_mismatch (opsL opsF : List NodeOp) (cp cp' l2 : Log) (csL csF : UInt64) (stL stF : Nat)
    (rL r : Report) (Fv : Node)
    (hext : cp.ext = []) (hidx : cp.index < 2 ^ 64) (hstart : (node0.run opsL).sumStartIdx < 2 ^ 64)
    (hL : updateVerifyState cp (node0.run opsL).checksum (node0.run opsL).sumStartIdx = some (cp', csL, stL, some rL))
    (hF : updateVerifyState cp' (node0.run opsF).checksum (node0.run opsF).sumStartIdx = some (l2, csF, stF, some r))
    (hw : (if (node0.run opsF).sumStartIdx = 0 then cp.index else (node0.run opsF).sumStartIdx) = rL.start →
          (if (node0.run opsF).sumStartIdx = 0 then [] else storeFrom (node0.run opsF) (node0.run opsF).sumStartIdx) =
          (if (node0.run opsL).sumStartIdx = 0 then [] else storeFrom (node0.run opsL) (node0.run opsL).sumStartIdx))
    (hopen : Fv.store.closed = false) (hfirst : Fv.store.firstIndex > r.start) :
    (Fv.verify r).2.err = .rangeMismatch :=
  Verifier.cluster_range_mismatch opsL opsF cp cp' l2 csL csF stL stF rL r Fv hext hidx hstart hL hF hw hopen hfirst

/-- the hypotheses are met: a leader storing two entries in one batch and a follower storing them in two -/
theorem cluster_nonvacuous : ∃ (opsL opsF : List NodeOp) (cp cp' l2 : Log) (csL csF : UInt64) (stL stF : Nat) (rL r : Report),
    cp.ext = [] ∧
    updateVerifyState cp (node0.run opsL).checksum (node0.run opsL).sumStartIdx = some (cp', csL, stL, some rL) ∧
    updateVerifyState cp' (node0.run opsF).checksum (node0.run opsF).sumStartIdx = some (l2, csF, stF, some r) ∧
    r.written = r.expected ∧ r.written ≠ 0 :=
  Verifier.cluster_nonvacuous

-- non-vacuity: a concrete follower history reaches a state with a live running sum
example : ∃ ops : List NodeOp, (({ resetOnDelete := true } : Node).run ops).sumStartIdx ≠ 0 :=
  ⟨[.store [{ index := 5, term := 1, typ := 0, data := [1], ext := [], time := some WTime.zero }]], by decide⟩

/-! ### the conditions the clean-history argument hinges on, translated from the source on every run into Lean functions
    (Generated/VerifierDecide.lean) and proved to be the model's, for all arguments -/

/-- a truncation restarts the running sum exactly when it reaches into the summed range -/
theorem delete_reset_condition_from_source (n : Verifier.Node) (mx : Nat) :
    (n.sumStartIdx ≠ 0 ∧ mx ≥ n.sumStartIdx) ↔ Generated.verifierDeleteResetsSum n.sumStartIdx mx = true :=
  Verifier.delete_resets_eq_source n mx

/-- a node that no longer holds the start of the range answers ErrRangeMismatch, not corruption -/
theorem range_mismatch_condition_from_source (n : Verifier.Node) (r : Verifier.Report) :
    (n.store.firstIndex > r.start) ↔ Generated.verifyRangeMismatch n.store.firstIndex r.start = true :=
  Verifier.range_mismatch_eq_source n r

/-- a follower whose running sum does not start where the leader's did makes no in-flight claim -/
theorem written_sum_void_condition_from_source (cpStart startIdx : Nat) :
    (cpStart ≠ startIdx) ↔ Generated.followerSumNotComparable cpStart startIdx = true :=
  Verifier.written_void_eq_source cpStart startIdx

end RaftWal.C16
