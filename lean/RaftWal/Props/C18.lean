/-
  C18 — Verifier is transparent and never blocks appends.
-/
import RaftWal.Proofs.VerifierDecide
import RaftWal.Proofs.VerifierReach
import RaftWal.Generated.Verifier
namespace RaftWal.C18
open RaftWal RaftWal.Verifier

/-- **transparency of StoreLogs**: the underlying store receives the same entries, field for field, except that a
    leader's checkpoint (empty Extensions) gains the 24-byte verification metadata -/
theorem middleware_transparent (n : Node) (logs : List Log) :
    let (_, passed, _) := n.storeLogs logs
    passed.length ≤ logs.length ∧
    ∀ k (h1 : k < passed.length) (h2 : k < logs.length),
      let a := passed[k]'h1
      let b := logs[k]'h2
      a.index = b.index ∧ a.term = b.term ∧ a.typ = b.typ ∧ a.data = b.data ∧ a.time = b.time ∧
      (a.ext = b.ext ∨ (isCheckpoint b = .yes ∧ b.ext = [] ∧ a.ext.length = 24)) :=
  storeLogs_transparent n logs

/-- a checkpoint whose Extensions hold foreign data (not the verifier's metadata) is refused -/
theorem foreign_extensions_refused (l : Log) (cs : UInt64) (st : Nat)
    (hcp : isCheckpoint l = .yes) (hne : l.ext.length ≠ 0) (hbad : decodeMeta l.ext = none) :
    updateVerifyState l cs st = none := by
  simp [updateVerifyState, hcp, hne, hbad]

/-- reads are literal delegation to the underlying store (when the store is not made to lie) -/
theorem getLog_delegates (n : Node) (i : Nat) (h : n.atRest = []) : n.getLog i = n.store.get i := by
  unfold Node.getLog
  cases n.store.get i <;> simp [h]

/-- **StoreLogs never blocks**: handing a report to the verifier is total and immediate in every channel state —
    it is taken, queued in the single slot, or dropped and counted; there is no waiting state -/
theorem trigger_total (n : Node) (r : Report) :
    (n.busy = none → (n.trigger r).busy.isSome) ∧
    (n.busy.isSome → n.queued = none → (n.trigger r).queued = some r ∧ (n.trigger r).dropped = n.dropped) ∧
    (n.busy.isSome → n.queued.isSome → (n.trigger r).dropped = n.dropped + 1 ∧ (n.trigger r).queued = n.queued) := by
  refine ⟨?_, ?_, ?_⟩
  · intro h; simp only [Node.trigger, h]; exact (take_frame n r).2.2.2.2.1
  · intro h1 h2
    cases hb : n.busy with
    | none => simp [hb] at h1
    | some b => simp [Node.trigger, hb, h2]
  · intro h1 h2
    cases hb : n.busy with
    | none => simp [hb] at h1
    | some b =>
      cases hq : n.queued with
      | none => simp [hq] at h2
      | some q => simp [Node.trigger, hb, hq]

/-- **report_or_drop_once**: in every reachable state of a node (any interleaving of appends with checkpoints,
    truncations and report deliveries that take arbitrarily long) checkpoints written = reports delivered +
    drops counted + at most one queued + at most one being delivered -/
theorem report_or_drop_once (ops : List NodeOp) :
    let n := ({ resetOnDelete := true } : Node).run ops
    n.cpWritten = n.verified + n.dropped + outstanding n ∧ outstanding n ≤ 2 := by
  have h := (reach_run ops { resetOnDelete := true } reach_init).acct
  refine ⟨h.1, ?_⟩
  unfold outstanding; split <;> split <;> omega

/-- at quiescence (the verifier idle) every checkpoint is exactly one delivered report or one counted drop -/
theorem quiescent_exactly_once (ops : List NodeOp)
    (hq : (({ resetOnDelete := true } : Node).run ops).busy = none) :
    let n := ({ resetOnDelete := true } : Node).run ops
    n.cpWritten = n.verified + n.dropped :=
  quiescent_accounting _ (reach_run ops { resetOnDelete := true } reach_init).acct hq

/-- **skipped range named**: when the verifier takes a report whose range does not start where the last taken
    one ended, the report names the gap `[end of the last taken, start of this)` -/
theorem skipped_range_named (n : Node) (r : Report) (h1 : n.lastCP > 0) (h2 : n.lastCP ≠ r.start) :
    ∃ r', (n.take r).busy = some r' ∧ r'.skipped = some (n.lastCP, r.start) := by
  unfold Node.take
  simp only [h1, h2, ne_eq, not_false_eq_true, and_self, if_true]
  generalize hv : Node.verify _ _ = v
  refine ⟨v.2, rfl, ?_⟩
  have : v.2.skipped = some (n.lastCP, r.start) := by
    rw [← hv]; unfold Node.verify
    split
    · rfl
    · split
      · rfl
      · split
        · rfl
        · split
          · rfl
          · split <;> rfl
  exact this

/-! ## the store underneath refuses a call -/

/-- **a failed StoreLogs changes nothing**: when the call returns an error (the store underneath refused the batch, or
    the verifier itself refused it) the node is exactly as before — running sum, its start, counters, the hand-off
    channel.  (C16/C17: no phantom entries in the sum; C18: no report, no count for a batch that was not stored.) -/
theorem failed_store_changes_nothing (n : Node) (logs : List Log) (h : (n.storeLogs logs).2.2 = true) :
    (n.storeLogs logs).1 = n := by
  by_cases he : logs.isEmpty
  · simp [Node.storeLogs, he]
  · cases hu : Node.storeLogs.upd logs n.checksum n.sumStartIdx [] [] with
    | none => simp [Node.storeLogs, he, hu]
    | some r =>
      obtain ⟨logs', cs, st, reports⟩ := r
      cases hs : n.store.store logs' with
      | mk store' e =>
        cases e with
        | some _ => simp [Node.storeLogs, he, hu, hs]
        | none => simp [Node.storeLogs, he, hu, hs] at h

/-- whatever the reason, an error of the store underneath is the error of the call (and conversely, apart from the
    verifier's own refusals — a failing checkpoint predicate or foreign Extensions — which happen before the store is
    asked) -/
theorem store_error_is_returned (n : Node) (logs logs' : List Log) (cs : UInt64) (st : Nat) (rs : List Report)
    (hne : logs.isEmpty = false)
    (hu : Node.storeLogs.upd logs n.checksum n.sumStartIdx [] [] = some (logs', cs, st, rs)) :
    (n.storeLogs logs).2.2 = (n.store.store logs').2.isSome := by
  cases hs : n.store.store logs' with
  | mk store' e => cases e <;> simp [Node.storeLogs, hne, hu, hs]

theorem delete_error_iff (n : Node) (mn mx : Nat) :
    (n.deleteRange mn mx).2 = true ↔ (n.store.delete mn mx).2.isSome = true := by
  unfold Node.deleteRange
  cases hs : n.store.delete mn mx with
  | mk s' e => cases e <;> simp

theorem failed_delete_changes_nothing (n : Node) (mn mx : Nat) (h : (n.deleteRange mn mx).2 = true) :
    (n.deleteRange mn mx).1 = n := by
  unfold Node.deleteRange at h ⊢
  cases hs : n.store.delete mn mx with
  | mk s' e => cases e <;> simp [hs] at h ⊢


/-- the code asks the store underneath first and returns its error before anything else (`Node.deleteRange`'s order) -/
theorem delete_returns_underlying_error : Generated.verifierDeleteReturnsUnderlyingError = true := by decide

/-- and StoreLogs returns the store's error before publishing anything -/
theorem store_returns_underlying_error : Generated.verifierPublishesAfterStore = true := by decide

/-- a report names a skipped range exactly when it does not start where the previous one ended — the condition translated
    from `runVerifier` on every run is the model's -/
theorem skipped_range_condition_from_source (n : Verifier.Node) (r : Verifier.Report) :
    (n.lastCP > 0 ∧ n.lastCP ≠ r.start) ↔ Generated.verifierNamesSkippedRange n.lastCP r.start = true :=
  Verifier.skipped_range_eq_source n r

end RaftWal.C18
