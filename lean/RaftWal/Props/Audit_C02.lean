import RaftWal.Props.C02
#print axioms RaftWal.C02.recover_untorn
#print axioms RaftWal.C02.batch_atomic_any_tear
#print axioms RaftWal.C02.clearStale_clean
#print axioms RaftWal.C02.recovery_leaves_clean_region
#print axioms RaftWal.C02.append_all_or_nothing_any_crash
#print axioms RaftWal.C02.recovered_log_before_or_after
