import RaftWal.Props.C02
#print axioms RaftWal.C02.recover_untorn
#print axioms RaftWal.C02.batch_atomic_any_tear
#print axioms RaftWal.C02.clearStale_clean
#print axioms RaftWal.C02.recovery_leaves_clean_region
#print axioms RaftWal.C02.append_all_or_nothing_any_crash
#print axioms RaftWal.C02.recovered_log_before_or_after
#print axioms RaftWal.C02.chain_atomic
#print axioms RaftWal.C02.chain_atomic_any_size
#print axioms RaftWal.C02.torn_step_any_state
#print axioms RaftWal.C02.chain_atomic_rec
#print axioms RaftWal.C02.chain_atomic_rec_any_size
#print axioms RaftWal.C02.byte_level_refines_protocol_file
#print axioms RaftWal.C02.protocol_outcomes_realised_at_byte_level
#print axioms RaftWal.C02.failed_append_stale_bytes_fabricate_an_entry
#print axioms RaftWal.C02.chain_atomic_with_faults_refuted
#print axioms RaftWal.C02.chain_atomic_faults_partial
