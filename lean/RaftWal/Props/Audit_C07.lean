import RaftWal.Props.C07
#print axioms RaftWal.C07.create_excl_zero
#print axioms RaftWal.C07.first_sync_makes_durable
#print axioms RaftWal.C07.later_sync_makes_data_durable
#print axioms RaftWal.C07.delete_durable
#print axioms RaftWal.C07.metadb_init_atomic
