import RaftWal.Props.C07
#print axioms RaftWal.C07.create_excl_zero
#print axioms RaftWal.C07.first_sync_makes_durable
#print axioms RaftWal.C07.later_sync_makes_data_durable
#print axioms RaftWal.C07.delete_durable
#print axioms RaftWal.C07.metadb_init_atomic
#print axioms RaftWal.C07.hstep_post
#print axioms RaftWal.C07.acknowledged_sync_is_durable
#print axioms RaftWal.C07.flag_after_file_sync_refuted
#print axioms RaftWal.C07.flag_before_file_sync_refuted
#print axioms RaftWal.C07.flag_policy_from_source
#print axioms RaftWal.C07.dstep_ack
#print axioms RaftWal.C07.acknowledged_delete_is_durable
#print axioms RaftWal.C07.delete_idempotent_refuted
