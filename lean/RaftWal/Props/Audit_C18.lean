import RaftWal.Props.C18
#print axioms RaftWal.C18.middleware_transparent
#print axioms RaftWal.C18.foreign_extensions_refused
#print axioms RaftWal.C18.getLog_delegates
#print axioms RaftWal.C18.trigger_total
#print axioms RaftWal.C18.report_or_drop_once
#print axioms RaftWal.C18.quiescent_exactly_once
#print axioms RaftWal.C18.skipped_range_named
