import RaftWal.Props.C18
#print axioms RaftWal.C18.middleware_transparent
#print axioms RaftWal.C18.foreign_extensions_refused
#print axioms RaftWal.C18.getLog_delegates
#print axioms RaftWal.C18.trigger_total
#print axioms RaftWal.C18.report_or_drop_once
#print axioms RaftWal.C18.quiescent_exactly_once
#print axioms RaftWal.C18.skipped_range_named
#print axioms RaftWal.C18.failed_store_changes_nothing
#print axioms RaftWal.C18.store_error_is_returned
#print axioms RaftWal.C18.delete_error_iff
#print axioms RaftWal.C18.failed_delete_changes_nothing
#print axioms RaftWal.C18.delete_returns_underlying_error
#print axioms RaftWal.C18.store_returns_underlying_error
#print axioms RaftWal.C18.skipped_range_condition_from_source
