/-
  C07 — Real filesystem layer honours the durability contract the WAL assumes.
  Theorems about the OS-level model of fs/ and metadb's init; the tie to the real layer is the `fsdur` suite, which
  runs the production packages under strace and compares the canonical system-call sequence of every VFS call with
  `Model.OsFs`, and evaluates the durability-contract monitor on whole WAL workloads.
-/
import RaftWal.Model.OsFs
import RaftWal.Generated.Fs
namespace RaftWal.C07
open RaftWal.OsFs

/-- **create_excl_zero**: `Create` is exclusive — it fails when the name exists — and otherwise yields a file that
    reads as `size` zero bytes, whose directory entry is not yet durable -/
theorem create_excl_zero (s : OState) (n : String) (size : Nat) (hpos : size > 0) :
    ((s.get n).exist = true → run s (fsCreate n size) = none) ∧
    ((s.get n).exist = false → (run s (fsCreate n size)).isSome = true ∧
      ∀ s', run s (fsCreate n size) = some s' → (s'.get n).exist = true ∧ (s'.get n).size = size ∧
        (s'.get n).entryDurable = false) := by
  constructor
  · intro h
    have h' : (s.files n).exist = true := h
    simp [fsCreate, hpos, run, exec, OState.get, h']
  · intro h
    have h' : (s.files n).exist = false := h
    constructor
    · simp [fsCreate, hpos, run, exec, h', OState.get, OState.set]
    · intro s' hs
      simp [fsCreate, hpos, run, exec, h', OState.get, OState.set] at hs
      subst hs
      simp [OState.get]

/-- **fs_sync_refines_vfs_sync**: the first `Sync` on a handle from `Create` (or `OpenWriter`) makes both the
    file's data and its directory entry durable — exactly the post-condition the simulated VFS gives to `sync` -/
theorem first_sync_makes_durable (s : OState) (n : String) (h : (s.get n).exist = true) :
    (run s (fsFileSync n true)).isSome = true ∧
    ∀ s', run s (fsFileSync n true) = some s' → (s'.get n).dirty = false ∧ (s'.get n).entryDurable = true ∧
      (s'.get n).exist = true := by
  have h' : (s.files n).exist = true := h
  constructor
  · simp [fsFileSync, run, exec, h', OState.get, OState.set]
  · intro s' hs
    simp [fsFileSync, run, exec, h', OState.get, OState.set] at hs
    subst hs
    simp [OState.get, h']

/-- a later `Sync` makes the data durable (the entry already is) -/
theorem later_sync_makes_data_durable (s : OState) (n : String) (h : (s.get n).exist = true) :
    (run s (fsFileSync n false)).isSome = true ∧
    ∀ s', run s (fsFileSync n false) = some s' → (s'.get n).dirty = false := by
  have h' : (s.files n).exist = true := h
  constructor
  · simp [fsFileSync, run, exec, h', OState.get, OState.set]
  · intro s' hs
    simp [fsFileSync, run, exec, h', OState.get, OState.set] at hs
    subst hs
    simp [OState.get]

/-- **fs_delete_durable**: after `Delete` the file is gone and no removal is left pending -/
theorem delete_durable (s : OState) (n : String) (h : (s.get n).exist = true) :
    (run s (fsDelete n)).isSome = true ∧
    ∀ s', run s (fsDelete n) = some s' → (s'.get n).exist = false ∧ s'.pendingUnlinks = [] := by
  have h' : (s.files n).exist = true := h
  constructor
  · simp [fsDelete, run, exec, h', OState.get, OState.set]
  · intro s' hs
    simp [fsDelete, run, exec, h', OState.get, OState.set] at hs
    subst hs
    simp [OState.get]

/-- every prefix of a call sequence (every crash point) -/
def prefixes {α} : List α → List (List α)
  | [] => [[]]
  | x :: xs => [] :: (prefixes xs).map (x :: ·)

/-- **metadb_init_atomic**: at every crash point of the init sequence (every prefix of its system calls) the final
    name is either absent, or present with its content already fsynced (not dirty) — never a half-written database
    under the final name; and after the whole sequence the final name is durable -/
theorem metadb_init_atomic (tmp final : String) (hne : tmp ≠ final) :
    (∀ p ∈ prefixes (metaInit tmp final), ∀ s', run {} p = some s' →
        (s'.get final).exist = false ∨ (s'.get final).dirty = false) ∧
    ((run {} (metaInit tmp final)).isSome = true ∧
      ∀ s', run {} (metaInit tmp final) = some s' → (s'.get final).exist = true ∧ (s'.get final).entryDurable = true ∧
        (s'.get final).dirty = false) := by
  have hne' : final ≠ tmp := fun h => hne h.symm
  refine ⟨?_, ?_, ?_⟩
  · intro p hp s' hs
    simp only [metaInit, prefixes, List.map_cons, List.map_nil, List.mem_cons, List.mem_nil_iff, or_false] at hp
    rcases hp with h | h | h | h | h | h <;> subst h <;>
      simp [run, exec, OState.get, OState.set, hne, hne'] at hs <;> subst hs <;>
      simp [OState.get, OState.set, hne, hne']
  · simp [metaInit, run, exec, OState.get, OState.set, hne, hne']
  · intro s' hs
    simp [metaInit, run, exec, OState.get, OState.set, hne, hne'] at hs
    subst hs
    simp [OState.get, hne, hne']

/-! ## fsync failures: an acknowledged Sync means the directory entry is durable, whatever failed before -/

/-- invariant of a handle on an existing file: once the `new` flag is cleared, the directory entry is durable -/
def HInv (s : OState) (h : Handle) : Prop :=
  (s.get h.name).exist = true ∧ (h.isNew = false → (s.get h.name).entryDurable = true)

def StepPost (h : Handle) : Option (OState × Handle × Option Bool) → Prop
  | none => False
  | some (s', h', a) => HInv s' h' ∧ h'.name = h.name ∧
      (a = some true → (s'.get h.name).entryDurable = true ∧ (s'.get h.name).dirty = false)

theorem hstep_post (s : OState) (h : Handle) (op : HOp) (hi : HInv s h) :
    StepPost h (hstep .afterDirSync s h op) := by
  obtain ⟨he, hd⟩ := hi
  have he' : (s.files h.name).exist = true := he
  cases op with
  | write =>
    simp only [hstep, exec, OState.get, he', if_true, Option.map_some, StepPost, HInv]
    refine ⟨⟨by simp [OState.set], ?_⟩, trivial, by simp⟩
    intro hn
    have := hd hn
    simp [OState.get, OState.set] at this ⊢
    exact this
  | sync o =>
    rcases o with ⟨fo, dok⟩
    cases hn : h.isNew
    · have hdur : (s.files h.name).entryDurable = true := hd hn
      cases fo <;> cases dok <;>
        simp [hstep, fileSync, hn, run, exec, OState.get, OState.set, HInv, StepPost, he', hdur]
    · cases fo <;> cases dok <;>
        simp [hstep, fileSync, hn, run, exec, OState.get, OState.set, HInv, StepPost, he']

theorem hstep_inv (s : OState) (h : Handle) (op : HOp) (hi : HInv s h) :
    ∃ s' h' a, hstep .afterDirSync s h op = some (s', h', a) ∧ HInv s' h' ∧ h'.name = h.name ∧
      (a = some true → (s'.get h.name).entryDurable = true ∧ (s'.get h.name).dirty = false) := by
  have hp := hstep_post s h op hi
  cases hr : hstep .afterDirSync s h op with
  | none => rw [hr] at hp; exact hp.elim
  | some r =>
    obtain ⟨s', h', a⟩ := r
    rw [hr] at hp
    exact ⟨s', h', a, rfl, hp⟩

/-- **acknowledged_sync_is_durable**: on a handle for an existing file, after ANY history of writes and Syncs in
    which either fsync may fail any number of times, a Sync that returns nil leaves the file's bytes fsynced and
    its directory entry durable.  (With the code's policy: the `new` flag is cleared only after the directory fsync
    succeeded.) -/
theorem acknowledged_sync_is_durable (ops : List HOp) (s : OState) (h : Handle) (hi : HInv s h) :
    ∃ s' h' a, hrun .afterDirSync s h ops = some (s', h', a) ∧ HInv s' h' ∧ h'.name = h.name ∧
      (a = some true → (s'.get h.name).entryDurable = true ∧ (s'.get h.name).dirty = false) := by
  induction ops generalizing s h with
  | nil => exact ⟨s, h, none, rfl, hi, rfl, by simp⟩
  | cons op ops ih =>
    obtain ⟨s1, h1, a1, e1, i1, n1, p1⟩ := hstep_inv s h op hi
    cases ops with
    | nil => exact ⟨s1, h1, a1, by simp [hrun, e1], i1, n1, p1⟩
    | cons op2 rest =>
      obtain ⟨s2, h2, a2, e2, i2, n2, p2⟩ := ih s1 h1 i1
      refine ⟨s2, h2, a2, ?_, i2, n2.trans n1, ?_⟩
      · simp only [hrun, e1]; exact e2
      · intro ha; rw [← n1]; exact p2 ha

/-- a freshly created file meets the invariant (non-vacuity) -/
example : HInv ((({} : OState).set "a.wal" { exist := true })) { name := "a.wal" } := by
  simp [HInv, OState.get, OState.set]

/-- clearing the flag before the directory fsync is known to have succeeded is NOT enough: the directory fsync fails
    once, the retried Sync returns nil, and the entry is still not durable -/
theorem flag_after_file_sync_refuted :
    ∃ s' h', hrun .afterFileSync (({} : OState).set "a.wal" { exist := true }) { name := "a.wal" }
        [.write, .sync ⟨true, false⟩, .sync ⟨true, true⟩] = some (s', h', some true) ∧
      (s'.get "a.wal").entryDurable = false := by
  refine ⟨_, _, rfl, ?_⟩
  simp [OState.get, OState.set]

/-- nor is clearing it before the file's fsync: the file fsync fails once, the retry is acknowledged -/
theorem flag_before_file_sync_refuted :
    ∃ s' h', hrun .beforeFileSync (({} : OState).set "a.wal" { exist := true }) { name := "a.wal" }
        [.write, .sync ⟨false, true⟩, .sync ⟨true, true⟩] = some (s', h', some true) ∧
      (s'.get "a.wal").entryDurable = false := by
  refine ⟨_, _, rfl, ?_⟩
  simp [OState.get, OState.set]

/-- the policy read from fs/file.go is the one the theorem is about -/
theorem flag_policy_from_source : FlagPolicy.ofCode Generated.fileSyncFlagPolicy = .afterDirSync := by decide

/-! ## a deletion reported done is durable, also when an earlier attempt failed half-way -/

theorem dstep_ack (s : OState) (n : String) (o : Bool) (s' : OState) (h : dstep s n o = some (s', true)) :
    s'.pendingUnlinks = [] ∧ (s'.get n).exist = false := by
  unfold dstep fsDeleteF at h
  cases he : (s.files n).exist <;> cases o <;> simp [OState.get, he, run, exec, OState.set] at h
  subst h
  simp [OState.get]

/-- **acknowledged_delete_is_durable**: after ANY sequence of Delete calls for a name in which the directory fsync may
    fail any number of times, a call that returns nil leaves no removal pending (the unlink is followed by a successful
    fsync of the directory) and the name gone.  In particular a retry after "unlink done, directory fsync failed" does not
    report the deletion done: the name is gone and unlink's ENOENT is returned. -/
theorem acknowledged_delete_is_durable (os : List Bool) (s : OState) (n : String) (s' : OState)
    (h : drun s n os = some (s', some true)) : s'.pendingUnlinks = [] ∧ (s'.get n).exist = false := by
  induction os generalizing s with
  | nil => simp [drun] at h
  | cons o os ih =>
    cases os with
    | nil =>
      simp only [drun] at h
      cases hd : dstep s n o with
      | none => simp [hd] at h
      | some r =>
        obtain ⟨s1, a⟩ := r
        simp [hd] at h
        obtain ⟨h1, h2⟩ := h
        subst h1; subst h2
        exact dstep_ack s n o s1 hd
    | cons o2 rest =>
      simp only [drun] at h
      cases hd : dstep s n o with
      | none => simp [hd] at h
      | some r =>
        obtain ⟨s1, a⟩ := r
        simp only [hd] at h
        exact ih s1 h

/-- the retry after a failed directory fsync answers with an error (non-vacuity: the history is executable) -/
example : ∃ s', drun (({} : OState).set "a.wal" { exist := true }) "a.wal" [false, true, true] = some (s', some false) :=
  ⟨_, rfl⟩

/-- a Delete that treated "already gone" as done would acknowledge a removal that is still pending -/
theorem delete_idempotent_refuted :
    ∃ s', run (({} : OState).set "a.wal" { exist := true }) [.unlink "a.wal"] = some s' ∧ s'.pendingUnlinks ≠ [] := by
  refine ⟨_, rfl, ?_⟩
  simp

end RaftWal.C07
