/-
  C07 — Real filesystem layer honours the durability contract the WAL assumes.
  Theorems about the OS-level model of fs/ and metadb's init; the tie to the real layer is the `fsdur` suite, which
  runs the production packages under strace and compares the canonical system-call sequence of every VFS call with
  `Model.OsFs`, and evaluates the durability-contract monitor on whole WAL workloads.
-/
import RaftWal.Model.OsFs
namespace RaftWal.C07
open RaftWal.OsFs

/-- **create_excl_zero**: `Create` is exclusive — it fails when the name exists — and otherwise yields a file that
    reads as `size` zero bytes, whose directory entry is not yet durable -/
theorem create_excl_zero (s : OState) (n : String) (size : Nat) (hpos : size > 0) :
    ((s.get n).exist = true → run s (fsCreate n size) = none) ∧
    ((s.get n).exist = false → (run s (fsCreate n size)).isSome = true ∧
      ∀ s', run s (fsCreate n size) = some s' → (s'.get n).exist = true ∧ (s'.get n).size = size ∧
        (s'.get n).entryDurable = false) := by
  constructor
  · intro h
    have h' : (s.files n).exist = true := h
    simp [fsCreate, hpos, run, exec, OState.get, h']
  · intro h
    have h' : (s.files n).exist = false := h
    constructor
    · simp [fsCreate, hpos, run, exec, h', OState.get, OState.set]
    · intro s' hs
      simp [fsCreate, hpos, run, exec, h', OState.get, OState.set] at hs
      subst hs
      simp [OState.get]

/-- **fs_sync_refines_vfs_sync**: the first `Sync` on a handle from `Create` (or `OpenWriter`) makes both the
    file's data and its directory entry durable — exactly the post-condition the simulated VFS gives to `sync` -/
theorem first_sync_makes_durable (s : OState) (n : String) (h : (s.get n).exist = true) :
    (run s (fsFileSync n true)).isSome = true ∧
    ∀ s', run s (fsFileSync n true) = some s' → (s'.get n).dirty = false ∧ (s'.get n).entryDurable = true ∧
      (s'.get n).exist = true := by
  have h' : (s.files n).exist = true := h
  constructor
  · simp [fsFileSync, run, exec, h', OState.get, OState.set]
  · intro s' hs
    simp [fsFileSync, run, exec, h', OState.get, OState.set] at hs
    subst hs
    simp [OState.get, h']

/-- a later `Sync` makes the data durable (the entry already is) -/
theorem later_sync_makes_data_durable (s : OState) (n : String) (h : (s.get n).exist = true) :
    (run s (fsFileSync n false)).isSome = true ∧
    ∀ s', run s (fsFileSync n false) = some s' → (s'.get n).dirty = false := by
  have h' : (s.files n).exist = true := h
  constructor
  · simp [fsFileSync, run, exec, h', OState.get, OState.set]
  · intro s' hs
    simp [fsFileSync, run, exec, h', OState.get, OState.set] at hs
    subst hs
    simp [OState.get]

/-- **fs_delete_durable**: after `Delete` the file is gone and no removal is left pending -/
theorem delete_durable (s : OState) (n : String) (h : (s.get n).exist = true) :
    (run s (fsDelete n)).isSome = true ∧
    ∀ s', run s (fsDelete n) = some s' → (s'.get n).exist = false ∧ s'.pendingUnlinks = [] := by
  have h' : (s.files n).exist = true := h
  constructor
  · simp [fsDelete, run, exec, h', OState.get, OState.set]
  · intro s' hs
    simp [fsDelete, run, exec, h', OState.get, OState.set] at hs
    subst hs
    simp [OState.get]

/-- every prefix of a call sequence (every crash point) -/
def prefixes {α} : List α → List (List α)
  | [] => [[]]
  | x :: xs => [] :: (prefixes xs).map (x :: ·)

/-- **metadb_init_atomic**: at every crash point of the init sequence (every prefix of its system calls) the final
    name is either absent, or present with its content already fsynced (not dirty) — never a half-written database
    under the final name; and after the whole sequence the final name is durable -/
theorem metadb_init_atomic (tmp final : String) (hne : tmp ≠ final) :
    (∀ p ∈ prefixes (metaInit tmp final), ∀ s', run {} p = some s' →
        (s'.get final).exist = false ∨ (s'.get final).dirty = false) ∧
    ((run {} (metaInit tmp final)).isSome = true ∧
      ∀ s', run {} (metaInit tmp final) = some s' → (s'.get final).exist = true ∧ (s'.get final).entryDurable = true ∧
        (s'.get final).dirty = false) := by
  have hne' : final ≠ tmp := fun h => hne h.symm
  refine ⟨?_, ?_, ?_⟩
  · intro p hp s' hs
    simp only [metaInit, prefixes, List.map_cons, List.map_nil, List.mem_cons, List.mem_nil_iff, or_false] at hp
    rcases hp with h | h | h | h | h | h <;> subst h <;>
      simp [run, exec, OState.get, OState.set, hne, hne'] at hs <;> subst hs <;>
      simp [OState.get, OState.set, hne, hne']
  · simp [metaInit, run, exec, OState.get, OState.set, hne, hne']
  · intro s' hs
    simp [metaInit, run, exec, OState.get, OState.set, hne, hne'] at hs
    subst hs
    simp [OState.get, hne, hne']

end RaftWal.C07
