/-
  C02 — Recovery never fabricates, corrupts or half-applies log content.
  (byte level, L1; the WAL level is carried by the crash suite's ghost-state monitors, see DESIGN §6)
-/
import RaftWal.Proofs.SegmentTorn
import RaftWal.Proofs.CrashCorollaries
namespace RaftWal.C02
open RaftWal

/-- **recover_untorn**: after any run of completed appends, recovery reproduces exactly the writer's state — same
    entry offsets (hence the same entries, none added, none dropped), write offset, commit index and seal state —
    and leaves the file bytes unchanged -/
theorem recover_untorn (info : SegInfo) (bs : List (List Bytes)) (hwf : RunWF info bs)
    (w : Writer) (file : Bytes)
    (hrun : (freshSegment info).1.appendAll (freshSegment info).2 info.base bs = some (w, file)) :
    ((recoverTail info file).toOption.map (fun p => p.1.obs)) = some w.obs ∧
    ((recoverTail info file).toOption.map (·.2)) = some file :=
  RaftWal.recover_untorn info bs hwf w file hrun

/-- **batch atomicity under every torn write**: whichever subset of the 8-byte chunks of an in-flight batch
    reached the disk, recovery yields the segment without the batch (file restored to what it was) or with the
    whole batch (and then the image is complete, or a CRC-32C collision of it); for the very first batch of a
    segment a collision that also damages the header is refused as corrupt instead. Nothing else is possible:
    no partial batch, no entry that was not submitted. -/
theorem batch_atomic_any_tear (info : SegInfo) (bs : List (List Bytes)) (b : List Bytes)
    (hwf : RunWF info (bs ++ [b])) (w : Writer) (file : Bytes)
    (hrun : (freshSegment info).1.appendAll (freshSegment info).2 info.base bs = some (w, file))
    (w' : Writer) (file' : Bytes)
    (happ : w.append file (indexBatch (info.base + bs.flatten.length) b) .none = (none, w', file'))
    (mask : Nat → Bool) :
    let img := tearImage file file' w.writeOffset (w'.writeOffset - w.writeOffset) mask
    (∃ wr img', recoverTail info img = .ok (wr, img') ∧
      ((wr.obs = w.obs ∧ img' = file ++ zeros (file'.length - file.length)) ∨
       (wr.obs = w'.obs ∧ img' = img ∧
          (img = file' ∨
           (batchRegion img w.writeOffset w'.writeOffset ≠ batchRegion file' w.writeOffset w'.writeOffset ∧
            crc32c (batchRegion img w.writeOffset w'.writeOffset) =
              crc32c (batchRegion file' w.writeOffset w'.writeOffset))))))
    ∨ (bs = [] ∧ recoverTail info img = .error .corrupt
        ∧ batchRegion img w.writeOffset w'.writeOffset ≠ batchRegion file' w.writeOffset w'.writeOffset
        ∧ crc32c (batchRegion img w.writeOffset w'.writeOffset) =
              crc32c (batchRegion file' w.writeOffset w'.writeOffset)) :=
  recover_torn_atomic_corrected info bs b hwf w file hrun w' file' happ mask

theorem clearStale_clean (file : Bytes) (wo : Nat) : ∀ b ∈ (clearStale file wo).drop wo, b = 0 := by
  intro b hb
  unfold clearStale at hb
  rw [List.drop_append] at hb
  rcases List.mem_append.mp hb with h | h
  · have : (List.take wo file).drop wo = [] := by
      apply List.drop_eq_nil_of_le; simp [List.length_take]; omega
    rw [this] at h; simp at h
  · have := List.mem_of_mem_drop h
    exact List.eq_of_mem_replicate this

/-- after recovery the region behind the recovered tail is clean again (this is what makes crash chains — tear,
    recover, append over the same region, tear again — an induction rather than a new case) -/
theorem recovery_leaves_clean_region (info : SegInfo) (file : Bytes) (w : Writer) (file' : Bytes)
    (h : recoverTail info file = .ok (w, file')) : ∀ b ∈ file'.drop w.writeOffset, b = 0 := by
  unfold recoverTail at h
  simp only at h
  split at h
  · simp only [Except.ok.injEq, Prod.mk.injEq] at h
    obtain ⟨hw, hf⟩ := h
    subst hw hf
    exact clearStale_clean file 0
  · split at h
    · simp only [Except.ok.injEq, Prod.mk.injEq] at h
      obtain ⟨hw, hf⟩ := h
      subst hw hf
      exact clearStale_clean file _
    · simp at h

/-! ## WAL level: the durability protocol (Model/Crash.lean — meta commits, file creation, rotation, truncation, Open,
    tied to wal.go by the crash suite's action-by-action and image-by-image correspondence).  `Crash.QuiescentS` is
    the invariant of a live process between calls; it holds after Open on an empty directory, after every completed
    call and after every recovery (`Crash.init_quiescentS`, `Crash.call_refines_corrected`, `Crash.crash_safe_corrected`). -/

/-- **an append cut by a crash is recovered as absent or whole** — the log after recovery is the log before the call
    or that log followed by the whole batch; nothing else, whatever the crash point, crash kind and recovery history -/
theorem append_all_or_nothing_any_crash (d : Crash.Disk) (hq : Crash.QuiescentS d) (first : Nat) (es : List Crash.Entry)
    (s : Bool) (hok : (Crash.Op.store first es s).ok d) (k : Nat) (c : Crash.CrashKind) (d1 d' : Crash.Disk)
    (hr : Crash.ReachRec (Crash.crashAfter d (Crash.prog d (.store first es s)) k c) d1)
    (ho : Crash.openResult d1 = some d') :
    Crash.absLog d' = Crash.absLog d ∨ Crash.absLog d' = Crash.absLog d ++ Crash.appended first es :=
  Crash.append_all_or_nothing d hq first es s hok k c d1 d' hr ho

/-- for every call: the recovered log is the specification's log before or after the call (never fabricated, never
    half-applied) -/
theorem recovered_log_before_or_after (d : Crash.Disk) (hq : Crash.QuiescentS d) (op : Crash.Op) (hok : op.ok d) (k : Nat)
    (c : Crash.CrashKind) (d1 d' : Crash.Disk) (hr : Crash.ReachRec (Crash.crashAfter d (Crash.prog d op) k c) d1)
    (ho : Crash.openResult d1 = some d') :
    Crash.absLog d' = Crash.absLog d ∨ Crash.absLog d' = Crash.specApply (Crash.absLog d) op :=
  (Crash.crash_safe_corrected d hq op hok k c d1 d' hr ho).2.1

end RaftWal.C02
