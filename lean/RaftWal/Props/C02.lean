/-
  C02 — Recovery never fabricates, corrupts or half-applies log content.
  (byte level, L1; the WAL level is carried by the crash suite's ghost-state monitors, see DESIGN §6)
-/
import RaftWal.Proofs.SegmentChainFault
import RaftWal.Proofs.SegmentTorn
import RaftWal.Proofs.SegmentChain
import RaftWal.Proofs.SegmentChainRec
import RaftWal.Proofs.L1L2Link
import RaftWal.Proofs.CrashCorollaries
namespace RaftWal.C02
open RaftWal

/-- **recover_untorn**: after any run of completed appends, recovery reproduces exactly the writer's state — same
    entry offsets (hence the same entries, none added, none dropped), write offset, commit index and seal state —
    and leaves the file bytes unchanged -/
theorem recover_untorn (info : SegInfo) (bs : List (List Bytes)) (hwf : RunWF info bs)
    (w : Writer) (file : Bytes)
    (hrun : (freshSegment info).1.appendAll (freshSegment info).2 info.base bs = some (w, file)) :
    ((recoverTail info file).toOption.map (fun p => p.1.obs)) = some w.obs ∧
    ((recoverTail info file).toOption.map (·.2)) = some file :=
  RaftWal.recover_untorn info bs hwf w file hrun

/-- **batch atomicity under every torn write**: whichever subset of the 8-byte chunks of an in-flight batch
    reached the disk, recovery yields the segment without the batch (file restored to what it was) or with the
    whole batch (and then the image is complete, or a CRC-32C collision of it); for the very first batch of a
    segment a collision that also damages the header is refused as corrupt instead. Nothing else is possible:
    no partial batch, no entry that was not submitted. -/
theorem batch_atomic_any_tear (info : SegInfo) (bs : List (List Bytes)) (b : List Bytes)
    (hwf : RunWF info (bs ++ [b])) (w : Writer) (file : Bytes)
    (hrun : (freshSegment info).1.appendAll (freshSegment info).2 info.base bs = some (w, file))
    (w' : Writer) (file' : Bytes)
    (happ : w.append file (indexBatch (info.base + bs.flatten.length) b) .none = (none, w', file'))
    (mask : Nat → Bool) :
    let img := tearImage file file' w.writeOffset (w'.writeOffset - w.writeOffset) mask
    (∃ wr img', recoverTail info img = .ok (wr, img') ∧
      ((wr.obs = w.obs ∧ img' = file ++ zeros (file'.length - file.length)) ∨
       (wr.obs = w'.obs ∧ img' = img ∧
          (img = file' ∨
           (batchRegion img w.writeOffset w'.writeOffset ≠ batchRegion file' w.writeOffset w'.writeOffset ∧
            crc32c (batchRegion img w.writeOffset w'.writeOffset) =
              crc32c (batchRegion file' w.writeOffset w'.writeOffset))))))
    ∨ (bs = [] ∧ recoverTail info img = .error .corrupt
        ∧ batchRegion img w.writeOffset w'.writeOffset ≠ batchRegion file' w.writeOffset w'.writeOffset
        ∧ crc32c (batchRegion img w.writeOffset w'.writeOffset) =
              crc32c (batchRegion file' w.writeOffset w'.writeOffset)) :=
  recover_torn_atomic_corrected info bs b hwf w file hrun w' file' happ mask

theorem clearStale_clean (file : Bytes) (wo : Nat) : ∀ b ∈ (clearStale file wo).drop wo, b = 0 := by
  intro b hb
  unfold clearStale at hb
  rw [List.drop_append] at hb
  rcases List.mem_append.mp hb with h | h
  · have : (List.take wo file).drop wo = [] := by
      apply List.drop_eq_nil_of_le; simp [List.length_take]; omega
    rw [this] at h; simp at h
  · have := List.mem_of_mem_drop h
    exact List.eq_of_mem_replicate this

/-- after recovery the region behind the recovered tail is clean again (this is what makes crash chains — tear,
    recover, append over the same region, tear again — an induction rather than a new case) -/
theorem recovery_leaves_clean_region (info : SegInfo) (file : Bytes) (w : Writer) (file' : Bytes)
    (h : recoverTail info file = .ok (w, file')) : ∀ b ∈ file'.drop w.writeOffset, b = 0 := by
  unfold recoverTail at h
  simp only at h
  split at h
  · simp only [Except.ok.injEq, Prod.mk.injEq] at h
    obtain ⟨hw, hf⟩ := h
    subst hw hf
    exact clearStale_clean file 0
  · split at h
    · simp only [Except.ok.injEq, Prod.mk.injEq] at h
      obtain ⟨hw, hf⟩ := h
      subst hw hf
      exact clearStale_clean file _
    · simp at h


/-! ## chains of crash / recover / append cycles on one segment file (byte level)

    `ChainEv`: an acknowledged append, a process restart (recovery of the file as it is), an append in flight torn by a
    power loss with ANY chunk mask and then recovered. `chainRun` executes a list of them on the fresh segment with the
    model's own writer and `recoverTail`. `chainSpec evs bs`: `bs` holds every acknowledged batch and each torn batch whole
    or not at all, in order. -/

/-- **chain_atomic**: after every chain of such events — any number of tears, the stale bytes of each left behind the
    tail for the next recovery to deal with — either some torn image along the way collides under CRC-32C with the
    complete batch (the explicit residual), or the chain runs without error and ends in exactly the state a run of completed
    appends of some `bs` allowed by `chainSpec` ends in: same writer, every entry of `bs` readable at its index with its
    payload, nothing above readable, the region behind the tail all zeros again. No half-applied batch, no entry of a
    discarded batch, no error that would make the segment unopenable (C03 at this level). -/
theorem chain_atomic (info : SegInfo) (evs : List ChainEv) (hwf : ChainWF info evs) :
    ChainCollision info evs ∨ ∃ w file bs, ChainResult info evs w file bs :=
  RaftWal.chain_atomic info evs hwf

/-- the same without any assumption on the segment size: the only further outcome is a chain that goes on appending to a
    segment one of its own events sealed — `ErrSealed`, with the full conclusion up to that point (the WAL rotates there) -/
theorem chain_atomic_any_size (info : SegInfo) (evs : List ChainEv) (hwf : ChainSizes info evs) :
    ChainCollision info evs ∨ (∃ w file bs, ChainResult info evs w file bs) ∨ ChainSealedStop info evs :=
  RaftWal.chain_atomic_gen info evs hwf

/-- the induction step for a tear, for any state satisfying the chain invariant (not only a fresh run) -/
theorem torn_step_any_state (info : SegInfo) (bs : List (List Bytes)) (b : List Bytes) (mask : Nat → Bool)
    (hwf : RunWF info (bs ++ [b])) (hmax : ∀ p ∈ b, p.length ≤ maxEntrySize)
    (w : Writer) (file : Bytes) (hI : ChainInv info w file bs) (hidx : w.indexStart = 0) :
    TornCollision info (w, file) b mask
    ∨ (∃ k, chainStep info (w, file) (.torn b mask) = .ok (w, file ++ zeros k)
          ∧ ChainInv info w (file ++ zeros k) bs)
    ∨ (∃ w' file', chainStep info (w, file) (.torn b mask) = .ok (w', file')
          ∧ w.append file (indexBatch (info.base + bs.flatten.length) b) .none = (none, w', file')
          ∧ ChainInv info w' file' (bs ++ [b])) :=
  RaftWal.chainStep_torn_inv info bs b mask hwf hmax w file hI hidx

/-! ### crashes inside recovery itself, nested to any depth

    `ChainEv2` adds to the events above a recovery whose own zeroing of the stale region (`clearStaleTail`: a write, then an
    fsync) is cut by a power loss — any subset of the 8-byte chunks of that write on disk — any number of times in a row
    (`zmasks`: one chunk mask per cut recovery), after a restart or right after a torn append. -/

/-- **chain_atomic_rec**: the conclusion of `chain_atomic` for chains that also contain cut recoveries — every acknowledged
    batch present, every torn batch whole or absent, all of it readable, nothing else, region behind the tail clean — or an
    explicit CRC-32C collision in one of the images a recovery was run on -/
theorem chain_atomic_rec (info : SegInfo) (evs : List ChainEv2) (hwf : ChainWF2 info evs) :
    ChainCollision2 info evs ∨ ∃ w file bs, ChainResult2 info evs w file bs :=
  RaftWal.chain_atomic_rec info evs hwf

theorem chain_atomic_rec_any_size (info : SegInfo) (evs : List ChainEv2) (hwf : ChainSizes2 info evs) :
    ChainCollision2 info evs ∨ (∃ w file bs, ChainResult2 info evs w file bs) ∨ ChainSealedStop2 info evs :=
  RaftWal.chain_atomic_rec_gen info evs hwf

/-! ### the two layers, linked by theorem: what the byte level can produce is what the protocol level allows, and vice versa

    `l2Run` plays a chain of byte-level events on a `Crash.Disk` with the protocol model's own functions: an
    acknowledged append is `.write` + `.fsync`; a restart is a process crash followed by `openResult`; a torn append is
    `.write`, a power loss whose `keepPending` choice for the file is the Boolean `keep` of that event, then `openResult`.
    `tag` maps payloads to the abstract entries of the protocol model. -/

/-- **every byte-level outcome is a protocol-level outcome**: for every chain, unless a torn image collides under CRC-32C,
    there is a choice `keep` of the protocol model's all-or-nothing power-loss outcomes under which its file holds
    (`content`) exactly the entries the byte level reads back, nothing is pending, and it is sealed iff the byte-level
    writer is. This is the statement `Model/Crash.lean` takes from the byte level ("a torn batch is recovered as absent or
    whole"), now proved instead of cited. -/
theorem byte_level_refines_protocol_file (tag : Bytes → Crash.Entry) (info : SegInfo) (evs : List ChainEv)
    (hwf : ChainWF info evs) :
    ChainCollision info evs ∨ ∃ (w : Writer) (file : Bytes) (bs : List (List Bytes)) (keep : List Bool),
        LinkResult info tag evs w file bs keep :=
  RaftWal.l1_refines_l2_file tag info evs hwf

/-- **every protocol-level power-loss choice is realised at byte level** (by the all-landed / nothing-landed masks): the
    protocol model allows nothing the bytes cannot do -/
theorem protocol_outcomes_realised_at_byte_level (tag : Bytes → Crash.Entry) (info : SegInfo) (evs : List ChainEv)
    (hwf : ChainWF info evs) (keep : List Bool) (hlen : keep.length = tornCount evs) :
    ∃ (w : Writer) (file : Bytes),
      LinkResult info tag (setMasks evs keep) w file (keptBatches evs keep) keep :=
  RaftWal.l2_outcomes_realised tag info evs hwf keep hlen

-- the hypotheses are satisfiable: a 7-event chain (append, tear recovered absent, restart, tear recovered whole, tear
-- recovered absent, sealing append, restart) — `example : ChainWF chainExInfo chainExEvs` in Proofs/SegmentChain.lean

/-! ## WAL level: the durability protocol (Model/Crash.lean — meta commits, file creation, rotation, truncation, Open,
    tied to wal.go by the crash suite's action-by-action and image-by-image correspondence).  `Crash.QuiescentS` is
    the invariant of a live process between calls; it holds after Open on an empty directory, after every completed
    call and after every recovery (`Crash.init_quiescentS`, `Crash.call_refines_corrected`, `Crash.crash_safe_corrected`). -/

/-- **an append cut by a crash is recovered as absent or whole** — the log after recovery is the log before the call
    or that log followed by the whole batch; nothing else, whatever the crash point, crash kind and recovery history -/
theorem append_all_or_nothing_any_crash (d : Crash.Disk) (hq : Crash.QuiescentS d) (first : Nat) (es : List Crash.Entry)
    (s : Bool) (hok : (Crash.Op.store first es s).ok d) (k : Nat) (c : Crash.CrashKind) (d1 d' : Crash.Disk)
    (hr : Crash.ReachRec (Crash.crashAfter d (Crash.prog d (.store first es s)) k c) d1)
    (ho : Crash.openResult d1 = some d') :
    Crash.absLog d' = Crash.absLog d ∨ Crash.absLog d' = Crash.absLog d ++ Crash.appended first es :=
  Crash.append_all_or_nothing d hq first es s hok k c d1 d' hr ho

/-- for every call: the recovered log is the specification's log before or after the call (never fabricated, never
    half-applied) -/
theorem recovered_log_before_or_after (d : Crash.Disk) (hq : Crash.QuiescentS d) (op : Crash.Op) (hok : op.ok d) (k : Nat)
    (c : Crash.CrashKind) (d1 d' : Crash.Disk) (hr : Crash.ReachRec (Crash.crashAfter d (Crash.prog d op) k c) d1)
    (ho : Crash.openResult d1 = some d') :
    Crash.absLog d' = Crash.absLog d ∨ Crash.absLog d' = Crash.specApply (Crash.absLog d) op :=
  (Crash.crash_safe_corrected d hq op hok k c d1 d' hr ho).2.1

/-! ### chains with I/O faults: failed appends, whose bytes stay behind the tail (defect O21: found here, since repaired in /repo)

    `ChainEvF` adds `failed b fault` to the chain events: an append that fails on an injected write or fsync fault — the
    call returns an error, the writer is rolled back in memory, the file keeps what landed. `chain_atomic_faults_stmt` says
    of such chains what `chain_atomic` says of fault-free ones (every acknowledged batch present, anything else present is
    one whole submitted batch — the pending failed one included, as C10 allows —, nothing partial, nothing fabricated,
    modulo CRC-32C collisions). For the writer as it was pinned (`Writer.append`: rollback in memory only) it is FALSE, and it was false
    of the code; the repaired writer is `appendD` / `forceSealD` (Model/SegmentRepair.lean), which is what the segment suite now
    compares the code with: -/

/-- the witness, evaluated by the kernel: an acknowledged append, an append whose fsync fails and whose single payload
    embeds an entry frame `[42]` and a commit frame with that frame's CRC-32C, a shorter acknowledged append, a restart —
    three entries are recovered and index 7 reads `[42]`, which nobody stored. No CRC collision is involved. The same
    input is run on the real code by the segment suite on every run (`seg-staleinject-*`: since the repair it must come back with
    the two acknowledged entries only). -/
theorem failed_append_stale_bytes_fabricate_an_entry : type_of% RaftWal.faultW3_outcome :=
  -- the statement (Proofs/SegmentChainFault.lean): `chainRunF faultInfo (freshSegment faultInfo) faultW3` is `.ok p` with
  -- `p.1.offsets.length = 3` and `p.1.getLog p.2 7 64 = .ok [42]`
  RaftWal.faultW3_outcome

theorem chain_atomic_with_faults_refuted : ¬ chain_atomic_faults_stmt := RaftWal.chain_atomic_faults_false

/-- what does hold (**partial**: fsync faults only, each failed append followed directly by a restart; `.write n` faults
    and appends over the stale bytes of a failed one are exactly where the refutation lives): such a chain behaves as the
    fault-free chain in which the failed batch was appended, and ends with a clean region behind the tail -/
theorem chain_atomic_faults_partial (info : SegInfo) (evs : List ChainEvF) (l : List ChainEv)
    (hp : plainOf evs = some l) (hwf : ChainWFF info evs) :
    ChainCollision info l
    ∨ ∃ w file bs, FaultResult info evs w file bs ∧ ChainResult info l w file bs
        ∧ (∀ x ∈ file.drop w.writeOffset, x = 0) :=
  RaftWal.chain_atomic_faults_partial info evs l hp hwf

end RaftWal.C02
