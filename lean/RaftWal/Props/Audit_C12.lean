import RaftWal.Props.C12
#print axioms RaftWal.C12.uvarint_roundtrip
#print axioms RaftWal.C12.decode_encode
#print axioms RaftWal.C12.encode_error_iff_zone
#print axioms RaftWal.C12.encodeOrder_gen_eq
#print axioms RaftWal.C12.decodeOrder_gen_eq
#print axioms RaftWal.C12.decoder_copies
#print axioms RaftWal.C12.builtin_codec_reserved
#print axioms RaftWal.C12.getLog_returns_requested_entry
#print axioms RaftWal.C12.returned_log_never_changes
#print axioms RaftWal.C12.pooled_buffers_exclusive
#print axioms RaftWal.C12.buffer_guards_needed
#print axioms RaftWal.C12.large_path_choices_irrelevant
#print axioms RaftWal.C12.stored_log_reads_back
#print axioms RaftWal.C12.stored_log_reads_back_sealed
#print axioms RaftWal.C12.stored_log_reads_back_any_chain
