import RaftWal.Props.C12
#print axioms RaftWal.C12.uvarint_roundtrip
#print axioms RaftWal.C12.decode_encode
#print axioms RaftWal.C12.encode_error_iff_zone
#print axioms RaftWal.C12.encodeOrder_gen_eq
#print axioms RaftWal.C12.decodeOrder_gen_eq
#print axioms RaftWal.C12.decoder_copies
#print axioms RaftWal.C12.builtin_codec_reserved
