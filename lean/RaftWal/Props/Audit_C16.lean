import RaftWal.Props.C16
#print axioms RaftWal.C16.delete_resets_sum
#print axioms RaftWal.C16.batch_independent
#print axioms RaftWal.C16.running_sum_invariant
#print axioms RaftWal.C16.fresh_report
#print axioms RaftWal.C16.written_sum_is_running_sum
#print axioms RaftWal.C16.no_false_alarm
#print axioms RaftWal.C16.range_mismatch_not_corruption
#print axioms RaftWal.C16.leader_checkpoint_is_chain
#print axioms RaftWal.C16.cluster_no_false_alarm
#print axioms RaftWal.C16.cluster_range_mismatch
#print axioms RaftWal.C16.cluster_nonvacuous
#print axioms RaftWal.C16.sum_published_after_store
#print axioms RaftWal.C16.delete_reset_condition_from_source
#print axioms RaftWal.C16.range_mismatch_condition_from_source
#print axioms RaftWal.C16.written_sum_void_condition_from_source
