import RaftWal.Props.C04
#print axioms RaftWal.C04.spec_head_truncation
#print axioms RaftWal.C04.spec_tail_truncation
#print axioms RaftWal.C04.truncations_refine_spec
#print axioms RaftWal.C04.files_deleted_only_after_commit
#print axioms RaftWal.C04.truncation_atomic_any_crash
#print axioms RaftWal.C04.truncation_scans_from_source
