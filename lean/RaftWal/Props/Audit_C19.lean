import RaftWal.Props.C19
#print axioms RaftWal.C19.source_facts
#print axioms RaftWal.C19.copyLogs_exact
#print axioms RaftWal.C19.empty_source_fails_unguarded
#print axioms RaftWal.C19.copyLogs_cancel_prefix
#print axioms RaftWal.C19.copyStable_copies
#print axioms RaftWal.C19.copyStable_cancel
