import RaftWal.Props.C08
#print axioms RaftWal.C08.stable_refines
#print axioms RaftWal.C08.get_after_set
#print axioms RaftWal.C08.get_after_set_other
#print axioms RaftWal.C08.u64_roundtrip
#print axioms RaftWal.C08.getUint64_unset_zero
#print axioms RaftWal.C08.stable_isolated
#print axioms RaftWal.C08.stable_any_crash
