import RaftWal.Props.C17
#print axioms RaftWal.C17.checksumLog_source_shape
#print axioms RaftWal.C17.checkpointMeta_layout
#print axioms RaftWal.C17.verdict_table
#print axioms RaftWal.C17.detects_mod_collision
#print axioms RaftWal.C17.single_substitution_always_detected
#print axioms RaftWal.C17.detects_data_byte
#print axioms RaftWal.C17.detects_term_byte
#print axioms RaftWal.C17.inflight_blame_sound
#print axioms RaftWal.C17.bootstrap_entry_ignored
#print axioms RaftWal.C17.sum_never_covers_rejected_batch
#print axioms RaftWal.C17.inflight_blame_condition_from_source
#print axioms RaftWal.C17.boundary_shift_undetected
