/-
  C06 — Readers are never blocked and see a consistent snapshot.
  Model: Model/Conc.lean.  "Never blocked" is structural in the model (a reader step never tests the write lock);
  on the real code it is exercised by the forced schedules of the conc suite (a reader completes while the writer
  is parked holding writeMu).
-/
import RaftWal.Generated.WalLogic
import RaftWal.Generated.Conc
import RaftWal.Proofs.ConcProps
import RaftWal.Props.C01
namespace RaftWal.C06
open RaftWal RaftWal.Conc

/-- a reader's step never depends on the write lock: readers are never blocked by the writer or by Close -/
theorem reader_ignores_lock (cfg : Cfg) (s : Sys) (i : Nat) (b : Bool) :
    stepReader cfg { s with lock := b } i = { stepReader cfg s i with lock := b } := by
  unfold stepReader
  cases hr : s.readers[i]? with
  | none => simp [hr]
  | some r =>
    simp only [hr]
    cases hpc : r.pc <;> simp [Sys.obj, Sys.setObj, Sys.release, Sys.isOpen, Sys.closeFiles] <;>
      (try split) <;> (try split) <;> simp

/-- **files of the current state are open** under every schedule, until Close swaps in the empty state -/
theorem current_files_open (files wants : List FileId) (muts : List Mutation) (hwf : InitWF files muts) (s : Sys)
    (h : Reachable files wants muts s) (hc : closePublished s = false) :
    ∀ f ∈ (s.obj s.cur).files, s.isOpen f = true :=
  Conc.current_files_open files wants muts hwf s h hc

/-- **a file error only for entries a state change removed** -/
theorem error_only_if_removed (files wants : List FileId) (muts : List Mutation) (hwf : InitWF files muts) (s : Sys)
    (h : Reachable files wants muts s) (i : Nat) (r : Reader) (hr : s.readers[i]? = some r) (sid : Nat)
    (hpc : r.pc = .acquired sid) (hc : closePublished s = false)
    (hres : ((stepReader fixed s i).readers[i]?.map (·.pc)) = some (.finished sid .errFile)) :
    r.want ∉ (s.obj s.cur).files :=
  Conc.error_only_if_removed files wants muts hwf s h i r hr sid hpc hc hres

/-- **an entry that stays in the log is read intact**, whatever truncations/rotations are in flight -/
theorem intact_if_stays (files wants : List FileId) (muts : List Mutation) (hwf : InitWF files muts) (s : Sys)
    (h : Reachable files wants muts s) (i : Nat) (r : Reader) (hr : s.readers[i]? = some r) (sid : Nat)
    (hpc : r.pc = .acquired sid) (hin : r.want ∈ (s.obj sid).files) (hempty : (s.obj sid).empty = false)
    (hcur : r.want ∈ (s.obj s.cur).files) (hc : closePublished s = false) :
    ((stepReader fixed s i).readers[i]?.map (·.pc)) = some (.finished sid .ok) :=
  Conc.intact_if_stays files wants muts hwf s h i r hr sid hpc hin hempty hcur hc

/-- **reference counts are exact** (count = number of threads holding the state) -/
theorem refcount_exact (files wants : List FileId) (muts : List Mutation) (s : Sys)
    (h : Reachable files wants muts s) (sid : Nat) (hs : sid < s.objs.length) :
    (s.obj sid).refCount = holders s sid :=
  Conc.refcount_exact files wants muts s h sid hs

/-- **finalizers run once**: no handle is ever closed twice -/
theorem no_double_close (files wants : List FileId) (muts : List Mutation) (hwf : InitWF files muts) (s : Sys)
    (h : Reachable files wants muts s) : s.doubleClose = false :=
  Conc.no_double_close files wants muts hwf s h

/-- **an entry becomes visible only once durable** (segment level): the commit index readers are gated on moves in
    the step that has flushed and fsynced the batch, and T1 checks `OffsetForFrame` is gated on it -/
theorem visible_only_after_sync (w : Writer) (file : Bytes) (es : List (Nat × Bytes)) (w' : Writer) (file' : Bytes)
    (h : w.append file es .none = (none, w', file')) (hne : es.isEmpty = false) :
    w'.commitIdx = ((es.getLast?.map (·.1)).getD 0) :=
  C01.visible_only_after_sync w file es w' file' h hne
theorem reads_gated_on_commit_index : Generated.readsGatedOnCommitIdx = true := by decide

/-- T1: the writer attaches the finalizer only after the meta commit and the publication of the successor — the
    order of the model's writer steps (`held → published → finSet`) -/
theorem finalizer_attached_after_publish : Generated.finalizerAttachedAfterPublish = true := by decide

/-- StoreLogs and DeleteRange — every kind of DeleteRange — wait for a queued rotation after taking the write lock and
    before they look at the state (read from the source on every run): no call runs between a sealing append and its rotation -/
theorem writers_wait_for_queued_rotation : Generated.writersAwaitRotationFirst = true := by decide

/-- every reference a call takes on the current state is given back exactly once (read from the source on every run: each
    `acquireState()` site declares fresh variables and defers the release in the next statement) — the discipline the
    readers of `Model.Conc` follow and `refcount_exact` / `no_double_close` / the reclaim theorems rest on -/
theorem every_acquire_is_released_once : Generated.everyAcquireHasDeferredRelease = true := by decide

/-- the reference count of a state is touched by `acquire` and `release` only (read from the source): every decrement goes
    through `release`, which runs the finalizer at zero — the step `Model.Conc` takes -/
theorem refcount_only_through_acquire_release :
    Generated.refCountTouchedBy = ["state.acquire", "state.release"] := by decide

end RaftWal.C06
