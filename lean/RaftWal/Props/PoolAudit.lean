import RaftWal.Proofs.PoolProps
#print axioms RaftWal.Pool.pool_exclusive
#print axioms RaftWal.Pool.read_returns_requested_frame_of_guards
#print axioms RaftWal.Pool.read_returns_requested_frame
#print axioms RaftWal.Pool.result_stable_of_guards
#print axioms RaftWal.Pool.result_stable
#print axioms RaftWal.Pool.correct_any_largePath
#print axioms RaftWal.Pool.witness_decoderCopies
#print axioms RaftWal.Pool.needs_decoderCopies
#print axioms RaftWal.Pool.witness_closeAfterDecode
#print axioms RaftWal.Pool.needs_closeAfterDecode
#print axioms RaftWal.Pool.witness_closeOnce
#print axioms RaftWal.Pool.needs_closeOnce
#print axioms RaftWal.Pool.pool_exclusive_needs_closeOnce
