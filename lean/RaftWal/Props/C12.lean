/-
  C12 — Entry codec round-trips every log and never aliases pooled buffers.
  Property theorems only; lemmas live in Proofs/.
-/
import RaftWal.Proofs.Codec
import RaftWal.Generated.Codec
import RaftWal.Generated.Consts
import RaftWal.Generated.Pool
import RaftWal.Proofs.PoolProps
import RaftWal.Proofs.EndToEnd
namespace RaftWal.C12

/-- Go's `binary.Uvarint ∘ binary.PutUvarint = id` for every 64-bit value, with any trailing bytes. -/
theorem uvarint_roundtrip (v : Nat) (hv : v < 2^64) (rest : Bytes) :
    uvarint (putUvarint v ++ rest) = .ok v rest := uvarint_put v hv rest

/-- **decode ∘ encode = id** for every log: any 64-bit Index/Term, any 8-bit Type, arbitrary
    Data/Extensions (nil ≡ empty), any time in wire form; for the decoder configuration the
    fact extractor read from the current source. -/
theorem decode_encode (l : Log) (t : WTime) (hl : l.wf) (ht : l.time = some t)
    (hd : l.data.length < 2^64) (he : l.ext.length < 2^64) (bs : Bytes) (henc : encode l = some bs) :
    decode Generated.decodeCfg bs = .ok l :=
  RaftWal.decode_encode Generated.decodeCfg l t hl ht hd he bs henc

/-- the only encode failure is a time whose MarshalBinary fails (unencodable zone offset) -/
theorem encode_error_iff_zone (l : Log) : encode l = none ↔ l.time = none := encode_none_iff l

/-- T1 tie: the field order of `Encode` in the source is the model's. -/
theorem encodeOrder_gen_eq : Generated.encodeOrder =
    [("varint", "l.Index"), ("varint", "l.Term"), ("varint", "uint64(l.Type)"),
     ("bytes", "l.Data"), ("bytes", "l.Extensions"), ("time", "l.AppendedAt")] := by decide

/-- T1 tie: the field order of `Decode` in the source is the model's (and equals Encode's). -/
theorem decodeOrder_gen_eq : Generated.decodeOrder =
    [("varint", "Index"), ("varint", "Term"), ("varint", "Type"),
     ("bytes", "Data"), ("bytes", "Extensions"), ("time", "AppendedAt")] := by decide

/-- T1 tie: `decoder.bytes` copies (`make` + `copy`); the model's `Dec.bytes` returns a fresh
    list, which is only faithful under this fact (no aliasing of the pooled read buffer). -/
theorem decoder_copies : Generated.decoderBytesCopies = true := by decide

/-- reserved codec IDs: the built-in codec's ID is below the first external ID -/
theorem builtin_codec_reserved : Generated.wal_CodecBinaryV1 < Generated.wal_FirstExternalCodecID := by decide

/-! ## "StoreLogs followed by GetLog returns an equal log": codec and segment file composed -/

/-- **stored_log_reads_back**: logs are encoded (`encodeBatches`), their encodings appended batch by batch by the
    byte-level writer, index `base + k` is read back by the tail reader with any buffer size and decoded with the decoder as
    the source configures it: the result is exactly the k-th stored log, every field. (`LogsWF` only states the ranges of
    the Go field types.) -/
theorem stored_log_reads_back (info : SegInfo) (ls : List (List Log)) (bs : List (List Bytes))
    (hls : LogsWF ls) (henc : encodeBatches ls = some bs) (hwf : RunWF info bs) (hmin : info.min = info.base)
    (w : Writer) (file : Bytes)
    (hrun : (freshSegment info).1.appendAll (freshSegment info).2 info.base bs = some (w, file))
    (k : Nat) (hk : k < ls.flatten.length) (bufSize : Nat) (hbuf : 8 ≤ bufSize) :
    (w.getLog file (info.base + k) bufSize).toOption.bind (fun p => (decode Generated.decodeCfg p).toOption)
      = some (ls.flatten[k]'hk) :=
  RaftWal.stored_log_reads_back info ls bs hls henc hwf hmin w file hrun k hk bufSize hbuf

/-- the same through the sealed reader (the on-disk index block) once the segment is sealed -/
theorem stored_log_reads_back_sealed (info : SegInfo) (ls : List (List Log)) (bs : List (List Bytes))
    (hls : LogsWF ls) (henc : encodeBatches ls = some bs) (hwf : RunWF info bs) (hmin : info.min = info.base)
    (w : Writer) (file : Bytes)
    (hrun : (freshSegment info).1.appendAll (freshSegment info).2 info.base bs = some (w, file))
    (hsealed : w.indexStart > 0) (k : Nat) (hk : k < ls.flatten.length) (bufSize : Nat) (hbuf : 8 ≤ bufSize) :
    openSealed (sealInfo info w) file = .ok () ∧
    (sealedGetLog (sealInfo info w) file (info.base + k) bufSize).toOption.bind
        (fun p => (decode Generated.decodeCfg p).toOption) = some (ls.flatten[k]'hk) :=
  RaftWal.stored_log_reads_back_sealed info ls bs hls henc hwf hmin w file hrun hsealed k hk bufSize hbuf

/-- and after any chain of appends, torn appends, recoveries and restarts (Props/C02 `chain_atomic`): every entry the
    file holds decodes to the log that was stored -/
theorem stored_log_reads_back_any_chain (info : SegInfo) (evs : List ChainEv) (w : Writer) (file : Bytes)
    (bs : List (List Bytes)) (hres : ChainResult info evs w file bs)
    (ls : List (List Log)) (hls : LogsWF ls) (henc : encodeBatches ls = some bs) (hmin : info.min = info.base)
    (k : Nat) (hk : k < ls.flatten.length) (bufSize : Nat) (hbuf : 8 ≤ bufSize) :
    (w.getLog file (info.base + k) bufSize).toOption.bind (fun p => (decode Generated.decodeCfg p).toOption)
      = some (ls.flatten[k]'hk) :=
  RaftWal.stored_log_reads_back_any_chain info evs w file bs hres ls hls henc hmin k hk bufSize hbuf

/-! ## "A log returned by GetLog stays unchanged when later reads reuse internal buffers"

    `Model/Pool.lean`: the heap of read buffers, the Filer's `sync.Pool` (any previously Put buffer or a new one — the
    schedule decides), and any number of reader goroutines each walking through `readFrame` / `WAL.GetLog` one shared
    access per step (small path, large path with its private buffer, error returns). `Generated.poolCfg` holds the
    code's guards as read from the call sites on every run. The theorems quantify over every schedule. -/

/-- every read that completes hands its caller the bytes of the frame it asked for … -/
theorem getLog_returns_requested_entry (n : Nat) (sched : List Pool.Step) :
    ∀ kr ∈ (Pool.run Generated.poolCfg (Pool.init n) sched).returned,
      Pool.observe (Pool.run Generated.poolCfg (Pool.init n) sched) kr.2 = some kr.1 :=
  (Pool.read_returns_requested_frame_of_guards Generated.poolCfg (by decide) (by decide) (by decide) n sched).2

/-- … and whatever readers do afterwards — reuse of the same pooled buffers included — a returned log never changes -/
theorem returned_log_never_changes (n : Nat) (sched more : List Pool.Step) :
    ∀ kr ∈ (Pool.run Generated.poolCfg (Pool.init n) sched).returned,
      kr ∈ (Pool.run Generated.poolCfg (Pool.init n) (sched ++ more)).returned ∧
      Pool.observe (Pool.run Generated.poolCfg (Pool.init n) (sched ++ more)) kr.2 =
        Pool.observe (Pool.run Generated.poolCfg (Pool.init n) sched) kr.2 :=
  Pool.result_stable_of_guards Generated.poolCfg (by decide) (by decide) (by decide) n sched more

/-- a pooled buffer is never in the pool while a reader holds it, never held by two readers, never in the pool twice -/
theorem pooled_buffers_exclusive (n : Nat) (sched : List Pool.Step) :
    let s := Pool.run Generated.poolCfg (Pool.init n) sched
    s.pool.Nodup ∧ (∀ t b, b ∈ s.ownedBy t → b ∉ s.pool) ∧ (∀ t u b, b ∈ s.ownedBy t → b ∈ s.ownedBy u → t = u) :=
  Pool.pool_exclusive Generated.poolCfg (by decide) n sched

/-- each guard is needed: without the decoder's copy, with the buffer handed back before Decode, or with a second Close
    of the same buffer, there is a schedule on which a reader ends up with another entry's bytes (concrete witnesses) -/
theorem buffer_guards_needed :
    ¬ Pool.Correct { Pool.PoolCfg.code with decoderCopies := false } ∧
    ¬ Pool.Correct { Pool.PoolCfg.code with closeAfterDecode := false } ∧
    ¬ Pool.Correct { Pool.PoolCfg.code with closeOnce := false } :=
  ⟨Pool.needs_decoderCopies, Pool.needs_closeAfterDecode, Pool.needs_closeOnce⟩

/-- whether the large path's exact-size buffer is private or pooled, and when the first buffer is handed back, does not
    matter for what callers see -/
theorem large_path_choices_irrelevant (priv first : Bool) :
    Pool.Correct { Pool.PoolCfg.code with largePathPrivate := priv, largePathClosesFirst := first } :=
  Pool.correct_any_largePath priv first

-- non-vacuity: a concrete non-trivial log satisfies the hypotheses of `decode_encode`
example : ∃ l t bs, Log.wf l ∧ l.time = some t ∧ encode l = some bs ∧ l.data ≠ [] ∧ l.index ≥ 2^63 :=
  ⟨{ index := 2^64 - 1, term := 300, typ := 255, data := [1, 2, 3], ext := [], time := some WTime.zero }, WTime.zero, _,
   by refine ⟨by decide, by decide, by decide, ?_⟩; intro t h; cases h; decide, rfl, rfl, by decide, by decide⟩

end RaftWal.C12
