/-
  C12 — Entry codec round-trips every log and never aliases pooled buffers.
  Property theorems only; lemmas live in Proofs/.
-/
import RaftWal.Proofs.Codec
import RaftWal.Generated.Codec
import RaftWal.Generated.Consts
namespace RaftWal.C12

/-- Go's `binary.Uvarint ∘ binary.PutUvarint = id` for every 64-bit value, with any trailing bytes. -/
theorem uvarint_roundtrip (v : Nat) (hv : v < 2^64) (rest : Bytes) :
    uvarint (putUvarint v ++ rest) = .ok v rest := uvarint_put v hv rest

/-- **decode ∘ encode = id** for every log: any 64-bit Index/Term, any 8-bit Type, arbitrary
    Data/Extensions (nil ≡ empty), any time in wire form; for the decoder configuration the
    fact extractor read from the current source. -/
theorem decode_encode (l : Log) (t : WTime) (hl : l.wf) (ht : l.time = some t)
    (hd : l.data.length < 2^64) (he : l.ext.length < 2^64) (bs : Bytes) (henc : encode l = some bs) :
    decode Generated.decodeCfg bs = .ok l :=
  RaftWal.decode_encode Generated.decodeCfg l t hl ht hd he bs henc

/-- the only encode failure is a time whose MarshalBinary fails (unencodable zone offset) -/
theorem encode_error_iff_zone (l : Log) : encode l = none ↔ l.time = none := encode_none_iff l

/-- T1 tie: the field order of `Encode` in the source is the model's. -/
theorem encodeOrder_gen_eq : Generated.encodeOrder =
    [("varint", "l.Index"), ("varint", "l.Term"), ("varint", "uint64(l.Type)"),
     ("bytes", "l.Data"), ("bytes", "l.Extensions"), ("time", "l.AppendedAt")] := by decide

/-- T1 tie: the field order of `Decode` in the source is the model's (and equals Encode's). -/
theorem decodeOrder_gen_eq : Generated.decodeOrder =
    [("varint", "Index"), ("varint", "Term"), ("varint", "Type"),
     ("bytes", "Data"), ("bytes", "Extensions"), ("time", "AppendedAt")] := by decide

/-- T1 tie: `decoder.bytes` copies (`make` + `copy`); the model's `Dec.bytes` returns a fresh
    list, which is only faithful under this fact (no aliasing of the pooled read buffer). -/
theorem decoder_copies : Generated.decoderBytesCopies = true := by decide

/-- reserved codec IDs: the built-in codec's ID is below the first external ID -/
theorem builtin_codec_reserved : Generated.wal_CodecBinaryV1 < Generated.wal_FirstExternalCodecID := by decide

-- non-vacuity: a concrete non-trivial log satisfies the hypotheses of `decode_encode`
example : ∃ l t bs, Log.wf l ∧ l.time = some t ∧ encode l = some bs ∧ l.data ≠ [] ∧ l.index ≥ 2^63 :=
  ⟨{ index := 2^64 - 1, term := 300, typ := 255, data := [1, 2, 3], ext := [], time := some WTime.zero }, WTime.zero, _,
   by refine ⟨by decide, by decide, by decide, ?_⟩; intro t h; cases h; decide, rfl, rfl, by decide, by decide⟩

end RaftWal.C12
