/-
  C20 — Metrics are declared and add up.  Static half: over the call-site table
  and the MetricDefinitions tables regenerated from the current source.
-/
import RaftWal.Generated.Metrics
import RaftWal.Proofs.WalInv2
import RaftWal.Proofs.WalInv2Counter
namespace RaftWal.C20
open RaftWal.Generated

def countersOf (pkg : String) : List String := if pkg = "wal" then walCounters else if pkg = "verifier" then verifierCounters else []
def gaugesOf (pkg : String) : List String := if pkg = "wal" then walGauges else if pkg = "verifier" then verifierGauges else []

/-- a call site is fine when its name is a string literal declared, with the right kind, by its own package -/
def siteOk (s : String × String × String × String × Bool) : Bool :=
  let (pkg, _, kind, name, lit) := s
  lit && (if kind = "counter" then (countersOf pkg).contains name else if kind = "gauge" then (gaugesOf pkg).contains name else false)

/-- **every emitted metric name is declared** (so the bundled AtomicCollector never panics on an unknown name) -/
theorem emitted_subset_declared : metricSites.all siteOk = true := by decide

/-- no duplicate names within a package's definitions (AtomicCollector panics on duplicates) -/
theorem definitions_nodup :
    (walCounters ++ walGauges).Nodup ∧ (verifierCounters ++ verifierGauges).Nodup := by decide

/-- every declared WAL counter is emitted somewhere (no dead definitions) -/
theorem declared_are_emitted :
    (walCounters ++ walGauges ++ verifierCounters ++ verifierGauges).all
      (fun n => metricSites.any (fun s => s.2.2.2.1 = n)) = true := by decide

/-- the call sites the dynamic model (Model.Wal counters) assumes: one site per counter, in these functions -/
theorem wal_sites_as_modelled :
    (metricSites.filter (fun s => s.1 = "wal")).map (fun s => (s.2.1, s.2.2.2.1)) =
    [("GetLog", "log_entries_read"), ("GetLog", "log_entry_bytes_read"), ("StoreLogs", "log_appends"),
     ("StoreLogs", "log_entries_written"), ("StoreLogs", "log_entry_bytes_written"), ("Set", "stable_sets"),
     ("Get", "stable_gets"), ("rotateSegmentLocked", "last_segment_age_seconds"), ("rotateSegmentLocked", "segment_rotations"),
     ("truncateHeadLocked", "head_truncations"), ("truncateTailLocked", "tail_truncations")] := by decide

theorem verifier_sites_as_modelled :
    (metricSites.filter (fun s => s.1 = "verifier")).map (fun s => (s.2.1, s.2.2.2.1)) =
    [("StoreLogs", "checkpoints_written"), ("triggerVerify", "dropped_reports"), ("runVerifier", "ranges_verified"),
     ("verify", "write_checksum_failures"), ("verify", "read_checksum_failures")] := by decide

/-- **counters_exact**: after any run of log and StableStore calls the WAL's counters equal the true totals computed
    from the reference log alone — calls, entries and encoded bytes appended, reads and bytes read, stable gets and
    sets, and head/tail truncation counts equal to the number of entries actually removed (as long as fewer than
    2^64 entries were removed at each end: the counters are uint64) -/
theorem counters_exact (cfg : WalCfg) (hcfg : cfg.newSegCodec = cfg.codecId) (w0 : Wal) (h0 : Wal.init cfg = some w0)
    (ops : List XOp) (hops : ∀ op ∈ ops, op.inRange)
    (hhead : (specTotals ops).2.head < 2^64) (htail : (specTotals ops).2.tail < 2^64) :
    (w0.xrunState ops).ctr.totals = (specTotals ops).2 :=
  RaftWal.counters_exact cfg hcfg w0 h0 ops hops hhead htail

/-- unconditional form: the truncation counters equal the true totals modulo 2^64 -/
theorem counters_exact_mod (cfg : WalCfg) (hcfg : cfg.newSegCodec = cfg.codecId) (w0 : Wal) (h0 : Wal.init cfg = some w0)
    (ops : List XOp) (hops : ∀ op ∈ ops, op.inRange) :
    (w0.xrunState ops).ctr.totals =
      { (specTotals ops).2 with head := u64 (specTotals ops).2.head, tail := u64 (specTotals ops).2.tail } :=
  RaftWal.counters_exact_mod cfg hcfg w0 h0 ops hops

end RaftWal.C20
