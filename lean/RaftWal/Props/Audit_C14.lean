import RaftWal.Props.C14
#print axioms RaftWal.C14.readers_check_empty_state
#print axioms RaftWal.C14.writers_recheck_closed_under_lock
#print axioms RaftWal.C14.close_wakes_rotation_waiter
#print axioms RaftWal.C14.cfg_from_source
#print axioms RaftWal.C14.no_panic
#print axioms RaftWal.C14.panic_witness_unfixed
#print axioms RaftWal.C14.closed_is_final
#print axioms RaftWal.C14.close_releases_all
#print axioms RaftWal.C14.rotation_rechecks_closed
