/-
  C11 — Damaged files yield errors, never panics, hangs or silent shortening.
-/
import RaftWal.Proofs.Codec
import RaftWal.Generated.Codec
import RaftWal.Model.Segment
import RaftWal.Proofs.OpenCheckProps
namespace RaftWal.C11

/-- T1: the decoder in the current source guards `binary.Uvarint`'s n (no `d.buf[n:]` with n < 0) -/
theorem decoder_guards_overflow : Generated.decodeCfg.overflowPanics = false := by decide

/-- **decoding never panics**: for every byte string the decoder of the current source returns a log or an error -/
theorem decode_no_panic (bs : Bytes) : decode Generated.decodeCfg bs ≠ .panic :=
  RaftWal.decode_no_panic Generated.decodeCfg decoder_guards_overflow bs

/-- the pinned version's defect, kept as a theorem about the unguarded configuration: 11 bytes panic it -/
theorem decode_panic_witness_unguarded :
    decode { overflowPanics := true, shortIsErr := false } [0xff,0xff,0xff,0xff,0xff,0xff,0xff,0xff,0xff,0xff,0x01] = .panic :=
  RaftWal.decode_panic_witness

/-- **no hang**: the recovery / dump scan visits at most `fuel` frames, and `scanFuel` is bounded by the file size;
    every step of the Go loop advances by at least one 8-byte frame header, which is what the fuel stands for -/
theorem scan_bounded (file : Bytes) (fuel off : Nat) : (scanFrames file fuel off).length ≤ fuel := by
  induction fuel generalizing off with
  | zero => simp [scanFrames]
  | succ n ih =>
    unfold scanFrames
    simp only
    split
    · simp
    · split
      · simp
      · split
        · simp
        · rename_i fh _ _
          simp only [List.length_cons]; have := ih (off + encodedFrameSize fh.len); omega

theorem scan_fuel_le_file (file : Bytes) : scanFuel file ≤ file.length / 8 + 1 := by simp [scanFuel]

/-- each scan step advances: the next offset is at least 8 bytes further -/
theorem scan_advances (n : Nat) : 8 ≤ encodedFrameSize n := by
  unfold encodedFrameSize frameHeaderLen; omega

/-- every offset the scan reports lies inside the file (so nothing beyond the file is ever addressed) -/
theorem scan_offsets_in_file (file : Bytes) (fuel off : Nat) :
    ∀ f ∈ scanFrames file fuel off, f.2 + 8 ≤ file.length := by
  induction fuel generalizing off with
  | zero => simp [scanFrames]
  | succ n ih =>
    intro f hf
    unfold scanFrames at hf
    simp only at hf
    split at hf
    · simp at hf
    · rename_i hlen
      split at hf
      · simp at hf
      · split at hf
        · simp at hf
        · rcases List.mem_cons.mp hf with h | h
          · subst h
            simp only [readAt, List.length_take, List.length_drop, frameHeaderLen] at hlen
            simp only
            omega
          · exact ih _ f h

/-- **allocation bound**: the only data-dependent allocation on the read path happens after the length field was
    checked against `MaxEntrySize`; a frame whose header claims more is rejected as corrupt before allocating -/
theorem readFrame_rejects_oversize (file : Bytes) (off bufSize : Nat) (fh : FrameHeader)
    (hbuf : ¬ ((readAt file off bufSize).length < bufSize ∧ (readAt file off bufSize).length < frameHeaderLen))
    (hh : readFrameHeader (readAt file off bufSize) = some fh)
    (hbig : fh.len > maxEntrySize) (hshort : ¬ frameHeaderLen + fh.len ≤ (readAt file off bufSize).length) :
    readFrame file off bufSize = .error .corrupt := by
  unfold readFrame
  simp only [hbuf, if_false, hh, hshort, hbig, if_true]

/-! ## "When a segment that metadata lists as sealed is missing, truncated below its header or carries the header of a
    different segment, Open fails"

    `Model/OpenCheck.lean`: the walk of `wal.Open` over the segment records of the meta store on a directory of byte
    strings — `Filer.Open` for sealed segments (file present, 32 bytes readable, magic/version, BaseIndex, ID and codec equal
    to the record's), the model's `recoverTail` for the tail, the create path for a missing tail; each branch mapped to
    file:line of the source in that file. Tied to the real Open by the opendamage suite: on every damaged directory the
    model's answer (from the same bytes and records) is ok exactly when Open's is. -/

theorem open_fails_on_missing_sealed (dir : OpenCheck.Dir) (segs : List SegInfo) (codec : Nat) (s : SegInfo)
    (hmem : s ∈ segs) (hsealed : s.sealed = true) (hmissing : ∀ bytes, (OpenCheck.segName s, bytes) ∉ dir) :
    ∀ r, OpenCheck.walOpenCheck dir segs codec ≠ .ok r :=
  OpenCheck.open_fails_on_missing_sealed dir segs codec s hmem hsealed hmissing

theorem open_fails_on_short_sealed (dir : OpenCheck.Dir) (segs : List SegInfo) (codec : Nat) (s : SegInfo) (bytes : Bytes)
    (hmem : s ∈ segs) (hsealed : s.sealed = true) (hfile : dir.lookup (OpenCheck.segName s) = some bytes)
    (hshort : bytes.length < fileHeaderLen) : ∀ r, OpenCheck.walOpenCheck dir segs codec ≠ .ok r :=
  OpenCheck.open_fails_on_short_sealed dir segs codec s bytes hmem hsealed hfile hshort

theorem open_fails_on_foreign_header (dir : OpenCheck.Dir) (segs : List SegInfo) (codec : Nat) (s : SegInfo) (bytes : Bytes)
    (hdr : HdrInfo) (hmem : s ∈ segs) (hsealed : s.sealed = true) (hfile : dir.lookup (OpenCheck.segName s) = some bytes)
    (hwell : readFileHeader (bytes.take fileHeaderLen) = some hdr)
    (hforeign : hdr.base ≠ s.base ∨ hdr.id ≠ s.id) : ∀ r, OpenCheck.walOpenCheck dir segs codec ≠ .ok r :=
  OpenCheck.open_fails_on_foreign_header dir segs codec s bytes hdr hmem hsealed hfile hwell hforeign

/-- the three cases in one: whenever the walk succeeds, every sealed segment of the record list has its file, of at least
    header length, whose header is exactly the record's -/
theorem open_ok_characterised (dir : OpenCheck.Dir) (segs : List SegInfo) (codec : Nat) (r : OpenCheck.TailRes)
    (h : OpenCheck.walOpenCheck dir segs codec = .ok r) :
    ∀ s ∈ segs, s.sealed = true → s.codec = codec ∧
      ∃ bytes, dir.lookup (OpenCheck.segName s) = some bytes ∧ (OpenCheck.segName s, bytes) ∈ dir ∧
        bytes.length ≥ fileHeaderLen ∧
        readFileHeader (bytes.take fileHeaderLen) = some { base := s.base, id := s.id, codec := s.codec } :=
  OpenCheck.open_ok_characterised dir segs codec r h

/-- the walk is total: whatever the bytes, it answers ok or an error -/
theorem open_total (dir : OpenCheck.Dir) (segs : List SegInfo) (codec : Nat) :
    (∃ r, OpenCheck.walOpenCheck dir segs codec = .ok r) ∨ (∃ e, OpenCheck.walOpenCheck dir segs codec = .error e) :=
  OpenCheck.open_total dir segs codec

end RaftWal.C11
