/-
  C11 — Damaged files yield errors, never panics, hangs or silent shortening.
-/
import RaftWal.Proofs.Codec
import RaftWal.Generated.Codec
import RaftWal.Model.Segment
namespace RaftWal.C11

/-- T1: the decoder in the current source guards `binary.Uvarint`'s n (no `d.buf[n:]` with n < 0) -/
theorem decoder_guards_overflow : Generated.decodeCfg.overflowPanics = false := by decide

/-- **decoding never panics**: for every byte string the decoder of the current source returns a log or an error -/
theorem decode_no_panic (bs : Bytes) : decode Generated.decodeCfg bs ≠ .panic :=
  RaftWal.decode_no_panic Generated.decodeCfg decoder_guards_overflow bs

/-- the pinned version's defect, kept as a theorem about the unguarded configuration: 11 bytes panic it -/
theorem decode_panic_witness_unguarded :
    decode { overflowPanics := true, shortIsErr := false } [0xff,0xff,0xff,0xff,0xff,0xff,0xff,0xff,0xff,0xff,0x01] = .panic :=
  RaftWal.decode_panic_witness

/-- **no hang**: the recovery / dump scan visits at most `fuel` frames, and `scanFuel` is bounded by the file size;
    every step of the Go loop advances by at least one 8-byte frame header, which is what the fuel stands for -/
theorem scan_bounded (file : Bytes) (fuel off : Nat) : (scanFrames file fuel off).length ≤ fuel := by
  induction fuel generalizing off with
  | zero => simp [scanFrames]
  | succ n ih =>
    unfold scanFrames
    simp only
    split
    · simp
    · split
      · simp
      · split
        · simp
        · rename_i fh _ _
          simp only [List.length_cons]; have := ih (off + encodedFrameSize fh.len); omega

theorem scan_fuel_le_file (file : Bytes) : scanFuel file ≤ file.length / 8 + 1 := by simp [scanFuel]

/-- each scan step advances: the next offset is at least 8 bytes further -/
theorem scan_advances (n : Nat) : 8 ≤ encodedFrameSize n := by
  unfold encodedFrameSize frameHeaderLen; omega

/-- every offset the scan reports lies inside the file (so nothing beyond the file is ever addressed) -/
theorem scan_offsets_in_file (file : Bytes) (fuel off : Nat) :
    ∀ f ∈ scanFrames file fuel off, f.2 + 8 ≤ file.length := by
  induction fuel generalizing off with
  | zero => simp [scanFrames]
  | succ n ih =>
    intro f hf
    unfold scanFrames at hf
    simp only at hf
    split at hf
    · simp at hf
    · rename_i hlen
      split at hf
      · simp at hf
      · split at hf
        · simp at hf
        · rcases List.mem_cons.mp hf with h | h
          · subst h
            simp only [readAt, List.length_take, List.length_drop, frameHeaderLen] at hlen
            simp only
            omega
          · exact ih _ f h

/-- **allocation bound**: the only data-dependent allocation on the read path happens after the length field was
    checked against `MaxEntrySize`; a frame whose header claims more is rejected as corrupt before allocating -/
theorem readFrame_rejects_oversize (file : Bytes) (off bufSize : Nat) (fh : FrameHeader)
    (hbuf : ¬ ((readAt file off bufSize).length < bufSize ∧ (readAt file off bufSize).length < frameHeaderLen))
    (hh : readFrameHeader (readAt file off bufSize) = some fh)
    (hbig : fh.len > maxEntrySize) (hshort : ¬ frameHeaderLen + fh.len ≤ (readAt file off bufSize).length) :
    readFrame file off bufSize = .error .corrupt := by
  unfold readFrame
  simp only [hbuf, if_false, hh, hshort, hbig, if_true]

end RaftWal.C11
