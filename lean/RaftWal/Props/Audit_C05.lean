import RaftWal.Props.C05
#print axioms RaftWal.C05.newSegment_records_codec
#print axioms RaftWal.C05.wal_refines_spec
#print axioms RaftWal.C05.init_succeeds
#print axioms RaftWal.C05.spec_delete_middle_rejected
#print axioms RaftWal.C05.spec_delete_empty_range
#print axioms RaftWal.C05.spec_delete_disjoint
#print axioms RaftWal.C05.spec_store_rejected_unchanged
#print axioms RaftWal.C05.spec_empty_accepts_any_start
#print axioms RaftWal.C05.crash_spec_store_is_reference
#print axioms RaftWal.C05.crash_spec_delHead_is_reference
#print axioms RaftWal.C05.crash_spec_delTail_is_reference
#print axioms RaftWal.C05.deleteRange_classification_from_source
#print axioms RaftWal.C05.truncation_scans_from_source
#print axioms RaftWal.C05.storeLogs_guards_from_source
#print axioms RaftWal.C05.writers_wait_for_queued_rotation
