/-
  C10 — I/O errors never cost acknowledged data.
  (byte level: rollback of the writer; the WAL level — every VFS/MetaStore call as the failing one, further
  acknowledged appends, reopen — is carried by the fault suite's ghost-state monitors on the real code)
-/
import RaftWal.Proofs.SegmentChainRepair
import RaftWal.Generated.SegWriter
import RaftWal.Proofs.SegmentChainFault
import RaftWal.Proofs.SegmentFaults
import RaftWal.Proofs.CrashCorollaries
import RaftWal.Proofs.FaultProps
namespace RaftWal.C10
open RaftWal

/-- a failed `Append` (write error after any prefix landed, or fsync error) leaves the in-memory writer exactly
    as it was — offsets, commit index, write offset, CRC, buffer — so nothing of the failed batch is visible to
    readers of the running process, and it reports an error -/
theorem failed_append_invisible (w : Writer) (file : Bytes) (es : List (Nat × Bytes)) (f : IoFault) (hf : f ≠ .none)
    (hne : es.isEmpty = false) :
    (w.append file es f).2.1 = w ∧ (w.indexStart = 0 → (w.append file es f).1.isSome) :=
  append_fault_rollback w file es f hf hne

/-- a failed `ForceSeal` leaves the writer as it was (not marked sealed) -/
theorem failed_forceSeal_rolled_back (w : Writer) (file : Bytes) (f : IoFault) (e : SegErr)
    (h : (w.forceSeal file f).1 = .error e) : (w.forceSeal file f).2.1 = w :=
  forceSeal_fault_rollback w file f e h

/-! ## WAL level (Model/Crash.lean), PARTIAL: a failing call followed by a restart.
    An I/O error that stops a call after k of its actions leaves on disk exactly what a process crash at that point
    leaves (the in-memory roll-back is the byte-level theorem above). What is NOT covered by a theorem — and is decided on
    the real code by the fault suite — is what further successful calls do on top of such a state before the restart
    (the next append overwrites the rolled-back batch), and clause (b) at the WAL level. -/

/-- **clause (c) and (a) for an immediate restart**: whatever action the call fails at, the log every recovery comes back
    with is the log before the call or the log after it in full, entries the call does not delete are all there, and the
    recovered state is one from which every legal call behaves as specified -/
theorem failed_call_then_restart_partial (d : Crash.Disk) (hq : Crash.QuiescentS d) (op : Crash.Op) (hok : op.ok d)
    (k : Nat) (d1 d' : Crash.Disk) (hr : Crash.ReachRec (Crash.crashAfter d (Crash.prog d op) k .proc) d1)
    (ho : Crash.openResult d1 = some d') :
    Crash.QuiescentS d' ∧
    (Crash.absLog d' = Crash.absLog d ∨ Crash.absLog d' = Crash.specApply (Crash.absLog d) op) ∧
    (∀ p ∈ Crash.absLog d, op.removes p.1 = false → p ∈ Crash.absLog d') :=
  ⟨(Crash.crash_safe_corrected d hq op hok k .proc d1 d' hr ho).1,
   (Crash.crash_safe_corrected d hq op hok k .proc d1 d' hr ho).2.1,
   fun p hp hnr => Crash.entries_survive d hq op hok k .proc d1 d' hr ho p hp hnr⟩

/-! ## WAL level, whole histories (Model/Fault.lean): any sequence of calls, each under any fault plan — any number of its
    I/O actions failing (a write leaving nothing, part or all of its batch; an fsync; a create; a meta commit; a stable set;
    deletes; the background rotation's actions included), the calls that follow running on top of what the failed ones left.
    `Epoch p0 h p`: from the state `p0` an Open left, the calls of history `h` (each with its result) lead to `p`.
    The tie of `Model.Fault` to the code is the `faultmodel` suite: every call and every action of it failed in turn on the
    real WAL, result / readers' log / recovered log compared with the model, the invariant evaluated on every state. -/

/-- **(a) and (b) in the running process**: whatever failed, readers see exactly the calls that returned nil — no
    acknowledged entry is missing or altered, nothing of a failed call is visible -/
theorem readers_see_exactly_the_acknowledged_calls (p0 p : Fault.Proc) (h : Fault.Hist) (hf : Fault.Fresh p0)
    (he : Fault.Epoch p0 h p) : Fault.view p = Fault.replay (Fault.view p0) h :=
  Fault.epoch_view p0 h p hf he

/-- **(a) and (c) after a clean restart**: Open succeeds and leaves a state from which the same theorems apply again; the
    log it recovers is the history with every call that returned nil applied and each call that returned an error applied in
    full or not at all -/
theorem restart_applies_failed_calls_in_full_or_not_at_all (p0 p : Fault.Proc) (h : Fault.Hist) (hf : Fault.Fresh p0)
    (he : Fault.Epoch p0 h p) :
    ∃ p', Fault.restart p = some p' ∧ Fault.Fresh p' ∧
      ∃ c, Fault.Resolves h c ∧ Fault.view p' = Fault.replay (Fault.view p0) c :=
  Fault.epoch_restart p0 h p hf he

/-- one call: the readers' log changes exactly when the call returns nil, and then as specified -/
theorem failed_call_invisible_successful_call_applied (p : Fault.Proc) (hi : Fault.FInv p) (op : Crash.Op)
    (hok : Fault.OkV (Fault.view p) op) (pl : Fault.Plan) :
    Fault.view (Fault.runOp p op pl).1 =
      if (Fault.runOp p op pl).2 then Crash.specApply (Fault.view p) op else Fault.view p :=
  Fault.call_view p hi op hok pl

/-- the invariant the above rest on holds in every state of every history (it is executable: the correspondence
    harness evaluates it on every state the model reaches while shadowing the real code) -/
theorem fault_invariant_always (p0 p : Fault.Proc) (h : Fault.Hist) (hf : Fault.Fresh p0) (he : Fault.Epoch p0 h p) :
    Fault.FInvS p :=
  Fault.epoch_inv p0 h p hf he

/-- the process Open leaves on an empty directory is a legitimate start (non-vacuity), and a restart always leaves one -/
theorem fault_model_starts : ∃ p, Fault.init = some p ∧ Fault.Fresh p ∧ Fault.view p = [] := Fault.init_fresh

/-- without a fault the fault model is the crash model: same actions, the call returns nil -/
theorem fault_model_extends_crash_model (p : Fault.Proc) (hf : Fault.Fresh p) (op : Crash.Op) (hok : op.ok p.disk)
    (pl : Fault.Plan) (hpl : pl.all (·.isNone) = true) :
    (Fault.runOp p op pl).1.disk = p.disk.applyAll (Crash.prog p.disk op) ∧ (Fault.runOp p op pl).2 = true ∧
    (Fault.runOp p op pl).1.frozen = none :=
  Fault.no_fault_agrees p hf op hok pl hpl

/-- the restart theorems as first stated (for the weaker invariant) are false: kept with their refutations -/
theorem restart_needs_the_stronger_invariant : ¬ Fault.restart_total_stmt0 ∧ ¬ Fault.restart_view_stmt0 :=
  ⟨Fault.restart_total_refuted, Fault.restart_view_refuted⟩

/-! ### chains with I/O faults: failed appends, whose bytes stay behind the tail (defect O21: found here, since repaired in /repo)

    `ChainEvF` adds `failed b fault` to the chain events: an append that fails on an injected write or fsync fault — the
    call returns an error, the writer is rolled back in memory, the file keeps what landed. `chain_atomic_faults_stmt` says
    of such chains what `chain_atomic` says of fault-free ones (every acknowledged batch present, anything else present is
    one whole submitted batch — the pending failed one included, as C10 allows —, nothing partial, nothing fabricated,
    modulo CRC-32C collisions). For the writer as it was pinned (`Writer.append`: rollback in memory only) it is FALSE, and it was false
    of the code; the repaired writer is `appendD` / `forceSealD` (Model/SegmentRepair.lean), which is what the segment suite now
    compares the code with: -/

/-- the witness, evaluated by the kernel: an acknowledged append, an append whose fsync fails and whose single payload
    embeds an entry frame `[42]` and a commit frame with that frame's CRC-32C, a shorter acknowledged append, a restart —
    three entries are recovered and index 7 reads `[42]`, which nobody stored. No CRC collision is involved. The same
    input is run on the real code by the segment suite on every run (`seg-staleinject-*`: since the repair it must come back with
    the two acknowledged entries only). -/
theorem failed_append_stale_bytes_fabricate_an_entry : type_of% RaftWal.faultW3_outcome :=
  -- the statement (Proofs/SegmentChainFault.lean): `chainRunF faultInfo (freshSegment faultInfo) faultW3` is `.ok p` with
  -- `p.1.offsets.length = 3` and `p.1.getLog p.2 7 64 = .ok [42]`
  RaftWal.faultW3_outcome

theorem chain_atomic_with_faults_refuted : ¬ chain_atomic_faults_stmt := RaftWal.chain_atomic_faults_false

/-- what does hold (**partial**: fsync faults only, each failed append followed directly by a restart; `.write n` faults
    and appends over the stale bytes of a failed one are exactly where the refutation lives): such a chain behaves as the
    fault-free chain in which the failed batch was appended, and ends with a clean region behind the tail -/
theorem chain_atomic_faults_partial (info : SegInfo) (evs : List ChainEvF) (l : List ChainEv)
    (hp : plainOf evs = some l) (hwf : ChainWFF info evs) :
    ChainCollision info l
    ∨ ∃ w file bs, FaultResult info evs w file bs ∧ ChainResult info l w file bs
        ∧ (∀ x ∈ file.drop w.writeOffset, x = 0) :=
  RaftWal.chain_atomic_faults_partial info evs l hp hwf

/-! ### the repair of O21: designed and proved on the model first, then made in /repo (fix 2e58a17); tied to the code by the fact
    `writer_clears_stale_tail_before_write` and by the segment suite, whose model side now runs `appendD` / `forceSealD`

    `Model/SegmentRepair.lean`: the writer with a `dirty` flag (`WriterD`); `appendD` first zeroes and fsyncs what a failed
    append left behind the tail (`clearStale`; the step can itself be hit by the fault: fsync fails after the zeros were
    written, or only a prefix of the zeroing write lands), refuses the append if that fails, then appends as today. -/

/-- with the repair, the three witnesses of O21 no longer fabricate or half-apply anything (kernel-evaluated) -/
theorem repaired_witnesses : type_of% RaftWal.faultW3_repaired ∧ type_of% RaftWal.faultW1_repaired ∧ type_of% RaftWal.faultW2_repaired :=
  ⟨RaftWal.faultW3_repaired, RaftWal.faultW1_repaired, RaftWal.faultW2_repaired⟩

/-- **partial** (failed appends that fail on their fsync, any number, anywhere in the chain, several in a row): for the
    repaired writer the statement that O21 refutes holds — every acknowledged batch present and readable, anything else
    present is one whole submitted batch, nothing partial, nothing fabricated, zeros behind the tail whenever the flag is
    clear — or an explicit CRC-32C collision of a torn image. Missing: `.write n` faults (the ghost specification has to
    admit an earlier failed batch when a later failed append never got past the clearing step: `repairW4_no_result`). -/
theorem chain_atomic_repaired_sync (info : SegInfo) (evs : List ChainEvF) (hwf : ChainWFF info evs) (hsync : SyncOnly evs) :
    ChainCollisionD info evs ∨ ∃ s file bs, RepairResult info evs s file bs :=
  RaftWal.chain_atomic_repaired_sync info evs hwf hsync

/-- T1: `Writer.sync` clears what a failed write left behind the tail before the next write, and refuses the write if it
    cannot (read from segment/writer.go on every run) -/
theorem writer_clears_stale_tail_before_write : Generated.writerClearsStaleTailBeforeWrite = true := by decide

end RaftWal.C10
