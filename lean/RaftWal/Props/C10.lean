/-
  C10 — I/O errors never cost acknowledged data.
  (byte level: rollback of the writer; the WAL level — every VFS/MetaStore call as the failing one, further
  acknowledged appends, reopen — is carried by the fault suite's ghost-state monitors on the real code)
-/
import RaftWal.Proofs.SegmentFaults
import RaftWal.Proofs.CrashCorollaries
namespace RaftWal.C10
open RaftWal

/-- a failed `Append` (write error after any prefix landed, or fsync error) leaves the in-memory writer exactly
    as it was — offsets, commit index, write offset, CRC, buffer — so nothing of the failed batch is visible to
    readers of the running process, and it reports an error -/
theorem failed_append_invisible (w : Writer) (file : Bytes) (es : List (Nat × Bytes)) (f : IoFault) (hf : f ≠ .none)
    (hne : es.isEmpty = false) :
    (w.append file es f).2.1 = w ∧ (w.indexStart = 0 → (w.append file es f).1.isSome) :=
  append_fault_rollback w file es f hf hne

/-- a failed `ForceSeal` leaves the writer as it was (not marked sealed) -/
theorem failed_forceSeal_rolled_back (w : Writer) (file : Bytes) (f : IoFault) (e : SegErr)
    (h : (w.forceSeal file f).1 = .error e) : (w.forceSeal file f).2.1 = w :=
  forceSeal_fault_rollback w file f e h

/-! ## WAL level (Model/Crash.lean), PARTIAL: a failing call followed by a restart.
    An I/O error that stops a call after k of its actions leaves on disk exactly what a process crash at that point
    leaves (the in-memory roll-back is the byte-level theorem above). What is NOT covered by a theorem — and is decided on
    the real code by the fault suite — is what further successful calls do on top of such a state before the restart
    (the next append overwrites the rolled-back batch), and clause (b) at the WAL level. -/

/-- **clause (c) and (a) for an immediate restart**: whatever action the call fails at, the log every recovery comes back
    with is the log before the call or the log after it in full, entries the call does not delete are all there, and the
    recovered state is one from which every legal call behaves as specified -/
theorem failed_call_then_restart_partial (d : Crash.Disk) (hq : Crash.QuiescentS d) (op : Crash.Op) (hok : op.ok d)
    (k : Nat) (d1 d' : Crash.Disk) (hr : Crash.ReachRec (Crash.crashAfter d (Crash.prog d op) k .proc) d1)
    (ho : Crash.openResult d1 = some d') :
    Crash.QuiescentS d' ∧
    (Crash.absLog d' = Crash.absLog d ∨ Crash.absLog d' = Crash.specApply (Crash.absLog d) op) ∧
    (∀ p ∈ Crash.absLog d, op.removes p.1 = false → p ∈ Crash.absLog d') :=
  ⟨(Crash.crash_safe_corrected d hq op hok k .proc d1 d' hr ho).1,
   (Crash.crash_safe_corrected d hq op hok k .proc d1 d' hr ho).2.1,
   fun p hp hnr => Crash.entries_survive d hq op hok k .proc d1 d' hr ho p hp hnr⟩

end RaftWal.C10
