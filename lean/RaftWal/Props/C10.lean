/-
  C10 — I/O errors never cost acknowledged data.
  (byte level: rollback of the writer; the WAL level — every VFS/MetaStore call as the failing one, further
  acknowledged appends, reopen — is carried by the fault suite's ghost-state monitors on the real code)
-/
import RaftWal.Proofs.SegmentFaults
namespace RaftWal.C10
open RaftWal

/-- a failed `Append` (write error after any prefix landed, or fsync error) leaves the in-memory writer exactly
    as it was — offsets, commit index, write offset, CRC, buffer — so nothing of the failed batch is visible to
    readers of the running process, and it reports an error -/
theorem failed_append_invisible (w : Writer) (file : Bytes) (es : List (Nat × Bytes)) (f : IoFault) (hf : f ≠ .none)
    (hne : es.isEmpty = false) :
    (w.append file es f).2.1 = w ∧ (w.indexStart = 0 → (w.append file es f).1.isSome) :=
  append_fault_rollback w file es f hf hne

/-- a failed `ForceSeal` leaves the writer as it was (not marked sealed) -/
theorem failed_forceSeal_rolled_back (w : Writer) (file : Bytes) (f : IoFault) (e : SegErr)
    (h : (w.forceSeal file f).1 = .error e) : (w.forceSeal file f).2.1 = w :=
  forceSeal_fault_rollback w file f e h

end RaftWal.C10
