/-
  C03 — Recovery always restores a fully usable, writable WAL.
-/
import RaftWal.Proofs.SegmentTorn
import RaftWal.Proofs.SegmentChainCor
import RaftWal.Proofs.WalRefine
import RaftWal.Proofs.CrashCorollaries
namespace RaftWal.C03
open RaftWal

/-- **recovery never fails along a chain, and what it leaves takes the next append** (byte level, any number of
    tear / recover / restart / append cycles — `ChainEv`, Props/C02): the chain followed by one more acknowledged append
    runs without error and the file then holds that batch too; the alternative is an explicit CRC-32C collision -/
theorem recovery_total_and_writable_any_chain (info : SegInfo) (evs : List ChainEv) (b : List Bytes)
    (hwf : ChainWF info (evs ++ [.append b])) :
    ChainCollision info (evs ++ [.append b]) ∨
      ∃ w file bs, chainRun info (freshSegment info) (evs ++ [.append b]) = .ok (w, file) ∧ b ∈ bs
        ∧ ChainResult info (evs ++ [.append b]) w file bs :=
  RaftWal.chain_recovery_total info evs b hwf

/-- **tail recovery is total on crash images**: for every torn in-flight append after at least one acknowledged
    batch, `recoverTail` returns a writer (never an error) -/
theorem recover_total_on_torn (info : SegInfo) (bs : List (List Bytes)) (b : List Bytes) (hne : bs ≠ [])
    (hwf : RunWF info (bs ++ [b])) (w : Writer) (file : Bytes)
    (hrun : (freshSegment info).1.appendAll (freshSegment info).2 info.base bs = some (w, file))
    (w' : Writer) (file' : Bytes)
    (happ : w.append file (indexBatch (info.base + bs.flatten.length) b) .none = (none, w', file'))
    (mask : Nat → Bool) :
    ∃ wr img', recoverTail info (tearImage file file' w.writeOffset (w'.writeOffset - w.writeOffset) mask) = .ok (wr, img') := by
  obtain ⟨wr, img', h, _⟩ := recover_torn_atomic_partial info bs b hne hwf w file hrun w' file' happ mask
  exact ⟨wr, img', h⟩

/-- **a recovered tail is only sealed by a committed index frame**: the writer recovery returns reports the
    segment sealed only with the `indexStart` recorded by the commit it accepted; a file without any valid commit
    recovers as an unsealed, empty writer -/
theorem recovered_empty_not_sealed (info : SegInfo) (file : Bytes) (w : Writer) (file' : Bytes)
    (h : recoverTail info file = .ok (w, file'))
    (hnone : ((readThroughSegment file).2.foldl recStep {}).commits.find? (commitValid file) = none) :
    w.indexStart = 0 ∧ w.offsets = [] ∧ w.writeOffset = 0 := by
  unfold recoverTail at h
  simp only [hnone] at h
  simp only [Except.ok.injEq, Prod.mk.injEq] at h
  obtain ⟨hw, _⟩ := h
  subst hw
  simp [Writer.initEmpty, Writer.fresh]

/-- after a clean restart the sequential model stays a refinement of the reference log (so StoreLogs at
    LastIndex+1, DeleteRange and further reopen cycles behave): `reopen` is one of the operations of C05's theorem -/
theorem usable_after_reopen (cfg : WalCfg) (hcfg : cfg.newSegCodec = cfg.codecId) (w0 : Wal)
    (h0 : Wal.init cfg = some w0) (ops : List Op) (hops : ∀ op ∈ ops, op.inRange) (more : List Op)
    (hmore : ∀ op ∈ more, op.inRange) :
    w0.run (ops ++ [.reopen] ++ more) = ({ first := 0, entries := [] } : Spec.SLog).run (ops ++ [.reopen] ++ more) := by
  apply wal_refines_spec cfg hcfg w0 h0
  intro op hop
  simp only [List.mem_append, List.mem_singleton] at hop
  rcases hop with (h | h) | h
  · exact hops op h
  · subst h; trivial
  · exact hmore op h

/-! ## WAL level: the durability protocol (Model/Crash.lean — meta commits, file creation, rotation, truncation, Open,
    tied to wal.go by the crash suite's action-by-action and image-by-image correspondence).  `Crash.QuiescentS` is
    the invariant of a live process between calls; it holds after Open on an empty directory, after every completed
    call and after every recovery (`Crash.init_quiescentS`, `Crash.call_refines_corrected`, `Crash.crash_safe_corrected`). -/

/-- **recovery always terminates in a usable log**: from the image of any crash inside any call, after any number of
    recoveries cut short by further crashes, Open succeeds, and the state it leaves accepts every legal call with the
    specified effect (and is covered again by the crash theorems) -/
theorem recovery_usable_any_crash (d : Crash.Disk) (hq : Crash.QuiescentS d) (op : Crash.Op) (hok : op.ok d) (k : Nat)
    (c : Crash.CrashKind) (d1 : Crash.Disk) (hr : Crash.ReachRec (Crash.crashAfter d (Crash.prog d op) k c) d1) :
    ∃ d', Crash.openResult d1 = some d' ∧ Crash.QuiescentS d' ∧
      ∀ op', op'.ok d' → Crash.QuiescentS (d'.applyAll (Crash.prog d' op')) ∧
        Crash.absLog (d'.applyAll (Crash.prog d' op')) = Crash.specApply (Crash.absLog d') op' :=
  Crash.recovery_usable d hq op hok k c d1 hr

/-- the invariant the theorem needs is not vacuous: without it Open can fail (a state the executable invariant
    `quiescentB` alone admits, found by the prover; no run reaches it) -/
theorem open_can_fail_outside_invariant : ¬ Crash.open_never_fails_stmt := Crash.open_never_fails_refuted

end RaftWal.C03
