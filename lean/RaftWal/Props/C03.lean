/-
  C03 — Recovery always restores a fully usable, writable WAL.
-/
import RaftWal.Proofs.SegmentTorn
import RaftWal.Proofs.WalRefine
namespace RaftWal.C03
open RaftWal

/-- **tail recovery is total on crash images**: for every torn in-flight append after at least one acknowledged
    batch, `recoverTail` returns a writer (never an error) -/
theorem recover_total_on_torn (info : SegInfo) (bs : List (List Bytes)) (b : List Bytes) (hne : bs ≠ [])
    (hwf : RunWF info (bs ++ [b])) (w : Writer) (file : Bytes)
    (hrun : (freshSegment info).1.appendAll (freshSegment info).2 info.base bs = some (w, file))
    (w' : Writer) (file' : Bytes)
    (happ : w.append file (indexBatch (info.base + bs.flatten.length) b) .none = (none, w', file'))
    (mask : Nat → Bool) :
    ∃ wr img', recoverTail info (tearImage file file' w.writeOffset (w'.writeOffset - w.writeOffset) mask) = .ok (wr, img') := by
  obtain ⟨wr, img', h, _⟩ := recover_torn_atomic_partial info bs b hne hwf w file hrun w' file' happ mask
  exact ⟨wr, img', h⟩

/-- **a recovered tail is only sealed by a committed index frame**: the writer recovery returns reports the
    segment sealed only with the `indexStart` recorded by the commit it accepted; a file without any valid commit
    recovers as an unsealed, empty writer -/
theorem recovered_empty_not_sealed (info : SegInfo) (file : Bytes) (w : Writer) (file' : Bytes)
    (h : recoverTail info file = .ok (w, file'))
    (hnone : ((readThroughSegment file).2.foldl recStep {}).commits.find? (commitValid file) = none) :
    w.indexStart = 0 ∧ w.offsets = [] ∧ w.writeOffset = 0 := by
  unfold recoverTail at h
  simp only [hnone] at h
  simp only [Except.ok.injEq, Prod.mk.injEq] at h
  obtain ⟨hw, _⟩ := h
  subst hw
  simp [Writer.initEmpty, Writer.fresh]

/-- after a clean restart the sequential model stays a refinement of the reference log (so StoreLogs at
    LastIndex+1, DeleteRange and further reopen cycles behave): `reopen` is one of the operations of C05's theorem -/
theorem usable_after_reopen (cfg : WalCfg) (hcfg : cfg.newSegCodec = cfg.codecId) (w0 : Wal)
    (h0 : Wal.init cfg = some w0) (ops : List Op) (hops : ∀ op ∈ ops, op.inRange) (more : List Op)
    (hmore : ∀ op ∈ more, op.inRange) :
    w0.run (ops ++ [.reopen] ++ more) = ({ first := 0, entries := [] } : Spec.SLog).run (ops ++ [.reopen] ++ more) := by
  apply wal_refines_spec cfg hcfg w0 h0
  intro op hop
  simp only [List.mem_append, List.mem_singleton] at hop
  rcases hop with (h | h) | h
  · exact hops op h
  · subst h; trivial
  · exact hmore op h

end RaftWal.C03
