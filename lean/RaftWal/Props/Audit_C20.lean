import RaftWal.Props.C20
#print axioms RaftWal.C20.emitted_subset_declared
#print axioms RaftWal.C20.definitions_nodup
#print axioms RaftWal.C20.declared_are_emitted
#print axioms RaftWal.C20.wal_sites_as_modelled
#print axioms RaftWal.C20.verifier_sites_as_modelled
#print axioms RaftWal.C20.counters_exact
#print axioms RaftWal.C20.counters_exact_mod
