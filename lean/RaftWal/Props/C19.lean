/-
  C19 — Migration copies the log and stable keys faithfully.
-/
import RaftWal.Proofs.MigrateProps
import RaftWal.Generated.Migrate
namespace RaftWal.C19
open RaftWal RaftWal.Migrate

/-- T1: the current source has the empty-source guard and copies exactly raft's standard keys -/
theorem source_facts : Generated.copyLogsEmptyGuard = true ∧
    Generated.knownIntKeys = ["CurrentTerm", "LastVoteTerm"] ∧ Generated.knownKeys = ["LastVoteCand"] := by decide

/-- **copyLogs_exact**: for every source log (any first index, any length including 0, any entry sizes) and every
    batchBytes (0 and negative included), CopyLogs succeeds, the destination holds exactly the source's entries
    with the same FirstIndex and LastIndex, and the batches it was handed are non-empty and concatenate to the
    source -/
theorem copyLogs_exact (src : Src) (hwf : SrcWF src) (batchBytes : Int) :
    let out := copyLogs { emptyGuard := Generated.copyLogsEmptyGuard } src emptyDst batchBytes none
    out.res = .ok ∧ out.dst.entries = src.entries ∧ (src.entries ≠ [] → out.dst.first = src.first) ∧
    out.dst.firstIndex = src.firstIndex ∧ out.dst.lastIndex = src.last ∧
    out.batches.flatten = src.entries ∧ (∀ b ∈ out.batches, b ≠ []) := by
  have e : Generated.copyLogsEmptyGuard = true := source_facts.1
  rw [e]
  exact Migrate.copyLogs_exact src hwf batchBytes

/-- the pinned version's defect, as a theorem about the unguarded loop: an empty source fails -/
theorem empty_source_fails_unguarded (batchBytes : Int) :
    (copyLogs { emptyGuard := false } { first := 0, entries := [] } emptyDst batchBytes none).res = .otherErr :=
  copyLogs_empty_source_unguarded batchBytes

/-- **cancellation**: cancelled at iteration k, the destination holds a prefix of the source and the result is the
    context's error whenever the loop reaches iteration k -/
theorem copyLogs_cancel_prefix (src : Src) (hwf : SrcWF src) (batchBytes : Int) (k : Nat) :
    let out := copyLogs { emptyGuard := Generated.copyLogsEmptyGuard } src emptyDst batchBytes (some k)
    (∃ rest, out.dst.entries ++ rest = src.entries) ∧
    (k < src.entries.length → out.res = .ctxErr) ∧
    (src.entries.length ≤ k → out.res = .ok ∧ out.dst.entries = src.entries) := by
  have e : Generated.copyLogsEmptyGuard = true := source_facts.1
  rw [e]
  exact Migrate.copyLogs_cancel_prefix src hwf batchBytes k

/-- **copyStable**: every requested key that is readable on the source ends up on the destination with the
    source's answer -/
theorem copyStable_copies (knownInt known extraKeys extraIntKeys : List Bytes) (src dst : Stable)
    (hint : ∀ k ∈ knownInt ++ extraIntKeys, (src.getU k).isSome)
    (hkv : ∀ k ∈ known ++ extraKeys, (src.get k).isSome) :
    let (r, dst') := copyStable knownInt known src dst extraKeys extraIntKeys none
    r = .ok ∧ (∀ k ∈ knownInt ++ extraIntKeys, dst'.ints.find? (·.1 = k) = (src.getU k).map (fun v => (k, v))) ∧
    (∀ k ∈ known ++ extraKeys, dst'.kvs.find? (·.1 = k) = (src.get k).map (fun v => (k, v))) :=
  Migrate.copyStable_copies knownInt known extraKeys extraIntKeys src dst hint hkv

theorem copyStable_cancel (knownInt known extraKeys extraIntKeys : List Bytes) (src dst : Stable) (k : Nat)
    (hint : ∀ k ∈ knownInt ++ extraIntKeys, (src.getU k).isSome)
    (hkv : ∀ k ∈ known ++ extraKeys, (src.get k).isSome)
    (hk : k < (knownInt ++ extraIntKeys).length + (known ++ extraKeys).length) :
    (copyStable knownInt known src dst extraKeys extraIntKeys (some k)).1 = .ctxErr :=
  Migrate.copyStable_cancel knownInt known extraKeys extraIntKeys src dst k hint hkv hk

-- non-vacuity: a two-entry source starting at index 7 is well formed
example : SrcWF { first := 7, entries := [{ index := 7, term := 1, typ := 0, data := [], ext := [], time := some WTime.zero },
                                          { index := 8, term := 1, typ := 0, data := [1], ext := [], time := some WTime.zero }] } :=
  ⟨by intro _; decide, by intro k h; match k, h with | 0, _ => rfl | 1, _ => rfl, by intro l hl; simp at hl; rcases hl with h | h <;> subst h <;> rfl⟩

end RaftWal.C19
