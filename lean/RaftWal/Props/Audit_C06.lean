import RaftWal.Props.C06
#print axioms RaftWal.C06.reader_ignores_lock
#print axioms RaftWal.C06.current_files_open
#print axioms RaftWal.C06.error_only_if_removed
#print axioms RaftWal.C06.intact_if_stays
#print axioms RaftWal.C06.refcount_exact
#print axioms RaftWal.C06.no_double_close
#print axioms RaftWal.C06.visible_only_after_sync
#print axioms RaftWal.C06.reads_gated_on_commit_index
#print axioms RaftWal.C06.finalizer_attached_after_publish
#print axioms RaftWal.C06.writers_wait_for_queued_rotation
#print axioms RaftWal.C06.every_acquire_is_released_once
#print axioms RaftWal.C06.refcount_only_through_acquire_release
