/-
  Proofs/SegmentChainRec.lean — byte-level crash chains WITH power losses inside tail recovery itself
  (L1, properties C01/C02: "crashes inside recovery, nested to depth > 1").

  Proofs/SegmentChain.lean treats `recoverTail` as one atomic step.  The code (segment/writer.go, `recoverTail` →
  `clearStaleTail`) zeroes the stale bytes behind the recovered tail with a write followed by an fsync; a power loss
  during that write leaves the stale region PARTLY zeroed — any subset of its 8-byte chunks — and the next Open runs
  recovery again on that image; that recovery may be cut as well, and so on.  This file adds the event to the chain
  semantics (`ChainEv2`, generalised to ANY NUMBER of cut recoveries in a row: the events carry a LIST of chunk
  masks, one per cut recovery; `[zmask]` is the single cut of the task statement, `[]` makes `tornRestart` a
  `restart` and `tornThenTornRestart b mask` a `torn b mask`).

  RESULT (`chain_atomic_rec`, `chain_atomic_rec_gen`): the statement of `chain_atomic` / `chain_atomic_gen` holds
  verbatim for `ChainEv2` chains, the CRC-32C residual extended to the images the cut recoveries leave
  (`CutCollision`: the batch region of the torn-append image OR of one of the torn-recovery images recovery was run
  on differs from the intended one and has the same CRC-32C).

  Why it is cheap (Proofs/SegmentChainRecLemmas.lean):
    * `tearImage_tear`: the torn image of `b` with chunk mask `m`, recovered as "batch absent" with the zeroing torn
      by `z`, IS the torn image of `b` with mask `fun j => m j && !z j` — the zeroing starts at the write offset the
      append started at and restores the bytes that were there before the append (zeros, `Inv.zeros`) — so
      `chain_torn_cases` applies to it again;
    * `tearImage_self`: when recovery accepted the batch, or the file was not torn, nothing non-zero is behind the
      tail, the zeroing rewrites nothing and every tear of it is the image itself.
  Sharper (`recCut_torn_same`, `chainStep2_cut_same`): short of a CRC-32C collision the completed recovery returns
  exactly what the first, cut, recovery would have returned — a partly zeroed stale region never makes a later
  recovery accept a batch an earlier one rejected, and never resurrects part of it.  NO FINDING against the code.

  Not modelled: I/O errors (C10), the WAL level (Model/Crash.lean).
-/
import RaftWal.Proofs.SegmentChain
import RaftWal.Proofs.SegmentChainRecLemmas
namespace RaftWal
open Spec (Acc Batch addEntry addBatch)

/-! ## event semantics -/

/-- one step of the life of a tail segment, power losses inside recovery included -/
inductive ChainEv2
  /-- acknowledged append of the (non-empty) batch `b` -/
  | append  (b : List Bytes)
  /-- process restart: `recoverTail` runs on the file as it is, to completion -/
  | restart
  /-- append of `b` in flight, power loss with chunk `j` of the written range on disk iff `mask j`, then
      `recoverTail` to completion -/
  | torn    (b : List Bytes) (mask : Nat → Bool)
  /-- recovery runs and its zeroing write is torn by a power loss (chunk `j` of the range `clearStale` rewrites is
      zeroed iff `zmask j`), once for every `zmask` of the list, each time on the image the previous crash left;
      then recovery runs to completion -/
  | tornRestart (zmasks : List (Nat → Bool))
  /-- append of `b` torn by `mask`; the recoveries that follow are cut while zeroing, one per element of `zmasks`
      (nested: each runs on the image the previous crash left); then recovery runs to completion -/
  | tornThenTornRestart (b : List Bytes) (mask : Nat → Bool) (zmasks : List (Nat → Bool))

/-- forget the cuts of recovery: the `ChainEv` with the same ghost outcomes and the same submitted batch -/
def ChainEv2.erase : ChainEv2 → ChainEv
  | .append b => .append b
  | .restart => .restart
  | .torn b mask => .torn b mask
  | .tornRestart _ => .restart
  | .tornThenTornRestart b mask _ => .torn b mask

/-- `append`, `restart`, `torn` as in `chainStep`; a cut recovery of image `img` (`recCut`, SegmentChainRecLemmas):
    if `recoverTail info img = .ok (w, img')` the crash image is
    `tornRecoveryImage img img' w.writeOffset zmask = tearImage img img' w.writeOffset (img'.length - w.writeOffset) zmask`
    and recovery runs again on it; if `recoverTail info img` is an error the event yields that error. -/
def chainStep2 (info : SegInfo) (s : Writer × Bytes) : ChainEv2 → Except SegErr (Writer × Bytes)
  | .append b => chainStep info s (.append b)
  | .restart => chainStep info s .restart
  | .torn b mask => chainStep info s (.torn b mask)
  | .tornRestart zmasks => recCut info s.2 zmasks
  | .tornThenTornRestart b mask zmasks =>
    match s.1.append s.2 (indexBatch (chainNext info s.1) b) .none with
    | (some e, _, _) => .error e
    | (none, w', file') =>
      recCut info (tearImage s.2 file' s.1.writeOffset (w'.writeOffset - s.1.writeOffset) mask) zmasks

def chainRun2 (info : SegInfo) (s : Writer × Bytes) : List ChainEv2 → Except SegErr (Writer × Bytes)
  | [] => .ok s
  | e :: evs =>
    match chainStep2 info s e with
    | .error err => .error err
    | .ok s' => chainRun2 info s' evs

/-! ## ghost outcome -/

/-- the batches the file may hold after the events: as `chainSpec`; `tornRestart` contributes nothing,
    `tornThenTornRestart b ..` contributes `b` or nothing -/
def chainSpec2 : List ChainEv2 → List (List Bytes) → Prop
  | [], bs => bs = []
  | .append b :: evs, bs => ∃ bs', bs = b :: bs' ∧ chainSpec2 evs bs'
  | .restart :: evs, bs => chainSpec2 evs bs
  | .torn b _ :: evs, bs => chainSpec2 evs bs ∨ ∃ bs', bs = b :: bs' ∧ chainSpec2 evs bs'
  | .tornRestart _ :: evs, bs => chainSpec2 evs bs
  | .tornThenTornRestart b _ _ :: evs, bs => chainSpec2 evs bs ∨ ∃ bs', bs = b :: bs' ∧ chainSpec2 evs bs'

/-! ## side conditions -/

def ChainEv2.batches : ChainEv2 → List (List Bytes)
  | .append b => [b]
  | .restart => []
  | .torn b _ => [b]
  | .tornRestart _ => []
  | .tornThenTornRestart b _ _ => [b]

/-- all batches submitted along the chain (acknowledged or torn), in order -/
def chainBatches2 (evs : List ChainEv2) : List (List Bytes) := evs.flatMap ChainEv2.batches

/-- `ChainSizes` for `ChainEv2` chains -/
structure ChainSizes2 (info : SegInfo) (evs : List ChainEv2) : Prop where
  nonempty   : ∀ b ∈ chainBatches2 evs, b ≠ []
  payload_le : ∀ b ∈ chainBatches2 evs, ∀ p ∈ b, p.length ≤ maxEntrySize
  base_lt    : info.base < 2^64
  id_lt      : info.id < 2^64
  codec_lt   : info.codec < 2^64
  limit_lt   : info.sizeLimit < 2^32
  size_lt    : runBytesBound (chainBatches2 evs) < 2^32

/-- `ChainWF` for `ChainEv2` chains: only the last batch event may seal -/
structure ChainWF2 (info : SegInfo) (evs : List ChainEv2) : Prop where
  nonempty   : ∀ b ∈ chainBatches2 evs, b ≠ []
  payload_le : ∀ b ∈ chainBatches2 evs, ∀ p ∈ b, p.length ≤ maxEntrySize
  base_lt    : info.base < 2^64
  id_lt      : info.id < 2^64
  codec_lt   : info.codec < 2^64
  limit_lt   : info.sizeLimit < 2^32
  size_lt    : runBytesBound (chainBatches2 evs) < 2^32
  fits       : runBytesBound (chainBatches2 evs).dropLast ≤ info.sizeLimit

/-! ## the CRC-32C residual -/

/-- the torn append of `b` (mask `mask`) from state `s` followed by recoveries cut with `zmasks` exhibits a CRC-32C
    collision: the batch region of one of the images recovery was run on — the power-loss image of the append or a
    power-loss image of one of the cut recoveries (`cutImages`) — differs from that of the complete file and has
    the same CRC-32C.  With `zmasks = []` this is `TornCollision info s b mask`. -/
def CutCollision (info : SegInfo) (s : Writer × Bytes) (b : List Bytes) (mask : Nat → Bool) (zmasks : List (Nat → Bool)) : Prop :=
  ∃ w' file', s.1.append s.2 (indexBatch (chainNext info s.1) b) .none = (none, w', file') ∧
    ∃ x ∈ cutImages info (tearImage s.2 file' s.1.writeOffset (w'.writeOffset - s.1.writeOffset) mask) zmasks,
      batchRegion x s.1.writeOffset w'.writeOffset ≠ batchRegion file' s.1.writeOffset w'.writeOffset ∧
      crc32c (batchRegion x s.1.writeOffset w'.writeOffset) = crc32c (batchRegion file' s.1.writeOffset w'.writeOffset)

/-- the event, taken from state `s`, exhibits a CRC-32C collision (only events with an append in flight can) -/
def ChainEv2.Collision (info : SegInfo) (s : Writer × Bytes) : ChainEv2 → Prop
  | .torn b mask => TornCollision info s b mask
  | .tornThenTornRestart b mask zmasks => CutCollision info s b mask zmasks
  | _ => False

/-- some event along the run exhibits a CRC-32C collision -/
def ChainCollision2 (info : SegInfo) (evs : List ChainEv2) : Prop :=
  ∃ pre e post s, evs = pre ++ e :: post
    ∧ chainRun2 info (freshSegment info) pre = .ok s ∧ e.Collision info s

/-! ## the full statement -/

/-- the conclusion of `chain_atomic_rec` for a final state (`ChainResult` for `ChainEv2` chains) -/
structure ChainResult2 (info : SegInfo) (evs : List ChainEv2) (w : Writer) (file : Bytes) (bs : List (List Bytes)) : Prop where
  /-- the chain runs to `(w, file)` -/
  run      : chainRun2 info (freshSegment info) evs = .ok (w, file)
  /-- `bs`: every acknowledged batch, every torn batch whole or not at all -/
  spec     : chainSpec2 evs bs
  /-- (a) the invariant of SegmentL1 … -/
  inv      : ChainInv info w file bs
  /-- (a) … and the writer IS the one a run of completed appends of `bs` on the fresh segment ends with;
      the files agree up to the write offset -/
  asFresh  : ∃ w0 file0, (freshSegment info).1.appendAll (freshSegment info).2 info.base bs = some (w0, file0)
               ∧ w = w0 ∧ w.obs = w0.obs ∧ file.take w.writeOffset = file0.take w0.writeOffset
  /-- (b) every entry is readable at its index with exactly its payload -/
  readable : info.min = info.base → ∀ (k : Nat) (hk : k < bs.flatten.length) (bufSize : Nat), 8 ≤ bufSize →
               w.getLog file (info.base + k) bufSize = .ok (bs.flatten[k]'hk)
  /-- (b) nothing above `base + bs.flatten.length - 1` is readable -/
  nothingAbove : ∀ (idx bufSize : Nat), info.base + bs.flatten.length ≤ idx →
               (0 < idx → w.getLog file idx bufSize = .error .notFound) ∧ ∃ e, w.getLog file idx bufSize = .error e
  /-- (c) the region behind the write offset is all zeros -/
  clean    : ∀ x ∈ file.drop w.writeOffset, x = 0
  /-- the segment is sealed only if the submitted batches, index frame included, did not fit below `sizeLimit` -/
  unsealed : runBytesBound (chainBatches2 evs) ≤ info.sizeLimit → w.indexStart = 0

/-- the chain attempts an append (acknowledged or torn) on a segment an earlier event of the chain sealed: up to
    there the chain ran with the full conclusion -/
def ChainSealedStop2 (info : SegInfo) (evs : List ChainEv2) : Prop :=
  ∃ pre e post w file bs, evs = pre ++ e :: post ∧ e.batches ≠ []
    ∧ ChainResult2 info pre w file bs ∧ 0 < w.indexStart
    ∧ chainRun2 info (freshSegment info) evs = .error .sealed

/-- the full statement -/
def chain_atomic_rec_stmt : Prop :=
  ∀ (info : SegInfo) (evs : List ChainEv2), ChainWF2 info evs →
    ChainCollision2 info evs ∨ ∃ w file bs, ChainResult2 info evs w file bs

/-! ## `erase`: ghost outcomes and side conditions are those of the `ChainEv` chain -/

theorem chainSpec2_erase (evs : List ChainEv2) (bs : List (List Bytes)) :
    chainSpec2 evs bs ↔ chainSpec (evs.map ChainEv2.erase) bs := by
  induction evs generalizing bs with
  | nil => exact Iff.rfl
  | cons e evs ih =>
    cases e with
    | append b =>
      simp only [chainSpec2, List.map_cons, ChainEv2.erase, chainSpec]
      exact ⟨fun ⟨bs', h1, h2⟩ => ⟨bs', h1, (ih bs').mp h2⟩, fun ⟨bs', h1, h2⟩ => ⟨bs', h1, (ih bs').mpr h2⟩⟩
    | restart => simp only [chainSpec2, List.map_cons, ChainEv2.erase, chainSpec]; exact ih bs
    | tornRestart zs => simp only [chainSpec2, List.map_cons, ChainEv2.erase, chainSpec]; exact ih bs
    | torn b m =>
      simp only [chainSpec2, List.map_cons, ChainEv2.erase, chainSpec]
      exact ⟨fun h => h.elim (fun h => Or.inl ((ih bs).mp h)) (fun ⟨bs', h1, h2⟩ => Or.inr ⟨bs', h1, (ih bs').mp h2⟩),
        fun h => h.elim (fun h => Or.inl ((ih bs).mpr h)) (fun ⟨bs', h1, h2⟩ => Or.inr ⟨bs', h1, (ih bs').mpr h2⟩)⟩
    | tornThenTornRestart b m zs =>
      simp only [chainSpec2, List.map_cons, ChainEv2.erase, chainSpec]
      exact ⟨fun h => h.elim (fun h => Or.inl ((ih bs).mp h)) (fun ⟨bs', h1, h2⟩ => Or.inr ⟨bs', h1, (ih bs').mp h2⟩),
        fun h => h.elim (fun h => Or.inl ((ih bs).mpr h)) (fun ⟨bs', h1, h2⟩ => Or.inr ⟨bs', h1, (ih bs').mpr h2⟩)⟩

theorem batches_erase (e : ChainEv2) : e.erase.batches = e.batches := by cases e <;> rfl

theorem chainBatches2_erase (evs : List ChainEv2) : chainBatches2 evs = chainBatches (evs.map ChainEv2.erase) := by
  induction evs with
  | nil => rfl
  | cons e evs ih =>
    rw [List.map_cons, chainBatches_cons, batches_erase, ← ih]
    simp [chainBatches2]

theorem ChainSizes2.erase {info : SegInfo} {evs : List ChainEv2} (h : ChainSizes2 info evs) :
    ChainSizes info (evs.map ChainEv2.erase) := by
  have := chainBatches2_erase evs
  exact ⟨this ▸ h.nonempty, this ▸ h.payload_le, h.base_lt, h.id_lt, h.codec_lt, h.limit_lt, this ▸ h.size_lt⟩

theorem ChainWF2.sizes {info : SegInfo} {evs : List ChainEv2} (h : ChainWF2 info evs) : ChainSizes2 info evs :=
  ⟨h.nonempty, h.payload_le, h.base_lt, h.id_lt, h.codec_lt, h.limit_lt, h.size_lt⟩

/-! ## `chainRun2` along a chain -/

theorem chainRun2_append (info : SegInfo) (s s1 : Writer × Bytes) (l1 l2 : List ChainEv2)
    (h : chainRun2 info s l1 = .ok s1) : chainRun2 info s (l1 ++ l2) = chainRun2 info s1 l2 := by
  induction l1 generalizing s with
  | nil =>
    simp only [chainRun2, Except.ok.injEq] at h
    rw [h, List.nil_append]
  | cons e l1 ih =>
    rw [List.cons_append, chainRun2]
    rw [chainRun2] at h
    cases hs : chainStep2 info s e with
    | error err => rw [hs] at h; cases h
    | ok s' =>
      rw [hs] at h
      exact ih s' h

theorem chainRun2_snoc (info : SegInfo) (s s1 : Writer × Bytes) (l : List ChainEv2) (e : ChainEv2)
    (h : chainRun2 info s l = .ok s1) : chainRun2 info s (l ++ [e]) = chainStep2 info s1 e := by
  rw [chainRun2_append info s s1 l [e] h, chainRun2]
  cases chainStep2 info s1 e <;> rfl

theorem chainRun2_append_error (info : SegInfo) (s : Writer × Bytes) (l1 l2 : List ChainEv2) (err : SegErr)
    (h : chainRun2 info s l1 = .error err) : chainRun2 info s (l1 ++ l2) = .error err := by
  induction l1 generalizing s with
  | nil => simp only [chainRun2] at h; cases h
  | cons e l1 ih =>
    rw [List.cons_append, chainRun2]
    rw [chainRun2] at h
    cases hs : chainStep2 info s e with
    | error err' => rw [hs] at h; exact h
    | ok s' =>
      rw [hs] at h
      exact ih s' h

/-! ## per-step theorems for the two new events -/

/-- **tornRestart**: invisible, however often recovery is cut — on an invariant state every recovery returns the
    writer the process had and its zeroing rewrites zeros with zeros -/
theorem chainStep2_tornRestart_inv (info : SegInfo) (hb : info.base < 2^64) (hi : info.id < 2^64) (hc : info.codec < 2^64)
    (bs : List (List Bytes)) (w : Writer) (file : Bytes) (hI : ChainInv info w file bs) (zmasks : List (Nat → Bool)) :
    chainStep2 info (w, file) (.tornRestart zmasks) = .ok (w, file) :=
  recCut_inv info hb hi hc bs w file hI zmasks

/-- **tornThenTornRestart**: CRC-32C collision in one of the images, or the state before the append (file
    lengthened by zeros at most; invariant for `bs`), or the state after the completed append (invariant for
    `bs ++ [b]`) -/
theorem chainStep2_cut_inv (info : SegInfo) (bs : List (List Bytes)) (b : List Bytes) (mask : Nat → Bool)
    (zmasks : List (Nat → Bool))
    (hwf : RunWF info (bs ++ [b])) (hmax : ∀ p ∈ b, p.length ≤ maxEntrySize)
    (w : Writer) (file : Bytes) (hI : ChainInv info w file bs) (hidx : w.indexStart = 0) :
    CutCollision info (w, file) b mask zmasks
    ∨ (∃ k, chainStep2 info (w, file) (.tornThenTornRestart b mask zmasks) = .ok (w, file ++ zeros k)
          ∧ ChainInv info w (file ++ zeros k) bs)
    ∨ (∃ w' file', chainStep2 info (w, file) (.tornThenTornRestart b mask zmasks) = .ok (w', file')
          ∧ w.append file (indexBatch (info.base + bs.flatten.length) b) .none = (none, w', file')
          ∧ ChainInv info w' file' (bs ++ [b])) := by
  obtain ⟨w', file', happ⟩ := chain_append_ok info bs b hwf hmax w file hI hidx
  have hstep : chainStep2 info (w, file) (.tornThenTornRestart b mask zmasks)
      = recCut info (tearImage file file' w.writeOffset (w'.writeOffset - w.writeOffset) mask) zmasks := by
    simp only [chainStep2, chainNext, hI.next, happ]
  rcases recCut_torn_cases info bs b hwf w file hI w' file' happ zmasks mask with h | h | ⟨x, hx, h1, h2⟩
  · right; left
    exact ⟨_, by rw [hstep]; exact h, chainInv_append_zeros hI _⟩
  · right; right
    exact ⟨w', file', by rw [hstep]; exact h, happ, chainInv_append info bs b hwf w file hI w' file' happ⟩
  · left
    refine ⟨w', file', ?_, x, hx, h1, h2⟩
    simp only [chainNext, hI.next]; exact happ

/-- **a cut recovery changes nothing**: from an invariant state, short of a CRC-32C collision in one of the images,
    `tornThenTornRestart b mask zmasks` ends in exactly the state `torn b mask` ends in (recovery run once, to
    completion) — no later recovery accepts what the first one rejected, nor the other way round -/
theorem chainStep2_cut_same (info : SegInfo) (bs : List (List Bytes)) (b : List Bytes) (mask : Nat → Bool)
    (zmasks : List (Nat → Bool))
    (hwf : RunWF info (bs ++ [b])) (hmax : ∀ p ∈ b, p.length ≤ maxEntrySize)
    (w : Writer) (file : Bytes) (hI : ChainInv info w file bs) (hidx : w.indexStart = 0) :
    CutCollision info (w, file) b mask zmasks
    ∨ chainStep2 info (w, file) (.tornThenTornRestart b mask zmasks) = chainStep info (w, file) (.torn b mask) := by
  obtain ⟨w', file', happ⟩ := chain_append_ok info bs b hwf hmax w file hI hidx
  rcases recCut_torn_same info bs b hwf w file hI w' file' happ zmasks mask with h | ⟨x, hx, h1, h2⟩
  · right
    simp only [chainStep2, chainStep, chainNext, hI.next, happ]
    exact h
  · left
    refine ⟨w', file', ?_, x, hx, h1, h2⟩
    simp only [chainNext, hI.next]; exact happ

/-! ## the induction -/

/-- what the induction carries -/
structure ChainOK2 (info : SegInfo) (evs : List ChainEv2) (w : Writer) (file : Bytes) (bs : List (List Bytes)) : Prop where
  run      : chainRun2 info (freshSegment info) evs = .ok (w, file)
  spec     : chainSpec (evs.map ChainEv2.erase) bs
  inv      : ChainInv info w file bs
  asFresh  : ∃ file0, (freshSegment info).1.appendAll (freshSegment info).2 info.base bs = some (w, file0)
  unsealed : runBytesBound (chainBatches (evs.map ChainEv2.erase)) ≤ info.sizeLimit → w.indexStart = 0

def SealedStopOK2 (info : SegInfo) (evs : List ChainEv2) : Prop :=
  ∃ pre e post w file bs, evs = pre ++ e :: post ∧ e.batches ≠ []
    ∧ ChainOK2 info pre w file bs ∧ 0 < w.indexStart
    ∧ chainRun2 info (freshSegment info) evs = .error .sealed

theorem collision2_snoc {info : SegInfo} {evs : List ChainEv2} (e : ChainEv2) (h : ChainCollision2 info evs) :
    ChainCollision2 info (evs ++ [e]) := by
  obtain ⟨pre, e0, post, s, h1, h2, h3⟩ := h
  exact ⟨pre, e0, post ++ [e], s, by rw [h1]; simp, h2, h3⟩

theorem sealedStop2_snoc {info : SegInfo} {evs : List ChainEv2} (e : ChainEv2) (h : SealedStopOK2 info evs) :
    SealedStopOK2 info (evs ++ [e]) := by
  obtain ⟨pre, e0, post, w, file, bs, h1, h2, h3, h4, h5⟩ := h
  exact ⟨pre, e0, post ++ [e], w, file, bs, by rw [h1]; simp, h2, h3, h4, chainRun2_append_error info _ evs [e] _ h5⟩

/-- an append, acknowledged or torn (recovery cut or not), attempted on a sealed segment: `ErrSealed` -/
theorem chainStep2_sealed (info : SegInfo) (w : Writer) (file : Bytes) (e : ChainEv2) (b : List Bytes)
    (he : e.batches = [b]) (hb : b ≠ []) (hidx : 0 < w.indexStart) :
    chainStep2 info (w, file) e = .error .sealed := by
  cases e with
  | restart => cases he
  | tornRestart zs => cases he
  | append c => exact chainStep_sealed info w file (.append c) b he hb hidx
  | torn c m => exact chainStep_sealed info w file (.torn c m) b he hb hidx
  | tornThenTornRestart c m zs =>
    simp only [ChainEv2.batches, List.cons.injEq, and_true] at he
    subst he
    simp only [chainStep2, append_sealed _ _ _ _ hidx hb]

/-- one more batch event after a chain whose ghost batches are `bs`: the common part (`chainOK_batch_setup`) -/
theorem chain_batch_setup {info : SegInfo} {evs : List ChainEv} {e : ChainEv} {b : List Bytes}
    (he : e.batches = [b]) (hwf : ChainSizes info (evs ++ [e]))
    {bs : List (List Bytes)} (hspec : chainSpec evs bs) :
    RunWF info (bs ++ [b]) ∧ (∀ p ∈ b, p.length ≤ maxEntrySize) ∧ b ≠ []
    ∧ (runBytesBound (chainBatches (evs ++ [e])) ≤ info.sizeLimit →
        runBytesBound (bs ++ [b]) ≤ info.sizeLimit ∧ runBytesBound (chainBatches evs) ≤ info.sizeLimit) := by
  obtain ⟨s1, s2, s3⟩ := chainSpec_sub evs bs hspec
  have hcb : chainBatches (evs ++ [e]) = chainBatches evs ++ [b] := by rw [chainBatches_snoc, he]
  have hbm : b ∈ chainBatches (evs ++ [e]) := by rw [hcb]; exact List.mem_append_right _ List.mem_cons_self
  have hsub : ∀ x ∈ bs, x ∈ chainBatches (evs ++ [e]) := by
    intro x hx; rw [hcb]; exact List.mem_append_left _ (s1 x hx)
  have hsz : runBytesBound (bs ++ [b]) ≤ runBytesBound (chainBatches (evs ++ [e])) := by
    rw [hcb, runBytesBound_eq, runBytesBound_eq, need_append, need_append, cnt_append, cnt_append]; omega
  have hsz2 : runBytesBound (chainBatches evs) ≤ runBytesBound (chainBatches (evs ++ [e])) := by
    rw [hcb, runBytesBound_eq, runBytesBound_eq, need_append, cnt_append]; omega
  exact ⟨hwf.runWF_snoc hbm hsub hsz, hwf.payload_le b hbm, hwf.nonempty b hbm,
    fun hf => ⟨Nat.le_trans hsz hf, Nat.le_trans hsz2 hf⟩⟩

theorem chain_step2 (info : SegInfo) (evs : List ChainEv2) (e : ChainEv2)
    (hwf : ChainSizes info (evs.map ChainEv2.erase ++ [e.erase]))
    (w : Writer) (file : Bytes) (bs : List (List Bytes)) (h : ChainOK2 info evs w file bs) :
    ChainCollision2 info (evs ++ [e]) ∨ (∃ w' file' bs', ChainOK2 info (evs ++ [e]) w' file' bs')
      ∨ SealedStopOK2 info (evs ++ [e]) := by
  obtain ⟨file0, hfresh⟩ := h.asFresh
  have hmap : (evs ++ [e]).map ChainEv2.erase = evs.map ChainEv2.erase ++ [e.erase] := by simp
  -- events that leave the state as it is
  have hsame : e.erase = .restart → chainStep2 info (w, file) e = .ok (w, file) →
      ∃ w' file' bs', ChainOK2 info (evs ++ [e]) w' file' bs' := by
    intro he hst
    refine ⟨w, file, bs, ?_, ?_, h.inv, h.asFresh, ?_⟩
    · rw [chainRun2_snoc info _ _ evs _ h.run, hst]
    · rw [hmap, he]; exact chainSpec_snoc_restart _ bs h.spec
    · intro hf; apply h.unsealed
      rw [hmap, he, chainBatches_snoc] at hf; simpa [ChainEv.batches] using hf
  -- batch events recovered as absent / whole / refused
  have habsent : ∀ b m k, e.erase = .torn b m → w.indexStart = 0 →
      chainStep2 info (w, file) e = .ok (w, file ++ zeros k) → ChainInv info w (file ++ zeros k) bs →
      ∃ w' file' bs', ChainOK2 info (evs ++ [e]) w' file' bs' := by
    intro b m k he hidx hst hI'
    refine ⟨w, file ++ zeros k, bs, ?_, ?_, hI', h.asFresh, fun _ => hidx⟩
    · rw [chainRun2_snoc info _ _ evs _ h.run, hst]
    · rw [hmap, he]; exact chainSpec_snoc_torn_absent _ bs b m h.spec
  have hwhole : ∀ b w' file', (e.erase = .append b ∨ ∃ m, e.erase = .torn b m) →
      chainStep2 info (w, file) e = .ok (w', file') →
      w.append file (indexBatch (info.base + bs.flatten.length) b) .none = (none, w', file') →
      ChainInv info w' file' (bs ++ [b]) →
      ∃ w' file' bs', ChainOK2 info (evs ++ [e]) w' file' bs' := by
    intro b w' file' he hst happ hI'
    have heb : e.erase.batches = [b] := by
      rcases he with he | ⟨m, he⟩ <;> rw [he] <;> rfl
    obtain ⟨hrwf, hmax, hbne, hfit⟩ := chain_batch_setup heb hwf h.spec
    obtain ⟨file0', happ0⟩ := append_none_indep w file file0 _ w' file' happ
    refine ⟨w', file', bs ++ [b], ?_, ?_, hI',
      ⟨file0', appendAll_append _ _ _ bs w file0 b w' file0' hfresh happ0⟩, ?_⟩
    · rw [chainRun2_snoc info _ _ evs _ h.run, hst]
    · rw [hmap]
      rcases he with he | ⟨m, he⟩ <;> rw [he]
      · exact chainSpec_snoc_append _ bs b h.spec
      · exact chainSpec_snoc_torn_whole _ bs b m h.spec
    · intro hf
      rw [hmap] at hf
      exact chain_append_noseal info bs b hrwf (hfit hf).1 w file h.inv w' file' happ
  have hsealed : ∀ b, e.batches = [b] → b ≠ [] → ¬ w.indexStart = 0 → SealedStopOK2 info (evs ++ [e]) := by
    intro b he hbne hidx
    refine ⟨evs, e, [], w, file, bs, rfl, by rw [he]; simp, h, by omega, ?_⟩
    rw [chainRun2_snoc info _ _ evs _ h.run, chainStep2_sealed info w file _ b he hbne (by omega)]
  cases e with
  | restart =>
    right; left
    exact hsame rfl (chainStep_restart_inv info hwf.base_lt hwf.id_lt hwf.codec_lt bs w file h.inv)
  | tornRestart zs =>
    right; left
    exact hsame rfl (chainStep2_tornRestart_inv info hwf.base_lt hwf.id_lt hwf.codec_lt bs w file h.inv zs)
  | append b =>
    obtain ⟨hrwf, hmax, hbne, hfit⟩ := chain_batch_setup (b := b) rfl hwf h.spec
    by_cases hidx : w.indexStart = 0
    · right; left
      obtain ⟨w', file', hst, happ, hI'⟩ := chainStep_append_inv info bs b hrwf hmax w file h.inv hidx
      exact hwhole b w' file' (Or.inl rfl) hst happ hI'
    · exact Or.inr (Or.inr (hsealed b rfl hbne hidx))
  | torn b mask =>
    obtain ⟨hrwf, hmax, hbne, hfit⟩ := chain_batch_setup (b := b) rfl hwf h.spec
    by_cases hidx : w.indexStart = 0
    · rcases chainStep_torn_inv info bs b mask hrwf hmax w file h.inv hidx with
        hcol | ⟨k, hst, hI'⟩ | ⟨w', file', hst, happ, hI'⟩
      · left
        exact ⟨evs, .torn b mask, [], (w, file), rfl, h.run, hcol⟩
      · exact Or.inr (Or.inl (habsent b mask k rfl hidx hst hI'))
      · exact Or.inr (Or.inl (hwhole b w' file' (Or.inr ⟨mask, rfl⟩) hst happ hI'))
    · exact Or.inr (Or.inr (hsealed b rfl hbne hidx))
  | tornThenTornRestart b mask zs =>
    obtain ⟨hrwf, hmax, hbne, hfit⟩ := chain_batch_setup (b := b) rfl hwf h.spec
    by_cases hidx : w.indexStart = 0
    · rcases chainStep2_cut_inv info bs b mask zs hrwf hmax w file h.inv hidx with
        hcol | ⟨k, hst, hI'⟩ | ⟨w', file', hst, happ, hI'⟩
      · left
        exact ⟨evs, .tornThenTornRestart b mask zs, [], (w, file), rfl, h.run, hcol⟩
      · exact Or.inr (Or.inl (habsent b mask k rfl hidx hst hI'))
      · exact Or.inr (Or.inl (hwhole b w' file' (Or.inr ⟨mask, rfl⟩) hst happ hI'))
    · exact Or.inr (Or.inr (hsealed b rfl hbne hidx))

theorem chainOK2_nil (info : SegInfo) : ChainOK2 info [] (freshSegment info).1 (freshSegment info).2 [] :=
  ⟨rfl, rfl, chainInv_fresh info, ⟨_, rfl⟩, fun _ => rfl⟩

/-- the induction over the chain (from the last event backwards over the reversed list) -/
theorem chain_induction2 (info : SegInfo) (rev : List ChainEv2) (hwf : ChainSizes info (rev.reverse.map ChainEv2.erase)) :
    ChainCollision2 info rev.reverse ∨ (∃ w file bs, ChainOK2 info rev.reverse w file bs)
      ∨ SealedStopOK2 info rev.reverse := by
  induction rev with
  | nil => exact Or.inr (Or.inl ⟨_, _, _, chainOK2_nil info⟩)
  | cons e rev ih =>
    rw [List.reverse_cons] at hwf ⊢
    rw [List.map_append, List.map_cons, List.map_nil] at hwf
    rcases ih hwf.prefix with hc | ⟨w, file, bs, hok⟩ | hs
    · exact Or.inl (collision2_snoc e hc)
    · exact chain_step2 info rev.reverse e hwf w file bs hok
    · exact Or.inr (Or.inr (sealedStop2_snoc e hs))

/-- from what the induction carries to the full conclusion -/
theorem chainResult2_of_ok (info : SegInfo) (evs : List ChainEv2) (hwf : ChainSizes info (evs.map ChainEv2.erase))
    (w : Writer) (file : Bytes) (bs : List (List Bytes)) (h : ChainOK2 info evs w file bs) :
    ChainResult2 info evs w file bs := by
  obtain ⟨file0, hfresh⟩ := h.asFresh
  have hrwf := hwf.runWF h.spec
  have hI0 := chainInv_of_run info bs hrwf w file0 hfresh
  obtain ⟨s1, _, _⟩ := chainSpec_sub _ bs h.spec
  refine ⟨h.run, (chainSpec2_erase evs bs).mpr h.spec, h.inv, ⟨w, file0, hfresh, rfl, rfl, ?_⟩, ?_, ?_,
    h.inv.inv.zeros, by rw [chainBatches2_erase]; exact h.unsealed⟩
  · have e1 := h.inv.inv.bytes
    have e2 := hI0.inv.bytes
    rw [e1] at e2
    exact List.append_cancel_right e2
  · intro hmin k hk bufSize hbuf
    exact chain_getLog info hmin bs w file h.inv (fun b hb => hwf.payload_le b (s1 b hb)) k hk bufSize hbuf
  · intro idx bufSize hidx
    exact chain_getLog_above info bs w file h.inv idx hidx bufSize

/-! ## MAIN THEOREMS -/

/-- **C01/C02 (L1) crash chains with power losses inside recovery, no condition on `sizeLimit`.**  Every chain of
    acknowledged appends, restarts, torn appends, restarts whose recovery is cut while zeroing (any number of times
    in a row) and torn appends whose recovery is cut while zeroing (any number of times in a row), on a fresh
    segment (sizes within `ChainSizes2`)
      * meets a CRC-32C collision in one of the images recovery runs on, or
      * runs to a state that is exactly the state after a run of completed appends of some `bs` allowed by
        `chainSpec2`, or
      * runs like that up to a state in which the segment is sealed and then attempts an append (`ErrSealed`). -/
theorem chain_atomic_rec_gen (info : SegInfo) (evs : List ChainEv2) (hwf : ChainSizes2 info evs) :
    ChainCollision2 info evs ∨ (∃ w file bs, ChainResult2 info evs w file bs) ∨ ChainSealedStop2 info evs := by
  have hwf' := hwf.erase
  have := chain_induction2 info evs.reverse (by rw [List.reverse_reverse]; exact hwf')
  rw [List.reverse_reverse] at this
  rcases this with h | ⟨w, file, bs, h⟩ | ⟨pre, e, post, w, file, bs, h1, h2, h3, h4, h5⟩
  · exact Or.inl h
  · exact Or.inr (Or.inl ⟨w, file, bs, chainResult2_of_ok info evs hwf' w file bs h⟩)
  · refine Or.inr (Or.inr ⟨pre, e, post, w, file, bs, h1, h2, ?_, h4, h5⟩)
    rw [h1, List.map_append] at hwf'
    exact chainResult2_of_ok info pre hwf'.of_append w file bs h3

/-- **C01/C02 (L1) crash chains with power losses inside recovery** (MAIN THEOREM).  Every chain of acknowledged
    appends, restarts, torn appends, cut recoveries (`tornRestart`) and torn appends followed by cut recoveries
    (`tornThenTornRestart`) — recovery cut any number of times in a row, every subset of the 8-byte chunks of each
    zeroing write on disk — on a fresh segment (sizes within `ChainWF2`: only the last batch event may seal) either
    meets a CRC-32C collision in one of the images recovery runs on, or runs to a state that is exactly the state
    after a run of completed appends of some `bs` allowed by `chainSpec2` — same writer, same bytes up to the write
    offset, zeros behind, every entry of `bs` readable with its payload, nothing else readable. -/
theorem chain_atomic_rec (info : SegInfo) (evs : List ChainEv2) (hwf : ChainWF2 info evs) :
    ChainCollision2 info evs ∨ ∃ w file bs, ChainResult2 info evs w file bs := by
  rcases chain_atomic_rec_gen info evs hwf.sizes with h | h | ⟨pre, e, post, w, file, bs, h1, h2, h3, h4, _⟩
  · exact Or.inl h
  · exact Or.inr h
  · exfalso
    have hf := hwf.fits
    have hcb : chainBatches2 evs = chainBatches2 pre ++ (e.batches ++ chainBatches2 post) := by
      rw [h1]; simp [chainBatches2]
    have hne : e.batches ++ chainBatches2 post ≠ [] := by
      intro h0; exact h2 (List.append_eq_nil_iff.mp h0).1
    rw [hcb, List.dropLast_append_of_ne_nil hne] at hf
    have := h3.unsealed (by
      rw [runBytesBound_eq] at hf ⊢
      rw [need_append, cnt_append] at hf
      omega)
    omega

theorem chain_atomic_rec_full : chain_atomic_rec_stmt := chain_atomic_rec

/-- corollary in the vocabulary of the task (as `chain_atomic_obs`) -/
theorem chain_atomic_rec_obs (info : SegInfo) (evs : List ChainEv2) (hwf : ChainWF2 info evs) (hmin : info.min = info.base) :
    ChainCollision2 info evs
    ∨ ∃ w file bs w0 file0, chainRun2 info (freshSegment info) evs = .ok (w, file) ∧ chainSpec2 evs bs
        ∧ (freshSegment info).1.appendAll (freshSegment info).2 info.base bs = some (w0, file0) ∧ w.obs = w0.obs
        ∧ (∀ (k : Nat) (hk : k < bs.flatten.length) (bufSize : Nat), 8 ≤ bufSize →
              w.getLog file (info.base + k) bufSize = .ok (bs.flatten[k]'hk))
        ∧ (∀ (idx bufSize : Nat), info.base + bs.flatten.length ≤ idx → ∃ e, w.getLog file idx bufSize = .error e)
        ∧ (∀ x ∈ file.drop w.writeOffset, x = 0) := by
  rcases chain_atomic_rec info evs hwf with h | ⟨w, file, bs, h⟩
  · exact Or.inl h
  · obtain ⟨w0, file0, h1, _, h3, _⟩ := h.asFresh
    exact Or.inr ⟨w, file, bs, w0, file0, h.run, h.spec, h1, h3, h.readable hmin,
      fun idx bufSize hi => (h.nothingAbove idx bufSize hi).2, h.clean⟩

/-! ## non-vacuity: concrete chains (segment `chainExInfo`: `base = 5`, 232 bytes preallocated)

  (1) One acknowledged append, then the append of a two-entry batch (48 bytes = 6 chunks) torn with its commit
  chunk lost (mask `j ≠ 5`).  The first recovery REJECTS the batch (no commit frame: it settles on the first
  batch, write offset 56) and starts zeroing the 40 stale bytes; the power loss leaves chunks 0, 2, 4 zeroed and
  chunks 1, 3 (the two payloads) in place.  The second recovery, on that image, rejects again and is cut again with
  only chunk 3 zeroed: depth 2.  The third recovery completes.  `chainRecExImages`: the 48 bytes behind the
  write offset in the three images recovery ran on. -/

def chainRecExB : List Bytes := [[13, 14], [15, 16, 17, 18, 19, 20, 21, 22, 23]]

def chainRecExPre : List ChainEv2 := [ .append [[1, 2, 3]] ]

def chainRecExCut : ChainEv2 := .tornThenTornRestart chainRecExB (fun j => j != 5) [fun j => j % 2 == 0, fun j => j == 3]

def chainRecExImages : List Bytes :=
  match chainRun2 chainExInfo (freshSegment chainExInfo) chainRecExPre with
  | .error _ => []
  | .ok s =>
    match s.1.append s.2 (indexBatch (chainNext chainExInfo s.1) chainRecExB) .none with
    | (none, w', file') =>
      (cutImages chainExInfo (tearImage s.2 file' s.1.writeOffset (w'.writeOffset - s.1.writeOffset) (fun j => j != 5))
        [fun j => j % 2 == 0, fun j => j == 3]).map (fun (x : Bytes) => (x.drop s.1.writeOffset).take 48)
    | _ => []

/-- observable writer state and file a chain ends with -/
def chainRecExState (evs : List ChainEv2) : Option (WriterObs × Bytes) :=
  (chainRun2 chainExInfo (freshSegment chainExInfo) evs).toOption.map (fun p => (p.1.obs, p.2))

/-- the stale region in the three images: all of the batch but its commit frame; partly zeroed (payload chunks 1
    and 3 survive, 7 of the 8 bytes of chunk 4 were zero anyway); only payload chunk 1 left -/
example : chainRecExImages =
    [ [1, 0, 0, 0, 2, 0, 0, 0,  13, 14, 0, 0, 0, 0, 0, 0,  1, 0, 0, 0, 9, 0, 0, 0,  15, 16, 17, 18, 19, 20, 21, 22,
       23, 0, 0, 0, 0, 0, 0, 0,  0, 0, 0, 0, 0, 0, 0, 0],
      [0, 0, 0, 0, 0, 0, 0, 0,  13, 14, 0, 0, 0, 0, 0, 0,  0, 0, 0, 0, 0, 0, 0, 0,  15, 16, 17, 18, 19, 20, 21, 22,
       0, 0, 0, 0, 0, 0, 0, 0,  0, 0, 0, 0, 0, 0, 0, 0],
      [0, 0, 0, 0, 0, 0, 0, 0,  13, 14, 0, 0, 0, 0, 0, 0,  0, 0, 0, 0, 0, 0, 0, 0,  0, 0, 0, 0, 0, 0, 0, 0,
       0, 0, 0, 0, 0, 0, 0, 0,  0, 0, 0, 0, 0, 0, 0, 0] ] := by decide +kernel

/-- the first recovery of the torn image, had it completed, rejects the batch: the state is that of the prefix -/
example : chainRecExState (chainRecExPre ++ [.torn chainRecExB (fun j => j != 5)]) = chainRecExState chainRecExPre := by
  decide +kernel

/-- the recovery cut twice ends in that very state — as the theorem says: writer of the run `[[[1, 2, 3]]]`,
    zeros behind the write offset — and a cut recovery following the discarded batch (`tornRestart`) leaves it -/
example : chainRecExState (chainRecExPre ++ [chainRecExCut]) = chainRecExState chainRecExPre := by decide +kernel

example : chainRecExState (chainRecExPre ++ [chainRecExCut, .tornRestart [fun j => j == 0]])
    = (((freshSegment chainExInfo).1.appendAll (freshSegment chainExInfo).2 chainExInfo.base [[[1, 2, 3]]]).map
        (fun p => (p.1.obs, p.2))) := by decide +kernel

/-! (2) A longer chain: acknowledged append; the torn append of (1) with its recovery cut; a torn append recovered
  as absent followed by a cut recovery (`tornRestart` after a discarded batch); a torn append (commit chunk lost)
  with its recovery cut twice; a torn append all of whose chunks landed (recovered whole) with two cut recoveries;
  an acknowledged append; a restart cut twice. -/

def chainRecExInfo : SegInfo := { chainExInfo with sizeLimit := 1024 }

def chainRecExEvs : List ChainEv2 :=
  [ .append [[1, 2, 3], [4, 5, 6, 7, 8, 9, 10, 11, 12]],
    .tornThenTornRestart chainRecExB (fun j => j != 5) [fun j => j % 2 == 0],
    .torn [[24]] (fun j => j == 0 || j == 1),
    .tornRestart [fun j => j == 0],
    .tornThenTornRestart [[25, 26]] (fun j => j != 2) [fun j => j == 1, fun j => j == 0],
    .tornThenTornRestart [[27]] (fun _ => true) [fun _ => true, fun j => j == 0],
    .append [[28]],
    .tornRestart [fun _ => false, fun _ => true] ]

example : ChainWF2 chainRecExInfo chainRecExEvs where
  nonempty := by decide
  payload_le := by decide
  base_lt := by decide
  id_lt := by decide
  codec_lt := by decide
  limit_lt := by decide
  size_lt := by decide
  fits := by decide

/-- info: Except.ok ({ offsets := [32, 48, 80, 104], writeOffset := 128, commitIdx := 8, indexStart := 0 }, 1024) -/
#guard_msgs in
#eval (chainRun2 chainRecExInfo (freshSegment chainRecExInfo) chainRecExEvs).map (fun p => (p.1.obs, p.2.length))

/- the final state is the state of the run of completed appends of the acknowledged batches and `[[27]]`:
   same observation, same bytes up to the write offset, zeros behind -/
/-- info: true -/
#guard_msgs in
#eval match chainRun2 chainRecExInfo (freshSegment chainRecExInfo) chainRecExEvs,
          (freshSegment chainRecExInfo).1.appendAll (freshSegment chainRecExInfo).2 chainRecExInfo.base
            [[[1, 2, 3], [4, 5, 6, 7, 8, 9, 10, 11, 12]], [[27]], [[28]]] with
  | .ok (w, file), some (w0, file0) =>
    decide (w.obs = w0.obs) && file.take w.writeOffset == file0.take w0.writeOffset
      && (file.drop w.writeOffset).all (· == 0)
  | _, _ => false

end RaftWal

/-! ## axioms -/

/-- info: 'RaftWal.chain_atomic_rec' depends on axioms: [propext, Classical.choice, Quot.sound] -/
#guard_msgs in
#print axioms RaftWal.chain_atomic_rec

/-- info: 'RaftWal.chain_atomic_rec_gen' depends on axioms: [propext, Classical.choice, Quot.sound] -/
#guard_msgs in
#print axioms RaftWal.chain_atomic_rec_gen

/-- info: 'RaftWal.chainStep2_cut_same' depends on axioms: [propext, Classical.choice, Quot.sound] -/
#guard_msgs in
#print axioms RaftWal.chainStep2_cut_same
