/-
  Proofs/CrashLemmas24.lean — the strengthened quiescent invariant as a statement about the disk alone; position of
  the acknowledgement; recoveries cut by crashes; the crash theorems for `QS` states.
-/
import RaftWal.Proofs.CrashLemmas23
namespace RaftWal.Crash

/-- `Quiescent` plus the two facts every state a live process reaches also has:
    a handle that completed a Sync belongs to a file whose directory entry is durable, and a non-empty tail file
    shows at least its last entry (its `min` is not beyond it) -/
def QuiescentS (d : Disk) : Prop :=
  Quiescent d ∧ (∀ f ∈ d.files, f.hsynced = true → f.linked = true) ∧
  (∀ t f, d.md.segs.getLast? = some t → d.file? t.id = some f → f.synced ≠ [] → t.min < f.base + f.synced.length)

theorem HL_iff {d : Disk} (hn : (fids d).Nodup) : HL d ↔ ∀ f ∈ d.files, f.hsynced = true → f.linked = true := by
  constructor
  · intro h f hf; exact h f.id f (file?_of_mem hn hf)
  · intro h j f hf; exact h f (file?_some_mem hf).1

theorem quiescentS_iff (d : Disk) : QuiescentS d ↔ ∃ P t f, QS d P t f := by
  constructor
  · rintro ⟨hq, hl, hv⟩
    obtain ⟨P, t, hi⟩ := (quiescent_iff d).1 hq
    obtain ⟨f, hf, hqt⟩ := hi.tail
    refine ⟨P, t, f, ⟨⟨hi.segs, hi.sealed, hi.chain, hi.nodupS, hi.idlt, hi.nodupF, ?_, hqt.sl, hqt.bm, hqt.b1,
      (HL_iff hi.nodupF).2 hl⟩, hf, hqt, hv t f (by rw [hi.segs]; simp) hf, ?_⟩⟩
    · intro j hj
      obtain ⟨g, hg, rfl⟩ := List.mem_map.1 hj
      obtain ⟨s, hs, e⟩ := hi.sub g hg
      rw [← e]; exact hi.idlt s hs
    · intro j hj
      obtain ⟨g, hg, rfl⟩ := List.mem_map.1 hj
      obtain ⟨s, hs, e⟩ := hi.sub g hg
      exact List.mem_map.2 ⟨s, hs, e⟩
  · rintro ⟨P, t, f, h⟩
    refine ⟨h.quiescent, (HL_iff h.base.nodupF).1 h.base.hl, ?_⟩
    intro t' f' ht hf'
    have : t' = t := by rw [h.base.segs] at ht; simpa using ht.symm
    subst this
    rw [h.tf] at hf'; cases hf'
    exact h.vis

/-! ### the acknowledgement -/

theorem ackPos_eq {pre post : List Act} (h : ∀ a ∈ pre, a ≠ .ack) : ackPos (pre ++ .ack :: post) = pre.length := by
  unfold ackPos
  induction pre with
  | nil => simp [List.findIdx_cons]
  | cons a l ih =>
    have ha : (a == Act.ack) = false := by
      have := h a (by simp)
      simpa using this
    simp only [List.cons_append, List.findIdx_cons, ha, cond_false, List.length_cons]
    rw [ih (fun b hb => h b (by simp [hb]))]

theorem take_before {pre post : List Act} {k : Nat} (h : k ≤ pre.length) :
    (pre ++ Act.ack :: post).take k = pre.take k := List.take_append_of_le_length h

theorem applyAll_take_after (d : Disk) {pre post : List Act} {k : Nat} (h : pre.length < k) :
    d.applyAll ((pre ++ Act.ack :: post).take k) = (d.applyAll pre).applyAll (post.take (k - pre.length - 1)) := by
  rw [List.take_append, List.take_of_length_le (Nat.le_of_lt h), applyAll_append]
  obtain ⟨j, hj⟩ : ∃ j, k - pre.length = j + 1 := ⟨k - pre.length - 1, by omega⟩
  rw [hj, List.take_succ_cons, applyAll_cons, apply_ack]
  congr 2

/-! ### recoveries cut by crashes -/

theorem reach_rec {A : Log → Prop} {d0 d1 : Disk} (h : RecE A d0) (hr : ReachRec d0 d1) : RecE A d1 := by
  induction hr with
  | refl d => exact h
  | step d as k c d2 ho _ ih => exact ih (open_steps h ho k c)

/-- the admissible logs after a crash at position `k` of the call -/
def Adm (d : Disk) (op : Op) (k : Nat) : Log → Prop :=
  fun l => (l = absLog d ∨ l = specApply (absLog d) op) ∧ (ackPos (prog d op) < k → l = specApply (absLog d) op)

theorem call_image {d : Disk} {P : List Seg} {t : Seg} {f : File} (h : QS d P t f) (op : Op) (hok : op.ok d)
    (k : Nat) : RecE (Adm d op k) (d.applyAll ((prog d op).take k)) := by
  obtain ⟨pre, post, hc⟩ := call_res h op hok
  have hack : ackPos (prog d op) = pre.length := by rw [hc.shape]; exact ackPos_eq hc.noack
  rw [hc.shape]
  by_cases hk : k ≤ pre.length
  · rw [take_before hk]
    obtain ⟨P', t', hr⟩ := hc.before k
    refine ⟨P', t', hr.mono ?_⟩
    intro l hl
    refine ⟨hl, ?_⟩
    intro hlt
    rw [hc.shape] at hlt
    rw [ackPos_eq hc.noack] at hlt
    omega
  · rw [applyAll_take_after d (Nat.lt_of_not_le hk)]
    obtain ⟨P', t', hr⟩ := hc.after (k - pre.length - 1)
    exact ⟨P', t', hr.mono (fun l hl => ⟨Or.inr hl, fun _ => hl⟩)⟩

theorem crash_reach {d : Disk} {P : List Seg} {t : Seg} {f : File} (h : QS d P t f) (op : Op) (hok : op.ok d)
    (k : Nat) (c : CrashKind) {d1 : Disk} (hr : ReachRec (crashAfter d (prog d op) k c) d1) :
    RecE (Adm d op k) d1 := by
  obtain ⟨P', t', hi⟩ := call_image h op hok k
  exact reach_rec ⟨P', t', hi.crash c⟩ hr

end RaftWal.Crash
