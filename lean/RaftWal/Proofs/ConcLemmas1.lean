/-
  Proofs/ConcLemmas1.lean — basic algebra of the concurrency model: object lookup after `setObj` / append /
  `release`, frame facts, and the holder count after a reader's pc changes.
-/
import RaftWal.Model.Conc
namespace RaftWal.Conc

/-! ### lookup -/

theorem obj_default (s : Sys) (k : Nat) (h : s.objs.length ≤ k) : s.obj k = {} := by
  unfold Sys.obj
  rw [List.getD_eq_getElem?_getD, List.getElem?_eq_none h]; rfl

theorem obj_setObj (s : Sys) (i k : Nat) (o : Obj) :
    (s.setObj i o).obj k = if k = i ∧ i < s.objs.length then o else s.obj k := by
  unfold Sys.obj Sys.setObj
  simp only [List.getD_eq_getElem?_getD, List.getElem?_set]
  by_cases h : i = k
  · subst h
    by_cases h2 : i < s.objs.length <;> simp [h2]
  · have : ¬ k = i := fun e => h e.symm
    simp [h, this]

theorem obj_append (s : Sys) (k : Nat) (o : Obj) (cur : Nat) :
    ({ s with objs := s.objs ++ [o], cur := cur } : Sys).obj k = if k = s.objs.length then o else s.obj k := by
  unfold Sys.obj
  simp only [List.getD_eq_getElem?_getD]
  by_cases h : k = s.objs.length
  · subst h; simp
  · simp only [h, if_false]
    by_cases h2 : k < s.objs.length
    · rw [List.getElem?_append_left h2]
    · have h3 : s.objs.length < k := by omega
      rw [List.getElem?_eq_none (by simp; omega), List.getElem?_eq_none (by omega)]

@[simp] theorem setObj_length (s : Sys) (i : Nat) (o : Obj) : (s.setObj i o).objs.length = s.objs.length := by
  simp [Sys.setObj]
@[simp] theorem setObj_cur (s : Sys) (i : Nat) (o : Obj) : (s.setObj i o).cur = s.cur := rfl
@[simp] theorem setObj_closed (s : Sys) (i : Nat) (o : Obj) : (s.setObj i o).closed = s.closed := rfl
@[simp] theorem setObj_closedFiles (s : Sys) (i : Nat) (o : Obj) : (s.setObj i o).closedFiles = s.closedFiles := rfl
@[simp] theorem setObj_doubleClose (s : Sys) (i : Nat) (o : Obj) : (s.setObj i o).doubleClose = s.doubleClose := rfl
@[simp] theorem setObj_lock (s : Sys) (i : Nat) (o : Obj) : (s.setObj i o).lock = s.lock := rfl
@[simp] theorem setObj_readers (s : Sys) (i : Nat) (o : Obj) : (s.setObj i o).readers = s.readers := rfl
@[simp] theorem setObj_wpc (s : Sys) (i : Nat) (o : Obj) : (s.setObj i o).wpc = s.wpc := rfl
@[simp] theorem setObj_wqueue (s : Sys) (i : Nat) (o : Obj) : (s.setObj i o).wqueue = s.wqueue := rfl
@[simp] theorem setObj_cpc (s : Sys) (i : Nat) (o : Obj) : (s.setObj i o).cpc = s.cpc := rfl

/-! ### release -/

/-- the files the release of `sid` closes -/
def relCloses (s : Sys) (sid : Nat) : List FileId :=
  if (s.obj sid).refCount - 1 = 0 then
    match (s.obj sid).fin with
    | .set c => c
    | _ => []
  else []

/-- the finalizer slot after the release of `sid` -/
def relFin (s : Sys) (sid : Nat) : Fin :=
  if (s.obj sid).refCount - 1 = 0 then
    match (s.obj sid).fin with
    | .set _ => .taken
    | x => x
  else (s.obj sid).fin

theorem closeFiles_nil (s : Sys) : s.closeFiles [] = s := by
  cases s; simp [Sys.closeFiles]

theorem release_eq (s : Sys) (sid : Nat) :
    s.release sid =
      (s.setObj sid { s.obj sid with refCount := (s.obj sid).refCount - 1, fin := relFin s sid }).closeFiles
        (relCloses s sid) := by
  unfold Sys.release relFin relCloses
  by_cases h : (s.obj sid).refCount - 1 = 0
  · simp only [h, if_true]
    cases hf : (s.obj sid).fin <;> simp [closeFiles_nil]
  · simp [h, closeFiles_nil]

@[simp] theorem closeFiles_objs (s : Sys) (fs : List FileId) : (s.closeFiles fs).objs = s.objs := rfl
@[simp] theorem closeFiles_obj (s : Sys) (fs : List FileId) (k : Nat) : (s.closeFiles fs).obj k = s.obj k := rfl
@[simp] theorem closeFiles_cur (s : Sys) (fs : List FileId) : (s.closeFiles fs).cur = s.cur := rfl
@[simp] theorem closeFiles_closed (s : Sys) (fs : List FileId) : (s.closeFiles fs).closed = s.closed := rfl
@[simp] theorem closeFiles_closedFiles (s : Sys) (fs : List FileId) :
    (s.closeFiles fs).closedFiles = s.closedFiles ++ fs := rfl
@[simp] theorem closeFiles_doubleClose (s : Sys) (fs : List FileId) :
    (s.closeFiles fs).doubleClose = (s.doubleClose || fs.any (fun f => s.closedFiles.contains f)) := rfl
@[simp] theorem closeFiles_lock (s : Sys) (fs : List FileId) : (s.closeFiles fs).lock = s.lock := rfl
@[simp] theorem closeFiles_readers (s : Sys) (fs : List FileId) : (s.closeFiles fs).readers = s.readers := rfl
@[simp] theorem closeFiles_wpc (s : Sys) (fs : List FileId) : (s.closeFiles fs).wpc = s.wpc := rfl
@[simp] theorem closeFiles_wqueue (s : Sys) (fs : List FileId) : (s.closeFiles fs).wqueue = s.wqueue := rfl
@[simp] theorem closeFiles_cpc (s : Sys) (fs : List FileId) : (s.closeFiles fs).cpc = s.cpc := rfl

theorem release_obj (s : Sys) (sid k : Nat) :
    (s.release sid).obj k =
      if k = sid ∧ sid < s.objs.length then
        { s.obj sid with refCount := (s.obj sid).refCount - 1, fin := relFin s sid }
      else s.obj k := by
  rw [release_eq, closeFiles_obj, obj_setObj]

@[simp] theorem release_length (s : Sys) (sid : Nat) : (s.release sid).objs.length = s.objs.length := by
  rw [release_eq]; simp
@[simp] theorem release_cur (s : Sys) (sid : Nat) : (s.release sid).cur = s.cur := by rw [release_eq]; simp
@[simp] theorem release_closed (s : Sys) (sid : Nat) : (s.release sid).closed = s.closed := by rw [release_eq]; simp
@[simp] theorem release_closedFiles (s : Sys) (sid : Nat) :
    (s.release sid).closedFiles = s.closedFiles ++ relCloses s sid := by rw [release_eq]; simp
@[simp] theorem release_doubleClose (s : Sys) (sid : Nat) :
    (s.release sid).doubleClose = (s.doubleClose || (relCloses s sid).any (fun f => s.closedFiles.contains f)) := by
  rw [release_eq]; simp
@[simp] theorem release_lock (s : Sys) (sid : Nat) : (s.release sid).lock = s.lock := by rw [release_eq]; simp
@[simp] theorem release_readers (s : Sys) (sid : Nat) : (s.release sid).readers = s.readers := by rw [release_eq]; simp
@[simp] theorem release_wpc (s : Sys) (sid : Nat) : (s.release sid).wpc = s.wpc := by rw [release_eq]; simp
@[simp] theorem release_wqueue (s : Sys) (sid : Nat) : (s.release sid).wqueue = s.wqueue := by rw [release_eq]; simp
@[simp] theorem release_cpc (s : Sys) (sid : Nat) : (s.release sid).cpc = s.cpc := by rw [release_eq]; simp

/-! ### holders -/

/-- does a reader at `pc` hold a reference on object `k`? -/
def holdsR (pc : RPc) (k : Nat) : Bool :=
  match pc with
  | .acquired x => x == k
  | .finished x _ => x == k
  | _ => false

def rHolders (rs : List Reader) (k : Nat) : Nat := (rs.filter (fun r => holdsR r.pc k)).length

def wHolds (w : WPc) (k : Nat) : Nat :=
  match w with
  | .held x | .published x | .finSet x => if x = k then 1 else 0
  | _ => 0

def cHolds (c : CPc) (k : Nat) : Nat :=
  match c with
  | .held x | .published x | .finSet x => if x = k then 1 else 0
  | _ => 0

def holders' (s : Sys) (k : Nat) : Nat := rHolders s.readers k + wHolds s.wpc k + cHolds s.cpc k

theorem rHolders_set (rs : List Reader) (i : Nat) (r r' : Reader) (k : Nat) (h : rs[i]? = some r) :
    rHolders (rs.set i r') k + (if holdsR r.pc k then 1 else 0) =
      rHolders rs k + (if holdsR r'.pc k then 1 else 0) := by
  unfold rHolders
  induction rs generalizing i with
  | nil => simp at h
  | cons a as ih =>
    cases i with
    | zero =>
      simp only [List.getElem?_cons_zero, Option.some.injEq] at h
      subst h
      simp only [List.set_cons_zero, List.filter_cons]
      cases holdsR a.pc k <;> cases holdsR r'.pc k <;> simp
    | succ j =>
      simp only [List.getElem?_cons_succ] at h
      have := ih j h
      simp only [List.set_cons_succ, List.filter_cons]
      cases holdsR a.pc k <;> simp <;> omega

/-- the object id a reader's pc mentions -/
def RPc.sid? : RPc → Option Nat
  | .loaded x | .acquired x | .finished x _ => some x
  | _ => none

theorem rHolders_zero_of_lt (rs : List Reader) (n k : Nat) (hk : n ≤ k)
    (h : ∀ r ∈ rs, ∀ x, r.pc.sid? = some x → x < n) : rHolders rs k = 0 := by
  unfold rHolders
  rw [List.length_eq_zero_iff, List.filter_eq_nil_iff]
  intro r hr hh
  have := h r hr
  cases hpc : r.pc <;> simp [hpc, holdsR, RPc.sid?] at hh this <;> omega

theorem mem_set_cases {α} (l : List α) (i : Nat) (a x : α) (h : x ∈ l.set i a) : x = a ∨ x ∈ l := by
  rcases List.mem_or_eq_of_mem_set h with h | h
  · exact Or.inr h
  · exact Or.inl h

end RaftWal.Conc
