/-
  Proofs/FaultLemmasD2.lean — the disk of an `FInvS` process (FaultDefs.lean: `FInv` plus the executable conjunct
  `fextraB`, needed for the restart theorems: see FaultLemmasD3 for the counterexamples with `FInv` alone) is a state of
  the recovery invariant `Rec` of the crash development.
-/
import RaftWal.Proofs.FaultLemmasD1
import RaftWal.Proofs.FaultStmt
namespace RaftWal.Fault.D
open RaftWal.Crash RaftWal.Crash.D

instance decFInvD (p : Proc) : Decidable (FInv p) := by unfold FInv; infer_instance
instance decFInvSD (p : Proc) : Decidable (FInvS p) := by unfold FInvS; infer_instance

/-! ### lookups in `strip` / `cleanTail` -/

theorem look_filter_id_D (fs : List File) (q : Nat → Bool) (j : Nat) :
    look (fs.filter (fun f => q f.id)) j = if q j then look fs j else none := by
  unfold look
  induction fs with
  | nil => simp
  | cons a l ih =>
    simp only [List.filter_cons]
    by_cases e : a.id = j
    · subst e
      cases hq : q a.id with
      | true => simp
      | false =>
        simp only [Bool.false_eq_true, ↓reduceIte]
        rw [ih]; simp [hq]
    · cases hq : q a.id with
      | true => simp only [↓reduceIte, List.find?_cons, e, decide_false]; exact ih
      | false => simp only [Bool.false_eq_true, ↓reduceIte, List.find?_cons, e, decide_false]; exact ih

theorem strip_file_D? (d : Disk) (j : Nat) :
    (strip d).file? j = if d.md.segs.any (fun s => s.id == j) then d.file? j else none := by
  simp only [file?_eq_look, strip]
  exact look_filter_id_D d.files (fun i => d.md.segs.any (fun s => s.id == i)) j

@[simp] theorem strip_md_D (d : Disk) : (strip d).md = d.md := rfl

/-- the cleaned tail file -/
def File.clean_D (f : File) : File := { f with pending := [], sealedP := false, sealedS := false }

theorem cleanTail_eq_D {d : Disk} {t : Seg} (h : d.md.segs.getLast? = some t) :
    cleanTail d = { d with files := updFile d.files t.id File.clean_D } := by
  unfold cleanTail; rw [h]; rfl

theorem cleanTail_md_D (d : Disk) : (cleanTail d).md = d.md := by
  unfold cleanTail; split <;> rfl

theorem cleanTail_file_D? {d : Disk} {t : Seg} (h : d.md.segs.getLast? = some t) (j : Nat) :
    (cleanTail d).file? j = if j = t.id then (d.file? j).map File.clean_D else d.file? j := by
  rw [cleanTail_eq_D h]
  simp only [file?_eq_look]
  exact look_updFile d.files t.id File.clean_D (fun _ => rfl) j

/-! ### what `finvRunB` says about the files -/

structure RunFacts_D (d : Disk) : Prop where
  qs : QuiescentS (cleanTail (strip d))
  nodupF : (fids d).Nodup
  fidlt : ∀ j ∈ fids d, j < d.md.nextID
  hl : HL d
  tail : ∃ t f, d.md.segs.getLast? = some t ∧ d.file? t.id = some f ∧
    (f.sealedS = true → f.pending = [] ∧ f.sealedP = false)

theorem finvRunB_facts_D {d : Disk} (h : finvRunB d = true) : RunFacts_D d := by
  unfold finvRunB at h
  simp only [Bool.and_eq_true] at h
  obtain ⟨⟨⟨⟨⟨h1, h2⟩, h3⟩, h4⟩, _⟩, h6⟩ := h
  have hn : (fids d).Nodup := (nodupB_iff _).1 h2
  refine ⟨(quiescentSB_iff _).1 h1, hn, ?_, ?_, ?_⟩
  · intro j hj
    obtain ⟨f, hf, rfl⟩ := List.mem_map.1 hj
    simpa using (List.all_eq_true.1 h3) f hf
  · apply (HL_iff hn).2
    intro f hf hh
    have := (List.all_eq_true.1 h4) f hf
    simpa [hh] using this
  · cases ht : d.md.segs.getLast? with
    | none => rw [ht] at h6; cases h6
    | some t =>
      rw [ht] at h6
      cases hf : d.file? t.id with
      | none => simp only [hf] at h6; cases h6
      | some f =>
        simp only [hf] at h6
        refine ⟨t, f, by first | rfl | exact ht, by first | rfl | exact hf, ?_⟩
        intro hs
        simpa [hs] using h6

/-! ### a running `FInvS` process: its disk is a `Rec` state -/

theorem run_rec {d : Disk} (h : finvRunB d = true) (hx : fextraRunB d = true) :
    ∃ P t, Rec (fun _ => True) d P t := by
  have hF := finvRunB_facts_D h
  obtain ⟨t, f, ht, hf, hseal⟩ := hF.tail
  obtain ⟨P, t0, f0, hq⟩ := (quiescentS_iff _).1 hF.qs
  have hsegs : d.md.segs = P ++ [t0] := by
    have := hq.base.segs
    rwa [cleanTail_md_D, strip_md_D] at this
  have ht0 : t0 = t := by rw [hsegs] at ht; simpa using ht
  subst ht0
  have hts : (strip d).md.segs.getLast? = some t0 := ht
  -- the extra conjunct, as a proposition
  have hx' : (f.sealedS = true ∨ f.sealedP = true) → f.synced ++ f.pending ≠ [] := by
    unfold fextraRunB at hx
    rw [ht] at hx
    simp only [hf] at hx
    intro hs hc
    rcases hs with hs | hs <;> simp [hs, hc] at hx
  have named : ∀ s ∈ P ++ [t0], (d.md.segs.any fun x => x.id == s.id) = true := by
    intro s hs
    rw [hsegs]
    exact List.any_eq_true.2 ⟨s, hs, by simp⟩
  -- the files of the named segments
  have hfile : ∀ s ∈ P, (cleanTail (strip d)).file? s.id = d.file? s.id := by
    intro s hs
    rw [cleanTail_file_D? hts, strip_file_D?, named s (by simp [hs])]
    simp [hq.base.tid_ne s hs]
  have hf0 : f0 = File.clean_D f := by
    have := hq.tf
    rw [cleanTail_file_D? hts, strip_file_D?, named t0 (by simp)] at this
    simp only [↓reduceIte, hf, Option.map_some, Option.some.injEq] at this
    exact this.symm
  have hb : Base d P t0 := by
    refine ⟨hsegs, ?_, hq.base.chain, hq.base.nodupS, ?_, hF.nodupF, hF.fidlt, hq.base.tsl, hq.base.tbm,
      hq.base.tb1, hF.hl⟩
    · intro s hs
      obtain ⟨g, hg, hsg⟩ := hq.base.sealed s hs
      exact ⟨g, by rw [← hfile s hs]; exact hg, hsg⟩
    · have := hq.base.idlt
      rwa [cleanTail_md_D, strip_md_D] at this
  refine ⟨P, t0, hb, ?_, ?_⟩
  · intro g hg
    rw [hf] at hg; cases hg
    have hqt := hq.qt
    have hv := hq.vis
    subst hf0
    refine ⟨hqt.base, ?_, hqt.mn, hv, ?_, ?_, trivial, trivial⟩
    · rcases hqt.lk with h1 | h1
      · exact Or.inl h1
      · refine Or.inr ⟨h1, ?_⟩
        cases hs : f.sealedS with
        | false => rfl
        | true =>
          have hp := (hseal hs).1
          have := hx' (Or.inl hs)
          rw [hp, List.append_nil] at this
          exact absurd h1 this
    · intro hs
      have hp := hseal hs
      refine ⟨hp.1, hp.2, ?_⟩
      have := hx' (Or.inl hs)
      rwa [hp.1, List.append_nil] at this
    · intro hs; exact hx' (Or.inr hs)
  · intro hn; rw [hf] at hn; cases hn

/-! ### a stopped `FInvS` process: its disk is a `Rec` state whose tail file is missing -/

theorem stop_rec {d : Disk} {segs0 : List Seg} (h : finvStopB d segs0 = true) (hx : fextraStopB d = true) :
    ∃ P t, Rec (fun _ => True) d P t := by
  unfold finvStopB at h
  simp only [Bool.and_eq_true, decide_eq_true_eq] at h
  obtain ⟨⟨h1, h2⟩, h3⟩ := h
  have hF := finvRunB_facts_D h2
  cases hn : d.md.segs.getLast? with
  | none => rw [hn] at h3; cases h3
  | some n =>
    rw [hn] at h3
    simp only [Bool.and_eq_true, beq_iff_eq, Bool.not_eq_eq_eq_not, Bool.not_true, Option.isNone_iff_eq_none] at h3
    obtain ⟨⟨h31, h32⟩, h33⟩ := h3
    unfold fextraStopB at hx
    rw [hn] at hx
    simp only [Bool.and_eq_true, List.all_eq_true, fileOK_false_iff, nodupB_iff, decide_eq_true_eq] at hx
    obtain ⟨⟨⟨⟨⟨x1, x2⟩, x3⟩, x4⟩, x5⟩, x6⟩ := hx
    have hs := segs_split hn
    refine ⟨d.md.segs.dropLast, n, ⟨hs, x1, by rw [← hs]; exact x2, by rw [← hs]; exact x3, by rw [← hs]; exact x4,
      hF.nodupF, ?_, h32, by omega, x6, hF.hl⟩, ?_, ?_⟩
    · intro j hj
      have := hF.fidlt j hj
      simp only at this
      omega
    · intro f hf; rw [h33] at hf; cases hf
    · intro _; exact ⟨x5, trivial⟩

/-- the disk of an `FInvS` process is a state of the recovery invariant -/
theorem finvS_rec {p : Proc} (h : FInvS p) : ∃ P t, Rec (fun _ => True) p.disk P t := by
  obtain ⟨hi, hx⟩ := h
  unfold FInv finvB at hi
  unfold fextraB at hx
  cases hfz : p.frozen with
  | none => rw [hfz] at hi hx; exact run_rec hi hx
  | some segs0 => rw [hfz] at hi hx; exact stop_rec hi hx

end RaftWal.Fault.D
