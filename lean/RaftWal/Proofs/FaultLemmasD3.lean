/-
  Proofs/FaultLemmasD3.lean — the restart theorems.

  The statements first made for `FInv` (`restart_total_stmt0`, `restart_view_stmt0` of FaultStmt.lean) are FALSE:
  counterexamples below (`restart_total_refuted`, `restart_total_refuted'`, `restart_view_refuted`).  The statements for
  `FInvS` = `FInv` plus the executable conjunct `fextraB` (FaultDefs.lean) are proved (`restart_total`, `restart_view`), with
  `fresh_view_D` (readers of a fresh process see the log of its disk) and `restart_stable`.
-/
import RaftWal.Proofs.FaultLemmasD2
namespace RaftWal.Fault.D
open RaftWal.Crash RaftWal.Crash.D

/-! ### a fresh process: readers see the log of the disk -/

theorem quiescent_files_clean_D {d : Disk} (hq : Quiescent d) : ∀ f ∈ d.files, f.pending = [] ∧ f.sealedP = false := by
  obtain ⟨P, t, h⟩ := (quiescent_iff d).1 hq
  intro f hf
  obtain ⟨s, hs, e⟩ := h.sub f hf
  have hff := file?_of_mem h.nodupF hf
  rw [← e] at hff
  simp only [List.mem_append, List.mem_cons, List.not_mem_nil, or_false] at hs
  rcases hs with hs | rfl
  · obtain ⟨g, hg, hsg⟩ := h.sealed s hs
    rw [hff] at hg; cases hg
    exact ⟨hsg.pend, hsg.sp⟩
  · obtain ⟨g, hg, hqt⟩ := h.tail
    rw [hff] at hg; cases hg
    exact ⟨hqt.pend, hqt.sp⟩

theorem vdisk_quiescent_D {d : Disk} (hq : Quiescent d) : vdisk d = d := by
  have hc := quiescent_files_clean_D hq
  unfold vdisk
  have : d.files.map vfile = d.files := by
    conv => rhs; rw [← List.map_id d.files]
    apply List.map_congr_left
    intro f hf
    obtain ⟨h1, h2⟩ := hc f hf
    cases f
    simp only [vfile, id]
    simp only at h1 h2
    rw [h1, h2]
  rw [this]

/-- `fresh_view_stmt` -/
theorem fresh_view_D (p : Proc) (h : Fresh p) : view p = absLog p.disk := by
  obtain ⟨hq, hf⟩ := h
  unfold view
  rw [hf, vdisk_quiescent_D hq.1]
  rfl

theorem fresh_view_proved_D : fresh_view_stmt := fresh_view_D

/-! ### restart, for `FInvS` -/

/-- what a clean restart of an `FInvS` process does -/
theorem restart_spec (p : Proc) (hi : FInvS p) :
    ∃ p', restart p = some p' ∧ Fresh p' ∧ absLog p'.disk = absLog p.disk ∧
      p'.disk.md.stable = p.disk.md.stable := by
  obtain ⟨P, t, hr⟩ := finvS_rec hi
  obtain ⟨d', ho, hq, hl, hs⟩ := open_rec_total (hr.crash .proc)
  refine ⟨{ disk := d' }, ?_, ⟨hq, rfl⟩, ?_, ?_⟩
  · unfold restart; rw [ho]; rfl
  · rw [hl, absLog_crash_proc_D]
  · rw [hs, crash_md]

/-- **restart_total**: a clean restart succeeds and leaves a fresh process -/
theorem restart_total : restart_total_stmt := by
  intro p hi
  obtain ⟨p', h1, h2, _⟩ := restart_spec p hi
  exact ⟨p', h1, h2⟩

/-- **restart_view**: readers of the restarted process see exactly the log the disk
    stood for -/
theorem restart_view : restart_view_stmt := by
  intro p hi p' h
  obtain ⟨p'', h1, h2, h3, _⟩ := restart_spec p hi
  rw [h] at h1; cases h1
  rw [fresh_view_D p' h2, h3]

/-- … and the stable store is the one on the disk -/
theorem restart_stable (p : Proc) (hi : FInvS p) (p' : Proc) (h : restart p = some p') :
    p'.disk.md.stable = p.disk.md.stable := by
  obtain ⟨p'', h1, _, _, h4⟩ := restart_spec p hi
  rw [h] at h1; cases h1
  exact h4

/-- a fresh process satisfies the extra conjunct (so `Fresh p → FInvS p` follows from `fresh_inv_stmt`) -/
theorem fresh_extra (p : Proc) (h : Fresh p) : fextraB p = true := by
  obtain ⟨hq, hf⟩ := h
  obtain ⟨P, t, f, hs⟩ := (quiescentS_iff _).1 hq
  unfold fextraB fextraRunB
  rw [hf]
  have : p.disk.md.segs.getLast? = some t := by rw [hs.base.segs]; simp
  simp only [this, hs.tf, hs.qt.ss, hs.qt.sp, Bool.or_self, Bool.not_false, Bool.true_or]

/-! ### the statements of FaultStmt.lean are false for `FInv` alone -/

/-- running process, the tail file empty but durably sealed (`cleanTail` hides the seal from `finvRunB`): Open
    completes the "rotation" and records the empty segment as sealed with `max = base - 1 < min` -/
def cexRun : Proc :=
  { disk := { md := { nextID := 1, segs := [newSeg 0 1], stable := [] },
              files := [{ id := 0, base := 1, synced := [], pending := [], sealedS := true, sealedP := false,
                          linked := true, hsynced := false }] } }

theorem cexRun_finv : FInv cexRun := by decide

theorem restart_total_refuted : ¬ restart_total_stmt0 := by
  intro h
  obtain ⟨p', h1, h2, _⟩ := h cexRun cexRun_finv
  have e : restart cexRun = some
      { disk := { md := { nextID := 2, segs := [{ id := 0, base := 1, min := 1, max := 0, sealed := true }, newSeg 1 1],
                          stable := [] },
                  files := [{ id := 0, base := 1, synced := [], pending := [], sealedS := true, sealedP := false,
                              linked := true, hsynced := true },
                            { id := 1, base := 1, synced := [], pending := [], sealedS := false, sealedP := false,
                              linked := false, hsynced := false }] } } := by decide
  rw [e] at h1; cases h1
  have := (quiescentSB_iff _).2 h2
  revert this; decide

/-- stopped process: `finvStopB` relates the committed segment list to the published one only through its last
    element.  Here the committed list names the old tail as sealed although its file still carries the batch a failed
    append left: Open succeeds, but the state is not quiescent and readers do not see the log the disk stands for -/
def cexStop : Proc :=
  { disk := { md := { nextID := 2, segs := [{ id := 0, base := 1, min := 1, max := 5, sealed := true }, newSeg 1 2],
                      stable := [] },
              files := [{ id := 0, base := 1, synced := [5], pending := [6], sealedS := false, sealedP := false,
                          linked := true, hsynced := true }] },
    frozen := some [newSeg 0 1] }

theorem cexStop_finv : FInv cexStop := by decide

def cexStop' : Proc :=
  { disk := { md := { nextID := 2, segs := [{ id := 0, base := 1, min := 1, max := 5, sealed := true }, newSeg 1 2],
                      stable := [] },
              files := [{ id := 0, base := 1, synced := [5], pending := [6], sealedS := false, sealedP := false,
                          linked := true, hsynced := false },
                        { id := 1, base := 2, synced := [], pending := [], sealedS := false, sealedP := false,
                          linked := false, hsynced := false }] } }

theorem cexStop_restart : restart cexStop = some cexStop' := by decide

theorem restart_total_refuted' : ¬ restart_total_stmt0 := by
  intro h
  obtain ⟨p', h1, h2, _⟩ := h cexStop cexStop_finv
  rw [cexStop_restart] at h1; cases h1
  have := (quiescentSB_iff _).2 h2
  revert this; decide

theorem restart_view_refuted : ¬ restart_view_stmt0 := by
  intro h
  have := h cexStop cexStop_finv cexStop' cexStop_restart
  revert this; decide

/-- with a committed list that names a sealed segment without a file, Open even fails -/
def cexStop2 : Proc :=
  { disk := { md := { nextID := 2, segs := [{ id := 7, base := 1, min := 1, max := 5, sealed := true }, newSeg 1 6],
                      stable := [] },
              files := [{ id := 0, base := 1, synced := [5], pending := [], sealedS := false, sealedP := false,
                          linked := true, hsynced := true }] },
    frozen := some [newSeg 0 1] }

theorem restart_fails_without_extra : FInv cexStop2 ∧ restart cexStop2 = none := by decide

/-- the counterexamples violate the extra conjunct -/
theorem cex_not_extra : fextraB cexRun = false ∧ fextraB cexStop = false ∧ fextraB cexStop2 = false := by decide

end RaftWal.Fault.D
