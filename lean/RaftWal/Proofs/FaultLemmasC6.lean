/-
  Proofs/FaultLemmasC6.lean — the three per-call statements of Proofs/FaultStmt.lean for a tail truncation
  (`op = .delTail newMax`): the invariant is preserved, readers see the truncated log exactly when the call returns
  nil, and the log the disk stands for is the one readers see, or the truncated one, or the one it stood for.
-/
import RaftWal.Proofs.FaultLemmasC5
namespace RaftWal.Fault.C
open RaftWal.Crash

/-- every result of a tail truncation with at most one failing I/O action -/
theorem delTail_outcome (p : Proc) (hi : FInv p) (newMax : Nat) (hok : OkV (view p) (.delTail newMax))
    (pl : Plan) :
    Outcome p (.delTail newMax) (runOp p (.delTail newMax) pl) := by
  obtain ⟨d, fz⟩ := p
  cases fz with
  | some segs0 =>
    rw [runOp_delTail_frozen (p := { disk := d, frozen := some segs0 }) rfl]
    exact ⟨hi, by simp, Or.inr (Or.inr (by simp)), id⟩
  | none =>
    have hrun : finvRunB d = true := hi
    obtain ⟨P, t, f, h⟩ := finvRunB_FR hrun
    have hq := h.toQS
    have hmd : (cleanTail (strip d)).md = d.md := by rw [cleanTail_md, strip_md]
    have hvw : view { disk := d } = absLog (cleanTail (strip d)) := by rw [h.view_run, h.absLog_d0]
    have hok0 : (Op.delTail newMax).ok (cleanTail (strip d)) := by
      rw [hvw] at hok; exact hok
    have hnext := hq.toQO.next hok0.1
    rcases delTail_split hq hok0 with ⟨hk, hD, htb⟩ | ⟨K0, tk, D', hP, hk, hD, htb, hdrop⟩
    · rw [hmd] at hk hD
      have hmin : t.min ≤ newMax := hq.base.seg_min_le (A := P) (B := []) rfl hok0.1 hok0.2.1 htb
      have hmx : newMax < f.base + f.synced.length := by
        have := hok0.2.2
        have e1 : (clr f).base = f.base := rfl
        have e2 : (clr f).synced = f.synced := rfl
        rw [e1, e2] at hnext
        omega
      exact caseA h hk hD htb hmin hmx pl
    · subst hP
      rw [hmd] at hk hD
      have hmin : tk.min ≤ newMax :=
        hq.base.seg_min_le (show (K0 ++ tk :: D') ++ [t] = K0 ++ tk :: (D' ++ [t]) by simp) hok0.1 hok0.2.1 htb
      exact caseB h hk hD htb hmin hdrop pl

/-- `finv_call_stmt` for `op = .delTail newMax` -/
theorem finv_call_delTail (p : Proc) (hi : FInv p) (newMax : Nat) (hok : OkV (view p) (.delTail newMax))
    (pl : Plan) : FInv (runOp p (.delTail newMax) pl).1 :=
  (delTail_outcome p hi newMax hok pl).inv

/-- `call_view_stmt` for `op = .delTail newMax` -/
theorem call_view_delTail (p : Proc) (hi : FInv p) (newMax : Nat) (hok : OkV (view p) (.delTail newMax))
    (pl : Plan) :
    view (runOp p (.delTail newMax) pl).1 =
      if (runOp p (.delTail newMax) pl).2 then specApply (view p) (.delTail newMax) else view p :=
  (delTail_outcome p hi newMax hok pl).vw

/-- `call_disklog_stmt` for `op = .delTail newMax` -/
theorem call_disklog_delTail (p : Proc) (hi : FInv p) (newMax : Nat) (hok : OkV (view p) (.delTail newMax))
    (pl : Plan) :
    absLog (runOp p (.delTail newMax) pl).1.disk = view (runOp p (.delTail newMax) pl).1 ∨
    ((runOp p (.delTail newMax) pl).2 = false ∧
      absLog (runOp p (.delTail newMax) pl).1.disk = specApply (view p) (.delTail newMax)) ∨
    absLog (runOp p (.delTail newMax) pl).1.disk =
      (if (runOp p (.delTail newMax) pl).2 then specApply (absLog p.disk) (.delTail newMax) else absLog p.disk) :=
  (delTail_outcome p hi newMax hok pl).dl

/-- the other half of the new `finv_call_stmt` for `op = .delTail newMax`: the two further conjuncts -/
theorem fextra_call_delTail (p : Proc) (hi : FInvS p) (newMax : Nat) (hok : OkV (view p) (.delTail newMax))
    (pl : Plan) : fextraB (runOp p (.delTail newMax) pl).1 = true :=
  (delTail_outcome p hi.1 newMax hok pl).ex hi.2

/-- `finv_call_stmt` (for `FInvS`) for `op = .delTail newMax` -/
theorem finvS_call_delTail (p : Proc) (hi : FInvS p) (newMax : Nat) (hok : OkV (view p) (.delTail newMax))
    (pl : Plan) : FInvS (runOp p (.delTail newMax) pl).1 :=
  ⟨finv_call_delTail p hi.1 newMax hok pl, fextra_call_delTail p hi newMax hok pl⟩

/-- the three statements follow for every call once they hold for the other three kinds of call -/
theorem stmts_of_delTail
    (hf : ∀ p, FInv p → ∀ op, (∀ n, op ≠ .delTail n) → OkV (view p) op → ∀ pl, Outcome p op (runOp p op pl)) :
    finv_call_stmt ∧ call_view_stmt ∧ call_disklog_stmt := by
  have hall : ∀ p, FInv p → ∀ op, OkV (view p) op → ∀ pl, Outcome p op (runOp p op pl) := by
    intro p hi op hok pl
    by_cases hd : ∃ n, op = .delTail n
    · obtain ⟨n, rfl⟩ := hd
      exact delTail_outcome p hi n hok pl
    · exact hf p hi op (fun n e => hd ⟨n, e⟩) hok pl
  exact ⟨fun p hi op hok pl => ⟨(hall p hi.1 op hok pl).inv, (hall p hi.1 op hok pl).ex hi.2⟩,
    fun p hi op hok pl => (hall p hi op hok pl).vw, fun p hi op hok pl => (hall p hi op hok pl).dl⟩

#print axioms finv_call_delTail
#print axioms call_view_delTail
#print axioms call_disklog_delTail
#print axioms fextra_call_delTail
#print axioms finvS_call_delTail

end RaftWal.Fault.C
