/-
  Proofs/WalLemmas9.lean — simulation of `DeleteRange`.
-/
import RaftWal.Proofs.WalLemmas8
namespace RaftWal
theorem step_del_eq (w : Wal) (mn mx : Nat) :
    w.step (.del mn mx) = ((w.deleteRange mn mx).1, optAns (w.deleteRange mn mx).2) := by
  simp only [Wal.step]
  cases (w.deleteRange mn mx).2 <;> rfl

theorem sstep_del_eq (s : Spec.SLog) (mn mx : Nat) :
    s.step (.del mn mx) = ((s.delete mn mx).1, sOptAns (s.delete mn mx).2) := by
  simp only [Spec.SLog.step]
  cases (s.delete mn mx).2 <;> rfl

theorem sim_del {w : Wal} {s : Spec.SLog} (h : Sim w s) (mn mx : Nat) (hmx : mx < 2^64) :
    (w.step (.del mn mx)).2 = (s.step (.del mn mx)).2 ∧
      Sim (w.step (.del mn mx)).1 (s.step (.del mn mx)).1 := by
  rw [step_del_eq, sstep_del_eq]
  simp only
  obtain ⟨F, hc, ht, hcl, hf⟩ := h
  have hsim : Sim w s := ⟨F, hc, ht, hcl, hf⟩
  cases hwc : w.closed
  · have hscl : s.closed = false := by rw [hcl, hwc]
    unfold Wal.deleteRange Spec.SLog.delete
    simp only [hwc, hscl, Bool.false_eq_true, if_false]
    by_cases hgt : mn > mx
    · simp only [hgt, if_true]
      exact ⟨rfl, hsim⟩
    · simp only [hgt, if_false]
      have hfi := firstIndex_eq hc ht
      have hla := lastIndex_eq hc ht
      have hsfi := spec_firstIndex_eq hf
      have hsla := spec_lastIndex_eq hf
      have hF1 := F_pos hc
      have hbound := hc.bound
      by_cases hlen : s.entries.length = 0
      · -- empty log
        have hnil : s.entries = [] := List.eq_nil_of_length_eq_zero hlen
        rw [hfi, hla, hlen]
        simp only [if_true, hnil, List.isEmpty_nil, true_or, Nat.not_lt_zero, false_or]
        by_cases hmn : mn > 0
        · simp only [hmn, if_true]
          exact ⟨rfl, hsim⟩
        · have hmn0 : mn = 0 := by omega
          subst hmn0
          simp only [Nat.lt_irrefl, if_false, Nat.le_refl, if_true]
          have hu : u64 (Nat.min mx 0 + 1) = 1 := by
            have : Nat.min mx 0 = 0 := Nat.min_eq_right (Nat.zero_le _)
            rw [this]; rfl
          rw [hu]
          rw [hnil] at hc
          obtain ⟨g1, g2, g3, b, g4, g5⟩ := truncateHead_empty w 1 hc ht (Nat.le_refl _)
          refine ⟨by rw [g1]; rfl, b, by rw [hnil]; exact g4, g5, by rw [g3]; exact hcl, ?_⟩
          intro hne; exact absurd hnil hne
      · -- non-empty log
        have hne : s.entries ≠ [] := by intro h0; rw [h0] at hlen; exact hlen rfl
        have hsf : s.first = F := hf hne
        have hemp : s.entries.isEmpty = false := by
          cases he : s.entries with
          | nil => exact absurd he hne
          | cons a l => rfl
        rw [hfi, hla, hsfi, hsla]
        simp only [hlen, if_false, hemp, Bool.false_eq_true, false_or]
        by_cases hout : mx < F ∨ mn > F + s.entries.length - 1
        · simp only [hout, if_true]
          exact ⟨rfl, hsim⟩
        · simp only [hout, if_false]
          by_cases hhead : mn ≤ F
          · simp only [hhead, if_true]
            have hNm : Nat.min mx (F + s.entries.length - 1) = min mx (F + s.entries.length - 1) := rfl
            rw [hNm]
            rw [u64_of_lt (by omega)]
            obtain ⟨g1, g2, g3, g4, g5⟩ := truncateHead_sim w (min mx (F + s.entries.length - 1) + 1) hc ht
              (by omega) (by omega) (by omega)
            refine ⟨by rw [g1]; rfl, min mx (F + s.entries.length - 1) + 1, ?_, g5, by rw [g3]; exact hwc.symm, ?_⟩
            · simp only
              have : List.drop (mx + 1 - s.first) s.entries =
                  List.drop (min mx (F + s.entries.length - 1) + 1 - F) s.entries := by
                rw [hsf]
                by_cases hle : mx ≤ F + s.entries.length - 1
                · have : min mx (F + s.entries.length - 1) = mx := by omega
                  rw [this]
                · rw [List.drop_eq_nil_of_le (by omega), List.drop_eq_nil_of_le (by omega)]
              rw [this]; exact g4
            · simp only
              intro hne'
              have hlt : mx + 1 - s.first < s.entries.length := by
                apply Classical.byContradiction
                intro hcon
                exact hne' (List.drop_eq_nil_of_le (by omega))
              rw [hsf] at hlt ⊢
              omega
          · simp only [hhead, if_false]
            by_cases htail : mx ≥ F + s.entries.length - 1
            · simp only [htail, if_true]
              obtain ⟨g1, g2, g3, g4, g5⟩ := truncateTail_sim w (mn - 1) hc ht (by omega) (by omega)
              refine ⟨by rw [g1]; rfl, F, ?_, g5, by rw [g3]; exact hwc.symm, ?_⟩
              · simp only
                have : mn - s.first = mn - 1 + 1 - F := by rw [hsf]; omega
                rw [this]; exact g4
              · simp only
                intro _; exact hsf
            · simp only [htail, if_false]
              exact ⟨rfl, hsim⟩
  · have hscl : s.closed = true := by rw [hcl, hwc]
    have e1 : w.deleteRange mn mx = (w, some .closed) := by simp [Wal.deleteRange, hwc]
    have e2 : s.delete mn mx = (s, some .closed) := by simp [Spec.SLog.delete, hscl]
    rw [e1, e2]
    exact ⟨rfl, hsim⟩

end RaftWal
