/-
  Proofs/ConcLemmas3.lean — preservation of the object-level invariant `OInv` by the primitive operations of the
  model: reference-count changes, `release` (possibly running the finalizer), attaching a finalizer, publishing a
  successor object.
-/
import RaftWal.Proofs.ConcLemmas2
namespace RaftWal.Conc

/-- `OInv` only depends on the objects, `cur`, the closed handles and the double-close flag -/
theorem oinv_congr {s s' : Sys} (h : OInv s) (ho : s'.objs = s.objs) (hc : s'.cur = s.cur)
    (hcf : s'.closedFiles = s.closedFiles) (hdc : s'.doubleClose = s.doubleClose) : OInv s' := by
  have hobj : ∀ k, s'.obj k = s.obj k := fun k => by unfold Sys.obj; rw [ho]
  constructor
  all_goals simp only [hobj, hc, hcf, hdc, ho]
  case cur_last => exact h.cur_last
  case fin_cur => exact h.fin_cur
  case fin_set => exact h.fin_set
  case cl_sound => exact h.cl_sound
  case cl_compl => exact h.cl_compl
  case no_dc => exact h.no_dc
  case convex => exact h.convex

/-- operations that leave files and finalizer slots alone (reference-count changes) -/
theorem oinv_same {s s' : Sys} (h : OInv s) (hlen : s'.objs.length = s.objs.length) (hcur : s'.cur = s.cur)
    (hcf : s'.closedFiles = s.closedFiles) (hdc : s'.doubleClose = s.doubleClose)
    (hfiles : ∀ k, (s'.obj k).files = (s.obj k).files) (hfin : ∀ k, (s'.obj k).fin = (s.obj k).fin)
    (hrc : ∀ k c, (s.obj k).fin = .set c → 1 ≤ (s'.obj k).refCount) : OInv s' := by
  constructor
  all_goals simp only [hfiles, hfin, hcur, hcf, hdc, hlen]
  case fin_set =>
    intro k c hk
    exact ⟨(h.fin_set k c hk).1, hrc k c hk⟩
  case cur_last => exact h.cur_last
  case fin_cur => exact h.fin_cur
  case cl_sound => exact h.cl_sound
  case cl_compl => exact h.cl_compl
  case no_dc => exact h.no_dc
  case convex => exact h.convex

theorem oinv_rcInc {s : Sys} (h : OInv s) (sid : Nat) :
    OInv (s.setObj sid { s.obj sid with refCount := (s.obj sid).refCount + 1 }) := by
  apply oinv_same h <;> try simp
  · intro k; rw [obj_setObj]; split
    · next hk => rw [hk.1]
    · rfl
  · intro k; rw [obj_setObj]; split
    · next hk => rw [hk.1]
    · rfl
  · intro k c hk; rw [obj_setObj]; split
    · simp
    · exact (h.fin_set k c hk).2

/-- an object with a non-default finalizer slot exists -/
theorem lt_of_fin_ne {s : Sys} {k : Nat} (hk : (s.obj k).fin ≠ .unset) : k < s.objs.length := by
  by_cases h : k < s.objs.length
  · exact h
  · rw [obj_default s k (by omega)] at hk; simp at hk

theorem succ_lt_of_fin_ne {s : Sys} (h : OInv s) {k : Nat} (hk : (s.obj k).fin ≠ .unset) :
    k + 1 < s.objs.length := by
  have h1 := lt_of_fin_ne hk
  have h2 := h.cur_last
  have h3 := h.fin_cur
  have : k ≠ s.cur := by intro e; rw [e] at hk; exact hk h3
  omega

theorem rel_cases (s : Sys) (sid : Nat) :
    (∃ c, (s.obj sid).refCount - 1 = 0 ∧ (s.obj sid).fin = .set c ∧ relFin s sid = .taken ∧ relCloses s sid = c) ∨
    (relFin s sid = (s.obj sid).fin ∧ relCloses s sid = [] ∧
      ((s.obj sid).refCount - 1 = 0 → ∀ c, (s.obj sid).fin ≠ .set c)) := by
  unfold relFin relCloses
  by_cases h0 : (s.obj sid).refCount - 1 = 0
  · simp only [h0, if_true]
    cases hf : (s.obj sid).fin <;> simp
  · simp [h0]

theorem oinv_release {s : Sys} (h : OInv s) (sid : Nat) : OInv (s.release sid) := by
  rcases rel_cases s sid with ⟨c, h0, hf, hrf, hrc⟩ | ⟨hrf, hrc, hne⟩
  · -- the finalizer runs
    have hlt : sid < s.objs.length := lt_of_fin_ne (by rw [hf]; simp)
    have hobj : ∀ k, (s.release sid).obj k =
        if k = sid then { s.obj sid with refCount := (s.obj sid).refCount - 1, fin := .taken } else s.obj k := by
      intro k; rw [release_obj, hrf]; simp [hlt]
    have hfiles : ∀ k, ((s.release sid).obj k).files = (s.obj k).files := by
      intro k; rw [hobj]; split
      · next hk => rw [hk]
      · rfl
    have hfin : ∀ k, ((s.release sid).obj k).fin = if k = sid then .taken else (s.obj k).fin := by
      intro k; rw [hobj]; split <;> rfl
    have hc := (h.fin_set sid c hf).1
    constructor
    all_goals simp only [hfiles, hfin, release_length, release_cur, release_closedFiles, release_doubleClose, hrc]
    case cur_last => exact h.cur_last
    case fin_cur =>
      have : s.cur ≠ sid := by intro e; have := h.fin_cur; rw [e, hf] at this; simp at this
      simp [this, h.fin_cur]
    case fin_set =>
      intro k c' hk
      by_cases hks : k = sid
      · simp [hks] at hk
      · simp only [hks, if_false] at hk
        refine ⟨(h.fin_set k c' hk).1, ?_⟩
        rw [hobj]; simp only [hks, if_false]
        exact (h.fin_set k c' hk).2
    case cl_sound =>
      intro f hfm
      rw [List.mem_append] at hfm
      rcases hfm with hfm | hfm
      · obtain ⟨k, hk1, hk2, hk3⟩ := h.cl_sound f hfm
        refine ⟨k, ?_, hk2, hk3⟩
        split
        · rfl
        · exact hk1
      · exact ⟨sid, by simp, (hc f).1 hfm |>.1, (hc f).1 hfm |>.2⟩
    case cl_compl =>
      intro k hk f hf1 hf2
      rw [List.mem_append]
      by_cases hks : k = sid
      · subst hks; exact Or.inr ((hc f).2 ⟨hf1, hf2⟩)
      · simp only [hks, if_false] at hk
        exact Or.inl (h.cl_compl k hk f hf1 hf2)
    case no_dc =>
      rw [h.no_dc, Bool.false_or, List.any_eq_false]
      intro f hfc hcon
      have hcon : f ∈ s.closedFiles := by simpa using hcon
      obtain ⟨k, hk1, hk2, hk3⟩ := h.cl_sound f hcon
      obtain ⟨hs1, hs2⟩ := (hc f).1 hfc
      have hks : k ≠ sid := by intro e; rw [e, hf] at hk1; simp at hk1
      rcases Nat.lt_or_gt_of_ne hks with hlt' | hgt
      · exact hk3 (h.convex k (k + 1) sid f (by omega) (by omega) hk2 hs1)
      · exact hs2 (h.convex sid (sid + 1) k f (by omega) (by omega) hs1 hk2)
    case convex => exact h.convex
  · -- only the count changes
    have hobj : ∀ k, (s.release sid).obj k =
        if k = sid ∧ sid < s.objs.length then { s.obj sid with refCount := (s.obj sid).refCount - 1 }
        else s.obj k := by
      intro k; rw [release_obj, hrf]
    apply oinv_same h
    · simp
    · simp
    · simp [hrc]
    · simp [hrc, h.no_dc]
    · intro k; rw [hobj]; split
      · next hk => rw [hk.1]
      · rfl
    · intro k; rw [hobj]; split
      · next hk => rw [hk.1]
      · rfl
    · intro k c hk; rw [hobj]; split
      · next hks =>
        rw [hks.1] at hk
        have := (h.fin_set sid c hk).2
        have := hne
        simp only
        by_cases h0 : (s.obj sid).refCount - 1 = 0
        · exact absurd hk (hne h0 c)
        · omega
      · exact (h.fin_set k c hk).2

/-- attaching the finalizer to the object that was just replaced -/
theorem oinv_setFin {s : Sys} (h : OInv s) (sid : Nat) (c : List FileId) (hsid : sid + 1 = s.cur)
    (hunset : (s.obj sid).fin = .unset) (hrc : 1 ≤ (s.obj sid).refCount)
    (hc : ∀ f, f ∈ c ↔ f ∈ (s.obj sid).files ∧ f ∉ (s.obj (sid + 1)).files) :
    OInv (s.setObj sid { s.obj sid with fin := .set c }) := by
  have hlt : sid < s.objs.length := by have := h.cur_last; omega
  have hobj : ∀ k, (s.setObj sid { s.obj sid with fin := .set c }).obj k =
      if k = sid then { s.obj sid with fin := .set c } else s.obj k := by
    intro k; rw [obj_setObj]; simp [hlt]
  have hfiles : ∀ k, ((s.setObj sid { s.obj sid with fin := .set c }).obj k).files = (s.obj k).files := by
    intro k; rw [hobj]; split
    · next hk => rw [hk]
    · rfl
  have hfin : ∀ k, ((s.setObj sid { s.obj sid with fin := .set c }).obj k).fin =
      if k = sid then .set c else (s.obj k).fin := by
    intro k; rw [hobj]; split <;> rfl
  have hrcs : ∀ k, ((s.setObj sid { s.obj sid with fin := .set c }).obj k).refCount = (s.obj k).refCount := by
    intro k; rw [hobj]; split
    · next hk => rw [hk]
    · rfl
  constructor
  all_goals simp only [hfiles, hfin, hrcs, setObj_length, setObj_cur, setObj_closedFiles, setObj_doubleClose]
  case cur_last => exact h.cur_last
  case fin_cur =>
    have : s.cur ≠ sid := by omega
    simp [this, h.fin_cur]
  case fin_set =>
    intro k c' hk
    by_cases hks : k = sid
    · subst hks
      simp only [if_true, Fin.set.injEq] at hk
      subst hk
      exact ⟨hc, hrc⟩
    · simp only [hks, if_false] at hk
      exact h.fin_set k c' hk
  case cl_sound =>
    intro f hfm
    obtain ⟨k, hk1, hk2, hk3⟩ := h.cl_sound f hfm
    have hks : k ≠ sid := by intro e; rw [e, hunset] at hk1; simp at hk1
    exact ⟨k, by simp [hks, hk1], hk2, hk3⟩
  case cl_compl =>
    intro k hk f hf1 hf2
    by_cases hks : k = sid
    · simp [hks] at hk
    · simp only [hks, if_false] at hk
      exact h.cl_compl k hk f hf1 hf2
  case no_dc => exact h.no_dc
  case convex => exact h.convex

/-- publishing a successor: its files are files of the replaced object or brand new -/
theorem oinv_append {s : Sys} (h : OInv s) (o : Obj) (hfin : o.fin = .unset)
    (hfl : ∀ f ∈ o.files, f ∈ (s.obj s.cur).files ∨ ∀ k, f ∉ (s.obj k).files) :
    OInv { s with objs := s.objs ++ [o], cur := s.objs.length } := by
  have hobj : ∀ k, ({ s with objs := s.objs ++ [o], cur := s.objs.length } : Sys).obj k =
      if k = s.objs.length then o else s.obj k := fun k => obj_append s k o _
  have hcl := h.cur_last
  have hsame : ∀ k, (s.obj k).fin ≠ .unset →
      ({ s with objs := s.objs ++ [o], cur := s.objs.length } : Sys).obj k = s.obj k ∧
      ({ s with objs := s.objs ++ [o], cur := s.objs.length } : Sys).obj (k + 1) = s.obj (k + 1) := by
    intro k hk
    have := succ_lt_of_fin_ne h hk
    rw [hobj, hobj]
    constructor
    · rw [if_neg (by omega)]
    · rw [if_neg (by omega)]
  have hfin' : ∀ k, (({ s with objs := s.objs ++ [o], cur := s.objs.length } : Sys).obj k).fin = (s.obj k).fin := by
    intro k; rw [hobj]; split
    · next hk => rw [hk, hfin, obj_default s _ (Nat.le_refl _)]
    · rfl
  constructor
  case cur_last => simp
  case fin_cur => rw [hobj]; simp [hfin]
  case fin_set =>
    intro k c hk
    rw [hfin'] at hk
    have hne : (s.obj k).fin ≠ .unset := by rw [hk]; simp
    rw [(hsame k hne).1, (hsame k hne).2]
    exact h.fin_set k c hk
  case cl_sound =>
    intro f hfm
    obtain ⟨k, hk1, hk2, hk3⟩ := h.cl_sound f hfm
    have hne : (s.obj k).fin ≠ .unset := by rw [hk1]; simp
    refine ⟨k, ?_⟩
    rw [(hsame k hne).1, (hsame k hne).2]
    exact ⟨hk1, hk2, hk3⟩
  case cl_compl =>
    intro k hk
    rw [hfin'] at hk
    have hne : (s.obj k).fin ≠ .unset := by rw [hk]; simp
    rw [(hsame k hne).1, (hsame k hne).2]
    exact h.cl_compl k hk
  case no_dc => exact h.no_dc
  case convex =>
    intro i m j f him hmj hi hj
    rw [hobj] at hi hj ⊢
    by_cases hjn : j = s.objs.length
    · by_cases hmn : m = s.objs.length
      · simp only [hmn, if_true]
        simpa only [hjn, if_true] using hj
      · simp only [hmn, if_false]
        simp only [hjn, if_true] at hj
        by_cases hin : i = s.objs.length
        · omega
        · simp only [hin, if_false] at hi
          rcases hfl f hj with hc | hc
          · exact h.convex i m s.cur f him (by omega) hi hc
          · exact absurd hi (hc i)
    · simp only [hjn, if_false] at hj
      have hjlt : j < s.objs.length := by
        by_cases hlt : j < s.objs.length
        · exact hlt
        · rw [obj_default s j (by omega)] at hj; simp at hj
      rw [if_neg (by omega)] at hi ⊢
      exact h.convex i m j f him hmj hi hj

end RaftWal.Conc
