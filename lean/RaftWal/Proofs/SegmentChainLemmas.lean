/-
  Proofs/SegmentChainLemmas.lean — the invariant of crash chains (`ChainInv`) and the generalisation of the
  "run of completed appends from a fresh file" theorems of Proofs/SegmentL1.lean to an arbitrary state that
  satisfies it: one more acknowledged append, recovery of the untorn file (which returns the very same writer,
  not only the same observation), reads.
-/
import RaftWal.Proofs.SegmentTorn
namespace RaftWal
open Spec (Acc Batch addEntry addBatch)

/-! ## the invariant -/

/-- the README layout of the batches `bs`, the last one sealing iff `s` -/
def chainAcc (info : SegInfo) (s : Bool) (bs : List (List Bytes)) : Acc :=
  Spec.layoutAcc info.base info.id info.codec (specBatches s bs)

/-- **the chain invariant**: writer `w` and file `file` are, as far as any later operation can tell, what a run
    of completed appends of the batches `bs` on a fresh segment leaves: the file holds exactly the README layout
    of `bs` followed by zeros only (`Inv`, in particular `Inv.zeros`: no stale bytes behind the write offset),
    the writer is between two appends (empty commit buffer; the header still pending for the empty segment), and
    its counters are those of `bs`. Nothing is said about the length of the file (recovery of a torn sealing
    append leaves it longer than `sizeLimit`). -/
structure ChainInv (info : SegInfo) (w : Writer) (file : Bytes) (bs : List (List Bytes)) : Prop where
  inv   : Inv info w file (chainAcc info (w.indexStart > 0) bs)
  empty : bs = [] → w = Writer.create info
  done  : bs ≠ [] → w.commitBuf = [] ∧ w.commitIdx = info.base + cnt bs - 1 ∧ 0 < cnt bs
  idx   : w.indexStart = 0 ∨ w.indexStart = idxPos (acc0 info) bs
  small : (chainAcc info (w.indexStart > 0) bs).bytes.length < 2^32

theorem chainAcc_eq_summary (info : SegInfo) (s : Bool) (bs : List (List Bytes)) :
    chainAcc info s bs = Spec.layoutAcc info.base info.id info.codec (specBatches s bs) := rfl

/-- a run of completed appends from the fresh segment satisfies the invariant -/
theorem chainInv_of_run (info : SegInfo) (bs : List (List Bytes)) (hwf : RunWF info bs) (w : Writer) (file : Bytes)
    (hrun : (freshSegment info).1.appendAll (freshSegment info).2 info.base bs = some (w, file)) :
    ChainInv info w file bs := by
  obtain ⟨h1, h2, h3, h4⟩ := run_summary info bs hwf w file hrun
  refine ⟨h1, ?_, h2, h3, h4⟩
  rintro rfl
  exact (run_empty info w file hrun).1

/-- the fresh segment satisfies the invariant -/
theorem chainInv_fresh (info : SegInfo) : ChainInv info (freshSegment info).1 (freshSegment info).2 [] := by
  refine ⟨init_inv info, fun _ => rfl, fun h => absurd rfl h, Or.inl rfl, ?_⟩
  show (Spec.header info.base info.id info.codec).length < 2^32
  rw [specHeader_length]; decide

theorem ChainInv.file_zeros {info w file} (h : ChainInv info w file []) : file = zeros file.length := by
  have hw := h.empty rfl
  have hz := h.inv.zeros
  rw [hw] at hz
  exact List.eq_replicate_iff.mpr ⟨rfl, hz⟩

/-- the unsealed layout -/
theorem chainAcc_false (info : SegInfo) (bs : List (List Bytes)) :
    chainAcc info false bs = (ackBatches bs).foldl addBatch (acc0 info) := by
  rw [chainAcc, specBatches_eq_sb, sb_false]; rfl

theorem chainAcc_concat (info : SegInfo) (s : Bool) (bs : List (List Bytes)) (b : List Bytes) :
    chainAcc info s (bs ++ [b]) = addBatch ((ackBatches bs).foldl addBatch (acc0 info)) ⟨b, s⟩ := by
  rw [chainAcc, specBatches_eq_sb, sb_concat, Spec.layoutAcc, List.foldl_append]; rfl

/-- zeros appended to the file do not matter -/
theorem inv_append_zeros {info w file a} (h : Inv info w file a) (k : Nat) : Inv info w (file ++ zeros k) a := by
  refine ⟨h.info, ?_, ?_, h.cs, h.crc, h.offsEq, ?_⟩
  · rw [List.take_append_of_le_length h.wo]; exact h.bytes
  · rw [List.length_append]; have := h.wo; omega
  · intro x hx
    rw [List.drop_append_of_le_length h.wo] at hx
    rcases List.mem_append.mp hx with hx | hx
    · exact h.zeros x hx
    · exact List.eq_of_mem_replicate hx

theorem chainInv_append_zeros {info w file bs} (h : ChainInv info w file bs) (k : Nat) :
    ChainInv info w (file ++ zeros k) bs :=
  ⟨inv_append_zeros h.inv k, h.empty, h.done, h.idx, h.small⟩

/-! ## sizes -/

theorem runBytesBound_eq (bs : List (List Bytes)) : runBytesBound bs = 32 + need bs + (16 + 4 * cnt bs) := rfl

theorem need_append (a b : List (List Bytes)) : need (a ++ b) = need a + need b := by simp [need]
theorem cnt_append (a b : List (List Bytes)) : cnt (a ++ b) = cnt a + cnt b := by simp [cnt]
theorem need_single (b : List Bytes) : need [b] = (b.map (fun p => 16 + p.length)).sum + 8 := by simp [need]
theorem cnt_single (b : List Bytes) : cnt [b] = b.length := by simp [cnt]

/-- an unsealed layout has no index frame: a tighter bound than `run_inv` gives -/
theorem ack_length (a : Acc) (bs : List (List Bytes)) :
    ((ackBatches bs).foldl addBatch a).bytes.length ≤ a.bytes.length + need bs
    ∧ ((ackBatches bs).foldl addBatch a).offsets.length = a.offsets.length + cnt bs := by
  induction bs generalizing a with
  | nil => simp [ackBatches, need, cnt]
  | cons b bs ih =>
    have ha1len : (addBatch a ⟨b, false⟩).bytes.length = a.bytes.length + (encEntries b).length + 8 := by
      rw [addBatch_eq]; simp [batchBody, idxPart]; omega
    have ha1off : (addBatch a ⟨b, false⟩).offsets.length = a.offsets.length + b.length := by
      rw [addBatch_eq]; simp
    have hel := encEntries_length_le b
    obtain ⟨h1, h2⟩ := ih (addBatch a ⟨b, false⟩)
    simp only [ackBatches, List.map_cons, List.foldl_cons] at h1 h2 ⊢
    rw [need_cons, cnt_cons]
    constructor <;> omega

theorem acc0_length (info : SegInfo) : (acc0 info).bytes.length = 32 := specHeader_length _ _ _

/-! ## one more acknowledged append -/

theorem ChainInv.next {info w file bs} (h : ChainInv info w file bs) :
    info.base + w.offsets.length = info.base + bs.flatten.length := by
  have hat := entriesAt_foldl ⟨Spec.header info.base info.id info.codec, [], 0⟩
    (specBatches (w.indexStart > 0) bs) [] ⟨rfl, fun x hx => by simp at hx⟩
  rw [List.nil_append, specBatches_eq_sb, sb_payloads, ← specBatches_eq_sb] at hat
  have holen := hat.1
  rw [h.inv.offsEq]
  exact congrArg _ holen

/-- everything the invariant says about the states before and after one more append (the generalisation of
    `torn_setup` from "run from fresh" to "state satisfying the invariant") -/
theorem chain_append_setup (info : SegInfo) (bs : List (List Bytes)) (b : List Bytes)
    (hwf : RunWF info (bs ++ [b]))
    (w : Writer) (file : Bytes) (hI : ChainInv info w file bs)
    (w' : Writer) (file' : Bytes)
    (happ : w.append file (indexBatch (info.base + bs.flatten.length) b) .none = (none, w', file')) :
    ∃ s : Bool,
      Inv info w file ((ackBatches bs).foldl addBatch (acc0 info))
      ∧ Inv info w' file' (addBatch ((ackBatches bs).foldl addBatch (acc0 info)) ⟨b, s⟩)
      ∧ w'.commitBuf = []
      ∧ ((ackBatches bs ++ [(⟨b, s⟩ : Batch)]).foldl addBatch (acc0 info)).bytes.length < 2^32
      ∧ (bs ≠ [] → w.commitBuf = [])
      ∧ file.length ≤ file'.length
      ∧ ChainInv info w' file' (bs ++ [b]) := by
  have hb : b ≠ [] := hwf.nonempty b (List.mem_append_right _ List.mem_cons_self)
  have hidx : w.indexStart = 0 := append_none_unsealed w file _ b hb w' file' happ
  have e0 : decide (w.indexStart > 0) = false := by rw [hidx]; rfl
  have h1 := hI.inv
  rw [e0, chainAcc_false] at h1
  obtain ⟨hl1, hl2⟩ := ack_length (acc0 info) bs
  rw [acc0_length] at hl1
  have hoff0 : (acc0 info).offsets.length = 0 := rfl
  rw [hoff0, Nat.zero_add] at hl2
  have hsz := hwf.size_lt
  rw [runBytesBound_eq, need_append, cnt_append] at hsz
  have hrun1 : w.appendAll file (info.base + bs.flatten.length) [b] = some (w', file') := by
    simp only [Writer.appendAll, happ]
  have h := run_inv info [b] (by intro x hx; rw [List.mem_singleton.mp hx]; exact hb) w file _
    (info.base + bs.flatten.length) w' file' h1 hidx (by rw [hl2, cnt_eq_flatten_length])
    (by rw [hl2]; omega) hrun1
  obtain ⟨g1, g2, g3, g4⟩ := h
  obtain ⟨g21, g22, g23⟩ := g2 (by simp)
  have g1' : Inv info w' file' (addBatch ((ackBatches bs).foldl addBatch (acc0 info)) ⟨b, decide (w'.indexStart > 0)⟩) := g1
  have g4' : (addBatch ((ackBatches bs).foldl addBatch (acc0 info)) ⟨b, decide (w'.indexStart > 0)⟩).bytes.length < 2^32 := by
    have : (addBatch ((ackBatches bs).foldl addBatch (acc0 info)) ⟨b, decide (w'.indexStart > 0)⟩).bytes.length
        ≤ ((ackBatches bs).foldl addBatch (acc0 info)).bytes.length + need [b] + 16
          + 4 * (((ackBatches bs).foldl addBatch (acc0 info)).offsets.length + cnt [b]) := g4
    rw [hl2] at this
    omega
  refine ⟨decide (w'.indexStart > 0), h1, g1', g21, ?_, fun hne => (hI.done hne).1,
    append_none_length_le _ _ _ _ _ happ, ?_⟩
  · rw [List.foldl_append]; exact g4'
  · refine ⟨by rw [chainAcc_concat]; exact g1', fun h => absurd h (by simp), fun _ => ⟨g21, ?_, ?_⟩, ?_,
      by rw [chainAcc_concat]; exact g4'⟩
    · rw [g22, cnt_append, cnt_eq_flatten_length bs]; omega
    · rw [cnt_append]; omega
    · rcases g3 with g3 | g3
      · exact Or.inl g3
      · right
        rw [g3, idxPos_concat]; rfl

/-- **the invariant is preserved by an acknowledged append** -/
theorem chainInv_append (info : SegInfo) (bs : List (List Bytes)) (b : List Bytes)
    (hwf : RunWF info (bs ++ [b]))
    (w : Writer) (file : Bytes) (hI : ChainInv info w file bs)
    (w' : Writer) (file' : Bytes)
    (happ : w.append file (indexBatch (info.base + bs.flatten.length) b) .none = (none, w', file')) :
    ChainInv info w' file' (bs ++ [b]) := by
  obtain ⟨_, _, _, _, _, _, _, h⟩ := chain_append_setup info bs b hwf w file hI w' file' happ
  exact h

/-- under the size conditions an append on an unsealed invariant state is acknowledged -/
theorem chain_append_ok (info : SegInfo) (bs : List (List Bytes)) (b : List Bytes)
    (hwf : RunWF info (bs ++ [b])) (hmax : ∀ p ∈ b, p.length ≤ maxEntrySize)
    (w : Writer) (file : Bytes) (hI : ChainInv info w file bs) (hidx : w.indexStart = 0) :
    ∃ w' file', w.append file (indexBatch (info.base + bs.flatten.length) b) .none = (none, w', file') := by
  have hb : b ≠ [] := hwf.nonempty b (List.mem_append_right _ List.mem_cons_self)
  have e0 : decide (w.indexStart > 0) = false := by rw [hidx]; rfl
  have h1 := hI.inv
  rw [e0, chainAcc_false] at h1
  obtain ⟨hl1, hl2⟩ := ack_length (acc0 info) bs
  rw [acc0_length] at hl1
  have hoff0 : (acc0 info).offsets.length = 0 := rfl
  rw [hoff0, Nat.zero_add] at hl2
  have hsz := hwf.size_lt
  rw [runBytesBound_eq, need_append, cnt_append, need_single, cnt_single] at hsz
  have hel := encEntries_length_le b
  have hbl := h1.bytes_length
  have hil : (Spec.indexFrame (w.os1 b)).length ≤ 16 + 4 * (cnt bs + b.length) := by
    rw [specIndexFrame_length, h1.os1, encodedFrameSize_eq, List.length_append, offs_length, hl2]
    have := roundUp8_lt (4 * (cnt bs + b.length)); omega
  obtain ⟨s, hs⟩ := append_ok w file b (info.base + bs.flatten.length) hidx hb
    (by rw [h1.info, h1.offsEq, hl2, cnt_eq_flatten_length]) (by omega) hmax
  exact ⟨_, _, hs⟩

/-- if even the index frame would fit below `sizeLimit`, the append does not seal -/
theorem append_noseal (w : Writer) (file : Bytes) (ps : List Bytes) (next : Nat)
    (hidx : w.indexStart = 0) (hps : ps ≠ [])
    (hnext : next = w.info.base + w.offsets.length)
    (hb : w.writeOffset + w.commitBuf.length + (encEntries ps).length + (Spec.indexFrame (w.os1 ps)).length + 8 < 2^32)
    (hmax : ∀ p ∈ ps, p.length ≤ maxEntrySize)
    (hfit : w.writeOffset + w.commitBuf.length + (encEntries ps).length + (Spec.indexFrame (w.os1 ps)).length
        ≤ w.info.sizeLimit)
    (w' : Writer) (file' : Bytes)
    (happ : w.append file (indexBatch next ps) .none = (none, w', file')) : w'.indexStart = 0 := by
  obtain ⟨p, ps', rfl⟩ := List.exists_cons_of_ne_nil hps
  have hne : (indexBatch next (p :: ps')).isEmpty = false := by
    rw [indexBatch_eq, ib_cons]; rfl
  have hos : (w.os1 (p :: ps')) ≠ [] := by simp [Writer.os1, offs]
  have h1 := appendEntries_ib w next 0 (p :: ps') (by omega) (by omega) hmax
  rw [append_unfold w _ file _ hne hidx (by rw [indexBatch_eq]; exact h1)] at happ
  have hns : ({ w with offsets := w.offsets ++ offs (w.writeOffset + w.commitBuf.length) (p :: ps')
                     , commitBuf := w.commitBuf ++ encEntries (p :: ps')
                     , crc := crcUpdate w.crc (encEntries (p :: ps')) } : Writer).needSeal = false := by
    have hsz := indexFrameSize_eq (w.os1 (p :: ps')) hos
    simp only [Writer.os1] at hsz hfit hb
    rw [List.length_append] at hsz
    simp only [Writer.needSeal, List.length_append, hsz, decide_eq_false_iff_not, Nat.not_lt]
    have hu : u32 (w.writeOffset + u32 (w.commitBuf.length + (encEntries (p :: ps')).length +
        (Spec.indexFrame (w.offsets ++ offs (w.writeOffset + w.commitBuf.length) (p :: ps'))).length))
        = w.writeOffset + (w.commitBuf.length + (encEntries (p :: ps')).length +
        (Spec.indexFrame (w.offsets ++ offs (w.writeOffset + w.commitBuf.length) (p :: ps'))).length) := by
      unfold u32
      rw [Nat.mod_eq_of_lt (a := w.commitBuf.length + _ + _) (by omega), Nat.mod_eq_of_lt (by omega)]
    rw [hu]; omega
  rw [hns] at happ
  simp only [Bool.false_eq_true, if_false] at happ
  have := congrArg (fun x => x.2.1.indexStart) happ
  simp only [Writer.appendCommit, Except.toOption, Option.getD] at this
  rw [← this]; exact hidx

/-- an append whose bound (index frame included) is below `sizeLimit` leaves the segment unsealed -/
theorem chain_append_noseal (info : SegInfo) (bs : List (List Bytes)) (b : List Bytes)
    (hwf : RunWF info (bs ++ [b])) (hfit : runBytesBound (bs ++ [b]) ≤ info.sizeLimit)
    (w : Writer) (file : Bytes) (hI : ChainInv info w file bs)
    (w' : Writer) (file' : Bytes)
    (happ : w.append file (indexBatch (info.base + bs.flatten.length) b) .none = (none, w', file')) :
    w'.indexStart = 0 := by
  have hb : b ≠ [] := hwf.nonempty b (List.mem_append_right _ List.mem_cons_self)
  have hidx : w.indexStart = 0 := append_none_unsealed w file _ b hb w' file' happ
  have e0 : decide (w.indexStart > 0) = false := by rw [hidx]; rfl
  have h1 := hI.inv
  rw [e0, chainAcc_false] at h1
  obtain ⟨hl1, hl2⟩ := ack_length (acc0 info) bs
  rw [acc0_length] at hl1
  have hoff0 : (acc0 info).offsets.length = 0 := rfl
  rw [hoff0, Nat.zero_add] at hl2
  have hsz := hwf.size_lt
  rw [runBytesBound_eq, need_append, cnt_append, need_single, cnt_single] at hsz hfit
  have hel := encEntries_length_le b
  have hbl := h1.bytes_length
  have hil : (Spec.indexFrame (w.os1 b)).length ≤ 16 + 4 * (cnt bs + b.length) := by
    rw [specIndexFrame_length, h1.os1, encodedFrameSize_eq, List.length_append, offs_length, hl2]
    have := roundUp8_lt (4 * (cnt bs + b.length)); omega
  exact append_noseal w file b _ hidx hb (by rw [h1.info, h1.offsEq, hl2, cnt_eq_flatten_length]) (by omega)
    (append_indexBatch_le w file _ b w' file' happ) (by rw [h1.info]; omega) w' file' happ

/-! ## recovery of an untorn invariant state: the very same writer, the very same file -/

theorem crc32c_nil : crc32c [] = 0 := by rw [crc32c, crcUpdate_nil]

/-- **the invariant is preserved by a restart** — more precisely the restart is invisible: `recoverTail` returns
    the writer the process had (all fields, not only the observable ones) and leaves the file as it is.
    (Generalises `recover_untorn` from "run from fresh" to "state satisfying the invariant".) -/
theorem recover_inv (info : SegInfo) (hb : info.base < 2^64) (hi : info.id < 2^64) (hc : info.codec < 2^64)
    (bs : List (List Bytes)) (w : Writer) (file : Bytes) (h : ChainInv info w file bs) :
    recoverTail info file = .ok (w, file) := by
  by_cases hne : bs = []
  · subst hne
    have hw := h.empty rfl
    rw [h.file_zeros, recoverTail_zeros, hw]; rfl
  · have h1 := h.inv
    have h3 := h.idx
    have h4 := h.small
    obtain ⟨hcb, hci, hpos⟩ := h.done hne
    rw [chainAcc_eq_summary] at h1 h4
    obtain ⟨n, hn⟩ := file_eq_of_inv h1 hcb
    have hat := entriesAt_foldl ⟨Spec.header info.base info.id info.codec, [], 0⟩
      (specBatches (w.indexStart > 0) bs) [] ⟨rfl, fun x hx => by simp at hx⟩
    rw [List.nil_append, specBatches_eq_sb, sb_payloads, ← specBatches_eq_sb] at hat
    have holen := hat.1
    change (Spec.layoutAcc info.base info.id info.codec (specBatches (w.indexStart > 0) bs)).offsets.length = _ at holen
    have hwo := h1.bytes_length
    rw [hcb, List.length_nil, Nat.add_zero] at hwo
    have hoffs := h1.offsEq
    have hcrc := h1.crc
    have hinfo := h1.info
    rw [hcb, crc32c_nil] at hcrc
    rw [← cnt_eq_flatten_length] at holen
    have hsplit := List.dropLast_concat_getLast hne
    have hsb : specBatches (w.indexStart > 0) bs
        = bs.dropLast.map (fun b => (⟨b, false⟩ : Spec.Batch)) ++ [⟨bs.getLast hne, decide (w.indexStart > 0)⟩] := by
      rw [specBatches_eq_sb]; conv => lhs; rw [← hsplit]
      exact sb_concat _ _ _
    rw [hsb] at h4 hwo hoffs holen hn
    have hrec := recover_layout info hb hi hc _ _ n h4
    simp only at hrec
    rw [← hn] at hrec
    rw [hrec]
    have hcidx : commitIdxOf info.base
        (Spec.layoutAcc info.base info.id info.codec
          (bs.dropLast.map (fun b => (⟨b, false⟩ : Spec.Batch)) ++ [⟨bs.getLast hne, decide (w.indexStart > 0)⟩])).offsets
        = w.commitIdx := by
      rw [commitIdxOf, holen, if_pos hpos, hci]
    have hidx : (if decide (w.indexStart > 0) = true then
          (Spec.layoutAcc info.base info.id info.codec (bs.dropLast.map (fun b => (⟨b, false⟩ : Spec.Batch)))).bytes.length
            + (encEntries (bs.getLast hne)).length + 8 else 0) = w.indexStart := by
      by_cases hs : w.indexStart > 0
      · simp only [hs, decide_true, if_true]
        rcases h3 with h | h
        · omega
        · rw [h]; conv => rhs; rw [← hsplit]
          rw [idxPos_concat, List.length_append]; rfl
      · simp only [hs, decide_false, Bool.false_eq_true, if_false]; omega
    rw [hcidx, ← hoffs, hwo]
    rw [hidx]
    obtain ⟨winfo, wcb, wcrc, wwo, wis, woffs, wci⟩ := w
    simp only at hcb hcrc hinfo
    subst hcb hcrc hinfo
    rfl

/-! ## reads from an invariant state -/

/-- every entry of the ghost batches is readable at its index with exactly its payload
    (generalises `getLog_after_appends`) -/
theorem chain_getLog (info : SegInfo) (hmin : info.min = info.base) (bs : List (List Bytes))
    (w : Writer) (file : Bytes) (h : ChainInv info w file bs)
    (hmax : ∀ b ∈ bs, ∀ p ∈ b, p.length ≤ maxEntrySize)
    (k : Nat) (hk : k < bs.flatten.length) (bufSize : Nat) (hbuf : 8 ≤ bufSize) :
    w.getLog file (info.base + k) bufSize = .ok (bs.flatten[k]'hk) := by
  have hne : bs ≠ [] := by rintro rfl; simp at hk
  have h1 := h.inv
  have h4 := h.small
  rw [chainAcc_eq_summary] at h1 h4
  obtain ⟨hcb, hci, _⟩ := h.done hne
  obtain ⟨n, hn⟩ := file_eq_of_inv h1 hcb
  have hat := entriesAt_foldl ⟨Spec.header info.base info.id info.codec, [], 0⟩
    (specBatches (w.indexStart > 0) bs) [] ⟨rfl, fun x hx => by simp at hx⟩
  rw [List.nil_append, specBatches_eq_sb, sb_payloads, ← specBatches_eq_sb] at hat
  change EntriesAt (Spec.layoutAcc info.base info.id info.codec (specBatches (w.indexStart > 0) bs)).bytes
    (Spec.layoutAcc info.base info.id info.codec (specBatches (w.indexStart > 0) bs)).offsets bs.flatten at hat
  obtain ⟨o, pre, post, ho, hbytes, hpre⟩ := hat.get k hk
  have hp : (bs.flatten[k]'hk).length ≤ maxEntrySize := by
    obtain ⟨b, hb, hpb⟩ := List.mem_flatten.mp (List.getElem_mem hk)
    exact hmax b hb _ hpb
  have hoff : pre.length + 8 < 2^32 := by
    have := congrArg List.length hbytes
    simp only [List.length_append, specEntryFrame_length, encodedFrameSize_eq] at this
    omega
  rw [cnt_eq_flatten_length] at hci
  have hofs : w.offsetForFrame (info.base + k) = .ok o := by
    rw [Writer.offsetForFrame, h1.info, hmin, hci, if_neg (by omega), Nat.add_sub_cancel_left, h1.offsEq, ho]
  rw [Writer.getLog, hofs]
  simp only
  rw [hn, hbytes, ← hpre]
  simp only [List.append_assoc]
  exact readFrame_entry pre (post ++ zeros n) _ bufSize hbuf hp hoff

/-- nothing above the last entry of the ghost batches is readable -/
theorem chain_getLog_above (info : SegInfo) (bs : List (List Bytes))
    (w : Writer) (file : Bytes) (h : ChainInv info w file bs)
    (idx : Nat) (hidx : info.base + bs.flatten.length ≤ idx) (bufSize : Nat) :
    (0 < idx → w.getLog file idx bufSize = .error .notFound)
    ∧ ∃ e, w.getLog file idx bufSize = .error e := by
  by_cases hne : bs = []
  · subst hne
    have hw := h.empty rfl
    subst hw
    by_cases h0 : 0 < idx
    · have : (Writer.create info).getLog file idx bufSize = .error .notFound := by
        have hci : (Writer.create info).commitIdx = 0 := rfl
        rw [Writer.getLog, Writer.offsetForFrame, hci, if_pos (Or.inr (Or.inr h0))]
      exact ⟨fun _ => this, _, this⟩
    · refine ⟨fun h => absurd h h0, ?_⟩
      have hi0 : idx = 0 := by omega
      subst hi0
      have ho : (Writer.create info).offsets = [] := rfl
      have hof : ∃ e, (Writer.create info).offsetForFrame 0 = .error e := by
        rw [Writer.offsetForFrame]
        split
        · exact ⟨_, rfl⟩
        · rw [ho]; exact ⟨_, rfl⟩
      obtain ⟨e, he⟩ := hof
      rw [Writer.getLog, he]; exact ⟨_, rfl⟩
  · obtain ⟨_, hci, hpos⟩ := h.done hne
    rw [cnt_eq_flatten_length] at hci hpos
    have : w.getLog file idx bufSize = .error .notFound := by
      rw [Writer.getLog, Writer.offsetForFrame, hci, if_pos (Or.inr (Or.inr (by omega)))]
    exact ⟨fun _ => this, _, this⟩

/-- why `chain_getLog_above` says `notFound` only for `0 < idx`: on an EMPTY segment with `BaseIndex = 0` (not a
    Raft index in practice) `commitIdx = 0` passes `OffsetForFrame`'s range check for `idx = 0` and the offsets
    table is indexed out of range (`.other` in the model: a panic in the Go code) -/
theorem getLog_empty_base_zero (info : SegInfo) (h0 : info.base = 0) (hm : info.min = 0) (file : Bytes) (bufSize : Nat) :
    (Writer.create info).getLog file 0 bufSize = .error .other := by
  simp [Writer.getLog, Writer.offsetForFrame, Writer.create, Writer.initEmpty, Writer.fresh, h0, hm]

end RaftWal
