/-
  Proofs/MigrateProps.lean — theorems about the migrate model (C19).
  Helper lemmas first; the five C19 theorems carry their original statements unchanged.
-/
import RaftWal.Model.Migrate
namespace RaftWal.Migrate
open RaftWal Spec

/-- a well-formed source log: consecutive indexes from `first ≥ 1`, every entry encodable
    (so that a destination that behaves like the reference log accepts it) -/
structure SrcWF (src : Src) : Prop where
  first_pos : src.entries ≠ [] → 1 ≤ src.first
  idx       : ∀ k (h : k < src.entries.length), (src.entries[k]'h).index = src.first + k
  enc       : ∀ l ∈ src.entries, (encode l).isSome = true

def emptyDst : Spec.SLog := { first := 0, entries := [] }

/-- `SrcWF.idx` in the recursive form used by `SLog.accepts` -/
theorem consec_of_idx : ∀ (es : List Log) (n : Nat),
    (∀ k (h : k < es.length), (es[k]'h).index = n + k) → consecutiveFrom n es = true
  | [], _, _ => rfl
  | l :: ls, n, h => by
    have h0 := h 0 (by simp)
    have ht : ∀ k (hk : k < ls.length), (ls[k]'hk).index = (n + 1) + k := by
      intro k hk
      have := h (k + 1) (by simp; omega)
      simp only [List.getElem_cons_succ] at this
      omega
    simp only [consecutiveFrom, Bool.and_eq_true, beq_iff_eq]
    exact ⟨by simpa using h0, consec_of_idx ls (n + 1) ht⟩

theorem consec_append : ∀ (a b : List Log) (n : Nat),
    consecutiveFrom n (a ++ b) = (consecutiveFrom n a && consecutiveFrom (n + a.length) b)
  | [], b, n => by simp [consecutiveFrom]
  | l :: ls, b, n => by
    simp only [List.cons_append, consecutiveFrom, consec_append ls b (n + 1), List.length_cons, Bool.and_assoc]
    congr 3; omega

/-- storing the next non-empty chunk of a well-formed source into an open destination that holds a prefix -/
theorem store_next (src : Src) (hwf : SrcWF src) (dst : SLog) (b rest : List Log)
    (hsplit : src.entries = dst.entries ++ b ++ rest) (hb : b ≠ [])
    (hopen : dst.closed = false) (hfirst : dst.entries ≠ [] → dst.first = src.first) :
    ∃ dst', dst.store b = (dst', none) ∧ dst'.entries = dst.entries ++ b ∧ dst'.first = src.first ∧
      dst'.closed = false := by
  obtain ⟨l, ls, rfl⟩ := List.exists_cons_of_ne_nil hb
  have hc := consec_of_idx src.entries src.first hwf.idx
  rw [hsplit, consec_append, consec_append] at hc
  simp only [Bool.and_eq_true] at hc
  obtain ⟨⟨_, hcb⟩, _⟩ := hc
  have hli : l.index = src.first + dst.entries.length := by
    have := hcb
    simp only [consecutiveFrom, Bool.and_eq_true, beq_iff_eq] at this
    exact this.1
  have henc : (l :: ls).all (fun l => (encode l).isSome) = true := by
    rw [List.all_eq_true]; intro x hx
    apply hwf.enc; rw [hsplit]
    exact List.mem_append_left _ (List.mem_append_right _ hx)
  have hne : src.entries ≠ [] := by rw [hsplit]; simp
  have hpos := hwf.first_pos hne
  have hacc : dst.accepts (l :: ls) = true := by
    simp only [SLog.accepts, Bool.and_eq_true]
    refine ⟨⟨by rw [hli]; exact hcb, henc⟩, ?_⟩
    by_cases he : dst.entries = []
    · simp [he]; omega
    · have hf := hfirst he
      have : dst.entries.length ≠ 0 := by simpa using he
      simp [he, SLog.lastIndex, hf, hli]; omega
  have hst : dst.store (l :: ls) =
      ({ dst with first := if dst.entries.isEmpty then l.index else dst.first,
                  entries := dst.entries ++ l :: ls }, none) := by
    simp [SLog.store, hopen, hacc]
  refine ⟨_, hst, rfl, ?_, hopen⟩
  by_cases he : dst.entries = []
  · simp [he, hli]
  · simp [he, hfirst he]

/-- postcondition of the copy loop entered at iteration `iter` -/
def Post (src : Src) (c : Option Nat) (iter : Nat) (out : CopyOut) : Prop :=
  (∃ r, out.dst.entries ++ r = src.entries) ∧
  (∀ k, c = some k → iter ≤ k → k < src.entries.length → out.res = .ctxErr) ∧
  ((∀ k, c = some k → src.entries.length ≤ k) →
    out.res = .ok ∧ out.dst.entries = src.entries ∧ (src.entries ≠ [] → out.dst.first = src.first) ∧
    out.batches.flatten = src.entries ∧ ∀ b ∈ out.batches, b ≠ [])

theorem Post.step {src : Src} {c : Option Nat} {iter : Nat} {out : CopyOut}
    (hc : c.any (· ≤ iter) = false) (h : Post src c (iter + 1) out) : Post src c iter out := by
  refine ⟨h.1, ?_, h.2.2⟩
  intro k hk hik hlen
  subst hk
  simp only [Option.any_some, decide_eq_false_iff_not] at hc
  exact h.2.1 k rfl (by omega) hlen

theorem src_get_next (src : Src) (pre rest : List Log) (l : Log)
    (hsplit : src.entries = pre ++ l :: rest) :
    src.get (src.first + pre.length) = some l := by
  simp [Src.get, hsplit]

/-- loop invariant of `copyLoop`: at a loop head the source splits as `dst.entries ++ batch ++ rest` with
    `rest.length = fuel`, `iter = done`, `idx = first + done`, `dst` open, `bs` non-empty batches flattening to `dst` -/
theorem loop_inv (src : Src) (hwf : SrcWF src) (bb : Int) (c : Option Nat) :
    ∀ (fuel idx iter : Nat) (batch : List Log) (size : Int) (dst : SLog) (bs : List (List Log))
      (rest : List Log),
      rest.length = fuel →
      src.entries = dst.entries ++ batch ++ rest →
      iter = dst.entries.length + batch.length →
      idx = src.first + iter →
      dst.closed = false →
      (dst.entries ≠ [] → dst.first = src.first) →
      bs.flatten = dst.entries →
      (∀ b ∈ bs, b ≠ []) →
      Post src c iter (copyLoop src bb c fuel idx iter batch size dst bs) := by
  intro fuel
  induction fuel with
  | zero =>
    intro idx iter batch size dst bs rest hlen hsplit hiter hidx hopen hfirst hbs hne
    have hrest : rest = [] := List.eq_nil_of_length_eq_zero hlen
    subst hrest
    simp only [List.append_nil] at hsplit
    have hitlen : iter = src.entries.length := by rw [hsplit, hiter]; simp
    unfold copyLoop
    by_cases hb : batch = []
    · subst hb
      simp only [List.append_nil] at hsplit
      simp only [List.isEmpty_nil, if_true]
      refine ⟨⟨[], by simp [hsplit]⟩, ?_, ?_⟩
      · intro k _ h1 h2; omega
      · intro _
        refine ⟨rfl, hsplit.symm, ?_, by simp [hbs, hsplit], hne⟩
        intro h; exact hfirst (hsplit ▸ h)
    · obtain ⟨dst', hst, hent, hfst, _⟩ :=
        store_next src hwf dst batch [] (by simpa using hsplit) hb hopen hfirst
      have hbe : batch.isEmpty = false := by simpa using hb
      simp only [hbe, hst]
      refine ⟨⟨[], by simp [hent, hsplit]⟩, ?_, ?_⟩
      · intro k _ h1 h2; omega
      · intro _
        refine ⟨rfl, by simp [hent, hsplit], fun _ => hfst, by simp [hbs, hsplit], ?_⟩
        intro b hb'
        rcases List.mem_append.1 hb' with h | h
        · exact hne b h
        · simp at h; subst h; exact hb
  | succ fuel ih =>
    intro idx iter batch size dst bs rest hlen hsplit hiter hidx hopen hfirst hbs hne
    obtain ⟨l, rest', rfl⟩ : ∃ l rest', rest = l :: rest' := by
      cases rest with
      | nil => simp at hlen
      | cons l r => exact ⟨l, r, rfl⟩
    have hlen' : rest'.length = fuel := by simpa using hlen
    have hitlt : iter < src.entries.length := by rw [hsplit, hiter]; simp
    have hget : src.get idx = some l := by
      rw [hidx, hiter, ← List.length_append]
      exact src_get_next src _ rest' l hsplit
    unfold copyLoop
    by_cases hcan : c.any (· ≤ iter) = true
    · simp only [hcan, if_true]
      refine ⟨⟨batch ++ l :: rest', by rw [hsplit]; simp⟩, fun _ _ _ _ => rfl, ?_⟩
      intro hno
      obtain ⟨k, rfl⟩ : ∃ k, c = some k := by
        cases c with
        | none => simp at hcan
        | some k => exact ⟨k, rfl⟩
      have := hno k rfl
      simp at hcan
      omega
    · have hcan' : c.any (· ≤ iter) = false := by simpa using hcan
      simp only [hcan', hget, Bool.false_eq_true, if_false]
      apply Post.step hcan'
      have hsplit2 : src.entries = dst.entries ++ (batch ++ [l]) ++ rest' := by
        rw [hsplit]; simp
      split
      · -- flush
        obtain ⟨dst', hst, hent, hfst, hop'⟩ :=
          store_next src hwf dst (batch ++ [l]) rest' hsplit2 (by simp) hopen hfirst
        simp only [hst]
        apply ih (idx + 1) (iter + 1) [] 0 dst' (bs ++ [batch ++ [l]]) rest' hlen'
        · rw [hent, hsplit2]; simp
        · rw [hent, hiter]; simp; omega
        · omega
        · exact hop'
        · exact fun _ => hfst
        · simp [hbs, hent]
        · intro b hb'
          rcases List.mem_append.1 hb' with h | h
          · exact hne b h
          · simp at h; subst h; simp
      · apply ih (idx + 1) (iter + 1) (batch ++ [l]) _ dst bs rest' hlen' hsplit2
        · rw [hiter]; simp; omega
        · omega
        · exact hopen
        · exact hfirst
        · exact hbs
        · exact hne

/-- the guarded `copyLogs` from the empty destination satisfies the loop postcondition, for any oracle -/
theorem copyLogs_post (src : Src) (hwf : SrcWF src) (bb : Int) (c : Option Nat) :
    Post src c 0 (copyLogs { emptyGuard := true } src emptyDst bb c) := by
  by_cases he : src.entries = []
  · have hlast : src.last = 0 := by simp [Src.last, he]
    simp only [copyLogs, hlast, and_self, if_true]
    refine ⟨⟨[], by simp [emptyDst, he]⟩, ?_, ?_⟩
    · intro k _ _ hk; simp [he] at hk
    · intro _; simp [emptyDst, he]
  · have hpos := hwf.first_pos he
    have hlen : 0 < src.entries.length := List.length_pos_iff.2 he
    have hie : src.entries.isEmpty = false := by simpa using he
    have hlast : src.last = src.first + src.entries.length - 1 := by simp [Src.last, hie]
    have hfi : src.firstIndex = src.first := by simp [Src.firstIndex, hie]
    have hl0 : ¬ src.last = 0 := by omega
    have hfuel : src.last - src.first + 1 = src.entries.length := by omega
    simp only [copyLogs, hl0, and_false, if_false, hfi, hfuel]
    exact loop_inv src hwf bb c src.entries.length src.first 0 [] 0 emptyDst [] src.entries rfl
      (by simp [emptyDst]) (by simp [emptyDst]) rfl rfl (by simp [emptyDst]) (by simp [emptyDst])
      (by simp)

/-- **C19 copyLogs_exact**: for every source log (any first index, any length including 0, any entry sizes)
    and every batchBytes (including 0 and negative), with the empty-source guard in place and no cancellation,
    CopyLogs succeeds, the destination holds exactly the source's entries with the same first index, and the
    batches handed to the destination are non-empty and concatenate to the source -/
theorem copyLogs_exact (src : Src) (hwf : SrcWF src) (batchBytes : Int) :
    let out := copyLogs { emptyGuard := true } src emptyDst batchBytes none
    out.res = .ok ∧ out.dst.entries = src.entries ∧ (src.entries ≠ [] → out.dst.first = src.first) ∧
    out.dst.firstIndex = src.firstIndex ∧ out.dst.lastIndex = src.last ∧
    out.batches.flatten = src.entries ∧ (∀ b ∈ out.batches, b ≠ []) := by
  intro out
  obtain ⟨hres, hent, hfst, hfl, hne⟩ :=
    (copyLogs_post src hwf batchBytes none).2.2 (fun k hk => by cases hk)
  refine ⟨hres, hent, hfst, ?_, ?_, hfl, hne⟩
  · show out.dst.firstIndex = src.firstIndex
    simp only [SLog.firstIndex, Src.firstIndex]
    rw [show out.dst.entries = src.entries from hent]
    by_cases he : src.entries = []
    · simp [he]
    · simp [he]; exact hfst he
  · show out.dst.lastIndex = src.last
    simp only [SLog.lastIndex, Src.last]
    rw [show out.dst.entries = src.entries from hent]
    by_cases he : src.entries = []
    · simp [he]
    · have hf : out.dst.first = src.first := hfst he
      simp [he, hf]

/-- the defect of the pinned version, kept as a theorem about the unguarded loop: an empty source fails -/
theorem copyLogs_empty_source_unguarded (batchBytes : Int) :
    (copyLogs { emptyGuard := false } { first := 0, entries := [] } emptyDst batchBytes none).res = .otherErr := by
  simp [copyLogs, Src.last, Src.firstIndex, copyLoop, Src.get]

/-- **C19 cancellation**: if the context is cancelled at loop iteration `k` (0-based) the destination holds a
    prefix of the source; the result is the context's error whenever the loop reaches iteration `k`
    (`k < length`), otherwise the copy completes -/
theorem copyLogs_cancel_prefix (src : Src) (hwf : SrcWF src) (batchBytes : Int) (k : Nat) :
    let out := copyLogs { emptyGuard := true } src emptyDst batchBytes (some k)
    (∃ rest, out.dst.entries ++ rest = src.entries) ∧
    (k < src.entries.length → out.res = .ctxErr) ∧
    (src.entries.length ≤ k → out.res = .ok ∧ out.dst.entries = src.entries) := by
  intro out
  obtain ⟨hpre, hcan, hfull⟩ := copyLogs_post src hwf batchBytes (some k)
  refine ⟨hpre, fun hk => hcan k rfl (Nat.zero_le _) hk, fun hk => ?_⟩
  obtain ⟨h1, h2, _⟩ := hfull (fun k' hk' => by cases hk'; exact hk)
  exact ⟨h1, h2⟩

/-! ## CopyStable -/

theorem find_upd_same {β : Type} (xs : List (Bytes × β)) (k : Bytes) (v : β) :
    (xs.filter (·.1 ≠ k) ++ [(k, v)]).find? (·.1 = k) = some (k, v) := by
  have h : (xs.filter (·.1 ≠ k)).find? (·.1 = k) = none := by
    rw [List.find?_eq_none]
    intro x hx
    have := (List.mem_filter.1 hx).2
    simpa using this
  rw [List.find?_append, h]
  simp

theorem find_upd_other {β : Type} (xs : List (Bytes × β)) (k k' : Bytes) (v : β) (hk : k' ≠ k) :
    (xs.filter (·.1 ≠ k) ++ [(k, v)]).find? (·.1 = k') = xs.find? (·.1 = k') := by
  have h : (xs.filter (·.1 ≠ k)).find? (·.1 = k') = xs.find? (·.1 = k') := by
    rw [List.find?_filter]
    congr 1
    funext a
    by_cases ha : a.1 = k' <;> simp [ha, hk]
  have h2 : ¬ k = k' := fun h => hk h.symm
  rw [List.find?_append, h]
  simp [h2]

theorem copyInts_ok (src : Stable) :
    ∀ (ks : List Bytes) (it : Nat) (dst : Stable), (∀ k ∈ ks, (src.getU k).isSome) →
      ∃ dst', copyInts src none ks it dst = (.ok, dst', it + ks.length) ∧ dst'.kvs = dst.kvs ∧
        ∀ k, dst'.ints.find? (·.1 = k) =
          if k ∈ ks then (src.getU k).map (fun v => (k, v)) else dst.ints.find? (·.1 = k)
  | [], it, dst, _ => ⟨dst, rfl, rfl, by simp⟩
  | k0 :: ks, it, dst, h => by
    obtain ⟨v, hv⟩ := Option.isSome_iff_exists.1 (h k0 (by simp))
    obtain ⟨dst', hrun, hkvs, hfind⟩ :=
      copyInts_ok src ks (it + 1) (dst.setU k0 v) (fun k hk => h k (by simp [hk]))
    refine ⟨dst', ?_, hkvs, ?_⟩
    · simp only [copyInts, Option.any_none, Bool.false_eq_true, if_false, hv, hrun, List.length_cons]
      congr 2; omega
    · intro k
      rw [hfind k]
      by_cases hin : k ∈ ks
      · simp [hin]
      · by_cases hk0 : k = k0
        · subst hk0
          simp only [hin, if_false, List.mem_cons, true_or, if_true, hv, Option.map_some]
          exact find_upd_same dst.ints k v
        · simp only [hin, if_false, List.mem_cons, hk0, false_or]
          exact find_upd_other dst.ints k0 k v hk0

theorem copyKVs_ok (src : Stable) :
    ∀ (ks : List Bytes) (it : Nat) (dst : Stable), (∀ k ∈ ks, (src.get k).isSome) →
      ∃ dst', copyKVs src none ks it dst = (.ok, dst') ∧ dst'.ints = dst.ints ∧
        ∀ k, dst'.kvs.find? (·.1 = k) =
          if k ∈ ks then (src.get k).map (fun v => (k, v)) else dst.kvs.find? (·.1 = k)
  | [], it, dst, _ => ⟨dst, rfl, rfl, by simp⟩
  | k0 :: ks, it, dst, h => by
    obtain ⟨v, hv⟩ := Option.isSome_iff_exists.1 (h k0 (by simp))
    obtain ⟨dst', hrun, hints, hfind⟩ :=
      copyKVs_ok src ks (it + 1) (dst.set k0 v) (fun k hk => h k (by simp [hk]))
    refine ⟨dst', ?_, hints, ?_⟩
    · simp only [copyKVs, Option.any_none, Bool.false_eq_true, if_false, hv, hrun]
    · intro k
      rw [hfind k]
      by_cases hin : k ∈ ks
      · simp [hin]
      · by_cases hk0 : k = k0
        · subst hk0
          simp only [hin, if_false, List.mem_cons, true_or, if_true, hv, Option.map_some]
          exact find_upd_same dst.kvs k v
        · simp only [hin, if_false, List.mem_cons, hk0, false_or]
          exact find_upd_other dst.kvs k0 k v hk0

/-- **C19 copyStable**: when every requested key is readable on the source (present, or absent on a store that
    answers absent keys with the zero value) every requested key ends up on the destination with the source's
    answer -/
theorem copyStable_copies (knownInt known extraKeys extraIntKeys : List Bytes) (src dst : Stable)
    (hint : ∀ k ∈ knownInt ++ extraIntKeys, (src.getU k).isSome)
    (hkv : ∀ k ∈ known ++ extraKeys, (src.get k).isSome) :
    let (r, dst') := copyStable knownInt known src dst extraKeys extraIntKeys none
    r = .ok ∧ (∀ k ∈ knownInt ++ extraIntKeys, dst'.ints.find? (·.1 = k) = (src.getU k).map (fun v => (k, v))) ∧
    (∀ k ∈ known ++ extraKeys, dst'.kvs.find? (·.1 = k) = (src.get k).map (fun v => (k, v))) := by
  obtain ⟨d1, hrun1, _, hf1⟩ := copyInts_ok src (knownInt ++ extraIntKeys) 0 dst hint
  obtain ⟨d2, hrun2, hints2, hf2⟩ :=
    copyKVs_ok src (known ++ extraKeys) (0 + (knownInt ++ extraIntKeys).length) d1 hkv
  have hrun : copyStable knownInt known src dst extraKeys extraIntKeys none = (.ok, d2) := by
    simp only [copyStable, hrun1, hrun2]
  rw [hrun]
  refine ⟨rfl, ?_, ?_⟩
  · intro k hk
    show d2.ints.find? _ = _
    rw [hints2, hf1 k, if_pos hk]
  · intro k hk
    show d2.kvs.find? _ = _
    rw [hf2 k, if_pos hk]

/-- a run with oracle `some c` that has not fired before the end coincides with an `ok` run -/
theorem copyInts_late (src : Stable) (c : Nat) :
    ∀ (ks : List Bytes) (it : Nat) (dst : Stable), (∀ k ∈ ks, (src.getU k).isSome) →
      it + ks.length ≤ c → ∃ dst', copyInts src (some c) ks it dst = (.ok, dst', it + ks.length)
  | [], it, dst, _, _ => ⟨dst, rfl⟩
  | k0 :: ks, it, dst, h, hc => by
    obtain ⟨v, hv⟩ := Option.isSome_iff_exists.1 (h k0 (by simp))
    simp only [List.length_cons] at hc
    obtain ⟨dst', hrun⟩ :=
      copyInts_late src c ks (it + 1) (dst.setU k0 v) (fun k hk => h k (by simp [hk])) (by omega)
    have hnc : ¬ c ≤ it := by omega
    refine ⟨dst', ?_⟩
    simp only [copyInts, Option.any_some, hnc, decide_false, Bool.false_eq_true, if_false, hv, hrun,
      List.length_cons]
    congr 2; omega

theorem copyInts_cancel (src : Stable) (c : Nat) :
    ∀ (ks : List Bytes) (it : Nat) (dst : Stable), (∀ k ∈ ks, (src.getU k).isSome) →
      it ≤ c → c < it + ks.length → (copyInts src (some c) ks it dst).1 = .ctxErr
  | [], it, dst, _, h1, h2 => by simp at h2; omega
  | k0 :: ks, it, dst, h, h1, h2 => by
    obtain ⟨v, hv⟩ := Option.isSome_iff_exists.1 (h k0 (by simp))
    simp only [List.length_cons] at h2
    by_cases hc : c ≤ it
    · simp [copyInts, hc]
    · simp only [copyInts, Option.any_some, hc, decide_false, Bool.false_eq_true, if_false, hv]
      exact copyInts_cancel src c ks (it + 1) (dst.setU k0 v) (fun k hk => h k (by simp [hk]))
        (by omega) (by omega)

theorem copyKVs_cancel (src : Stable) (c : Nat) :
    ∀ (ks : List Bytes) (it : Nat) (dst : Stable), (∀ k ∈ ks, (src.get k).isSome) →
      it ≤ c → c < it + ks.length → (copyKVs src (some c) ks it dst).1 = .ctxErr
  | [], it, dst, _, h1, h2 => by simp at h2; omega
  | k0 :: ks, it, dst, h, h1, h2 => by
    obtain ⟨v, hv⟩ := Option.isSome_iff_exists.1 (h k0 (by simp))
    simp only [List.length_cons] at h2
    by_cases hc : c ≤ it
    · simp [copyKVs, hc]
    · simp only [copyKVs, Option.any_some, hc, decide_false, Bool.false_eq_true, if_false, hv]
      exact copyKVs_cancel src c ks (it + 1) (dst.set k0 v) (fun k hk => h k (by simp [hk]))
        (by omega) (by omega)

/-- cancellation of CopyStable returns the context's error (or ok when the oracle fires after the last key) -/
theorem copyStable_cancel (knownInt known extraKeys extraIntKeys : List Bytes) (src dst : Stable) (k : Nat)
    (hint : ∀ k ∈ knownInt ++ extraIntKeys, (src.getU k).isSome)
    (hkv : ∀ k ∈ known ++ extraKeys, (src.get k).isSome)
    (hk : k < (knownInt ++ extraIntKeys).length + (known ++ extraKeys).length) :
    (copyStable knownInt known src dst extraKeys extraIntKeys (some k)).1 = .ctxErr := by
  by_cases h1 : k < (knownInt ++ extraIntKeys).length
  · have hc := copyInts_cancel src k (knownInt ++ extraIntKeys) 0 dst hint (Nat.zero_le _) (by omega)
    generalize hrun : copyInts src (some k) (knownInt ++ extraIntKeys) 0 dst = res at hc
    obtain ⟨r, d, i⟩ := res
    simp only at hc
    subst hc
    simp only [copyStable, hrun]
  · obtain ⟨d1, hrun1⟩ := copyInts_late src k (knownInt ++ extraIntKeys) 0 dst hint (by omega)
    simp only [copyStable, hrun1]
    exact copyKVs_cancel src k (known ++ extraKeys) _ d1 hkv (by omega) (by omega)

end RaftWal.Migrate
