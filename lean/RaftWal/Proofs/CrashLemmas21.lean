/-
  Proofs/CrashLemmas21.lean — tail truncation: which segments are kept.
-/
import RaftWal.Proofs.CrashLemmas20
namespace RaftWal.Crash

theorem filter_eq_takeWhile {α : Type} {p : α → Bool} {l : List α}
    (h : l.Pairwise (fun a b => p b = true → p a = true)) :
    l.filter p = l.takeWhile p ∧ l.filter (fun x => !p x) = l.dropWhile p := by
  induction l with
  | nil => simp
  | cons a l ih =>
    have h' := List.pairwise_cons.1 h
    have ih := ih h'.2
    cases hp : p a with
    | true =>
      simp only [List.filter_cons, hp, ↓reduceIte, List.takeWhile_cons, List.dropWhile_cons, Bool.not_true,
        Bool.false_eq_true]
      exact ⟨by rw [ih.1], ih.2⟩
    | false =>
      have hall : ∀ b ∈ l, p b = false := by
        intro b hb
        cases hb' : p b with
        | false => rfl
        | true => have := h'.1 b hb hb'; rw [hp] at this; cases this
      simp only [List.filter_cons, hp, Bool.false_eq_true, ↓reduceIte, List.takeWhile_cons, List.dropWhile_cons,
        Bool.not_false]
      constructor
      · apply List.filter_eq_nil_iff.2; intro b hb; simp [hall b hb]
      · congr 1; apply List.filter_eq_self.2; intro b hb; simp [hall b hb]

theorem specApply_delTail (l : Log) (newMax : Nat) :
    specApply l (.delTail newMax) = l.filter (fun p => decide (p.1 ≤ newMax)) := rfl

def keptB (newMax : Nat) (s : Seg) : Bool := decide (s.base ≤ newMax)

theorem delTailProg_eq (d : Disk) (newMax : Nat) :
    delTailProg d newMax =
      match (d.md.segs.filter (keptB newMax)).getLast? with
      | none => []
      | some t =>
        (if t.sealed then [] else [.write t.id [] true, .fsync t.id]) ++
          newTailActs d.md (setSeg (d.md.segs.filter (keptB newMax)) { t with sealed := true, max := newMax }) (newMax + 1) ++
          (d.md.segs.filter (fun s => !keptB newMax s)).map (fun s => .delete s.id) ++ [.ack] := rfl

theorem Base.seg_base_le_min {d : Disk} {P : List Seg} {t : Seg} (hb : Base d P t) {s : Seg} (hs : s ∈ P ++ [t]) :
    s.base ≤ s.min := by
  simp only [List.mem_append, List.mem_cons, List.not_mem_nil, or_false] at hs
  rcases hs with h1 | rfl
  · exact (hb.sealed s h1).bounds.1
  · exact hb.tbm

/-- a segment whose base is at or below an index that is at or above the first index shows from `min ≤` that index -/
theorem Base.seg_min_le {d : Disk} {P : List Seg} {t : Seg} (hb : Base d P t) {A B : List Seg} {s : Seg}
    (e : P ++ [t] = A ++ s :: B) (hne : absLog d ≠ []) {m : Nat} (hf : firstIndex d ≤ m) (hbm : s.base ≤ m) :
    s.min ≤ m := by
  rcases eq_nil_or_snoc A with ha | ⟨A0, p, ha⟩
  · subst ha
    obtain ⟨q, hq, hq1⟩ := firstIndex_mem hne
    have := hb.ge_min (by simpa using e) hq
    omega
  · subst ha
    have hch := hb.chain
    rw [e, chainOK_append] at hch
    have := hch.2.2 p s (by simp) rfl
    omega

theorem Base.keptB_pw {d : Disk} {P : List Seg} {t : Seg} (hb : Base d P t) (newMax : Nat) :
    (P ++ [t]).Pairwise (fun a b => keptB newMax b = true → keptB newMax a = true) := by
  apply hb.pw.imp
  intro a b hab hk
  simp only [keptB, decide_eq_true_eq] at hk ⊢
  unfold SegLt at hab
  omega

/-- the kept segments are a non-empty prefix: all of them, or up to a sealed one -/
theorem delTail_split {d : Disk} {P : List Seg} {t : Seg} {f : File} (h : QS d P t f) {newMax : Nat}
    (hok : (Op.delTail newMax).ok d) :
    (d.md.segs.filter (keptB newMax) = P ++ [t] ∧ d.md.segs.filter (fun s => !keptB newMax s) = [] ∧
      t.base ≤ newMax) ∨
    (∃ K0 tk D', P = K0 ++ tk :: D' ∧ d.md.segs.filter (keptB newMax) = K0 ++ [tk] ∧
      d.md.segs.filter (fun s => !keptB newMax s) = D' ++ [t] ∧ tk.base ≤ newMax ∧
      ∀ s ∈ D' ++ [t], newMax < s.base) := by
  have hb := h.base
  obtain ⟨h1, h2⟩ := filter_eq_takeWhile (hb.keptB_pw newMax)
  rw [hb.segs]
  have hmem : ∀ s ∈ (P ++ [t]).filter (fun s => !keptB newMax s), newMax < s.base := by
    intro s hs
    have := (List.mem_filter.1 hs).2
    simpa [keptB] using this
  have hmemk : ∀ s ∈ (P ++ [t]).filter (keptB newMax), s.base ≤ newMax := by
    intro s hs
    have := (List.mem_filter.1 hs).2
    simpa [keptB] using this
  cases hdw : (P ++ [t]).dropWhile (keptB newMax) with
  | nil =>
    have : (P ++ [t]).takeWhile (keptB newMax) = P ++ [t] := by
      have := List.takeWhile_append_dropWhile (p := keptB newMax) (l := P ++ [t])
      rw [hdw, List.append_nil] at this; exact this
    refine Or.inl ⟨by rw [h1, this], by rw [h2, hdw], ?_⟩
    apply hmemk
    rw [h1, this]; simp
  | cons x rest' =>
    have hsplit := (dropWhile_cons hdw).2
    rcases eq_nil_or_snoc ((P ++ [t]).takeWhile (keptB newMax)) with htw | ⟨K0, tk, htw⟩
    · -- impossible: the first segment is kept
      exfalso
      rw [htw, List.nil_append] at hsplit
      have hx : newMax < x.base := hmem x (by rw [h2, hdw]; simp)
      have hxm : x ∈ P ++ [t] := by rw [hsplit]; simp
      have := hb.seg_base_le_min hxm
      obtain ⟨q, hq, hq1⟩ := firstIndex_mem hok.1
      have := hb.ge_min hsplit hq
      have := hok.2.1
      omega
    · rw [htw] at hsplit
      have e : P ++ [t] = K0 ++ tk :: (x :: rest') := by rw [hsplit]; simp
      rcases split_last e.symm with ⟨hr, _, _⟩ | ⟨r0, hr, hP⟩
      · cases hr
      · refine Or.inr ⟨K0, tk, r0, hP, by rw [h1, htw], by rw [h2, hdw, hr], ?_, ?_⟩
        · apply hmemk; rw [h1, htw]; simp
        · intro s hs; apply hmem; rw [h2, hdw, hr]; exact hs

end RaftWal.Crash
