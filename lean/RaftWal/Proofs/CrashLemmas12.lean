/-
  Proofs/CrashLemmas12.lean — `QO` (quiescent up to orphan files); where an append lands; the append phase of
  StoreLogs up to its acknowledgement.
-/
import RaftWal.Proofs.CrashLemmas11
namespace RaftWal.Crash

/-- quiescent except that files no segment names may be present -/
structure QO (d : Disk) (P : List Seg) (t : Seg) (f : File) : Prop where
  base : Base d P t
  tf : d.file? t.id = some f
  qt : QTail t f
  vis : f.synced ≠ [] → t.min < f.base + f.synced.length

theorem QS.toQO {d : Disk} {P : List Seg} {t : Seg} {f : File} (h : QS d P t f) : QO d P t f :=
  ⟨h.base, h.tf, h.qt, h.vis⟩

theorem QO.toQS {d : Disk} {P : List Seg} {t : Seg} {f : File} (h : QO d P t f)
    (hsub : ∀ j ∈ fids d, j ∈ segIds (P ++ [t])) : QS d P t f :=
  ⟨h.base, h.tf, h.qt, h.vis, hsub⟩

theorem QO.log_eq {d : Disk} {P : List Seg} {t : Seg} {f : File} (h : QO d P t f) :
    absLog d = logP d P ++ visU t.min f.base f.synced := by
  have hc : f.content = f.synced := by simp [File.content, h.qt.pend]
  rw [absLog_eq, h.base.segs, logP_append, logP_single, segEntries_some h.tf, visF_unsealed h.qt.sl, hc]

theorem QO.toRec {A : Log → Prop} {d : Disk} {P : List Seg} {t : Seg} {f : File} (h : QO d P t f)
    (ha : A (absLog d)) : Rec A d P t := by
  rw [h.log_eq] at ha
  refine ⟨h.base, ?_, ?_⟩
  · intro g hg
    rw [h.tf] at hg; cases hg
    refine ⟨h.qt.base, ?_, h.qt.mn, h.vis, ?_, ?_, ha, ?_⟩
    · rcases h.qt.lk with h1 | h1
      · exact Or.inl h1
      · exact Or.inr ⟨h1, h.qt.ss⟩
    · intro hc; rw [h.qt.ss] at hc; cases hc
    · intro hc; rw [h.qt.sp] at hc; cases hc
    · rw [h.qt.pend, List.append_nil]; exact ha
  · intro hn; rw [h.tf] at hn; cases hn

theorem Rec.toQO {A : Log → Prop} {d : Disk} {P : List Seg} {t : Seg} (h : Rec A d P t) (hc : CleanTail d t) :
    ∃ f, QO d P t f ∧ A (absLog d) := by
  obtain ⟨f, hf, hp, hss, hsp⟩ := hc
  have hr := h.tsome f hf
  have hq : QO d P t f := by
    refine ⟨h.base, hf, ⟨hr.base, hp, hsp, h.base.tbm, h.base.tb1, h.base.tsl, hss, ?_, hr.mn⟩, hr.vis⟩
    rcases hr.lk with h1 | h1
    · exact Or.inl h1
    · exact Or.inr h1.1
  exact ⟨f, hq, by rw [hq.log_eq]; exact hr.a1⟩

/-- an empty log: no sealed segment, an empty tail file -/
theorem QO.empty {d : Disk} {P : List Seg} {t : Seg} {f : File} (h : QO d P t f) (he : absLog d = []) :
    P = [] ∧ f.synced = [] := by
  rw [h.log_eq] at he
  have := List.append_eq_nil_iff.1 he
  refine ⟨logP_nil_imp h.base.sealed this.1, ?_⟩
  apply Classical.byContradiction
  intro hx
  exact visU_ne_nil hx (h.vis hx) this.2

/-- the next index to append is the end of the tail's file -/
theorem QO.next {d : Disk} {P : List Seg} {t : Seg} {f : File} (h : QO d P t f) (hne : absLog d ≠ []) :
    lastIndex d + 1 = f.base + f.synced.length := by
  unfold lastIndex
  rw [h.log_eq] at hne ⊢
  by_cases hx : f.synced = []
  · rw [hx, visU_nil, List.append_nil] at hne ⊢
    have hP : P ≠ [] := by intro e; rw [e] at hne; exact hne rfl
    have hsplit := List.dropLast_concat_getLast hP
    generalize P.getLast hP = p at hsplit
    have hp : p ∈ P := by rw [← hsplit]; simp
    obtain ⟨e, he⟩ := logP_getLast (P := P.dropLast) (h.base.sealed p hp)
    rw [hsplit] at he
    rw [he]
    have hch := h.base.chain
    rw [← hsplit, List.append_assoc, chainOK_append] at hch
    have := ((chainOK_cons_cons p t []).1 hch.2.1).1.1
    simp only [List.length_nil, Nat.add_zero]
    rw [h.qt.base]; omega
  · obtain ⟨e, he⟩ := visU_getLast hx (h.vis hx)
    rw [List.getLast?_append, he]
    have := List.length_pos_iff.2 hx
    simp only [Option.some_or]
    omega

theorem Rec.deleteIds {A : Log → Prop} {P : List Seg} {t : Seg} (ids : List Nat) {d : Disk} (h : Rec A d P t)
    (hid : ∀ j ∈ ids, ∀ s ∈ P ++ [t], s.id ≠ j) : Rec A (d.applyAll (ids.map .delete)) P t := by
  apply h.deletes
  intro a ha
  obtain ⟨j, hj, rfl⟩ := List.mem_map.1 ha
  exact Or.inr ⟨j, rfl, hid j hj⟩

/-! ### the append phase: write, fsync, drop the replaced tail, acknowledge -/

/-- the log after the append -/
def appLog (d : Disk) (P : List Seg) (t : Seg) (f : File) (es : List Entry) : Log :=
  logP d P ++ visU t.min f.base (f.synced ++ es)

theorem appLog_eq {d : Disk} {P : List Seg} {t : Seg} {f : File} (h : QO d P t f) (es : List Entry) :
    appLog d P t f es = absLog d ++ idxFrom (f.base + f.synced.length) es := by
  have := h.qt.mn
  rw [appLog, h.log_eq, visU_append, visU_all es this, List.append_assoc]

/-- the state after write, fsync and the deletions -/
def appState (d : Disk) (tid : Nat) (es : List Entry) (sl : Bool) (ids : List Nat) : Disk :=
  ((d.apply (.write tid es sl)).apply (.fsync tid)).applyAll (ids.map .delete)

theorem app_pre {d : Disk} {P : List Seg} {t : Seg} {f : File} (h : QO d P t f) (es : List Entry) (sl : Bool)
    (hes : es ≠ []) (ids : List Nat) (hid : ∀ j ∈ ids, ∀ s ∈ P ++ [t], s.id ≠ j) (k : Nat) :
    Rec (fun l => l = absLog d ∨ l = appLog d P t f es)
      (d.applyAll ((Act.write t.id es sl :: Act.fsync t.id :: ids.map .delete).take k)) P t := by
  have h0 : Rec (fun l => l = absLog d ∨ l = appLog d P t f es) d P t := h.toRec (Or.inl rfl)
  have h1 : Rec (fun l => l = absLog d ∨ l = appLog d P t f es) (d.apply (.write t.id es sl)) P t :=
    h0.write h.tf h.qt.pend h.qt.ss h.qt.sp es sl (fun _ hc => hes (List.append_eq_nil_iff.1 hc).2)
      (Or.inl h.log_eq.symm) (Or.inr rfl)
  have hf1 : (d.apply (.write t.id es sl)).file? t.id = some (f.wr es sl) := by
    rw [apply_write_file?]; simp [h.tf]
  have hl1 : logP (d.apply (.write t.id es sl)) P = logP d P := (h.base.write t.id es sl h.base.tid_ne).2
  have h2 : Rec (fun l => l = absLog d ∨ l = appLog d P t f es) ((d.apply (.write t.id es sl)).apply (.fsync t.id)) P t :=
    h1.fsync hf1 (Or.inr (by simp [hl1, appLog, File.wr, h.qt.pend]))
  rcases k with _ | _ | k
  · simpa using h0
  · simpa using h1
  · simp only [List.take_succ_cons, applyAll_cons, ← List.map_take]
    exact h2.deleteIds _ (fun j hj => hid j (List.mem_of_mem_take hj))

/-- the state at the acknowledgement: the batch is durable -/
theorem app_ack {d : Disk} {P : List Seg} {t : Seg} {f : File} (h : QO d P t f) (es : List Entry) (sl : Bool)
    (hes : es ≠ []) (ids : List Nat) (hid : ∀ j ∈ ids, ∀ s ∈ P ++ [t], s.id ≠ j) :
    Rec (fun l => l = appLog d P t f es) (appState d t.id es sl ids) P t ∧
    ∃ f2, (appState d t.id es sl ids).file? t.id = some f2 ∧ f2.base = f.base ∧ f2.synced = f.synced ++ es ∧
      f2.pending = [] ∧ f2.sealedS = sl ∧ f2.sealedP = false := by
  have h1 : Rec (fun l => l = absLog d ∨ l = appLog d P t f es) (d.apply (.write t.id es sl)) P t := by
    simpa using app_pre h es sl hes [] (by simp) 1
  have hf1 : (d.apply (.write t.id es sl)).file? t.id = some (f.wr es sl) := by
    rw [apply_write_file?]; simp [h.tf]
  have hl1 : logP (d.apply (.write t.id es sl)) P = logP d P := (h.base.write t.id es sl h.base.tid_ne).2
  have h2 : Rec (fun l => l = appLog d P t f es) ((d.apply (.write t.id es sl)).apply (.fsync t.id)) P t :=
    h1.fsync hf1 (by simp [hl1, appLog, File.wr, h.qt.pend])
  obtain ⟨f2, hf2, g1, g2, g3, g4, g5, _⟩ := fsync_file h1.base.hl hf1
  refine ⟨h2.deleteIds ids hid, f2, ?_, g1, ?_, g3, ?_, g5⟩
  · unfold appState
    rw [deletes_file? _ _ _ (fun hj => hid _ hj t (by simp) rfl)]
    exact hf2
  · rw [g2]; simp [File.wr, h.qt.pend]
  · rw [g4]; simp [File.wr, h.qt.ss, h.qt.sp]

end RaftWal.Crash
