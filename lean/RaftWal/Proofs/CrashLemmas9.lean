/-
  Proofs/CrashLemmas9.lean — every prefix of what Open does before removing the orphans preserves `Rec`.
-/
import RaftWal.Proofs.CrashLemmas8
namespace RaftWal.Crash

/-- the tail's file has nothing pending and no seal: a live process can work with it -/
def CleanTail (d : Disk) (t : Seg) : Prop :=
  ∃ f, d.file? t.id = some f ∧ f.pending = [] ∧ f.sealedS = false ∧ f.sealedP = false

structure PreRes (A : Log → Prop) (d0 : Disk) (P : List Seg) (t : Seg) (d' : Disk) (P' : List Seg) (t' : Seg) : Prop where
  rc : Rec A d' P' t'
  orph : ∀ s ∈ P' ++ [t'], s.id ∈ segIds (P ++ [t]) ∨ s.id = d0.md.nextID
  ids : ∀ j ∈ segIds (P ++ [t]), j ∈ segIds (P' ++ [t'])
  fsub : ∀ j ∈ fids d', j ∈ fids d0 ∨ j ∈ segIds (P' ++ [t'])
  stable : d'.md.stable = d0.md.stable

theorem PreRes.refl {A : Log → Prop} {d : Disk} {P : List Seg} {t : Seg} (h : Rec A d P t) : PreRes A d P t d P t :=
  ⟨h, fun s hs => Or.inl (List.mem_map.2 ⟨s, hs, rfl⟩), fun _ hj => hj, fun _ hj => Or.inl hj, rfl⟩

theorem take_one {α : Type} (a : α) (k : Nat) : [a].take (k + 1) = [a] := by simp

theorem open_pre_steps {A : Log → Prop} {d : Disk} {P : List Seg} {t : Seg} (h : Rec A d P t) (k : Nat) :
    ∃ P' t', PreRes A d P t (d.applyAll ((openPre d t).take k)) P' t' ∧
      ((openPre d t).length ≤ k → CleanTail (d.applyAll ((openPre d t).take k)) t') := by
  have hb := h.base
  unfold openPre
  cases hf : d.file? t.id with
  | none =>
    simp only
    cases k with
    | zero => exact ⟨P, t, by simpa using PreRes.refl h, by simp⟩
    | succ k =>
      rw [take_one]
      have hr := h.create hf
      refine ⟨P, t, ⟨hr, fun s hs => Or.inl (List.mem_map.2 ⟨s, hs, rfl⟩), fun _ hj => hj, ?_, by simp⟩, ?_⟩
      · intro j hj
        simp only [applyAll_cons, applyAll_nil, fids_create d _ _ hf, List.mem_append, List.mem_cons,
          List.not_mem_nil, or_false] at hj
        rcases hj with hj | rfl
        · exact Or.inl hj
        · exact Or.inr (by simp [segIds])
      · intro _
        refine ⟨File.fresh t.id t.base, ?_, rfl, rfl, rfl⟩
        simp [apply_create_file? d _ _ hf]
  | some f =>
    have hr := h.tsome f hf
    have hfid : f.id = t.id := (file?_some_mem hf).2
    simp only
    cases hsl : f.isSealed with
    | false =>
      have hss : f.sealedS = false ∧ f.sealedP = false := by simpa [File.isSealed] using hsl
      simp only [Bool.not_false, Bool.and_true, Bool.false_eq_true, ↓reduceIte, List.append_nil]
      cases hce : f.content.isEmpty with
      | true =>
        simp only [↓reduceIte, List.take_nil, applyAll_nil]
        refine ⟨P, t, PreRes.refl h, fun _ => ⟨f, hf, ?_, hss.1, hss.2⟩⟩
        have : f.synced ++ f.pending = [] := by simpa [File.content] using hce
        exact (List.append_eq_nil_iff.1 this).2
      | false =>
        simp only [Bool.false_eq_true, ↓reduceIte]
        cases k with
        | zero => exact ⟨P, t, by simpa using PreRes.refl h, by simp⟩
        | succ k =>
          rw [take_one, hfid]
          have hr' := h.fsync hf hr.a2
          obtain ⟨f', hf', h1, h2, h3, h4, h5, h6, _⟩ := fsync_file hb.hl hf
          refine ⟨P, t, ⟨hr', fun s hs => Or.inl (List.mem_map.2 ⟨s, hs, rfl⟩), fun _ hj => hj, ?_, by simp⟩, ?_⟩
          · intro j hj
            simp only [applyAll_cons, applyAll_nil, fids_fsync] at hj
            exact Or.inl hj
          · intro _
            exact ⟨f', by simpa using hf', h3, by simp [h4, hss.1, hss.2], h5⟩
    | true =>
      have hne : (f.content.isEmpty && !true) = false := by simp
      simp only [hne, Bool.false_eq_true, ↓reduceIte, newTailActs, hb.segs]
      rw [setSeg_tail (t' := { t with sealed := true, max := f.lastIdx }) hb.tid_ne rfl, hfid]
      -- the three states
      obtain ⟨f1, hf1, g1, g2, g3, g4, g5, g6, _⟩ := fsync_file hb.hl hf
      have hr1 := h.fsync hf hr.a2
      have hrt1 := hr1.tsome f1 hf1
      have hss1 : f1.sealedS = true := by rw [g4]; simpa [File.isSealed] using hsl
      have hne1 := (hrt1.ss hss1).2.2
      have hlen : 0 < f1.synced.length := List.length_pos_iff.2 hne1
      have hvis1 := hrt1.vis hne1
      have hli : f.lastIdx = f1.base + f1.synced.length - 1 := by
        simp [File.lastIdx, File.content, g1, g2]
      have hc1 : f1.content = f1.synced := by simp [File.content, g3]
      have hr2 := hr1.rotate (A' := A) hf1 hss1 f.lastIdx (by omega) (by omega) d.md.stable (by
        rw [visF_sealed_full _ _ _ (by rw [hc1]; omega), hc1]
        exact hrt1.a1)
      have hmd1 : (d.apply (.fsync t.id)).md = d.md := rfl
      rw [hmd1] at hr2
      have hnone2 : ((d.apply (.fsync t.id)).apply (.commit ⟨d.md.nextID + 1,
          P ++ [{ t with sealed := true, max := f.lastIdx }] ++ [newSeg d.md.nextID (f.lastIdx + 1)], d.md.stable⟩)).file?
            (newSeg d.md.nextID (f.lastIdx + 1)).id = none := by
        simp only [apply_commit_file?, newSeg]
        rw [file?_none_iff, fids_fsync]
        intro hc; exact Nat.lt_irrefl _ (hb.fidlt _ hc)
      have hr3 : Rec A (((d.apply (.fsync t.id)).apply (.commit ⟨d.md.nextID + 1,
          P ++ [{ t with sealed := true, max := f.lastIdx }] ++ [newSeg d.md.nextID (f.lastIdx + 1)], d.md.stable⟩)).apply
            (.create d.md.nextID (f.lastIdx + 1))) _ _ := hr2.create hnone2
      have hids : ∀ s ∈ (P ++ [{ t with sealed := true, max := f.lastIdx }]) ++ [newSeg d.md.nextID (f.lastIdx + 1)],
          s.id ∈ segIds (P ++ [t]) ∨ s.id = d.md.nextID := by
        intro s hs
        simp only [List.mem_append, List.mem_cons, List.not_mem_nil, or_false] at hs
        rcases hs with (hs | rfl) | rfl
        · exact Or.inl (List.mem_map.2 ⟨s, by simp [hs], rfl⟩)
        · exact Or.inl (List.mem_map.2 ⟨t, by simp, rfl⟩)
        · exact Or.inr rfl
      have hids2 : ∀ j ∈ segIds (P ++ [t]),
          j ∈ segIds ((P ++ [{ t with sealed := true, max := f.lastIdx }]) ++ [newSeg d.md.nextID (f.lastIdx + 1)]) := by
        intro j hj
        simp only [segIds, List.map_append, List.map_cons, List.map_nil, List.mem_append, List.mem_cons,
          List.not_mem_nil, or_false] at hj ⊢
        rcases hj with hj | hj
        · exact Or.inl (Or.inl hj)
        · exact Or.inl (Or.inr hj)
      simp only [List.cons_append, List.nil_append]
      rcases k with _ | _ | _ | k
      · exact ⟨P, t, by simpa using PreRes.refl h, by simp⟩
      · refine ⟨P, t, ⟨by simpa using hr1, fun s hs => Or.inl (List.mem_map.2 ⟨s, hs, rfl⟩), fun _ hj => hj, ?_, by simp⟩,
          by simp⟩
        intro j hj
        simp only [List.take_succ_cons, List.take_zero, applyAll_cons, applyAll_nil, fids_fsync] at hj
        exact Or.inl hj
      · refine ⟨_, _, ⟨by simpa using hr2, hids, hids2, ?_, by simp⟩, by simp⟩
        intro j hj
        simp only [List.take_succ_cons, List.take_zero, applyAll_cons, applyAll_nil, fids_fsync, fids_commit] at hj
        exact Or.inl hj
      · refine ⟨_, _, ⟨by simpa using hr3, hids, hids2, ?_, ?_⟩, ?_⟩
        · intro j hj
          simp only [List.take_succ_cons, applyAll_cons, List.take_nil, applyAll_nil] at hj
          rw [show Act.create d.md.nextID (f.lastIdx + 1) = Act.create (newSeg d.md.nextID (f.lastIdx + 1)).id
            (newSeg d.md.nextID (f.lastIdx + 1)).base from rfl, fids_create _ _ _ hnone2] at hj
          simp only [fids_commit, fids_fsync, List.mem_append, List.mem_cons, List.not_mem_nil, or_false] at hj
          rcases hj with hj | rfl
          · exact Or.inl hj
          · exact Or.inr (by simp [segIds])
        · simp
        · intro _
          refine ⟨File.fresh d.md.nextID (f.lastIdx + 1), ?_, rfl, rfl, rfl⟩
          simp only [List.take_succ_cons, applyAll_cons, List.take_nil, applyAll_nil]
          have := apply_create_file? _ _ (f.lastIdx + 1) hnone2 d.md.nextID
          simpa [newSeg] using this

end RaftWal.Crash
