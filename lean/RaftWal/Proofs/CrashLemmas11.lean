/-
  Proofs/CrashLemmas11.lean — more about what segments show: last entries, appending a batch, the last index.
-/
import RaftWal.Proofs.CrashLemmas10
namespace RaftWal.Crash

theorem idxFrom_concat (b : Nat) (c : List Entry) (e : Entry) :
    idxFrom b (c ++ [e]) = idxFrom b c ++ [(b + c.length, e)] := by
  rw [idxFrom_append]; rfl

theorem visU_append (mn b : Nat) (x y : List Entry) :
    visU mn b (x ++ y) = visU mn b x ++ visU mn (b + x.length) y := by
  unfold visU
  rw [idxFrom_append, List.filter_append]

theorem visU_all {mn b : Nat} (c : List Entry) (h : mn ≤ b) : visU mn b c = idxFrom b c := by
  unfold visU
  apply List.filter_eq_self.2
  intro p hp
  have := mem_idxFrom hp
  simp only [decide_eq_true_eq]; omega

theorem visU_getLast {mn b : Nat} {x : List Entry} (hx : x ≠ []) (h : mn < b + x.length) :
    ∃ e, (visU mn b x).getLast? = some (b + x.length - 1, e) := by
  have hsplit := List.dropLast_concat_getLast hx
  generalize x.getLast hx = e at hsplit
  refine ⟨e, ?_⟩
  have hl : x.length = x.dropLast.length + 1 := by
    conv => lhs; rw [← hsplit]
    simp
  rw [← hsplit, visU_append]
  rw [show visU mn (b + x.dropLast.length) [e] = [(b + x.dropLast.length, e)] by
    unfold visU; simp; omega]
  simp only [List.getLast?_append, List.getLast?_singleton, Option.some_or, List.length_append, List.length_cons,
    List.length_nil]
  congr 2

theorem visU_ne_nil {mn b : Nat} {x : List Entry} (hx : x ≠ []) (h : mn < b + x.length) : visU mn b x ≠ [] := by
  obtain ⟨e, he⟩ := visU_getLast hx h
  intro hc; rw [hc] at he; cases he

theorem visU_eq_nil_of_le {mn b : Nat} {x : List Entry} (h : b + x.length ≤ mn) : visU mn b x = [] := by
  unfold visU
  apply List.filter_eq_nil_iff.2
  intro p hp
  have := mem_idxFrom hp
  simp only [decide_eq_true_eq]; omega

/-- a sealed segment's last entry is at `max` -/
theorem visF_sealed_getLast {s : Seg} {f : File} (h : SealedFile s f) : ∃ e, (visF f s).getLast? = some (s.max, e) := by
  have hc : f.content = f.synced := by simp [File.content, h.pend]
  have hb := h.base
  have hbm := h.bm
  have hmm := h.mm
  have hmx := h.mx
  unfold visF
  rw [hc]
  generalize f.synced = c at hmx
  have hi : s.max - f.base < c.length := by omega
  obtain ⟨c1, e, c2, hsplit, hlen⟩ : ∃ c1 e c2, c = c1 ++ [e] ++ c2 ∧ c1.length = s.max - f.base := by
    refine ⟨c.take (s.max - f.base), c[s.max - f.base], c.drop (s.max - f.base + 1), ?_, ?_⟩
    · rw [List.append_assoc]; simp
    · simp only [List.length_take]; omega
  subst hsplit
  refine ⟨e, ?_⟩
  rw [idxFrom_append, idxFrom_append, List.filter_append, List.filter_append]
  have h3 : List.filter (segVis s) (idxFrom (f.base + (c1 ++ [e]).length) c2) = [] := by
    apply List.filter_eq_nil_iff.2
    intro p hp
    have := mem_idxFrom hp
    simp only [List.length_append, List.length_cons, List.length_nil] at this
    simp only [segVis, h.sl, Bool.not_true, Bool.false_or, Bool.and_eq_true, decide_eq_true_eq, not_and]
    intro _
    omega
  have h2 : List.filter (segVis s) (idxFrom (f.base + c1.length) [e]) = [(s.max, e)] := by
    have : f.base + c1.length = s.max := by omega
    rw [this]
    simp [segVis, h.sl, hmm]
  rw [h3, h2]
  simp

theorem visF_sealed_ne_nil {s : Seg} {f : File} (h : SealedFile s f) : visF f s ≠ [] := by
  obtain ⟨e, he⟩ := visF_sealed_getLast h
  intro hc; rw [hc] at he; cases he

theorem mem_visF {s : Seg} {f : File} {p : Nat × Entry} (h : p ∈ visF f s) :
    s.min ≤ p.1 ∧ (s.sealed = true → p.1 ≤ s.max) ∧ f.base ≤ p.1 ∧ p.1 < f.base + f.content.length := by
  unfold visF at h
  simp only [List.mem_filter, segVis, Bool.and_eq_true, decide_eq_true_eq, Bool.or_eq_true, Bool.not_eq_eq_eq_not,
    Bool.not_true] at h
  have := mem_idxFrom h.1
  refine ⟨h.2.1, ?_, this.1, this.2⟩
  intro hs
  rcases h.2.2 with h1 | h1
  · rw [hs] at h1; cases h1
  · exact h1

theorem segEntries_sealed_ne_nil {d : Disk} {s : Seg} (h : SealedOK d s) : segEntries d s ≠ [] := by
  obtain ⟨f, hf, hsf⟩ := h
  rw [segEntries_some hf]; exact visF_sealed_ne_nil hsf

/-- the sealed part of an empty log is empty -/
theorem logP_nil_imp {d : Disk} {P : List Seg} (hs : ∀ s ∈ P, SealedOK d s) (h : logP d P = []) : P = [] := by
  cases P with
  | nil => rfl
  | cons s P =>
    rw [logP_cons] at h
    exact absurd (List.append_eq_nil_iff.1 h).1 (segEntries_sealed_ne_nil (hs s (by simp)))

theorem logP_getLast {d : Disk} {P : List Seg} {p : Seg} (hs : SealedOK d p) :
    ∃ e, (logP d (P ++ [p])).getLast? = some (p.max, e) := by
  obtain ⟨f, hf, hsf⟩ := hs
  obtain ⟨e, he⟩ := visF_sealed_getLast hsf
  refine ⟨e, ?_⟩
  rw [logP_append, logP_single, segEntries_some hf, List.getLast?_append, he]
  rfl

end RaftWal.Crash
