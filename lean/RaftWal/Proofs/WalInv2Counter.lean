/-
  Proofs/WalInv2Counter.lean — why `counters_exact` (C20) needs its two bounds: the statement without them is
  refuted by a (very long) run.  The run stores one entry and deletes it again, 2^64 times; the reference
  total of head-truncated entries is then 2^64, the model's `headTrunc` — uint64 in the code — is back at 0.
-/
import RaftWal.Proofs.WalInv2
namespace RaftWal

def cexLog : Log := { index := 1, term := 1, typ := 0, data := [], ext := [], time := some WTime.zero }
def cexRound : List XOp := [.log (.store [cexLog]), .log (.del 1 1)]
def cexOps (n : Nat) : List XOp := (List.replicate n cexRound).flatten
def cexCfg : WalCfg := { segmentSize := 1024, codecId := 1, newSegCodec := 1 }

/-- the fold function of `specTotals` -/
abbrev tstep : Spec.SLog × Totals → XOp → Spec.SLog × Totals := fun a op => specTotalsStep a.1 a.2 op

theorem specTotals_eq (ops : List XOp) : specTotals ops = ops.foldl tstep ({ first := 0, entries := [] }, {}) := rfl

/-- one round on an empty open reference log: the log is empty again, one more entry was head-truncated -/
theorem cex_round (s : Spec.SLog) (t : Totals) (he : s.entries = []) (hc : s.closed = false) :
    (cexRound.foldl tstep (s, t)).1.entries = [] ∧ (cexRound.foldl tstep (s, t)).1.closed = false ∧
    (cexRound.foldl tstep (s, t)).2.head = t.head + 1 := by
  simp [cexRound, tstep, specTotalsStep, Spec.SLog.store, Spec.SLog.accepts, Spec.consecutiveFrom, he, hc, encode,
    cexLog, Spec.SLog.delete, Spec.SLog.firstIndex, Spec.SLog.lastIndex]

theorem cex_fold : ∀ (n : Nat) (s : Spec.SLog) (t : Totals), s.entries = [] → s.closed = false →
    ((cexOps n).foldl tstep (s, t)).1.entries = [] ∧ ((cexOps n).foldl tstep (s, t)).1.closed = false ∧
    ((cexOps n).foldl tstep (s, t)).2.head = t.head + n := by
  intro n
  induction n with
  | zero => intro s t he hc; exact ⟨he, hc, rfl⟩
  | succ n ih =>
    intro s t he hc
    have e : cexOps (n + 1) = cexRound ++ cexOps n := by simp [cexOps, List.replicate_succ]
    rw [e, List.foldl_append]
    obtain ⟨r1, r2, r3⟩ := cex_round s t he hc
    obtain ⟨q1, q2, q3⟩ := ih (cexRound.foldl tstep (s, t)).1 (cexRound.foldl tstep (s, t)).2 r1 r2
    refine ⟨q1, q2, ?_⟩
    rw [q3, r3]; omega

theorem cex_inRange (n : Nat) : ∀ op ∈ cexOps n, op.inRange := by
  intro op hop
  simp only [cexOps, List.mem_flatten, List.mem_replicate] at hop
  obtain ⟨l, ⟨_, rfl⟩, hm⟩ := hop
  simp only [cexRound, List.mem_cons, List.not_mem_nil, or_false] at hm
  rcases hm with rfl | rfl
  · simp [XOp.inRange, Op.inRange, cexLog]
  · simp [XOp.inRange, Op.inRange]

/-- `Open` on a fresh directory succeeds -/
theorem init_exists (cfg : WalCfg) (hcfg : cfg.newSegCodec = cfg.codecId) : ∃ w0, Wal.init cfg = some w0 := by
  obtain ⟨w1, b, hcn, _⟩ := createNext_empty
    { cfg := cfg, nextID := 0, segs := [], files := [], stable := [], ctr := {}, closed := false } 0 rfl hcfg
    (by intro f hf; simp at hf) (by omega)
  unfold Wal.init Wal.reopen
  simp only [Wal.reopen.build, List.reverse_nil, Wal.tailSeg, List.getLast?_nil, Bool.false_eq_true, if_false]
  rw [hcn]
  exact ⟨_, rfl⟩

/-- **C20 as first stated is false**: without the bounds on the truncation totals the equation fails -/
theorem counters_exact_unbounded_false :
    ¬ ∀ (cfg : WalCfg) (_ : cfg.newSegCodec = cfg.codecId) (w0 : Wal) (_ : Wal.init cfg = some w0)
        (ops : List XOp) (_ : ∀ op ∈ ops, op.inRange),
        (w0.xrunState ops).ctr.totals = (specTotals ops).2 := by
  intro H
  obtain ⟨w0, h0⟩ : ∃ w0, Wal.init cexCfg = some w0 := init_exists cexCfg rfl
  -- `N` rounds, for a number of rounds that does not fit 64 bits
  have key : ∀ N : Nat, u64 N ≠ N → False := by
    intro N hN
    have hops := cex_inRange N
    have h1 := H cexCfg rfl w0 h0 _ hops
    have h2 := counters_exact_mod cexCfg rfl w0 h0 _ hops
    rw [h1] at h2
    have h4 : (specTotals (cexOps N)).2.head = N := by
      rw [specTotals_eq, (cex_fold N _ _ rfl rfl).2.2]
      show 0 + N = N
      omega
    have h3 := congrArg Totals.head h2
    simp only [h4] at h3
    exact hN h3.symm
  exact key (2^64) (by simp [u64])

/-
  The same effect, executably, from a state whose counter has been set close to the limit by hand (a run that
  really gets there has 2^65 calls):

  #eval (((Wal.init cexCfg).get!.xrunState (cexOps 3)).ctr.headTrunc, (specTotals (cexOps 3)).2.head)
    -- (3, 3)
  #eval
    let w0 := (Wal.init cexCfg).get!
    let w1 := { w0 with ctr := { w0.ctr with headTrunc := 2^64 - 2 } }
    (w1.xrunState (cexOps 3)).ctr.headTrunc
    -- 1      (2^64 - 2 + 3 wraps to 1; the reference total would be 2^64 + 1)
-/

end RaftWal
