/-
  Proofs/CrashLemmas17.lean — committing a meta store whose segments are a selection of the present ones;
  list facts for the truncations.
-/
import RaftWal.Proofs.CrashLemmas16
namespace RaftWal.Crash

theorem Rec.recommit {A' : Log → Prop} {d : Disk} {P P' : List Seg} {t t' : Seg} (hb : Base d P t) (m : Meta)
    (hm : m.segs = P' ++ [t']) (hn : d.md.nextID ≤ m.nextID) (hsealed : ∀ s ∈ P', SealedOK d s)
    (hchain : chainOK (P' ++ [t']) = true) (hnodup : ((P' ++ [t']).map (·.id)).Nodup)
    (hidlt : ∀ s ∈ P' ++ [t'], s.id < m.nextID) (tsl : t'.sealed = false) (tbm : t'.base ≤ t'.min)
    (tb1 : 1 ≤ t'.base) (htail : ∀ f, d.file? t'.id = some f → RTail A' (logP d P') t' f)
    (hnone : d.file? t'.id = none → t'.min = t'.base ∧ A' (logP d P')) : Rec A' (d.apply (.commit m)) P' t' := by
  refine ⟨⟨hm, hsealed, hchain, hnodup, hidlt, hb.nodupF, ?_, tsl, tbm, tb1, hb.hl⟩, htail, hnone⟩
  intro j hj
  have := hb.fidlt j hj
  simp only [apply_commit_md]; omega

theorem dropWhile_cons {α : Type} {p : α → Bool} {l : List α} {h : α} {rest : List α}
    (e : l.dropWhile p = h :: rest) : p h = false ∧ l = l.takeWhile p ++ h :: rest := by
  constructor
  · induction l with
    | nil => simp at e
    | cons a l ih =>
      rw [List.dropWhile_cons] at e
      cases hp : p a with
      | true => rw [hp] at e; exact ih e
      | false => rw [hp] at e; simp only [Bool.false_eq_true, ↓reduceIte, List.cons.injEq] at e; rw [← e.1]; exact hp
  · rw [← e]; exact (List.takeWhile_append_dropWhile).symm

theorem mem_takeWhile_imp' {α : Type} {p : α → Bool} {l : List α} {s : α} (hs : s ∈ l.takeWhile p) : p s = true :=
  List.all_eq_true.1 List.all_takeWhile s hs

theorem eq_nil_or_snoc {α : Type} (l : List α) : l = [] ∨ ∃ l0 x, l = l0 ++ [x] := by
  by_cases h : l = []
  · exact Or.inl h
  · exact Or.inr ⟨_, _, (List.dropLast_concat_getLast h).symm⟩

theorem split_last {α : Type} {D P rest : List α} {h t : α} (e : D ++ h :: rest = P ++ [t]) :
    (rest = [] ∧ D = P ∧ h = t) ∨ (∃ r0, rest = r0 ++ [t] ∧ P = D ++ h :: r0) := by
  rcases eq_nil_or_snoc rest with hr | ⟨r0, x, hr⟩
  · subst hr
    have := List.append_inj' e rfl
    exact Or.inl ⟨rfl, this.1, by simpa using this.2⟩
  · subst hr
    have e' : (D ++ h :: r0) ++ [x] = P ++ [t] := by simpa using e
    have := List.append_inj' e' rfl
    have hx : x = t := by simpa using this.2
    subst hx
    exact Or.inr ⟨r0, rfl, this.1.symm⟩

theorem chainOK_setMin {h : Seg} {l : List Seg} (m : Nat) (hc : chainOK (h :: l) = true) :
    chainOK ({ h with min := m } :: l) = true := by
  cases l with
  | nil => simp
  | cons b l => rw [chainOK_cons_cons] at hc ⊢; exact hc

theorem nodup_ids_suffix {D K : List Seg} (h : ((D ++ K).map (·.id)).Nodup) : (K.map (·.id)).Nodup := by
  rw [List.map_append] at h
  exact (List.nodup_append.1 h).2.1

/-- the deletions of a list of segments -/
theorem map_delete_eq (l : List Seg) : l.map (fun s => Act.delete s.id) = (segIds l).map .delete := by
  simp [segIds, List.map_map, Function.comp_def]

/-- the test of the head truncation -/
def goneB (last newMin : Nat) (s : Seg) : Bool :=
  if s.sealed then decide (s.max < newMin) else decide (last < newMin)

theorem delHeadProg_eq (d : Disk) (newMin : Nat) :
    delHeadProg d newMin =
      match d.md.segs.dropWhile (goneB (lastIndex d) newMin) with
      | [] => newTailActs d.md [] (lastIndex d + 1) ++
          (d.md.segs.takeWhile (goneB (lastIndex d) newMin)).map (fun s => .delete s.id) ++ [.ack]
      | h :: rest => [.commit { d.md with segs := { h with min := newMin } :: rest }] ++
          (d.md.segs.takeWhile (goneB (lastIndex d) newMin)).map (fun s => .delete s.id) ++ [.ack] := rfl

/-- the first kept segment starts at or below the new first index -/
theorem head_min_le {d : Disk} {P : List Seg} {t : Seg} (hb : Base d P t) {D rest : List Seg} {h : Seg}
    (e : P ++ [t] = D ++ h :: rest) {newMin : Nat} (hD : ∀ s ∈ D, s.max < newMin) (hne : absLog d ≠ [])
    (hfirst : firstIndex d < newMin) : h.min ≤ newMin := by
  rcases eq_nil_or_snoc D with hd | ⟨D0, p, hd⟩
  · subst hd
    obtain ⟨q, hq, hq1⟩ := firstIndex_mem hne
    have := hb.ge_min (by simpa using e) hq
    omega
  · subst hd
    have hch := hb.chain
    rw [e, chainOK_append] at hch
    have := hch.2.2 p h (by simp) rfl
    have := hD p (by simp)
    omega

end RaftWal.Crash
