/-
  Proofs/ConcWLemmas3.lean — `Inv1` (no panic anywhere; every waiting writer has somebody who will wake it; a queued
  trigger always has its awaitRotate channel) is preserved by every step that does not overwrite a pending
  `awaitRotate` channel.
-/
import RaftWal.Proofs.ConcWLemmas2
namespace RaftWal.ConcW

theorem inv1_wstep (s : Sys) (i : Nat) (w : Writer) (b : Bool) (pc' : WPc)
    (h1 : Inv1 s) (ht : WStep s w b pc') : Inv1 (setW { s with lock := b } i { w with pc := pc' }) := by
  refine ⟨h1.bad, h1.await_ok, h1.closed_lt, ?_, h1.closing_ok, h1.r_await, h1.q_await, h1.r_noq,
    h1.exited_closed, h1.done_await⟩
  intro w' hw' ch hpc
  rcases mem_set_cases _ _ _ _ hw' with e | hold
  · subst e
    cases ht with
    | wait ch' _ ha =>
      simp at hpc; subst hpc; exact Or.inr (Or.inl ha)
    | _ => simp at hpc
  · exact h1.waiting_ok w' hold ch hpc

theorem inv1_seal (s : Sys) (i : Nat) (w : Writer) (h0 : Inv0 s) (h1 : Inv1 s)
    (hc : s.closed = false) (ha : s.await = none) : Inv1 (sealState s i w) := by
  have hidle := h0.closed_false.mp hc
  refine ⟨h1.bad, ?_, ?_, ?_, ?_, ?_, ?_, ?_, h1.exited_closed, ?_⟩
  · intro c hcq
    have hcq' : some s.nextChan = some c := hcq
    injection hcq' with e
    subst e
    exact ⟨Nat.lt_succ_self _, fun hm => Nat.lt_irrefl _ (h1.closed_lt _ hm)⟩
  · intro c hcm
    exact Nat.lt_succ_of_lt (h1.closed_lt c hcm)
  · intro w' hw' ch hpc
    rcases mem_set_cases _ _ _ _ hw' with e | hold
    · subst e; simp at hpc
    · rcases h1.waiting_ok w' hold ch hpc with h | h | h
      · exact Or.inl h
      · rw [ha] at h; cases h
      · exact Or.inr (Or.inr h)
  · intro x hx
    obtain ⟨c, rfl, hlt, hnc, hne⟩ := h1.closing_ok x hx
    refine ⟨c, rfl, Nat.lt_succ_of_lt hlt, hnc, ?_⟩
    intro e
    have e' : some s.nextChan = some c := e
    injection e' with e'
    omega
  · intro _ _ e
    have e' : some s.nextChan = none := e
    cases e'
  · intro _ _ e
    have e' : some s.nextChan = none := e
    cases e'
  · intro hr
    exact absurd ha (h1.r_await hr hc)
  · intro hd
    have hd' : s.cpc = .done := hd
    rw [hidle] at hd'; cases hd'

/-! ### the rotation goroutine -/

theorem inv1_stepRotator (s : Sys) (h0 : Inv0 s) (h1 : Inv1 s) : Inv1 (stepRotator fixed s) := by
  unfold stepRotator
  -- a waiting writer's witness when the rotator is not at `closing`
  have hwait : (∀ x, s.rpc ≠ .closing x) → ∀ w ∈ s.writers, ∀ ch, w.pc = .waiting ch →
      ch ∈ s.closedChans ∨ s.await = some ch := by
    intro hn w hw ch hpc
    rcases h1.waiting_ok w hw ch hpc with h | h | h
    · exact Or.inl h
    · exact Or.inr h
    · exact absurd h (hn _)
  cases hr : s.rpc with
  | idle =>
    have hn : ∀ x, s.rpc ≠ .closing x := by intro x e; rw [hr] at e; cases e
    dsimp only
    rcases bool_cases s.trigQueued with hq | hq
    · rw [if_pos hq]
      refine ⟨h1.bad, h1.await_ok, h1.closed_lt, ?_, ?_, ?_, ?_, ?_, ?_, h1.done_await⟩
      · intro w hw ch hpc
        rcases hwait hn w hw ch hpc with h | h
        · exact Or.inl h
        · exact Or.inr (Or.inl h)
      · intro x hx; cases hx
      · intro _ hc; exact h1.q_await hq hc
      · intro hq'; cases hq'
      · intro _; rfl
      · intro hx; cases hx
    · rw [if_neg (by simp [hq])]
      rcases bool_cases s.trigClosed with hc | hc
      · rw [if_pos hc]
        simp only [fixed, if_true]
        refine ⟨h1.bad, h1.await_ok, h1.closed_lt, ?_, ?_, ?_, h1.q_await, ?_, ?_, h1.done_await⟩
        · intro w hw ch hpc
          rcases hwait hn w hw ch hpc with h | h
          · exact Or.inl h
          · exact Or.inr (Or.inl h)
        · intro x hx; cases hx
        · intro _ hcl
          have hd := h0.trigClosed_iff.mp hc
          have hi := h0.closed_false.mp hcl
          rw [hd] at hi; cases hi
        · intro _; exact hq
        · intro hx; cases hx
      · rw [if_neg (by simp [hc])]; exact h1
  | got =>
    have hn : ∀ x, s.rpc ≠ .closing x := by intro x e; rw [hr] at e; cases e
    dsimp only
    rcases bool_cases s.lock with hl | hl
    · rw [if_pos hl]; exact h1
    · rw [if_neg (by simp [hl])]
      refine ⟨h1.bad, h1.await_ok, h1.closed_lt, ?_, ?_, ?_, h1.q_await, ?_, ?_, h1.done_await⟩
      · intro w hw ch hpc
        rcases hwait hn w hw ch hpc with h | h
        · exact Or.inl h
        · exact Or.inr (Or.inl h)
      · intro x hx; cases hx
      · intro _ hc; exact h1.r_await (Or.inl hr) hc
      · intro _; exact h1.r_noq (Or.inl hr)
      · intro hx; cases hx
  | locked =>
    have hn : ∀ x, s.rpc ≠ .closing x := by intro x e; rw [hr] at e; cases e
    dsimp only
    rcases bool_cases s.closed with hc | hc
    · rw [if_pos (by simp [fixed, hc])]
      refine ⟨h1.bad, h1.await_ok, h1.closed_lt, ?_, ?_, ?_, h1.q_await, ?_, ?_, h1.done_await⟩
      · intro w hw ch hpc
        rcases hwait hn w hw ch hpc with h | h
        · exact Or.inl h
        · exact Or.inr (Or.inl h)
      · intro x hx; cases hx
      · intro h; rcases h with h | h <;> cases h
      · intro h; rcases h with h | h <;> cases h
      · intro _; exact hc
    · rw [if_neg (by simp [fixed, hc])]
      have hidle : s.cpc = .idle := h0.closed_false.mp hc
      have hse : ¬ s.stateEmpty = true := fun h => by
        have := h0.stateEmpty_iff.mp h; rw [hidle] at this; cases this
      rw [if_neg hse]
      have hane := h1.r_await (Or.inr hr) hc
      obtain ⟨c, ha⟩ : ∃ c, s.await = some c := by
        cases h : s.await with
        | none => exact absurd h hane
        | some c => exact ⟨c, rfl⟩
      obtain ⟨hlt, hnc⟩ := h1.await_ok c ha
      refine ⟨h1.bad, ?_, h1.closed_lt, ?_, ?_, ?_, ?_, ?_, ?_, ?_⟩
      · intro c' h; cases h
      · intro w hw ch hpc
        rcases hwait hn w hw ch hpc with h | h
        · exact Or.inl h
        · exact Or.inr (Or.inr (show RPc.closing s.await = RPc.closing (some ch) by rw [h]))
      · intro x hx
        have hx' : RPc.closing s.await = RPc.closing x := hx
        injection hx' with hx'
        refine ⟨c, by rw [← hx', ha], hlt, hnc, ?_⟩
        intro e; cases e
      · intro h; rcases h with h | h <;> cases h
      · intro hq
        have hq' : s.trigQueued = true := hq
        rw [h1.r_noq (Or.inr hr)] at hq'; cases hq'
      · intro h; rcases h with h | h <;> cases h
      · intro h; cases h
      · intro _; rfl
  | closing ch =>
    obtain ⟨c, rfl, hlt, hnc, hne⟩ := h1.closing_ok ch hr
    dsimp only
    rw [if_neg (fun h => hnc (List.contains_iff_mem.mp h))]
    refine ⟨h1.bad, ?_, ?_, ?_, ?_, ?_, h1.q_await, ?_, ?_, h1.done_await⟩
    · intro a ha
      obtain ⟨h1', h2'⟩ := h1.await_ok a ha
      refine ⟨h1', ?_⟩
      intro hm
      rcases List.mem_cons.mp hm with e | hm
      · subst e; exact hne ha
      · exact h2' hm
    · intro a hm
      rcases List.mem_cons.mp hm with e | hm
      · subst e; exact hlt
      · exact h1.closed_lt a hm
    · intro w hw ch hpc
      rcases h1.waiting_ok w hw ch hpc with h | h | h
      · exact Or.inl (List.mem_cons_of_mem _ h)
      · exact Or.inr (Or.inl h)
      · rw [hr] at h
        injection h with h
        injection h with h
        subst h
        exact Or.inl List.mem_cons_self
    · intro x hx; cases hx
    · intro h; rcases h with h | h <;> cases h
    · intro h; rcases h with h | h <;> cases h
    · intro h; cases h
  | exited => exact h1

/-! ### Close -/

theorem inv1_stepCloser (s : Sys) (h0 : Inv0 s) (h1 : Inv1 s) : Inv1 (stepCloser fixed s) := by
  unfold stepCloser
  cases hcp : s.cpc with
  | idle =>
    dsimp only
    have hc : s.closed = false := h0.closed_false.mpr hcp
    rw [if_neg (by simp [hc])]
    refine ⟨h1.bad, h1.await_ok, h1.closed_lt, h1.waiting_ok, h1.closing_ok, ?_, ?_, h1.r_noq, ?_, ?_⟩
    · intro _ h; cases h
    · intro _ h; cases h
    · intro _; rfl
    · intro h; cases h
  | flagged =>
    dsimp only
    rcases bool_cases s.lock with hl | hl
    · rw [if_pos hl]; exact h1
    · rw [if_neg (by simp [hl])]
      refine ⟨h1.bad, h1.await_ok, h1.closed_lt, h1.waiting_ok, h1.closing_ok, h1.r_await, h1.q_await, h1.r_noq,
        h1.exited_closed, ?_⟩
      intro h; cases h
  | locked =>
    dsimp only
    have hcl : s.closed = true := h0.closed_iff.mpr (by rw [hcp]; simp)
    have hclf : ¬ s.closed = false := by rw [hcl]; simp
    cases ha : s.await with
    | none =>
      dsimp only
      refine ⟨h1.bad, ?_, h1.closed_lt, ?_, ?_, ?_, ?_, h1.r_noq, h1.exited_closed, ?_⟩
      · intro c h; cases h
      · intro w hw ch hpc
        rcases h1.waiting_ok w hw ch hpc with h | h | h
        · exact Or.inl h
        · rw [ha] at h; cases h
        · exact Or.inr (Or.inr h)
      · intro x hx
        obtain ⟨c, rfl, hlt, hnc, _⟩ := h1.closing_ok x hx
        exact ⟨c, rfl, hlt, hnc, fun e => by cases e⟩
      · intro _ h; exact absurd h hclf
      · intro _ h; exact absurd h hclf
      · intro _; rfl
    | some ch =>
      dsimp only
      simp only [fixed, if_true]
      obtain ⟨hlt, hnc⟩ := h1.await_ok ch ha
      refine ⟨h1.bad, ?_, ?_, ?_, ?_, ?_, ?_, h1.r_noq, h1.exited_closed, ?_⟩
      · intro c h; cases h
      · intro a hm
        rcases List.mem_cons.mp hm with e | hm
        · subst e; exact hlt
        · exact h1.closed_lt a hm
      · intro w hw ch' hpc
        rcases h1.waiting_ok w hw ch' hpc with h | h | h
        · exact Or.inl (List.mem_cons_of_mem _ h)
        · rw [ha] at h
          injection h with h
          subst h
          exact Or.inl List.mem_cons_self
        · exact Or.inr (Or.inr h)
      · intro x hx
        obtain ⟨c, rfl, hlt', hnc', hne⟩ := h1.closing_ok x hx
        refine ⟨c, rfl, hlt', ?_, fun e => by cases e⟩
        intro hm
        rcases List.mem_cons.mp hm with e | hm
        · subst e; exact hne ha
        · exact hnc' hm
      · intro _ h; exact absurd h hclf
      · intro _ h; exact absurd h hclf
      · intro _; rfl
  | done => exact h1

/-! ### a step -/

theorem overwrites_writer_false {s : Sys} {i : Nat} {w : Writer} (hw : s.writers[i]? = some w)
    (h : overwrites s (.writer i) = false) (hpc : w.pc = .use) (hs : w.seals = true) (hc : s.closed = false) :
    s.await = none := by
  unfold overwrites at h
  simp only [hw, hpc, hs, hc] at h
  cases ha : s.await with
  | none => rfl
  | some c => rw [ha] at h; simp at h

theorem inv1_step (s : Sys) (t : Tid) (h0 : Inv0 s) (h1 : Inv1 s) (hno : overwrites s t = false) :
    Inv1 (step fixed s t) := by
  cases t with
  | writer i =>
    show Inv1 (stepWriter fixed s i)
    cases hw : s.writers[i]? with
    | none => rw [stepWriter_none _ _ _ hw]; exact h1
    | some w =>
      rcases stepWriter_cases s i w hw h0 with ⟨e, _⟩ | ⟨b, pc', ht, e⟩ | ⟨hpc, hs, hc, _, e⟩
      · rw [e]; exact h1
      · rw [e]; exact inv1_wstep s i w b pc' h1 ht
      · rw [e]; exact inv1_seal s i w h0 h1 hc (overwrites_writer_false hw hno hpc hs hc)
  | rotator => exact inv1_stepRotator s h0 h1
  | closer => exact inv1_stepCloser s h0 h1

theorem inv1_init (seals : List Bool) : Inv1 (init seals) := by
  refine ⟨rfl, ?_, ?_, ?_, ?_, ?_, ?_, ?_, ?_, ?_⟩
  · intro c h; cases h
  · intro c h; cases h
  · intro w hw ch hpc
    obtain ⟨b, _, rfl⟩ := List.mem_map.mp hw
    simp at hpc
  · intro x h; cases h
  · intro h; rcases h with h | h <;> cases h
  · intro h; cases h
  · intro _; rfl
  · intro h; cases h
  · intro _; rfl

theorem inv_run_no (sched : List Tid) (s : Sys) (h0 : Inv0 s) (h1 : Inv1 s) (hno : NoOverwrite s sched) :
    Inv0 (run fixed s sched) ∧ Inv1 (run fixed s sched) := by
  induction sched generalizing s with
  | nil => exact ⟨h0, h1⟩
  | cons t ts ih => exact ih _ (inv0_step s t h0) (inv1_step s t h0 h1 hno.1) hno.2

end RaftWal.ConcW
