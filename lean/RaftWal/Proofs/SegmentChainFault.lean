/-
  Proofs/SegmentChainFault.lean — byte-level crash chains WITH I/O FAULTS (segment model L1; C02 × C10).

  Events: `ChainEvF` (Proofs/SegmentChainFaultDefs.lean) = the three of `ChainEv` plus `failed b fault`, an `Append`
  that fails on an injected I/O fault and leaves what landed BEHIND the write offset.

  FINDING (section "the statement is FALSE").  The intended statement `chain_atomic_faults_stmt` — CRC-32C collision,
  or the final state holds the acknowledged batches plus whole admissible batches only — is FALSE in the model, and
  the model is `segment/writer.go` line by line here (`Append`'s deferred rollback is in memory only; `recoverTail`
  scans on past the accepted commit; a commit's CRC covers the bytes since the previous commit FRAME IN SCAN ORDER).
  Stale bytes of a failed append are not frame-aligned with what is written over them, so the scan can enter the
  stale PAYLOAD bytes of the failed batch and parse them as frames.  A payload that contains a well-formed
  `entry frame* ++ commit frame` sequence is then recovered as a batch, with a CRC that genuinely matches:
    * `faultW3`: append; failed(.sync) of one entry whose payload embeds `entryFrame [42] ++ commitFrame crc`;
      acknowledged SHORTER append; restart  ⇒  entry `[42]` is recovered at the next index: FABRICATED (never
      submitted as an entry), no torn write and no power loss involved, only an fsync error and a later restart.
    * `faultW1`: append; failed(.sync); failed(.write 8) of the two-entry batch `[[], [9]]`; restart  ⇒  HALF of
      the second failed batch (its first entry only) is recovered: PARTIAL.
    * `faultW2`: append; failed(.sync); torn `[[], [9]]` with only its first chunk landed  ⇒  same partial outcome
      from a torn append over stale bytes.
  `chain_atomic_faults_false : ¬ chain_atomic_faults_stmt` is proved from `faultW3` (closed terms, kernel-evaluated).

  PROVED (partial, `chain_atomic_faults_partial`): chains in which every `failed` has a `.sync` fault and is
  immediately followed by `restart` (`plainOf evs = some l`): the chain runs exactly like the fault-free chain `l`
  in which `failed b .sync; restart` is replaced by `append b; restart` (`chainRunF_plain`), hence `chain_atomic`
  applies: collision at a torn event, or the full conclusion, the failed batch recovered WHOLE, zeros behind the tail.
-/
import RaftWal.Proofs.SegmentChainFaultDefs
namespace RaftWal

/-! ## ghost outcomes -/

/-- `chainSpecF p evs bs`: the batches `bs` the events `evs` may contribute when `p` is the pending failed batch
    (the LAST failed append since the previous recovery, not overwritten by a later acknowledged append).
    `append b` contributes `b` (and kills the pending batch), `failed b _` contributes nothing and becomes pending,
    a recovery (`restart`, or the one inside `torn b _`) contributes nothing, or the pending batch whole, or (torn)
    the in-flight batch whole. -/
def chainSpecF : Option (List Bytes) → List ChainEvF → List (List Bytes) → Prop
  | _, [], bs => bs = []
  | _, .append b :: evs, bs => ∃ bs', bs = b :: bs' ∧ chainSpecF none evs bs'
  | _, .failed b _ :: evs, bs => chainSpecF (some b) evs bs
  | p, .restart :: evs, bs =>
      chainSpecF none evs bs ∨ ∃ c bs', p = some c ∧ bs = c :: bs' ∧ chainSpecF none evs bs'
  | p, .torn b _ :: evs, bs =>
      chainSpecF none evs bs ∨ (∃ bs', bs = b :: bs' ∧ chainSpecF none evs bs')
        ∨ ∃ c bs', p = some c ∧ bs = c :: bs' ∧ chainSpecF none evs bs'

/-- the pending failed batch after the events (forward) -/
def pendingAfter : Option (List Bytes) → List ChainEvF → Option (List Bytes)
  | p, [] => p
  | _, .append _ :: evs => pendingAfter none evs
  | _, .failed b _ :: evs => pendingAfter (some b) evs
  | _, .restart :: evs => pendingAfter none evs
  | _, .torn _ _ :: evs => pendingAfter none evs

/-- may stale bytes lie behind the write offset after the events? (a failed append since the last recovery) -/
def dirtyAfter : Bool → List ChainEvF → Bool
  | d, [] => d
  | d, .append _ :: evs => dirtyAfter d evs
  | _, .failed _ _ :: evs => dirtyAfter true evs
  | _, .restart :: evs => dirtyAfter false evs
  | _, .torn _ _ :: evs => dirtyAfter false evs

def ChainEvF.batches : ChainEvF → List (List Bytes)
  | .append b => [b]
  | .restart => []
  | .torn b _ => [b]
  | .failed b _ => [b]

def ChainEvF.faultOk : ChainEvF → Prop
  | .failed _ f => f ≠ .none
  | _ => True

def chainBatchesF (evs : List ChainEvF) : List (List Bytes) := evs.flatMap ChainEvF.batches

/-- side conditions (style of `ChainWF`): as there, over all submitted batches, failed ones included -/
structure ChainWFF (info : SegInfo) (evs : List ChainEvF) : Prop where
  nonempty   : ∀ b ∈ chainBatchesF evs, b ≠ []
  payload_le : ∀ b ∈ chainBatchesF evs, ∀ p ∈ b, p.length ≤ maxEntrySize
  faults     : ∀ e ∈ evs, e.faultOk
  base_lt    : info.base < 2^64
  id_lt      : info.id < 2^64
  codec_lt   : info.codec < 2^64
  limit_lt   : info.sizeLimit < 2^32
  size_lt    : runBytesBound (chainBatchesF evs) < 2^32
  fits       : runBytesBound (chainBatchesF evs).dropLast ≤ info.sizeLimit

/-! ## the CRC-32C residual, made precise -/

/-- the file image a recovery reads where the complete batch `c` (appended by writer `w`) would put its bytes has
    the CRC-32C of those bytes without being those bytes -/
def StaleRegionCollision (info : SegInfo) (w : Writer) (img : Bytes) (c : List Bytes) : Prop :=
  ∃ w' file', w.append img (indexBatch (chainNext info w) c) .none = (none, w', file') ∧
    batchRegion img w.writeOffset w'.writeOffset ≠ batchRegion file' w.writeOffset w'.writeOffset ∧
    crc32c (batchRegion img w.writeOffset w'.writeOffset) = crc32c (batchRegion file' w.writeOffset w'.writeOffset)

/-- the image the recovery of event `e` reads from state `s` (`none`: `e` is not a recovery) -/
def recoveryImage (info : SegInfo) (s : Writer × Bytes) : ChainEvF → Option Bytes
  | .restart => some s.2
  | .torn b mask =>
    match s.1.append s.2 (indexBatch (chainNext info s.1) b) .none with
    | (none, w', file') => some (tearImage s.2 file' s.1.writeOffset (w'.writeOffset - s.1.writeOffset) mask)
    | _ => none
  | _ => none

/-- the complete batches whose commit frame a recovery may meet: the pending failed one, the in-flight one -/
def candidates (p : Option (List Bytes)) : ChainEvF → List (List Bytes)
  | .torn b _ => b :: p.toList
  | _ => p.toList

/-- some recovery along the chain reads an image in which the region of a candidate batch (the in-flight torn one,
    or the pending failed one) is a CRC-32C collision of that batch's bytes -/
def ChainCollisionF (info : SegInfo) (evs : List ChainEvF) : Prop :=
  ∃ pre e post s img c, evs = pre ++ e :: post
    ∧ chainRunF info (freshSegment info) pre = .ok s
    ∧ recoveryImage info s e = some img
    ∧ c ∈ candidates (pendingAfter none pre) e
    ∧ StaleRegionCollision info s.1 img c

/-! ## the full statement -/

structure FaultResult (info : SegInfo) (evs : List ChainEvF) (w : Writer) (file : Bytes) (bs : List (List Bytes)) : Prop where
  /-- the chain runs to `(w, file)` -/
  run      : chainRunF info (freshSegment info) evs = .ok (w, file)
  /-- `bs`: every acknowledged batch; at a recovery possibly one admissible batch, whole -/
  spec     : chainSpecF none evs bs
  /-- nothing else: the writer knows exactly the entries of `bs` -/
  count    : w.offsets.length = bs.flatten.length
  /-- every entry is readable at its index with exactly its payload -/
  readable : info.min = info.base → ∀ (k : Nat) (hk : k < bs.flatten.length) (bufSize : Nat), 8 ≤ bufSize →
               w.getLog file (info.base + k) bufSize = .ok (bs.flatten[k]'hk)
  /-- nothing above is readable -/
  nothingAbove : ∀ (idx bufSize : Nat), info.base + bs.flatten.length ≤ idx →
               (0 < idx → w.getLog file idx bufSize = .error .notFound) ∧ ∃ e, w.getLog file idx bufSize = .error e
  /-- after a recovery (no failed append since) the region behind the write offset is all zeros again -/
  clean    : dirtyAfter false evs = false → ∀ x ∈ file.drop w.writeOffset, x = 0

/-- the full statement (FALSE: `chain_atomic_faults_false`) -/
def chain_atomic_faults_stmt : Prop :=
  ∀ (info : SegInfo) (evs : List ChainEvF), ChainWFF info evs →
    ChainCollisionF info evs ∨ ∃ w file bs, FaultResult info evs w file bs

/-! ## the statement is FALSE: fabricated and partial batches out of stale payload bytes -/

def faultInfo : SegInfo :=
  { id := 7, base := 5, min := 5, max := 0, codec := 1, indexStart := 0, sizeLimit := 400, sealed := false }

/-- a payload that embeds a one-entry batch: 8 bytes, the frame of entry `[42]`, a commit frame with its CRC -/
def phantomPayload : Bytes :=
  zeros 8 ++ entryFrame [42] ++ commitFrame (crc32c (entryFrame [42])).toNat

/-- fsync error on a batch with that payload; an acknowledged shorter append (one empty entry: 16 bytes, ends
    exactly where the embedded entry frame starts); restart -/
def faultW3 : List ChainEvF :=
  [.append [[1, 2, 3]], .failed [phantomPayload] .sync, .append [[]], .restart]

/-- an 8-byte payload that is a commit frame with the CRC of an empty entry's frame -/
def fakeCommit : Bytes := commitFrame (crc32c (entryFrame [])).toNat

def faultW1 : List ChainEvF :=
  [.append [[1, 2, 3]], .failed [fakeCommit] .sync, .failed [[], [9]] (.write 8), .restart]

def faultW2 : List ChainEvF :=
  [.append [[1, 2, 3]], .failed [fakeCommit] .sync, .torn [[], [9]] (fun j => j == 0)]

def showF (info : SegInfo) (r : Except SegErr (Writer × Bytes)) :=
  r.map fun p => (p.1.obs, readBack info p, (p.2.drop p.1.writeOffset).all (· == 0))

/-- info: Except.ok ({ offsets := [32, 56, 72], writeOffset := 96, commitIdx := 7, indexStart := 0 },
 [Except.ok [1, 2, 3], Except.ok [], Except.ok [42]],
 true) -/
#guard_msgs in
#eval showF faultInfo (chainRunF faultInfo (freshSegment faultInfo) faultW3)

/-- info: Except.ok ({ offsets := [32, 56], writeOffset := 72, commitIdx := 6, indexStart := 0 },
 [Except.ok [1, 2, 3], Except.ok []],
 true) -/
#guard_msgs in
#eval showF faultInfo (chainRunF faultInfo (freshSegment faultInfo) faultW1)

/-- info: Except.ok ({ offsets := [32, 56], writeOffset := 72, commitIdx := 6, indexStart := 0 },
 [Except.ok [1, 2, 3], Except.ok []],
 true) -/
#guard_msgs in
#eval showF faultInfo (chainRunF faultInfo (freshSegment faultInfo) faultW2)

/-- kernel-checked outcome of `faultW3`: three entries, the third reads back as `[42]` -/
theorem faultW3_outcome :
    (match chainRunF faultInfo (freshSegment faultInfo) faultW3 with
     | .ok p => p.1.offsets.length == 3 && (match p.1.getLog p.2 7 64 with | .ok d => d == [42] | _ => false)
     | _ => false) = true := by decide +kernel

/-- kernel-checked outcome of `faultW1` / `faultW2`: the second entry (index 6) is the first HALF of `[[], [9]]` -/
theorem faultW1_outcome :
    (match chainRunF faultInfo (freshSegment faultInfo) faultW1 with
     | .ok p => p.1.offsets.length == 2 && p.1.commitIdx == 6
     | _ => false) = true := by decide +kernel

theorem faultW2_outcome :
    (match chainRunF faultInfo (freshSegment faultInfo) faultW2 with
     | .ok p => p.1.offsets.length == 2 && p.1.commitIdx == 6
     | _ => false) = true := by decide +kernel

theorem faultW3_wf : ChainWFF faultInfo faultW3 where
  nonempty := by decide
  payload_le := by decide
  faults := by
    intro e he
    simp only [faultW3, List.mem_cons, List.mem_nil_iff, or_false] at he
    rcases he with rfl | rfl | rfl | rfl <;> simp [ChainEvF.faultOk]
  base_lt := by decide
  id_lt := by decide
  codec_lt := by decide
  limit_lt := by decide
  size_lt := by decide
  fits := by decide

theorem faultW3_no_collision : ¬ ChainCollisionF faultInfo faultW3 := by
  rintro ⟨pre, e, post, s, img, c, h1, _, h3, h4, _⟩
  rcases pre with _ | ⟨a0, _ | ⟨a1, _ | ⟨a2, _ | ⟨a3, pre⟩⟩⟩⟩
  all_goals simp only [faultW3, List.nil_append, List.cons_append, List.cons.injEq] at h1
  · obtain ⟨rfl, _⟩ := h1; simp [recoveryImage] at h3
  · obtain ⟨_, rfl, _⟩ := h1; simp [recoveryImage] at h3
  · obtain ⟨_, _, rfl, _⟩ := h1; simp [recoveryImage] at h3
  · obtain ⟨rfl, rfl, rfl, rfl, _⟩ := h1
    simp [candidates, pendingAfter] at h4
  · obtain ⟨_, _, _, _, h⟩ := h1
    cases pre <;> simp at h

theorem faultW3_no_result : ¬ ∃ w file bs, FaultResult faultInfo faultW3 w file bs := by
  rintro ⟨w, file, bs, h⟩
  have hout := faultW3_outcome
  rw [h.run] at hout
  simp only [Bool.and_eq_true, beq_iff_eq] at hout
  have hc := h.count
  have hs := h.spec
  simp only [faultW3, chainSpecF] at hs
  obtain ⟨bs1, rfl, bs2, rfl, hs⟩ := hs
  have : bs2 = [] := by
    rcases hs with hs | ⟨c, _, hc', _⟩
    · exact hs
    · cases hc'
  subst this
  rw [hout.1] at hc
  simp at hc

/-- **FINDING**: the intended statement is false — `faultW3` recovers a fabricated entry with no collision -/
theorem chain_atomic_faults_false : ¬ chain_atomic_faults_stmt := by
  intro h
  rcases h faultInfo faultW3 faultW3_wf with hc | hr
  · exact faultW3_no_collision hc
  · exact faultW3_no_result hr

/-! ## the partial result: `.sync` faults followed by a restart -/

theorem append_sync_file (w : Writer) (file : Bytes) (es : List (Nat × Bytes)) (w' : Writer) (file' : Bytes)
    (h : w.append file es .none = (none, w', file')) (hne : es.isEmpty = false) :
    w.append file es .sync = (some .io, w, file') := by
  unfold Writer.append at h ⊢
  simp only [hne, Bool.false_eq_true, if_false] at h ⊢
  split at h
  · cases h
  · rename_i hidx
    rw [if_neg hidx]
    cases h1 : w.appendEntries es with
    | error e => rw [h1] at h; cases h
    | ok w1 =>
      rw [h1] at h
      simp only at h ⊢
      generalize (if w1.needSeal = true then w1.appendIndex else Except.ok w1) = r at h ⊢
      cases r with
      | error e => cases h
      | ok w2 =>
        simp only [Writer.appendCommit] at h ⊢
        injection h with _ h
        injection h with _ h
        rw [h]

def plainOf : List ChainEvF → Option (List ChainEv)
  | [] => some []
  | .append b :: r => (plainOf r).map (ChainEv.append b :: ·)
  | .restart :: r => (plainOf r).map (ChainEv.restart :: ·)
  | .torn b m :: r => (plainOf r).map (ChainEv.torn b m :: ·)
  | .failed b .sync :: .restart :: r => (plainOf r).map (fun l => ChainEv.append b :: ChainEv.restart :: l)
  | .failed _ _ :: _ => none

theorem indexBatch_isEmpty (n : Nat) (b : List Bytes) (hb : b ≠ []) : (indexBatch n b).isEmpty = false := by
  cases b with
  | nil => exact absurd rfl hb
  | cons p ps => simp [indexBatch, List.zipIdx]

/-- a chain whose failed appends are `.sync` faults each followed by a restart runs exactly like the fault-free chain -/
theorem chainRunF_plain (info : SegInfo) (evs : List ChainEvF) :
    ∀ (l : List ChainEv), plainOf evs = some l → (∀ b ∈ chainBatchesF evs, b ≠ []) →
    ∀ (s r : Writer × Bytes), chainRun info s l = .ok r → chainRunF info s evs = .ok r := by
  induction evs using plainOf.induct with
  | case1 =>
    intro l hl _ s r hr
    simp only [plainOf, Option.some.injEq] at hl; subst hl
    exact hr
  | case2 b rest ih =>
    intro l hl hne s r hr
    simp only [plainOf, Option.map_eq_some_iff] at hl
    obtain ⟨l', hl', rfl⟩ := hl
    rw [chainRun] at hr
    rw [chainRunF]
    show (match chainStep info s (.append b) with | .error err => _ | .ok s' => _) = _
    cases hs : chainStep info s (.append b) with
    | error e => rw [hs] at hr; cases hr
    | ok s' =>
      rw [hs] at hr
      exact ih l' hl' (fun x hx => hne x (by simp [chainBatchesF] at hx ⊢; exact Or.inr hx)) s' r hr
  | case3 rest ih =>
    intro l hl hne s r hr
    simp only [plainOf, Option.map_eq_some_iff] at hl
    obtain ⟨l', hl', rfl⟩ := hl
    rw [chainRun] at hr
    rw [chainRunF]
    show (match chainStep info s .restart with | .error err => _ | .ok s' => _) = _
    cases hs : chainStep info s .restart with
    | error e => rw [hs] at hr; cases hr
    | ok s' =>
      rw [hs] at hr
      exact ih l' hl' (fun x hx => hne x (by simp [chainBatchesF] at hx ⊢; exact Or.inr hx)) s' r hr
  | case4 b m rest ih =>
    intro l hl hne s r hr
    simp only [plainOf, Option.map_eq_some_iff] at hl
    obtain ⟨l', hl', rfl⟩ := hl
    rw [chainRun] at hr
    rw [chainRunF]
    show (match chainStep info s (.torn b m) with | .error err => _ | .ok s' => _) = _
    cases hs : chainStep info s (.torn b m) with
    | error e => rw [hs] at hr; cases hr
    | ok s' =>
      rw [hs] at hr
      exact ih l' hl' (fun x hx => hne x (by simp [chainBatchesF] at hx ⊢; exact Or.inr hx)) s' r hr
  | case5 b rest ih =>
    intro l hl hne s r hr
    simp only [plainOf, Option.map_eq_some_iff] at hl
    obtain ⟨l', hl', rfl⟩ := hl
    have hb : b ≠ [] := hne b (by simp [chainBatchesF, ChainEvF.batches])
    rw [chainRun] at hr
    cases hs : chainStep info s (.append b) with
    | error e => rw [hs] at hr; cases hr
    | ok s' =>
      rw [hs] at hr
      simp only at hr
      rw [chainRun] at hr
      cases hs2 : chainStep info s' .restart with
      | error e => rw [hs2] at hr; cases hr
      | ok s'' =>
        rw [hs2] at hr
        simp only at hr
        -- the append
        simp only [chainStep] at hs
        cases happ : s.1.append s.2 (indexBatch (chainNext info s.1) b) .none with
        | mk eo rest2 =>
          obtain ⟨w', file'⟩ := rest2
          rw [happ] at hs
          cases eo with
          | some e => cases hs
          | none =>
            simp only [Except.ok.injEq] at hs
            subst hs
            have hsync := append_sync_file s.1 s.2 _ w' file' happ (indexBatch_isEmpty _ b hb)
            have h1 : chainStepF info s (.failed b .sync) = .ok (s.1, file') := by
              simp only [chainStepF, hsync]
              simp
            have h2 : chainStepF info (s.1, file') .restart = .ok s'' := by
              simp only [chainStepF, chainStep] at hs2 ⊢
              exact hs2
            rw [chainRunF, h1]
            simp only
            rw [chainRunF, h2]
            simp only
            exact ih l' hl' (fun x hx => hne x (by
              simp only [chainBatchesF, List.flatMap_cons, List.mem_append] at hx ⊢; exact Or.inr (Or.inr hx))) s'' r hr
  | case6 b f tail hno =>
    intro l hl
    exfalso
    cases f <;> cases tail <;> try (simp [plainOf] at hl)

theorem chainBatches_plain (evs : List ChainEvF) :
    ∀ (l : List ChainEv), plainOf evs = some l → chainBatches l = chainBatchesF evs := by
  induction evs using plainOf.induct with
  | case1 => intro l hl; simp only [plainOf, Option.some.injEq] at hl; subst hl; rfl
  | case2 b rest ih =>
    intro l hl
    simp only [plainOf, Option.map_eq_some_iff] at hl
    obtain ⟨l', hl', rfl⟩ := hl
    have := ih l' hl'
    simp only [chainBatches, chainBatchesF, List.flatMap_cons] at this ⊢
    rw [this]; rfl
  | case3 rest ih =>
    intro l hl
    simp only [plainOf, Option.map_eq_some_iff] at hl
    obtain ⟨l', hl', rfl⟩ := hl
    have := ih l' hl'
    simp only [chainBatches, chainBatchesF, List.flatMap_cons] at this ⊢
    rw [this]; rfl
  | case4 b m rest ih =>
    intro l hl
    simp only [plainOf, Option.map_eq_some_iff] at hl
    obtain ⟨l', hl', rfl⟩ := hl
    have := ih l' hl'
    simp only [chainBatches, chainBatchesF, List.flatMap_cons] at this ⊢
    rw [this]; rfl
  | case5 b rest ih =>
    intro l hl
    simp only [plainOf, Option.map_eq_some_iff] at hl
    obtain ⟨l', hl', rfl⟩ := hl
    have := ih l' hl'
    simp only [chainBatches, chainBatchesF, List.flatMap_cons] at this ⊢
    rw [this]; rfl
  | case6 b f tail hno =>
    intro l hl
    exfalso
    cases f <;> cases tail <;> try (simp [plainOf] at hl)

/-- the outcomes of the fault-free chain are admissible outcomes of the chain with faults: a `.sync`-failed batch
    followed by a restart is the pending batch recovered whole -/
theorem chainSpec_plain (evs : List ChainEvF) :
    ∀ (l : List ChainEv), plainOf evs = some l → ∀ (p : Option (List Bytes)) (bs : List (List Bytes)),
      chainSpec l bs → chainSpecF p evs bs := by
  induction evs using plainOf.induct with
  | case1 => intro l hl p bs h; simp only [plainOf, Option.some.injEq] at hl; subst hl; exact h
  | case2 b rest ih =>
    intro l hl p bs h
    simp only [plainOf, Option.map_eq_some_iff] at hl
    obtain ⟨l', hl', rfl⟩ := hl
    obtain ⟨bs', rfl, h'⟩ := h
    exact ⟨bs', rfl, ih l' hl' none bs' h'⟩
  | case3 rest ih =>
    intro l hl p bs h
    simp only [plainOf, Option.map_eq_some_iff] at hl
    obtain ⟨l', hl', rfl⟩ := hl
    exact Or.inl (ih l' hl' none bs h)
  | case4 b m rest ih =>
    intro l hl p bs h
    simp only [plainOf, Option.map_eq_some_iff] at hl
    obtain ⟨l', hl', rfl⟩ := hl
    rcases h with h | ⟨bs', rfl, h'⟩
    · exact Or.inl (ih l' hl' none bs h)
    · exact Or.inr (Or.inl ⟨bs', rfl, ih l' hl' none bs' h'⟩)
  | case5 b rest ih =>
    intro l hl p bs h
    simp only [plainOf, Option.map_eq_some_iff] at hl
    obtain ⟨l', hl', rfl⟩ := hl
    obtain ⟨bs', rfl, h'⟩ := h
    exact Or.inr ⟨b, bs', rfl, rfl, ih l' hl' none bs' h'⟩
  | case6 b f tail hno =>
    intro l hl
    exfalso
    cases f <;> cases tail <;> try (simp [plainOf] at hl)

/-- **PARTIAL RESULT** (`.sync` faults, each failed append immediately followed by a restart; any number of them,
    freely mixed with acknowledged appends, restarts and torn appends).  Let `l` be the fault-free chain
    `plainOf evs` (every `failed b .sync; restart` replaced by `append b; restart`).  Either a torn event of `l` (the
    torn events of `evs`, at the same states) exhibits a CRC-32C collision, or the chain WITH the faults runs to a
    state with the full conclusion: all acknowledged batches and every `.sync`-failed batch readable whole (C10:
    "applied in full"), torn batches whole or absent, nothing else, zeros behind the write offset. -/
theorem chain_atomic_faults_partial (info : SegInfo) (evs : List ChainEvF) (l : List ChainEv)
    (hp : plainOf evs = some l) (hwf : ChainWFF info evs) :
    ChainCollision info l
    ∨ ∃ w file bs, FaultResult info evs w file bs ∧ ChainResult info l w file bs
        ∧ (∀ x ∈ file.drop w.writeOffset, x = 0) := by
  have hcb := chainBatches_plain evs l hp
  have hwf' : ChainWF info l :=
    ⟨by rw [hcb]; exact hwf.nonempty, by rw [hcb]; exact hwf.payload_le, hwf.base_lt, hwf.id_lt, hwf.codec_lt,
      hwf.limit_lt, by rw [hcb]; exact hwf.size_lt, by rw [hcb]; exact hwf.fits⟩
  rcases chain_atomic info l hwf' with hc | ⟨w, file, bs, hres⟩
  · exact Or.inl hc
  · refine Or.inr ⟨w, file, bs, ⟨?_, chainSpec_plain evs l hp none bs hres.spec, ?_, hres.readable, hres.nothingAbove,
      fun _ => hres.clean⟩, hres, hres.clean⟩
    · exact chainRunF_plain info evs l hp hwf.nonempty _ _ hres.run
    · exact Nat.add_left_cancel hres.inv.next

/-! ## non-vacuity -/

/-- append; `.sync`-failed 3-entry batch (56 bytes behind the tail); torn SHORTER batch (2 entries, 40 bytes: its
    commit frame falls on the header of the failed batch's third entry frame) of which only the first and the last
    chunk land; restart.  The scan meets: entry header (new) over stale payload, stale entry frame, the in-flight
    commit (CRC mismatch), then the stale payload chunk `[15, 0, …]`, which is no frame header: it stops.  Recovered
    as absent, stale bytes zeroed. -/
def faultExEvs : List ChainEvF :=
  [.append [[1, 2, 3]], .failed [[10, 11], [12, 13, 14], [15]] .sync,
   .torn [[20, 21], [22, 23, 24]] (fun j => j == 0 || j == 4), .restart]

/-- info: Except.ok ({ offsets := [32], writeOffset := 56, commitIdx := 5, indexStart := 0 }, [Except.ok [1, 2, 3]], true) -/
#guard_msgs in
#eval showF faultInfo (chainRunF faultInfo (freshSegment faultInfo) faultExEvs)

-- before the torn event: the failed batch's 56 bytes lie behind the write offset (not clean)
/-- info: Except.ok ({ offsets := [32], writeOffset := 56, commitIdx := 5, indexStart := 0 }, [Except.ok [1, 2, 3]], false) -/
#guard_msgs in
#eval showF faultInfo (chainRunF faultInfo (freshSegment faultInfo) (faultExEvs.take 2))

/-- a restart right after the failed append recovers it whole (the case `chain_atomic_faults_partial` covers) -/
def faultExEvs2 : List ChainEvF :=
  [.append [[1, 2, 3]], .failed [[10, 11], [12, 13, 14], [15]] .sync, .restart, .torn [[20]] (fun j => j == 0), .append [[30]]]

/-- info: Except.ok ({ offsets := [32, 56, 72, 88, 112], writeOffset := 136, commitIdx := 9, indexStart := 0 },
 [Except.ok [1, 2, 3], Except.ok [10, 11], Except.ok [12, 13, 14], Except.ok [15], Except.ok [30]],
 true) -/
#guard_msgs in
#eval showF faultInfo (chainRunF faultInfo (freshSegment faultInfo) faultExEvs2)

example : ∃ l, plainOf faultExEvs2 = some l := ⟨_, rfl⟩

example : ChainWFF faultInfo faultExEvs2 where
  nonempty := by decide
  payload_le := by decide
  faults := by
    intro e he
    simp only [faultExEvs2, List.mem_cons, List.mem_nil_iff, or_false] at he
    rcases he with rfl | rfl | rfl | rfl | rfl <;> simp [ChainEvF.faultOk]
  base_lt := by decide
  id_lt := by decide
  codec_lt := by decide
  limit_lt := by decide
  size_lt := by decide
  fits := by decide

/-- a torn batch that shares its first chunk with the pending failed batch and lands only that chunk: the FAILED
    batch is recovered whole by the torn event's recovery (third disjunct of `chainSpecF` at `torn`) -/
def faultExEvs3 : List ChainEvF :=
  [.append [[1, 2, 3]], .failed [[10, 11], [12, 13, 14], [15]] .sync, .torn [[10, 11], [22, 23, 24]] (fun j => j == 0)]

/-- info: Except.ok ({ offsets := [32, 56, 72, 88], writeOffset := 112, commitIdx := 8, indexStart := 0 },
 [Except.ok [1, 2, 3], Except.ok [10, 11], Except.ok [12, 13, 14], Except.ok [15]],
 true) -/
#guard_msgs in
#eval showF faultInfo (chainRunF faultInfo (freshSegment faultInfo) faultExEvs3)

end RaftWal

#print axioms RaftWal.chain_atomic_faults_false    -- [propext, Quot.sound]
#print axioms RaftWal.chain_atomic_faults_partial  -- [propext, Classical.choice, Quot.sound]
#print axioms RaftWal.chainRunF_plain              -- [propext, Quot.sound]
#print axioms RaftWal.faultW3_outcome              -- [propext, Quot.sound]
