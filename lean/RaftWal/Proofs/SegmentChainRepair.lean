/-
  Proofs/SegmentChainRepair.lean — the repair of O21 (Model/SegmentRepair.lean) proved on the model.
-/
import RaftWal.Model.SegmentRepair
import RaftWal.Proofs.SegmentChainFault
namespace RaftWal
open Spec (Acc Batch addEntry addBatch)

/-! ## chain semantics of the repaired writer, over the same events `ChainEvF` -/

def freshD (info : SegInfo) : WriterD × Bytes := (((freshSegment info).1, false), (freshSegment info).2)

def chainStepD (info : SegInfo) (s : WriterD × Bytes) : ChainEvF → Except SegErr (WriterD × Bytes)
  | .append b =>
    match appendD s.1 s.2 (indexBatch (chainNext info s.1.1) b) .none with
    | (some e, _, _) => .error e
    | (none, s', file') => .ok (s', file')
  | .restart => recoverD info s.2
  | .torn b mask =>
    -- the clearing step (if any) completed durably; the process is cut during the batch write
    match s.1.1.append (cleanFile s.1 s.2) (indexBatch (chainNext info s.1.1) b) .none with
    | (some e, _, _) => .error e
    | (none, w', file') =>
      recoverD info (tearImage (cleanFile s.1 s.2) file' s.1.1.writeOffset (w'.writeOffset - s.1.1.writeOffset) mask)
  | .failed b fault =>
    if fault = .none then .error .other
    else match appendD s.1 s.2 (indexBatch (chainNext info s.1.1) b) fault with
      | (some .io, s', file') => .ok (s', file')
      | (some e, _, _) => .error e
      | (none, _, _) => .error .other

def chainRunD (info : SegInfo) (s : WriterD × Bytes) : List ChainEvF → Except SegErr (WriterD × Bytes)
  | [] => .ok s
  | e :: evs =>
    match chainStepD info s e with
    | .error err => .error err
    | .ok s' => chainRunD info s' evs

/-! ## the three witnesses of O21 no longer fabricate -/

def showD (info : SegInfo) (r : Except SegErr (WriterD × Bytes)) :=
  r.map fun p => (p.1.1.obs, p.1.2, readBack info (p.1.1, p.2), (p.2.drop p.1.1.writeOffset).all (· == 0))

/-- info: Except.ok ({ offsets := [32, 56], writeOffset := 72, commitIdx := 6, indexStart := 0 },
 false,
 [Except.ok [1, 2, 3], Except.ok []],
 true) -/
#guard_msgs in
#eval showD faultInfo (chainRunD faultInfo (freshD faultInfo) faultW3)

/-- info: Except.ok ({ offsets := [32], writeOffset := 56, commitIdx := 5, indexStart := 0 }, false, [Except.ok [1, 2, 3]], true) -/
#guard_msgs in
#eval showD faultInfo (chainRunD faultInfo (freshD faultInfo) faultW1)

/-- info: Except.ok ({ offsets := [32], writeOffset := 56, commitIdx := 5, indexStart := 0 }, false, [Except.ok [1, 2, 3]], true) -/
#guard_msgs in
#eval showD faultInfo (chainRunD faultInfo (freshD faultInfo) faultW2)

/-! ## list lemmas -/

theorem pendingAfter_append (l1 l2 : List ChainEvF) : ∀ p, pendingAfter p (l1 ++ l2) = pendingAfter (pendingAfter p l1) l2 := by
  induction l1 with
  | nil => intro p; rfl
  | cons e l ih => intro p; cases e <;> simp only [List.cons_append, pendingAfter, ih]

theorem dirtyAfter_append (l1 l2 : List ChainEvF) : ∀ d, dirtyAfter d (l1 ++ l2) = dirtyAfter (dirtyAfter d l1) l2 := by
  induction l1 with
  | nil => intro d; rfl
  | cons e l ih => intro d; cases e <;> simp only [List.cons_append, dirtyAfter, ih]

theorem chainSpecF_append (l1 l2 : List ChainEvF) : ∀ p bs1 bs2, chainSpecF p l1 bs1 →
    chainSpecF (pendingAfter p l1) l2 bs2 → chainSpecF p (l1 ++ l2) (bs1 ++ bs2) := by
  induction l1 with
  | nil => intro p bs1 bs2 h1 h2; simp only [chainSpecF] at h1; subst h1; exact h2
  | cons e l ih =>
    intro p bs1 bs2 h1 h2
    cases e with
    | append b =>
      simp only [List.cons_append, chainSpecF, pendingAfter] at h1 h2 ⊢
      obtain ⟨bs', rfl, h'⟩ := h1
      exact ⟨bs' ++ bs2, rfl, ih none bs' bs2 h' h2⟩
    | failed b f =>
      simp only [List.cons_append, chainSpecF, pendingAfter] at h1 h2 ⊢
      exact ih (some b) bs1 bs2 h1 h2
    | restart =>
      simp only [List.cons_append, chainSpecF, pendingAfter] at h1 h2 ⊢
      rcases h1 with h | ⟨c, bs', hp, rfl, h'⟩
      · exact Or.inl (ih none bs1 bs2 h h2)
      · exact Or.inr ⟨c, bs' ++ bs2, hp, rfl, ih none bs' bs2 h' h2⟩
    | torn b m =>
      simp only [List.cons_append, chainSpecF, pendingAfter] at h1 h2 ⊢
      rcases h1 with h | ⟨bs', rfl, h'⟩ | ⟨c, bs', hp, rfl, h'⟩
      · exact Or.inl (ih none bs1 bs2 h h2)
      · exact Or.inr (Or.inl ⟨bs' ++ bs2, rfl, ih none bs' bs2 h' h2⟩)
      · exact Or.inr (Or.inr ⟨c, bs' ++ bs2, hp, rfl, ih none bs' bs2 h' h2⟩)

theorem chainBatchesF_snoc (evs : List ChainEvF) (e : ChainEvF) :
    chainBatchesF (evs ++ [e]) = chainBatchesF evs ++ e.batches := by simp [chainBatchesF]

theorem chainRunD_append (info : SegInfo) (s s1 : WriterD × Bytes) (l1 l2 : List ChainEvF)
    (h : chainRunD info s l1 = .ok s1) : chainRunD info s (l1 ++ l2) = chainRunD info s1 l2 := by
  induction l1 generalizing s with
  | nil =>
    simp only [chainRunD, Except.ok.injEq] at h
    rw [h, List.nil_append]
  | cons e l1 ih =>
    rw [List.cons_append, chainRunD]
    rw [chainRunD] at h
    cases hs : chainStepD info s e with
    | error err => rw [hs] at h; cases h
    | ok s' =>
      rw [hs] at h
      exact ih s' h

theorem chainRunD_snoc (info : SegInfo) (s s1 : WriterD × Bytes) (l : List ChainEvF) (e : ChainEvF)
    (h : chainRunD info s l = .ok s1) : chainRunD info s (l ++ [e]) = chainStepD info s1 e := by
  rw [chainRunD_append info s s1 l [e] h, chainRunD]
  cases chainStepD info s1 e <;> rfl

theorem need_nil : need [] = 0 := rfl
theorem cnt_nil : cnt [] = 0 := rfl

/-! ## the invariant -/

/-- what the file is like up to the write offset and the writer are those of `bs`; nothing is said about the
    bytes behind the write offset (the state between a failed append and the next write) -/
structure DirtyInv (info : SegInfo) (w : Writer) (file : Bytes) (bs : List (List Bytes)) : Prop where
  clean : ∃ fileC, ChainInv info w fileC bs ∧ file.take w.writeOffset = fileC.take w.writeOffset
  wo    : w.writeOffset ≤ file.length

theorem chainInv_transfer {info : SegInfo} {w : Writer} {fileC file : Bytes} {bs : List (List Bytes)}
    (h : ChainInv info w fileC bs) (ht : file.take w.writeOffset = fileC.take w.writeOffset)
    (hl : w.writeOffset ≤ file.length) (hz : ∀ x ∈ file.drop w.writeOffset, x = 0) : ChainInv info w file bs :=
  ⟨⟨h.inv.info, by rw [ht]; exact h.inv.bytes, hl, h.inv.cs, h.inv.crc, h.inv.offsEq, hz⟩, h.empty, h.done, h.idx, h.small⟩

theorem ChainInv.dirty {info : SegInfo} {w : Writer} {file : Bytes} {bs : List (List Bytes)} (h : ChainInv info w file bs) :
    DirtyInv info w file bs := ⟨⟨file, h, rfl⟩, h.inv.wo⟩

theorem clearStale_take (file : Bytes) (wo : Nat) (h : wo ≤ file.length) : (clearStale file wo).take wo = file.take wo := by
  rw [clearStale, List.take_left' (by rw [List.length_take]; omega)]

theorem clearStale_length (file : Bytes) (wo : Nat) (h : wo ≤ file.length) : (clearStale file wo).length = file.length := by
  rw [clearStale, List.length_append, List.length_take, zeros_length]; omega

theorem clearStale_zeros (file : Bytes) (wo : Nat) (h : wo ≤ file.length) : ∀ x ∈ (clearStale file wo).drop wo, x = 0 := by
  intro x hx
  rw [clearStale, List.drop_left' (by rw [List.length_take]; omega)] at hx
  exact List.eq_of_mem_replicate hx

/-- **the clearing step restores the chain invariant** -/
theorem DirtyInv.cleared {info : SegInfo} {w : Writer} {file : Bytes} {bs : List (List Bytes)} (h : DirtyInv info w file bs) :
    ChainInv info w (clearStale file w.writeOffset) bs := by
  obtain ⟨fileC, hC, ht⟩ := h.clean
  exact chainInv_transfer hC (by rw [clearStale_take _ _ h.wo, ht]) (by rw [clearStale_length _ _ h.wo]; exact h.wo)
    (clearStale_zeros _ _ h.wo)

theorem staleBehind_false {file : Bytes} {wo : Nat} (h : staleBehind file wo = false) : ∀ x ∈ file.drop wo, x = 0 := by
  intro x hx
  simp only [staleBehind, List.any_eq_false] at h
  have := h x hx
  simpa using this

theorem staleBehind_of_zeros {file : Bytes} {wo : Nat} (h : ∀ x ∈ file.drop wo, x = 0) : staleBehind file wo = false := by
  simp only [staleBehind, List.any_eq_false]
  intro x hx
  simp [h x hx]

/-- the file the next write starts from satisfies the chain invariant -/
theorem DirtyInv.cleanFile {info : SegInfo} {s : WriterD} {file : Bytes} {bs : List (List Bytes)}
    (h : DirtyInv info s.1 file bs) (hflag : s.2 = false → ChainInv info s.1 file bs) :
    ChainInv info s.1 (cleanFile s file) bs := by
  unfold RaftWal.cleanFile
  by_cases hc : (s.2 && staleBehind file s.1.writeOffset) = true
  · rw [if_pos hc]; exact h.cleared
  · rw [if_neg hc]
    cases h2 : s.2 with
    | false => exact hflag h2
    | true =>
      rw [h2] at hc
      have hs : staleBehind file s.1.writeOffset = false := by simpa using hc
      obtain ⟨fileC, hC, ht⟩ := h.clean
      exact chainInv_transfer hC ht h.wo (staleBehind_false hs)

theorem appendD_none (s : WriterD) (file : Bytes) (es : List (Nat × Bytes)) :
    appendD s file es .none = appendCoreD s.1 false (cleanFile s file) es .none := by
  unfold appendD cleanFile
  split <;> rfl

theorem chainStepD_append (info : SegInfo) (s : WriterD) (file : Bytes) (b : List Bytes) :
    chainStepD info (s, file) (.append b)
      = (chainStep info (s.1, cleanFile s file) (.append b)).map (fun p => ((p.1, false), p.2)) := by
  simp only [chainStepD, chainStep, appendD_none, appendCoreD]
  rcases s.1.append (cleanFile s file) (indexBatch (chainNext info s.1) b) .none with ⟨_ | e, w', f'⟩ <;> rfl

theorem chainStepD_torn (info : SegInfo) (s : WriterD) (file : Bytes) (b : List Bytes) (m : Nat → Bool) :
    chainStepD info (s, file) (.torn b m)
      = (chainStep info (s.1, cleanFile s file) (.torn b m)).map (fun p => ((p.1, false), p.2)) := by
  simp only [chainStepD, chainStep, recoverD]
  rcases s.1.append (cleanFile s file) (indexBatch (chainNext info s.1) b) .none with ⟨_ | e, w', f'⟩ <;> rfl

theorem chainStepD_restart (info : SegInfo) (s : WriterD) (file : Bytes) :
    chainStepD info (s, file) .restart = (chainStep info (s.1, file) .restart).map (fun p => ((p.1, false), p.2)) := rfl


/-- a completed append leaves the bytes before the write offset it started from as they were -/
theorem chain_append_take (info : SegInfo) (bs : List (List Bytes)) (b : List Bytes) (hwf : RunWF info (bs ++ [b]))
    (w : Writer) (file : Bytes) (hI : ChainInv info w file bs) (w' : Writer) (file' : Bytes)
    (happ : w.append file (indexBatch (info.base + bs.flatten.length) b) .none = (none, w', file')) :
    file'.take w.writeOffset = file.take w.writeOffset ∧ w.writeOffset ≤ file'.length := by
  obtain ⟨s, h1, h1', hcb', _, _, _, _⟩ := chain_append_setup info bs b hwf w file hI w' file' happ
  have hA' := addBatch_bytes ((ackBatches bs).foldl addBatch (acc0 info)) ⟨b, s⟩
  have e := h1'.bytes
  rw [hcb', List.append_nil, hA', h1.bytes, List.append_assoc] at e
  have hl := congrArg List.length e
  simp only [List.length_append, List.length_take, Nat.min_eq_left h1.wo, Nat.min_eq_left h1'.wo] at hl
  have hle : w.writeOffset ≤ w'.writeOffset := by omega
  have e2 := congrArg (List.take w.writeOffset) e
  rw [List.take_left' (by rw [List.length_take]; exact Nat.min_eq_left h1.wo), List.take_take, Nat.min_eq_left hle] at e2
  exact ⟨e2.symm, Nat.le_trans hle h1'.wo⟩

/-! ## the induction (`.sync` faults) -/

def Good (b : List Bytes) : Prop := b ≠ [] ∧ ∀ p ∈ b, p.length ≤ maxEntrySize

/-- the state invariant: `DirtyInv` always, `ChainInv` when the flag is not set; and (what makes the statement
    true) the file is clean, or it is exactly the file a COMPLETED append of the pending failed batch leaves -/
def RepInv (info : SegInfo) (s : WriterD) (file : Bytes) (bs : List (List Bytes)) (pend : Option (List Bytes)) : Prop :=
  DirtyInv info s.1 file bs ∧ (s.2 = false → ChainInv info s.1 file bs) ∧
  (ChainInv info s.1 file bs ∨ ∃ c w', pend = some c ∧ ChainInv info w' file (bs ++ [c])
      ∧ (runBytesBound (bs ++ [c]) ≤ info.sizeLimit → w'.indexStart = 0))

structure RepOK (info : SegInfo) (evs : List ChainEvF) (s : WriterD) (file : Bytes) (bs : List (List Bytes)) : Prop where
  run      : chainRunD info (freshD info) evs = .ok (s, file)
  spec     : chainSpecF none evs bs
  st       : RepInv info s file bs (pendingAfter none evs)
  unsealed : runBytesBound (chainBatchesF evs) ≤ info.sizeLimit → s.1.indexStart = 0
  flag     : dirtyAfter false evs = false → s.2 = false
  okbs     : ∀ x ∈ bs, Good x
  pendok   : ∀ c, pendingAfter none evs = some c → Good c
  sz       : need bs + need (pendingAfter none evs).toList ≤ need (chainBatchesF evs)
             ∧ cnt bs + cnt (pendingAfter none evs).toList ≤ cnt (chainBatchesF evs)

/-- every failed append of the chain fails on its fsync -/
def SyncOnly (evs : List ChainEvF) : Prop := ∀ b f, ChainEvF.failed b f ∈ evs → f = .sync

/-- a torn event exhibits a CRC-32C collision; the tear is taken over the file AFTER the clearing step -/
def ChainCollisionD (info : SegInfo) (evs : List ChainEvF) : Prop :=
  ∃ pre b mask post s, evs = pre ++ ChainEvF.torn b mask :: post
    ∧ chainRunD info (freshD info) pre = .ok s ∧ TornCollision info (s.1.1, cleanFile s.1 s.2) b mask

theorem collisionD_snoc {info : SegInfo} {evs : List ChainEvF} (e : ChainEvF) (h : ChainCollisionD info evs) :
    ChainCollisionD info (evs ++ [e]) := by
  obtain ⟨pre, b, mask, post, s, h1, h2, h3⟩ := h
  exact ⟨pre, b, mask, post ++ [e], s, by rw [h1]; simp, h2, h3⟩

theorem ChainWFF.prefix {info : SegInfo} {evs : List ChainEvF} {e : ChainEvF} (h : ChainWFF info (evs ++ [e])) :
    ChainWFF info evs := by
  have hcb := chainBatchesF_snoc evs e
  have hsub : ∀ x ∈ chainBatchesF evs, x ∈ chainBatchesF (evs ++ [e]) := by
    intro x hx; rw [hcb]; exact List.mem_append_left _ hx
  have hsz : runBytesBound (chainBatchesF evs) ≤ runBytesBound (chainBatchesF (evs ++ [e])) := by
    rw [hcb, runBytesBound_eq, runBytesBound_eq, need_append, cnt_append]; omega
  refine ⟨fun b hb => h.nonempty b (hsub b hb), fun b hb => h.payload_le b (hsub b hb),
    fun x hx => h.faults x (List.mem_append_left _ hx), h.base_lt, h.id_lt, h.codec_lt, h.limit_lt,
    Nat.lt_of_le_of_lt hsz h.size_lt, ?_⟩
  have hf := h.fits
  rw [hcb] at hf
  obtain ⟨d1, d2⟩ := need_dropLast_le (chainBatchesF evs)
  by_cases hb : e.batches = []
  · rw [hb, List.append_nil] at hf; exact hf
  · rw [List.dropLast_append_of_ne_nil hb] at hf
    rw [runBytesBound_eq] at hf ⊢
    rw [need_append, cnt_append] at hf
    omega

/-- one more batch event: the common part -/
theorem repOK_batch_setup {info : SegInfo} {evs : List ChainEvF} {e : ChainEvF} {b : List Bytes}
    (he : e.batches = [b]) (hwf : ChainWFF info (evs ++ [e]))
    {s : WriterD} {file : Bytes} {bs : List (List Bytes)} (h : RepOK info evs s file bs) :
    RunWF info (bs ++ [b]) ∧ Good b ∧ s.1.indexStart = 0
    ∧ (runBytesBound (chainBatchesF (evs ++ [e])) ≤ info.sizeLimit → runBytesBound (bs ++ [b]) ≤ info.sizeLimit)
    ∧ need bs + need [b] ≤ need (chainBatchesF (evs ++ [e])) ∧ cnt bs + cnt [b] ≤ cnt (chainBatchesF (evs ++ [e])) := by
  have hcb : chainBatchesF (evs ++ [e]) = chainBatchesF evs ++ [b] := by rw [chainBatchesF_snoc, he]
  have hbm : b ∈ chainBatchesF (evs ++ [e]) := by rw [hcb]; exact List.mem_append_right _ List.mem_cons_self
  obtain ⟨z1, z2⟩ := h.sz
  have hsz : runBytesBound (bs ++ [b]) ≤ runBytesBound (chainBatchesF (evs ++ [e])) := by
    rw [hcb, runBytesBound_eq, runBytesBound_eq, need_append, need_append, cnt_append, cnt_append]; omega
  have hgood : Good b := ⟨hwf.nonempty b hbm, hwf.payload_le b hbm⟩
  refine ⟨⟨?_, hwf.base_lt, hwf.id_lt, hwf.codec_lt, hwf.limit_lt, Nat.lt_of_le_of_lt hsz hwf.size_lt⟩, hgood, ?_,
    fun hf => Nat.le_trans hsz hf, ?_, ?_⟩
  · intro x hx
    rcases List.mem_append.mp hx with hx | hx
    · exact (h.okbs x hx).1
    · rw [List.mem_singleton.mp hx]; exact hgood.1
  · apply h.unsealed
    have hf := hwf.fits
    rw [hcb, List.dropLast_concat] at hf
    exact hf
  · rw [hcb, need_append]; omega
  · rw [hcb, cnt_append]; omega

theorem okbs_snoc {bs : List (List Bytes)} {b : List Bytes} (h : ∀ x ∈ bs, Good x) (hb : Good b) : ∀ x ∈ bs ++ [b], Good x := by
  intro x hx
  rcases List.mem_append.mp hx with hx | hx
  · exact h x hx
  · rw [List.mem_singleton.mp hx]; exact hb

theorem chain_stepD (info : SegInfo) (evs : List ChainEvF) (e : ChainEvF) (hwf : ChainWFF info (evs ++ [e]))
    (hsync : SyncOnly (evs ++ [e]))
    (s : WriterD) (file : Bytes) (bs : List (List Bytes)) (h : RepOK info evs s file bs) :
    ChainCollisionD info (evs ++ [e]) ∨ ∃ s' file' bs', RepOK info (evs ++ [e]) s' file' bs' := by
  obtain ⟨hdirty, hflag, himg⟩ := h.st
  have hclean : ChainInv info s.1 (cleanFile s file) bs := hdirty.cleanFile hflag
  have hcb := chainBatchesF_snoc evs e
  cases e with
  | restart =>
    right
    have hbt : chainBatchesF (evs ++ [.restart]) = chainBatchesF evs := by rw [hcb]; simp [ChainEvF.batches]
    rcases himg with hI | ⟨c, w', hp, hI', hns⟩
    · have hst := chainStep_restart_inv info hwf.base_lt hwf.id_lt hwf.codec_lt bs s.1 file hI
      refine ⟨(s.1, false), file, bs, ?_, ?_, ⟨hI.dirty, fun _ => hI, Or.inl hI⟩, ?_, fun _ => rfl, h.okbs, ?_, ?_⟩
      · rw [chainRunD_snoc info _ _ evs _ h.run, chainStepD_restart, hst]; rfl
      · have := chainSpecF_append evs [.restart] none bs [] h.spec (by simp [chainSpecF])
        rwa [List.append_nil] at this
      · rw [hbt]; exact h.unsealed
      · intro c hc; rw [pendingAfter_append] at hc; simp [pendingAfter] at hc
      · rw [pendingAfter_append, hbt]; simp only [pendingAfter, Option.toList_none, need_nil, cnt_nil]
        have := h.sz; omega
    · have hst : chainStep info (s.1, file) .restart = .ok (w', file) :=
        recover_inv info hwf.base_lt hwf.id_lt hwf.codec_lt (bs ++ [c]) w' file hI'
      have hz := h.sz
      rw [hp] at hz
      simp only [Option.toList_some] at hz
      refine ⟨(w', false), file, bs ++ [c], ?_, ?_, ⟨hI'.dirty, fun _ => hI', Or.inl hI'⟩, ?_, fun _ => rfl,
        okbs_snoc h.okbs (h.pendok c hp), ?_, ?_⟩
      · rw [chainRunD_snoc info _ _ evs _ h.run, chainStepD_restart, hst]; rfl
      · exact chainSpecF_append evs [.restart] none bs [c] h.spec (by
          simp only [chainSpecF]; exact Or.inr ⟨c, [], hp, rfl, rfl⟩)
      · intro hf
        rw [hbt] at hf
        apply hns
        refine Nat.le_trans ?_ hf
        rw [runBytesBound_eq, runBytesBound_eq, need_append, cnt_append]; omega
      · intro c hc; rw [pendingAfter_append] at hc; simp [pendingAfter] at hc
      · rw [pendingAfter_append, hbt]; simp only [pendingAfter, Option.toList_none, need_nil, cnt_nil]
        rw [need_append, cnt_append]; omega
  | append b =>
    right
    obtain ⟨hrwf, hgood, hidx, hfit, hz1, hz2⟩ := repOK_batch_setup (b := b) rfl hwf h
    obtain ⟨w', file', hst, happ, hI'⟩ := chainStep_append_inv info bs b hrwf hgood.2 s.1 _ hclean hidx
    refine ⟨(w', false), file', bs ++ [b], ?_, ?_, ⟨hI'.dirty, fun _ => hI', Or.inl hI'⟩, ?_, fun _ => rfl,
      okbs_snoc h.okbs hgood, ?_, ?_⟩
    · rw [chainRunD_snoc info _ _ evs _ h.run, chainStepD_append, hst]; rfl
    · exact chainSpecF_append evs [.append b] none bs [b] h.spec (by simp only [chainSpecF]; exact ⟨[], rfl, rfl⟩)
    · intro hf
      exact chain_append_noseal info bs b hrwf (hfit hf) s.1 _ hclean w' file' happ
    · intro c hc; rw [pendingAfter_append] at hc; simp [pendingAfter] at hc
    · rw [pendingAfter_append]; simp only [pendingAfter, Option.toList_none, need_nil, cnt_nil]
      rw [need_append, cnt_append]; omega
  | torn b mask =>
    obtain ⟨hrwf, hgood, hidx, hfit, hz1, hz2⟩ := repOK_batch_setup (b := b) rfl hwf h
    rcases chainStep_torn_inv info bs b mask hrwf hgood.2 s.1 _ hclean hidx with
      hcol | ⟨k, hst, hI'⟩ | ⟨w', file', hst, happ, hI'⟩
    · left
      exact ⟨evs, b, mask, [], (s, file), rfl, h.run, hcol⟩
    · right
      refine ⟨(s.1, false), cleanFile s file ++ zeros k, bs, ?_, ?_, ⟨hI'.dirty, fun _ => hI', Or.inl hI'⟩, ?_,
        fun _ => rfl, h.okbs, ?_, ?_⟩
      · rw [chainRunD_snoc info _ _ evs _ h.run, chainStepD_torn, hst]; rfl
      · have := chainSpecF_append evs [.torn b mask] none bs [] h.spec (by simp [chainSpecF])
        rwa [List.append_nil] at this
      · intro _; exact hidx
      · intro c hc; rw [pendingAfter_append] at hc; simp [pendingAfter] at hc
      · rw [pendingAfter_append]; simp only [pendingAfter, Option.toList_none, need_nil, cnt_nil]
        omega
    · right
      refine ⟨(w', false), file', bs ++ [b], ?_, ?_, ⟨hI'.dirty, fun _ => hI', Or.inl hI'⟩, ?_, fun _ => rfl,
        okbs_snoc h.okbs hgood, ?_, ?_⟩
      · rw [chainRunD_snoc info _ _ evs _ h.run, chainStepD_torn, hst]; rfl
      · exact chainSpecF_append evs [.torn b mask] none bs [b] h.spec (by
          simp only [chainSpecF]; exact Or.inr (Or.inl ⟨[], rfl, rfl⟩))
      · intro hf
        exact chain_append_noseal info bs b hrwf (hfit hf) s.1 _ hclean w' file' happ
      · intro c hc; rw [pendingAfter_append] at hc; simp [pendingAfter] at hc
      · rw [pendingAfter_append]; simp only [pendingAfter, Option.toList_none, need_nil, cnt_nil]
        rw [need_append, cnt_append]; omega
  | failed b f =>
    right
    have hf : f = .sync := hsync b f (List.mem_append_right _ List.mem_cons_self)
    subst hf
    obtain ⟨hrwf, hgood, hidx, hfit, hz1, hz2⟩ := repOK_batch_setup (b := b) rfl hwf h
    have hspec : chainSpecF none (evs ++ [.failed b .sync]) bs := by
      have := chainSpecF_append evs [.failed b .sync] none bs [] h.spec (by simp only [chainSpecF])
      rwa [List.append_nil] at this
    have hpa : pendingAfter none (evs ++ [.failed b .sync]) = some b := by
      rw [pendingAfter_append]; rfl
    have hda : dirtyAfter false (evs ++ [.failed b .sync]) = true := by
      rw [dirtyAfter_append]; rfl
    have hpok : ∀ c, pendingAfter none (evs ++ [.failed b .sync]) = some c → Good c := by
      intro c hc; rw [hpa] at hc; cases hc; exact hgood
    have hszn : need bs + need (pendingAfter none (evs ++ [.failed b .sync])).toList ≤ need (chainBatchesF (evs ++ [.failed b .sync]))
        ∧ cnt bs + cnt (pendingAfter none (evs ++ [.failed b .sync])).toList ≤ cnt (chainBatchesF (evs ++ [.failed b .sync])) := by
      rw [hpa]; exact ⟨hz1, hz2⟩
    by_cases hc : (s.2 && staleBehind file s.1.writeOffset) = true
    · -- the clearing step is hit by the fault: zeros written, fsync failed
      have hcf : cleanFile s file = clearStale file s.1.writeOffset := by
        unfold RaftWal.cleanFile; rw [if_pos hc]
      rw [hcf] at hclean
      refine ⟨(s.1, true), clearStale file s.1.writeOffset, bs, ?_, hspec, ⟨hclean.dirty, fun _ => hclean, Or.inl hclean⟩,
        fun _ => hidx, ?_, h.okbs, hpok, hszn⟩
      · rw [chainRunD_snoc info _ _ evs _ h.run]
        simp [chainStepD, appendD, hc]
      · intro hd; rw [hda] at hd; cases hd
    · have hcf : cleanFile s file = file := by
        unfold RaftWal.cleanFile; rw [if_neg hc]
      rw [hcf] at hclean
      obtain ⟨w', file', _, happ, hI'⟩ := chainStep_append_inv info bs b hrwf hgood.2 s.1 file hclean hidx
      have hsf := append_sync_file s.1 file _ w' file' happ (indexBatch_isEmpty _ b hgood.1)
      obtain ⟨t1, t2⟩ := chain_append_take info bs b hrwf s.1 file hclean w' file' happ
      refine ⟨(s.1, true), file', bs, ?_, hspec, ⟨⟨⟨file, hclean, t1⟩, t2⟩, (fun h => absurd h (by simp)), Or.inr ⟨b, w', hpa, hI', ?_⟩⟩,
        fun _ => hidx, ?_, h.okbs, hpok, hszn⟩
      · rw [chainRunD_snoc info _ _ evs _ h.run]
        have hD : appendD s file (indexBatch (chainNext info s.1) b) .sync = (some .io, (s.1, true), file') := by
          unfold appendD
          rw [if_neg hc]
          unfold appendCoreD
          rw [show chainNext info s.1 = info.base + bs.flatten.length from hclean.next, hsf]
          simp
        simp only [chainStepD, hD]
        simp
      · intro hfit2
        exact chain_append_noseal info bs b hrwf hfit2 s.1 file hclean w' file' happ
      · intro hd; rw [hda] at hd; cases hd

theorem repOK_nil (info : SegInfo) : RepOK info [] (freshD info).1 (freshD info).2 [] :=
  ⟨rfl, rfl, ⟨(chainInv_fresh info).dirty, fun _ => chainInv_fresh info, Or.inl (chainInv_fresh info)⟩, fun _ => rfl,
    fun _ => rfl, (fun x hx => by cases hx), (fun c hc => by cases hc), ⟨Nat.le_refl _, Nat.le_refl _⟩⟩

theorem chain_inductionD (info : SegInfo) (rev : List ChainEvF) (hwf : ChainWFF info rev.reverse)
    (hsync : SyncOnly rev.reverse) :
    ChainCollisionD info rev.reverse ∨ ∃ s file bs, RepOK info rev.reverse s file bs := by
  induction rev with
  | nil => exact Or.inr ⟨_, _, _, repOK_nil info⟩
  | cons e rev ih =>
    rw [List.reverse_cons] at hwf hsync ⊢
    rcases ih hwf.prefix (fun b f hm => hsync b f (List.mem_append_left _ hm)) with hc | ⟨s, file, bs, hok⟩
    · exact Or.inl (collisionD_snoc e hc)
    · exact chain_stepD info rev.reverse e hwf hsync s file bs hok


/-! ## reads from a dirty state -/

/-- every entry of the ghost batches is readable whatever lies behind the write offset -/
theorem dirty_getLog (info : SegInfo) (hmin : info.min = info.base) (bs : List (List Bytes))
    (w : Writer) (file : Bytes) (hd : DirtyInv info w file bs)
    (hmax : ∀ b ∈ bs, ∀ p ∈ b, p.length ≤ maxEntrySize)
    (k : Nat) (hk : k < bs.flatten.length) (bufSize : Nat) (hbuf : 8 ≤ bufSize) :
    w.getLog file (info.base + k) bufSize = .ok (bs.flatten[k]'hk) := by
  obtain ⟨fileC, h, ht⟩ := hd.clean
  have hne : bs ≠ [] := by rintro rfl; simp at hk
  have h1 := h.inv
  have h4 := h.small
  rw [chainAcc_eq_summary] at h1 h4
  obtain ⟨hcb, hci, _⟩ := h.done hne
  have hn : file = (Spec.layoutAcc info.base info.id info.codec (specBatches (w.indexStart > 0) bs)).bytes
      ++ file.drop w.writeOffset := by
    rw [h1.bytes, hcb, List.append_nil, ← ht, List.take_append_drop]
  generalize file.drop w.writeOffset = rest at hn
  have hat := entriesAt_foldl ⟨Spec.header info.base info.id info.codec, [], 0⟩
    (specBatches (w.indexStart > 0) bs) [] ⟨rfl, fun x hx => by simp at hx⟩
  rw [List.nil_append, specBatches_eq_sb, sb_payloads, ← specBatches_eq_sb] at hat
  change EntriesAt (Spec.layoutAcc info.base info.id info.codec (specBatches (w.indexStart > 0) bs)).bytes
    (Spec.layoutAcc info.base info.id info.codec (specBatches (w.indexStart > 0) bs)).offsets bs.flatten at hat
  obtain ⟨o, pre, post, ho, hbytes, hpre⟩ := hat.get k hk
  have hp : (bs.flatten[k]'hk).length ≤ maxEntrySize := by
    obtain ⟨b, hb, hpb⟩ := List.mem_flatten.mp (List.getElem_mem hk)
    exact hmax b hb _ hpb
  have hoff : pre.length + 8 < 2^32 := by
    have := congrArg List.length hbytes
    simp only [List.length_append, specEntryFrame_length, encodedFrameSize_eq] at this
    omega
  rw [cnt_eq_flatten_length] at hci
  have hofs : w.offsetForFrame (info.base + k) = .ok o := by
    rw [Writer.offsetForFrame, h1.info, hmin, hci, if_neg (by omega), Nat.add_sub_cancel_left, h1.offsEq, ho]
  rw [Writer.getLog, hofs]
  simp only
  rw [hn, hbytes, ← hpre]
  simp only [List.append_assoc]
  exact readFrame_entry pre (post ++ rest) _ bufSize hbuf hp hoff

/-! ## MAIN THEOREM (partial: fsync faults) and the full statement -/

/-- the conclusion (shape of `FaultResult`, for the repaired run) -/
structure RepairResult (info : SegInfo) (evs : List ChainEvF) (s : WriterD) (file : Bytes) (bs : List (List Bytes)) : Prop where
  /-- the chain runs to `(s, file)` -/
  run      : chainRunD info (freshD info) evs = .ok (s, file)
  /-- `bs`: every acknowledged batch; at a recovery possibly one admissible batch (pending failed / in flight), whole -/
  spec     : chainSpecF none evs bs
  /-- nothing else: the writer knows exactly the entries of `bs` -/
  count    : s.1.offsets.length = bs.flatten.length
  /-- every entry is readable at its index with exactly its payload (also with remains behind the tail) -/
  readable : info.min = info.base → ∀ (k : Nat) (hk : k < bs.flatten.length) (bufSize : Nat), 8 ≤ bufSize →
               s.1.getLog file (info.base + k) bufSize = .ok (bs.flatten[k]'hk)
  /-- nothing above is readable -/
  nothingAbove : ∀ (idx bufSize : Nat), info.base + bs.flatten.length ≤ idx →
               (0 < idx → s.1.getLog file idx bufSize = .error .notFound) ∧ ∃ e, s.1.getLog file idx bufSize = .error e
  /-- after a recovery (no failed append since) the region behind the write offset is all zeros -/
  clean    : dirtyAfter false evs = false → ∀ x ∈ file.drop s.1.writeOffset, x = 0
  /-- more: whenever the flag is not set (in particular after every ACKNOWLEDGED append) it is all zeros -/
  cleanFlag : s.2 = false → ∀ x ∈ file.drop s.1.writeOffset, x = 0
  /-- the invariant -/
  inv      : DirtyInv info s.1 file bs ∧ (s.2 = false → ChainInv info s.1 file bs)

theorem repairResult_of_ok (info : SegInfo) (evs : List ChainEvF)
    (s : WriterD) (file : Bytes) (bs : List (List Bytes)) (h : RepOK info evs s file bs) :
    RepairResult info evs s file bs := by
  obtain ⟨hdirty, hflag, _⟩ := h.st
  obtain ⟨fileC, hC, _⟩ := hdirty.clean
  refine ⟨h.run, h.spec, Nat.add_left_cancel hC.next, ?_, ?_, fun hd => (hflag (h.flag hd)).inv.zeros,
    fun hf => (hflag hf).inv.zeros, hdirty, hflag⟩
  · intro hmin k hk bufSize hbuf
    exact dirty_getLog info hmin bs s.1 file hdirty (fun b hb => (h.okbs b hb).2) k hk bufSize hbuf
  · intro idx bufSize hidx
    have := chain_getLog_above info bs s.1 fileC hC idx hidx bufSize
    by_cases hne : bs = []
    · subst hne
      have hw := hC.empty rfl
      rw [hw] at this ⊢
      by_cases h0 : 0 < idx
      · have hx : (Writer.create info).getLog file idx bufSize = .error .notFound := by
          have hci : (Writer.create info).commitIdx = 0 := rfl
          rw [Writer.getLog, Writer.offsetForFrame, hci, if_pos (Or.inr (Or.inr h0))]
        exact ⟨fun _ => hx, _, hx⟩
      · refine ⟨fun h => absurd h h0, ?_⟩
        have hi0 : idx = 0 := by omega
        subst hi0
        have ho : (Writer.create info).offsets = [] := rfl
        have hof : ∃ e, (Writer.create info).offsetForFrame 0 = .error e := by
          rw [Writer.offsetForFrame]
          split
          · exact ⟨_, rfl⟩
          · rw [ho]; exact ⟨_, rfl⟩
        obtain ⟨e, he⟩ := hof
        rw [Writer.getLog, he]; exact ⟨_, rfl⟩
    · obtain ⟨_, hci, hpos⟩ := hC.done hne
      rw [cnt_eq_flatten_length] at hci hpos
      have hx : s.1.getLog file idx bufSize = .error .notFound := by
        rw [Writer.getLog, Writer.offsetForFrame, hci, if_pos (Or.inr (Or.inr (by omega)))]
      exact ⟨fun _ => hx, _, hx⟩

/-- **the repair, chains whose failed appends fail on their fsync** (any number of them, anywhere, freely mixed with
    acknowledged appends, restarts and torn appends; several failed appends in a row included): a CRC-32C collision
    at a torn event, or the repaired chain runs and: every acknowledged batch is present and readable; anything else
    present is one whole submitted batch (the pending failed one included); nothing partial, nothing fabricated;
    zeros behind the tail whenever the flag is not set. -/
theorem chain_atomic_repaired_sync (info : SegInfo) (evs : List ChainEvF) (hwf : ChainWFF info evs) (hsync : SyncOnly evs) :
    ChainCollisionD info evs ∨ ∃ s file bs, RepairResult info evs s file bs := by
  have := chain_inductionD info evs.reverse (by rw [List.reverse_reverse]; exact hwf) (by rw [List.reverse_reverse]; exact hsync)
  rw [List.reverse_reverse] at this
  rcases this with h | ⟨s, file, bs, h⟩
  · exact Or.inl h
  · exact Or.inr ⟨s, file, bs, repairResult_of_ok info evs s file bs h⟩

/-- a restart reads remains of the pending failed batch (a `.write n` fault) that are a CRC-32C collision of it -/
def RestartCollisionD (info : SegInfo) (evs : List ChainEvF) : Prop :=
  ∃ pre post s c, evs = pre ++ ChainEvF.restart :: post ∧ chainRunD info (freshD info) pre = .ok s
    ∧ pendingAfter none pre = some c ∧ StaleRegionCollision info s.1.1 s.2 c

/-- the FULL statement (all faults, `.write n` included) — NOT proved here; see the header of the report -/
def chain_atomic_repaired_stmt : Prop :=
  ∀ (info : SegInfo) (evs : List ChainEvF), ChainWFF info evs →
    (ChainCollisionD info evs ∨ RestartCollisionD info evs) ∨ ∃ s file bs, RepairResult info evs s file bs

/-! ## the witnesses of O21, kernel-checked: only the acknowledged entries -/

theorem faultW3_repaired :
    (match chainRunD faultInfo (freshD faultInfo) faultW3 with
     | .ok p => p.1.1.offsets.length == 2 && p.1.1.commitIdx == 6 && p.1.2 == false
     | _ => false) = true := by decide +kernel

theorem faultW1_repaired :
    (match chainRunD faultInfo (freshD faultInfo) faultW1 with
     | .ok p => p.1.1.offsets.length == 1 && p.1.1.commitIdx == 5
     | _ => false) = true := by decide +kernel

theorem faultW2_repaired :
    (match chainRunD faultInfo (freshD faultInfo) faultW2 with
     | .ok p => p.1.1.offsets.length == 1 && p.1.1.commitIdx == 5
     | _ => false) = true := by decide +kernel

theorem faultW3_syncOnly : SyncOnly faultW3 := by
  intro b f hm
  simp only [faultW3, List.mem_cons, List.mem_nil_iff, or_false] at hm
  rcases hm with hm | hm | hm | hm <;> cases hm
  rfl

/-! ## FINDING: with `.write n` faults the statement with `chainSpecF` (pending = the LAST failed batch) is too strong

  `failed b1 .sync` (all of `b1` lands), then `failed b2 (.write 0)`: the fault hits the CLEARING step of the second
  append before a single zero is written, so `b1`'s bytes stay; a restart recovers `b1` WHOLE, while `chainSpecF`
  only admits the last failed batch `b2`.  Nothing is fabricated or partial (one whole submitted batch, at its
  indexes), but the ghost "pending" must not be replaced by a failed append that never got past the clearing step. -/

def repairW4 : List ChainEvF :=
  [.append [[1, 2, 3]], .failed [[7]] .sync, .failed [[8], [9]] (.write 0), .restart]

/-- info: Except.ok ({ offsets := [32, 56], writeOffset := 80, commitIdx := 6, indexStart := 0 },
 false,
 [Except.ok [1, 2, 3], Except.ok [7]],
 true) -/
#guard_msgs in
#eval showD faultInfo (chainRunD faultInfo (freshD faultInfo) repairW4)

theorem repairW4_outcome :
    (match chainRunD faultInfo (freshD faultInfo) repairW4 with
     | .ok p => p.1.1.offsets.length == 2 && (match p.1.1.getLog p.2 6 64 with | .ok d => d == [7] | _ => false)
     | _ => false) = true := by decide +kernel

/-- no `RepairResult` (stated with `chainSpecF`) for `repairW4`: the first failed batch is recovered, not the last -/
theorem repairW4_no_result : ¬ ∃ s file bs, RepairResult faultInfo repairW4 s file bs := by
  rintro ⟨s, file, bs, h⟩
  have hout := repairW4_outcome
  rw [h.run] at hout
  simp only [Bool.and_eq_true, beq_iff_eq] at hout
  have hc := h.count
  have hs := h.spec
  simp only [repairW4, chainSpecF] at hs
  obtain ⟨bs1, rfl, hs⟩ := hs
  rw [hout.1] at hc
  rcases hs with rfl | ⟨c, bs', hc', rfl, rfl⟩
  · simp at hc
  · cases hc'
    simp at hc

end RaftWal

#print axioms RaftWal.chain_atomic_repaired_sync
#print axioms RaftWal.chain_stepD
#print axioms RaftWal.DirtyInv.cleared
#print axioms RaftWal.faultW3_repaired
#print axioms RaftWal.repairW4_no_result
