/-
  Proofs/CrashDefs.lean — what the crash theorems about Model/Crash.lean talk about: the invariant of a live
  process between calls (`Quiescent`, executable: the correspondence harness evaluates it on every state the model
  reaches while shadowing the real code), which calls are legal, what they mean on the abstract log, and the
  states reachable by recoveries that are themselves interrupted.
-/
import RaftWal.Model.Crash
namespace RaftWal.Crash

/-- segment `s` and its file agree; `isTail`: s is the last segment -/
def fileOK (d : Disk) (s : Seg) (isTail : Bool) : Bool :=
  match d.file? s.id with
  | none => false
  | some f =>
    f.base == s.base && f.pending.isEmpty && !f.sealedP && decide (s.base ≤ s.min) && decide (1 ≤ s.base) &&
    (if isTail then
       !s.sealed && !f.sealedS && (f.linked || f.synced.isEmpty) && decide (s.min ≤ f.base + f.synced.length)
     else
       s.sealed && f.sealedS && f.linked && decide (s.min ≤ s.max) && decide (s.max < f.base + f.synced.length))

/-- consecutive segments are contiguous and only the first may have lost a prefix -/
def chainOK : List Seg → Bool
  | a :: b :: rest => decide (b.base = a.max + 1) && decide (b.min = b.base) && chainOK (b :: rest)
  | _ => true

def nodupB : List Nat → Bool
  | [] => true
  | a :: l => !l.contains a && nodupB l

/-- the state of the directory between two calls of a live process, and right after a successful Open -/
def quiescentB (d : Disk) : Bool :=
  match d.md.segs.getLast? with
  | none => false
  | some t =>
    d.md.segs.dropLast.all (fun s => fileOK d s false) && fileOK d t true && chainOK d.md.segs &&
    nodupB (d.md.segs.map (·.id)) && d.md.segs.all (fun s => decide (s.id < d.md.nextID)) &&
    nodupB (d.files.map (·.id)) && d.files.all (fun f => d.md.segs.any (fun s => s.id == f.id))

def Quiescent (d : Disk) : Prop := quiescentB d = true

/-- the calls the WAL accepts in state `d` (everything else is refused before any I/O: C05) -/
def Op.ok (d : Disk) : Op → Prop
  | .store first es _ => es ≠ [] ∧ 1 ≤ first ∧ (absLog d = [] ∨ first = lastIndex d + 1)
  | .delHead newMin => absLog d ≠ [] ∧ firstIndex d < newMin ∧ newMin ≤ lastIndex d + 1
  | .delTail newMax => absLog d ≠ [] ∧ firstIndex d ≤ newMax ∧ newMax < lastIndex d
  | .set _ _ => True

/-- what a call means on the abstract log (the contiguous-log specification of C05) -/
def specApply (l : List (Nat × Entry)) : Op → List (Nat × Entry)
  | .store first es _ => l ++ ((List.range es.length).zip es).map (fun p => (first + p.1, p.2))
  | .delHead newMin => l.filter (fun p => decide (newMin ≤ p.1))
  | .delTail newMax => l.filter (fun p => decide (p.1 ≤ newMax))
  | .set _ _ => l

/-- the disk after the first `k` actions of a program, then a crash -/
def crashAfter (d : Disk) (as : List Act) (k : Nat) (c : CrashKind) : Disk := (d.applyAll (as.take k)).crash c

/-- states reachable from `d` by recoveries that are themselves cut by crashes, any number of times -/
inductive ReachRec : Disk → Disk → Prop
  | refl (d : Disk) : ReachRec d d
  | step (d : Disk) (as : List Act) (k : Nat) (c : CrashKind) (d2 : Disk) :
      openProg d = some as → ReachRec (crashAfter d as k c) d2 → ReachRec d d2

/-! ### the strengthened invariant, executable (added after the prover showed `quiescentB` admits two kinds of state
    no run reaches; `QuiescentS` and `quiescentSB_iff` are in CrashLemmas24 / CrashProps) -/

def tailVisB (t : Seg) (f : File) : Bool := f.synced.isEmpty || decide (t.min < f.base + f.synced.length)


/-- `quiescentB` plus (H1) a handle that has completed a Sync belongs to a file whose directory entry is durable and
    (H2) a non-empty tail file shows at least its last entry: what the correspondence harness evaluates on every
    state the model reaches while shadowing the real code -/
def quiescentSB (d : Disk) : Bool :=
  quiescentB d && d.files.all (fun f => !f.hsynced || f.linked) &&
  (match d.md.segs.getLast? with
   | none => true
   | some t =>
     match d.file? t.id with
     | none => true
     | some f => tailVisB t f)


end RaftWal.Crash
