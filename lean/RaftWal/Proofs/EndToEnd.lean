/-
  Proofs/EndToEnd.lean — **C12, second half**: "StoreLogs followed by GetLog returns an equal log", across the
  layers.  The codec round trip (`decode_encode`, Proofs/Codec.lean) is composed with the byte-level theorems of the
  segment model: `accepted_implies_readable` (Proofs/SegmentL1.lean: what a run of appends acknowledged is read back
  byte for byte) and `chain_atomic` (Proofs/SegmentChain.lean: the same after any chain of appends, torn appends,
  recoveries and restarts).

  `StoreLogs` = encode every log of the batch with the codec (all or nothing), hand the payloads to `Writer.Append`.
  `GetLog`    = `Writer.GetLog` (tail) / `Reader.GetLog` (sealed) for the payload, then `BinaryCodec.Decode`.
-/
import RaftWal.Proofs.SegmentChain
import RaftWal.Proofs.Codec
import RaftWal.Generated.Codec
namespace RaftWal

/-! ## StoreLogs' encoding step -/

/-- encode a batch, all or nothing (`= List.mapM encode`, see `encodeBatch_eq_mapM`) -/
def encodeBatch : List Log → Option (List Bytes)
  | [] => some []
  | l :: ls =>
    match encode l, encodeBatch ls with
    | some p, some ps => some (p :: ps)
    | _, _ => none

/-- encode a list of batches, all or nothing -/
def encodeBatches : List (List Log) → Option (List (List Bytes))
  | [] => some []
  | b :: bs =>
    match encodeBatch b, encodeBatches bs with
    | some p, some ps => some (p :: ps)
    | _, _ => none

theorem encodeBatch_eq_mapM (ls : List Log) : encodeBatch ls = ls.mapM encode := by
  induction ls with
  | nil => rfl
  | cons l ls ih =>
    rw [List.mapM_cons, encodeBatch, ih]
    cases encode l <;> cases List.mapM encode ls <;> rfl

theorem encodeBatches_eq_mapM (ls : List (List Log)) : encodeBatches ls = ls.mapM encodeBatch := by
  induction ls with
  | nil => rfl
  | cons l ls ih =>
    rw [List.mapM_cons, encodeBatches, ih]
    cases encodeBatch l <;> cases List.mapM encodeBatch ls <;> rfl

theorem encodeBatch_cons_some {l : Log} {ls : List Log} {ps : List Bytes} (h : encodeBatch (l :: ls) = some ps) :
    ∃ p ps', encode l = some p ∧ encodeBatch ls = some ps' ∧ ps = p :: ps' := by
  rw [encodeBatch] at h
  cases h1 : encode l with
  | none => rw [h1] at h; cases h
  | some p =>
    cases h2 : encodeBatch ls with
    | none => rw [h1, h2] at h; cases h
    | some ps' =>
      rw [h1, h2] at h
      exact ⟨p, ps', rfl, rfl, (Option.some.inj h).symm⟩

theorem encodeBatches_cons_some {b : List Log} {ls : List (List Log)} {bs : List (List Bytes)}
    (h : encodeBatches (b :: ls) = some bs) :
    ∃ p bs', encodeBatch b = some p ∧ encodeBatches ls = some bs' ∧ bs = p :: bs' := by
  rw [encodeBatches] at h
  cases h1 : encodeBatch b with
  | none => rw [h1] at h; cases h
  | some p =>
    cases h2 : encodeBatches ls with
    | none => rw [h1, h2] at h; cases h
    | some ps' =>
      rw [h1, h2] at h
      exact ⟨p, ps', rfl, rfl, (Option.some.inj h).symm⟩

theorem encodeBatch_append {a b : List Log} {x y : List Bytes} (ha : encodeBatch a = some x) (hb : encodeBatch b = some y) :
    encodeBatch (a ++ b) = some (x ++ y) := by
  induction a generalizing x with
  | nil => cases ha; exact hb
  | cons l a ih =>
    obtain ⟨p, ps', h1, h2, rfl⟩ := encodeBatch_cons_some ha
    rw [List.cons_append, encodeBatch, h1, ih h2]
    rfl

/-- the payloads of the batches, in order, are the encodings of the logs, in order -/
theorem encodeBatches_flatten {ls : List (List Log)} {bs : List (List Bytes)} (h : encodeBatches ls = some bs) :
    encodeBatch ls.flatten = some bs.flatten := by
  induction ls generalizing bs with
  | nil => cases h; rfl
  | cons b ls ih =>
    obtain ⟨p, bs', h1, h2, rfl⟩ := encodeBatches_cons_some h
    rw [List.flatten_cons, List.flatten_cons]
    exact encodeBatch_append h1 (ih h2)

theorem encodeBatch_length {ls : List Log} {ps : List Bytes} (h : encodeBatch ls = some ps) : ps.length = ls.length := by
  induction ls generalizing ps with
  | nil => cases h; rfl
  | cons l ls ih =>
    obtain ⟨p, ps', _, h2, rfl⟩ := encodeBatch_cons_some h
    rw [List.length_cons, List.length_cons, ih h2]

theorem encodeBatch_get {ls : List Log} {ps : List Bytes} (h : encodeBatch ls = some ps) (k : Nat) (hk : k < ls.length)
    (hk' : k < ps.length) : encode ls[k] = some ps[k] := by
  induction ls generalizing ps k with
  | nil => cases hk
  | cons l ls ih =>
    obtain ⟨p, ps', h1, h2, rfl⟩ := encodeBatch_cons_some h
    cases k with
    | zero => exact h1
    | succ k =>
      simp only [List.getElem_cons_succ]
      exact ih h2 k (Nat.lt_of_succ_lt_succ hk) (Nat.lt_of_succ_lt_succ hk')

theorem encodeBatch_nil_iff {ls : List Log} {ps : List Bytes} (h : encodeBatch ls = some ps) : ps = [] ↔ ls = [] := by
  have := encodeBatch_length h
  constructor
  · rintro rfl; exact List.eq_nil_of_length_eq_zero this.symm
  · rintro rfl; exact List.eq_nil_of_length_eq_zero this

theorem encodeBatches_flatten_length {ls : List (List Log)} {bs : List (List Bytes)} (h : encodeBatches ls = some bs) :
    bs.flatten.length = ls.flatten.length :=
  encodeBatch_length (encodeBatches_flatten h)

/-- a payload is at least as long as the data and the extensions it carries -/
theorem encode_length_ge {l : Log} {p : Bytes} (h : encode l = some p) : l.data.length + l.ext.length ≤ p.length := by
  unfold encode at h
  split at h
  · cases h
  · cases h
    simp only [List.length_append]
    omega

/-! ## well-formed logs -/

/-- the hypotheses of `decode_encode` on one log -/
structure LogWF (l : Log) : Prop where
  /-- the fields are in the range of their Go types (`uint64`, `uint64`, `uint8`; the wire time has its field widths) -/
  wf      : l.wf
  /-- `AppendedAt.MarshalBinary` succeeds -/
  time    : ∃ t, l.time = some t
  /-- `len(Data)` is a `uint64` -/
  data_lt : l.data.length < 2^64
  /-- `len(Extensions)` is a `uint64` -/
  ext_lt  : l.ext.length < 2^64

/-- … on every log of every batch -/
structure LogsWF (ls : List (List Log)) : Prop where
  all : ∀ b ∈ ls, ∀ l ∈ b, LogWF l

theorem LogsWF.flatten {ls : List (List Log)} (h : LogsWF ls) : ∀ l ∈ ls.flatten, LogWF l := by
  intro l hl
  obtain ⟨b, hb, hlb⟩ := List.mem_flatten.mp hl
  exact h.all b hb l hlb

/-- `decode_encode` with the hypotheses bundled -/
theorem decode_encode_wf (cfg : DecodeCfg) {l : Log} (h : LogWF l) {p : Bytes} (henc : encode l = some p) :
    decode cfg p = .ok l := by
  obtain ⟨t, ht⟩ := h.time
  exact decode_encode cfg l t h.wf ht h.data_lt h.ext_lt p henc

/-- Only `Log.wf` is a real hypothesis: a log that was encoded has a wire time, and payloads the segment writer
    accepted are at most `maxEntrySize` (64 MiB) long, so the two length bounds hold. -/
theorem LogsWF.of_encoded {ls : List (List Log)} {bs : List (List Bytes)} (hwf : ∀ b ∈ ls, ∀ l ∈ b, l.wf)
    (henc : encodeBatches ls = some bs) (hmax : ∀ b ∈ bs, ∀ p ∈ b, p.length ≤ maxEntrySize) : LogsWF ls := by
  constructor
  induction ls generalizing bs with
  | nil => intro b hb; cases hb
  | cons b0 ls ih =>
    obtain ⟨p0, bs', h1, h2, rfl⟩ := encodeBatches_cons_some henc
    intro b hb
    rcases List.mem_cons.mp hb with rfl | hb
    · intro l hl
      obtain ⟨k, hk, rfl⟩ := List.getElem_of_mem hl
      have hk' : k < p0.length := by rw [encodeBatch_length h1]; exact hk
      have he := encodeBatch_get h1 k hk hk'
      have hlen := encode_length_ge he
      have hm := hmax p0 List.mem_cons_self _ (List.getElem_mem hk')
      have htime : ∃ t, b[k].time = some t := by
        cases ht : b[k].time with
        | none => rw [(encode_none_iff _).mpr ht] at he; cases he
        | some t => exact ⟨t, rfl⟩
      unfold maxEntrySize at hm
      exact ⟨hwf _ List.mem_cons_self _ hl, htime, by omega, by omega⟩
    · exact ih (fun b hb => hwf b (List.mem_cons_of_mem _ hb)) h2
        (fun b hb => hmax b (List.mem_cons_of_mem _ hb)) b hb

/-! ## GetLog = read the payload, decode it -/

/-- outcome of a decode as an option: `err` and `panic` are both "no log" -/
def DecRes.toOption : DecRes → Option Log
  | .ok l => some l
  | _ => none

/-- `GetLog` on the tail segment: `Writer.GetLog` for the payload, then `BinaryCodec.Decode` -/
def Writer.getLogDecoded (cfg : DecodeCfg) (w : Writer) (file : Bytes) (idx bufSize : Nat) : Option Log :=
  (w.getLog file idx bufSize).toOption.bind (fun p => (decode cfg p).toOption)

/-- `GetLog` on a sealed segment: `Reader.GetLog` (offset from the on-disk index) for the payload, then `Decode` -/
def sealedGetLogDecoded (cfg : DecodeCfg) (info : SegInfo) (file : Bytes) (idx bufSize : Nat) : Option Log :=
  (sealedGetLog info file idx bufSize).toOption.bind (fun p => (decode cfg p).toOption)

/-- the composition step: if position `k` of the encoded batches is read back byte for byte, it decodes to log `k` -/
theorem decoded_of_readable (cfg : DecodeCfg) {ls : List (List Log)} {bs : List (List Bytes)} (hls : LogsWF ls)
    (henc : encodeBatches ls = some bs) (k : Nat) (hk : k < ls.flatten.length) (r : Except SegErr Bytes)
    (hr : ∀ hk' : k < bs.flatten.length, r = .ok (bs.flatten[k]'hk')) :
    r.toOption.bind (fun p => (decode cfg p).toOption) = some (ls.flatten[k]'hk) := by
  have hk' : k < bs.flatten.length := by rw [encodeBatches_flatten_length henc]; exact hk
  have he := encodeBatch_get (encodeBatches_flatten henc) k hk hk'
  have hd := decode_encode_wf cfg (hls.flatten _ (List.getElem_mem hk)) he
  rw [hr hk']
  simp only [Except.toOption, Option.bind_some, hd, DecRes.toOption]

/-! ## the theorems -/

/-- **C12** StoreLogs then GetLog, for every decoder configuration: after a run of `StoreLogs` calls on a fresh segment
    (each batch encoded all-or-nothing, the payloads appended and acknowledged), reading index `base + k` and decoding
    gives back exactly the `k`-th stored log, every field. -/
theorem stored_log_reads_back_cfg (cfg : DecodeCfg) (info : SegInfo) (ls : List (List Log)) (bs : List (List Bytes))
    (hls : LogsWF ls) (henc : encodeBatches ls = some bs) (hwf : RunWF info bs) (hmin : info.min = info.base)
    (w : Writer) (file : Bytes)
    (hrun : (freshSegment info).1.appendAll (freshSegment info).2 info.base bs = some (w, file))
    (k : Nat) (hk : k < ls.flatten.length) (bufSize : Nat) (hbuf : 8 ≤ bufSize) :
    (w.getLog file (info.base + k) bufSize).toOption.bind (fun p => (decode cfg p).toOption)
      = some (ls.flatten[k]'hk) :=
  decoded_of_readable cfg hls henc k hk _
    (fun hk' => accepted_implies_readable info bs hwf hmin w file hrun k hk' bufSize hbuf)

/-- **C12** StoreLogs then GetLog, with the decoder as the fact extractor found it in codec.go -/
theorem stored_log_reads_back (info : SegInfo) (ls : List (List Log)) (bs : List (List Bytes))
    (hls : LogsWF ls) (henc : encodeBatches ls = some bs) (hwf : RunWF info bs) (hmin : info.min = info.base)
    (w : Writer) (file : Bytes)
    (hrun : (freshSegment info).1.appendAll (freshSegment info).2 info.base bs = some (w, file))
    (k : Nat) (hk : k < ls.flatten.length) (bufSize : Nat) (hbuf : 8 ≤ bufSize) :
    (w.getLog file (info.base + k) bufSize).toOption.bind (fun p => (decode Generated.decodeCfg p).toOption)
      = some (ls.flatten[k]'hk) :=
  stored_log_reads_back_cfg Generated.decodeCfg info ls bs hls henc hwf hmin w file hrun k hk bufSize hbuf

/-- the same in relational form: the payload read is the encoding of the log, and it decodes to the log -/
theorem stored_log_reads_back_rel (cfg : DecodeCfg) (info : SegInfo) (ls : List (List Log)) (bs : List (List Bytes))
    (hls : LogsWF ls) (henc : encodeBatches ls = some bs) (hwf : RunWF info bs) (hmin : info.min = info.base)
    (w : Writer) (file : Bytes)
    (hrun : (freshSegment info).1.appendAll (freshSegment info).2 info.base bs = some (w, file))
    (k : Nat) (hk : k < ls.flatten.length) (bufSize : Nat) (hbuf : 8 ≤ bufSize) :
    ∃ p, encode (ls.flatten[k]'hk) = some p ∧ w.getLog file (info.base + k) bufSize = .ok p
      ∧ decode cfg p = .ok (ls.flatten[k]'hk) := by
  have hk' : k < bs.flatten.length := by rw [encodeBatches_flatten_length henc]; exact hk
  have he := encodeBatch_get (encodeBatches_flatten henc) k hk hk'
  exact ⟨_, he, accepted_implies_readable info bs hwf hmin w file hrun k hk' bufSize hbuf,
    decode_encode_wf cfg (hls.flatten _ (List.getElem_mem hk)) he⟩

/-- **C12** with the minimal hypothesis on the logs: field ranges only (`Log.wf`).  That the times marshal follows from
    `encodeBatches ls = some bs`, the two length bounds follow from the writer having accepted the payloads. -/
theorem stored_log_reads_back_min (info : SegInfo) (ls : List (List Log)) (bs : List (List Bytes))
    (hls : ∀ b ∈ ls, ∀ l ∈ b, l.wf) (henc : encodeBatches ls = some bs) (hwf : RunWF info bs) (hmin : info.min = info.base)
    (w : Writer) (file : Bytes)
    (hrun : (freshSegment info).1.appendAll (freshSegment info).2 info.base bs = some (w, file))
    (k : Nat) (hk : k < ls.flatten.length) (bufSize : Nat) (hbuf : 8 ≤ bufSize) :
    (w.getLog file (info.base + k) bufSize).toOption.bind (fun p => (decode Generated.decodeCfg p).toOption)
      = some (ls.flatten[k]'hk) :=
  stored_log_reads_back info ls bs (LogsWF.of_encoded hls henc (appendAll_payload_le _ _ _ bs w file hrun))
    henc hwf hmin w file hrun k hk bufSize hbuf

/-! ## after any chain of appends, tears, recoveries and restarts -/

/-- **C12 over crash chains**: whatever chain of acknowledged appends, torn appends (power loss + recovery) and restarts
    led to `(w, file)` holding the batches `bs` (`ChainResult`, the conclusion of `chain_atomic`): if `bs` are the
    encodings of the logs `ls`, every entry of the file decodes to the log that was stored. -/
theorem stored_log_reads_back_any_chain (info : SegInfo) (evs : List ChainEv) (w : Writer) (file : Bytes)
    (bs : List (List Bytes)) (hres : ChainResult info evs w file bs)
    (ls : List (List Log)) (hls : LogsWF ls) (henc : encodeBatches ls = some bs) (hmin : info.min = info.base)
    (k : Nat) (hk : k < ls.flatten.length) (bufSize : Nat) (hbuf : 8 ≤ bufSize) :
    (w.getLog file (info.base + k) bufSize).toOption.bind (fun p => (decode Generated.decodeCfg p).toOption)
      = some (ls.flatten[k]'hk) :=
  decoded_of_readable _ hls henc k hk _ (fun hk' => hres.readable hmin k hk' bufSize hbuf)

/-- the same with `Log.wf` only -/
theorem stored_log_reads_back_any_chain_min (info : SegInfo) (evs : List ChainEv) (w : Writer) (file : Bytes)
    (bs : List (List Bytes)) (hres : ChainResult info evs w file bs)
    (ls : List (List Log)) (hls : ∀ b ∈ ls, ∀ l ∈ b, l.wf) (henc : encodeBatches ls = some bs) (hmin : info.min = info.base)
    (k : Nat) (hk : k < ls.flatten.length) (bufSize : Nat) (hbuf : 8 ≤ bufSize) :
    (w.getLog file (info.base + k) bufSize).toOption.bind (fun p => (decode Generated.decodeCfg p).toOption)
      = some (ls.flatten[k]'hk) := by
  obtain ⟨w0, file0, hrun, _⟩ := hres.asFresh
  exact stored_log_reads_back_any_chain info evs w file bs hres ls
    (LogsWF.of_encoded hls henc (appendAll_payload_le _ _ _ bs w0 file0 hrun)) henc hmin k hk bufSize hbuf

/-! ### chains of events over logs -/

/-- one step of the life of a tail segment, at the level of StoreLogs -/
inductive LogEv
  /-- `StoreLogs` of the batch, acknowledged -/
  | store   (b : List Log)
  /-- process restart -/
  | restart
  /-- `StoreLogs` of the batch in flight, power loss with chunk `j` of the write on disk iff `mask j`, recovery -/
  | torn    (b : List Log) (mask : Nat → Bool)

/-- the byte-level events: every batch encoded all-or-nothing; `none` if some log of the chain does not encode -/
def encodeEvs : List LogEv → Option (List ChainEv)
  | [] => some []
  | .store b :: evs =>
    match encodeBatch b, encodeEvs evs with
    | some p, some es => some (.append p :: es)
    | _, _ => none
  | .restart :: evs =>
    match encodeEvs evs with
    | some es => some (.restart :: es)
    | none => none
  | .torn b m :: evs =>
    match encodeBatch b, encodeEvs evs with
    | some p, some es => some (.torn p m :: es)
    | _, _ => none

/-- the batches of logs the segment may hold after the events: every stored batch, every torn batch whole or not at
    all, in order (`chainSpec` at the level of logs) -/
def logSpec : List LogEv → List (List Log) → Prop
  | [], ls => ls = []
  | .store b :: evs, ls => ∃ ls', ls = b :: ls' ∧ logSpec evs ls'
  | .restart :: evs, ls => logSpec evs ls
  | .torn b _ :: evs, ls => logSpec evs ls ∨ ∃ ls', ls = b :: ls' ∧ logSpec evs ls'

def LogEv.batches : LogEv → List (List Log)
  | .store b => [b]
  | .restart => []
  | .torn b _ => [b]

/-- all batches of logs submitted along the chain -/
def logBatches (levs : List LogEv) : List (List Log) := levs.flatMap LogEv.batches

theorem logBatches_cons (e : LogEv) (levs : List LogEv) : logBatches (e :: levs) = e.batches ++ logBatches levs := by
  simp [logBatches]

/-- the byte-level ghost outcome of an encoded chain is the encoding of a log-level ghost outcome -/
theorem logSpec_of_chainSpec : ∀ (levs : List LogEv) (evs : List ChainEv) (bs : List (List Bytes)),
    encodeEvs levs = some evs → chainSpec evs bs →
    ∃ ls, encodeBatches ls = some bs ∧ logSpec levs ls ∧ (∀ b ∈ ls, b ∈ logBatches levs)
  | [], evs, bs, he, hs => by
    cases he
    rw [chainSpec] at hs
    subst hs
    exact ⟨[], rfl, rfl, fun b hb => by cases hb⟩
  | .store b :: levs, evs, bs, he, hs => by
    rw [encodeEvs] at he
    cases h1 : encodeBatch b with
    | none => rw [h1] at he; cases he
    | some p =>
      cases h2 : encodeEvs levs with
      | none => rw [h1, h2] at he; cases he
      | some es =>
        rw [h1, h2] at he
        cases he
        obtain ⟨bs', rfl, hs'⟩ := hs
        obtain ⟨ls', h3, h4, h5⟩ := logSpec_of_chainSpec levs es bs' h2 hs'
        refine ⟨b :: ls', by rw [encodeBatches, h1, h3], ⟨ls', rfl, h4⟩, ?_⟩
        intro x hx
        rw [logBatches_cons]
        rcases List.mem_cons.mp hx with rfl | hx
        · exact List.mem_append_left _ List.mem_cons_self
        · exact List.mem_append_right _ (h5 x hx)
  | .restart :: levs, evs, bs, he, hs => by
    rw [encodeEvs] at he
    cases h2 : encodeEvs levs with
    | none => rw [h2] at he; cases he
    | some es =>
      rw [h2] at he
      cases he
      obtain ⟨ls', h3, h4, h5⟩ := logSpec_of_chainSpec levs es bs h2 hs
      exact ⟨ls', h3, h4, fun x hx => by rw [logBatches_cons]; exact List.mem_append_right _ (h5 x hx)⟩
  | .torn b m :: levs, evs, bs, he, hs => by
    rw [encodeEvs] at he
    cases h1 : encodeBatch b with
    | none => rw [h1] at he; cases he
    | some p =>
      cases h2 : encodeEvs levs with
      | none => rw [h1, h2] at he; cases he
      | some es =>
        rw [h1, h2] at he
        cases he
        rcases hs with hs' | ⟨bs', rfl, hs'⟩
        · obtain ⟨ls', h3, h4, h5⟩ := logSpec_of_chainSpec levs es bs h2 hs'
          exact ⟨ls', h3, Or.inl h4, fun x hx => by rw [logBatches_cons]; exact List.mem_append_right _ (h5 x hx)⟩
        · obtain ⟨ls', h3, h4, h5⟩ := logSpec_of_chainSpec levs es bs' h2 hs'
          refine ⟨b :: ls', by rw [encodeBatches, h1, h3], Or.inr ⟨ls', rfl, h4⟩, ?_⟩
          intro x hx
          rw [logBatches_cons]
          rcases List.mem_cons.mp hx with rfl | hx
          · exact List.mem_append_left _ List.mem_cons_self
          · exact List.mem_append_right _ (h5 x hx)

/-- every acknowledged `StoreLogs` batch is in the outcome -/
theorem logSpec_stored : ∀ (levs : List LogEv) (ls : List (List Log)), logSpec levs ls →
    ∀ b, LogEv.store b ∈ levs → b ∈ ls
  | [], _, _, b, hb => by cases hb
  | .store b' :: levs, ls, h, b, hb => by
    obtain ⟨ls', rfl, hs⟩ := h
    rcases List.mem_cons.mp hb with hb | hb
    · cases hb; exact List.mem_cons_self
    · exact List.mem_cons_of_mem _ (logSpec_stored levs ls' hs b hb)
  | .restart :: levs, ls, h, b, hb => by
    rcases List.mem_cons.mp hb with hb | hb
    · cases hb
    · exact logSpec_stored levs ls h b hb
  | .torn b' m :: levs, ls, h, b, hb => by
    have hb' : LogEv.store b ∈ levs := by
      rcases List.mem_cons.mp hb with hb | hb
      · cases hb
      · exact hb
    rcases h with h | ⟨ls', rfl, hs⟩
    · exact logSpec_stored levs ls h b hb'
    · exact List.mem_cons_of_mem _ (logSpec_stored levs ls' hs b hb')

/-- **C12 over crash chains, from the logs** (closed form on top of `chain_atomic`).  Take any chain of `StoreLogs`
    calls, torn `StoreLogs` calls and restarts over well-formed logs, on a fresh segment, within the size conditions
    `ChainWF` of `chain_atomic`.  Unless a torn event exhibits a CRC-32C collision, the chain runs to a state
    `(w, file)` and there are batches of logs `ls` — every stored batch, every torn batch whole or not at all, in
    order — such that reading any index `base + k` and decoding returns exactly `ls.flatten[k]`, and nothing above is
    readable. -/
theorem stored_log_reads_back_chain (info : SegInfo) (levs : List LogEv) (evs : List ChainEv)
    (hls : ∀ b ∈ logBatches levs, ∀ l ∈ b, l.wf) (henc : encodeEvs levs = some evs) (hwf : ChainWF info evs)
    (hmin : info.min = info.base) :
    ChainCollision info evs ∨
    ∃ w file ls, chainRun info (freshSegment info) evs = .ok (w, file) ∧ logSpec levs ls
      ∧ (∀ b, LogEv.store b ∈ levs → b ∈ ls)
      ∧ (∀ (k : Nat) (hk : k < ls.flatten.length) (bufSize : Nat), 8 ≤ bufSize →
          (w.getLog file (info.base + k) bufSize).toOption.bind (fun p => (decode Generated.decodeCfg p).toOption)
            = some (ls.flatten[k]'hk))
      ∧ (∀ (idx bufSize : Nat), info.base + ls.flatten.length ≤ idx → ∃ e, w.getLog file idx bufSize = .error e) := by
  rcases chain_atomic info evs hwf with h | ⟨w, file, bs, h⟩
  · exact Or.inl h
  · obtain ⟨ls, h1, h2, h3⟩ := logSpec_of_chainSpec levs evs bs henc h.spec
    refine Or.inr ⟨w, file, ls, h.run, h2, logSpec_stored levs ls h2, ?_, ?_⟩
    · intro k hk bufSize hbuf
      exact stored_log_reads_back_any_chain_min info evs w file bs h ls
        (fun b hb => hls b (h3 b hb)) h1 hmin k hk bufSize hbuf
    · intro idx bufSize hi
      rw [← encodeBatches_flatten_length h1] at hi
      exact (h.nothingAbove idx bufSize hi).2

/-! ## the sealed reader

  `Reader.GetLog` on a sealed segment does not use the writer's in-memory offsets: it reads entry `idx`'s file offset
  from slot `idx - BaseIndex` of the index array the sealing append wrote (`IndexStart` from the meta store).
  No theorem about `sealedGetLog` existed; `sealedGetLog_of_chainInv` is new. -/

theorem readAt_le4_flatten (os : List Nat) (rest : Bytes) (k : Nat) (hk : k < os.length) :
    readAt ((os.map (Spec.le 4)).flatten ++ rest) (4 * k) 4 = Spec.le 4 os[k] := by
  induction os generalizing k with
  | nil => cases hk
  | cons o os ih =>
    simp only [List.map_cons, List.flatten_cons, List.append_assoc]
    cases k with
    | zero =>
      rw [readAt, Nat.mul_zero, List.drop_zero, take_app_len _ _ 4 (le_length 4 o)]
      rfl
    | succ k =>
      have h4 : 4 * (k + 1) = 4 + 4 * k := by omega
      rw [readAt, h4, ← List.drop_drop, drop_app_len _ _ 4 (le_length 4 o)]
      exact ih k (Nat.lt_of_succ_lt_succ hk)

open Spec (Acc Batch addEntry addBatch) in
/-- the index array of a sealing batch starts at `(bytes before ++ entry frames).length + 8`; slot `k` holds offset `k` -/
theorem sealed_index_slot (A0 : Acc) (last : List Bytes) (rest : Bytes) (k : Nat)
    (hk : k < (addBatch A0 ⟨last, true⟩).offsets.length) :
    readAt ((addBatch A0 ⟨last, true⟩).bytes ++ rest) ((A0.bytes ++ encEntries last).length + 8 + 4 * k) 4
      = Spec.le 4 ((addBatch A0 ⟨last, true⟩).offsets[k]) := by
  have hb : (addBatch A0 ⟨last, true⟩).bytes
      = (A0.bytes ++ encEntries last ++ Spec.frameHeader 2 (((addBatch A0 ⟨last, true⟩).offsets.map (Spec.le 4)).flatten).length)
        ++ (((addBatch A0 ⟨last, true⟩).offsets.map (Spec.le 4)).flatten
          ++ (List.replicate (Spec.roundUp8 (((addBatch A0 ⟨last, true⟩).offsets.map (Spec.le 4)).flatten).length
                - (((addBatch A0 ⟨last, true⟩).offsets.map (Spec.le 4)).flatten).length) 0
              ++ Spec.commitFrame (batchCrc A0 ⟨last, true⟩).toNat)) := by
    rw [addBatch_eq]
    simp only [batchBody, idxPart, if_true, Spec.indexFrame, List.append_assoc]
  rw [hb, readAt, List.append_assoc, ← List.drop_drop,
    drop_app_len _ _ _ (by simp only [List.length_append, specFrameHeader_length]), List.append_assoc]
  exact readAt_le4_flatten _ _ k hk

open Spec (Acc Batch addEntry addBatch) in
/-- **sealed reader, bytes**: in a state satisfying the run invariant whose segment is sealed, `Reader.GetLog` with the
    segment info the WAL keeps for a sealed segment (`IndexStart` = the writer's, same `BaseIndex`; `MinIndex`/`MaxIndex`
    not excluding the index) returns entry `k` byte for byte. -/
theorem sealedGetLog_of_chainInv (info : SegInfo) (bs : List (List Bytes)) (w : Writer) (file : Bytes)
    (hinv : ChainInv info w file bs) (hmaxp : ∀ b ∈ bs, ∀ p ∈ b, p.length ≤ maxEntrySize)
    (hsealed : w.indexStart > 0)
    (sinfo : SegInfo) (hbase : sinfo.base = info.base) (hidx : sinfo.indexStart = w.indexStart)
    (k : Nat) (hk : k < bs.flatten.length)
    (hmin : sinfo.min ≤ info.base + k) (hmax : sinfo.max = 0 ∨ info.base + k ≤ sinfo.max)
    (bufSize : Nat) (hbuf : 8 ≤ bufSize) :
    sealedGetLog sinfo file (info.base + k) bufSize = .ok (bs.flatten[k]'hk) := by
  have hne : bs ≠ [] := by rintro rfl; simp at hk
  have h1 := hinv.inv
  have h3 := hinv.idx
  have h4 := hinv.small
  rw [chainAcc_eq_summary] at h1 h4
  obtain ⟨hcb, hci, _⟩ := hinv.done hne
  obtain ⟨n, hn⟩ := file_eq_of_inv h1 hcb
  simp only [hsealed, decide_true] at h1 h4 hn
  have hat := entriesAt_foldl ⟨Spec.header info.base info.id info.codec, [], 0⟩
    (specBatches true bs) [] ⟨rfl, fun x hx => by simp at hx⟩
  rw [List.nil_append, specBatches_eq_sb, sb_payloads, ← specBatches_eq_sb] at hat
  change EntriesAt (Spec.layoutAcc info.base info.id info.codec (specBatches true bs)).bytes
    (Spec.layoutAcc info.base info.id info.codec (specBatches true bs)).offsets bs.flatten at hat
  obtain ⟨o, pre, post, ho, hbytes, hpre⟩ := hat.get k hk
  have hp : (bs.flatten[k]'hk).length ≤ maxEntrySize := by
    obtain ⟨b, hb, hpb⟩ := List.mem_flatten.mp (List.getElem_mem hk)
    exact hmaxp b hb _ hpb
  have hoff : pre.length + 8 < 2^32 := by
    have := congrArg List.length hbytes
    simp only [List.length_append, specEntryFrame_length, encodedFrameSize_eq] at this
    omega
  -- the last batch is the sealing one
  have hsplit := List.dropLast_concat_getLast hne
  have hsb : specBatches true bs
      = bs.dropLast.map (fun b => (⟨b, false⟩ : Spec.Batch)) ++ [⟨bs.getLast hne, true⟩] := by
    rw [specBatches_eq_sb]; conv => lhs; rw [← hsplit]
    exact sb_concat _ _ _
  have his : w.indexStart = idxPos ⟨Spec.header info.base info.id info.codec, [], 0⟩ bs := by
    rcases h3 with h | h
    · omega
    · exact h
  rw [← hsplit, idxPos_concat] at his
  generalize hA0 : (bs.dropLast.map (fun b => (⟨b, false⟩ : Spec.Batch))).foldl addBatch
    ⟨Spec.header info.base info.id info.codec, [], 0⟩ = A0 at his
  have hA : Spec.layoutAcc info.base info.id info.codec (specBatches true bs) = addBatch A0 ⟨bs.getLast hne, true⟩ := by
    rw [Spec.layoutAcc, hsb, List.foldl_append, hA0]; rfl
  rw [hA] at h4 hn hbytes ho hat
  have hkl : k < (addBatch A0 ⟨bs.getLast hne, true⟩).offsets.length := by rw [hat.1]; exact hk
  -- slot `k` of the index array holds the offset of entry `k`
  have hslot := sealed_index_slot A0 (bs.getLast hne) (zeros n) k hkl
  rw [← hn, ← his] at hslot
  have hok : (addBatch A0 ⟨bs.getLast hne, true⟩).offsets[k] = o := by
    rw [List.getElem?_eq_getElem hkl] at ho; exact Option.some.inj ho
  -- the uint64 arithmetic of `findFrameOffset` does not wrap
  have hidxlen : w.indexStart + 4 * (addBatch A0 ⟨bs.getLast hne, true⟩).offsets.length
      ≤ (addBatch A0 ⟨bs.getLast hne, true⟩).bytes.length := by
    rw [his, addBatch_eq]
    simp only [batchBody, idxPart, if_true, Spec.indexFrame, List.length_append, specFrameHeader_length,
      flatten_le4_length, specCommitFrame_length]
    omega
  have hfind : sealedFindOffset sinfo file (info.base + k) = .ok o := by
    rw [sealedFindOffset, hidx, if_neg (by omega), if_neg (by omega), hbase]
    have e1 : u64 (info.base + k + 2^64 - info.base) = k := by
      unfold u64
      have : info.base + k + 2^64 - info.base = k + 2^64 := by omega
      rw [this, Nat.add_mod_right, Nat.mod_eq_of_lt (by omega)]
    have e2 : u64 (k * 4) = 4 * k := by unfold u64; rw [Nat.mod_eq_of_lt (by omega)]; omega
    have e3 : u64 (w.indexStart + 4 * k) = w.indexStart + 4 * k := by unfold u64; rw [Nat.mod_eq_of_lt (by omega)]
    simp only [e1, e2, e3, hslot, le_length]
    rw [if_neg (by omega), getLE_le 4 _ (by rw [hok]; omega), hok]
  rw [sealedGetLog, hfind]
  simp only
  rw [hn, hbytes, ← hpre]
  simp only [List.append_assoc]
  exact readFrame_entry pre (post ++ zeros n) _ bufSize hbuf hp hoff

/-- `Filer.Open` accepts the file of a state satisfying the run invariant (the header reads, decodes and matches) -/
theorem openSealed_of_chainInv (info : SegInfo) (bs : List (List Bytes)) (w : Writer) (file : Bytes)
    (hinv : ChainInv info w file bs) (hne : bs ≠ [])
    (hb : info.base < 2^64) (hi : info.id < 2^64) (hc : info.codec < 2^64)
    (sinfo : SegInfo) (hhdr : sinfo.hdr = info.hdr) :
    openSealed sinfo file = .ok () := by
  have h1 := hinv.inv
  rw [chainAcc_eq_summary] at h1
  obtain ⟨n, hn⟩ := file_eq_of_inv h1 (hinv.done hne).1
  rw [Spec.layoutAcc, foldl_addBatch_bytes] at hn
  simp only [List.append_assoc] at hn
  rw [openSealed, hn, readAt, List.drop_zero, take_app_len _ _ fileHeaderLen (by simp [fileHeaderLen])]
  rw [if_neg (by simp [fileHeaderLen]), readFileHeader_specHeader _ _ _ hb hi hc]
  simp only [hhdr]
  simp [validateFileHeader, SegInfo.hdr]

/-- **C15/C12, sealed reader**: what a run of appends that ended up sealing the segment acknowledged is readable through
    the on-disk index, byte for byte -/
theorem sealedGetLog_after_appends (info : SegInfo) (bs : List (List Bytes)) (hwf : RunWF info bs)
    (w : Writer) (file : Bytes)
    (hrun : (freshSegment info).1.appendAll (freshSegment info).2 info.base bs = some (w, file))
    (hsealed : w.indexStart > 0)
    (sinfo : SegInfo) (hbase : sinfo.base = info.base) (hidx : sinfo.indexStart = w.indexStart)
    (k : Nat) (hk : k < bs.flatten.length)
    (hmin : sinfo.min ≤ info.base + k) (hmax : sinfo.max = 0 ∨ info.base + k ≤ sinfo.max)
    (bufSize : Nat) (hbuf : 8 ≤ bufSize) :
    sealedGetLog sinfo file (info.base + k) bufSize = .ok (bs.flatten[k]'hk) :=
  sealedGetLog_of_chainInv info bs w file (chainInv_of_run info bs hwf w file hrun)
    (appendAll_payload_le _ _ _ bs w file hrun) hsealed sinfo hbase hidx k hk hmin hmax bufSize hbuf

/-- the segment info the WAL keeps once the tail is sealed: `IndexStart` as the writer reported it, `MaxIndex` the
    last committed index, `SealTime` set -/
def sealInfo (info : SegInfo) (w : Writer) : SegInfo :=
  { info with indexStart := w.indexStart, max := w.commitIdx, sealed := true }

/-- **C12, sealed reader**: StoreLogs, the last of which seals the segment, then `Filer.Open` + `Reader.GetLog` + decode
    returns exactly the `k`-th stored log. -/
theorem stored_log_reads_back_sealed (info : SegInfo) (ls : List (List Log)) (bs : List (List Bytes))
    (hls : LogsWF ls) (henc : encodeBatches ls = some bs) (hwf : RunWF info bs) (hmin : info.min = info.base)
    (w : Writer) (file : Bytes)
    (hrun : (freshSegment info).1.appendAll (freshSegment info).2 info.base bs = some (w, file))
    (hsealed : w.indexStart > 0)
    (k : Nat) (hk : k < ls.flatten.length) (bufSize : Nat) (hbuf : 8 ≤ bufSize) :
    openSealed (sealInfo info w) file = .ok () ∧
    (sealedGetLog (sealInfo info w) file (info.base + k) bufSize).toOption.bind
        (fun p => (decode Generated.decodeCfg p).toOption) = some (ls.flatten[k]'hk) := by
  have hinv := chainInv_of_run info bs hwf w file hrun
  have hkb : k < bs.flatten.length := by rw [encodeBatches_flatten_length henc]; exact hk
  have hne : bs ≠ [] := by rintro rfl; simp at hkb
  refine ⟨openSealed_of_chainInv info bs w file hinv hne hwf.base_lt hwf.id_lt hwf.codec_lt _ rfl, ?_⟩
  refine decoded_of_readable _ hls henc k hk _ (fun hk' => ?_)
  have hci := (hinv.done hne).2.1
  rw [cnt_eq_flatten_length] at hci
  exact sealedGetLog_after_appends info bs hwf w file hrun hsealed (sealInfo info w) rfl rfl k hk'
    (by show info.min ≤ _; omega) (Or.inr (by show _ ≤ w.commitIdx; omega)) bufSize hbuf

/-- **C12, sealed reader, over crash chains**: the same for the state any chain of appends, torn appends and restarts
    ends in (`ChainResult`), when that state is sealed — e.g. after a torn sealing append that recovery found whole. -/
theorem stored_log_reads_back_sealed_any_chain (info : SegInfo) (evs : List ChainEv) (w : Writer) (file : Bytes)
    (bs : List (List Bytes)) (hres : ChainResult info evs w file bs) (hsealed : w.indexStart > 0)
    (hb : info.base < 2^64) (hi : info.id < 2^64) (hc : info.codec < 2^64)
    (ls : List (List Log)) (hls : LogsWF ls) (henc : encodeBatches ls = some bs) (hmin : info.min = info.base)
    (k : Nat) (hk : k < ls.flatten.length) (bufSize : Nat) (hbuf : 8 ≤ bufSize) :
    openSealed (sealInfo info w) file = .ok () ∧
    (sealedGetLog (sealInfo info w) file (info.base + k) bufSize).toOption.bind
        (fun p => (decode Generated.decodeCfg p).toOption) = some (ls.flatten[k]'hk) := by
  have hinv := hres.inv
  obtain ⟨w0, file0, hrun, _⟩ := hres.asFresh
  have hkb : k < bs.flatten.length := by rw [encodeBatches_flatten_length henc]; exact hk
  have hne : bs ≠ [] := by rintro rfl; simp at hkb
  refine ⟨openSealed_of_chainInv info bs w file hinv hne hb hi hc _ rfl, ?_⟩
  refine decoded_of_readable _ hls henc k hk _ (fun hk' => ?_)
  have hci := (hinv.done hne).2.1
  rw [cnt_eq_flatten_length] at hci
  exact sealedGetLog_of_chainInv info bs w file hinv (appendAll_payload_le _ _ _ bs w0 file0 hrun) hsealed
    (sealInfo info w) rfl rfl k hk' (by show info.min ≤ _; omega) (Or.inr (by show _ ≤ w.commitIdx; omega)) bufSize hbuf

/-! ## the hypotheses are satisfiable: two batches, three logs

  Base index 2^63 + 5 (ten-byte uvarints).  Three log types (0, 1, 255); data non-empty / empty; extensions empty /
  non-empty; the zero time, a version-2 time with a negative zone offset and offset seconds, a version-1 time with the
  largest seconds value; the largest term. -/

instance (l : Log) : Decidable l.wf := by unfold Log.wf; infer_instance

def exL1 : Log := ⟨2^63 + 5, 3, 0, [1, 2, 3], [], some WTime.zero⟩
def exL2 : Log := ⟨2^63 + 6, 3, 1, [], [9, 8],
  some { v2 := true, sec := 63000000000, nsec := 999999999, offMin := 0xff88, offSec := 30 }⟩
def exL3 : Log := ⟨2^63 + 7, 2^64 - 1, 255, [], [],
  some { v2 := false, sec := 2^64 - 1, nsec := 0, offMin := 60, offSec := 0 }⟩

def exLs : List (List Log) := [[exL1, exL2], [exL3]]

def exBs : List (List Bytes) :=
  [[[133, 128, 128, 128, 128, 128, 128, 128, 128, 1, 3, 0, 3, 1, 2, 3, 0, 1, 0, 0, 0, 0, 0, 0, 0, 0, 0, 0, 0, 0, 255, 255],
    [134, 128, 128, 128, 128, 128, 128, 128, 128, 1, 3, 1, 0, 2, 9, 8, 2, 0, 0, 0, 14, 171, 23, 182, 0, 59, 154, 201, 255,
     255, 136, 30]],
   [[135, 128, 128, 128, 128, 128, 128, 128, 128, 1, 255, 255, 255, 255, 255, 255, 255, 255, 255, 1, 255, 1, 0, 0, 1, 255,
     255, 255, 255, 255, 255, 255, 255, 0, 0, 0, 0, 0, 60]]]

/-- 4 KiB preallocated: nothing seals -/
def exInfo : SegInfo :=
  { id := 7, base := 2^63 + 5, min := 2^63 + 5, max := 0, codec := 1, indexStart := 0, sizeLimit := 4096, sealed := false }

/-- 160 bytes preallocated: the second batch seals the segment -/
def exInfoS : SegInfo := { exInfo with sizeLimit := 160 }

theorem exEnc : encodeBatches exLs = some exBs := by decide +kernel

theorem exLogsWF : LogsWF exLs := LogsWF.of_encoded (by decide) exEnc (by decide)

theorem exRunWF : RunWF exInfo exBs where
  nonempty := by decide
  base_lt := by decide
  id_lt := by decide
  codec_lt := by decide
  limit_lt := by decide
  size_lt := by decide

theorem exRunWFS : RunWF exInfoS exBs where
  nonempty := by decide
  base_lt := by decide
  id_lt := by decide
  codec_lt := by decide
  limit_lt := by decide
  size_lt := by decide

/-- all hypotheses of `stored_log_reads_back` hold of the example -/
example : ∃ w file, LogsWF exLs ∧ encodeBatches exLs = some exBs ∧ RunWF exInfo exBs ∧ exInfo.min = exInfo.base
    ∧ (freshSegment exInfo).1.appendAll (freshSegment exInfo).2 exInfo.base exBs = some (w, file) := by
  have h : ((freshSegment exInfo).1.appendAll (freshSegment exInfo).2 exInfo.base exBs).isSome = true := by decide +kernel
  obtain ⟨⟨w, file⟩, hrun⟩ := Option.isSome_iff_exists.mp h
  exact ⟨w, file, exLogsWF, exEnc, exRunWF, rfl, hrun⟩

/-- all hypotheses of `stored_log_reads_back_sealed` hold of the example with the small segment -/
example : ∃ w file, LogsWF exLs ∧ encodeBatches exLs = some exBs ∧ RunWF exInfoS exBs ∧ exInfoS.min = exInfoS.base
    ∧ (freshSegment exInfoS).1.appendAll (freshSegment exInfoS).2 exInfoS.base exBs = some (w, file)
    ∧ w.indexStart > 0 := by
  have h : (match (freshSegment exInfoS).1.appendAll (freshSegment exInfoS).2 exInfoS.base exBs with
      | some (w, _) => decide (w.indexStart > 0)
      | none => false) = true := by decide +kernel
  split at h
  · rename_i w file hrun
    exact ⟨w, file, exLogsWF, exEnc, exRunWFS, rfl, hrun, of_decide_eq_true h⟩
  · cases h

/-- the models computed on the example agree with the theorems: tail reader, 64-byte read buffer … -/
example : (match (freshSegment exInfo).1.appendAll (freshSegment exInfo).2 exInfo.base exBs with
    | some (w, file) => (List.range 4).map (fun k =>
        (w.getLog file (exInfo.base + k) 64).toOption.bind (fun p => (decode Generated.decodeCfg p).toOption))
    | none => []) = [some exL1, some exL2, some exL3, none] := by decide +kernel

/-- … and sealed reader, 8-byte read buffer (every payload needs the second read) -/
example : (match (freshSegment exInfoS).1.appendAll (freshSegment exInfoS).2 exInfoS.base exBs with
    | some (w, file) => (List.range 3).map (fun k =>
        (sealedGetLog (sealInfo exInfoS w) file (exInfoS.base + k) 8).toOption.bind
          (fun p => (decode Generated.decodeCfg p).toOption))
    | none => []) = [some exL1, some exL2, some exL3] := by decide +kernel

end RaftWal

/-! ## axiom audit -/
#print axioms RaftWal.stored_log_reads_back
#print axioms RaftWal.stored_log_reads_back_cfg
#print axioms RaftWal.stored_log_reads_back_rel
#print axioms RaftWal.stored_log_reads_back_min
#print axioms RaftWal.stored_log_reads_back_any_chain
#print axioms RaftWal.stored_log_reads_back_any_chain_min
#print axioms RaftWal.stored_log_reads_back_chain
#print axioms RaftWal.sealedGetLog_of_chainInv
#print axioms RaftWal.sealedGetLog_after_appends
#print axioms RaftWal.openSealed_of_chainInv
#print axioms RaftWal.stored_log_reads_back_sealed
#print axioms RaftWal.stored_log_reads_back_sealed_any_chain
#print axioms RaftWal.encodeBatch_eq_mapM
#print axioms RaftWal.encodeBatches_eq_mapM
#print axioms RaftWal.exEnc
#print axioms RaftWal.exLogsWF
#print axioms RaftWal.exRunWF
