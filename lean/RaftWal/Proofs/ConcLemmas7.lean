/-
  Proofs/ConcLemmas7.lean — invariants that need no assumption on file ids: exact reference counts (`CInv`) and
  the readers' pcs never showing a panic when readers test for the empty state (`NoPanic`).
-/
import RaftWal.Proofs.ConcLemmas1
namespace RaftWal.Conc

def WPc.sid? : WPc → Option Nat
  | .held x | .published x | .finSet x => some x
  | _ => none

def CPc.sid? : CPc → Option Nat
  | .held x | .published x | .finSet x => some x
  | _ => none

structure CInv (s : Sys) : Prop where
  cur_lt : s.cur < s.objs.length
  rsid : ∀ r ∈ s.readers, ∀ x, r.pc.sid? = some x → x < s.objs.length
  wsid : ∀ x, s.wpc.sid? = some x → x < s.objs.length
  csid : ∀ x, s.cpc.sid? = some x → x < s.objs.length
  rc : ∀ k, (s.obj k).refCount = holders' s k

theorem wHolds_zero_of_lt (w : WPc) (n k : Nat) (hk : n ≤ k) (h : ∀ x, w.sid? = some x → x < n) :
    wHolds w k = 0 := by
  cases w <;> simp [WPc.sid?] at h <;> simp [wHolds] <;> omega

theorem cHolds_zero_of_lt (c : CPc) (n k : Nat) (hk : n ≤ k) (h : ∀ x, c.sid? = some x → x < n) :
    cHolds c k = 0 := by
  cases c <;> simp [CPc.sid?] at h <;> simp [cHolds] <;> omega

theorem cinv_init (files wants : List FileId) (muts : List Mutation) : CInv (init files wants muts) := by
  constructor
  case cur_lt => simp [init]
  case rsid =>
    intro r hr x hx
    simp only [init, List.mem_map] at hr
    obtain ⟨w, _, rfl⟩ := hr
    simp [RPc.sid?] at hx
  case wsid => simp [init, WPc.sid?]
  case csid => simp [init, CPc.sid?]
  case rc =>
    intro k
    have : rHolders (init files wants muts).readers k = 0 := by
      unfold rHolders
      rw [List.length_eq_zero_iff, List.filter_eq_nil_iff]
      intro r hr
      simp only [init, List.mem_map] at hr
      obtain ⟨w, _, rfl⟩ := hr
      simp [holdsR]
    unfold holders'
    rw [this]
    cases k <;> simp [init, wHolds, cHolds, Sys.obj]

/-- a step that changes neither the objects' counts nor who holds what -/
theorem cinv_same {s s' : Sys} (h : CInv s) (hlen : s'.objs.length = s.objs.length) (hcur : s'.cur < s'.objs.length)
    (hrc : ∀ k, (s'.obj k).refCount = (s.obj k).refCount)
    (hr : ∀ r ∈ s'.readers, ∀ x, r.pc.sid? = some x → x < s.objs.length)
    (hw : ∀ x, s'.wpc.sid? = some x → x < s.objs.length)
    (hc : ∀ x, s'.cpc.sid? = some x → x < s.objs.length)
    (hh : ∀ k, holders' s' k = holders' s k) : CInv s' := by
  constructor
  · exact hcur
  · rw [hlen]; exact hr
  · rw [hlen]; exact hw
  · rw [hlen]; exact hc
  · intro k; rw [hrc, hh]; exact h.rc k

/-- a step that takes a reference on `sid` -/
theorem cinv_inc {s s' : Sys} (h : CInv s) (sid : Nat) (hlt : sid < s.objs.length)
    (hobj : ∀ k, s'.obj k = (s.setObj sid { s.obj sid with refCount := (s.obj sid).refCount + 1 }).obj k)
    (hlen : s'.objs.length = s.objs.length) (hcur : s'.cur = s.cur)
    (hr : ∀ r ∈ s'.readers, ∀ x, r.pc.sid? = some x → x < s.objs.length)
    (hw : ∀ x, s'.wpc.sid? = some x → x < s.objs.length)
    (hc : ∀ x, s'.cpc.sid? = some x → x < s.objs.length)
    (hh : ∀ k, holders' s' k = holders' s k + if k = sid then 1 else 0) : CInv s' := by
  constructor
  · rw [hlen, hcur]; exact h.cur_lt
  · rw [hlen]; exact hr
  · rw [hlen]; exact hw
  · rw [hlen]; exact hc
  · intro k; rw [hobj, hh, obj_setObj]
    have := h.rc k
    by_cases hk : k = sid
    · subst hk; simp [hlt]; omega
    · simp [hk]; exact this

/-- a step that drops a reference on `sid` -/
theorem cinv_rel {s s' : Sys} (h : CInv s) (sid : Nat) (hlt : sid < s.objs.length)
    (hobj : ∀ k, s'.obj k = (s.release sid).obj k)
    (hlen : s'.objs.length = s.objs.length) (hcur : s'.cur = s.cur)
    (hr : ∀ r ∈ s'.readers, ∀ x, r.pc.sid? = some x → x < s.objs.length)
    (hw : ∀ x, s'.wpc.sid? = some x → x < s.objs.length)
    (hc : ∀ x, s'.cpc.sid? = some x → x < s.objs.length)
    (hh : ∀ k, holders' s' k + (if k = sid then 1 else 0) = holders' s k) : CInv s' := by
  constructor
  · rw [hlen, hcur]; exact h.cur_lt
  · rw [hlen]; exact hr
  · rw [hlen]; exact hw
  · rw [hlen]; exact hc
  · intro k; rw [hobj, release_obj]
    have := h.rc k
    have := hh k
    by_cases hk : k = sid
    · subst hk; simp [hlt] at this ⊢; omega
    · simp [hk] at this ⊢; omega

/-- publishing a new object -/
theorem cinv_append {s s' : Sys} (h : CInv s) (o : Obj) (ho : o.refCount = 0)
    (hobj : ∀ k, s'.obj k = if k = s.objs.length then o else s.obj k)
    (hlen : s'.objs.length = s.objs.length + 1) (hcur : s'.cur = s.objs.length)
    (hr : ∀ r ∈ s'.readers, ∀ x, r.pc.sid? = some x → x < s.objs.length)
    (hw : ∀ x, s'.wpc.sid? = some x → x < s.objs.length)
    (hc : ∀ x, s'.cpc.sid? = some x → x < s.objs.length)
    (hh : ∀ k, k ≠ s.objs.length → holders' s' k = holders' s k) : CInv s' := by
  constructor
  · omega
  · rw [hlen]; intro r hr' x hx; have := hr r hr' x hx; omega
  · rw [hlen]; intro x hx; have := hw x hx; omega
  · rw [hlen]; intro x hx; have := hc x hx; omega
  · intro k; rw [hobj]
    by_cases hk : k = s.objs.length
    · subst hk
      simp only [if_true, ho, holders']
      rw [rHolders_zero_of_lt _ _ _ (Nat.le_refl _) hr, wHolds_zero_of_lt _ _ _ (Nat.le_refl _) hw,
        cHolds_zero_of_lt _ _ _ (Nat.le_refl _) hc]
    · simp only [hk, if_false]; rw [hh k hk]; exact h.rc k

theorem cinv_stepWriter {s : Sys} (h : CInv s) : CInv (stepWriter s) := by
  unfold stepWriter
  split
  · next hw =>
    split
    · exact h
    · split
      · exact h
      · split
        · exact cinv_same h rfl h.cur_lt (fun _ => rfl) h.rsid h.wsid h.csid (fun _ => rfl)
        · refine cinv_same h rfl h.cur_lt (fun _ => rfl) h.rsid (by simp [WPc.sid?]) h.csid ?_
          intro k; simp [holders', hw, wHolds]
  · next hw =>
    refine cinv_inc h s.cur h.cur_lt (fun _ => rfl) (by simp) rfl h.rsid ?_ h.csid ?_
    · intro x hx; simp [WPc.sid?] at hx; have := h.cur_lt; omega
    · intro k; simp only [holders', hw, wHolds, setObj_readers, setObj_cpc]
      by_cases hk : k = s.cur
      · subst hk; simp; omega
      · have : ¬ s.cur = k := fun e => hk e.symm
        simp [hk, this]
  · next sid hw =>
    have hsid : sid < s.objs.length := h.wsid sid (by rw [hw]; rfl)
    split
    · exact h
    · next m rest hq =>
      refine cinv_append h _ rfl (fun k => obj_append s k _ s.objs.length) (by simp) rfl h.rsid ?_ h.csid ?_
      · intro x hx; simp [WPc.sid?] at hx; omega
      · intro k _; simp [holders', hw, wHolds]
  · next sid hw =>
    have hsid : sid < s.objs.length := h.wsid sid (by rw [hw]; rfl)
    refine cinv_same h (by simp) (by simpa using h.cur_lt) ?_ h.rsid ?_ h.csid ?_
    · intro k
      show ((s.setObj sid _).obj k).refCount = _
      rw [obj_setObj]; split
      · next hk => rw [hk.1]
      · rfl
    · intro x hx; simp [WPc.sid?] at hx; omega
    · intro k; simp [holders', hw, wHolds]
  · next sid hw =>
    have hsid : sid < s.objs.length := h.wsid sid (by rw [hw]; rfl)
    refine cinv_rel h sid hsid (fun _ => rfl) (by simp) (by simp) (by simpa using h.rsid) (by simp [WPc.sid?])
      (by simpa using h.csid) ?_
    intro k; simp only [holders', hw, wHolds, release_readers, release_cpc]
    by_cases hk : k = sid
    · subst hk; simp; omega
    · have : ¬ sid = k := fun e => hk e.symm
      simp [hk, this]

theorem cinv_stepCloser {s : Sys} (h : CInv s) : CInv (stepCloser s) := by
  unfold stepCloser
  split
  · next hc =>
    split
    · refine cinv_same h rfl h.cur_lt (fun _ => rfl) h.rsid h.wsid (by simp [CPc.sid?]) ?_
      intro k; simp [holders', hc, cHolds]
    · refine cinv_same h rfl h.cur_lt (fun _ => rfl) h.rsid h.wsid (by simp [CPc.sid?]) ?_
      intro k; simp [holders', hc, cHolds]
  · next hc =>
    split
    · exact h
    · refine cinv_same h rfl h.cur_lt (fun _ => rfl) h.rsid h.wsid (by simp [CPc.sid?]) ?_
      intro k; simp [holders', hc, cHolds]
  · next hc =>
    refine cinv_inc h s.cur h.cur_lt (fun _ => rfl) (by simp) rfl h.rsid h.wsid ?_ ?_
    · intro x hx; simp [CPc.sid?] at hx; have := h.cur_lt; omega
    · intro k; simp only [holders', hc, cHolds, setObj_readers, setObj_wpc]
      by_cases hk : k = s.cur
      · subst hk; simp
      · have : ¬ s.cur = k := fun e => hk e.symm
        simp [hk, this]
  · next sid hc =>
    have hsid : sid < s.objs.length := h.csid sid (by rw [hc]; rfl)
    refine cinv_append h _ rfl (fun k => obj_append s k _ s.objs.length) (by simp) rfl h.rsid h.wsid ?_ ?_
    · intro x hx; simp [CPc.sid?] at hx; omega
    · intro k _; simp [holders', hc, cHolds]
  · next sid hc =>
    have hsid : sid < s.objs.length := h.csid sid (by rw [hc]; rfl)
    refine cinv_same h (by simp) (by simpa using h.cur_lt) ?_ h.rsid h.wsid ?_ ?_
    · intro k
      show ((s.setObj sid _).obj k).refCount = _
      rw [obj_setObj]; split
      · next hk => rw [hk.1]
      · rfl
    · intro x hx; simp [CPc.sid?] at hx; omega
    · intro k; simp [holders', hc, cHolds]
  · next sid hc =>
    have hsid : sid < s.objs.length := h.csid sid (by rw [hc]; rfl)
    refine cinv_rel h sid hsid (fun _ => rfl) (by simp) (by simp) (by simpa using h.rsid) (by simpa using h.wsid)
      (by simp [CPc.sid?]) ?_
    intro k; simp only [holders', hc, cHolds, release_readers, release_wpc]
    by_cases hk : k = sid
    · subst hk; simp
    · have : ¬ sid = k := fun e => hk e.symm
      simp [hk, this]
  · exact h

theorem holders_set {s : Sys} (i : Nat) (r r' : Reader) (hr : s.readers[i]? = some r) (s' : Sys)
    (hrd : s'.readers = s.readers.set i r') (hw : s'.wpc = s.wpc) (hc : s'.cpc = s.cpc) (k : Nat) :
    holders' s' k + (if holdsR r.pc k then 1 else 0) = holders' s k + (if holdsR r'.pc k then 1 else 0) := by
  have := rHolders_set s.readers i r r' k hr
  simp only [holders', hrd, hw, hc]
  omega

theorem holders_pc {s : Sys} (i : Nat) (r r' : Reader) (hr : s.readers[i]? = some r)
    (hh : ∀ k, holdsR r'.pc k = holdsR r.pc k) (k : Nat) :
    holders' { s with readers := s.readers.set i r' } k = holders' s k := by
  have := holders_set i r r' hr { s with readers := s.readers.set i r' } rfl rfl rfl k
  rw [hh k] at this
  omega

theorem rsid_set {s : Sys} (h : CInv s) (i : Nat) (r' : Reader)
    (hsid : ∀ x, r'.pc.sid? = some x → x < s.objs.length) :
    ∀ q ∈ s.readers.set i r', ∀ x, q.pc.sid? = some x → x < s.objs.length := by
  intro q hq x hx
  rcases mem_set_cases _ _ _ _ hq with rfl | hq
  · exact hsid x hx
  · exact h.rsid q hq x hx

theorem cinv_stepReader (cfg : Cfg) {s : Sys} (h : CInv s) (i : Nat) : CInv (stepReader cfg s i) := by
  unfold stepReader
  split
  · exact h
  · next r hr =>
    have hcl := h.cur_lt
    have hmem : r ∈ s.readers := List.mem_of_getElem? hr
    simp only
    split
    · next hpc =>
      split
      · refine cinv_same h (by simp) h.cur_lt (fun _ => rfl) (rsid_set h i _ (by simp [RPc.sid?])) h.wsid h.csid ?_
        exact holders_pc i r _ hr (by simp [hpc, holdsR])
      · refine cinv_same h (by simp) h.cur_lt (fun _ => rfl) (rsid_set h i _ (by simp [RPc.sid?])) h.wsid h.csid ?_
        exact holders_pc i r _ hr (by simp [hpc, holdsR])
    · next hpc =>
      refine cinv_same h (by simp) h.cur_lt (fun _ => rfl) (rsid_set h i _ (by simp [RPc.sid?]; omega)) h.wsid
        h.csid ?_
      exact holders_pc i r _ hr (by simp [hpc, holdsR])
    · next sid hpc =>
      have hlt : sid < s.objs.length := h.rsid r hmem sid (by rw [hpc]; rfl)
      refine cinv_inc h sid hlt (fun _ => rfl) (by simp) rfl (rsid_set h i _ (by simp [RPc.sid?]; omega)) h.wsid
        h.csid ?_
      intro k
      have := holders_set (s := s) i r { r with pc := .acquired sid } hr
        { (s.setObj sid { s.obj sid with refCount := (s.obj sid).refCount + 1 }) with
          readers := s.readers.set i { r with pc := .acquired sid } } rfl rfl rfl k
      simp only [hpc, holdsR] at this
      by_cases hk : k = sid
      · subst hk; simp at this ⊢; omega
      · have : ¬ sid = k := fun e => hk e.symm
        simp_all
    · next sid hpc =>
      have hlt : sid < s.objs.length := h.rsid r hmem sid (by rw [hpc]; rfl)
      refine cinv_same h (by simp) h.cur_lt (fun _ => rfl) (rsid_set h i _ (by simp [RPc.sid?]; omega)) h.wsid
        h.csid ?_
      exact holders_pc i r _ hr (by simp [hpc, holdsR])
    · next sid res hpc =>
      have hlt : sid < s.objs.length := h.rsid r hmem sid (by rw [hpc]; rfl)
      refine cinv_rel h sid hlt (fun _ => rfl) (by simp) (by simp)
        (by simpa using rsid_set h i { r with pc := .done res } (by simp [RPc.sid?]))
        (by simpa using h.wsid) (by simpa using h.csid) ?_
      intro k
      have := holders_set (s := s) i r { r with pc := .done res } hr
        { (s.release sid) with readers := (s.release sid).readers.set i { r with pc := .done res } }
        (by simp) (by simp) (by simp) k
      simp only [hpc, holdsR] at this
      by_cases hk : k = sid
      · subst hk; simp at this ⊢; omega
      · have : ¬ sid = k := fun e => hk e.symm
        simp_all
    · exact h

theorem cinv_run (cfg : Cfg) (sched : List Tid) {s : Sys} (h : CInv s) : CInv (run cfg s sched) := by
  unfold run
  induction sched generalizing s with
  | nil => exact h
  | cons t ts ih =>
    apply ih
    cases t with
    | reader i => exact cinv_stepReader cfg h i
    | writer => exact cinv_stepWriter h
    | closer => exact cinv_stepCloser h

/-! ### no panic -/

def NoPanic (s : Sys) : Prop := ∀ r ∈ s.readers, r.pc ≠ .done .panic ∧ ∀ sid, r.pc ≠ .finished sid .panic

theorem stepWriter_readers (s : Sys) : (stepWriter s).readers = s.readers := by
  unfold stepWriter
  repeat' split
  all_goals simp

theorem stepCloser_readers (s : Sys) : (stepCloser s).readers = s.readers := by
  unfold stepCloser
  repeat' split
  all_goals simp

theorem noPanic_stepReader {cfg : Cfg} (hcfg : cfg.readersCheckEmpty = true) {s : Sys} (h : NoPanic s) (i : Nat) :
    NoPanic (stepReader cfg s i) := by
  unfold stepReader
  split
  · exact h
  · next r hr =>
    have hmem : r ∈ s.readers := List.mem_of_getElem? hr
    have key : ∀ (s' : Sys) (r' : Reader), s'.readers = s.readers →
        (r'.pc ≠ .done .panic ∧ ∀ sid, r'.pc ≠ .finished sid .panic) →
        NoPanic { s' with readers := s'.readers.set i r' } := by
      intro s' r' hs' hr' q hq
      simp only [hs'] at hq
      rcases mem_set_cases _ _ _ _ hq with rfl | hq
      · exact hr'
      · exact h q hq
    simp only
    split
    · split
      · exact key s _ rfl (by simp)
      · exact key s _ rfl (by simp)
    · exact key s _ rfl (by simp)
    · exact key _ _ (by simp) (by simp)
    · refine key s _ rfl ?_
      simp only [hcfg, if_true]
      constructor
      · simp
      · intro sid'
        repeat' split
        all_goals simp
    · next sid res hpc =>
      refine key _ _ (by simp) ?_
      have := (h r hmem).2 sid
      rw [hpc] at this
      constructor
      · intro e; injection e with e; subst e; exact this rfl
      · simp
    · exact h

theorem noPanic_run {cfg : Cfg} (hcfg : cfg.readersCheckEmpty = true) (sched : List Tid) {s : Sys} (h : NoPanic s) :
    NoPanic (run cfg s sched) := by
  unfold run
  induction sched generalizing s with
  | nil => exact h
  | cons t ts ih =>
    apply ih
    cases t with
    | reader i => exact noPanic_stepReader hcfg h i
    | writer => show NoPanic (stepWriter s); unfold NoPanic; rw [stepWriter_readers]; exact h
    | closer => show NoPanic (stepCloser s); unfold NoPanic; rw [stepCloser_readers]; exact h

theorem noPanic_init (files wants : List FileId) (muts : List Mutation) : NoPanic (init files wants muts) := by
  intro r hr
  simp only [init, List.mem_map] at hr
  obtain ⟨w, _, rfl⟩ := hr
  simp

end RaftWal.Conc
