/-
  Proofs/ConcLemmas6.lean — the global invariant is preserved by every step of a reader, hence by every step and
  every schedule.
-/
import RaftWal.Proofs.ConcLemmas5
namespace RaftWal.Conc

theorem mem_of_getElem?_some {α} {l : List α} {i : Nat} {a : α} (h : l[i]? = some a) : a ∈ l :=
  List.mem_of_getElem? h

/-- a reader step that only moves the reader's pc without changing what it holds -/
theorem inv_r_pc {s : Sys} (h : Inv s) (i : Nat) (r r' : Reader) (hr : s.readers[i]? = some r)
    (hsid : ∀ x, r'.pc.sid? = some x → x < s.objs.length)
    (hh : ∀ k, holdsR r'.pc k = holdsR r.pc k) :
    Inv { s with readers := s.readers.set i r' } := by
  have hp : pendingAdds { s with readers := s.readers.set i r' } = pendingAdds s := rfl
  constructor
  case toOInv => exact oinv_congr h.toOInv rfl rfl rfl rfl
  case rsid =>
    intro q hq x hx
    rcases mem_set_cases _ _ _ _ hq with rfl | hq
    · exact hsid x hx
    · exact h.rsid q hq x hx
  case rc =>
    intro k
    have := h.rc k
    have hset := rHolders_set s.readers i r r' k hr
    rw [hh k] at hset
    simp only [holders'] at this ⊢
    show (s.obj k).refCount = _
    omega
  all_goals inv_field h

theorem inv_r_loaded {s : Sys} (h : Inv s) (i : Nat) (r : Reader) (hr : s.readers[i]? = some r) (sid : Nat)
    (hpc : r.pc = .loaded sid) :
    Inv { (s.setObj sid { s.obj sid with refCount := (s.obj sid).refCount + 1 }) with
      readers := (s.setObj sid { s.obj sid with refCount := (s.obj sid).refCount + 1 }).readers.set i
        { r with pc := .acquired sid } } := by
  generalize hs' : ({ (s.setObj sid { s.obj sid with refCount := (s.obj sid).refCount + 1 }) with
      readers := (s.setObj sid { s.obj sid with refCount := (s.obj sid).refCount + 1 }).readers.set i
        { r with pc := .acquired sid } } : Sys) = s'
  have hlt : sid < s.objs.length := h.rsid r (mem_of_getElem?_some hr) sid (by rw [hpc]; rfl)
  have hobj : ∀ k, s'.obj k = if k = sid then { s.obj sid with refCount := (s.obj sid).refCount + 1 }
      else s.obj k := by
    intro k; subst hs'
    have := obj_setObj s sid k { s.obj sid with refCount := (s.obj sid).refCount + 1 }
    simp only [hlt, and_true] at this
    exact this
  have hfiles : ∀ k, (s'.obj k).files = (s.obj k).files := by
    intro k; rw [hobj]; split
    · next hk => rw [hk]
    · rfl
  have hfin : ∀ k, (s'.obj k).fin = (s.obj k).fin := by
    intro k; rw [hobj]; split
    · next hk => rw [hk]
    · rfl
  have hlen : s'.objs.length = s.objs.length := by subst hs'; simp
  have hcur : s'.cur = s.cur := by subst hs'; rfl
  have hclosed : s'.closed = s.closed := by subst hs'; rfl
  have hlock : s'.lock = s.lock := by subst hs'; rfl
  have hrd : s'.readers = s.readers.set i { r with pc := .acquired sid } := by subst hs'; rfl
  have hwpc : s'.wpc = s.wpc := by subst hs'; rfl
  have hcpc : s'.cpc = s.cpc := by subst hs'; rfl
  have hp : pendingAdds s' = pendingAdds s := by subst hs'; rfl
  have ho : OInv s' := by
    subst hs'; exact oinv_congr (oinv_rcInc h.toOInv sid) rfl rfl rfl rfl
  clear hs'
  constructor
  case toOInv => exact ho
  case rsid =>
    rw [hrd, hlen]
    intro q hq x hx
    rcases mem_set_cases _ _ _ _ hq with rfl | hq
    · simp [RPc.sid?] at hx; omega
    · exact h.rsid q hq x hx
  case w_held => rw [hwpc, hcur]; exact h.w_held
  case w_pub => rw [hwpc, hcur]; intro x hx; rw [hfin]; exact h.w_pub x hx
  case w_fin => rw [hwpc, hcur]; exact h.w_fin
  case c_idle => rw [hcpc, hclosed]; exact h.c_idle
  case c_nidle => rw [hcpc, hclosed]; exact h.c_nidle
  case c_held => rw [hcpc, hcur]; exact h.c_held
  case c_pub => rw [hcpc, hcur]; intro x hx; rw [hfin]; exact h.c_pub x hx
  case c_fin => rw [hcpc, hcur]; exact h.c_fin
  case c_empty => rw [hcpc, hcur, hfiles]; exact h.c_empty
  case lock_iff => rw [hlock, hwpc, hcpc]; exact h.lock_iff
  case excl => rw [hwpc, hcpc]; exact h.excl
  case rc =>
    intro k
    have := h.rc k
    have hset := rHolders_set s.readers i r { r with pc := .acquired sid } k hr
    simp only [holders'] at this
    simp only [holders', hrd, hwpc, hcpc, hobj]
    simp only [hpc, holdsR] at hset
    by_cases hk : k = sid
    · subst hk; simp at hset ⊢; omega
    · have : ¬ sid = k := fun e => hk e.symm
      simp [hk, this] at hset ⊢; omega
  case fin_unset => rw [hlen, hwpc, hcpc]; intro k hk hf; rw [hfin] at hf; exact h.fin_unset k hk hf
  case padds_nodup => rw [hp]; exact h.padds_nodup
  case fresh => intro k f; rw [hfiles, hp]; exact h.fresh k f

theorem inv_r_finished {s : Sys} (h : Inv s) (i : Nat) (r : Reader) (hr : s.readers[i]? = some r) (sid : Nat)
    (res : RRes) (hpc : r.pc = .finished sid res) :
    Inv { (s.release sid) with readers := (s.release sid).readers.set i { r with pc := .done res } } := by
  generalize hs' : ({ (s.release sid) with
    readers := (s.release sid).readers.set i { r with pc := .done res } } : Sys) = s'
  have hlt : sid < s.objs.length := h.rsid r (mem_of_getElem?_some hr) sid (by rw [hpc]; rfl)
  have hobj : ∀ k, s'.obj k = if k = sid then
        { s.obj sid with refCount := (s.obj sid).refCount - 1, fin := relFin s sid } else s.obj k := by
    intro k; subst hs'
    have := release_obj s sid k
    simp only [hlt, and_true] at this
    exact this
  have hfiles : ∀ k, (s'.obj k).files = (s.obj k).files := by
    intro k; rw [hobj]; split
    · next hk => rw [hk]
    · rfl
  have hfin : ∀ k, (s'.obj k).fin = .unset → (s.obj k).fin = .unset := by
    intro k hf
    rw [hobj] at hf
    by_cases hks : k = sid
    · rw [if_pos hks] at hf
      simp only at hf
      rcases rel_cases s sid with ⟨c, _, _, hrf, _⟩ | ⟨hrf, _, _⟩
      · rw [hrf] at hf; simp at hf
      · rw [hrf] at hf; rw [hks]; exact hf
    · rw [if_neg hks] at hf; exact hf
  have hfin2 : ∀ k, (s.obj k).fin = .unset → (s'.obj k).fin = .unset := by
    intro k hf
    rw [hobj]
    by_cases hks : k = sid
    · rw [if_pos hks]
      simp only
      rw [hks] at hf
      rcases rel_cases s sid with ⟨c, _, hsf, hrf, _⟩ | ⟨hrf, _, _⟩
      · rw [hsf] at hf; simp at hf
      · rw [hrf]; exact hf
    · rw [if_neg hks]; exact hf
  have hlen : s'.objs.length = s.objs.length := by subst hs'; simp
  have hcur : s'.cur = s.cur := by subst hs'; simp
  have hclosed : s'.closed = s.closed := by subst hs'; simp
  have hlock : s'.lock = s.lock := by subst hs'; simp
  have hrd : s'.readers = s.readers.set i { r with pc := .done res } := by subst hs'; simp
  have hwpc : s'.wpc = s.wpc := by subst hs'; simp
  have hcpc : s'.cpc = s.cpc := by subst hs'; simp
  have hp : pendingAdds s' = pendingAdds s := by
    subst hs'; simp [pendingAdds, pending]
  have hoi : OInv s' := by
    subst hs'
    exact oinv_congr (oinv_release h.toOInv sid) rfl rfl rfl rfl
  clear hs'
  constructor
  case toOInv => exact hoi
  case rsid =>
    rw [hrd, hlen]
    intro q hq x hx
    rcases mem_set_cases _ _ _ _ hq with rfl | hq
    · simp [RPc.sid?] at hx
    · exact h.rsid q hq x hx
  case w_held => rw [hwpc, hcur]; exact h.w_held
  case w_pub => rw [hwpc, hcur]; intro x hx; exact ⟨(h.w_pub x hx).1, hfin2 x (h.w_pub x hx).2⟩
  case w_fin => rw [hwpc, hcur]; exact h.w_fin
  case c_idle => rw [hcpc, hclosed]; exact h.c_idle
  case c_nidle => rw [hcpc, hclosed]; exact h.c_nidle
  case c_held => rw [hcpc, hcur]; exact h.c_held
  case c_pub => rw [hcpc, hcur]; intro x hx; exact ⟨(h.c_pub x hx).1, hfin2 x (h.c_pub x hx).2⟩
  case c_fin => rw [hcpc, hcur]; exact h.c_fin
  case c_empty => rw [hcpc, hcur, hfiles]; exact h.c_empty
  case lock_iff => rw [hlock, hwpc, hcpc]; exact h.lock_iff
  case excl => rw [hwpc, hcpc]; exact h.excl
  case rc =>
    intro k
    have := h.rc k
    have hset := rHolders_set s.readers i r { r with pc := .done res } k hr
    simp only [holders'] at this
    simp only [holders', hrd, hwpc, hcpc, hobj]
    simp only [hpc, holdsR] at hset
    by_cases hk : k = sid
    · subst hk; simp at hset ⊢; omega
    · have : ¬ sid = k := fun e => hk e.symm
      simp [hk, this] at hset ⊢; omega
  case fin_unset => rw [hlen, hwpc, hcpc]; intro k hk hf; exact h.fin_unset k hk (hfin k hf)
  case padds_nodup => rw [hp]; exact h.padds_nodup
  case fresh => intro k f; rw [hfiles, hp]; exact h.fresh k f

theorem inv_stepReader (cfg : Cfg) {s : Sys} (h : Inv s) (i : Nat) : Inv (stepReader cfg s i) := by
  unfold stepReader
  split
  · exact h
  · next r hr =>
    have hcl := h.cur_last
    simp only
    split
    · next hpc =>
      split
      · exact inv_r_pc h i r _ hr (by simp [RPc.sid?]) (by simp [hpc, holdsR])
      · exact inv_r_pc h i r _ hr (by simp [RPc.sid?]) (by simp [hpc, holdsR])
    · next hpc =>
      exact inv_r_pc h i r _ hr (by simp [RPc.sid?]; omega) (by simp [hpc, holdsR])
    · next sid hpc => exact inv_r_loaded h i r hr sid hpc
    · next sid hpc =>
      have hlt : sid < s.objs.length := h.rsid r (mem_of_getElem?_some hr) sid (by rw [hpc]; rfl)
      exact inv_r_pc h i r _ hr (by simp [RPc.sid?]; omega) (by simp [hpc, holdsR])
    · next sid res hpc => exact inv_r_finished h i r hr sid res hpc
    · exact h

theorem inv_step (cfg : Cfg) {s : Sys} (h : Inv s) (t : Tid) : Inv (step cfg s t) := by
  cases t with
  | reader i => exact inv_stepReader cfg h i
  | writer => exact inv_stepWriter h
  | closer => exact inv_stepCloser h

theorem inv_run (cfg : Cfg) (sched : List Tid) {s : Sys} (h : Inv s) : Inv (run cfg s sched) := by
  unfold run
  induction sched generalizing s with
  | nil => exact h
  | cons t ts ih => exact ih (inv_step cfg h t)

end RaftWal.Conc
