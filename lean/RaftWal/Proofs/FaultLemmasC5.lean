/-
  Proofs/FaultLemmasC5.lean — a tail truncation whose truncation point lies in a sealed segment: the tail and the
  segments above the point are dropped, their files deleted (a failing deletion is ignored).
-/
import RaftWal.Proofs.FaultLemmasC4
namespace RaftWal.Fault.C
open RaftWal.Crash

/-- commit, create, deletions (any number of which may fail): the three results -/
theorem runActs_CR_dels (d : Disk) (m : Meta) (id b : Nat) (ids : List Nat) (pl : Plan) :
    (∃ pl', runActs d ([.commit m, .create id b] ++ ids.map .delete) pl = (d, some (.commit m), pl')) ∨
    (∃ pl', runActs d ([.commit m, .create id b] ++ ids.map .delete) pl =
      (d.apply (.commit m), some (.create id b), pl')) ∨
    ∃ (ids' : List Nat) (pl' : Plan), (∀ j ∈ ids', j ∈ ids) ∧
      runActs d ([.commit m, .create id b] ++ ids.map .delete) pl =
        (((d.apply (.commit m)).apply (.create id b)).applyAll (ids'.map .delete), none, pl') := by
  simp only [List.cons_append, List.nil_append]
  rcases plan_two pl with h | ⟨wf, pl', rfl⟩ | ⟨wf, pl', rfl⟩
  · obtain ⟨pl'', e⟩ := runActs_two_ok d (.commit m) (.create id b) (ids.map .delete) pl h
    obtain ⟨ids', q, h1, h2⟩ := runActs_deletes ids ((d.apply (.commit m)).apply (.create id b)) pl''
    exact Or.inr (Or.inr ⟨ids', q, h1, by rw [e]; exact h2⟩)
  · exact Or.inl ⟨pl', runActs_commit_fail _ _ _ _ _⟩
  · exact Or.inr (Or.inl ⟨pl', by rw [runActs_cons_ok, runActs_create_fail]; rfl⟩)

/-- the specification when the truncation point lies in the sealed segment `tk` -/
theorem spec_sealed {d : Disk} {K0 D' : List Seg} {tk t : Seg} {f : File} (h : FR d (K0 ++ tk :: D') t f)
    {newMax : Nat} (htb : tk.base ≤ newMax) (hmax : newMax ≤ tk.max) (hdrop : ∀ s ∈ D' ++ [t], newMax < s.base) :
    specApply (rlog d (K0 ++ tk :: D') t f) (.delTail newMax) = logP d (K0 ++ [sealSeg tk newMax]) := by
  have hb := h.base
  have hsplit : (K0 ++ tk :: D') ++ [t] = K0 ++ tk :: (D' ++ [t]) := by simp
  obtain ⟨fk, hfk, hsf⟩ := hb.sealed tk (by simp)
  have hpw := hb.pw
  rw [hsplit] at hpw
  have hpw' := List.pairwise_append.1 hpw
  unfold rlog
  rw [specApply_delTail, List.filter_append, logP_append, logP_cons, List.filter_append,
    List.filter_append, logP_append, logP_single]
  have e1 : (logP d K0).filter (fun p => decide (p.1 ≤ newMax)) = logP d K0 := by
    apply logP_filter_all
    intro s hs p hp
    have := mem_sealed (hb.sealed s (by simp [hs])) hp
    have := (hpw'.2.2 s hs tk (by simp)).1
    simp only [decide_eq_true_eq]; omega
  have e2 : (segEntries d tk).filter (fun p => decide (p.1 ≤ newMax)) = segEntries d (sealSeg tk newMax) := by
    rw [segEntries_some hfk, segEntries_some (s := sealSeg tk newMax) hfk, visF_setMax hsf.sl hmax]; rfl
  have e3 : (logP d D').filter (fun p => decide (p.1 ≤ newMax)) = [] := by
    apply logP_filter_nil
    intro s hs p hp
    have := mem_sealed (hb.sealed s (by simp [hs])) hp
    have := (hb.sealed s (by simp [hs])).bounds
    have := hdrop s (by simp [hs])
    simp only [decide_eq_false_iff_not, Nat.not_le]; omega
  have e4 : (visU t.min f.base f.synced).filter (fun p => decide (p.1 ≤ newMax)) = [] := by
    apply List.filter_eq_nil_iff.2
    intro p hp
    have := mem_visU hp
    have := hdrop t (by simp)
    have := hb.tbm
    simp only [decide_eq_true_eq, Nat.not_le]; omega
  rw [e1, e2, e3, e4]; simp


/-- the segment right above the truncation point starts right after `tk.max` -/
theorem max_of_drop {d : Disk} {K0 D' : List Seg} {tk t : Seg} (hb : Base d (K0 ++ tk :: D') t) {newMax : Nat}
    (hdrop : ∀ s ∈ D' ++ [t], newMax < s.base) : newMax ≤ tk.max := by
  have hch := hb.chain
  rw [show (K0 ++ tk :: D') ++ [t] = (K0 ++ [tk]) ++ (D' ++ [t]) by simp, chainOK_append] at hch
  cases hD' : D' ++ [t] with
  | nil => simp at hD'
  | cons x rest =>
    have := hch.2.2 tk x (by simp) (by rw [hD']; rfl)
    have := hdrop x (by rw [hD']; simp)
    omega

/-- the commit that replaces everything above the truncation point by a fresh tail -/
theorem FR.dropped {d : Disk} {K0 D' : List Seg} {tk t : Seg} {f : File} (h : FR d (K0 ++ tk :: D') t f)
    {newMax : Nat} (hmin : tk.min ≤ newMax) (hmax : newMax ≤ tk.max) (A : Log → Prop)
    (ha : A (logP d (K0 ++ [sealSeg tk newMax]))) :
    Rec A (d.apply (.commit ⟨d.md.nextID + 1, K0 ++ [sealSeg tk newMax] ++ [newSeg d.md.nextID (newMax + 1)],
        d.md.stable⟩)) (K0 ++ [sealSeg tk newMax]) (newSeg d.md.nextID (newMax + 1)) := by
  have hb := h.base
  have hsplit : (K0 ++ tk :: D') ++ [t] = (K0 ++ [tk]) ++ (D' ++ [t]) := by simp
  obtain ⟨fk, hfk, hsf⟩ := hb.sealed tk (by simp)
  have hnoneN : d.file? d.md.nextID = none := fresh_none hb
  have hch' : chainOK ((K0 ++ [sealSeg tk newMax]) ++ [newSeg d.md.nextID (newMax + 1)]) = true := by
    have hch := hb.chain
    rw [hsplit, chainOK_append] at hch
    rw [chainOK_append]
    refine ⟨chainOK_retail (t' := sealSeg tk newMax) hch.1 rfl rfl, by simp, ?_⟩
    intro a b ha hb'
    simp only [List.getLast?_append, List.getLast?_singleton, Option.some_or, Option.some.injEq] at ha
    simp only [List.head?_cons, Option.some.injEq] at hb'
    subst ha hb'
    simp [newSeg, sealSeg]
  have hidK : ∀ s ∈ K0 ++ [tk], s.id < d.md.nextID := by
    intro s hs
    apply hb.idlt s
    simp only [List.mem_append, List.mem_cons, List.not_mem_nil, or_false] at hs ⊢
    rcases hs with hs | rfl
    · exact Or.inl (Or.inl hs)
    · exact Or.inl (Or.inr (Or.inl rfl))
  have hnd' : (((K0 ++ [sealSeg tk newMax]) ++ [newSeg d.md.nextID (newMax + 1)]).map (·.id)).Nodup := by
    have hnd := hb.nodupS
    rw [hsplit, List.map_append] at hnd
    have hndK := (List.nodup_append.1 hnd).1
    rw [List.map_append]
    refine List.nodup_append.2 ⟨by simpa [sealSeg] using hndK, by simp, ?_⟩
    intro a ha c hc
    simp only [List.map_cons, List.map_nil, List.mem_cons, List.not_mem_nil, or_false] at hc
    subst hc
    intro e
    have : a < d.md.nextID := by
      obtain ⟨s, hs, rfl⟩ := List.mem_map.1 ha
      simp only [List.mem_append, List.mem_cons, List.not_mem_nil, or_false] at hs
      rcases hs with hs | rfl
      · exact hidK s (by simp [hs])
      · exact hidK tk (by simp)
    simp [newSeg] at e; omega
  apply Rec.recommit (P' := K0 ++ [sealSeg tk newMax]) (t' := newSeg d.md.nextID (newMax + 1)) hb
    ⟨d.md.nextID + 1, K0 ++ [sealSeg tk newMax] ++ [newSeg d.md.nextID (newMax + 1)], d.md.stable⟩ rfl
    (Nat.le_succ _) ?_ hch' hnd' ?_ rfl (Nat.le_refl _) (by simp [newSeg])
  · intro g hg
    rw [show (newSeg d.md.nextID (newMax + 1)).id = d.md.nextID from rfl, hnoneN] at hg; cases hg
  · intro _; exact ⟨rfl, ha⟩
  · intro s hs
    simp only [List.mem_append, List.mem_cons, List.not_mem_nil, or_false] at hs
    rcases hs with hs | rfl
    · exact hb.sealed s (by simp [hs])
    · exact ⟨fk, hfk, ⟨hsf.base, hsf.pend, hsf.sp, hsf.bm, hsf.b1, rfl, hsf.ss, hsf.lk, hmin,
        by show newMax < _; have := hsf.mx; omega⟩⟩
  · intro s hs
    simp only [List.mem_append, List.mem_cons, List.not_mem_nil, or_false] at hs
    rcases hs with (hs | rfl) | rfl
    · have := hidK s (by simp [hs]); show s.id < d.md.nextID + 1; omega
    · have := hidK tk (by simp); show tk.id < d.md.nextID + 1; omega
    · show d.md.nextID < d.md.nextID + 1; omega

/-- the identifiers of the dropped segments are not those of the kept ones, nor the new tail's -/
theorem dropped_ids_ne {d : Disk} {K0 D' : List Seg} {tk t : Seg} (hb : Base d (K0 ++ tk :: D') t) {newMax : Nat}
    {j : Nat} (hj : j ∈ segIds (D' ++ [t])) :
    ∀ s ∈ (K0 ++ [sealSeg tk newMax]) ++ [newSeg d.md.nextID (newMax + 1)], s.id ≠ j := by
  intro s hs e
  obtain ⟨s', hs', rfl⟩ := List.mem_map.1 hj
  simp only [List.mem_append, List.mem_cons, List.not_mem_nil, or_false] at hs
  have hs'lt : s'.id < d.md.nextID := by
    apply hb.idlt s'
    simp only [List.mem_append, List.mem_cons, List.not_mem_nil, or_false] at hs' ⊢
    rcases hs' with hs' | rfl
    · exact Or.inl (Or.inr (Or.inr hs'))
    · exact Or.inr rfl
  have hnd := hb.nodupS
  rw [show (K0 ++ tk :: D') ++ [t] = (K0 ++ [tk]) ++ (D' ++ [t]) by simp, List.map_append] at hnd
  have hdis := (List.nodup_append.1 hnd).2.2
  rcases hs with (hs | hs) | hs
  · exact hdis s.id (List.mem_map.2 ⟨s, by simp [hs], rfl⟩) s'.id (List.mem_map.2 ⟨s', hs', rfl⟩) e
  · rw [hs] at e
    exact hdis tk.id (List.mem_map.2 ⟨tk, by simp, rfl⟩) s'.id (List.mem_map.2 ⟨s', hs', rfl⟩) e
  · rw [hs] at e
    simp only [newSeg] at e; omega

theorem caseB {d : Disk} {K0 D' : List Seg} {tk t : Seg} {f : File} (h : FR d (K0 ++ tk :: D') t f)
    {newMax : Nat} (hk : d.md.segs.filter (keptB newMax) = K0 ++ [tk])
    (hD : d.md.segs.filter (fun s => !keptB newMax s) = D' ++ [t]) (htb : tk.base ≤ newMax)
    (hmin : tk.min ≤ newMax) (hdrop : ∀ s ∈ D' ++ [t], newMax < s.base) (pl : Plan) :
    Outcome { disk := d } (.delTail newMax) (runOp { disk := d } (.delTail newMax) pl) := by
  have hb := h.base
  have hv : rlog d (K0 ++ tk :: D') t f = view { disk := d } := by rw [h.view_run]
  have hmax := max_of_drop hb hdrop
  have hspec : logP d (K0 ++ [sealSeg tk newMax]) = specApply (view { disk := d }) (.delTail newMax) := by
    rw [← hv, spec_sealed h htb hmax hdrop]
  have h3 := h.dropped hmin hmax (fun l => l = specApply (view { disk := d }) (.delTail newMax)) hspec
  have hnone : (d.apply (.commit ⟨d.md.nextID + 1, K0 ++ [sealSeg tk newMax] ++ [newSeg d.md.nextID (newMax + 1)],
      d.md.stable⟩)).file? (newSeg d.md.nextID (newMax + 1)).id = none := fresh_none hb
  have hacts := delTailActs_sealed h hk hD
  rcases runActs_CR_dels d ⟨d.md.nextID + 1, K0 ++ [sealSeg tk newMax] ++ [newSeg d.md.nextID (newMax + 1)],
      d.md.stable⟩ d.md.nextID (newMax + 1) (segIds (D' ++ [t])) pl with ⟨pl', hr⟩ | ⟨pl', hr⟩ | ⟨ids', pl', hsub, hr⟩
  · exact out_err (by rw [hacts]; exact hr) rfl (Outcome.err h hv (Or.inr rfl) id)
  · refine out_stop (by rw [hacts]; exact hr) rfl
      (Outcome.stop (p := { disk := d }) h hv rfl (K0 ++ [sealSeg tk newMax]) (newMax + 1) ?_
        (fextraStop_of_base h3.base rfl))
    have := (h3.tnone hnone).2
    rw [Crash.absLog_eq, h3.base.segs, logP_append, logP_single, segEntries_none hnone, List.append_nil]
    exact this
  · have h4 := h3.create hnone
    have hne : ∀ j ∈ ids', ∀ s ∈ (K0 ++ [sealSeg tk newMax]) ++ [newSeg d.md.nextID (newMax + 1)], s.id ≠ j :=
      fun j hj => dropped_ids_ne hb (hsub j hj)
    have h5 := h4.deleteIds ids' hne
    have hf5 : (((d.apply (.commit ⟨d.md.nextID + 1, K0 ++ [sealSeg tk newMax] ++ [newSeg d.md.nextID (newMax + 1)],
        d.md.stable⟩)).apply (.create d.md.nextID (newMax + 1))).applyAll (ids'.map .delete)).file?
        (newSeg d.md.nextID (newMax + 1)).id = some (File.fresh d.md.nextID (newMax + 1)) := by
      rw [deletes_file? _ _ _ (fun hj => hne _ hj (newSeg d.md.nextID (newMax + 1)) (by simp) rfl)]
      have := apply_create_file? _ _ (newMax + 1) hnone d.md.nextID
      simpa [newSeg] using this
    obtain ⟨g1, g2⟩ := FR.ofRec h5 hf5
    exact out_ok (by rw [hacts]; exact hr) (Outcome.ok g1 rfl g2 rfl rfl)

end RaftWal.Fault.C
