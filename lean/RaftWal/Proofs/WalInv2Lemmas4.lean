/-
  Proofs/WalInv2Lemmas4.lean — the state-independent transition facts for `Open` (`reopen`), `GetLog`,
  `Close`, the StableStore calls, and for one arbitrary call of the extended operation language; the
  initial state.
-/
import RaftWal.Proofs.WalInv2Lemmas3
namespace RaftWal

/-! ## `Open` -/

/-- re-creating a missing tail file -/
def addTail (w : Wal) (rt : Bool) : Wal :=
  match w.tailSeg with
  | some (s, _) =>
    if rt ∧ ¬ w.files.any (fun f => f.id = s.id ∧ f.base = s.base) then
      { w with files := w.files ++ [({ id := s.id, base := s.base, codec := s.codec, entries := [], wsize := 0, indexStart := 0 } : FileL)] }
    else w
  | none => w

/-- unlinking every file that the meta store does not name -/
def sweep (w : Wal) : Wal := { w with files := w.files.filter (fun f => w.segs.any (fun s => s.1.id = f.id)) }

theorem reopen_eq (w : Wal) :
    w.reopen =
      match Wal.reopen.build w w.segs [] with
      | none => none
      | some (segs, rt) =>
        (if rt then some (addTail { w with segs := segs, closed := false } rt)
          else (addTail { w with segs := segs, closed := false } rt).createNext 0).map sweep := by
  unfold Wal.reopen addTail sweep
  rfl

theorem build_keys (w : Wal) : ∀ (segs acc res : List (SegS × Rdr)) (b : Bool),
    Wal.reopen.build w segs acc = some (res, b) → res.map skey = acc.reverse.map skey ++ segs.map skey := by
  intro segs
  induction segs with
  | nil =>
    intro acc res b h
    simp only [Wal.reopen.build, Option.some.injEq, Prod.mk.injEq] at h
    rw [← h.1]; simp
  | cons a l ih =>
    intro acc res b h
    obtain ⟨s, r⟩ := a
    unfold Wal.reopen.build at h
    split at h
    · cases h
    · split at h
      · split at h
        · cases h
        · rename_i hemp
          simp only [Option.some.injEq, Prod.mk.injEq] at h
          have hl : l = [] := by simpa using hemp
          rw [← h.1, hl]
          simp [skey]
      · split at h
        · cases h
        · split at h
          · cases h
          · have := ih _ _ _ h
            rw [this]
            simp [skey]

theorem addTail_tr (w : Wal) (rt : Bool) : Tr w (addTail w rt) ∧ (addTail w rt).ctr = w.ctr ∧
    (addTail w rt).closed = w.closed := by
  unfold addTail
  split
  · rename_i s r htl
    split
    · rename_i hcond
      refine ⟨⟨rfl, WExt.refl _, ?_⟩, rfl, rfl⟩
      intro hd
      exfalso
      apply hcond.2
      have hmem : (s, r) ∈ w.segs := List.mem_of_getLast? htl
      have e := hd.eq
      rw [keep_nil] at e
      have : skey (s, r) ∈ w.files.map fkey := by rw [e]; exact List.mem_map.mpr ⟨_, hmem, rfl⟩
      obtain ⟨f, hf, hfe⟩ := List.mem_map.mp this
      rw [List.any_eq_true]
      simp only [fkey, skey, Prod.mk.injEq] at hfe
      exact ⟨f, hf, by simp [hfe.1, hfe.2]⟩
    · exact ⟨Tr.refl _, rfl, rfl⟩
  · exact ⟨Tr.refl _, rfl, rfl⟩

theorem sweep_tr (w : Wal) : Tr w (sweep w) := by
  refine ⟨rfl, WExt.refl _, ?_⟩
  intro hd
  have : (sweep w).files = w.files := by
    simp only [sweep, List.filter_eq_self]
    intro f hf
    have e := hd.eq
    rw [keep_nil] at e
    have : fkey f ∈ w.keys := by rw [← e]; exact List.mem_map.mpr ⟨f, hf, rfl⟩
    obtain ⟨s, hs, hse⟩ := List.mem_map.mp this
    rw [List.any_eq_true]
    simp only [fkey, skey, Prod.mk.injEq] at hse
    exact ⟨s, hs, by simp [hse.1]⟩
  unfold DirEq at hd ⊢
  rw [this]
  exact hd

theorem reopen_tr {w w' : Wal} (h : w.reopen = some w') :
    Tr w w' ∧ w'.ctr = w.ctr ∧ w'.closed = false := by
  rw [reopen_eq] at h
  split at h
  · cases h
  · rename_i segs rt hb
    have hk := build_keys w _ _ _ _ hb
    simp only [List.reverse_nil, List.map_nil, List.nil_append] at hk
    have h0 : Tr w { w with segs := segs, closed := false } := Tr.of_same rfl rfl hk rfl
    obtain ⟨a1, a2, a3⟩ := addTail_tr { w with segs := segs, closed := false } rt
    split at h
    · simp only [Option.map_some, Option.some.injEq] at h
      subst h
      exact ⟨(h0.trans a1).trans (sweep_tr _), a2, a3⟩
    · cases hcn : (addTail { w with segs := segs, closed := false } rt).createNext 0 with
      | none => rw [hcn] at h; cases h
      | some w2 =>
        rw [hcn] at h
        simp only [Option.map_some, Option.some.injEq] at h
        subst h
        have hf := createNext_frame hcn
        exact ⟨((h0.trans a1).trans (createNext_tr hcn)).trans (sweep_tr _),
          by show w2.ctr = w.ctr; rw [hf.2.1, a2], by show w2.closed = false; rw [hf.2.2.1, a3]⟩

/-- the initial state satisfies the directory invariant and has all counters at zero -/
theorem init_dir {cfg : WalCfg} {w0 : Wal} (h0 : Wal.init cfg = some w0) :
    DirEq w0 ∧ w0.ctr = {} ∧ w0.stable = [] := by
  unfold Wal.init at h0
  obtain ⟨t, c, _⟩ := reopen_tr h0
  refine ⟨t.dir ?_, c, t.stable⟩
  refine ⟨rfl, by simp [Wal.keys], by simp [Wal.keys], by simp, by simp⟩

/-! ## the other calls -/

theorem getLog_tr (w : Wal) (i : Nat) : Tr w (w.getLog i).1 := by
  unfold Wal.getLog
  split
  · exact Tr.refl _
  · simp only
    split <;> exact Tr.of_same rfl rfl rfl rfl

theorem step_tr (w : Wal) (op : Op) : Tr w (w.step op).1 := by
  cases op with
  | store logs => rw [step_store_eq]; exact (storeLogs_tr w logs).1
  | del mn mx => rw [step_del_eq]; exact deleteRange_tr w mn mx
  | get i => exact getLog_tr w i
  | first => exact Tr.refl _
  | last => exact Tr.refl _
  | close => exact Tr.of_same rfl rfl rfl rfl
  | reopen =>
    simp only [Wal.step]
    split
    · rename_i w' h; exact (reopen_tr h).1
    · exact Tr.of_same rfl rfl rfl rfl

theorem setStable_same (w : Wal) (k : Bytes) (v : Option Bytes) :
    (w.setStable k v).1.segs = w.segs ∧ (w.setStable k v).1.files = w.files ∧
    (w.setStable k v).1.nextID = w.nextID ∧ (w.setStable k v).1.closed = w.closed ∧
    (w.setStable k v).1.cfg = w.cfg := by
  unfold Wal.setStable
  split <;> exact ⟨rfl, rfl, rfl, rfl, rfl⟩

theorem getStable_same (w : Wal) (k : Bytes) :
    (w.getStable k).1.segs = w.segs ∧ (w.getStable k).1.files = w.files ∧
    (w.getStable k).1.nextID = w.nextID ∧ (w.getStable k).1.closed = w.closed ∧
    (w.getStable k).1.cfg = w.cfg ∧ (w.getStable k).1.stable = w.stable := by
  unfold Wal.getStable
  split <;> exact ⟨rfl, rfl, rfl, rfl, rfl, rfl⟩

theorem getUint64_fst (w : Wal) (k : Bytes) : (w.getUint64 k).1 = (w.getStable k).1 := by
  unfold Wal.getUint64
  split
  · rename_i w' e h; rw [h]
  · rename_i w' h; rw [h]
  · rename_i w' raw h
    rw [h]
    split
    · rfl
    · split <;> rfl

/-- one call of the extended language: ids stay fresh and the directory invariant is kept -/
theorem xstep_ext_dir (w : Wal) (op : XOp) : WExt w (w.xstep op).1 ∧ (DirEq w → DirEq (w.xstep op).1) := by
  have same : ∀ w' : Wal, w'.segs = w.segs → w'.files = w.files → w'.nextID = w.nextID →
      WExt w w' ∧ (DirEq w → DirEq w') := by
    intro w' h1 h2 h3
    have hk : w'.keys = w.keys := by simp [Wal.keys, h1]
    refine ⟨?_, ?_⟩
    · unfold WExt; rw [h3, hk]; exact Ext.refl _ _
    · intro h; unfold DirEq at h ⊢; rw [h3, hk, h2]; exact h
  cases op with
  | log op => exact ⟨(step_tr w op).ext, (step_tr w op).dir⟩
  | set k v =>
    obtain ⟨h1, h2, h3, _⟩ := setStable_same w k v
    exact same _ h1 h2 h3
  | setu k v =>
    obtain ⟨h1, h2, h3, _⟩ := setStable_same w k (some (putLE 8 v))
    exact same _ h1 h2 h3
  | getk k =>
    obtain ⟨h1, h2, h3, _⟩ := getStable_same w k
    exact same _ h1 h2 h3
  | getu k =>
    obtain ⟨h1, h2, h3, _⟩ := getStable_same w k
    simp only [Wal.xstep]
    rw [getUint64_fst]
    exact same _ h1 h2 h3

end RaftWal
