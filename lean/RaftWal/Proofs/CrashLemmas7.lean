/-
  Proofs/CrashLemmas7.lean — visibility lemmas; committing a rotation preserves `Rec`.
-/
import RaftWal.Proofs.CrashLemmas6
namespace RaftWal.Crash

theorem visF_unsealed {f : File} {t : Seg} (h : t.sealed = false) : visF f t = visU t.min f.base f.content := by
  unfold visF visU segVis
  simp [h]

theorem visF_sealed (f : File) (t : Seg) (mx : Nat) :
    visF f { t with sealed := true, max := mx } = (visU t.min f.base f.content).filter (fun p => decide (p.1 ≤ mx)) := by
  unfold visF visU segVis
  simp only [Bool.not_true, Bool.false_or, List.filter_filter]
  congr 1; funext p; exact Bool.and_comm _ _

theorem mem_visU {mn b : Nat} {c : List Entry} {p : Nat × Entry} (h : p ∈ visU mn b c) :
    mn ≤ p.1 ∧ b ≤ p.1 ∧ p.1 < b + c.length := by
  unfold visU at h
  simp only [List.mem_filter, decide_eq_true_eq] at h
  have := mem_idxFrom h.1
  exact ⟨h.2, this.1, this.2⟩

theorem visF_sealed_full (f : File) (t : Seg) (mx : Nat) (h : f.base + f.content.length ≤ mx + 1) :
    visF f { t with sealed := true, max := mx } = visU t.min f.base f.content := by
  rw [visF_sealed]
  apply List.filter_eq_self.2
  intro p hp
  have := mem_visU hp
  simp only [decide_eq_true_eq]; omega

theorem chainOK_retail {P : List Seg} {t t' : Seg} (h : chainOK (P ++ [t]) = true) (hb : t'.base = t.base)
    (hm : t'.min = t.min) : chainOK (P ++ [t']) = true := by
  rw [chainOK_append] at h ⊢
  refine ⟨h.1, by simp, ?_⟩
  intro a b ha hb'
  simp only [List.head?_cons, Option.some.injEq] at hb'
  subst hb'
  have := h.2.2 a t ha rfl
  rw [hb, hm]; exact this

theorem Rec.rotate {A A' : Log → Prop} {d : Disk} {P : List Seg} {t : Seg} (h : Rec A d P t) {f : File}
    (hf : d.file? t.id = some f) (hss : f.sealedS = true) (mx : Nat) (hmn : t.min ≤ mx)
    (hmx : mx < f.base + f.synced.length) (st : List (Nat × Nat))
    (ha : A' (logP d P ++ visF f { t with sealed := true, max := mx })) :
    Rec A' (d.apply (.commit ⟨d.md.nextID + 1, P ++ [{ t with sealed := true, max := mx }] ++ [newSeg d.md.nextID (mx + 1)], st⟩))
      (P ++ [{ t with sealed := true, max := mx }]) (newSeg d.md.nextID (mx + 1)) := by
  have hb := h.base
  have hr := h.tsome f hf
  have hs := hr.ss hss
  have hlk : f.linked = true := by
    rcases hr.lk with h1 | h1
    · exact h1
    · rw [hss] at h1; cases h1.2
  have hnone : d.file? d.md.nextID = none := by
    rw [file?_none_iff]; intro hc; exact Nat.lt_irrefl _ (hb.fidlt _ hc)
  refine ⟨⟨rfl, ?_, ?_, ?_, ?_, hb.nodupF, ?_, rfl, Nat.le_refl _, by simp [newSeg], hb.hl⟩, ?_, ?_⟩
  · intro s hs'
    simp only [List.mem_append, List.mem_cons, List.not_mem_nil, or_false] at hs'
    rcases hs' with hs' | rfl
    · exact hb.sealed s hs'
    · exact ⟨f, hf, ⟨hr.base, hs.1, hs.2.1, hb.tbm, hb.tb1, rfl, hss, hlk, hmn, hmx⟩⟩
  · rw [chainOK_append]
    refine ⟨chainOK_retail hb.chain rfl rfl, by simp, ?_⟩
    intro a b ha' hb'
    simp only [List.getLast?_append, List.getLast?_singleton, Option.some_or, Option.some.injEq] at ha'
    simp only [List.head?_cons, Option.some.injEq] at hb'
    subst ha' hb'
    simp [newSeg]
  · have := hb.nodupS
    simp only [List.map_append, List.map_cons, List.map_nil] at this ⊢
    refine List.nodup_append.2 ⟨this, by simp, ?_⟩
    intro a ha' c hc
    simp only [List.mem_cons, List.not_mem_nil, or_false] at hc
    subst hc
    intro e
    have hlt : a < d.md.nextID := by
      simp only [List.mem_append, List.mem_map, List.mem_cons, List.not_mem_nil, or_false] at ha'
      rcases ha' with ⟨s, hs', rfl⟩ | rfl
      · exact hb.idlt s (by simp [hs'])
      · exact hb.idlt t (by simp)
    simp [newSeg] at e; omega
  · intro s hs'
    simp only [List.mem_append, List.mem_cons, List.not_mem_nil, or_false, apply_commit_md] at hs' ⊢
    rcases hs' with (hs' | rfl) | rfl
    · have := hb.idlt s (by simp [hs']); omega
    · have := hb.idlt t (by simp); simp; omega
    · simp [newSeg]
  · intro j hj; have := hb.fidlt j hj; simp only [apply_commit_md]; omega
  · intro g hg
    simp only [apply_commit_file?, newSeg, hnone] at hg; cases hg
  · intro _
    refine ⟨rfl, ?_⟩
    have : logP (d.apply (.commit ⟨d.md.nextID + 1, P ++ [{ t with sealed := true, max := mx }] ++ [newSeg d.md.nextID (mx + 1)], st⟩))
        (P ++ [{ t with sealed := true, max := mx }]) = logP d P ++ visF f { t with sealed := true, max := mx } := by
      rw [logP_append, logP_single]
      congr 1
      exact segEntries_some (by simpa using hf)
    rw [this]; exact ha

end RaftWal.Crash
