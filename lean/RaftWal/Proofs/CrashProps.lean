/-
  Proofs/CrashProps.lean — crash safety of the WAL's durability protocol (Model/Crash.lean), for EVERY quiescent
  state, EVERY legal call, EVERY crash point inside it, EVERY kind of crash (process crash; power loss with any
  choice of which un-fsynced batches and which un-fsynced directory entries survive), and EVERY sequence of
  recoveries that are themselves cut by further crashes.
  Helper lemmas are in Proofs/CrashLemmas1.lean … CrashLemmas26.lean.

  STATUS.  Proved exactly as stated: `init_quiescent`, `prog_has_ack`, `stable_crash_safe`, `restart_identity`,
  `quiescent_dir_exact`, the non-vacuity `example`.
  FALSE as stated (the executable invariant `Quiescent` is too weak: it admits two kinds of states no run of the
  model reaches): `call_refines`, `open_never_fails`, `crash_safe`.  For each of them the original statement is kept
  as a `def …_stmt : Prop`, its negation is proved (`…_refuted`, concrete counterexamples evaluated by `decide`), and
  the corrected theorem (`…_corrected`) is proved under `QuiescentS` = `Quiescent` plus
    (H1) every file whose handle has completed a Sync has a durable directory entry
         (`f.hsynced = true → f.linked = true`), and
    (H2) a non-empty tail file shows at least its last entry (`t.min < f.base + f.synced.length`).
  `QuiescentS` is itself inductive: it holds after Open on the empty directory (`init_quiescentS`), after every
  completed legal call (`call_refines_corrected`), and after every recovery (`crash_safe_corrected`,
  `restart_identity_S`), so both are facts about every state the model reaches — not protocol bugs.
  Both are needed: `crash_safe_refuted` drops H1 (keeps H2), `crash_safe_refuted'` drops H2 (keeps H1).
-/
import RaftWal.Proofs.CrashLemmas26
namespace RaftWal.Crash

instance (d : Disk) : Decidable (Quiescent d) := by unfold Quiescent; infer_instance
instance (d : Disk) (op : Op) : Decidable (op.ok d) := by cases op <;> unfold Op.ok <;> infer_instance

theorem tailVisB_iff (t : Seg) (f : File) :
    tailVisB t f = true ↔ (f.synced ≠ [] → t.min < f.base + f.synced.length) := by
  unfold tailVisB
  by_cases h : f.synced = []
  · simp [h]
  · simp [h]

theorem quiescentSB_iff (d : Disk) : quiescentSB d = true ↔ QuiescentS d := by
  unfold quiescentSB QuiescentS Quiescent
  simp only [Bool.and_eq_true, List.all_eq_true, Bool.or_eq_true, Bool.not_eq_eq_eq_not, Bool.not_true]
  constructor
  · rintro ⟨⟨h1, h2⟩, h3⟩
    refine ⟨h1, ?_, ?_⟩
    · intro f hf hh
      rcases h2 f hf with h | h
      · rw [hh] at h; cases h
      · exact h
    · intro t f ht hf
      rw [ht] at h3
      simp only [hf] at h3
      exact (tailVisB_iff t f).1 h3
  · rintro ⟨h1, h2, h3⟩
    refine ⟨⟨h1, ?_⟩, ?_⟩
    · intro f hf
      cases hh : f.hsynced with
      | false => exact Or.inl rfl
      | true => exact Or.inr (h2 f hf hh)
    · cases ht : d.md.segs.getLast? with
      | none => rfl
      | some t =>
        cases hf : d.file? t.id with
        | none => simp only [hf]
        | some f => simp only [hf]; exact (tailVisB_iff t f).2 (h3 t f ht hf)

/-- the state Open leaves on an empty directory -/
def disk0 : Disk :=
  { md := { nextID := 1, segs := [newSeg 0 1], stable := [] },
    files := [{ id := 0, base := 1, synced := [], pending := [], sealedS := false, sealedP := false, linked := false,
                hsynced := false }] }

theorem open_empty : openResult emptyDisk = some disk0 := by decide

/-- Open on an empty directory succeeds and yields a quiescent, empty log -/
theorem init_quiescent : ∃ d, openResult emptyDisk = some d ∧ Quiescent d ∧ absLog d = [] :=
  ⟨disk0, open_empty, by decide, by decide⟩

/-- … and the state it leaves also satisfies the two extra facts -/
theorem init_quiescentS : ∃ d, openResult emptyDisk = some d ∧ QuiescentS d ∧ absLog d = [] :=
  ⟨disk0, open_empty, ⟨by decide, by decide, by
    intro t f ht hf
    cases ht
    cases hf
    intro hc; exact absurd rfl hc⟩, by decide⟩

/-! ### `call_refines` -/

/-- **functional correctness of a completed call** — the ORIGINAL statement: it leaves a quiescent state whose log is
    the specification's.  False as stated, see `call_refines_refuted`. -/
def call_refines_stmt : Prop :=
  ∀ (d : Disk) (_hq : Quiescent d) (op : Op) (_hok : op.ok d),
    Quiescent (d.applyAll (prog d op)) ∧ absLog (d.applyAll (prog d op)) = specApply (absLog d) op

/-- counterexample without H1: an empty tail file whose directory entry is not durable although its handle claims a
    completed Sync (no run produces this: the first Sync of a handle fsyncs the directory) -/
def cexA : Disk :=
  { md := { nextID := 1, segs := [newSeg 0 1], stable := [] },
    files := [{ id := 0, base := 1, synced := [], pending := [], sealedS := false, sealedP := false, linked := false,
                hsynced := true }] }

/-- counterexample without H2: a single tail segment whose `min` hides everything its non-empty file holds (no run
    produces this: a head truncation that removes everything replaces the tail) -/
def cexB : Disk :=
  { md := { nextID := 1, segs := [{ id := 0, base := 1, min := 2, max := 0, sealed := false }], stable := [] },
    files := [{ id := 0, base := 1, synced := [5], pending := [], sealedS := false, sealedP := false, linked := true,
                hsynced := false }] }

theorem cexA_quiescent : Quiescent cexA := by decide
theorem cexB_quiescent : Quiescent cexB := by decide

/-- from `cexA`, StoreLogs(1,[7]) ends in a state that is not quiescent (acknowledged entries in a file whose
    directory entry is not durable) -/
theorem call_refines_refuted : ¬ call_refines_stmt := by
  intro h
  have := (h cexA (by decide) (.store 1 [7] false) (by decide)).1
  revert this; decide

/-- from `cexB`, StoreLogs(1,[7]) yields the log [(2,7)] instead of [(1,7)] -/
theorem call_refines_refuted' : ¬ call_refines_stmt := by
  intro h
  have := (h cexB (by decide) (.store 1 [7] false) (by decide)).2
  revert this; decide

/-- **functional correctness of a completed call** (corrected): from a `QuiescentS` state it leaves a `QuiescentS`
    state whose log is the specification's -/
theorem call_refines_corrected (d : Disk) (hq : QuiescentS d) (op : Op) (hok : op.ok d) :
    QuiescentS (d.applyAll (prog d op)) ∧ absLog (d.applyAll (prog d op)) = specApply (absLog d) op := by
  obtain ⟨P, t, f, h⟩ := (quiescentS_iff d).1 hq
  obtain ⟨pre, post, hc⟩ := call_res h op hok
  exact ⟨(quiescentS_iff _).2 hc.final, hc.log⟩

/-- every program of a legal call contains the point at which it returns -/
theorem prog_has_ack (d : Disk) (hq : Quiescent d) (op : Op) (hok : op.ok d) : ackPos (prog d op) < (prog d op).length :=
  prog_has_ack_core hq op hok

/-! ### `open_never_fails` -/

/-- **C03 at the protocol level — recovery never fails** — the ORIGINAL statement.  False as stated. -/
def open_never_fails_stmt : Prop :=
  ∀ (d : Disk) (_hq : Quiescent d) (op : Op) (_hok : op.ok d) (k : Nat) (c : CrashKind)
    (d1 : Disk) (_hr : ReachRec (crashAfter d (prog d op) k c) d1), (openProg d1).isSome

/-- from `cexA`, a sealing StoreLogs(1,[7]), power loss right after the rotation's meta commit (4 actions), the not
    durable directory entry lost: the meta store lists a sealed segment whose file is gone, Open refuses -/
theorem open_never_fails_refuted : ¬ open_never_fails_stmt := by
  intro h
  have := h cexA (by decide) (.store 1 [7] true) (by decide) 4 (.power (fun _ => false) (fun _ => false)) _
    (ReachRec.refl _)
  revert this; decide

/-- **recovery never fails** (corrected): from the image of any crash inside any legal call on a `QuiescentS` state
    (k = 0: a crash between calls), after any number of recoveries cut short by further crashes, Open succeeds -/
theorem open_never_fails_corrected (d : Disk) (hq : QuiescentS d) (op : Op) (hok : op.ok d) (k : Nat) (c : CrashKind)
    (d1 : Disk) (hr : ReachRec (crashAfter d (prog d op) k c) d1) : (openProg d1).isSome := by
  obtain ⟨P, t, f, h⟩ := (quiescentS_iff d).1 hq
  exact open_isSome (crash_reach h op hok k c hr)

/-! ### `crash_safe` -/

/-- **C01/C02/C04 at the protocol level — crash atomicity and durability** — the ORIGINAL statement.  False as stated. -/
def crash_safe_stmt : Prop :=
  ∀ (d : Disk) (_hq : Quiescent d) (op : Op) (_hok : op.ok d) (k : Nat) (c : CrashKind)
    (d1 d' : Disk) (_hr : ReachRec (crashAfter d (prog d op) k c) d1) (_ho : openResult d1 = some d'),
    Quiescent d' ∧
    (absLog d' = absLog d ∨ absLog d' = specApply (absLog d) op) ∧
    (ackPos (prog d op) < k → absLog d' = specApply (absLog d) op)

/-- what Open leaves after `cexA`, StoreLogs(1,[7]) run to completion (3 actions, acknowledged), power loss that loses
    the not durable directory entry: an empty log -/
def cexA' : Disk :=
  { md := { nextID := 1, segs := [newSeg 0 1], stable := [] },
    files := [{ id := 0, base := 1, synced := [], pending := [], sealedS := false, sealedP := false, linked := false,
                hsynced := false }] }

/-- without H1 an acknowledged append is lost -/
theorem crash_safe_refuted : ¬ crash_safe_stmt := by
  intro h
  have := (h cexA (by decide) (.store 1 [7] false) (by decide) 3 (.power (fun _ => false) (fun _ => false)) _ cexA'
    (ReachRec.refl _) (by decide)).2.2
  revert this; decide

/-- what Open leaves after `cexB`, StoreLogs(1,[7]) run to completion, process crash -/
def cexB' : Disk :=
  { md := { nextID := 1, segs := [{ id := 0, base := 1, min := 2, max := 0, sealed := false }], stable := [] },
    files := [{ id := 0, base := 1, synced := [5, 7], pending := [], sealedS := false, sealedP := false, linked := true,
                hsynced := true }] }

/-- without H2 the recovered log, [(2,7)], is neither the log before the call nor the log after it -/
theorem crash_safe_refuted' : ¬ crash_safe_stmt := by
  intro h
  have := (h cexB (by decide) (.store 1 [7] false) (by decide) 3 .proc _ cexB' (ReachRec.refl _) (by decide)).2.1
  revert this; decide

/-- **crash atomicity and durability** (corrected): whatever the crash point, the crash kind and the recovery
    history, the state the completing Open leaves is `QuiescentS` (so the log is usable and further calls and crashes
    are covered by the same theorems), its log is the log before the call or the log after it — never anything else —
    and it is the log after the call once the call had returned -/
theorem crash_safe_corrected (d : Disk) (hq : QuiescentS d) (op : Op) (hok : op.ok d) (k : Nat) (c : CrashKind)
    (d1 d' : Disk) (hr : ReachRec (crashAfter d (prog d op) k c) d1) (ho : openResult d1 = some d') :
    QuiescentS d' ∧
    (absLog d' = absLog d ∨ absLog d' = specApply (absLog d) op) ∧
    (ackPos (prog d op) < k → absLog d' = specApply (absLog d) op) := by
  obtain ⟨P, t, f, h⟩ := (quiescentS_iff d).1 hq
  obtain ⟨hqs, ha, _⟩ := open_final (crash_reach h op hok k c hr) ho
  exact ⟨(quiescentS_iff _).2 hqs, ha.1, ha.2⟩

/-- in particular the recovered state is `Quiescent` in the original, executable sense -/
theorem crash_safe_corrected_quiescent (d : Disk) (hq : QuiescentS d) (op : Op) (hok : op.ok d) (k : Nat)
    (c : CrashKind) (d1 d' : Disk) (hr : ReachRec (crashAfter d (prog d op) k c) d1) (ho : openResult d1 = some d') :
    Quiescent d' :=
  (crash_safe_corrected d hq op hok k c d1 d' hr ho).1.1

set_option linter.unusedVariables false in
/-- **C08 at the protocol level**: the stable store after recovery is the one before the call or the one after it,
    and the one after it once the call had returned; calls other than `set` never change it -/
theorem stable_crash_safe (d : Disk) (hq : Quiescent d) (op : Op) (hok : op.ok d) (k : Nat) (c : CrashKind)
    (d1 d' : Disk) (hr : ReachRec (crashAfter d (prog d op) k c) d1) (ho : openResult d1 = some d') :
    (d'.md.stable = d.md.stable ∨ d'.md.stable = (d.applyAll (prog d op)).md.stable) ∧
    (ackPos (prog d op) < k → d'.md.stable = (d.applyAll (prog d op)).md.stable) := by
  have e : d'.md.stable = (d.applyAll ((prog d op).take k)).md.stable := by
    rw [openResult_stable ho, reach_stable hr]
    unfold crashAfter
    rw [crash_md]
  rw [e]
  exact prog_stable d op k

/-- a clean restart (no crash inside any call) changes nothing -/
theorem restart_identity (d : Disk) (hq : Quiescent d) :
    ∃ d', openResult (d.crash .proc) = some d' ∧ Quiescent d' ∧ absLog d' = absLog d ∧ d'.md.stable = d.md.stable :=
  restart_core hq

/-- … and it preserves the two extra facts -/
theorem restart_identity_S (d : Disk) (hq : QuiescentS d) :
    ∃ d', openResult (d.crash .proc) = some d' ∧ QuiescentS d' ∧ absLog d' = absLog d ∧ d'.md.stable = d.md.stable := by
  obtain ⟨d', ho, _, hl, hs⟩ := restart_core hq.1
  have hr : ReachRec (crashAfter d (prog d (.set 0 0)) 0 .proc) (d.crash .proc) := ReachRec.refl _
  exact ⟨d', ho, (crash_safe_corrected d hq (.set 0 0) trivial 0 .proc _ d' hr ho).1, hl, hs⟩

/-- **C13 at the protocol level**: a quiescent state holds exactly the files of the segments the meta store lists,
    and every identifier in use is below NextSegmentID -/
theorem quiescent_dir_exact (d : Disk) (hq : Quiescent d) :
    (∀ f ∈ d.files, ∃ s ∈ d.md.segs, s.id = f.id) ∧ (∀ s ∈ d.md.segs, (d.file? s.id).isSome) ∧
    (∀ s ∈ d.md.segs, s.id < d.md.nextID) := by
  obtain ⟨P, t, h⟩ := (quiescent_iff d).1 hq
  rw [h.segs]
  refine ⟨h.sub, ?_, h.idlt⟩
  intro s hs
  simp only [List.mem_append, List.mem_cons, List.not_mem_nil, or_false] at hs
  rcases hs with hs | rfl
  · obtain ⟨f, hf, _⟩ := h.sealed s hs; simp [hf]
  · obtain ⟨f, hf, _⟩ := h.tail; simp [hf]

/-! ### non-vacuity: a concrete history meets the hypotheses -/

/-- after Open, two appends (the second sealing the tail), a crash in the middle of the rotation, and recovery -/
example : ∃ d0 d1, openResult emptyDisk = some d0 ∧ Quiescent d0 ∧ (Op.store 1 [7, 8] false).ok d0 ∧
    d1 = d0.applyAll (prog d0 (.store 1 [7, 8] false)) ∧ Quiescent d1 ∧ (Op.store 3 [9] true).ok d1 ∧
    absLog d1 = [(1, 7), (2, 8)] :=
  ⟨disk0, _, open_empty, by decide, by decide, rfl, by decide, by decide, by decide⟩

end RaftWal.Crash
