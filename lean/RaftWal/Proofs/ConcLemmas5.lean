/-
  Proofs/ConcLemmas5.lean — the global invariant is preserved by every step of Close.
-/
import RaftWal.Proofs.ConcLemmas4
namespace RaftWal.Conc

theorem inv_c_idle {s : Sys} (h : Inv s) (hc : s.cpc = .idle) : Inv { s with closed := true, cpc := .flagged } := by
  have hp : pendingAdds { s with closed := true, cpc := .flagged } = pendingAdds s := rfl
  constructor
  case toOInv => exact oinv_congr h.toOInv rfl rfl rfl rfl
  case lock_iff => have := h.lock_iff; rw [hc] at this; exact this
  case excl => simp [cLocked]
  case rc =>
    intro k
    have := h.rc k
    simp only [holders', hc] at this ⊢
    exact this
  case fin_unset =>
    intro k hk hf
    have := h.fin_unset k hk hf
    simp only [hc] at this
    rcases this with h1 | h1
    · exact Or.inl h1
    · simp at h1
  case c_empty => simp [cPublished]
  all_goals first | inv_field h | (intro x hx; simp at hx; done) | simp

theorem inv_c_flagged {s : Sys} (h : Inv s) (hc : s.cpc = .flagged) (hl : s.lock = false) :
    Inv { s with lock := true, cpc := .locked } := by
  have hp : pendingAdds { s with lock := true, cpc := .locked } = pendingAdds s := rfl
  have hwi : s.wpc = .idle := by
    have := h.lock_iff
    rw [hl, hc] at this
    cases hw : s.wpc <;> simp [hw, wActive, cLocked] at this
    rfl
  have hcl : s.closed = true := h.c_nidle (by rw [hc]; simp)
  constructor
  case toOInv => exact oinv_congr h.toOInv rfl rfl rfl rfl
  case lock_iff => simp [cLocked]
  case excl => intro _; exact hwi
  case rc =>
    intro k
    have := h.rc k
    simp only [holders', hc] at this ⊢
    exact this
  case fin_unset =>
    intro k hk hf
    have := h.fin_unset k hk hf
    simp [hc, hwi] at this
  case c_empty => simp [cPublished]
  case c_nidle => intro _; exact hcl
  all_goals first | inv_field h | (intro x hx; simp at hx; done) | simp

theorem inv_c_locked {s : Sys} (h : Inv s) (hc : s.cpc = .locked) :
    Inv { (s.setObj s.cur { s.obj s.cur with refCount := (s.obj s.cur).refCount + 1 }) with cpc := .held s.cur } := by
  generalize hs' : ({ (s.setObj s.cur { s.obj s.cur with refCount := (s.obj s.cur).refCount + 1 }) with
    cpc := .held s.cur } : Sys) = s'
  have hcl := h.cur_last
  have hlt : s.cur < s.objs.length := by omega
  have hwi : s.wpc = .idle := h.excl (by rw [hc]; simp [cLocked])
  have hclo : s.closed = true := h.c_nidle (by rw [hc]; simp)
  have hobj : ∀ k, s'.obj k = if k = s.cur then { s.obj s.cur with refCount := (s.obj s.cur).refCount + 1 }
      else s.obj k := by
    intro k; subst hs'
    have := obj_setObj s s.cur k { s.obj s.cur with refCount := (s.obj s.cur).refCount + 1 }
    simp only [hlt, and_true] at this
    exact this
  have hfiles : ∀ k, (s'.obj k).files = (s.obj k).files := by
    intro k; rw [hobj]; split
    · next hk => rw [hk]
    · rfl
  have hfin : ∀ k, (s'.obj k).fin = (s.obj k).fin := by
    intro k; rw [hobj]; split
    · next hk => rw [hk]
    · rfl
  have hlen : s'.objs.length = s.objs.length := by subst hs'; simp
  have hcur : s'.cur = s.cur := by subst hs'; rfl
  have hclosed : s'.closed = s.closed := by subst hs'; rfl
  have hlock : s'.lock = s.lock := by subst hs'; rfl
  have hrd : s'.readers = s.readers := by subst hs'; rfl
  have hwpc : s'.wpc = s.wpc := by subst hs'; rfl
  have hcpc : s'.cpc = .held s.cur := by subst hs'; rfl
  have hp : pendingAdds s' = pendingAdds s := by subst hs'; rfl
  have ho : OInv s' := by
    subst hs'; exact oinv_congr (oinv_rcInc h.toOInv s.cur) rfl rfl rfl rfl
  clear hs'
  constructor
  case toOInv => exact ho
  case rsid => rw [hrd, hlen]; exact h.rsid
  case w_held => intro x hx; rw [hwpc, hwi] at hx; simp at hx
  case w_pub => intro x hx; rw [hwpc, hwi] at hx; simp at hx
  case w_fin => intro x hx; rw [hwpc, hwi] at hx; simp at hx
  case c_idle => intro hx; rw [hcpc] at hx; simp at hx
  case c_nidle => intro _; rw [hclosed]; exact hclo
  case c_held => intro x hx; rw [hcpc] at hx; injection hx with hx; rw [hcur, hx]
  case c_pub => intro x hx; rw [hcpc] at hx; simp at hx
  case c_fin => intro x hx; rw [hcpc] at hx; simp at hx
  case c_empty => intro hx; rw [hcpc] at hx; simp [cPublished] at hx
  case lock_iff =>
    have := h.lock_iff
    rw [hlock, hwpc, hcpc, this, hc]; simp [cLocked]
  case excl => intro _; rw [hwpc]; exact hwi
  case rc =>
    intro k
    have := h.rc k
    simp only [holders', hc, cHolds] at this
    simp only [holders', hrd, hwpc, hcpc, cHolds, hobj]
    by_cases hk : k = s.cur
    · subst hk; simp; omega
    · have : ¬ s.cur = k := fun e => hk e.symm
      simp [hk, this]; omega
  case fin_unset =>
    intro k hk hf
    rw [hlen] at hk; rw [hfin] at hf
    rcases h.fin_unset k hk hf with h1 | h1
    · rw [hwi] at h1; simp at h1
    · rw [hc] at h1; simp at h1
  case padds_nodup => rw [hp]; exact h.padds_nodup
  case fresh => intro k f; rw [hfiles, hp]; exact h.fresh k f

theorem inv_c_held {s : Sys} (h : Inv s) (sid : Nat) (hc : s.cpc = .held sid) :
    Inv { s with objs := s.objs ++ [{ empty := true }], cur := s.objs.length, cpc := .published sid } := by
  generalize hs' :
    ({ s with objs := s.objs ++ [{ empty := true }], cur := s.objs.length, cpc := .published sid } : Sys) = s'
  have hcl := h.cur_last
  have hsid : sid = s.cur := h.c_held sid hc
  have hlt : s.cur < s.objs.length := by omega
  have hwi : s.wpc = .idle := h.excl (by rw [hc]; simp [cLocked])
  have hclo : s.closed = true := h.c_nidle (by rw [hc]; simp)
  have hobj : ∀ k, s'.obj k = if k = s.objs.length then { empty := true } else s.obj k := by
    intro k; subst hs'; exact obj_append s k { empty := true } s.objs.length
  have hlen : s'.objs.length = s.objs.length + 1 := by subst hs'; simp
  have hcur : s'.cur = s.objs.length := by subst hs'; rfl
  have hclosed : s'.closed = s.closed := by subst hs'; rfl
  have hlock : s'.lock = s.lock := by subst hs'; rfl
  have hrd : s'.readers = s.readers := by subst hs'; rfl
  have hwpc : s'.wpc = s.wpc := by subst hs'; rfl
  have hcpc : s'.cpc = .published sid := by subst hs'; rfl
  have hp : pendingAdds s' = pendingAdds s := by subst hs'; rfl
  have hoi : OInv s' := by
    subst hs'
    refine oinv_congr (oinv_append h.toOInv { empty := true } rfl ?_) rfl rfl rfl rfl
    intro f hf; simp at hf
  clear hs'
  constructor
  case toOInv => exact hoi
  case rsid => rw [hrd, hlen]; intro r hr x hx; have := h.rsid r hr x hx; omega
  case w_held => intro x hx; rw [hwpc, hwi] at hx; simp at hx
  case w_pub => intro x hx; rw [hwpc, hwi] at hx; simp at hx
  case w_fin => intro x hx; rw [hwpc, hwi] at hx; simp at hx
  case c_idle => intro hx; rw [hcpc] at hx; simp at hx
  case c_nidle => intro _; rw [hclosed]; exact hclo
  case c_held => intro x hx; rw [hcpc] at hx; simp at hx
  case c_pub =>
    intro x hx; rw [hcpc] at hx; injection hx with hx; subst hx
    refine ⟨by omega, ?_⟩
    rw [hobj, if_neg (by omega), hsid]; exact h.fin_cur
  case c_fin => intro x hx; rw [hcpc] at hx; simp at hx
  case c_empty => intro _; rw [hcur, hobj]; simp
  case lock_iff =>
    have := h.lock_iff
    rw [hlock, hwpc, hcpc, this, hc]; simp [cLocked]
  case excl => intro _; rw [hwpc]; exact hwi
  case rc =>
    intro k
    have := h.rc k
    simp only [holders', hc, cHolds] at this
    simp only [holders', hrd, hwpc, hcpc, cHolds, hobj]
    by_cases hk : k = s.objs.length
    · subst hk
      rw [rHolders_zero_of_lt s.readers s.objs.length _ (Nat.le_refl _) h.rsid, hwi]
      have : ¬ sid = s.objs.length := by omega
      simp [this, wHolds]
    · simp only [hk, if_false]; exact this
  case fin_unset =>
    intro k hk hf
    rw [hlen] at hk
    by_cases hks : k = sid
    · right; rw [hcpc, hks]
    · have hk' : k + 1 < s.objs.length := by omega
      rw [hobj, if_neg (by omega)] at hf
      rcases h.fin_unset k hk' hf with h1 | h1
      · rw [hwi] at h1; simp at h1
      · rw [hc] at h1; simp at h1
  case padds_nodup => rw [hp]; exact h.padds_nodup
  case fresh =>
    intro k f hf; rw [hp]
    rw [hobj] at hf
    by_cases hk : k = s.objs.length
    · simp [hk] at hf
    · simp only [hk, if_false] at hf
      exact h.fresh k f hf

theorem inv_c_published {s : Sys} (h : Inv s) (sid : Nat) (hc : s.cpc = .published sid) :
    Inv { (s.setObj sid { s.obj sid with fin := .set (s.obj sid).files }) with cpc := .finSet sid } := by
  generalize hs' : ({ (s.setObj sid { s.obj sid with fin := .set (s.obj sid).files }) with
    cpc := .finSet sid } : Sys) = s'
  have hcl := h.cur_last
  obtain ⟨hsid, hunset⟩ := h.c_pub sid hc
  have hlt : sid < s.objs.length := by omega
  have hwi : s.wpc = .idle := h.excl (by rw [hc]; simp [cLocked])
  have hclo : s.closed = true := h.c_nidle (by rw [hc]; simp)
  have hemp : (s.obj s.cur).files = [] := h.c_empty (by rw [hc]; rfl)
  have hobj : ∀ k, s'.obj k = if k = sid then { s.obj sid with fin := .set (s.obj sid).files } else s.obj k := by
    intro k; subst hs'
    have := obj_setObj s sid k { s.obj sid with fin := .set (s.obj sid).files }
    simp only [hlt, and_true] at this
    exact this
  have hfiles : ∀ k, (s'.obj k).files = (s.obj k).files := by
    intro k; rw [hobj]; split
    · next hk => rw [hk]
    · rfl
  have hrcs : ∀ k, (s'.obj k).refCount = (s.obj k).refCount := by
    intro k; rw [hobj]; split
    · next hk => rw [hk]
    · rfl
  have hlen : s'.objs.length = s.objs.length := by subst hs'; simp
  have hcur : s'.cur = s.cur := by subst hs'; rfl
  have hclosed : s'.closed = s.closed := by subst hs'; rfl
  have hlock : s'.lock = s.lock := by subst hs'; rfl
  have hrd : s'.readers = s.readers := by subst hs'; rfl
  have hwpc : s'.wpc = s.wpc := by subst hs'; rfl
  have hcpc : s'.cpc = .finSet sid := by subst hs'; rfl
  have hp : pendingAdds s' = pendingAdds s := by subst hs'; rfl
  have hrc1 : 1 ≤ (s.obj sid).refCount := by
    have := h.rc sid
    simp only [holders', hc, cHolds, if_true] at this
    omega
  have hoi : OInv s' := by
    subst hs'
    refine oinv_congr (oinv_setFin h.toOInv sid _ hsid hunset hrc1 ?_) rfl rfl rfl rfl
    intro f; rw [hsid, hemp]; simp
  clear hs'
  constructor
  case toOInv => exact hoi
  case rsid => rw [hrd, hlen]; exact h.rsid
  case w_held => intro x hx; rw [hwpc, hwi] at hx; simp at hx
  case w_pub => intro x hx; rw [hwpc, hwi] at hx; simp at hx
  case w_fin => intro x hx; rw [hwpc, hwi] at hx; simp at hx
  case c_idle => intro hx; rw [hcpc] at hx; simp at hx
  case c_nidle => intro _; rw [hclosed]; exact hclo
  case c_held => intro x hx; rw [hcpc] at hx; simp at hx
  case c_pub => intro x hx; rw [hcpc] at hx; simp at hx
  case c_fin => intro x hx; rw [hcpc] at hx; injection hx with hx; subst hx; rw [hcur]; exact hsid
  case c_empty => intro _; rw [hcur, hfiles]; exact hemp
  case lock_iff =>
    have := h.lock_iff
    rw [hlock, hwpc, hcpc, this, hc]; simp [cLocked]
  case excl => intro _; rw [hwpc]; exact hwi
  case rc =>
    intro k
    have := h.rc k
    simp only [holders', hc, cHolds] at this
    simp only [holders', hrd, hwpc, hcpc, cHolds, hrcs]
    exact this
  case fin_unset =>
    intro k hk hf
    rw [hlen] at hk
    by_cases hks : k = sid
    · rw [hobj, if_pos hks] at hf; simp at hf
    · rw [hobj, if_neg hks] at hf
      rcases h.fin_unset k hk hf with h1 | h1
      · rw [hwi] at h1; simp at h1
      · rw [hc] at h1; injection h1 with h1; exact absurd h1.symm hks
  case padds_nodup => rw [hp]; exact h.padds_nodup
  case fresh => intro k f; rw [hfiles, hp]; exact h.fresh k f

theorem inv_c_finSet {s : Sys} (h : Inv s) (sid : Nat) (hc : s.cpc = .finSet sid) :
    Inv { (s.release sid) with cpc := .done, lock := false } := by
  generalize hs' : ({ (s.release sid) with cpc := .done, lock := false } : Sys) = s'
  have hcl := h.cur_last
  have hsid : sid + 1 = s.cur := h.c_fin sid hc
  have hlt : sid < s.objs.length := by omega
  have hwi : s.wpc = .idle := h.excl (by rw [hc]; simp [cLocked])
  have hclo : s.closed = true := h.c_nidle (by rw [hc]; simp)
  have hemp : (s.obj s.cur).files = [] := h.c_empty (by rw [hc]; rfl)
  have hobj : ∀ k, s'.obj k = if k = sid then
        { s.obj sid with refCount := (s.obj sid).refCount - 1, fin := relFin s sid } else s.obj k := by
    intro k; subst hs'
    have := release_obj s sid k
    simp only [hlt, and_true] at this
    exact this
  have hfiles : ∀ k, (s'.obj k).files = (s.obj k).files := by
    intro k; rw [hobj]; split
    · next hk => rw [hk]
    · rfl
  have hlen : s'.objs.length = s.objs.length := by subst hs'; simp
  have hcur : s'.cur = s.cur := by subst hs'; simp
  have hclosed : s'.closed = s.closed := by subst hs'; simp
  have hlock : s'.lock = false := by subst hs'; rfl
  have hrd : s'.readers = s.readers := by subst hs'; simp
  have hwpc : s'.wpc = s.wpc := by subst hs'; simp
  have hcpc : s'.cpc = .done := by subst hs'; rfl
  have hp : pendingAdds s' = pendingAdds s := by
    subst hs'; simp [pendingAdds, pending]
  have hoi : OInv s' := by
    subst hs'
    exact oinv_congr (oinv_release h.toOInv sid) rfl rfl rfl rfl
  clear hs'
  constructor
  case toOInv => exact hoi
  case rsid => rw [hrd, hlen]; exact h.rsid
  case w_held => intro x hx; rw [hwpc, hwi] at hx; simp at hx
  case w_pub => intro x hx; rw [hwpc, hwi] at hx; simp at hx
  case w_fin => intro x hx; rw [hwpc, hwi] at hx; simp at hx
  case c_idle => intro hx; rw [hcpc] at hx; simp at hx
  case c_nidle => intro _; rw [hclosed]; exact hclo
  case c_held => intro x hx; rw [hcpc] at hx; simp at hx
  case c_pub => intro x hx; rw [hcpc] at hx; simp at hx
  case c_fin => intro x hx; rw [hcpc] at hx; simp at hx
  case c_empty => intro _; rw [hcur, hfiles]; exact hemp
  case lock_iff => rw [hlock, hwpc, hcpc, hwi]; simp [wActive, cLocked]
  case excl => intro _; rw [hwpc]; exact hwi
  case rc =>
    intro k
    have := h.rc k
    simp only [holders', hc, cHolds] at this
    simp only [holders', hrd, hwpc, hcpc, cHolds, hobj]
    by_cases hk : k = sid
    · subst hk; simp at this ⊢; omega
    · have : ¬ sid = k := fun e => hk e.symm
      simp_all
  case fin_unset =>
    intro k hk hf
    rw [hlen] at hk
    have hf' : (s.obj k).fin = .unset := by
      rw [hobj] at hf
      by_cases hks : k = sid
      · rw [if_pos hks] at hf
        simp only at hf
        rcases rel_cases s sid with ⟨c, _, _, hrf, _⟩ | ⟨hrf, _, _⟩
        · rw [hrf] at hf; simp at hf
        · rw [hrf] at hf; rw [hks]; exact hf
      · rw [if_neg hks] at hf; exact hf
    rcases h.fin_unset k hk hf' with h1 | h1
    · rw [hwi] at h1; simp at h1
    · rw [hc] at h1; simp at h1
  case padds_nodup => rw [hp]; exact h.padds_nodup
  case fresh => intro k f; rw [hfiles, hp]; exact h.fresh k f

theorem inv_stepCloser {s : Sys} (h : Inv s) : Inv (stepCloser s) := by
  unfold stepCloser
  split
  · next hc =>
    split
    · next hcl => have := h.c_idle hc; rw [this] at hcl; simp at hcl
    · exact inv_c_idle h hc
  · next hc =>
    split
    · exact h
    · next hl => exact inv_c_flagged h hc (by simpa using hl)
  · next hc => exact inv_c_locked h hc
  · next sid hc => exact inv_c_held h sid hc
  · next sid hc => exact inv_c_published h sid hc
  · next sid hc => exact inv_c_finSet h sid hc
  · exact h

end RaftWal.Conc
