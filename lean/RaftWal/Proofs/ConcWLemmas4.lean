/-
  Proofs/ConcWLemmas4.lean — the single-appender discipline (`step1` / `run1`): at most one sealing writer is in
  flight, so no sealing writer ever finds `awaitRotate` set when it comes to queue its rotation (`Inv3`); hence no
  step of a `run1` execution overwrites a pending channel and `Inv0`, `Inv1` hold in every state of it.
  Also: every `run1` execution is a `run` execution (of the schedule without the blocked steps).
-/
import RaftWal.Proofs.ConcWLemmas3
namespace RaftWal.ConcW

/-- a sealing writer that has started and not returned -/
def inflight (w : Writer) : Bool :=
  w.seals && w.pc != .start && !(match w.pc with | .done _ => true | _ => false)

theorem sealingInFlight_eq (s : Sys) : sealingInFlight s = s.writers.any inflight := rfl

theorem inflight_iff (w : Writer) :
    inflight w = true ↔ w.seals = true ∧ w.pc ≠ .start ∧ ∀ r, w.pc ≠ .done r := by
  unfold inflight
  cases w.seals <;> cases w.pc <;> simp

theorem inflight_set_pc (w : Writer) (pc' : WPc) :
    inflight { w with pc := pc' } = true ↔ w.seals = true ∧ pc' ≠ .start ∧ ∀ r, pc' ≠ .done r :=
  inflight_iff { w with pc := pc' }

structure Inv3 (s : Sys) : Prop where
  one : (s.writers.filter inflight).length ≤ 1
  aw_wait : ∀ w ∈ s.writers, w.seals = true → ∀ ch, w.pc = .waiting ch → s.await = some ch ∨ s.await = none
  aw_hold : ∀ w ∈ s.writers, w.seals = true → (w.pc = .relock ∨ w.pc = .check ∨ w.pc = .use) → s.await = none

theorem filter_length_zero {α} (p : α → Bool) (l : List α) (h : (l.filter p).length = 0) :
    ∀ a ∈ l, p a = false := by
  intro a ha
  cases hp : p a with
  | false => rfl
  | true => have := filter_length_pos p l a ha hp; omega

theorem sealingInFlight_false {s : Sys} (h : sealingInFlight s = false) : (s.writers.filter inflight).length = 0 := by
  rw [sealingInFlight_eq] at h
  rw [List.length_eq_zero_iff, List.filter_eq_nil_iff]
  intro w hw hp
  have : s.writers.any inflight = true := List.any_eq_true.mpr ⟨w, hw, hp⟩
  rw [h] at this; cases this

theorem sealingInFlight_true {s : Sys} (h : sealingInFlight s = true) : ∃ w ∈ s.writers, inflight w = true := by
  rw [sealingInFlight_eq] at h
  exact List.any_eq_true.mp h

/-- a thread other than a writer moved: the writers are the same and `awaitRotate` is the same or cleared -/
theorem inv3_frame (s s' : Sys) (hw : s'.writers = s.writers) (ha : s'.await = s.await ∨ s'.await = none)
    (h3 : Inv3 s) : Inv3 s' := by
  refine ⟨by rw [hw]; exact h3.one, ?_, ?_⟩
  · intro w hm hs ch hpc
    rw [hw] at hm
    rcases ha with e | e
    · rw [e]; exact h3.aw_wait w hm hs ch hpc
    · exact Or.inr e
  · intro w hm hs hpc
    rw [hw] at hm
    rcases ha with e | e
    · rw [e]; exact h3.aw_hold w hm hs hpc
    · exact e

theorem stepRotator_frame (s : Sys) :
    (stepRotator fixed s).writers = s.writers ∧
      ((stepRotator fixed s).await = s.await ∨ (stepRotator fixed s).await = none) := by
  unfold stepRotator
  cases s.rpc <;> dsimp only <;> (repeat' split) <;> simp

theorem stepCloser_frame (s : Sys) :
    (stepCloser fixed s).writers = s.writers ∧
      ((stepCloser fixed s).await = s.await ∨ (stepCloser fixed s).await = none) := by
  unfold stepCloser
  cases s.cpc <;> dsimp only <;> (repeat' split) <;> simp

/-- an ordinary transition of writer `i`; if it is the start of a sealing writer, no other is in flight -/
theorem inv3_wstep (s : Sys) (i : Nat) (w : Writer) (b : Bool) (pc' : WPc) (hw : s.writers[i]? = some w)
    (h1 : Inv1 s) (h3 : Inv3 s) (ht : WStep s w b pc')
    (hstart : w.seals = true → w.pc = .start → sealingInFlight s = false) :
    Inv3 (setW { s with lock := b } i { w with pc := pc' }) := by
  have hmem : w ∈ s.writers := mem_of_get _ _ _ hw
  have hcount := filter_set_length inflight s.writers i w { w with pc := pc' } hw
  refine ⟨?_, ?_, ?_⟩
  · show ((s.writers.set i { w with pc := pc' }).filter inflight).length ≤ 1
    have h1' := h3.one
    cases hn : inflight { w with pc := pc' } with
    | false => rw [hn] at hcount; simp at hcount; omega
    | true =>
      obtain ⟨hs, hns, hnd⟩ := (inflight_set_pc w pc').mp hn
      by_cases hst : w.pc = .start
      · have := sealingInFlight_false (hstart hs hst)
        rw [hn] at hcount; simp at hcount; omega
      · have hold : inflight w = true := by
          rw [inflight_iff]
          refine ⟨hs, hst, ?_⟩
          intro r hr
          cases ht <;> simp_all
        rw [hn, hold] at hcount; omega
  · intro w' hw' hs ch hpc
    rcases mem_set_cases _ _ _ _ hw' with e | hold
    · subst e
      cases ht with
      | wait ch' _ ha => simp at hpc; subst hpc; exact Or.inl ha
      | _ => simp at hpc
    · exact h3.aw_wait w' hold hs ch hpc
  · intro w' hw' hs hpc
    rcases mem_set_cases _ _ _ _ hw' with e | hold
    · subst e
      have hs' : w.seals = true := hs
      cases ht with
      | nowait _ ha => exact ha
      | woken ch hp hc =>
        rcases h3.aw_wait w hmem hs' ch hp with h | h
        · exact absurd hc (h1.await_ok ch h).2
        · exact h
      | relock hp _ => exact h3.aw_hold w hmem hs' (Or.inl hp)
      | checkOpen hp _ => exact h3.aw_hold w hmem hs' (Or.inr (Or.inl hp))
      | _ => simp at hpc
    · exact h3.aw_hold w' hold hs hpc

theorem inv3_seal (s : Sys) (i : Nat) (w : Writer) (hw : s.writers[i]? = some w) (h3 : Inv3 s)
    (hpc : w.pc = .use) (hs : w.seals = true) : Inv3 (sealState s i w) := by
  have hcount := filter_set_length inflight s.writers i w { w with pc := .done .ok } hw
  have hold : inflight w = true := by rw [inflight_iff]; simp [hs, hpc]
  have hnew : inflight { w with pc := .done .ok } = false := by simp [inflight]
  rw [hold, hnew] at hcount
  have h1' := h3.one
  have hz : ((s.writers.set i { w with pc := .done .ok }).filter inflight).length = 0 := by
    simp at hcount; omega
  have hnone := filter_length_zero inflight _ hz
  refine ⟨?_, ?_, ?_⟩
  · show ((s.writers.set i { w with pc := .done .ok }).filter inflight).length ≤ 1
    omega
  · intro w' hw' hs' ch hpc'
    have := hnone w' hw'
    have hin : inflight w' = true := by rw [inflight_iff]; simp [hs', hpc']
    rw [hin] at this; cases this
  · intro w' hw' hs' hpc'
    have := hnone w' hw'
    have hin : inflight w' = true := by
      rw [inflight_iff]
      rcases hpc' with h | h | h <;> simp [hs', h]
    rw [hin] at this; cases this

/-! ### step1 -/

theorem step1_writer (cfg : Cfg) (s : Sys) (i : Nat) :
    step1 cfg s (.writer i) = match s.writers[i]? with
      | some w => if w.seals && w.pc == .start && sealingInFlight s then s else step cfg s (.writer i)
      | none => s := rfl

theorem overwrites_writer (s : Sys) (i : Nat) :
    overwrites s (.writer i) = match s.writers[i]? with
      | some w => w.pc == .use && w.seals && !s.closed && s.await.isSome
      | none => false := rfl

theorem run1_cons (cfg : Cfg) (s : Sys) (t : Tid) (ts : List Tid) :
    run1 cfg s (t :: ts) = run1 cfg (step1 cfg s t) ts := rfl

/-- a step of the single-appender system is either blocked or a step of the unrestricted system in which, if it is
    the start of a sealing writer, no sealing writer is in flight -/
theorem step1_cases (s : Sys) (t : Tid) :
    step1 fixed s t = s ∨
      (step1 fixed s t = step fixed s t ∧
        ∀ i w, t = .writer i → s.writers[i]? = some w → w.seals = true → w.pc = .start →
          sealingInFlight s = false) := by
  cases t with
  | writer i =>
    rw [step1_writer]
    cases hw : s.writers[i]? with
    | none => left; rfl
    | some w =>
      dsimp only
      by_cases hb : (w.seals && w.pc == .start && sealingInFlight s) = true
      · left; rw [if_pos hb]
      · right
        rw [if_neg hb]
        refine ⟨rfl, ?_⟩
        intro i' w' e hw' hs hpc
        injection e with e
        subst e
        rw [hw] at hw'
        injection hw' with hw'
        subst hw'
        cases hf : sealingInFlight s with
        | false => rfl
        | true => simp [hs, hpc, hf] at hb
  | rotator => right; exact ⟨rfl, fun i w e => by cases e⟩
  | closer => right; exact ⟨rfl, fun i w e => by cases e⟩

theorem inv3_no_overwrite (s : Sys) (t : Tid) (h3 : Inv3 s) : overwrites s t = false := by
  cases t with
  | writer i =>
    rw [overwrites_writer]
    cases hw : s.writers[i]? with
    | none => rfl
    | some w =>
      dsimp only
      cases hov : (w.pc == .use && w.seals && !s.closed && s.await.isSome) with
      | false => rfl
      | true =>
        simp only [Bool.and_eq_true, beq_iff_eq] at hov
        obtain ⟨⟨⟨hpc, hs⟩, _⟩, ha⟩ := hov
        have := h3.aw_hold w (mem_of_get _ _ _ hw) hs (Or.inr (Or.inr hpc))
        rw [this] at ha; cases ha
  | rotator => rfl
  | closer => rfl

theorem inv3_step1 (s : Sys) (t : Tid) (h0 : Inv0 s) (h1 : Inv1 s) (h3 : Inv3 s) : Inv3 (step1 fixed s t) := by
  rcases step1_cases s t with e | ⟨e, hstart⟩
  · rw [e]; exact h3
  · rw [e]
    cases t with
    | writer i =>
      show Inv3 (stepWriter fixed s i)
      cases hw : s.writers[i]? with
      | none => rw [stepWriter_none _ _ _ hw]; exact h3
      | some w =>
        rcases stepWriter_cases s i w hw h0 with ⟨e, _⟩ | ⟨b, pc', ht, e⟩ | ⟨hpc, hs, hc, _, e⟩
        · rw [e]; exact h3
        · rw [e]; exact inv3_wstep s i w b pc' hw h1 h3 ht (hstart i w rfl hw)
        · rw [e]; exact inv3_seal s i w hw h3 hpc hs
    | rotator =>
      obtain ⟨a, b⟩ := stepRotator_frame s
      exact inv3_frame s _ a b h3
    | closer =>
      obtain ⟨a, b⟩ := stepCloser_frame s
      exact inv3_frame s _ a b h3

theorem inv3_init (seals : List Bool) : Inv3 (init seals) := by
  have hall : ∀ w ∈ (init seals).writers, w.pc = .start := by
    intro w hw
    obtain ⟨b, _, rfl⟩ := List.mem_map.mp hw
    rfl
  refine ⟨?_, ?_, ?_⟩
  · have : (init seals).writers.filter inflight = [] := by
      rw [List.filter_eq_nil_iff]
      intro w hw hin
      have := (inflight_iff w).mp hin
      exact this.2.1 (hall w hw)
    rw [this]; simp
  · intro w hw _ ch hpc
    rw [hall w hw] at hpc; cases hpc
  · intro w hw _ hpc
    rw [hall w hw] at hpc
    rcases hpc with h | h | h <;> cases h

/-- the three invariants hold along every single-appender execution -/
theorem inv_run1 (sched : List Tid) (s : Sys) (h0 : Inv0 s) (h1 : Inv1 s) (h3 : Inv3 s) :
    Inv0 (run1 fixed s sched) ∧ Inv1 (run1 fixed s sched) ∧ Inv3 (run1 fixed s sched) := by
  induction sched generalizing s with
  | nil => exact ⟨h0, h1, h3⟩
  | cons t ts ih =>
    rw [run1_cons]
    have h3' := inv3_step1 s t h0 h1 h3
    rcases step1_cases s t with e | ⟨e, _⟩
    · rw [e] at h3' ⊢; exact ih s h0 h1 h3'
    · rw [e] at h3' ⊢
      exact ih _ (inv0_step s t h0) (inv1_step s t h0 h1 (inv3_no_overwrite s t h3)) h3'

/-- a single-appender execution is an execution of the unrestricted system: drop the blocked steps -/
theorem run1_is_run (sched : List Tid) (s : Sys) : ∃ sched', run1 fixed s sched = run fixed s sched' := by
  induction sched generalizing s with
  | nil => exact ⟨[], rfl⟩
  | cons t ts ih =>
    rw [run1_cons]
    rcases step1_cases s t with e | ⟨e, _⟩
    · rw [e]; exact ih s
    · rw [e]
      obtain ⟨sched', h⟩ := ih (step fixed s t)
      exact ⟨t :: sched', h⟩

end RaftWal.ConcW
