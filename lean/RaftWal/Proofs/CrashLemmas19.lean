/-
  Proofs/CrashLemmas19.lean — a call that is some actions, then deletions of orphans, then the acknowledgement;
  head truncation that keeps a segment.
-/
import RaftWal.Proofs.CrashLemmas18
namespace RaftWal.Crash

theorem callres_mk {d : Disk} {P : List Seg} {t : Seg} {f : File} (_h : QS d P t f) (op : Op) (acts : List Act)
    (ids : List Nat) {P' : List Seg} {t' : Seg}
    (hshape : prog d op = acts ++ ids.map .delete ++ [.ack])
    (hno : ∀ a ∈ acts, a ≠ .ack)
    (hsteps : ∀ k, k < acts.length →
      RecE (fun l => l = absLog d ∨ l = specApply (absLog d) op) (d.applyAll (acts.take k)))
    (hfull : Rec (fun l => l = specApply (absLog d) op) (d.applyAll acts) P' t')
    (hclean : CleanTail (d.applyAll acts) t')
    (hid : ∀ j ∈ ids, ∀ s ∈ P' ++ [t'], s.id ≠ j)
    (hsub : ∀ j ∈ fids (d.applyAll acts), j ∈ ids ∨ j ∈ segIds (P' ++ [t'])) :
    CallRes d op (acts ++ ids.map .delete) [] := by
  have hfin : d.applyAll (prog d op) = (d.applyAll acts).applyAll (ids.map .delete) := by
    rw [hshape, applyAll_append, applyAll_append]; rfl
  have hrec := hfull.deleteIds ids hid
  have hc : CleanTail ((d.applyAll acts).applyAll (ids.map .delete)) t' := by
    obtain ⟨g, hg, hrest⟩ := hclean
    refine ⟨g, ?_, hrest⟩
    rw [deletes_file? _ _ _ (fun hj => hid _ hj t' (by simp) rfl)]
    exact hg
  have hsub' : ∀ j ∈ fids ((d.applyAll acts).applyAll (ids.map .delete)), j ∈ segIds (P' ++ [t']) := by
    intro j hj
    have := deletes_fids _ _ _ hj
    rcases hsub j this.1 with h1 | h1
    · exact absurd h1 this.2
    · exact h1
  obtain ⟨f', hq, ha⟩ := hrec.toQS hc hsub'
  refine ⟨by rw [hshape], ?_, ?_, ?_, ⟨P', t', f', by rw [hfin]; exact hq⟩, by rw [hfin]; exact ha⟩
  · intro a ha
    simp only [List.mem_append, List.mem_map] at ha
    rcases ha with ha | ⟨j, _, rfl⟩
    · exact hno a ha
    · simp
  · intro k
    by_cases hk : k < acts.length
    · rw [List.take_append_of_le_length (Nat.le_of_lt hk)]
      exact hsteps k hk
    · rw [List.take_append, List.take_of_length_le (Nat.le_of_not_lt hk), applyAll_append, ← List.map_take]
      exact ⟨P', t', (hfull.deleteIds _ (fun j hj => hid j (List.mem_of_mem_take hj))).mono (fun l hl => Or.inr hl)⟩
  · intro k
    simp only [List.take_nil, applyAll_nil]
    rw [applyAll_append]
    exact ⟨P', t', hrec⟩

/-- facts every legal head truncation provides -/
theorem delHead_tail_bound {d : Disk} {P : List Seg} {t : Seg} {f : File} (h : QO d P t f) (hne : absLog d ≠ [])
    {p : Nat × Entry} (hp : p ∈ visU t.min f.base f.synced) : p.1 ≤ lastIndex d := by
  have := h.next hne
  have := mem_visU hp
  omega

theorem delHead_tail {d : Disk} {P : List Seg} {t : Seg} {f : File} (h : QS d P t f) {newMin : Nat}
    (hok : (Op.delHead newMin).ok d)
    (hk : d.md.segs.dropWhile (goneB (lastIndex d) newMin) = [t])
    (hD : d.md.segs.takeWhile (goneB (lastIndex d) newMin) = P) :
    CallRes d (.delHead newMin)
      ([.commit { d.md with segs := [{ t with min := newMin }] }] ++ (segIds P).map .delete) [] := by
  have hb := h.base
  have hq := h.toQO
  have hgt := (dropWhile_cons hk).1
  simp only [goneB, hb.tsl, Bool.false_eq_true, ↓reduceIte, decide_eq_false_iff_not, Nat.not_lt] at hgt
  have hgone : ∀ s ∈ P, s.max < newMin := by
    intro s hs
    have : s ∈ d.md.segs.takeWhile (goneB (lastIndex d) newMin) := by rw [hD]; exact hs
    have := mem_takeWhile_imp' this
    rw [goneB_sealed (hb.sealed s hs)] at this
    simpa using this
  have hmin : t.min ≤ newMin :=
    head_min_le hb (D := P) (rest := []) (h := t) rfl hgone hok.1 hok.2.1
  have hnext := hq.next hok.1
  have hafter : specApply (absLog d) (.delHead newMin) = visU newMin f.base f.synced := by
    rw [specApply_delHead, hq.log_eq, List.filter_append, visU_filter_ge _ hmin]
    rw [logP_filter_nil, List.nil_append]
    intro s hs p hp
    have := mem_sealed (hb.sealed s hs) hp
    have := hgone s hs
    simp only [decide_eq_false_iff_not, Nat.not_le]; omega
  have htb := hb.tbm
  have hf' : (d.apply (.commit { d.md with segs := [{ t with min := newMin }] })).file? t.id = some f := h.tf
  have hfull : Rec (fun l => l = specApply (absLog d) (.delHead newMin))
      (d.apply (.commit { d.md with segs := [{ t with min := newMin }] })) [] { t with min := newMin } := by
    apply Rec.recommit (P' := []) (t' := { t with min := newMin }) hb { d.md with segs := [{ t with min := newMin }] }
      rfl (Nat.le_refl _) (by simp) (by simp) (by simp)
      (by intro s hs; simp at hs; subst hs; exact hb.idlt t (by simp)) hb.tsl (by show t.base ≤ newMin; omega) hb.tb1
    · intro g hg
      rw [show ({ t with min := newMin } : Seg).id = t.id from rfl, h.tf] at hg
      cases hg
      refine ⟨h.qt.base, ?_, by show newMin ≤ _; omega, fun _ => by show newMin < _; omega, ?_, ?_, ?_, ?_⟩
      · rcases h.qt.lk with h1 | h1
        · exact Or.inl h1
        · exact Or.inr ⟨h1, h.qt.ss⟩
      · intro hc; rw [h.qt.ss] at hc; cases hc
      · intro hc; rw [h.qt.sp] at hc; cases hc
      · simpa using hafter.symm
      · rw [h.qt.pend, List.append_nil]; simpa using hafter.symm
    · intro hn
      rw [show ({ t with min := newMin } : Seg).id = t.id from rfl, h.tf] at hn
      cases hn
  apply callres_mk h (.delHead newMin) [.commit { d.md with segs := [{ t with min := newMin }] }] (segIds P)
  · show delHeadProg d newMin = _
    rw [delHeadProg_eq, hk, hD, map_delete_eq]
  · simp
  · intro k hk'
    simp only [List.length_cons, List.length_nil, Nat.zero_add, Nat.lt_one_iff] at hk'
    subst hk'
    exact ⟨P, t, by simpa using hq.toRec (Or.inl rfl)⟩
  · simpa using hfull
  · exact ⟨f, by simpa using hf', h.qt.pend, h.qt.ss, h.qt.sp⟩
  · intro j hj s hs
    simp only [List.nil_append, List.mem_cons, List.not_mem_nil, or_false] at hs
    subst hs
    obtain ⟨s', hs', rfl⟩ := List.mem_map.1 hj
    exact fun e => hb.tid_ne s' hs' e.symm
  · intro j hj
    have := h.sub j (by simpa using hj)
    simp only [segIds, List.map_append, List.map_cons, List.map_nil, List.mem_append, List.mem_cons,
      List.not_mem_nil, or_false] at this ⊢
    rcases this with h1 | h1
    · exact Or.inl h1
    · exact Or.inr (Or.inr h1)

end RaftWal.Crash
