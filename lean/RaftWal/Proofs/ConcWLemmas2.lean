/-
  Proofs/ConcWLemmas2.lean — `Inv0` (mutual exclusion, Close's flags, no writer panics, nothing runs after Close)
  holds initially and is preserved by every step of every thread: it holds in every reachable state.
-/
import RaftWal.Proofs.ConcWLemmas1
namespace RaftWal.ConcW

theorem holdsPc_of_step {s : Sys} {w : Writer} {b : Bool} {pc' : WPc} (ht : WStep s w b pc') :
    (holdsPc w.pc = true → s.lock = true) →
    (holdsPc pc').toNat + s.lock.toNat = (holdsPc w.pc).toNat + b.toNat := by
  intro hl
  cases ht with
  | startClosed h _ => simp [h]
  | startOpen h _ => simp [h]
  | lock h hf => simp [h, hf]
  | wait ch h _ => have := hl (by simp [h]); simp [h, this]
  | nowait h _ => simp [h]
  | woken ch h _ => simp [h]
  | relock h hf => simp [h, hf]
  | checkClosed h _ => have := hl (by simp [h]); simp [h, this]
  | checkOpen h _ => simp [h]
  | usePlain h _ => have := hl (by simp [h]); simp [h, this]

theorem inv0_wstep (s : Sys) (i : Nat) (w : Writer) (b : Bool) (pc' : WPc) (hw : s.writers[i]? = some w)
    (h0 : Inv0 s) (ht : WStep s w b pc') : Inv0 (setW { s with lock := b } i { w with pc := pc' }) := by
  have hmem : w ∈ s.writers := mem_of_get _ _ _ hw
  have hh := holders'_setW s { s with lock := b } i w pc' hw rfl rfl rfl
  have hl : holdsPc w.pc = true → s.lock = true := fun hp => (h0.writer_holds w hmem hp).1
  have hs := holdsPc_of_step ht hl
  refine ⟨?_, h0.trigClosed_iff, h0.stateEmpty_iff, h0.closed_iff, ?_, ?_, h0.io⟩
  · have hm := h0.mutex
    show holders' _ = b.toNat
    omega
  · intro w' hw' hpc
    rcases mem_set_cases _ _ _ _ hw' with e | hold
    · subst e
      cases ht with
      | checkOpen _ hc => rw [h0.closed_false.mp hc]; simp
      | _ => simp at hpc
    · exact h0.use_not_done w' hold hpc
  · intro w' hw'
    rcases mem_set_cases _ _ _ _ hw' with e | hold
    · subst e
      cases ht <;> simp
    · exact h0.no_wpanic w' hold

theorem inv0_seal (s : Sys) (i : Nat) (w : Writer) (hw : s.writers[i]? = some w) (h0 : Inv0 s)
    (hpc : w.pc = .use) : Inv0 (sealState s i w) := by
  have hmem : w ∈ s.writers := mem_of_get _ _ _ hw
  have hh := holders'_setW s
    { s with await := some s.nextChan, nextChan := s.nextChan + 1, trigQueued := true, lock := false } i w
    (.done .ok) hw rfl rfl rfl
  have hl : s.lock = true := (h0.writer_holds w hmem (by simp [hpc])).1
  refine ⟨?_, h0.trigClosed_iff, h0.stateEmpty_iff, h0.closed_iff, ?_, ?_, h0.io⟩
  · have hm := h0.mutex
    show holders' (sealState s i w) = false.toNat
    unfold sealState
    rw [hl] at hm
    simp [hpc] at hh hm ⊢
    omega
  · intro w' hw' hpc'
    rcases mem_set_cases _ _ _ _ hw' with e | hold
    · subst e; simp at hpc'
    · exact h0.use_not_done w' hold hpc'
  · intro w' hw'
    rcases mem_set_cases _ _ _ _ hw' with e | hold
    · subst e; simp
    · exact h0.no_wpanic w' hold

theorem inv0_stepWriter (s : Sys) (i : Nat) (h0 : Inv0 s) : Inv0 (stepWriter fixed s i) := by
  cases hw : s.writers[i]? with
  | none => rw [stepWriter_none _ _ _ hw]; exact h0
  | some w =>
    rcases stepWriter_cases s i w hw h0 with ⟨e, _⟩ | ⟨b, pc', ht, e⟩ | ⟨hpc, _, _, _, e⟩
    · rw [e]; exact h0
    · rw [e]; exact inv0_wstep s i w b pc' hw h0 ht
    · rw [e]; exact inv0_seal s i w hw h0 hpc

/-! ### the rotation goroutine -/

theorem holders'_congr (s s2 : Sys) (hw : s2.writers = s.writers) (hc : s2.cpc = s.cpc) :
    holders' s2 + rHold s.rpc = holders' s + rHold s2.rpc := by
  rw [holders'_eq, holders'_eq, hw, hc]; omega

theorem holders'_congr_c (s s2 : Sys) (hw : s2.writers = s.writers) (hr : s2.rpc = s.rpc) :
    holders' s2 + cHold s.cpc = holders' s + cHold s2.cpc := by
  rw [holders'_eq, holders'_eq, hw, hr]; omega

theorem inv0_stepRotator (s : Sys) (h0 : Inv0 s) : Inv0 (stepRotator fixed s) := by
  have hm := h0.mutex
  unfold stepRotator
  cases hr : s.rpc with
  | idle =>
    dsimp only
    rcases bool_cases s.trigQueued with hq | hq
    · rw [if_pos hq]
      refine ⟨?_, h0.trigClosed_iff, h0.stateEmpty_iff, h0.closed_iff, h0.use_not_done, h0.no_wpanic, h0.io⟩
      have := holders'_congr s { s with trigQueued := false, rpc := .got } rfl rfl
      simp only [hr, rHold] at this
      show holders' _ = s.lock.toNat
      simp at this; omega
    · rw [if_neg (by simp [hq])]
      rcases bool_cases s.trigClosed with hc | hc
      · rw [if_pos hc]
        simp only [fixed, if_true]
        refine ⟨?_, h0.trigClosed_iff, h0.stateEmpty_iff, h0.closed_iff, h0.use_not_done, h0.no_wpanic, h0.io⟩
        have := holders'_congr s { s with rpc := .got } rfl rfl
        simp only [hr, rHold] at this
        show holders' _ = s.lock.toNat
        simp at this; omega
      · rw [if_neg (by simp [hc])]; exact h0
  | got =>
    dsimp only
    rcases bool_cases s.lock with hl | hl
    · rw [if_pos hl]; exact h0
    · rw [if_neg (by simp [hl])]
      refine ⟨?_, h0.trigClosed_iff, h0.stateEmpty_iff, h0.closed_iff, h0.use_not_done, h0.no_wpanic, h0.io⟩
      have := holders'_congr s { s with lock := true, rpc := .locked } rfl rfl
      simp only [hr, rHold] at this
      show holders' _ = true.toNat
      rw [hl] at hm
      simp at this hm ⊢; omega
  | locked =>
    dsimp only
    have hl : s.lock = true := by
      cases h : s.lock with
      | true => rfl
      | false => exact absurd hr (h0.free h).2.1
    rcases bool_cases s.closed with hc | hc
    · rw [if_pos (by simp [fixed, hc])]
      refine ⟨?_, h0.trigClosed_iff, h0.stateEmpty_iff, h0.closed_iff, h0.use_not_done, h0.no_wpanic, h0.io⟩
      have := holders'_congr s { s with lock := false, rpc := .exited } rfl rfl
      simp only [hr, rHold] at this
      show holders' _ = false.toNat
      rw [hl] at hm
      simp at this hm ⊢; omega
    · rw [if_neg (by simp [fixed, hc])]
      have hidle : s.cpc = .idle := h0.closed_false.mp hc
      have hse : ¬ s.stateEmpty = true := fun h => by
        have := h0.stateEmpty_iff.mp h; rw [hidle] at this; cases this
      rw [if_neg hse]
      refine ⟨?_, h0.trigClosed_iff, h0.stateEmpty_iff, h0.closed_iff, h0.use_not_done, h0.no_wpanic, ?_⟩
      · have := holders'_congr s
          { s with rotations := s.rotations + 1, ioAfterClose := s.ioAfterClose || s.cpc == .done,
                   await := none, lock := false, rpc := .closing s.await } rfl rfl
        simp only [hr, rHold] at this
        show holders' _ = false.toNat
        rw [hl] at hm
        simp at this hm ⊢; omega
      · show (s.ioAfterClose || s.cpc == .done) = false
        rw [h0.io, hidle]; rfl
  | closing ch =>
    dsimp only
    cases ch with
    | none =>
      dsimp only
      refine ⟨?_, h0.trigClosed_iff, h0.stateEmpty_iff, h0.closed_iff, h0.use_not_done, h0.no_wpanic, h0.io⟩
      have := holders'_congr s { s with bad := true, rpc := .exited } rfl rfl
      simp only [hr, rHold] at this
      show holders' _ = s.lock.toNat
      simp at this; omega
    | some c =>
      dsimp only
      by_cases hc : s.closedChans.contains c = true
      · rw [if_pos hc]
        refine ⟨?_, h0.trigClosed_iff, h0.stateEmpty_iff, h0.closed_iff, h0.use_not_done, h0.no_wpanic, h0.io⟩
        have := holders'_congr s { s with bad := true, rpc := .exited } rfl rfl
        simp only [hr, rHold] at this
        show holders' _ = s.lock.toNat
        simp at this; omega
      · rw [if_neg hc]
        refine ⟨?_, h0.trigClosed_iff, h0.stateEmpty_iff, h0.closed_iff, h0.use_not_done, h0.no_wpanic, h0.io⟩
        have := holders'_congr s { s with closedChans := c :: s.closedChans, rpc := .idle } rfl rfl
        simp only [hr, rHold] at this
        show holders' _ = s.lock.toNat
        simp at this; omega
  | exited => exact h0

/-! ### Close -/

theorem inv0_stepCloser (s : Sys) (h0 : Inv0 s) : Inv0 (stepCloser fixed s) := by
  have hm := h0.mutex
  unfold stepCloser
  cases hcp : s.cpc with
  | idle =>
    dsimp only
    have hc : s.closed = false := h0.closed_false.mpr hcp
    rw [if_neg (by simp [hc])]
    have hcc : (s.closed = true ↔ s.cpc ≠ .idle) := h0.closed_iff
    have h1 := h0.trigClosed_iff
    have h2 := h0.stateEmpty_iff
    have h3 := h0.use_not_done
    rw [hcp] at h1 h2
    refine ⟨?_, ?_, ?_, ?_, ?_, h0.no_wpanic, h0.io⟩
    · have := holders'_congr_c s { s with closed := true, cpc := .flagged } rfl rfl
      simp only [hcp, cHold] at this
      show holders' _ = s.lock.toNat
      simp at this; omega
    · show s.trigClosed = true ↔ CPc.flagged = .done
      simp at h1 ⊢; exact h1
    · show s.stateEmpty = true ↔ CPc.flagged = .done
      simp at h2 ⊢; exact h2
    · show true = true ↔ CPc.flagged ≠ .idle
      simp
    · intro w hw hpc; show CPc.flagged ≠ .done; simp
  | flagged =>
    dsimp only
    rcases bool_cases s.lock with hl | hl
    · rw [if_pos hl]; exact h0
    · rw [if_neg (by simp [hl])]
      have h1 := h0.trigClosed_iff
      have h2 := h0.stateEmpty_iff
      have h4 := h0.closed_iff
      rw [hcp] at h1 h2 h4
      refine ⟨?_, ?_, ?_, ?_, ?_, h0.no_wpanic, h0.io⟩
      · have := holders'_congr_c s { s with lock := true, cpc := .locked } rfl rfl
        simp only [hcp, cHold] at this
        show holders' _ = true.toNat
        rw [hl] at hm
        simp at this hm ⊢; omega
      · show s.trigClosed = true ↔ CPc.locked = .done
        simp at h1 ⊢; exact h1
      · show s.stateEmpty = true ↔ CPc.locked = .done
        simp at h2 ⊢; exact h2
      · show s.closed = true ↔ CPc.locked ≠ .idle
        simp at h4 ⊢; exact h4
      · intro w hw hpc; show CPc.locked ≠ .done; simp
  | locked =>
    dsimp only
    have hl : s.lock = true := by
      cases h : s.lock with
      | true => rfl
      | false => exact absurd hcp (h0.free h).2.2
    have h4 := h0.closed_iff
    rw [hcp] at h4
    have hnw : ∀ w ∈ s.writers, holdsPc w.pc = false := by
      intro w hw
      cases hp : holdsPc w.pc with
      | false => rfl
      | true => exact absurd hcp (h0.writer_holds w hw hp).2.2
    -- the writers, rpc and lock-independent fields of the intermediate state are those of `s`
    have key : ∀ s1 : Sys, s1.writers = s.writers → s1.rpc = s.rpc → s1.closed = s.closed →
        s1.ioAfterClose = s.ioAfterClose →
        Inv0 { s1 with await := none, trigClosed := true, stateEmpty := true, lock := false, cpc := .done } := by
      intro s1 e1 e2 e3 e4
      refine ⟨?_, ?_, ?_, ?_, ?_, ?_, ?_⟩
      · have := holders'_congr_c s
          { s1 with await := none, trigClosed := true, stateEmpty := true, lock := false, cpc := .done } e1 e2
        simp only [hcp, cHold] at this
        show holders' _ = false.toNat
        rw [hl] at hm
        simp at this hm ⊢; omega
      · show true = true ↔ CPc.done = .done
        simp
      · show true = true ↔ CPc.done = .done
        simp
      · show s1.closed = true ↔ CPc.done ≠ .idle
        rw [e3]; simp at h4 ⊢; exact h4
      · intro w hw hpc
        have hw' : w ∈ s.writers := e1 ▸ hw
        have := hnw w hw'
        simp [hpc] at this
      · intro w hw
        exact h0.no_wpanic w (e1 ▸ hw)
      · show s1.ioAfterClose = false
        rw [e4]; exact h0.io
    cases ha : s.await with
    | none => exact key s rfl rfl rfl rfl
    | some ch =>
      dsimp only
      simp only [fixed, if_true]
      exact key { s with closedChans := ch :: s.closedChans } rfl rfl rfl rfl
  | done => exact h0

theorem inv0_step (s : Sys) (t : Tid) (h0 : Inv0 s) : Inv0 (step fixed s t) := by
  cases t with
  | writer i => exact inv0_stepWriter s i h0
  | rotator => exact inv0_stepRotator s h0
  | closer => exact inv0_stepCloser s h0

theorem inv0_init (seals : List Bool) : Inv0 (init seals) := by
  refine ⟨?_, ?_, ?_, ?_, ?_, ?_, rfl⟩
  · rw [holders'_eq]
    show (List.filter holdsW (seals.map fun b => ({ seals := b } : Writer))).length + rHold .idle + cHold .idle = 0
    have : List.filter holdsW (seals.map fun b => ({ seals := b } : Writer)) = [] := by
      rw [List.filter_eq_nil_iff]
      intro w hw
      obtain ⟨b, _, rfl⟩ := List.mem_map.mp hw
      simp [holdsW]
    rw [this]; rfl
  · show false = true ↔ CPc.idle = .done
    simp
  · show false = true ↔ CPc.idle = .done
    simp
  · show false = true ↔ CPc.idle ≠ .idle
    simp
  · intro w hw hpc
    obtain ⟨b, _, rfl⟩ := List.mem_map.mp hw
    simp at hpc
  · intro w hw
    obtain ⟨b, _, rfl⟩ := List.mem_map.mp hw
    simp

theorem inv0_run (sched : List Tid) (s : Sys) (h0 : Inv0 s) : Inv0 (run fixed s sched) := by
  induction sched generalizing s with
  | nil => exact h0
  | cons t ts ih => exact ih _ (inv0_step s t h0)

end RaftWal.ConcW
