/-
  Proofs/CrashLemmas26.lean — what holds of every `Quiescent` state as it stands: every program of a legal call
  acknowledges; a clean restart changes nothing.
-/
import RaftWal.Proofs.CrashLemmas25
namespace RaftWal.Crash

theorem ackPos_lt_of_mem {as : List Act} (h : Act.ack ∈ as) : ackPos as < as.length := by
  unfold ackPos
  exact List.findIdx_lt_length_of_exists ⟨.ack, h, by simp⟩

theorem QInv.segs_ne {d : Disk} {P : List Seg} {t : Seg} (h : QInv d P t) : d.md.segs.getLast? = some t := by
  rw [h.segs]; simp

theorem store_has_ack {d : Disk} {P : List Seg} {t : Seg} (h : QInv d P t) (first : Nat) (es : List Entry) (sl : Bool) :
    Act.ack ∈ storeProg d first es sl := by
  have hreset : (resetActs d first).1 = [] ∨ ∃ segs b, (resetActs d first).1 = newTailActs d.md segs b := by
    unfold resetActs
    split
    · exact Or.inl rfl
    · split
      · exact Or.inr ⟨_, _, rfl⟩
      · exact Or.inl rfl
  unfold storeProg
  generalize resetActs d first = r at hreset
  obtain ⟨a1, del⟩ := r
  simp only at hreset ⊢
  have hne : (d.applyAll a1).md.segs.getLast? ≠ none := by
    rcases hreset with rfl | ⟨segs, b, rfl⟩
    · rw [applyAll_nil, h.segs_ne]; simp
    · simp [newTailActs]
  split
  · rename_i hc; exact absurd hc hne
  · simp

theorem QInv.seg_base_le_min {d : Disk} {P : List Seg} {t : Seg} (h : QInv d P t) {s : Seg} (hs : s ∈ P ++ [t]) :
    s.base ≤ s.min := by
  simp only [List.mem_append, List.mem_cons, List.not_mem_nil, or_false] at hs
  rcases hs with h1 | rfl
  · exact (h.sealed s h1).bounds.1
  · obtain ⟨f, _, hq⟩ := h.tail; exact hq.bm

theorem delTail_has_ack {d : Disk} {P : List Seg} {t : Seg} (h : QInv d P t) {newMax : Nat}
    (hok : (Op.delTail newMax).ok d) : Act.ack ∈ delTailProg d newMax := by
  rw [delTailProg_eq]
  have htbm : t.base ≤ t.min := h.seg_base_le_min (by simp)
  have hne : (d.md.segs.filter (keptB newMax)).getLast? ≠ none := by
    cases hsegs : P ++ [t] with
    | nil => simp at hsegs
    | cons s0 rest =>
      obtain ⟨q, hq, hq1⟩ := firstIndex_mem hok.1
      have h1 := ge_min_core h.segs h.sealed h.chain htbm hsegs hq
      have h2 := h.seg_base_le_min (s := s0) (by rw [hsegs]; simp)
      have h3 := hok.2.1
      have : s0 ∈ d.md.segs.filter (keptB newMax) := by
        rw [h.segs, hsegs, List.mem_filter]
        exact ⟨by simp, by simp only [keptB, decide_eq_true_eq]; omega⟩
      intro hc
      rw [List.getLast?_eq_none_iff] at hc
      rw [hc] at this; simp at this
  split
  · rename_i hc; exact absurd hc hne
  · simp

theorem delHead_has_ack (d : Disk) (newMin : Nat) : Act.ack ∈ delHeadProg d newMin := by
  rw [delHeadProg_eq]
  split <;> simp

theorem prog_has_ack_core {d : Disk} (hq : Quiescent d) (op : Op) (hok : op.ok d) :
    ackPos (prog d op) < (prog d op).length := by
  obtain ⟨P, t, h⟩ := (quiescent_iff d).1 hq
  apply ackPos_lt_of_mem
  cases op with
  | store first es sl => exact store_has_ack h first es sl
  | delHead newMin => exact delHead_has_ack d newMin
  | delTail newMax => exact delTail_has_ack h hok
  | set k v => simp [prog, setProg]

/-! ### a clean restart -/

theorem QInv.tid_ne {d : Disk} {P : List Seg} {t : Seg} (h : QInv d P t) : ∀ s ∈ P, s.id ≠ t.id := by
  intro s hs e
  have := h.nodupS
  simp only [List.map_append, List.map_cons, List.map_nil] at this
  exact (List.nodup_append.1 this).2.2 s.id (List.mem_map.2 ⟨s, hs, rfl⟩) t.id (by simp) e

/-- a step that keeps the meta store, the sealed segments' files and the set of files, and leaves a good tail file -/
theorem QInv.transfer {d d' : Disk} {P : List Seg} {t : Seg} (h : QInv d P t) (hmd : d'.md = d.md)
    (hk : ∀ s ∈ P, Keeps d d' s.id) (hf : fids d' = fids d) {f f' : File} (hf0 : d.file? t.id = some f)
    (hf' : d'.file? t.id = some f') (hq : QTail t f') (hb : f'.base = f.base) (hc : f'.content = f.content) :
    QInv d' P t ∧ absLog d' = absLog d := by
  have ht := sealed_transfer_keeps hk h.sealed
  constructor
  · refine ⟨by rw [hmd]; exact h.segs, ht.1, ⟨f', hf', hq⟩, h.chain, h.nodupS, by rw [hmd]; exact h.idlt,
      by rw [hf]; exact h.nodupF, ?_⟩
    intro g hg
    have : g.id ∈ fids d := by rw [← hf]; exact List.mem_map.2 ⟨g, hg, rfl⟩
    obtain ⟨g0, hg0, e⟩ := List.mem_map.1 this
    obtain ⟨s, hs, e'⟩ := h.sub g0 hg0
    exact ⟨s, hs, e'.trans e⟩
  · rw [absLog_eq, absLog_eq, hmd, h.segs, logP_append, logP_append, ht.2, logP_single, logP_single,
      segEntries_some hf', segEntries_some hf0, visF_congr t hb hc]

theorem open_quiescent_shape {d : Disk} {P : List Seg} {t : Seg} (h : QInv d P t) {f : File}
    (hf : d.file? t.id = some f) :
    openProg d = some (if f.content.isEmpty then [] else [.fsync t.id]) := by
  obtain ⟨f0, hf0, hq⟩ := h.tail
  rw [hf] at hf0; cases hf0
  have h1 : (d.md.segs.any fun s => s.sealed && (d.file? s.id).isNone) = false := by
    rw [List.any_eq_false]
    intro s hs
    rw [h.segs] at hs
    simp only [List.mem_append, List.mem_cons, List.not_mem_nil, or_false] at hs
    rcases hs with hs | rfl
    · obtain ⟨g, hg, _⟩ := h.sealed s hs
      simp [hg]
    · simp [hq.sl]
  have h2 : (d.md.segs.dropLast.any fun s => !s.sealed) = false := by
    rw [List.any_eq_false]
    intro s hs
    rw [h.segs] at hs
    simp only [List.dropLast_concat] at hs
    obtain ⟨g, _, hsf⟩ := h.sealed s hs
    simp [hsf.sl]
  have h3 : d.md.segs.getLast? = some t := h.segs_ne
  have horph : orphanDeletes d d.md = [] := by
    unfold orphanDeletes
    rw [List.map_eq_nil_iff, List.filter_eq_nil_iff]
    intro g hg
    obtain ⟨s, hs, e⟩ := h.sub g hg
    simp only [Bool.not_eq_eq_eq_not, Bool.not_true, List.any_eq_false, decide_eq_true_eq]
    rw [h.segs]
    exact fun hc => hc s hs e
  have hsl : f.isSealed = false := by simp [File.isSealed, hq.ss, hq.sp]
  have hid : f.id = t.id := (file?_some_mem hf).2
  unfold openProg
  simp only [h1, h2, h3, Bool.false_eq_true, ↓reduceIte, hq.sl, hf, hsl, horph, List.append_nil, Bool.not_false,
    Bool.and_true, hid]

theorem restart_core {d : Disk} (hq : Quiescent d) :
    ∃ d', openResult (d.crash .proc) = some d' ∧ Quiescent d' ∧ absLog d' = absLog d ∧ d'.md.stable = d.md.stable := by
  obtain ⟨P, t, h⟩ := (quiescent_iff d).1 hq
  obtain ⟨f, hf, hqt⟩ := h.tail
  -- the image of the process crash
  have hf0 : (d.crash .proc).file? t.id = some f.unh := by rw [crash_proc_file?, hf]; rfl
  have h0 := h.transfer (d' := d.crash .proc) (crash_md d .proc) (fun s _ => keeps_crash_proc d s.id)
    (fids_crash_proc d) hf hf0
    ⟨hqt.base, hqt.pend, hqt.sp, hqt.bm, hqt.b1, hqt.sl, hqt.ss, hqt.lk, hqt.mn⟩ rfl rfl
  have hshape := open_quiescent_shape h0.1 hf0
  unfold openResult
  rw [hshape]
  by_cases hce : f.unh.content.isEmpty = true
  · simp only [hce, ↓reduceIte, Option.map_some, applyAll_nil]
    exact ⟨_, rfl, (quiescent_iff _).2 ⟨P, t, h0.1⟩, h0.2, by rw [crash_md]⟩
  · simp only [hce, Bool.false_eq_true, ↓reduceIte, Option.map_some, applyAll_cons, applyAll_nil]
    refine ⟨_, rfl, ?_⟩
    have hl0 : HL (d.crash .proc) := HL_crash d h.nodupF .proc
    obtain ⟨f2, hf2, g1, g2, g3, g4, g5, g6, _⟩ := fsync_file hl0 hf0
    have h1 := h0.1.transfer (d' := (d.crash .proc).apply (.fsync t.id)) rfl
      (fun s hs => keeps_fsync _ _ (h0.1.tid_ne s hs)) (fids_fsync _ _) hf0 hf2
      ⟨g1.trans hqt.base, g3, g5, hqt.bm, hqt.b1, hqt.sl, by rw [g4]; simp [File.unh, hqt.ss, hqt.sp], Or.inl g6,
        by rw [g1, g2]; simp only [File.unh, List.length_append]; have := hqt.mn; omega⟩
      g1 (by simp [File.content, g2, g3])
    exact ⟨(quiescent_iff _).2 ⟨P, t, h1.1⟩, h1.2.trans h0.2, by simp⟩

end RaftWal.Crash
