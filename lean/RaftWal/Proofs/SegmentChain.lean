/-
  Proofs/SegmentChain.lean — byte-level crash CHAINS for the segment model (L1, property C02):
  every chain of acknowledged appends, process restarts and torn appends (power loss with an arbitrary subset of
  the 8-byte chunks of the in-flight write on disk, followed by tail recovery), starting from a fresh segment.

  RESULT (`chain_atomic`).  For every such chain satisfying the size side conditions `ChainWF`, EITHER some torn
  event of the chain exhibits a CRC-32C collision (`ChainCollision`: the batch region of its power-loss image
  differs from the intended one and has the same CRC-32C) OR the chain runs to a state `(w, file)` and there is a
  list of batches `bs` — every acknowledged batch, every torn batch whole or not at all, in order (`chainSpec`) —
  such that
    (a) `w` IS the writer a run of completed appends of `bs` on the fresh segment ends with (all fields, hence in
        particular `Writer.obs`), and up to the write offset the two files are byte for byte the same;
        the invariant `ChainInv info w file bs` holds;
    (b) every entry of `bs.flatten` is readable at its index with exactly its payload, nothing above is readable;
    (c) everything behind `w.writeOffset` in `file` is zero (no stale bytes survive: the induction is closed).

  Sealing.  A chain may contain sealing appends (index frame), acknowledged or torn.  An append attempted on a
  segment an earlier event sealed returns `ErrSealed` in the code and is an error of `chainRun`.
    * `chain_atomic_gen` needs no condition on `sizeLimit` at all (`ChainSizes` only): its third outcome is
      `ChainSealedStop` — the chain ran, with the full conclusion, up to a sealed state and then attempted an append.
      It covers e.g. a torn sealing append recovered as absent followed by further appends.
    * `chain_atomic` excludes that outcome by the static condition `ChainWF.fits`: every batch event except the
      LAST one of the chain fits below `sizeLimit` even with its index frame (the last one may seal; restarts may
      follow it).
  A torn sealing append recovered as absent leaves the file longer than `sizeLimit`; the invariant does not
  constrain the file length.

  Per-step theorems: `chainStep_append_inv`, `chainStep_restart_inv`, `chainStep_torn_inv`
  (the invariant `ChainInv` is defined in Proofs/SegmentChainLemmas.lean; `chainInv_fresh` there).
  Helper files: Proofs/SegmentChainLemmas.lean, Proofs/SegmentChainTorn.lean.

  Not modelled: a power loss DURING recovery's own zeroing of the stale tail (`clearStale` is one atomic step of
  `recoverTail` in Model/Segment.lean), I/O errors (C10), the WAL level (rotation, meta store: Model/Crash.lean).
-/
import RaftWal.Proofs.SegmentChainTorn
namespace RaftWal
open Spec (Acc Batch addEntry addBatch)

/-! ## event semantics -/

/-- one step of the life of a tail segment -/
inductive ChainEv
  /-- acknowledged append of the (non-empty) batch `b` -/
  | append  (b : List Bytes)
  /-- process restart: the in-memory writer is lost, `recoverTail` runs on the file as it is -/
  | restart
  /-- append of `b` in flight, power loss with chunk `j` of the written range on disk iff `mask j`, then `recoverTail` -/
  | torn    (b : List Bytes) (mask : Nat → Bool)

/-- the index the next entry gets — the value `appendEntry` insists on; it equals
    `info.base + bs.flatten.length` for the ghost batches `bs` (`ChainInv.next`) -/
def chainNext (info : SegInfo) (w : Writer) : Nat := info.base + w.offsets.length

def chainStep (info : SegInfo) (s : Writer × Bytes) : ChainEv → Except SegErr (Writer × Bytes)
  | .append b =>
    match s.1.append s.2 (indexBatch (chainNext info s.1) b) .none with
    | (some e, _, _) => .error e
    | (none, w', file') => .ok (w', file')
  | .restart => recoverTail info s.2
  | .torn b mask =>
    match s.1.append s.2 (indexBatch (chainNext info s.1) b) .none with
    | (some e, _, _) => .error e
    | (none, w', file') =>
      recoverTail info (tearImage s.2 file' s.1.writeOffset (w'.writeOffset - s.1.writeOffset) mask)

def chainRun (info : SegInfo) (s : Writer × Bytes) : List ChainEv → Except SegErr (Writer × Bytes)
  | [] => .ok s
  | e :: evs =>
    match chainStep info s e with
    | .error err => .error err
    | .ok s' => chainRun info s' evs

/-! ## ghost outcome -/

/-- the batches the file may hold after the events: every `append b` contributes `b`, every `torn b m` contributes
    `b` or nothing, `restart` contributes nothing -/
def chainSpec : List ChainEv → List (List Bytes) → Prop
  | [], bs => bs = []
  | .append b :: evs, bs => ∃ bs', bs = b :: bs' ∧ chainSpec evs bs'
  | .restart :: evs, bs => chainSpec evs bs
  | .torn b _ :: evs, bs => chainSpec evs bs ∨ ∃ bs', bs = b :: bs' ∧ chainSpec evs bs'

/-! ## side conditions -/

def ChainEv.batches : ChainEv → List (List Bytes)
  | .append b => [b]
  | .restart => []
  | .torn b _ => [b]

/-- all batches submitted along the chain (acknowledged or torn), in order -/
def chainBatches (evs : List ChainEv) : List (List Bytes) := evs.flatMap ChainEv.batches

/-- side conditions of a chain, in the style of `RunWF`: batches non-empty, payloads within `maxEntrySize` (the
    writer refuses larger ones), header fields 64-bit, the uint32 arithmetic does not wrap even if every torn
    batch is recovered whole -/
structure ChainSizes (info : SegInfo) (evs : List ChainEv) : Prop where
  nonempty   : ∀ b ∈ chainBatches evs, b ≠ []
  payload_le : ∀ b ∈ chainBatches evs, ∀ p ∈ b, p.length ≤ maxEntrySize
  base_lt    : info.base < 2^64
  id_lt      : info.id < 2^64
  codec_lt   : info.codec < 2^64
  limit_lt   : info.sizeLimit < 2^32
  size_lt    : runBytesBound (chainBatches evs) < 2^32

/-- `ChainSizes` and: the preallocated file is large enough for all batch events but the last one never to seal
    (the last one may) -/
structure ChainWF (info : SegInfo) (evs : List ChainEv) : Prop where
  nonempty   : ∀ b ∈ chainBatches evs, b ≠ []
  payload_le : ∀ b ∈ chainBatches evs, ∀ p ∈ b, p.length ≤ maxEntrySize
  base_lt    : info.base < 2^64
  id_lt      : info.id < 2^64
  codec_lt   : info.codec < 2^64
  limit_lt   : info.sizeLimit < 2^32
  size_lt    : runBytesBound (chainBatches evs) < 2^32
  fits       : runBytesBound (chainBatches evs).dropLast ≤ info.sizeLimit

/-! ## the CRC-32C residual -/

/-- the torn append of `b` with chunk mask `mask` from state `s` exhibits a CRC-32C collision: the batch region of
    the power-loss image differs from that of the complete file and has the same CRC-32C (the disjunct of
    `recover_torn_atomic_corrected`) -/
def TornCollision (info : SegInfo) (s : Writer × Bytes) (b : List Bytes) (mask : Nat → Bool) : Prop :=
  ∃ w' file', s.1.append s.2 (indexBatch (chainNext info s.1) b) .none = (none, w', file') ∧
    let img := tearImage s.2 file' s.1.writeOffset (w'.writeOffset - s.1.writeOffset) mask
    batchRegion img s.1.writeOffset w'.writeOffset ≠ batchRegion file' s.1.writeOffset w'.writeOffset ∧
    crc32c (batchRegion img s.1.writeOffset w'.writeOffset) = crc32c (batchRegion file' s.1.writeOffset w'.writeOffset)

/-- some torn event along the run exhibits a CRC-32C collision -/
def ChainCollision (info : SegInfo) (evs : List ChainEv) : Prop :=
  ∃ pre b mask post s, evs = pre ++ ChainEv.torn b mask :: post
    ∧ chainRun info (freshSegment info) pre = .ok s ∧ TornCollision info s b mask

/-! ## the full statement -/

/-- the conclusion of `chain_atomic` for a final state -/
structure ChainResult (info : SegInfo) (evs : List ChainEv) (w : Writer) (file : Bytes) (bs : List (List Bytes)) : Prop where
  /-- the chain runs to `(w, file)` -/
  run      : chainRun info (freshSegment info) evs = .ok (w, file)
  /-- `bs`: every acknowledged batch, every torn batch whole or not at all -/
  spec     : chainSpec evs bs
  /-- (a) the invariant of SegmentL1 … -/
  inv      : ChainInv info w file bs
  /-- (a) … and the writer IS the one a run of completed appends of `bs` on the fresh segment ends with;
      the files agree up to the write offset -/
  asFresh  : ∃ w0 file0, (freshSegment info).1.appendAll (freshSegment info).2 info.base bs = some (w0, file0)
               ∧ w = w0 ∧ w.obs = w0.obs ∧ file.take w.writeOffset = file0.take w0.writeOffset
  /-- (b) every entry is readable at its index with exactly its payload -/
  readable : info.min = info.base → ∀ (k : Nat) (hk : k < bs.flatten.length) (bufSize : Nat), 8 ≤ bufSize →
               w.getLog file (info.base + k) bufSize = .ok (bs.flatten[k]'hk)
  /-- (b) nothing above `base + bs.flatten.length - 1` is readable -/
  nothingAbove : ∀ (idx bufSize : Nat), info.base + bs.flatten.length ≤ idx →
               (0 < idx → w.getLog file idx bufSize = .error .notFound) ∧ ∃ e, w.getLog file idx bufSize = .error e
  /-- (c) the region behind the write offset is all zeros -/
  clean    : ∀ x ∈ file.drop w.writeOffset, x = 0
  /-- the segment is sealed only if the submitted batches, index frame included, did not fit below `sizeLimit` -/
  unsealed : runBytesBound (chainBatches evs) ≤ info.sizeLimit → w.indexStart = 0

/-- the chain attempts an append (acknowledged or torn) on a segment an earlier event of the chain sealed — the
    code answers `ErrSealed`, the WAL rotates to a new segment —: up to there the chain ran with the full
    conclusion -/
def ChainSealedStop (info : SegInfo) (evs : List ChainEv) : Prop :=
  ∃ pre e post w file bs, evs = pre ++ e :: post ∧ e.batches ≠ []
    ∧ ChainResult info pre w file bs ∧ 0 < w.indexStart
    ∧ chainRun info (freshSegment info) evs = .error .sealed

/-- the full statement -/
def chain_atomic_stmt : Prop :=
  ∀ (info : SegInfo) (evs : List ChainEv), ChainWF info evs →
    ChainCollision info evs ∨ ∃ w file bs, ChainResult info evs w file bs

/-! ## `chainRun`, `chainSpec`, `chainBatches` along a chain -/

theorem chainRun_append (info : SegInfo) (s s1 : Writer × Bytes) (l1 l2 : List ChainEv)
    (h : chainRun info s l1 = .ok s1) : chainRun info s (l1 ++ l2) = chainRun info s1 l2 := by
  induction l1 generalizing s with
  | nil =>
    simp only [chainRun, Except.ok.injEq] at h
    rw [h, List.nil_append]
  | cons e l1 ih =>
    rw [List.cons_append, chainRun]
    rw [chainRun] at h
    cases hs : chainStep info s e with
    | error err => rw [hs] at h; cases h
    | ok s' =>
      rw [hs] at h
      exact ih s' h

theorem chainRun_snoc (info : SegInfo) (s s1 : Writer × Bytes) (l : List ChainEv) (e : ChainEv)
    (h : chainRun info s l = .ok s1) : chainRun info s (l ++ [e]) = chainStep info s1 e := by
  rw [chainRun_append info s s1 l [e] h, chainRun]
  cases chainStep info s1 e <;> rfl

theorem chainSpec_snoc_append (evs : List ChainEv) (bs : List (List Bytes)) (b : List Bytes) (h : chainSpec evs bs) :
    chainSpec (evs ++ [.append b]) (bs ++ [b]) := by
  induction evs generalizing bs with
  | nil => rw [chainSpec] at h; subst h; exact ⟨[], rfl, rfl⟩
  | cons e evs ih =>
    cases e with
    | append c =>
      obtain ⟨bs', rfl, h'⟩ := h
      exact ⟨bs' ++ [b], rfl, ih bs' h'⟩
    | restart => exact ih bs h
    | torn c m =>
      rcases h with h | ⟨bs', rfl, h'⟩
      · exact Or.inl (ih bs h)
      · exact Or.inr ⟨bs' ++ [b], rfl, ih bs' h'⟩

theorem chainSpec_snoc_restart (evs : List ChainEv) (bs : List (List Bytes)) (h : chainSpec evs bs) :
    chainSpec (evs ++ [.restart]) bs := by
  induction evs generalizing bs with
  | nil => rw [chainSpec] at h; subst h; exact rfl
  | cons e evs ih =>
    cases e with
    | append c =>
      obtain ⟨bs', rfl, h'⟩ := h
      exact ⟨bs', rfl, ih bs' h'⟩
    | restart => exact ih bs h
    | torn c m =>
      rcases h with h | ⟨bs', rfl, h'⟩
      · exact Or.inl (ih bs h)
      · exact Or.inr ⟨bs', rfl, ih bs' h'⟩

theorem chainSpec_snoc_torn_absent (evs : List ChainEv) (bs : List (List Bytes)) (b : List Bytes) (m : Nat → Bool)
    (h : chainSpec evs bs) : chainSpec (evs ++ [.torn b m]) bs := by
  induction evs generalizing bs with
  | nil => rw [chainSpec] at h; subst h; exact Or.inl rfl
  | cons e evs ih =>
    cases e with
    | append c =>
      obtain ⟨bs', rfl, h'⟩ := h
      exact ⟨bs', rfl, ih bs' h'⟩
    | restart => exact ih bs h
    | torn c m' =>
      rcases h with h | ⟨bs', rfl, h'⟩
      · exact Or.inl (ih bs h)
      · exact Or.inr ⟨bs', rfl, ih bs' h'⟩

theorem chainSpec_snoc_torn_whole (evs : List ChainEv) (bs : List (List Bytes)) (b : List Bytes) (m : Nat → Bool)
    (h : chainSpec evs bs) : chainSpec (evs ++ [.torn b m]) (bs ++ [b]) := by
  induction evs generalizing bs with
  | nil => rw [chainSpec] at h; subst h; exact Or.inr ⟨[], rfl, rfl⟩
  | cons e evs ih =>
    cases e with
    | append c =>
      obtain ⟨bs', rfl, h'⟩ := h
      exact ⟨bs' ++ [b], rfl, ih bs' h'⟩
    | restart => exact ih bs h
    | torn c m' =>
      rcases h with h | ⟨bs', rfl, h'⟩
      · exact Or.inl (ih bs h)
      · exact Or.inr ⟨bs' ++ [b], rfl, ih bs' h'⟩

theorem chainBatches_cons (e : ChainEv) (evs : List ChainEv) : chainBatches (e :: evs) = e.batches ++ chainBatches evs := by
  simp [chainBatches]

theorem chainBatches_snoc (evs : List ChainEv) (e : ChainEv) : chainBatches (evs ++ [e]) = chainBatches evs ++ e.batches := by
  simp [chainBatches]

/-- the ghost batches are among the submitted ones, and take no more room -/
theorem chainSpec_sub (evs : List ChainEv) (bs : List (List Bytes)) (h : chainSpec evs bs) :
    (∀ x ∈ bs, x ∈ chainBatches evs) ∧ need bs ≤ need (chainBatches evs) ∧ cnt bs ≤ cnt (chainBatches evs) := by
  induction evs generalizing bs with
  | nil => rw [chainSpec] at h; subst h; exact ⟨fun x hx => (by cases hx), Nat.le_refl _, Nat.le_refl _⟩
  | cons e evs ih =>
    rw [chainBatches_cons]
    have hcons : ∀ (c : List Bytes) (bs' : List (List Bytes)), chainSpec evs bs' →
        (∀ x ∈ c :: bs', x ∈ [c] ++ chainBatches evs) ∧ need (c :: bs') ≤ need ([c] ++ chainBatches evs)
          ∧ cnt (c :: bs') ≤ cnt ([c] ++ chainBatches evs) := by
      intro c bs' h'
      obtain ⟨i1, i2, i3⟩ := ih bs' h'
      refine ⟨fun x hx => ?_, ?_, ?_⟩
      · rcases List.mem_cons.mp hx with rfl | hx
        · exact List.mem_append_left _ List.mem_cons_self
        · exact List.mem_append_right _ (i1 x hx)
      · rw [List.singleton_append, need_cons, need_cons]; omega
      · rw [List.singleton_append, cnt_cons, cnt_cons]; omega
    have hskip : ∀ (c : List Bytes), chainSpec evs bs →
        (∀ x ∈ bs, x ∈ [c] ++ chainBatches evs) ∧ need bs ≤ need ([c] ++ chainBatches evs)
          ∧ cnt bs ≤ cnt ([c] ++ chainBatches evs) := by
      intro c h'
      obtain ⟨i1, i2, i3⟩ := ih bs h'
      refine ⟨fun x hx => List.mem_append_right _ (i1 x hx), ?_, ?_⟩
      · rw [List.singleton_append, need_cons]; omega
      · rw [List.singleton_append, cnt_cons]; omega
    cases e with
    | append c =>
      obtain ⟨bs', rfl, h'⟩ := h
      exact hcons c bs' h'
    | restart => exact ih bs h
    | torn c m =>
      rcases h with h | ⟨bs', rfl, h'⟩
      · exact hskip c h
      · exact hcons c bs' h'

theorem need_dropLast_le (l : List (List Bytes)) : need l.dropLast ≤ need l ∧ cnt l.dropLast ≤ cnt l := by
  by_cases h : l = []
  · subst h; exact ⟨Nat.le_refl _, Nat.le_refl _⟩
  · have := List.dropLast_concat_getLast h
    have h1 : need l = need l.dropLast + need [l.getLast h] := by rw [← need_append, this]
    have h2 : cnt l = cnt l.dropLast + cnt [l.getLast h] := by rw [← cnt_append, this]
    omega

theorem ChainWF.sizes {info : SegInfo} {evs : List ChainEv} (h : ChainWF info evs) : ChainSizes info evs :=
  ⟨h.nonempty, h.payload_le, h.base_lt, h.id_lt, h.codec_lt, h.limit_lt, h.size_lt⟩

theorem chainBatches_append (l1 l2 : List ChainEv) : chainBatches (l1 ++ l2) = chainBatches l1 ++ chainBatches l2 := by
  simp [chainBatches]

theorem ChainSizes.of_append {info : SegInfo} {l1 l2 : List ChainEv} (h : ChainSizes info (l1 ++ l2)) :
    ChainSizes info l1 := by
  have hsub : ∀ x ∈ chainBatches l1, x ∈ chainBatches (l1 ++ l2) := by
    intro x hx; rw [chainBatches_append]; exact List.mem_append_left _ hx
  have hn : need (chainBatches l1) ≤ need (chainBatches (l1 ++ l2)) := by
    rw [chainBatches_append, need_append]; omega
  have hc : cnt (chainBatches l1) ≤ cnt (chainBatches (l1 ++ l2)) := by
    rw [chainBatches_append, cnt_append]; omega
  refine ⟨fun b hb => h.nonempty b (hsub b hb), fun b hb => h.payload_le b (hsub b hb), h.base_lt, h.id_lt,
    h.codec_lt, h.limit_lt, ?_⟩
  have := h.size_lt
  rw [runBytesBound_eq] at this ⊢; omega

theorem ChainSizes.prefix {info : SegInfo} {evs : List ChainEv} {e : ChainEv} (h : ChainSizes info (evs ++ [e])) :
    ChainSizes info evs := h.of_append

/-- the `RunWF` of the ghost batches followed by the batch of the next event -/
theorem ChainSizes.runWF_snoc {info : SegInfo} {evs : List ChainEv} {bs : List (List Bytes)} {b : List Bytes}
    (h : ChainSizes info evs) (hb : b ∈ chainBatches evs) (hsub : ∀ x ∈ bs, x ∈ chainBatches evs)
    (hsz : runBytesBound (bs ++ [b]) ≤ runBytesBound (chainBatches evs)) : RunWF info (bs ++ [b]) := by
  refine ⟨fun x hx => ?_, h.base_lt, h.id_lt, h.codec_lt, h.limit_lt, Nat.lt_of_le_of_lt hsz h.size_lt⟩
  rcases List.mem_append.mp hx with hx | hx
  · exact h.nonempty x (hsub x hx)
  · rw [List.mem_singleton.mp hx]; exact h.nonempty b hb

theorem ChainSizes.runWF {info : SegInfo} {evs : List ChainEv} {bs : List (List Bytes)}
    (h : ChainSizes info evs) (hspec : chainSpec evs bs) : RunWF info bs := by
  obtain ⟨s1, s2, s3⟩ := chainSpec_sub evs bs hspec
  refine ⟨fun x hx => h.nonempty x (s1 x hx), h.base_lt, h.id_lt, h.codec_lt, h.limit_lt, ?_⟩
  have := h.size_lt
  rw [runBytesBound_eq] at this ⊢; omega

/-! ## the writer after an append does not depend on the file -/

theorem append_writer_indep (w : Writer) (f1 f2 : Bytes) (es : List (Nat × Bytes)) :
    (w.append f1 es .none).1 = (w.append f2 es .none).1
    ∧ (w.append f1 es .none).2.1 = (w.append f2 es .none).2.1 := by
  unfold Writer.append
  split
  · exact ⟨rfl, rfl⟩
  · split
    · exact ⟨rfl, rfl⟩
    · cases w.appendEntries es with
      | error e => exact ⟨rfl, rfl⟩
      | ok w1 =>
        simp only
        generalize (if w1.needSeal = true then w1.appendIndex else Except.ok w1) = r
        cases r with
        | error e => exact ⟨rfl, rfl⟩
        | ok w2 => exact ⟨rfl, rfl⟩

theorem append_none_indep (w : Writer) (f1 f2 : Bytes) (es : List (Nat × Bytes)) (w' : Writer) (f1' : Bytes)
    (h : w.append f1 es .none = (none, w', f1')) : ∃ f2', w.append f2 es .none = (none, w', f2') := by
  obtain ⟨i1, i2⟩ := append_writer_indep w f1 f2 es
  rw [h] at i1 i2
  refine ⟨(w.append f2 es .none).2.2, ?_⟩
  exact Prod.ext i1.symm (Prod.ext i2.symm rfl)

/-! ## per-step theorems: the invariant along the three kinds of events -/

/-- **append**: on an unsealed invariant state (sizes within bounds) the append is acknowledged and the invariant
    holds for `bs ++ [b]` -/
theorem chainStep_append_inv (info : SegInfo) (bs : List (List Bytes)) (b : List Bytes)
    (hwf : RunWF info (bs ++ [b])) (hmax : ∀ p ∈ b, p.length ≤ maxEntrySize)
    (w : Writer) (file : Bytes) (hI : ChainInv info w file bs) (hidx : w.indexStart = 0) :
    ∃ w' file', chainStep info (w, file) (.append b) = .ok (w', file')
      ∧ w.append file (indexBatch (info.base + bs.flatten.length) b) .none = (none, w', file')
      ∧ ChainInv info w' file' (bs ++ [b]) := by
  obtain ⟨w', file', happ⟩ := chain_append_ok info bs b hwf hmax w file hI hidx
  refine ⟨w', file', ?_, happ, chainInv_append info bs b hwf w file hI w' file' happ⟩
  simp only [chainStep, chainNext, hI.next, happ]

/-- **restart**: invisible — the same writer, the same file, hence the same invariant -/
theorem chainStep_restart_inv (info : SegInfo) (hb : info.base < 2^64) (hi : info.id < 2^64) (hc : info.codec < 2^64)
    (bs : List (List Bytes)) (w : Writer) (file : Bytes) (hI : ChainInv info w file bs) :
    chainStep info (w, file) .restart = .ok (w, file) :=
  recover_inv info hb hi hc bs w file hI

/-- **torn**: CRC-32C collision, or the state before the append (file lengthened by zeros at most; invariant for
    `bs`), or the state after the completed append (invariant for `bs ++ [b]`) -/
theorem chainStep_torn_inv (info : SegInfo) (bs : List (List Bytes)) (b : List Bytes) (mask : Nat → Bool)
    (hwf : RunWF info (bs ++ [b])) (hmax : ∀ p ∈ b, p.length ≤ maxEntrySize)
    (w : Writer) (file : Bytes) (hI : ChainInv info w file bs) (hidx : w.indexStart = 0) :
    TornCollision info (w, file) b mask
    ∨ (∃ k, chainStep info (w, file) (.torn b mask) = .ok (w, file ++ zeros k)
          ∧ ChainInv info w (file ++ zeros k) bs)
    ∨ (∃ w' file', chainStep info (w, file) (.torn b mask) = .ok (w', file')
          ∧ w.append file (indexBatch (info.base + bs.flatten.length) b) .none = (none, w', file')
          ∧ ChainInv info w' file' (bs ++ [b])) := by
  obtain ⟨w', file', happ⟩ := chain_append_ok info bs b hwf hmax w file hI hidx
  have hstep : chainStep info (w, file) (.torn b mask)
      = recoverTail info (tearImage file file' w.writeOffset (w'.writeOffset - w.writeOffset) mask) := by
    simp only [chainStep, chainNext, hI.next, happ]
  have hcoll : ∀ (_ : batchRegion (tearImage file file' w.writeOffset (w'.writeOffset - w.writeOffset) mask)
          w.writeOffset w'.writeOffset ≠ batchRegion file' w.writeOffset w'.writeOffset)
      (_ : crc32c (batchRegion (tearImage file file' w.writeOffset (w'.writeOffset - w.writeOffset) mask)
          w.writeOffset w'.writeOffset) = crc32c (batchRegion file' w.writeOffset w'.writeOffset)),
      TornCollision info (w, file) b mask := by
    intro h1 h2
    refine ⟨w', file', ?_, h1, h2⟩
    simp only [chainNext, hI.next]; exact happ
  rcases chain_torn_cases info bs b hwf w file hI w' file' happ mask with h | ⟨h, hc⟩ | ⟨_, _, _, h1, h2⟩
  · right; left
    exact ⟨_, by rw [hstep]; exact h, chainInv_append_zeros hI _⟩
  · rcases hc with hc | ⟨h1, h2⟩
    · right; right
      refine ⟨w', file', ?_, happ, chainInv_append info bs b hwf w file hI w' file' happ⟩
      rw [hstep, h, hc]
    · exact Or.inl (hcoll h1 h2)
  · exact Or.inl (hcoll h1 h2)

/-! ## the induction -/

/-- what the induction carries -/
structure ChainOK (info : SegInfo) (evs : List ChainEv) (w : Writer) (file : Bytes) (bs : List (List Bytes)) : Prop where
  run      : chainRun info (freshSegment info) evs = .ok (w, file)
  spec     : chainSpec evs bs
  inv      : ChainInv info w file bs
  asFresh  : ∃ file0, (freshSegment info).1.appendAll (freshSegment info).2 info.base bs = some (w, file0)
  unsealed : runBytesBound (chainBatches evs) ≤ info.sizeLimit → w.indexStart = 0

/-- `ChainSealedStop` in terms of what the induction carries -/
def SealedStopOK (info : SegInfo) (evs : List ChainEv) : Prop :=
  ∃ pre e post w file bs, evs = pre ++ e :: post ∧ e.batches ≠ []
    ∧ ChainOK info pre w file bs ∧ 0 < w.indexStart
    ∧ chainRun info (freshSegment info) evs = .error .sealed

theorem collision_snoc {info : SegInfo} {evs : List ChainEv} (e : ChainEv) (h : ChainCollision info evs) :
    ChainCollision info (evs ++ [e]) := by
  obtain ⟨pre, b, mask, post, s, h1, h2, h3⟩ := h
  exact ⟨pre, b, mask, post ++ [e], s, by rw [h1]; simp, h2, h3⟩

theorem chainRun_append_error (info : SegInfo) (s : Writer × Bytes) (l1 l2 : List ChainEv) (err : SegErr)
    (h : chainRun info s l1 = .error err) : chainRun info s (l1 ++ l2) = .error err := by
  induction l1 generalizing s with
  | nil => simp only [chainRun] at h; cases h
  | cons e l1 ih =>
    rw [List.cons_append, chainRun]
    rw [chainRun] at h
    cases hs : chainStep info s e with
    | error err' => rw [hs] at h; exact h
    | ok s' =>
      rw [hs] at h
      exact ih s' h

theorem sealedStop_snoc {info : SegInfo} {evs : List ChainEv} (e : ChainEv) (h : SealedStopOK info evs) :
    SealedStopOK info (evs ++ [e]) := by
  obtain ⟨pre, e0, post, w, file, bs, h1, h2, h3, h4, h5⟩ := h
  exact ⟨pre, e0, post ++ [e], w, file, bs, by rw [h1]; simp, h2, h3, h4, chainRun_append_error info _ evs [e] _ h5⟩

/-- an append, acknowledged or torn, attempted on a sealed segment: `ErrSealed` -/
theorem chainStep_sealed (info : SegInfo) (w : Writer) (file : Bytes) (e : ChainEv) (b : List Bytes)
    (he : e.batches = [b]) (hb : b ≠ []) (hidx : 0 < w.indexStart) :
    chainStep info (w, file) e = .error .sealed := by
  cases e with
  | restart => cases he
  | append c =>
    simp only [ChainEv.batches, List.cons.injEq, and_true] at he
    subst he
    simp only [chainStep, append_sealed _ _ _ _ hidx hb]
  | torn c m =>
    simp only [ChainEv.batches, List.cons.injEq, and_true] at he
    subst he
    simp only [chainStep, append_sealed _ _ _ _ hidx hb]

/-- one more batch event (acknowledged or torn) after a chain that ran: the common part -/
theorem chainOK_batch_setup {info : SegInfo} {evs : List ChainEv} {e : ChainEv} {b : List Bytes}
    (he : e.batches = [b]) (hwf : ChainSizes info (evs ++ [e]))
    {w : Writer} {file : Bytes} {bs : List (List Bytes)} (h : ChainOK info evs w file bs) :
    RunWF info (bs ++ [b]) ∧ (∀ p ∈ b, p.length ≤ maxEntrySize) ∧ b ≠ []
    ∧ (runBytesBound (chainBatches (evs ++ [e])) ≤ info.sizeLimit →
        runBytesBound (bs ++ [b]) ≤ info.sizeLimit ∧ runBytesBound (chainBatches evs) ≤ info.sizeLimit) := by
  obtain ⟨s1, s2, s3⟩ := chainSpec_sub evs bs h.spec
  have hcb : chainBatches (evs ++ [e]) = chainBatches evs ++ [b] := by rw [chainBatches_snoc, he]
  have hbm : b ∈ chainBatches (evs ++ [e]) := by rw [hcb]; exact List.mem_append_right _ List.mem_cons_self
  have hsub : ∀ x ∈ bs, x ∈ chainBatches (evs ++ [e]) := by
    intro x hx; rw [hcb]; exact List.mem_append_left _ (s1 x hx)
  have hsz : runBytesBound (bs ++ [b]) ≤ runBytesBound (chainBatches (evs ++ [e])) := by
    rw [hcb, runBytesBound_eq, runBytesBound_eq, need_append, need_append, cnt_append, cnt_append]; omega
  have hsz2 : runBytesBound (chainBatches evs) ≤ runBytesBound (chainBatches (evs ++ [e])) := by
    rw [hcb, runBytesBound_eq, runBytesBound_eq, need_append, cnt_append]; omega
  exact ⟨hwf.runWF_snoc hbm hsub hsz, hwf.payload_le b hbm, hwf.nonempty b hbm,
    fun hf => ⟨Nat.le_trans hsz hf, Nat.le_trans hsz2 hf⟩⟩

theorem chain_step (info : SegInfo) (evs : List ChainEv) (e : ChainEv) (hwf : ChainSizes info (evs ++ [e]))
    (w : Writer) (file : Bytes) (bs : List (List Bytes)) (h : ChainOK info evs w file bs) :
    ChainCollision info (evs ++ [e]) ∨ (∃ w' file' bs', ChainOK info (evs ++ [e]) w' file' bs')
      ∨ SealedStopOK info (evs ++ [e]) := by
  obtain ⟨file0, hfresh⟩ := h.asFresh
  cases e with
  | restart =>
    right; left
    have hst := chainStep_restart_inv info hwf.base_lt hwf.id_lt hwf.codec_lt bs w file h.inv
    refine ⟨w, file, bs, ?_, chainSpec_snoc_restart evs bs h.spec, h.inv, h.asFresh, ?_⟩
    · rw [chainRun_snoc info _ _ evs _ h.run, hst]
    · intro hf; apply h.unsealed
      rw [chainBatches_snoc] at hf; simpa [ChainEv.batches] using hf
  | append b =>
    obtain ⟨hrwf, hmax, hbne, hfit⟩ := chainOK_batch_setup (b := b) rfl hwf h
    by_cases hidx : w.indexStart = 0
    · right; left
      obtain ⟨w', file', hst, happ, hI'⟩ := chainStep_append_inv info bs b hrwf hmax w file h.inv hidx
      obtain ⟨file0', happ0⟩ := append_none_indep w file file0 _ w' file' happ
      refine ⟨w', file', bs ++ [b], ?_, chainSpec_snoc_append evs bs b h.spec, hI',
        ⟨file0', appendAll_append _ _ _ bs w file0 b w' file0' hfresh happ0⟩, ?_⟩
      · rw [chainRun_snoc info _ _ evs _ h.run, hst]
      · intro hf
        exact chain_append_noseal info bs b hrwf (hfit hf).1 w file h.inv w' file' happ
    · right; right
      refine ⟨evs, .append b, [], w, file, bs, rfl, by simp [ChainEv.batches], h, by omega, ?_⟩
      rw [chainRun_snoc info _ _ evs _ h.run, chainStep_sealed info w file _ b rfl hbne (by omega)]
  | torn b mask =>
    obtain ⟨hrwf, hmax, hbne, hfit⟩ := chainOK_batch_setup (b := b) rfl hwf h
    by_cases hidx : w.indexStart = 0
    · rcases chainStep_torn_inv info bs b mask hrwf hmax w file h.inv hidx with
        hcol | ⟨k, hst, hI'⟩ | ⟨w', file', hst, happ, hI'⟩
      · left
        exact ⟨evs, b, mask, [], (w, file), rfl, h.run, hcol⟩
      · right; left
        refine ⟨w, file ++ zeros k, bs, ?_, chainSpec_snoc_torn_absent evs bs b mask h.spec, hI', h.asFresh, fun _ => hidx⟩
        rw [chainRun_snoc info _ _ evs _ h.run, hst]
      · right; left
        obtain ⟨file0', happ0⟩ := append_none_indep w file file0 _ w' file' happ
        refine ⟨w', file', bs ++ [b], ?_, chainSpec_snoc_torn_whole evs bs b mask h.spec, hI',
          ⟨file0', appendAll_append _ _ _ bs w file0 b w' file0' hfresh happ0⟩, ?_⟩
        · rw [chainRun_snoc info _ _ evs _ h.run, hst]
        · intro hf
          exact chain_append_noseal info bs b hrwf (hfit hf).1 w file h.inv w' file' happ
    · right; right
      refine ⟨evs, .torn b mask, [], w, file, bs, rfl, by simp [ChainEv.batches], h, by omega, ?_⟩
      rw [chainRun_snoc info _ _ evs _ h.run, chainStep_sealed info w file _ b rfl hbne (by omega)]

theorem chainOK_nil (info : SegInfo) : ChainOK info [] (freshSegment info).1 (freshSegment info).2 [] :=
  ⟨rfl, rfl, chainInv_fresh info, ⟨_, rfl⟩, fun _ => rfl⟩

/-- the induction over the chain (from the last event backwards over the reversed list) -/
theorem chain_induction (info : SegInfo) (rev : List ChainEv) (hwf : ChainSizes info rev.reverse) :
    ChainCollision info rev.reverse ∨ (∃ w file bs, ChainOK info rev.reverse w file bs)
      ∨ SealedStopOK info rev.reverse := by
  induction rev with
  | nil => exact Or.inr (Or.inl ⟨_, _, _, chainOK_nil info⟩)
  | cons e rev ih =>
    rw [List.reverse_cons] at hwf ⊢
    rcases ih hwf.prefix with hc | ⟨w, file, bs, hok⟩ | hs
    · exact Or.inl (collision_snoc e hc)
    · exact chain_step info rev.reverse e hwf w file bs hok
    · exact Or.inr (Or.inr (sealedStop_snoc e hs))

/-- from what the induction carries to the full conclusion -/
theorem chainResult_of_ok (info : SegInfo) (evs : List ChainEv) (hwf : ChainSizes info evs)
    (w : Writer) (file : Bytes) (bs : List (List Bytes)) (h : ChainOK info evs w file bs) :
    ChainResult info evs w file bs := by
  obtain ⟨file0, hfresh⟩ := h.asFresh
  have hrwf := hwf.runWF h.spec
  have hI0 := chainInv_of_run info bs hrwf w file0 hfresh
  obtain ⟨s1, _, _⟩ := chainSpec_sub evs bs h.spec
  refine ⟨h.run, h.spec, h.inv, ⟨w, file0, hfresh, rfl, rfl, ?_⟩, ?_, ?_, h.inv.inv.zeros, h.unsealed⟩
  · have e1 := h.inv.inv.bytes
    have e2 := hI0.inv.bytes
    rw [e1] at e2
    exact List.append_cancel_right e2
  · intro hmin k hk bufSize hbuf
    exact chain_getLog info hmin bs w file h.inv (fun b hb => hwf.payload_le b (s1 b hb)) k hk bufSize hbuf
  · intro idx bufSize hidx
    exact chain_getLog_above info bs w file h.inv idx hidx bufSize

/-! ## MAIN THEOREMS -/

/-- **C02 (L1) crash chains, no condition on `sizeLimit`.** Every chain of acknowledged appends, restarts and torn
    appends on a fresh segment (sizes within `ChainSizes`)
      * meets a CRC-32C collision at one of its torn events, or
      * runs to a state that is exactly the state after a run of completed appends of some `bs` allowed by
        `chainSpec` — same writer, same bytes up to the write offset, zeros behind, every entry of `bs` readable
        with its payload, nothing else readable —, or
      * runs like that up to a state in which the segment is sealed and then attempts an append, which the code
        refuses with `ErrSealed`. -/
theorem chain_atomic_gen (info : SegInfo) (evs : List ChainEv) (hwf : ChainSizes info evs) :
    ChainCollision info evs ∨ (∃ w file bs, ChainResult info evs w file bs) ∨ ChainSealedStop info evs := by
  have := chain_induction info evs.reverse (by rw [List.reverse_reverse]; exact hwf)
  rw [List.reverse_reverse] at this
  rcases this with h | ⟨w, file, bs, h⟩ | ⟨pre, e, post, w, file, bs, h1, h2, h3, h4, h5⟩
  · exact Or.inl h
  · exact Or.inr (Or.inl ⟨w, file, bs, chainResult_of_ok info evs hwf w file bs h⟩)
  · refine Or.inr (Or.inr ⟨pre, e, post, w, file, bs, h1, h2, ?_, h4, h5⟩)
    rw [h1] at hwf
    exact chainResult_of_ok info pre hwf.of_append w file bs h3

/-- **C02 (L1) crash chains** (MAIN THEOREM). Every chain of acknowledged appends, restarts and torn appends on a
    fresh segment (sizes within `ChainWF`: only the last batch event may seal) either meets a CRC-32C collision at
    one of its torn events, or runs to a state that is exactly the state after a run of completed appends of some
    `bs` allowed by `chainSpec` — same writer, same bytes up to the write offset, zeros behind, every entry of `bs`
    readable with its payload, nothing else readable. -/
theorem chain_atomic (info : SegInfo) (evs : List ChainEv) (hwf : ChainWF info evs) :
    ChainCollision info evs ∨ ∃ w file bs, ChainResult info evs w file bs := by
  rcases chain_atomic_gen info evs hwf.sizes with h | h | ⟨pre, e, post, w, file, bs, h1, h2, h3, h4, _⟩
  · exact Or.inl h
  · exact Or.inr h
  · exfalso
    have hf := hwf.fits
    have hcb : chainBatches evs = chainBatches pre ++ (e.batches ++ chainBatches post) := by
      rw [h1, chainBatches_append, chainBatches_cons]
    have hne : e.batches ++ chainBatches post ≠ [] := by
      intro h0; exact h2 (List.append_eq_nil_iff.mp h0).1
    rw [hcb, List.dropLast_append_of_ne_nil hne] at hf
    have := h3.unsealed (by
      rw [runBytesBound_eq] at hf ⊢
      rw [need_append, cnt_append] at hf
      omega)
    omega

theorem chain_atomic_full : chain_atomic_stmt := chain_atomic

/-- corollary in the vocabulary of the task: collision, or the run succeeds with the observation of the writer
    a from-fresh run of `bs` has, everything readable, clean tail -/
theorem chain_atomic_obs (info : SegInfo) (evs : List ChainEv) (hwf : ChainWF info evs) (hmin : info.min = info.base) :
    ChainCollision info evs
    ∨ ∃ w file bs w0 file0, chainRun info (freshSegment info) evs = .ok (w, file) ∧ chainSpec evs bs
        ∧ (freshSegment info).1.appendAll (freshSegment info).2 info.base bs = some (w0, file0) ∧ w.obs = w0.obs
        ∧ (∀ (k : Nat) (hk : k < bs.flatten.length) (bufSize : Nat), 8 ≤ bufSize →
              w.getLog file (info.base + k) bufSize = .ok (bs.flatten[k]'hk))
        ∧ (∀ (idx bufSize : Nat), info.base + bs.flatten.length ≤ idx → ∃ e, w.getLog file idx bufSize = .error e)
        ∧ (∀ x ∈ file.drop w.writeOffset, x = 0) := by
  rcases chain_atomic info evs hwf with h | ⟨w, file, bs, h⟩
  · exact Or.inl h
  · obtain ⟨w0, file0, h1, _, h3, _⟩ := h.asFresh
    exact Or.inr ⟨w, file, bs, w0, file0, h.run, h.spec, h1, h3, h.readable hmin,
      fun idx bufSize hi => (h.nothingAbove idx bufSize hi).2, h.clean⟩

/-! ## the side conditions are satisfiable: concrete chains

  Segment `base = 5`, 232 bytes preallocated.  Seven events: an acknowledged append of two entries; a torn append
  of which only the entry-header chunk lands (recovered as absent, its stale bytes are zeroed); a restart; a torn
  append of two entries all of whose chunks land (recovered whole); a torn append whose payload chunk is lost
  (absent); an acknowledged append of a 100-byte entry, which does not fit below `sizeLimit` with the index frame
  and therefore SEALS the segment (the file grows to 280 bytes); a restart of the sealed segment. -/

def chainExInfo : SegInfo :=
  { id := 7, base := 5, min := 5, max := 0, codec := 1, indexStart := 0, sizeLimit := 232, sealed := false }

def chainExEvs : List ChainEv :=
  [ .append [[1, 2, 3], [4, 5, 6, 7, 8, 9, 10, 11, 12]],
    .torn [[13, 14]] (fun j => j == 0),
    .restart,
    .torn [[15, 16, 17, 18, 19, 20, 21, 22, 23], [24]] (fun _ => true),
    .torn [[25]] (fun j => j != 1),
    .append [List.replicate 100 42],
    .restart ]

example : ChainWF chainExInfo chainExEvs where
  nonempty := by decide
  payload_le := by decide
  base_lt := by decide
  id_lt := by decide
  codec_lt := by decide
  limit_lt := by decide
  size_lt := by decide
  fits := by decide

/-- info: Except.ok ({ offsets := [32, 48, 80, 104, 128], writeOffset := 280, commitIdx := 9, indexStart := 248 }, 280) -/
#guard_msgs in
#eval (chainRun chainExInfo (freshSegment chainExInfo) chainExEvs).map (fun p => (p.1.obs, p.2.length))

/-- the same chain with the sealing append torn (chunk 3 lost: recovered as absent, the file stays 280 bytes long)
    and followed by a restart and one more append: outside `ChainWF.fits`, inside `ChainSizes`
    (`chain_atomic_gen` applies) -/
def chainExEvs2 : List ChainEv :=
  chainExEvs.take 5 ++ [.torn [List.replicate 100 42] (fun j => j != 3), .restart, .append [[1]]]

example : ChainSizes chainExInfo chainExEvs2 where
  nonempty := by decide
  payload_le := by decide
  base_lt := by decide
  id_lt := by decide
  codec_lt := by decide
  limit_lt := by decide
  size_lt := by decide

/-- info: Except.ok ({ offsets := [32, 48, 80, 104, 128], writeOffset := 152, commitIdx := 9, indexStart := 0 }, 280) -/
#guard_msgs in
#eval (chainRun chainExInfo (freshSegment chainExInfo) chainExEvs2).map (fun p => (p.1.obs, p.2.length))

/-- info: Except.error (RaftWal.SegErr.sealed) -/
#guard_msgs in
#eval (chainRun chainExInfo (freshSegment chainExInfo) (chainExEvs ++ [.append [[1]]])).map (fun p => (p.1.obs, p.2.length))

end RaftWal
