/-
  Proofs/FaultLemmasB1.lean — fault model, part B: what depends on which part of the disk; the `set` call.
-/
import RaftWal.Proofs.FaultStmt
namespace RaftWal.Fault.B
open RaftWal.Crash

/-! ### what the log and the invariant depend on -/

theorem segEntries_congr {d d' : Disk} (hf : d'.files = d.files) (s : Seg) : segEntries d' s = segEntries d s := by
  unfold segEntries Disk.file?
  rw [hf]

theorem absLog_congr {d d' : Disk} (hs : d'.md.segs = d.md.segs) (hf : d'.files = d.files) : absLog d' = absLog d := by
  unfold absLog
  rw [hs]
  exact flatMap_congr' (fun s _ => segEntries_congr hf s)

theorem finvRunB_congr {d d' : Disk} (hs : d'.md.segs = d.md.segs) (hn : d'.md.nextID = d.md.nextID)
    (hf : d'.files = d.files) : finvRunB d' = finvRunB d := by
  obtain ⟨⟨n, s, st⟩, fs⟩ := d
  obtain ⟨⟨n', s', st'⟩, fs'⟩ := d'
  simp only at hs hn hf
  subst hs hn hf
  unfold finvRunB quiescentSB quiescentB strip cleanTail
  simp only
  cases s'.getLast? with
  | none => rfl
  | some t => rfl

theorem finvStopB_congr {d d' : Disk} (segs0 : List Seg) (hs : d'.md.segs = d.md.segs)
    (hn : d'.md.nextID = d.md.nextID) (hf : d'.files = d.files) : finvStopB d' segs0 = finvStopB d segs0 := by
  obtain ⟨⟨n, s, st⟩, fs⟩ := d
  obtain ⟨⟨n', s', st'⟩, fs'⟩ := d'
  simp only at hs hn hf
  subst hs hn hf
  unfold finvStopB
  simp only
  rw [finvRunB_congr (d' := ⟨⟨n' - 1, segs0, st'⟩, fs'⟩) (d := ⟨⟨n' - 1, segs0, st⟩, fs'⟩) rfl rfl rfl]
  rfl

/-! ### `runActs` step by step -/

theorem runActs_nil (d : Disk) (pl : Plan) : runActs d [] pl = (d, none, pl) := by
  rcases pl with _ | ⟨_ | wf, pl⟩ <;> rfl

theorem runActs_cons_nil (d : Disk) (a : Act) (as : List Act) :
    runActs d (a :: as) [] = runActs (applyF d a) as [] := rfl

theorem runActs_cons_none (d : Disk) (a : Act) (as : List Act) (pl : Plan) :
    runActs d (a :: as) (none :: pl) = runActs (applyF d a) as pl := rfl

theorem runActs_commit_fail (d : Disk) (wf : WriteFail) (m : Meta) (as : List Act) (pl : Plan) :
    runActs d (.commit m :: as) (some wf :: pl) = (d, some (.commit m), pl) := rfl

theorem runActs_create_fail (d : Disk) (wf : WriteFail) (id b : Nat) (as : List Act) (pl : Plan) :
    runActs d (.create id b :: as) (some wf :: pl) = (d, some (.create id b), pl) := rfl

theorem runActs_delete_fail (d : Disk) (wf : WriteFail) (id : Nat) (as : List Act) (pl : Plan) :
    runActs d (.delete id :: as) (some wf :: pl) = runActs d as pl := rfl

@[simp] theorem applyF_commit (d : Disk) (m : Meta) : applyF d (.commit m) = { d with md := m } := rfl
@[simp] theorem applyF_delete (d : Disk) (id : Nat) : applyF d (.delete id) = d.apply (.delete id) := rfl
@[simp] theorem applyF_create (d : Disk) (id b : Nat) : applyF d (.create id b) = d.apply (.create id b) := rfl

/-! ### `set` -/

/-- the disk after a `set`: unchanged (the commit failed) or with the new stable store -/
theorem runOp_set (p : Proc) (key val : Nat) (pl : Plan) :
    ((runOp p (.set key val) pl).1 = p ∧ (runOp p (.set key val) pl).2 = false) ∨
    ((runOp p (.set key val) pl).1 =
        { p with disk := { p.disk with md := { p.disk.md with stable := upsert p.disk.md.stable key val } } } ∧
      (runOp p (.set key val) pl).2 = true) := by
  rcases pl with _ | ⟨_ | wf, pl⟩
  · exact Or.inr ⟨rfl, rfl⟩
  · refine Or.inr ⟨?_, ?_⟩
    · simp only [runOp, runActs_cons_none, runActs_nil, applyF_commit]
    · simp only [runOp, runActs_cons_none, runActs_nil, applyF_commit, Option.isNone_none]
  · exact Or.inl ⟨rfl, rfl⟩

theorem finvB_stable (p : Proc) (st : List (Nat × Nat)) :
    finvB { p with disk := { p.disk with md := { p.disk.md with stable := st } } } = finvB p := by
  obtain ⟨d, fr⟩ := p
  cases fr with
  | none => exact finvRunB_congr rfl rfl rfl
  | some segs0 => exact finvStopB_congr segs0 rfl rfl rfl

theorem view_stable (p : Proc) (st : List (Nat × Nat)) :
    view { p with disk := { p.disk with md := { p.disk.md with stable := st } } } = view p := by
  unfold view
  exact absLog_congr rfl rfl

theorem finv_call_set (p : Proc) (hi : FInv p) (key val : Nat) (_hok : OkV (view p) (.set key val)) (pl : Plan) : FInv (runOp p (.set key val) pl).1 := by
  rcases runOp_set p key val pl with ⟨h, _⟩ | ⟨h, _⟩
  · rw [h]; exact hi
  · rw [h]; unfold FInv; rw [finvB_stable]; exact hi

theorem call_view_set (p : Proc) (_hi : FInv p) (key val : Nat) (_hok : OkV (view p) (.set key val)) (pl : Plan) :
    view (runOp p (.set key val) pl).1 =
      if (runOp p (.set key val) pl).2 then specApply (view p) (.set key val) else view p := by
  rcases runOp_set p key val pl with ⟨h, h2⟩ | ⟨h, h2⟩
  · rw [h, h2]; rfl
  · rw [h, h2, view_stable]; rfl

theorem call_disklog_set (p : Proc) (_hi : FInv p) (key val : Nat) (_hok : OkV (view p) (.set key val))
    (pl : Plan) :
    absLog (runOp p (.set key val) pl).1.disk = view (runOp p (.set key val) pl).1 ∨
    ((runOp p (.set key val) pl).2 = false ∧
      absLog (runOp p (.set key val) pl).1.disk = specApply (view p) (.set key val)) ∨
    absLog (runOp p (.set key val) pl).1.disk =
      (if (runOp p (.set key val) pl).2 then specApply (absLog p.disk) (.set key val) else absLog p.disk) := by
  refine Or.inr (Or.inr ?_)
  rcases runOp_set p key val pl with ⟨h, h2⟩ | ⟨h, h2⟩
  · rw [h, h2]; rfl
  · rw [h, h2]
    exact absLog_congr rfl rfl

/-! ### the further conjuncts (`fextraB`) under `set` -/

theorem fextraRunB_congr {d d' : Disk} (hs : d'.md.segs = d.md.segs) (hf : d'.files = d.files) :
    fextraRunB d' = fextraRunB d := by
  obtain ⟨⟨n, s, st⟩, fs⟩ := d
  obtain ⟨⟨n', s', st'⟩, fs'⟩ := d'
  simp only at hs hf
  subst hs hf
  rfl

theorem fextraStopB_congr {d d' : Disk} (hs : d'.md.segs = d.md.segs) (hn : d'.md.nextID = d.md.nextID)
    (hf : d'.files = d.files) : fextraStopB d' = fextraStopB d := by
  obtain ⟨⟨n, s, st⟩, fs⟩ := d
  obtain ⟨⟨n', s', st'⟩, fs'⟩ := d'
  simp only at hs hn hf
  subst hs hn hf
  rfl

theorem fextraB_stable (p : Proc) (st : List (Nat × Nat)) :
    fextraB { p with disk := { p.disk with md := { p.disk.md with stable := st } } } = fextraB p := by
  obtain ⟨d, fr⟩ := p
  cases fr with
  | none => exact fextraRunB_congr rfl rfl
  | some segs0 => exact fextraStopB_congr rfl rfl rfl

theorem fextra_call_set (p : Proc) (hi : FInvS p) (key val : Nat) (_hok : OkV (view p) (.set key val))
    (pl : Plan) : fextraB (runOp p (.set key val) pl).1 = true := by
  rcases runOp_set p key val pl with ⟨h, _⟩ | ⟨h, _⟩
  · rw [h]; exact hi.2
  · rw [h, fextraB_stable]; exact hi.2

theorem finvS_call_set (p : Proc) (hi : FInvS p) (key val : Nat) (hok : OkV (view p) (.set key val))
    (pl : Plan) : FInvS (runOp p (.set key val) pl).1 :=
  ⟨finv_call_set p hi.1 key val hok pl, fextra_call_set p hi key val hok pl⟩

end RaftWal.Fault.B
