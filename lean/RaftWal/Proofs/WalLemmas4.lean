/-
  Proofs/WalLemmas4.lean — how the elementary state changes (directory updates, a fresh tail,
  `createNext`) act on the invariant.
-/
import RaftWal.Proofs.WalLemmas3
namespace RaftWal

theorem SegF.mono {cfg : WalCfg} {n n' F : Nat} {es : List Log} {c : SegS} {r : Rdr} {f : FileL}
    (h : SegF cfg n F es c r f) (hn : n ≤ n') : SegF cfg n' F es c r f :=
  { h with idlt := Nat.lt_of_lt_of_le h.idlt hn }

/-- the directory may change as long as the files of the live segments stay -/
theorem Core.files {cfg : WalCfg} {n n' : Nat} {segs : List (SegS × Rdr)} {files files' : List FileL} {F : Nat}
    {es : List Log} (h : Core cfg n segs files F es) (hn : n ≤ n') (hids : ∀ f ∈ files', f.id < n')
    (hsame : ∀ c r, (c, r) ∈ segs → fileOf files' c.id = fileOf files c.id) :
    Core cfg n' segs files' F es where
  cfgOK := h.cfgOK
  fileIds := hids
  segOK := by
    intro c r hm
    obtain ⟨f, hf, hs⟩ := h.segOK c r hm
    exact ⟨f, by rw [hsame c r hm]; exact hf, hs.mono hn⟩
  sorted := h.sorted
  headF := h.headF
  endE := by
    obtain ⟨t, f, hl, hf, hh⟩ := h.endE
    refine ⟨t, f, hl, ?_, hh⟩
    rw [hsame t.1 t.2 (List.mem_of_getLast? hl)]; exact hf
  cover := by
    intro idx h1 h2
    obtain ⟨c, r, f, hm, hf, h3, h4⟩ := h.cover idx h1 h2
    exact ⟨c, r, f, hm, by rw [hsame c r hm]; exact hf, h3, h4⟩
  bound := h.bound

theorem TailOpen.files {segs : List (SegS × Rdr)} {files files' : List FileL} (h : TailOpen segs files)
    (hsame : ∀ c r, (c, r) ∈ segs → fileOf files' c.id = fileOf files c.id) : TailOpen segs files' := by
  obtain ⟨t, r, f, hl, hs, hf, hi0⟩ := h
  exact ⟨t, r, f, hl, hs, by rw [hsame t r (List.mem_of_getLast? hl)]; exact hf, hi0⟩

/-- unlinking files that no live segment names -/
theorem Core.filter {cfg : WalCfg} {n : Nat} {segs : List (SegS × Rdr)} {files : List FileL} {F : Nat}
    {es : List Log} (h : Core cfg n segs files F es) (q : Nat → Bool)
    (hq : ∀ c r, (c, r) ∈ segs → q c.id = true) :
    Core cfg n segs (files.filter (fun f => q f.id)) F es := by
  apply h.files (Nat.le_refl _)
  · intro f hf
    exact h.fileIds f (List.mem_filter.mp hf).1
  · intro c r hm
    rw [fileOf_filter, hq c r hm]; rfl

theorem TailOpen.filter {segs : List (SegS × Rdr)} {files : List FileL} (h : TailOpen segs files)
    (q : Nat → Bool) (hq : ∀ c r, (c, r) ∈ segs → q c.id = true) :
    TailOpen segs (files.filter (fun f => q f.id)) := by
  apply h.files
  intro c r hm
  rw [fileOf_filter, hq c r hm]; rfl

/-- a single empty tail represents the empty log -/
theorem Core.fresh {cfg : WalCfg} (hcfg : cfg.newSegCodec = cfg.codecId) {n : Nat} {files : List FileL}
    {c : SegS} {f : FileL} {b : Nat}
    (hids : ∀ f ∈ files, f.id < n) (hf : fileOf files c.id = some f)
    (hid : c.id < n) (hb : c.base = b) (hmin : c.min = b) (hmax : c.max = 0) (hsl : c.sealed = false)
    (hcodec : c.codec = cfg.newSegCodec) (hfb : f.base = b) (hfc : f.codec = c.codec) (hfe : f.entries = [])
    (hfi : f.indexStart = 0) (hb1 : 1 ≤ b) (hb2 : b ≤ 2^64 - 1) :
    Core cfg n [(c, .writer b)] files b [] ∧ TailOpen [(c, .writer b)] files := by
  have hhi : hi c f = b := by simp [hi, hsl, hfb, hfe]
  refine ⟨?_, ⟨c, .writer b, f, rfl, hsl, hf, hfi⟩⟩
  refine ⟨hcfg, hids, ?_, by simp, ⟨(c, .writer b), rfl, hmin⟩, ⟨(c, .writer b), f, rfl, hf, by simpa using hhi⟩, ?_, by simpa using hb2⟩
  · intro c' r' hm
    simp at hm
    obtain ⟨rfl, rfl⟩ := hm
    refine ⟨f, hf, ?_⟩
    refine ⟨by omega, hfc, by rw [hcodec, hcfg], hid, by omega, by omega, by omega, ?_, ?_, ?_, ?_⟩
    · intro h; simp [hsl] at h
    · intro _; exact ⟨hmax, Or.inl (by omega)⟩
    · simp [RdrOK, hmin]
    · intro idx h1 h2
      rw [hhi] at h2; omega
  · intro idx h1 h2
    simp at h2; omega

theorem u64_of_lt {n : Nat} (h : n < 2^64) : u64 n = n := Nat.mod_eq_of_lt h

theorem createNext_some (w : Wal) (nb : Nat) (hids : ∀ f ∈ w.files, f.id < w.nextID) (b : Nat)
    (hb : (w.segs.getLast? = none ∧ b = if nb > 0 then nb else 1) ∨
          (∃ t r, w.segs.getLast? = some (t, r) ∧ b = u64 (t.max + 1))) (hb0 : b ≠ 0) :
    w.createNext nb = some { w with
      nextID := w.nextID + 1
      segs := w.segs ++ [({ id := w.nextID, base := b, min := b, max := 0, indexStart := 0, sealed := false,
                            codec := w.cfg.newSegCodec, sizeLimit := u32 w.cfg.segmentSize }, .writer b)]
      files := w.files ++ [{ id := w.nextID, base := b, codec := w.cfg.newSegCodec, entries := [], wsize := 0, indexStart := 0 }] } := by
  have hany : ∀ b', ¬ (b = 0 ∨ (w.files.any (fun f => f.id = (w.newSeg w.nextID b').id ∧ f.base = (w.newSeg w.nextID b').base)) = true) := by
    intro b' h
    rcases h with h | h
    · exact hb0 h
    · rw [List.any_eq_true] at h
      obtain ⟨f, hf, hp⟩ := h
      have := hids f hf
      have hp' := of_decide_eq_true hp
      simp only [Wal.newSeg] at hp'
      omega
  rcases hb with ⟨hl, rfl⟩ | ⟨t, r, hl, rfl⟩
  · unfold Wal.createNext
    simp only [hl]
    rw [if_neg (hany _)]
    rfl
  · unfold Wal.createNext
    simp only [hl]
    rw [if_neg (hany _)]
    rfl

/-- `createNext` on an empty segment map -/
theorem createNext_empty (w : Wal) (nb : Nat) (hs : w.segs = []) (hcfg : w.cfg.newSegCodec = w.cfg.codecId)
    (hids : ∀ f ∈ w.files, f.id < w.nextID) (hnb : nb ≤ 2^64 - 1) :
    ∃ w' b, w.createNext nb = some w' ∧ w'.cfg = w.cfg ∧ w'.closed = w.closed ∧
      1 ≤ b ∧ (0 < nb → b = nb) ∧
      Core w'.cfg w'.nextID w'.segs w'.files b [] ∧ TailOpen w'.segs w'.files ∧
      (∀ c r, (c, r) ∈ w'.segs → c.id = w.nextID) ∧ w'.nextID = w.nextID + 1 := by
  obtain ⟨b, hb⟩ : ∃ b, b = if nb > 0 then nb else 1 := ⟨_, rfl⟩
  have hb1 : 1 ≤ b := by rw [hb]; split <;> omega
  have hb2 : b ≤ 2^64 - 1 := by rw [hb]; split <;> omega
  have hcn := createNext_some w nb hids b (Or.inl ⟨by rw [hs]; rfl, hb⟩) (by omega)
  refine ⟨_, b, hcn, rfl, rfl, hb1, by intro h; rw [hb, if_pos h], ?_⟩
  simp only [hs, List.nil_append]
  have hfr := Core.fresh (cfg := w.cfg) hcfg (n := w.nextID + 1)
    (files := w.files ++ [{ id := w.nextID, base := b, codec := w.cfg.newSegCodec, entries := [], wsize := 0, indexStart := 0 }])
    (c := { id := w.nextID, base := b, min := b, max := 0, indexStart := 0, sealed := false, codec := w.cfg.newSegCodec, sizeLimit := u32 w.cfg.segmentSize })
    (f := { id := w.nextID, base := b, codec := w.cfg.newSegCodec, entries := [], wsize := 0, indexStart := 0 })
    (b := b)
    (by
      intro f hf
      rcases List.mem_append.mp hf with h | h
      · have := hids f h; omega
      · simp at h; subst h; simp)
    (fileOf_append_new hids _ rfl) (by simp) rfl rfl rfl rfl rfl rfl rfl rfl rfl hb1 hb2
  refine ⟨hfr.1, hfr.2, ?_, trivial⟩
  intro c r hm
  simp at hm
  rw [hm.1]

/-- `createNext` after the last segment has been sealed -/
theorem createNext_sealed (w : Wal) (nb : Nat) {F : Nat} {es : List Log}
    (hc : Core w.cfg w.nextID w.segs w.files F es)
    (hl : ∃ c r, w.segs.getLast? = some (c, r) ∧ c.sealed = true) :
    ∃ w', w.createNext nb = some w' ∧ w'.cfg = w.cfg ∧ w'.closed = w.closed ∧
      Core w'.cfg w'.nextID w'.segs w'.files F es ∧ TailOpen w'.segs w'.files ∧
      (∀ c r, (c, r) ∈ w'.segs → (c, r) ∈ w.segs ∨ c.id = w.nextID) ∧ w'.nextID = w.nextID + 1 ∧
      (∀ id, id < w.nextID → fileOf w'.files id = fileOf w.files id) := by
  obtain ⟨c, r, hlast, hsl⟩ := hl
  obtain ⟨pre, hpre⟩ := List.getLast?_eq_some_iff.mp hlast
  obtain ⟨t', f', hl', hf', hhi⟩ := hc.endE
  rw [hlast] at hl'; cases hl'
  simp only [hi, hsl, if_true] at hhi
  have hbound := hc.bound
  obtain ⟨fc, hfc, hsc⟩ := hc.segOK c r (by rw [hpre]; simp)
  rw [hf'] at hfc; cases hfc
  have hu : u64 (c.max + 1) = c.max + 1 := u64_of_lt (by omega)
  have hcn := createNext_some w nb hc.fileIds (c.max + 1) (Or.inr ⟨c, r, hlast, hu.symm⟩) (by omega)
  refine ⟨_, hcn, rfl, rfl, ?_, ?_, ?_, rfl, ?_⟩
  · have hsame : ∀ c' r', (c', r') ∈ w.segs →
        fileOf (w.files ++ [({ id := w.nextID, base := c.max + 1, codec := w.cfg.newSegCodec, entries := [], wsize := 0, indexStart := 0 } : FileL)]) c'.id = fileOf w.files c'.id := by
      intro c' r' hm
      obtain ⟨f, hf, _⟩ := hc.segOK c' r' hm
      rw [hf]; exact fileOf_append_of_some _ hf
    have hids' : ∀ f ∈ w.files ++ [({ id := w.nextID, base := c.max + 1, codec := w.cfg.newSegCodec, entries := [], wsize := 0, indexStart := 0 } : FileL)], f.id < w.nextID + 1 := by
      intro f hf
      rcases List.mem_append.mp hf with h | h
      · have := hc.fileIds f h; omega
      · simp at h; subst h; simp
    have hc' := hc.files (Nat.le_succ _) hids' hsame
    refine ⟨hc.cfgOK, hids', ?_, ?_, ?_, ?_, ?_, hc.bound⟩
    · intro c' r' hm
      rcases List.mem_append.mp hm with h | h
      · exact hc'.segOK c' r' h
      · simp at h
        obtain ⟨rfl, rfl⟩ := h
        refine ⟨_, fileOf_append_new hc.fileIds _ rfl, ?_⟩
        refine ⟨rfl, rfl, hc.cfgOK, by simp, by simp, by simp, ?_, ?_, ?_, ?_, ?_⟩
        · have := hsc.Fmin; have := (hsc.sealedOK hsl).1; simp; omega
        · intro h; simp at h
        · intro _; simp
        · simp [RdrOK]
        · intro idx h1 h2
          simp [hi] at h1 h2; omega
    · rw [List.pairwise_append]
      refine ⟨hc.sorted, by simp, ?_⟩
      intro a ha b hb
      simp at hb; subst hb
      obtain ⟨fa, _, hsa⟩ := hc.segOK a.1 a.2 ha
      have hida := hsa.idlt
      rw [hpre] at ha
      rcases List.mem_append.mp ha with h | h
      · have hs := hc.sorted
        rw [hpre, List.pairwise_append] at hs
        have := hs.2.2 a h (c, r) (by simp)
        have hb1 := hsc.basemin
        have hb2 := (hsc.sealedOK hsl).1
        refine ⟨this.1, ?_, rfl, ?_⟩
        · have := this.2.1; simp at this ⊢; omega
        · simp; omega
      · simp at h; subst h
        refine ⟨hsl, by simp, rfl, ?_⟩
        simp at hida ⊢; omega
    · obtain ⟨c0, hh, hF⟩ := hc.headF
      refine ⟨c0, ?_, hF⟩
      obtain ⟨rest, hrest⟩ := List.head?_eq_some_iff.mp hh
      rw [hrest]; rfl
    · refine ⟨_, _, List.getLast?_concat, fileOf_append_new hc.fileIds _ rfl, ?_⟩
      simp [hi]; omega
    · intro idx h1 h2
      obtain ⟨c', r', f, hm, hf, h3, h4⟩ := hc'.cover idx h1 h2
      exact ⟨c', r', f, List.mem_append_left _ hm, hf, h3, h4⟩
  · exact ⟨_, _, _, List.getLast?_concat, rfl, fileOf_append_new hc.fileIds _ rfl, rfl⟩
  · intro c' r' hm
    rcases List.mem_append.mp hm with h | h
    · exact Or.inl h
    · simp at h; exact Or.inr (by rw [h.1])
  · intro id hid
    simp only [fileOf, List.find?_append]
    have : ¬ w.nextID = id := by omega
    simp [this]

end RaftWal
