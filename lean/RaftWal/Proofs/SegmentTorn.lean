/-
  Proofs/SegmentTorn.lean — crash atomicity of one in-flight append at the byte level (L1):
  whatever subset of its 8-byte chunks reached the disk, recovery yields the segment without the
  batch or with the whole batch — never a part of it, never anything else.

  RESULT.  The statement as first written (`TornAtomicOriginal` below) is FALSE for the first batch of a
  segment (`bs = []`): there the CRC of the commit frame covers the file header, but `recoverTail` validates
  the header separately, so an image with a missing header chunk whose batch region happens to have the
  intended CRC-32C makes recovery fail with `.error .corrupt` instead of returning a state
  (`recover_torn_atomic_original_false`, a concrete 64-byte counterexample checked by the kernel).
  Proved instead:
    * `recover_torn_atomic_partial`   the original conclusion verbatim, for `bs ≠ []`;
    * `recover_torn_atomic_hdr`       the original conclusion verbatim, for every `bs`, if the header of the image
                                      validates (always the case for `bs ≠ []`);
    * `recover_torn_atomic_corrected` every `bs`, the conclusion weakened by the one extra outcome
                                      "first batch, CRC collision, header torn, recovery refuses with ErrCorrupt";
    * `recover_torn_cases`            the case analysis all of them follow from.
  Helper lemmas: Proofs/Segment/Torn.lean.
-/
import RaftWal.Proofs.SegmentL1
import RaftWal.Proofs.Segment.Torn
namespace RaftWal
open Spec (Acc Batch addEntry addBatch)

/-- the bytes of the in-flight batch as recovery validates them: from the end of the previous commit
    (the start of the file for the first batch) to the batch's commit frame -/
def batchRegion (img : Bytes) (start stop : Nat) : Bytes := readAt img start (stop - 8 - start)

/-! ## the statement as first written, and why it is false -/

/-- **C01/C02 (L1) torn-write atomicity, as first stated (FALSE for `bs = []`).** After any run of completed
    appends `bs` on a fresh segment (so everything behind the write offset is still zero), let one more batch `b`
    be written but not yet fsynced when power is lost, with an arbitrary subset `mask` of its 8-byte chunks on
    disk. Then recovery succeeds and
      * either restores exactly the state before the append (same offsets, write offset, commit index,
        not sealed by this batch) and leaves the file exactly as it was before the append,
      * or restores exactly the state after the append, and then the image carries the complete batch —
        or its batch region differs from the intended one while having the same CRC-32C (a checksum collision,
        the only residual the format admits). -/
def TornAtomicOriginal : Prop :=
  ∀ (info : SegInfo) (bs : List (List Bytes)) (b : List Bytes)
    (_hwf : RunWF info (bs ++ [b]))
    (w : Writer) (file : Bytes)
    (_hrun : (freshSegment info).1.appendAll (freshSegment info).2 info.base bs = some (w, file))
    (w' : Writer) (file' : Bytes)
    (_happ : w.append file (indexBatch (info.base + bs.flatten.length) b) .none = (none, w', file'))
    (mask : Nat → Bool),
    let img := tearImage file file' w.writeOffset (w'.writeOffset - w.writeOffset) mask
    ∃ wr img', recoverTail info img = .ok (wr, img') ∧
      ((wr.obs = w.obs ∧ img' = file ++ zeros (file'.length - file.length)) ∨
       (wr.obs = w'.obs ∧ img' = img ∧
          (img = file' ∨
           (batchRegion img w.writeOffset w'.writeOffset ≠ batchRegion file' w.writeOffset w'.writeOffset ∧
            crc32c (batchRegion img w.writeOffset w'.writeOffset) =
              crc32c (batchRegion file' w.writeOffset w'.writeOffset)))))

/-! ### counterexample: first batch, one header chunk and the payload chunk missing, same CRC-32C

  Segment `base = 5, id = 7, codec = 1`, 64 bytes preallocated; the first batch is one entry with the 8-byte
  payload `00 00 00 00 4c 55 fe fc`.  The append writes 56 bytes at offset 0: file header (chunks 0–3), entry
  header (4), payload (5), commit frame (6) with CRC-32C `0x75c71ddf` over bytes 0..48.  If all chunks but 1
  (the `BaseIndex` field of the file header) and 5 (the payload) land, bytes 0..48 of the image have the same
  CRC-32C `0x75c71ddf` (the payload was chosen that way), so the commit validates; the header then reads
  `BaseIndex = 0 ≠ 5` and `recoverTail` returns `ErrCorrupt`. -/

def cexInfo : SegInfo :=
  { id := 7, base := 5, min := 5, max := 0, codec := 1, indexStart := 0, sizeLimit := 64, sealed := false }
def cexBatch : List Bytes := [[0, 0, 0, 0, 76, 85, 254, 252]]
def cexMask : Nat → Bool := fun j => j != 1 && j != 5
def cexAfter : Option SegErr × Writer × Bytes :=
  (freshSegment cexInfo).1.append (freshSegment cexInfo).2 (indexBatch (cexInfo.base + ([] : List (List Bytes)).flatten.length) cexBatch) .none
def cexImg : Bytes :=
  tearImage (freshSegment cexInfo).2 cexAfter.2.2 (freshSegment cexInfo).1.writeOffset
    (cexAfter.2.1.writeOffset - (freshSegment cexInfo).1.writeOffset) cexMask

def isCorrupt {α} : Except SegErr α → Bool
  | .error .corrupt => true
  | _ => false

/--
info: (none,
 56,
 [13, 107, 235, 88, 0, 0, 0, 0, 0, 0, 0, 0, 0, 0, 0, 0, 7, 0, 0, 0, 0, 0, 0, 0, 1, 0, 0, 0, 0, 0, 0, 0, 1, 0, 0, 0, 8,
  0, 0, 0, 0, 0, 0, 0, 0, 0, 0, 0, 3, 0, 0, 0, 223, 29, 199, 117, 0, 0, 0, 0, 0, 0, 0, 0],
 Except.error (RaftWal.SegErr.corrupt))
-/
#guard_msgs in
#eval (cexAfter.1, cexAfter.2.1.writeOffset, cexImg, (recoverTail cexInfo cexImg).map (fun p => p.1.obs))

/-- info: (1975983583, 1975983583, false) -/
#guard_msgs in
#eval ((crc32c (batchRegion cexImg 0 56)).toNat, (crc32c (batchRegion cexAfter.2.2 0 56)).toNat,
  decide (batchRegion cexImg 0 56 = batchRegion cexAfter.2.2 0 56))

theorem cex_append_ok : cexAfter.1 = none := by decide +kernel
theorem cex_recover_corrupt : isCorrupt (recoverTail cexInfo cexImg) = true := by decide +kernel

theorem cex_wf : RunWF cexInfo ([] ++ [cexBatch]) where
  nonempty := by intro b hb; simp [cexBatch] at hb; subst hb; simp
  base_lt := by decide
  id_lt := by decide
  codec_lt := by decide
  limit_lt := by decide
  size_lt := by decide

/-- the statement as first written does not hold -/
theorem recover_torn_atomic_original_false : ¬ TornAtomicOriginal := by
  intro h
  have happ : (freshSegment cexInfo).1.append (freshSegment cexInfo).2
      (indexBatch (cexInfo.base + ([] : List (List Bytes)).flatten.length) cexBatch) .none
      = (none, cexAfter.2.1, cexAfter.2.2) := by
    have : cexAfter = (cexAfter.1, cexAfter.2.1, cexAfter.2.2) := rfl
    rw [cex_append_ok] at this
    exact this
  obtain ⟨wr, img', hr, _⟩ := h cexInfo [] cexBatch cex_wf _ _ rfl _ _ happ cexMask
  have hc := cex_recover_corrupt
  rw [show cexImg = tearImage (freshSegment cexInfo).2 cexAfter.2.2 (freshSegment cexInfo).1.writeOffset
    (cexAfter.2.1.writeOffset - (freshSegment cexInfo).1.writeOffset) cexMask from rfl, hr] at hc
  cases hc

/-! ## what holds -/

/-- **C01/C02 (L1) torn-write atomicity, complete case analysis.** For every mask of landed 8-byte chunks
    recovery either succeeds with the state before the append (file as before) or the state after it (image
    unchanged; the image is complete or its batch region is a CRC-32C collision of the intended one), or — only
    for the first batch of the segment, only under such a collision, only if the torn file header no longer
    validates — refuses with `ErrCorrupt`. -/
theorem recover_torn_cases (info : SegInfo) (bs : List (List Bytes)) (b : List Bytes)
    (hwf : RunWF info (bs ++ [b]))
    (w : Writer) (file : Bytes)
    (hrun : (freshSegment info).1.appendAll (freshSegment info).2 info.base bs = some (w, file))
    (w' : Writer) (file' : Bytes)
    (happ : w.append file (indexBatch (info.base + bs.flatten.length) b) .none = (none, w', file'))
    (mask : Nat → Bool) :
    let img := tearImage file file' w.writeOffset (w'.writeOffset - w.writeOffset) mask
    (∃ wr img', recoverTail info img = .ok (wr, img') ∧
      ((wr.obs = w.obs ∧ img' = file ++ zeros (file'.length - file.length)) ∨
       (wr.obs = w'.obs ∧ img' = img ∧
          (img = file' ∨
           (batchRegion img w.writeOffset w'.writeOffset ≠ batchRegion file' w.writeOffset w'.writeOffset ∧
            crc32c (batchRegion img w.writeOffset w'.writeOffset) =
              crc32c (batchRegion file' w.writeOffset w'.writeOffset))))))
    ∨ (bs = [] ∧ recoverTail info img = .error .corrupt
        ∧ validateFileHeader (scanHeader img) info.hdr = false
        ∧ batchRegion img w.writeOffset w'.writeOffset ≠ batchRegion file' w.writeOffset w'.writeOffset
        ∧ crc32c (batchRegion img w.writeOffset w'.writeOffset) =
              crc32c (batchRegion file' w.writeOffset w'.writeOffset)) := by
  intro img
  obtain ⟨s, hI, hI', hcb', hlt, hcb, hlen, hrun'⟩ := torn_setup info bs b hwf w file hrun w' file' happ
  have hA' := addBatch_bytes ((ackBatches bs).foldl addBatch (acc0 info)) ⟨b, s⟩
  obtain ⟨k', kb, hf', hf, himg⟩ := torn_image _ hI hI' hcb' hA' mask
  have hU' := untorn_ok (recover_untorn info (bs ++ [b]) hwf w' file' hrun')
  have hU := untorn_ok (recover_untorn info bs hwf.init w file hrun)
  have hwo' : w'.writeOffset = (addBatch ((ackBatches bs).foldl addBatch (acc0 info)) ⟨b, s⟩).bytes.length := by
    have := hI'.bytes_length; rw [hcb'] at this; simpa using this.symm
  have hltA' : (addBatch ((ackBatches bs).foldl addBatch (acc0 info)) ⟨b, s⟩).bytes.length < 2^32 := by
    rw [List.foldl_append] at hlt; exact hlt
  have h0 : (acc0 info).bytes.length = 32 := specHeader_length _ _ _
  have hrel0 : RecRel (acc0 info) {} := ⟨rfl, rfl, rfl, Nat.zero_le _⟩
  have himglen : img.length = file'.length := by simp [img, tearImage]
  have hinfo : info.base < 2^64 ∧ info.id < 2^64 ∧ info.codec < 2^64 := ⟨hwf.base_lt, hwf.id_lt, hwf.codec_lt⟩
  have hAb := foldl_addBatch_bytes (acc0 info) (ackBatches bs)
  have hv' : validateFileHeader (scanHeader file') info.hdr = true := by
    rw [hf', hA', hAb]; simp only [List.append_assoc]; exact header_valid info hinfo _
  have hcs := hI.cs
  replace himg : img = _ := himg
  by_cases hne : bs = []
  · subst hne
    obtain ⟨rfl, rfl⟩ := run_empty info w file hrun
    have hcbw : (freshSegment info).1.commitBuf = (acc0 info).bytes := fileHeader_eq info.hdr
    have hw0 : (freshSegment info).1.writeOffset = 0 := rfl
    rw [hw0, hcbw, List.take_zero] at himg
    have himg2 := himg
    rw [List.nil_append, tornFrom_append, Nat.zero_add, h0, List.append_assoc] at himg2
    rcases torn_cases (acc0 info) h0 [] ⟨b, s⟩ hlt (tornFrom mask 0 (acc0 info).bytes) (by rw [tornFrom_length, h0])
        mask 32 ⟨4, rfl⟩ k' {} rfl hrel0 img file' himg2 hf'
      with ⟨extra, ho, hfind⟩ | ⟨c', hsf, hfi, hff', hoff, hcrc, X, hX1, hX2⟩
    · -- no valid commit: the empty segment
      left
      have hr := recoverTail_none info img _ rfl hfind
      refine ⟨_, _, hr, Or.inl ⟨rfl, ?_⟩⟩
      have := clearStale_before [] img (zeros info.sizeLimit) 0 info.sizeLimit rfl rfl
        (by rw [List.nil_append, himglen]; exact hlen)
      rw [List.nil_append, himglen] at this
      exact this
    · have hcl : clearStale img w'.writeOffset = img := by
        rw [himg2, ← List.append_assoc]
        exact clearStale_self _ _ _ (by
          rw [hwo', hA', List.length_append, List.length_append, tornFrom_length, tornFrom_length]; rfl)
      have hcrc' : crc32c (batchRegion img (freshSegment info).1.writeOffset w'.writeOffset)
          = crc32c (batchRegion file' (freshSegment info).1.writeOffset w'.writeOffset) := by
        rw [batchRegion, batchRegion, ← hcs, hwo']; exact hcrc
      have heq : batchRegion img (freshSegment info).1.writeOffset w'.writeOffset
          = batchRegion file' (freshSegment info).1.writeOffset w'.writeOffset → img = file' := by
        intro hreg
        have e2 : w'.writeOffset = ([] : Bytes).length
            + ((acc0 info).bytes ++ encAll (batchFrames ((ackBatches []).foldl addBatch (acc0 info)) ⟨b, s⟩)).length := by
          rw [hwo', hA', List.length_append, List.length_append, List.length_nil, Nat.zero_add]; rfl
        rw [hw0, e2] at hreg
        exact torn_region_eq [] _ _ X mask k' hX1 (by rw [h0]; exact hX2) img file' himg
          (by rw [hf', hA']; rfl) hreg
      rcases torn_after info w'.obs img file' c' (freshSegment info).1.writeOffset w'.writeOffset hU' hsf hfi hff'
        (by rw [hwo']; exact hoff) (by rw [hwo']; exact hltA') hv' hcl hcrc' heq
        with ⟨wr, img', h1, h2, h3, h4⟩ | ⟨h1, h2, h3, h4⟩
      · exact Or.inl ⟨wr, img', h1, Or.inr ⟨h2, h3, h4⟩⟩
      · exact Or.inr ⟨rfl, h1, h2, h3, h4⟩
  · left
    have hcbw := hcb hne
    have hP : file.take w.writeOffset = ((ackBatches bs).foldl addBatch (acc0 info)).bytes := by
      have := hI.bytes; rw [hcbw, List.append_nil] at this; exact this.symm
    have hwo : w.writeOffset = ((ackBatches bs).foldl addBatch (acc0 info)).bytes.length := by
      have := hI.bytes_length; rw [hcbw] at this; simpa using this.symm
    rw [hP, hcbw, List.nil_append] at himg
    rw [hP] at hf
    have hltA : ((ackBatches bs).foldl addBatch (acc0 info)).bytes.length < 2^32 := by
      rw [hA', List.length_append] at hltA'; omega
    have hwf0 : ∀ f ∈ allFrames (acc0 info) (ackBatches bs), f.WF := allFrames_wf _ _ hltA
    have hrel := hrel0.foldl (ackBatches bs) hltA
    rw [h0] at hrel
    obtain ⟨init, l, hsplit⟩ : ∃ init l, bs = init ++ [l] :=
      ⟨bs.dropLast, bs.getLast hne, (List.dropLast_concat_getLast hne).symm⟩
    have hxs : ackBatches bs = ackBatches init ++ [⟨l, false⟩] := by rw [hsplit]; simp [ackBatches]
    obtain ⟨c1, rest, hc1, hc1off, hc1len, hc1v⟩ :=
      fold_layout_last (acc0 info) hrel0 (ackBatches init) ⟨l, false⟩ (by rw [← hxs]; exact hltA)
    rw [← hxs, h0] at hc1 hc1len
    rw [← hxs] at hc1off hc1v
    have himg2 : img = (acc0 info).bytes ++ (encAll (allFrames (acc0 info) (ackBatches bs))
        ++ (tornFrom mask 0 (encAll (batchFrames ((ackBatches bs).foldl addBatch (acc0 info)) ⟨b, s⟩)) ++ zeros k')) := by
      rw [himg, hAb, List.append_assoc]
    have hvimg : validateFileHeader (scanHeader img) info.hdr = true := by
      rw [himg2]; exact header_valid info hinfo _
    rcases torn_cases (acc0 info) h0 _ ⟨b, s⟩ hlt (acc0 info).bytes h0 mask 0 (Nat.dvd_zero 8) k' _ rfl hrel img file' himg2 hf'
      with ⟨extra, ho, hfind⟩ | ⟨c', hsf, hfi, hff', hoff, hcrc, X, hX1, hX2⟩
    · -- recovery settles on the last acknowledged commit
      have hv1 : commitValid img c1 = true := by rw [himg]; exact hc1v _
      rw [hc1, List.find?_cons_of_pos hv1] at hfind
      have hr := recoverTail_some info img _ c1 rfl hfind
      rw [if_pos hvimg, ho, recW_offsets_ext _ _ _ _ hc1len] at hr
      have hsfile : scanFold file = (offsetsOf 32 (allFrames (acc0 info) (ackBatches bs))).foldl recStep {} := by
        rw [hf, hAb, List.append_assoc]
        exact scanFold_frames (acc0 info).bytes h0 _ [] hwf0 (fun f hf => by cases hf) (zeros kb) (stopTail_zeros kb)
      have hv1f : commitValid file c1 = true := by rw [hf]; exact hc1v _
      have hvfile : validateFileHeader (scanHeader file) info.hdr = true := by
        rw [hf, hAb, List.append_assoc]; exact header_valid info hinfo _
      have hrf := recoverTail_some info file _ c1 hsfile (by rw [hc1]; exact List.find?_cons_of_pos hv1f)
      rw [if_pos hvfile] at hrf
      obtain ⟨wr, hw1, hw2⟩ := hU
      rw [hrf] at hw1
      injection hw1 with hw1
      injection hw1 with hwr _
      have hu : u32 (c1.offset + frameHeaderLen) = w.writeOffset := by
        rw [hwo, ← hc1off]; exact Nat.mod_eq_of_lt (by rw [frameHeaderLen, hc1off]; exact hltA)
      refine ⟨_, _, hr, Or.inl ⟨by rw [hwr]; exact hw2, ?_⟩⟩
      rw [hu, ← himglen, himg]
      exact clearStale_before _ _ file _ kb hwo.symm hf (by rw [← himg, himglen]; exact hlen)
    · -- recovery settles on the in-flight commit
      have hcl : clearStale img w'.writeOffset = img := by
        rw [himg, ← List.append_assoc]
        exact clearStale_self _ _ _ (by rw [hwo', hA', List.length_append, List.length_append, tornFrom_length])
      have hcrc' : crc32c (batchRegion img w.writeOffset w'.writeOffset)
          = crc32c (batchRegion file' w.writeOffset w'.writeOffset) := by
        rw [batchRegion, batchRegion, ← hcs, hwo']; exact hcrc
      have heq : batchRegion img w.writeOffset w'.writeOffset = batchRegion file' w.writeOffset w'.writeOffset
          → img = file' := by
        intro hreg
        have e2 : w'.writeOffset = ((ackBatches bs).foldl addBatch (acc0 info)).bytes.length
            + (([] : Bytes) ++ encAll (batchFrames ((ackBatches bs).foldl addBatch (acc0 info)) ⟨b, s⟩)).length := by
          rw [hwo', hA', List.length_append]; rfl
        rw [hwo, e2] at hreg
        exact torn_region_eq _ [] _ X mask k' hX1 hX2 img file' himg (by rw [hf', hA', List.append_assoc]; rfl) hreg
      rcases torn_after info w'.obs img file' c' w.writeOffset w'.writeOffset hU' hsf hfi hff' (by rw [hwo']; exact hoff)
        (by rw [hwo']; exact hltA') hv' hcl hcrc' heq with ⟨wr, img', h1, h2, h3, h4⟩ | ⟨_, hbad, _⟩
      · exact ⟨wr, img', h1, Or.inr ⟨h2, h3, h4⟩⟩
      · rw [hvimg] at hbad; cases hbad

/-- **C01/C02 (L1) torn-write atomicity, corrected statement** (the third outcome is the minimal weakening
    of `TornAtomicOriginal` that is true). -/
theorem recover_torn_atomic_corrected (info : SegInfo) (bs : List (List Bytes)) (b : List Bytes)
    (hwf : RunWF info (bs ++ [b]))
    (w : Writer) (file : Bytes)
    (hrun : (freshSegment info).1.appendAll (freshSegment info).2 info.base bs = some (w, file))
    (w' : Writer) (file' : Bytes)
    (happ : w.append file (indexBatch (info.base + bs.flatten.length) b) .none = (none, w', file'))
    (mask : Nat → Bool) :
    let img := tearImage file file' w.writeOffset (w'.writeOffset - w.writeOffset) mask
    (∃ wr img', recoverTail info img = .ok (wr, img') ∧
      ((wr.obs = w.obs ∧ img' = file ++ zeros (file'.length - file.length)) ∨
       (wr.obs = w'.obs ∧ img' = img ∧
          (img = file' ∨
           (batchRegion img w.writeOffset w'.writeOffset ≠ batchRegion file' w.writeOffset w'.writeOffset ∧
            crc32c (batchRegion img w.writeOffset w'.writeOffset) =
              crc32c (batchRegion file' w.writeOffset w'.writeOffset))))))
    ∨ (bs = [] ∧ recoverTail info img = .error .corrupt
        ∧ batchRegion img w.writeOffset w'.writeOffset ≠ batchRegion file' w.writeOffset w'.writeOffset
        ∧ crc32c (batchRegion img w.writeOffset w'.writeOffset) =
              crc32c (batchRegion file' w.writeOffset w'.writeOffset)) := by
  intro img
  rcases recover_torn_cases info bs b hwf w file hrun w' file' happ mask with h | ⟨h1, h2, _, h4, h5⟩
  · exact Or.inl h
  · exact Or.inr ⟨h1, h2, h4, h5⟩

/-- **C01/C02 (L1) torn-write atomicity** with the conclusion of `TornAtomicOriginal` verbatim, for every image
    whose file header validates. -/
theorem recover_torn_atomic_hdr (info : SegInfo) (bs : List (List Bytes)) (b : List Bytes)
    (hwf : RunWF info (bs ++ [b]))
    (w : Writer) (file : Bytes)
    (hrun : (freshSegment info).1.appendAll (freshSegment info).2 info.base bs = some (w, file))
    (w' : Writer) (file' : Bytes)
    (happ : w.append file (indexBatch (info.base + bs.flatten.length) b) .none = (none, w', file'))
    (mask : Nat → Bool)
    (hhdr : validateFileHeader
      (scanHeader (tearImage file file' w.writeOffset (w'.writeOffset - w.writeOffset) mask)) info.hdr = true) :
    let img := tearImage file file' w.writeOffset (w'.writeOffset - w.writeOffset) mask
    ∃ wr img', recoverTail info img = .ok (wr, img') ∧
      ((wr.obs = w.obs ∧ img' = file ++ zeros (file'.length - file.length)) ∨
       (wr.obs = w'.obs ∧ img' = img ∧
          (img = file' ∨
           (batchRegion img w.writeOffset w'.writeOffset ≠ batchRegion file' w.writeOffset w'.writeOffset ∧
            crc32c (batchRegion img w.writeOffset w'.writeOffset) =
              crc32c (batchRegion file' w.writeOffset w'.writeOffset))))) := by
  intro img
  rcases recover_torn_cases info bs b hwf w file hrun w' file' happ mask with h | ⟨_, _, h3, _⟩
  · exact h
  · rw [hhdr] at h3; cases h3

/-- **C01/C02 (L1) torn-write atomicity** with the conclusion of `TornAtomicOriginal` verbatim, for every
    append but the first of the segment (`bs ≠ []`). -/
theorem recover_torn_atomic_partial (info : SegInfo) (bs : List (List Bytes)) (b : List Bytes)
    (hne : bs ≠ [])
    (hwf : RunWF info (bs ++ [b]))
    (w : Writer) (file : Bytes)
    (hrun : (freshSegment info).1.appendAll (freshSegment info).2 info.base bs = some (w, file))
    (w' : Writer) (file' : Bytes)
    (happ : w.append file (indexBatch (info.base + bs.flatten.length) b) .none = (none, w', file'))
    (mask : Nat → Bool) :
    let img := tearImage file file' w.writeOffset (w'.writeOffset - w.writeOffset) mask
    ∃ wr img', recoverTail info img = .ok (wr, img') ∧
      ((wr.obs = w.obs ∧ img' = file ++ zeros (file'.length - file.length)) ∨
       (wr.obs = w'.obs ∧ img' = img ∧
          (img = file' ∨
           (batchRegion img w.writeOffset w'.writeOffset ≠ batchRegion file' w.writeOffset w'.writeOffset ∧
            crc32c (batchRegion img w.writeOffset w'.writeOffset) =
              crc32c (batchRegion file' w.writeOffset w'.writeOffset))))) := by
  intro img
  rcases recover_torn_cases info bs b hwf w file hrun w' file' happ mask with h | ⟨h1, _⟩
  · exact h
  · exact absurd h1 hne

end RaftWal
