/-
  Proofs/CrashLemmas18.lean — head truncation that removes every segment.
-/
import RaftWal.Proofs.CrashLemmas17
namespace RaftWal.Crash

theorem specApply_delHead (l : Log) (newMin : Nat) :
    specApply l (.delHead newMin) = l.filter (fun p => decide (newMin ≤ p.1)) := rfl

theorem goneB_sealed {d : Disk} {s : Seg} (h : SealedOK d s) (last newMin : Nat) :
    goneB last newMin s = decide (s.max < newMin) := by
  obtain ⟨f, _, hsf⟩ := h
  simp [goneB, hsf.sl]

/-- a fresh tail replaces everything: commit, create, delete the given (now orphan) files -/
theorem fresh_tail_res {d : Disk} {P : List Seg} {t : Seg} {f : File} (h : QS d P t f) (b : Nat) (hb1 : 1 ≤ b)
    (ids : List Nat) (hids : ∀ j ∈ ids, j < d.md.nextID) (hsub : ∀ j ∈ fids d, j ∈ ids) {A : Log → Prop}
    (hA : A []) :
    let c0 : Act := .commit ⟨d.md.nextID + 1, [newSeg d.md.nextID b], d.md.stable⟩
    let cr : Act := .create d.md.nextID b
    Rec A (d.apply c0) [] (newSeg d.md.nextID b) ∧
    (∀ k, Rec A (((d.apply c0).apply cr).applyAll ((ids.map Act.delete).take k)) [] (newSeg d.md.nextID b)) ∧
    (∃ f', QS (((d.apply c0).apply cr).applyAll (ids.map Act.delete)) [] (newSeg d.md.nextID b) f') ∧
    absLog (((d.apply c0).apply cr).applyAll (ids.map Act.delete)) = [] := by
  intro c0 cr
  have hb := h.base
  have h1 : Rec (fun l => l = []) (d.apply c0) [] (newSeg d.md.nextID b) :=
    Rec.fresh (A := fun l => l = []) hb.nodupF d.md.nextID hb.fidlt hb.hl b hb1 rfl d.md.stable
  have hnone : (d.apply c0).file? (newSeg d.md.nextID b).id = none := by
    show d.file? d.md.nextID = none
    rw [file?_none_iff]; intro hc; exact Nat.lt_irrefl _ (hb.fidlt _ hc)
  have h2 : Rec (fun l => l = []) ((d.apply c0).apply cr) [] (newSeg d.md.nextID b) := h1.create hnone
  have hf1 : ((d.apply c0).apply cr).file? d.md.nextID = some (File.fresh d.md.nextID b) := by
    have := apply_create_file? (d.apply c0) d.md.nextID b hnone d.md.nextID
    simpa using this
  have hid : ∀ j ∈ ids, ∀ s ∈ ([] : List Seg) ++ [newSeg d.md.nextID b], s.id ≠ j := by
    intro j hj s hs
    simp only [List.nil_append, List.mem_cons, List.not_mem_nil, or_false] at hs
    subst hs
    have := hids j hj
    show d.md.nextID ≠ j
    omega
  have h3 := h2.deleteIds ids hid
  have hc : CleanTail (((d.apply c0).apply cr).applyAll (ids.map Act.delete)) (newSeg d.md.nextID b) := by
    refine ⟨File.fresh d.md.nextID b, ?_, rfl, rfl, rfl⟩
    rw [deletes_file? _ _ _ (fun hj => hid _ hj _ (by simp) rfl)]
    exact hf1
  have hsub' : ∀ j ∈ fids (((d.apply c0).apply cr).applyAll (ids.map Act.delete)),
      j ∈ segIds (([] : List Seg) ++ [newSeg d.md.nextID b]) := by
    intro j hj
    have := deletes_fids _ _ _ hj
    have e : fids ((d.apply c0).apply cr) = fids d ++ [d.md.nextID] := fids_create (d.apply c0) _ b hnone
    rw [e] at this
    simp only [List.mem_append, List.mem_cons, List.not_mem_nil, or_false] at this
    rcases this.1 with h1 | h1
    · exact absurd (hsub j h1) this.2
    · simp [segIds, newSeg, h1]
  obtain ⟨f', hq, ha⟩ := h3.toQS hc hsub'
  refine ⟨h1.mono (fun l hl => hl ▸ hA), ?_, ⟨f', hq⟩, ha⟩
  intro k
  rw [← List.map_take]
  exact (h2.deleteIds _ (fun j hj => hid j (List.mem_of_mem_take hj))).mono (fun l hl => hl ▸ hA)

theorem delHead_all {d : Disk} {P : List Seg} {t : Seg} {f : File} (h : QS d P t f) {newMin : Nat}
    (hok : (Op.delHead newMin).ok d) (hk : d.md.segs.dropWhile (goneB (lastIndex d) newMin) = []) :
    CallRes d (.delHead newMin)
      ([.commit ⟨d.md.nextID + 1, [newSeg d.md.nextID (lastIndex d + 1)], d.md.stable⟩,
        .create d.md.nextID (lastIndex d + 1)] ++ (segIds (P ++ [t])).map .delete) [] := by
  have hb := h.base
  have hq := h.toQO
  have htw : d.md.segs.takeWhile (goneB (lastIndex d) newMin) = P ++ [t] := by
    have := List.takeWhile_append_dropWhile (p := goneB (lastIndex d) newMin) (l := d.md.segs)
    rw [hk, List.append_nil] at this
    rw [this, hb.segs]
  have hgone : ∀ s ∈ P ++ [t], goneB (lastIndex d) newMin s = true := by
    intro s hs
    rw [← htw] at hs
    exact mem_takeWhile_imp' hs
  have hnext := hq.next hok.1
  have hafter : specApply (absLog d) (.delHead newMin) = [] := by
    rw [specApply_delHead]
    apply List.filter_eq_nil_iff.2
    intro p hp
    rw [hq.log_eq, List.mem_append] at hp
    simp only [decide_eq_true_eq, Nat.not_le]
    rcases hp with hp | hp
    · obtain ⟨s, hs, hps⟩ := mem_logP hp
      have hg := hgone s (by simp [hs])
      rw [goneB_sealed (hb.sealed s hs)] at hg
      have := mem_sealed (hb.sealed s hs) hps
      simp only [decide_eq_true_eq] at hg
      omega
    · have hg := hgone t (by simp)
      simp only [goneB, hb.tsl, Bool.false_eq_true, ↓reduceIte, decide_eq_true_eq] at hg
      have := mem_visU hp
      omega
  have hshape : prog d (.delHead newMin) =
      ([.commit ⟨d.md.nextID + 1, [newSeg d.md.nextID (lastIndex d + 1)], d.md.stable⟩,
        .create d.md.nextID (lastIndex d + 1)] ++ (segIds (P ++ [t])).map .delete) ++ .ack :: [] := by
    show delHeadProg d newMin = _
    rw [delHeadProg_eq, hk, htw, map_delete_eq]
    rfl
  obtain ⟨h1, h2, ⟨f', hfin⟩, hlog⟩ := fresh_tail_res h (lastIndex d + 1) (by omega) (segIds (P ++ [t]))
    (by
      intro j hj
      obtain ⟨s, hs, rfl⟩ := List.mem_map.1 hj
      exact hb.idlt s hs)
    h.sub (A := fun l => l = specApply (absLog d) (.delHead newMin)) hafter.symm
  have hfinal : d.applyAll (prog d (.delHead newMin)) =
      ((d.apply (.commit ⟨d.md.nextID + 1, [newSeg d.md.nextID (lastIndex d + 1)], d.md.stable⟩)).apply
        (.create d.md.nextID (lastIndex d + 1))).applyAll ((segIds (P ++ [t])).map .delete) := by
    rw [hshape, applyAll_append]; rfl
  refine ⟨hshape, ?_, ?_, ?_, ⟨_, _, f', by rw [hfinal]; exact hfin⟩, by rw [hfinal, hlog, hafter]⟩
  · intro a ha
    simp only [List.cons_append, List.nil_append, List.mem_cons, List.mem_map] at ha
    rcases ha with rfl | rfl | ⟨j, _, rfl⟩ <;> simp
  · intro k
    rcases k with _ | _ | k
    · exact ⟨P, t, by simpa using hq.toRec (Or.inl rfl)⟩
    · exact ⟨_, _, by simpa using h1.mono (fun l hl => Or.inr hl)⟩
    · exact ⟨_, _, by simpa using (h2 k).mono (fun l hl => Or.inr hl)⟩
  · intro k
    refine ⟨[], newSeg d.md.nextID (lastIndex d + 1), ?_⟩
    simp only [List.take_nil, applyAll_nil]
    have := h2 (segIds (P ++ [t])).length
    rw [← List.map_take, List.take_length] at this
    rw [applyAll_append]
    exact this

end RaftWal.Crash
