/-
  Proofs/Bytes.lean — lemmas about the byte-level primitives.
-/
import RaftWal.Model.Bytes
namespace RaftWal

@[simp] theorem putLE_length (n v : Nat) : (putLE n v).length = n := by
  induction n generalizing v with
  | zero => rfl
  | succ n ih => simp [putLE, ih]

@[simp] theorem putBE_length (n v : Nat) : (putBE n v).length = n := by simp [putBE]

@[simp] theorem zeros_length (n : Nat) : (zeros n).length = n := by simp [zeros]

theorem toUInt8_toNat_of_lt {v : Nat} (h : v < 256) : v.toUInt8.toNat = v := by
  simp [Nat.toUInt8]; omega

theorem getLE_putLE (n v : Nat) (h : v < 256 ^ n) : getLE (putLE n v) = v := by
  induction n generalizing v with
  | zero => simp at h; subst h; rfl
  | succ n ih =>
    simp only [putLE, getLE]
    have h1 : v / 256 < 256 ^ n := by
      rw [Nat.pow_succ] at h
      exact Nat.div_lt_of_lt_mul (by rw [Nat.mul_comm]; exact h)
    rw [ih _ h1, toUInt8_toNat_of_lt (Nat.mod_lt _ (by omega))]
    omega

/-- truncating semantics: what `PutUintNN(uintNN(v))` followed by `UintNN` yields -/
theorem getLE_putLE_mod (n v : Nat) : getLE (putLE n v) = v % 256 ^ n := by
  induction n generalizing v with
  | zero => simp [putLE, getLE, Nat.mod_one]
  | succ n ih =>
    simp only [putLE, getLE]
    rw [ih, toUInt8_toNat_of_lt (Nat.mod_lt _ (by omega)), Nat.pow_succ, Nat.mul_comm (256^n) 256,
      Nat.mod_mul]

theorem getLE_lt (bs : Bytes) : getLE bs < 256 ^ bs.length := by
  induction bs with
  | nil => simp [getLE]
  | cons b bs ih =>
    simp only [getLE, List.length_cons, Nat.pow_succ]
    have := b.toNat_lt
    omega

theorem putLE_getLE (bs : Bytes) : putLE bs.length (getLE bs) = bs := by
  induction bs with
  | nil => rfl
  | cons b bs ih =>
    simp only [List.length_cons, putLE, getLE]
    have hb := b.toNat_lt
    have h1 : (b.toNat + 256 * getLE bs) % 256 = b.toNat := by omega
    have h2 : (b.toNat + 256 * getLE bs) / 256 = getLE bs := by omega
    rw [h1, h2, ih]
    congr 1
    apply UInt8.toNat_inj.mp
    rw [toUInt8_toNat_of_lt hb]

theorem putLE_injective (n a b : Nat) (ha : a < 256 ^ n) (hb : b < 256 ^ n) (h : putLE n a = putLE n b) : a = b := by
  rw [← getLE_putLE n a ha, ← getLE_putLE n b hb, h]

/-! ## uvarint round trip (Go's PutUvarint / Uvarint including the 10-byte overflow rule) -/

theorem uvarintAux_put (v : Nat) (i s x : Nat) (rest : Bytes)
    (hv : v < 2 ^ (64 - 7 * i)) (hi : i ≤ 9) (hs : s = 7 * i) :
    uvarintAux i s x (putUvarint v ++ rest) = .ok (x + v * 2 ^ s) rest := by
  induction v using Nat.strongRecOn generalizing i s x with
  | _ v ih =>
    unfold putUvarint
    split
    · rename_i h
      simp only [List.cons_append, List.nil_append, uvarintAux]
      have hne : i ≠ 10 := by omega
      simp only [hne, if_false]
      have hb : v.toUInt8 < 0x80 := by
        show v.toUInt8.toNat < 128
        simp [Nat.toUInt8]; omega
      simp only [hb, if_true]
      have htn : v.toUInt8.toNat = v := by simp [Nat.toUInt8]; omega
      have : ¬ (i = 9 ∧ v.toUInt8 > 1) := by
        intro ⟨h9, hgt⟩
        have : v.toUInt8.toNat > 1 := hgt
        subst h9; simp at hv; omega
      simp [this, htn]
    · rename_i h
      simp only [List.cons_append, uvarintAux]
      have hi9 : i ≠ 9 := by
        intro h9; subst h9; simp at hv; omega
      have hne : i ≠ 10 := by omega
      simp only [hne, if_false]
      have hbn : (v % 128 + 128).toUInt8.toNat = v % 128 + 128 := by
        simp [Nat.toUInt8]; omega
      have hb : ¬ ((v % 128 + 128).toUInt8 < 0x80) := by
        intro hlt
        have : (v % 128 + 128).toUInt8.toNat < 128 := hlt
        omega
      simp only [hb, if_false]
      have hlt : v / 128 < v := by omega
      have hv' : v / 128 < 2 ^ (64 - 7 * (i+1)) := by
        have : 2 ^ (64 - 7 * i) = 128 * 2 ^ (64 - 7 * (i+1)) := by
          have : 64 - 7 * i = (64 - 7*(i+1)) + 7 := by omega
          rw [this, Nat.pow_add]; omega
        rw [this] at hv
        exact Nat.div_lt_of_lt_mul hv
      rw [ih (v/128) hlt (i+1) (s+7) _ hv' (by omega) (by omega)]
      congr 1
      rw [hbn]
      have : (v % 128 + 128) % 128 = v % 128 := by omega
      rw [this, Nat.pow_add]
      have := Nat.div_add_mod v 128
      calc x + v % 128 * 2 ^ s + v / 128 * (2 ^ s * 2 ^ 7)
          = x + (v % 128 + 128 * (v / 128)) * 2 ^ s := by
            rw [Nat.add_mul, Nat.add_assoc]; congr 1; congr 1
            rw [Nat.mul_comm (2^s), ← Nat.mul_assoc, Nat.mul_comm (v/128)]
        _ = x + v * 2 ^ s := by rw [Nat.add_comm (v % 128), this]

theorem uvarint_put (v : Nat) (hv : v < 2^64) (rest : Bytes) :
    uvarint (putUvarint v ++ rest) = .ok v rest := by
  have := uvarintAux_put v 0 0 0 rest (by simpa using hv) (by omega) (by omega)
  simpa [uvarint] using this

/-! ## CRC: rolling update equals one-shot checksum of the concatenation -/

theorem crcUpdate_append (c : UInt32) (a b : Bytes) : crcUpdate (crcUpdate c a) b = crcUpdate c (a ++ b) := by
  simp [crcUpdate, List.foldl_append]

theorem crcUpdate_nil (c : UInt32) : crcUpdate c [] = c := by
  simp [crcUpdate]

end RaftWal
