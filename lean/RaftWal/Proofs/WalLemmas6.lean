/-
  Proofs/WalLemmas6.lean — simulation of `StoreLogs` (including the base reset of an empty log,
  the monotonicity/encodability check, the append with and without sealing, and the rotation).
-/
import RaftWal.Proofs.WalLemmas5
namespace RaftWal
def storeTail (w : Wal) (lastIdx : Nat) (logs : List Log) : Wal × Option Err :=
  if ¬ Wal.storeLogs.chk lastIdx logs then (w, some .other)
  else match w.tailSeg with
    | none => (w, some .other)
    | some (t, _) => match w.file? t.id with
      | none => (w, some .other)
      | some f => match appendFile f t.sizeLimit logs with
        | .error e => (w, some e)
        | .ok f' =>
          let nBytes := (logs.map encLen).sum
          let w := { w with files := updFile w.files f'
                          , ctr := { w.ctr with appends := w.ctr.appends + 1, entriesW := w.ctr.entriesW + logs.length
                                              , bytesW := w.ctr.bytesW + nBytes } }
          let w := if f'.indexStart > 0 then w.rotate f'.indexStart else w
          (w, none)

theorem storeLogs_eq (w : Wal) (first : Log) (rest : List Log) :
    w.storeLogs (first :: rest) =
      if w.closed then (w, some .closed) else
      match (if w.lastIndex = 0 ∧ first.index ≠ (w.tailSeg.map (·.1.base)).getD 0 then w.resetBase first.index else some w) with
      | none => (w, some .other)
      | some w' => storeTail w' w.lastIndex (first :: rest) := by
  unfold Wal.storeLogs storeTail
  rfl

theorem okIdx_eq (n : Nat) (logs : List Log) : appendFile.okIdx n logs = Spec.consecutiveFrom n logs := by
  induction logs generalizing n with
  | nil => rfl
  | cons l ls ih =>
    simp only [appendFile.okIdx, Spec.consecutiveFrom, ih]
    by_cases h : l.index = n <;> simp [h]

theorem chk_eq {n last : Nat} {logs : List Log} (hn : 1 ≤ n) (hl : last = 0 ∨ last + 1 = n)
    (hc : Spec.consecutiveFrom n logs = true) :
    Wal.storeLogs.chk last logs = logs.all (fun l => (encode l).isSome) := by
  induction logs generalizing n last with
  | nil => rfl
  | cons l ls ih =>
    simp only [Spec.consecutiveFrom, Bool.and_eq_true, beq_iff_eq] at hc
    have h1 : ¬ (last > 0 ∧ l.index ≠ last + 1) := by omega
    simp only [Wal.storeLogs.chk, h1, if_false, List.all_cons]
    rw [ih (n := n + 1) (last := l.index) (by omega) (by omega) hc.2]
    cases h : encode l <;> simp

theorem consec_bound {n B : Nat} {logs : List Log} (hc : Spec.consecutiveFrom n logs = true)
    (hB : ∀ l ∈ logs, l.index < B) (hne : logs ≠ []) : n + logs.length ≤ B := by
  induction logs generalizing n with
  | nil => exact absurd rfl hne
  | cons l ls ih =>
    simp only [Spec.consecutiveFrom, Bool.and_eq_true, beq_iff_eq] at hc
    cases ls with
    | nil => have := hB l (by simp); simp; omega
    | cons l2 ls2 =>
      have := ih hc.2 (fun x hx => hB x (List.mem_cons_of_mem _ hx)) (by simp)
      simp at this ⊢; omega

theorem accept_iff {s : Spec.SLog} {F : Nat} {first : Log} {rest : List Log} (hF1 : 1 ≤ F)
    (hf : s.entries ≠ [] → s.first = F)
    (hP : s.entries.length = 0 → 1 ≤ first.index → F = first.index) :
    (Wal.storeLogs.chk (if s.entries.length = 0 then 0 else F + s.entries.length - 1) (first :: rest) &&
      Spec.consecutiveFrom (F + s.entries.length) (first :: rest)) = s.accepts (first :: rest) := by
  have hlast := spec_lastIndex_eq hf
  unfold Spec.SLog.accepts
  simp only
  cases hcs : Spec.consecutiveFrom (F + s.entries.length) (first :: rest)
  · simp only [Bool.and_false]
    symm
    rw [Bool.eq_false_iff]
    intro hacc
    simp only [Bool.and_eq_true] at hacc
    obtain ⟨⟨h1, h2⟩, h3⟩ := hacc
    cases he : s.entries with
    | nil =>
      simp only [he, List.isEmpty_nil, if_true, decide_eq_true_eq] at h3
      have := hP (by simp [he]) h3
      rw [he] at hcs
      simp only [List.length_nil, Nat.add_zero] at hcs
      rw [this, h1] at hcs
      cases hcs
    | cons a l =>
      rw [he] at hlast
      simp only [he, List.isEmpty_cons, Bool.false_eq_true, if_false, beq_iff_eq] at h3
      rw [hlast] at h3
      simp only [List.length_cons, Nat.add_one_ne_zero, if_false] at h3
      rw [he] at hcs
      have : first.index = F + (a :: l).length := by simp; omega
      rw [← this, h1] at hcs
      cases hcs
  · have hfi : first.index = F + s.entries.length := by
      simp only [Spec.consecutiveFrom, Bool.and_eq_true, beq_iff_eq] at hcs
      exact hcs.1
    rw [chk_eq (n := F + s.entries.length) (by omega) (by split <;> omega) hcs]
    rw [hfi, hcs]
    simp only [Bool.and_true, Bool.true_and]
    cases he : s.entries with
    | nil => simp; omega
    | cons a l =>
      rw [he] at hlast
      simp only [List.isEmpty_cons, Bool.false_eq_true, if_false]
      rw [hlast]
      simp
      intros; omega

theorem appendFile_err {f : FileL} (sl : Nat) {logs : List Log} (hi0 : f.indexStart = 0)
    (hok : Spec.consecutiveFrom (f.base + f.entries.length) logs = false) :
    appendFile f sl logs = .error .other := by
  unfold appendFile
  rw [okIdx_eq, hok]
  simp [hi0]

theorem appendFile_ok {f : FileL} (sl : Nat) {logs : List Log} (hi0 : f.indexStart = 0)
    (hok : Spec.consecutiveFrom (f.base + f.entries.length) logs = true) :
    ∃ f', appendFile f sl logs = .ok f' ∧ f'.id = f.id ∧ f'.base = f.base ∧ f'.codec = f.codec ∧
      f'.entries = f.entries ++ logs ∧ 0 < f'.wsize := by
  unfold appendFile
  rw [okIdx_eq, hok]
  simp only [hi0, Nat.lt_irrefl, if_false]
  refine ⟨_, rfl, rfl, rfl, rfl, rfl, ?_⟩
  simp only [frameHeaderLen]
  omega

theorem rotate_sim (w : Wal) (is : Nat) {F : Nat} {es : List Log} {pre : List (SegS × Rdr)} {t : SegS} {r : Rdr}
    {ft : FileL} (hc : Core w.cfg w.nextID w.segs w.files F es) (hs : w.segs = pre ++ [(t, r)])
    (hsl : t.sealed = false) (hf : fileOf w.files t.id = some ft) (hlen : 0 < ft.entries.length)
    (hw : 0 < ft.wsize) (his : is ≠ 0) :
    (w.rotate is).cfg = w.cfg ∧ (w.rotate is).closed = w.closed ∧
      Core (w.rotate is).cfg (w.rotate is).nextID (w.rotate is).segs (w.rotate is).files F es ∧
      TailOpen (w.rotate is).segs (w.rotate is).files := by
  have hrev : w.segs.reverse = (t, r) :: pre.reverse := by rw [hs]; simp
  have htci := tailCommitIdx_eq hs hf
  rw [commitIdx_eq, if_pos hlen] at htci
  rw [hs] at hc
  have hseal := hc.seal hsl hf hlen hw is his
  unfold Wal.rotate
  simp only [hrev, htci, List.reverse_reverse]
  obtain ⟨w', hcn, h1, h2, h3, h4, _⟩ := createNext_sealed
    { w with segs := pre ++ [({ t with sealed := true, max := ft.base + ft.entries.length - 1, indexStart := is }, r)],
             ctr := { w.ctr with rotations := w.ctr.rotations + 1 } } 0 (F := F) (es := es) hseal
    ⟨_, _, List.getLast?_concat, rfl⟩
  rw [hcn]
  exact ⟨h1, h2, h3, h4⟩

/-- the empty log is a single empty tail -/
theorem shape_empty {cfg : WalCfg} {nextID : Nat} {segs : List (SegS × Rdr)} {files : List FileL} {F : Nat}
    (hc : Core cfg nextID segs files F []) (ht : TailOpen segs files) :
    ∃ t r ft, segs = [(t, r)] ∧ t.sealed = false ∧ fileOf files t.id = some ft ∧ ft.indexStart = 0 ∧
      SegF cfg nextID F [] t r ft ∧ ft.entries = [] ∧ t.min = F ∧ t.base = F := by
  obtain ⟨pre, t, r, ft, hs, hsl, hf, hi0, hseg, hE, hpre⟩ := shape hc ht
  have hp : pre = [] := by
    cases pre with
    | nil => rfl
    | cons a l =>
      obtain ⟨fa, _, hsa⟩ := hc.segOK a.1 a.2 (by rw [hs]; simp)
      have := es_pos_of_sealed hsa (hpre a (by simp)).1
      simp at this
  subst hp
  obtain ⟨c0, hh, hF⟩ := hc.headF
  rw [hs] at hh; simp at hh; subst hh
  simp at hF hE
  have h1 := hseg.basemin
  have h2 := hseg.fbase
  have h3 := (hseg.tailOK hsl).2
  refine ⟨t, r, ft, by simpa using hs, hsl, hf, hi0, hseg, ?_, hF, by omega⟩
  apply List.eq_nil_of_length_eq_zero
  omega

theorem resetBase_sim (w : Wal) (nb : Nat) {F : Nat}
    (hc : Core w.cfg w.nextID w.segs w.files F []) (ht : TailOpen w.segs w.files) (hnb : nb ≤ 2^64 - 1) :
    ∃ w' b, w.resetBase nb = some w' ∧ w'.cfg = w.cfg ∧ w'.closed = w.closed ∧ 1 ≤ b ∧ (0 < nb → b = nb) ∧
      Core w'.cfg w'.nextID w'.segs w'.files b [] ∧ TailOpen w'.segs w'.files := by
  obtain ⟨t, r, ft, hs, hsl, hf, hi0, hseg, hfe, hmin, hbase⟩ := shape_empty hc ht
  have hlast := lastIndex_eq hc ht
  simp only [List.length_nil, if_true] at hlast
  unfold Wal.resetBase
  simp only [hlast, Nat.lt_irrefl, if_false, hs, List.reverse_cons, List.reverse_nil, List.nil_append]
  by_cases hb : t.base = nb
  · simp only [hb, if_true]
    refine ⟨w, F, rfl, rfl, rfl, by have := hseg.base1; omega, by intro _; omega, hc, ht⟩
  · simp only [hb, if_false]
    obtain ⟨w2, b, hcn, h1, h2, h3, h4, h5, h6, h7, h8⟩ :=
      createNext_empty { w with segs := [] } nb rfl hc.cfgOK hc.fileIds hnb
    rw [hcn]
    have := removeFiles_core [t.id] h5 h6 (by
      intro c rc hm
      have e : c.id = w.nextID := h7 c rc hm
      have := hseg.idlt
      simp; omega)
    exact ⟨_, b, rfl, h1, h2, h3, h4, this.1, this.2⟩

def optAns : Option Err → Ans
  | none => .ok
  | some e => e.ans

def sOptAns : Option Spec.SErr → Ans
  | none => .ok
  | some e => e.ans

theorem step_store_eq (w : Wal) (logs : List Log) :
    w.step (.store logs) = ((w.storeLogs logs).1, optAns (w.storeLogs logs).2) := by
  simp only [Wal.step]
  cases (w.storeLogs logs).2 <;> rfl

theorem sstep_store_eq (s : Spec.SLog) (logs : List Log) :
    s.step (.store logs) = ((s.store logs).1, sOptAns (s.store logs).2) := by
  simp only [Spec.SLog.step]
  cases (s.store logs).2 <;> rfl

theorem F_pos {cfg : WalCfg} {n : Nat} {segs : List (SegS × Rdr)} {files : List FileL} {F : Nat} {es : List Log}
    (hc : Core cfg n segs files F es) : 1 ≤ F := by
  obtain ⟨c0, hh, hF⟩ := hc.headF
  obtain ⟨f, _, hs⟩ := hc.segOK c0.1 c0.2 (List.mem_of_mem_head? hh)
  have := hs.base1
  have := hs.basemin
  omega

theorem storeTail_sim (w : Wal) (s : Spec.SLog) {F : Nat} (first : Log) (rest : List Log)
    (hc : Core w.cfg w.nextID w.segs w.files F s.entries) (ht : TailOpen w.segs w.files)
    (hcl : s.closed = w.closed) (hwc : w.closed = false) (hf : s.entries ≠ [] → s.first = F)
    (hP : s.entries.length = 0 → 1 ≤ first.index → F = first.index)
    (hr : ∀ l ∈ first :: rest, l.index < 2^64 - 1) :
    optAns (storeTail w (if s.entries.length = 0 then 0 else F + s.entries.length - 1) (first :: rest)).2 =
      sOptAns (s.store (first :: rest)).2 ∧
    Sim (storeTail w (if s.entries.length = 0 then 0 else F + s.entries.length - 1) (first :: rest)).1
      (s.store (first :: rest)).1 := by
  obtain ⟨pre, t, r, ft, hs, hsl, hfl, hi0, hseg, hE, hpre⟩ := shape hc ht
  have hF1 := F_pos hc
  have hacc := accept_iff (rest := rest) hF1 hf hP
  have hscl : s.closed = false := by rw [hcl, hwc]
  have hsim : Sim w s := ⟨F, hc, ht, hcl, hf⟩
  unfold storeTail Spec.SLog.store
  simp only [hscl, Bool.false_eq_true, if_false]
  cases hchk : Wal.storeLogs.chk (if s.entries.length = 0 then 0 else F + s.entries.length - 1) (first :: rest)
  · rw [hchk] at hacc
    simp only [Bool.false_and] at hacc
    simp only [← hacc, Bool.false_eq_true, not_false_eq_true, if_true]
    exact ⟨rfl, hsim⟩
  · rw [hchk] at hacc
    simp only [Bool.true_and] at hacc
    have htl : w.tailSeg = some (t, r) := by simp [Wal.tailSeg, hs]
    simp only [not_true_eq_false, if_false, htl, Wal.file?_eq, hfl]
    cases hcs : Spec.consecutiveFrom (F + s.entries.length) (first :: rest)
    · rw [hcs] at hacc
      rw [appendFile_err t.sizeLimit hi0 (by rw [hE]; exact hcs)]
      simp only [← hacc, Bool.false_eq_true, not_false_eq_true, if_true]
      exact ⟨rfl, hsim⟩
    · rw [hcs] at hacc
      obtain ⟨f', hap, g1, g2, g3, g4, g5⟩ := appendFile_ok t.sizeLimit hi0 (by rw [hE]; exact hcs)
      rw [hap]
      simp only [← hacc, not_true_eq_false, if_false]
      refine ⟨rfl, ?_⟩
      have hbound := consec_bound hcs hr (by simp)
      rw [hs] at hc
      obtain ⟨hc1, hfl1⟩ := hc.append hsl hfl f' (first :: rest) g1 g2 g3 g4 (by omega)
      have hfirst : s.entries ++ first :: rest ≠ [] →
          (if s.entries.isEmpty = true then first.index else s.first) = F := by
        intro _
        have hfi : first.index = F + s.entries.length := by
          simp only [Spec.consecutiveFrom, Bool.and_eq_true, beq_iff_eq] at hcs
          exact hcs.1
        cases he : s.entries with
        | nil =>
          simp only [List.isEmpty_nil, if_true]
          exact (hP (by simp [he]) (by omega)).symm
        | cons a l =>
          simp only [List.isEmpty_cons, Bool.false_eq_true, if_false]
          exact hf (by simp [he])
      by_cases hseal : f'.indexStart > 0
      · simp only [hseal, if_true]
        have hlen : 0 < f'.entries.length := by
          rw [g4]; simp only [List.length_append, List.length_cons]; omega
        obtain ⟨r1, r2, r3, r4⟩ := rotate_sim
          { w with files := updFile w.files f',
                   ctr := { w.ctr with appends := w.ctr.appends + 1, entriesW := w.ctr.entriesW + (first :: rest).length,
                                       bytesW := w.ctr.bytesW + ((first :: rest).map encLen).sum } }
          f'.indexStart (F := F) (es := s.entries ++ first :: rest) (pre := pre) (t := t) (r := r) (ft := f')
          (by rw [← hs] at hc1; exact hc1) hs hsl hfl1 hlen g5 (by omega)
        exact ⟨F, r3, r4, by rw [r2]; exact hwc.symm, hfirst⟩
      · simp only [hseal, if_false]
        refine ⟨F, by rw [← hs] at hc1; exact hc1, ⟨t, r, f', by rw [hs]; exact List.getLast?_concat, hsl, hfl1, by omega⟩, hwc.symm, hfirst⟩

theorem sim_store {w : Wal} {s : Spec.SLog} (h : Sim w s) (logs : List Log)
    (hr : ∀ l ∈ logs, l.index < 2^64 - 1) :
    (w.step (.store logs)).2 = (s.step (.store logs)).2 ∧
      Sim (w.step (.store logs)).1 (s.step (.store logs)).1 := by
  rw [step_store_eq, sstep_store_eq]
  simp only
  obtain ⟨F, hc, ht, hcl, hf⟩ := h
  cases hwc : w.closed
  · have hscl : s.closed = false := by rw [hcl, hwc]
    cases logs with
    | nil =>
      have e1 : w.storeLogs [] = (w, none) := by simp [Wal.storeLogs, hwc]
      have e2 : s.store [] = (s, none) := by simp [Spec.SLog.store, hscl, Spec.SLog.accepts]
      rw [e1, e2]
      exact ⟨rfl, F, hc, ht, hcl, hf⟩
    | cons first rest =>
      rw [storeLogs_eq]
      simp only [hwc, Bool.false_eq_true, if_false]
      have hlast := lastIndex_eq hc ht
      have hF1 := F_pos hc
      by_cases hcond : w.lastIndex = 0 ∧ first.index ≠ (w.tailSeg.map (·.1.base)).getD 0
      · rw [if_pos hcond]
        have hlen : s.entries.length = 0 := by
          by_cases h0 : s.entries.length = 0
          · exact h0
          · rw [hlast, if_neg h0] at hcond; omega
        have hnil : s.entries = [] := List.eq_nil_of_length_eq_zero hlen
        rw [hnil] at hc
        obtain ⟨w', b, hrb, h1, h2, h3, h4, h5, h6⟩ :=
          resetBase_sim w first.index hc ht (by have := hr first (by simp); omega)
        rw [hrb]
        simp only
        have := storeTail_sim w' s (F := b) first rest (by rw [hnil]; exact h5) h6 (by rw [h2]; exact hcl)
          (by rw [h2]; exact hwc) (by intro hne; exact absurd hnil hne) (by intro _ hp; exact h4 (by omega)) hr
        rw [hlen] at this
        simp only [if_true] at this
        rw [hcond.1]
        exact this
      · rw [if_neg hcond]
        simp only
        have := storeTail_sim w s (F := F) first rest hc ht hcl hwc hf (by
          intro hlen hp
          have hnil : s.entries = [] := List.eq_nil_of_length_eq_zero hlen
          rw [hnil] at hc
          obtain ⟨t, r, ft, hs, hsl, hfl, hi0, hseg, hfe, hmin, hbase⟩ := shape_empty hc ht
          rw [hlast, hlen] at hcond
          simp only [if_true, true_and, Wal.tailSeg, hs, List.getLast?_singleton, Option.map_some,
            Option.getD_some, ne_eq, Decidable.not_not] at hcond
          omega) hr
        rw [hlast]
        exact this
  · have hscl : s.closed = true := by rw [hcl, hwc]
    have e1 : w.storeLogs logs = (w, some .closed) := by simp [Wal.storeLogs, hwc]
    have e2 : s.store logs = (s, some .closed) := by simp [Spec.SLog.store, hscl]
    rw [e1, e2]
    exact ⟨rfl, F, hc, ht, by rw [hscl, hwc], hf⟩

end RaftWal
