/-
  Proofs/ConcReclaim.lean — C13 under concurrency (Model/Conc.lean): files removed from the log by a state change are
  closed (and, for truncations, deleted) exactly when the last holder of the replaced state lets go — not earlier than
  the state is replaced, and no later than its last release.
  STATEMENTS FIRST; the global invariant of Proofs/ConcLemmas2–8.lean is available.
-/
import RaftWal.Proofs.ConcProps
namespace RaftWal.Conc

-- `hs` in reclaimed_when_released / dropped_files_closed is implied by the finalizer-slot hypothesis (a slot other than
-- `unset` only exists on a replaced object); the statements are kept as given.
set_option linter.unusedVariables false

/-- **reclaimed as soon as released**: in every reachable state, a state object whose finalizer has been attached and
    that nobody holds any more has run its finalizer -/
theorem reclaimed_when_released (files wants : List FileId) (muts : List Mutation) (hwf : InitWF files muts) (s : Sys)
    (h : Reachable files wants muts s) (sid : Nat) (hs : sid < s.objs.length)
    (hfin : (s.obj sid).fin ≠ .unset) (h0 : (s.obj sid).refCount = 0) : (s.obj sid).fin = .taken := by
  have hi := (h.inv hwf).toOInv
  cases hf : (s.obj sid).fin with
  | unset => exact absurd hf hfin
  | taken => rfl
  | set c =>
    have := (hi.fin_set sid c hf).2
    omega

/-- **what a finished finalizer has closed**: every file the replaced state referenced and its successor does not -/
theorem dropped_files_closed (files wants : List FileId) (muts : List Mutation) (hwf : InitWF files muts) (s : Sys)
    (h : Reachable files wants muts s) (sid : Nat) (hs : sid + 1 < s.objs.length)
    (hfin : (s.obj sid).fin = .taken) :
    ∀ f ∈ (s.obj sid).files, f ∉ (s.obj (sid + 1)).files → s.isOpen f = false := by
  intro f hf hnf
  have hm := (h.inv hwf).cl_compl sid hfin f hf hnf
  simp [Sys.isOpen, hm]

/-- **nothing is closed early**: a file is closed only if some replaced state whose finalizer has run referenced it and
    that state's successor does not — in particular never a file of the current state before Close -/
theorem closed_only_by_finalizer (files wants : List FileId) (muts : List Mutation) (hwf : InitWF files muts) (s : Sys)
    (h : Reachable files wants muts s) (f : FileId) (hc : s.isOpen f = false) :
    ∃ sid, sid + 1 < s.objs.length ∧ (s.obj sid).fin = .taken ∧ f ∈ (s.obj sid).files ∧ f ∉ (s.obj (sid + 1)).files := by
  have hi := (h.inv hwf).toOInv
  have hm : f ∈ s.closedFiles := by simpa [Sys.isOpen] using hc
  obtain ⟨k, hk1, hk2, hk3⟩ := hi.cl_sound f hm
  exact ⟨k, succ_lt_of_fin_ne hi (by rw [hk1]; simp), hk1, hk2, hk3⟩

/-- a finalizer is attached only to a state that has been replaced: the current state has none -/
theorem current_has_no_finalizer (files wants : List FileId) (muts : List Mutation) (hwf : InitWF files muts) (s : Sys)
    (h : Reachable files wants muts s) : (s.obj s.cur).fin = .unset := by
  exact (h.inv hwf).fin_cur

/-! ### non-vacuity: a reader pins the old state across a truncation; the file goes when it lets go -/
example : ∃ sched : List Tid,
    let s := run fixed (init [1, 2] [1] [{ keep := [2], add := [3] }]) sched
    (s.obj 0).fin = .taken ∧ s.isOpen 1 = false ∧ s.isOpen 2 = true := by
  -- reader: closed check, load pointer (object 0), acquire; writer: lock, hold, publish, attach finalizer, release
  -- (count 2 → 1, finalizer stays); reader: read, release (count 1 → 0: finalizer runs, file 1 closed)
  refine ⟨[.reader 0, .reader 0, .reader 0, .writer, .writer, .writer, .writer, .writer, .reader 0, .reader 0], ?_⟩
  decide

end RaftWal.Conc
