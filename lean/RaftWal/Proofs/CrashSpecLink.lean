/-
  Proofs/CrashSpecLink.lean — the specification the crash theorems are stated against (`Crash.specApply`, `Crash.Op.ok`
  over lists of (index, entry) pairs) is the contiguous-log reference model of C05 (`Spec.SLog`, Spec/Log.lean) seen
  through the obvious abstraction: which calls are legal and what they do to the log coincide.
  STATEMENTS FIRST.
-/
import RaftWal.Proofs.CrashDefs
import RaftWal.Spec.Log
import RaftWal.Proofs.CrashSpecLinkLemmas
namespace RaftWal.Crash
open RaftWal

/-- the crash model's view of a reference log: entry number k of the reference log, at index first + k, abstracted by
    `tag` (the crash model does not look inside entries) -/
def view (tag : Log → Entry) (s : Spec.SLog) : List (Nat × Entry) :=
  ((List.range s.entries.length).zip s.entries).map (fun p => (s.first + p.1, tag p.2))

theorem view_eq (tag : Log → Entry) (s : Spec.SLog) : view tag s = viewG tag s.first s.entries := rfl

theorem specApply_store (v : List (Nat × Entry)) (tag : Log → Entry) (first : Nat) (es : List Log) (b : Bool) :
    specApply v (.store first (es.map tag) b) = v ++ viewG tag first es := by
  rw [viewG_map]; rfl

theorem isEmpty_false_of_ne {α : Type} {l : List α} (h : l ≠ []) : l.isEmpty = false := by
  cases l with
  | nil => exact absurd rfl h
  | cons _ _ => rfl

theorem firstIndex_of_ne (s : Spec.SLog) (hne : s.entries ≠ []) : s.firstIndex = s.first := by
  simp [Spec.SLog.firstIndex, isEmpty_false_of_ne hne]

theorem lastIndex_of_ne (s : Spec.SLog) (hne : s.entries ≠ []) : s.lastIndex = s.first + s.entries.length - 1 := by
  simp [Spec.SLog.lastIndex, isEmpty_false_of_ne hne]

theorem length_pos_of_ne {α : Type} {l : List α} (h : l ≠ []) : 0 < l.length := List.length_pos_iff.mpr h

theorem view_first_last (tag : Log → Entry) (s : Spec.SLog) (hne : s.entries ≠ []) :
    ((view tag s).head?.map (·.1)) = some s.firstIndex ∧ ((view tag s).getLast?.map (·.1)) = some s.lastIndex := by
  rw [view_eq, firstIndex_of_ne s hne, lastIndex_of_ne s hne]
  exact ⟨viewG_head? tag _ _ hne, viewG_getLast? tag _ _ hne⟩

/-- **appends**: a non-empty batch the reference model accepts on an open log is a legal `store` of the crash model's
    specification, and both produce the same log -/
theorem store_link (tag : Log → Entry) (s : Spec.SLog) (l : Log) (ls : List Log) (b : Bool)
    (hopen : s.closed = false) (hacc : s.accepts (l :: ls) = true) :
    view tag (s.store (l :: ls)).1 = specApply (view tag s) (.store l.index ((l :: ls).map tag) b) ∧
    (s.store (l :: ls)).2 = none := by
  have hst : s.store (l :: ls) =
      ({ s with first := if s.entries.isEmpty then l.index else s.first, entries := s.entries ++ (l :: ls) }, none) := by
    simp [Spec.SLog.store, hopen, hacc]
  rw [hst]
  refine ⟨?_, rfl⟩
  rw [specApply_store, view_eq, view_eq]
  show viewG tag (if s.entries.isEmpty then l.index else s.first) (s.entries ++ (l :: ls)) = _
  by_cases hE : s.entries = []
  · rw [hE]; simp [viewG_nil]
  · have hlen := length_pos_of_ne hE
    have hidx : l.index = s.first + s.entries.length := by
      have h := hacc
      simp only [Spec.SLog.accepts, isEmpty_false_of_ne hE, lastIndex_of_ne s hE, Bool.and_eq_true] at h
      have h2 := h.2
      simp at h2
      omega
    rw [isEmpty_false_of_ne hE, viewG_append, hidx]
    simp

/-- **head truncation**: DeleteRange(min, max) with min ≤ FirstIndex ≤ max on a non-empty open log is the crash model's
    `delHead (min max LastIndex + 1)` — wal.go clamps max to LastIndex -/
theorem delHead_link (tag : Log → Entry) (s : Spec.SLog) (mn mx : Nat) (hopen : s.closed = false)
    (hne : s.entries ≠ []) (h1 : mn ≤ mx) (h2 : mn ≤ s.firstIndex) (h3 : s.firstIndex ≤ mx) :
    view tag (s.delete mn mx).1 = specApply (view tag s) (.delHead ((if mx > s.lastIndex then s.lastIndex else mx) + 1)) ∧
    (s.delete mn mx).2 = none := by
  have hlen := length_pos_of_ne hne
  have hF := firstIndex_of_ne s hne
  have hL := lastIndex_of_ne s hne
  have hst : s.delete mn mx =
      ({ s with first := s.first + (mx + 1 - s.first), entries := s.entries.drop (mx + 1 - s.first) }, none) := by
    have c1 : ¬ (mn > mx) := by omega
    have c2 : ¬ (s.entries.isEmpty = true ∨ mx < s.firstIndex ∨ mn > s.lastIndex) := by
      rw [isEmpty_false_of_ne hne]; simp; omega
    simp only [Spec.SLog.delete, hopen, c1, c2, h2]
    simp
  rw [hst]
  refine ⟨?_, rfl⟩
  rw [view_eq, view_eq]
  show viewG tag (s.first + (mx + 1 - s.first)) (s.entries.drop (mx + 1 - s.first)) =
    (viewG tag s.first s.entries).filter (fun p => decide ((if mx > s.lastIndex then s.lastIndex else mx) + 1 ≤ p.1))
  by_cases hc : mx > s.lastIndex
  · rw [if_pos hc, viewG_filter_none tag s.entries s.first _ (by omega), List.drop_eq_nil_of_le (by omega)]
    rfl
  · rw [if_neg hc, ← viewG_filter_ge]
    have : s.first + (mx + 1 - s.first) = mx + 1 := by omega
    rw [this]

/-- **tail truncation**: DeleteRange(min, max) with FirstIndex < min ≤ LastIndex ≤ max is `delTail (min - 1)` -/
theorem delTail_link (tag : Log → Entry) (s : Spec.SLog) (mn mx : Nat) (hopen : s.closed = false)
    (hne : s.entries ≠ []) (h2 : s.firstIndex < mn) (h3 : mn ≤ s.lastIndex) (h4 : s.lastIndex ≤ mx) :
    view tag (s.delete mn mx).1 = specApply (view tag s) (.delTail (mn - 1)) ∧ (s.delete mn mx).2 = none := by
  have hlen := length_pos_of_ne hne
  have hF := firstIndex_of_ne s hne
  have hL := lastIndex_of_ne s hne
  have hst : s.delete mn mx = ({ s with entries := s.entries.take (mn - s.first) }, none) := by
    have c1 : ¬ (mn > mx) := by omega
    have c2 : ¬ (s.entries.isEmpty = true ∨ mx < s.firstIndex ∨ mn > s.lastIndex) := by
      rw [isEmpty_false_of_ne hne]; simp; omega
    have c3 : ¬ (mn ≤ s.firstIndex) := by omega
    have c4 : mx ≥ s.lastIndex := h4
    simp only [Spec.SLog.delete, hopen, c1, c2, c3, c4]
    simp
  rw [hst]
  refine ⟨?_, rfl⟩
  rw [view_eq, view_eq]
  show viewG tag s.first (s.entries.take (mn - s.first)) =
    (viewG tag s.first s.entries).filter (fun p => decide (p.1 ≤ mn - 1))
  rw [← viewG_filter_lt]
  apply List.filter_congr
  intro p _
  congr 1
  apply propext
  omega

/-- everything else DeleteRange is asked to do is a no-op or a refusal in the reference model: the log is unchanged -/
theorem delete_other_link (s : Spec.SLog) (mn mx : Nat)
    (h : mn > mx ∨ s.entries = [] ∨ mx < s.firstIndex ∨ mn > s.lastIndex ∨ (s.firstIndex < mn ∧ mx < s.lastIndex)) :
    (s.delete mn mx).1 = s := by
  unfold Spec.SLog.delete
  by_cases c0 : s.closed = true
  · rw [if_pos c0]
  rw [if_neg c0]
  by_cases c1 : mn > mx
  · rw [if_pos c1]
  rw [if_neg c1]
  by_cases c2 : s.entries.isEmpty = true ∨ mx < s.firstIndex ∨ mn > s.lastIndex
  · rw [if_pos c2]
  rw [if_neg c2]
  have hmid : s.firstIndex < mn ∧ mx < s.lastIndex := by
    rcases h with h | h | h | h | h
    · exact absurd h c1
    · exact absurd (Or.inl (by rw [h]; rfl)) c2
    · exact absurd (Or.inr (Or.inl h)) c2
    · exact absurd (Or.inr (Or.inr h)) c2
    · exact h
  have c3 : ¬ (mn ≤ s.firstIndex) := by omega
  have c4 : ¬ (mx ≥ s.lastIndex) := by omega
  rw [if_neg c3, if_neg c4]

/-! ### non-vacuity -/
example : ∃ (s : Spec.SLog) (l : Log), s.closed = false ∧ s.accepts [l] = true ∧ s.entries ≠ [] := by
  refine ⟨{ first := 1, entries := [{ index := 1, term := 1, typ := 0, data := [], ext := [], time := some WTime.zero }] },
    { index := 2, term := 1, typ := 0, data := [], ext := [], time := some WTime.zero }, rfl, ?_, by simp⟩
  simp [Spec.SLog.accepts, Spec.consecutiveFrom, Spec.SLog.lastIndex, encode]

end RaftWal.Crash
