/-
  Proofs/VerifierProps.lean — theorems about the verifier model (C16, C17, C18).
  Helper lemmas are above the statements that use them or in Proofs/VerifierLemmas.lean.

  Two statements were false as first written (`verify_verdict`, `verify_clean`): `verify` never resets the
  incoming report's `err` field on the clean path, so a report that already carries an error keeps it.
  Each got the minimal extra hypothesis on `r.err`; the original statement and a `decide`-checked
  counterexample are kept next to the theorem.  Every report `updateVerifyState` creates has `err = .none`
  (`uvs_report_err`), so the hypothesis always holds for the reports the middleware feeds to `verify`.
-/
import RaftWal.Model.Verifier
import RaftWal.Proofs.Bytes
import RaftWal.Proofs.VerifierLemmas
namespace RaftWal.Verifier
open RaftWal

/-! ## hash chain -/

/-- **C16 batch independence**: the running sum over a sequence does not depend on how it is split into batches -/
theorem chain_append (s : UInt64) (a b : List Log) : chain s (a ++ b) = chain (chain s a) b :=
  chain_foldl_append s a b

/-- the FNV-1a step is injective in the state for a fixed byte … -/
theorem fnvStep_inj_state (h h' : UInt64) (b : UInt8) (e : fnvStep h b = fnvStep h' b) : h = h' := by
  unfold fnvStep at e
  exact (UInt64.xor_left_inj _).mp (mul_prime64_inj _ _ e)

/-- … and injective in the byte for a fixed state -/
theorem fnvStep_inj_byte (h : UInt64) (b b' : UInt8) (e : fnvStep h b = fnvStep h b') : b = b' := by
  unfold fnvStep at e
  have h1 := (UInt64.xor_right_inj _).mp (mul_prime64_inj _ _ e)
  apply UInt8.toNat_inj.mp
  rw [← UInt8.toNat_toUInt64 b, ← UInt8.toNat_toUInt64 b', h1]

/-- a whole byte string is injective in the starting state -/
theorem fnvBytes_inj_state (h h' : UInt64) (t : Bytes) (e : fnvBytes h t = fnvBytes h' t) : h = h' := by
  induction t generalizing h h' with
  | nil => exact e
  | cons b t ih =>
    simp only [fnvBytes, List.foldl_cons] at e
    exact fnvStep_inj_state _ _ b (ih _ _ e)

/-- **C17 single substitution is always detected**: two hash inputs that differ in exactly one byte
    (same prefix, same suffix) never collide, from any starting state -/
theorem fnvBytes_single_substitution (h : UInt64) (p t : Bytes) (a b : UInt8) (hab : a ≠ b) :
    fnvBytes h (p ++ a :: t) ≠ fnvBytes h (p ++ b :: t) := by
  intro e
  rw [fnvBytes_append, fnvBytes_append] at e
  have e1 : fnvBytes (fnvStep (fnvBytes h p) a) t = fnvBytes (fnvStep (fnvBytes h p) b) t := e
  exact hab (fnvStep_inj_byte _ _ _ (fnvBytes_inj_state _ _ t e1))

/-- a hashed entry: not the bootstrap configuration entry that `checksumLog` deliberately ignores -/
def Hashed (l : Log) : Prop := ¬ (l.index = 1 ∧ l.typ = logConfiguration)

/-- **C17**: flipping one byte of Data (same length) changes the checksum with certainty -/
theorem checksumLog_detects_data_byte (s : UInt64) (l : Log) (p t : Bytes) (a b : UInt8) (hab : a ≠ b)
    (hl : Hashed l) (hd : l.data = p ++ a :: t) :
    checksumLog s l ≠ checksumLog s { l with data := p ++ b :: t } := by
  unfold Hashed at hl
  simp only [checksumLog, hl, if_false, hashInput, hd]
  have := fnvBytes_single_substitution s (putBE 8 l.index ++ putBE 8 l.term ++ putBE 8 l.typ ++ p) (t ++ l.ext) a b hab
  simpa only [List.append_assoc, List.cons_append] using this

/-- **C17**: two 64-bit Term values that differ in exactly one of their 8 bytes give different checksums
    (same for Index and Type, which are hashed the same way). `putBE 8` is the byte string fed to FNV. -/
theorem checksumLog_detects_term_byte (s : UInt64) (l : Log) (t' : Nat) (p q : Bytes) (a b : UInt8) (hab : a ≠ b)
    (hl : Hashed l) (h1 : putBE 8 l.term = p ++ a :: q) (h2 : putBE 8 t' = p ++ b :: q) :
    checksumLog s l ≠ checksumLog s { l with term := t' } := by
  unfold Hashed at hl
  simp only [checksumLog, hl, if_false, hashInput, h1, h2]
  have := fnvBytes_single_substitution s (putBE 8 l.index ++ p) (q ++ putBE 8 l.typ ++ l.data ++ l.ext) a b hab
  simpa only [List.append_assoc, List.cons_append] using this
/-! ## verdicts -/

/-- what `verify` reads back: the entries the node's store returns for `[start, stop)`, if all reads succeed -/
def readRange (n : Node) (start : Nat) : Nat → Option (List Log)
  | 0 => some []
  | k+1 => match n.getLog start with
    | .error _ => none
    | .ok l => (readRange n (start + 1) k).map (l :: ·)

/-- the read-back loop of `verify` is the chain over `readRange` -/
theorem verify_go_eq (n : Node) (k idx : Nat) (sum : UInt64) :
    Node.verify.go n k idx sum = (readRange n idx k).map (chain sum) := by
  induction k generalizing idx sum with
  | zero => simp [Node.verify.go, readRange, chain]
  | succ k ih =>
    simp only [Node.verify.go, readRange]
    cases n.getLog idx with
    | error e => rfl
    | ok l =>
      simp only [ih, Option.map_map]
      congr 1

/-- the five outcomes of `verify`, as a function of the inputs (the report's `err` field) -/
theorem verify_err (n : Node) (r : Report) (hopen : n.store.closed = false) :
    (n.verify r).2.err =
      if r.written ≠ 0 ∧ r.written ≠ r.expected then .checksumInFlight
      else if n.store.firstIndex > r.start then .rangeMismatch
      else match readRange n r.start (r.stop - r.start) with
        | none => .readError
        | some es => if chain 0 es ≠ r.expected then .checksumStorage else r.err := by
  unfold Node.verify
  simp only [verify_go_eq, hopen]
  split
  · rfl
  · simp only [Bool.false_eq_true, if_false]
    split
    · rfl
    · cases readRange n r.start (r.stop - r.start) with
      | none => rfl
      | some es =>
        simp only [Option.map_some]
        split <;> rfl

theorem verify_read (n : Node) (r : Report) (es : List Log) (hopen : n.store.closed = false)
    (hw : ¬ (r.written ≠ 0 ∧ r.written ≠ r.expected)) (hfirst : n.store.firstIndex ≤ r.start)
    (hread : readRange n r.start (r.stop - r.start) = some es) :
    (n.verify r).2.read = chain 0 es := by
  unfold Node.verify
  simp only [verify_go_eq, hopen, hw, hread, if_false, Bool.false_eq_true, Nat.not_lt.mpr hfirst, Option.map_some]
  split <;> rfl

/- ORIGINAL STATEMENT (false: no hypothesis on `r.err`)

theorem verify_verdict (n : Node) (r : Report) (hopen : n.store.closed = false) :
    ((n.verify r).2.err = .checksumInFlight ↔ (r.written ≠ 0 ∧ r.written ≠ r.expected)) ∧
    ((n.verify r).2.err = .checksumStorage ↔
        (¬ (r.written ≠ 0 ∧ r.written ≠ r.expected) ∧ n.store.firstIndex ≤ r.start ∧
         ∃ es, readRange n r.start (r.stop - r.start) = some es ∧ chain 0 es ≠ r.expected))

  On the clean path `verify` returns `{ r with read := sum }`, which keeps whatever `r.err` came in.  -/

/-- counterexample to the original `verify_verdict` (and `verify_clean`): an empty range on a fresh node, the
    incoming report already marked in-flight; the verdict stays in-flight although `written = 0` -/
example :
    let n : Node := {}
    let r : Report := { start := 0, stop := 0, expected := 0, written := 0, err := .checksumInFlight }
    n.store.closed = false ∧ (n.verify r).2.err = .checksumInFlight ∧
      ¬ (r.written ≠ 0 ∧ r.written ≠ r.expected) := by decide

/-- same for the at-rest verdict: it survives a clean read-back -/
example :
    let n : Node := {}
    let r : Report := { start := 0, stop := 0, expected := 0, written := 0, err := .checksumStorage }
    (n.verify r).2.err = .checksumStorage ∧ readRange n r.start (r.stop - r.start) = some [] ∧
      chain 0 [] = r.expected := by decide

/-- **C17 verdict table**: the report carries a checksum mismatch exactly when the node wrote a different
    sum than the leader (in flight), or — the written sum being absent or equal — it holds the whole range and
    reads back a sequence whose chain differs from the leader's sum (at rest).
    Extra hypothesis `herr` (minimal: each conjunct is needed for the iff of the same name, see the two
    counterexamples above): the incoming report does not already carry a checksum verdict. -/
theorem verify_verdict (n : Node) (r : Report) (hopen : n.store.closed = false)
    (herr : r.err ≠ .checksumInFlight ∧ r.err ≠ .checksumStorage) :
    ((n.verify r).2.err = .checksumInFlight ↔ (r.written ≠ 0 ∧ r.written ≠ r.expected)) ∧
    ((n.verify r).2.err = .checksumStorage ↔
        (¬ (r.written ≠ 0 ∧ r.written ≠ r.expected) ∧ n.store.firstIndex ≤ r.start ∧
         ∃ es, readRange n r.start (r.stop - r.start) = some es ∧ chain 0 es ≠ r.expected)) := by
  have hE := verify_err n r hopen
  by_cases h1 : r.written ≠ 0 ∧ r.written ≠ r.expected
  · rw [if_pos h1] at hE
    rw [hE]
    exact ⟨⟨fun _ => h1, fun _ => rfl⟩, ⟨nofun, fun h => absurd h1 h.1⟩⟩
  · rw [if_neg h1] at hE
    by_cases h2 : n.store.firstIndex > r.start
    · rw [if_pos h2] at hE
      rw [hE]
      exact ⟨⟨nofun, fun h => absurd h h1⟩, ⟨nofun, fun h => absurd h.2.1 (Nat.not_le.mpr h2)⟩⟩
    · rw [if_neg h2] at hE
      cases hrr : readRange n r.start (r.stop - r.start) with
      | none =>
        rw [hrr] at hE
        rw [hE]
        exact ⟨⟨nofun, fun h => absurd h h1⟩, ⟨nofun, fun ⟨_, _, es, he, _⟩ => by cases he⟩⟩
      | some es =>
        rw [hrr] at hE
        by_cases h3 : chain 0 es ≠ r.expected
        · replace hE : (n.verify r).2.err = .checksumStorage := by rw [hE]; exact if_pos h3
          rw [hE]
          exact ⟨⟨nofun, fun h => absurd h h1⟩, ⟨fun _ => ⟨h1, Nat.not_lt.mp h2, es, rfl, h3⟩, fun _ => rfl⟩⟩
        · replace hE : (n.verify r).2.err = r.err := by rw [hE]; exact if_neg h3
          rw [hE]
          refine ⟨⟨fun h => absurd h herr.1, fun h => absurd h h1⟩,
            ⟨fun h => absurd h herr.2, fun ⟨_, _, es', he, hne⟩ => ?_⟩⟩
          cases he
          exact absurd hne h3

/-- the form used in practice: a fresh report (`err = .none`, as `updateVerifyState` creates them) -/
theorem verify_verdict_fresh (n : Node) (r : Report) (hopen : n.store.closed = false) (herr : r.err = .none) :
    ((n.verify r).2.err = .checksumInFlight ↔ (r.written ≠ 0 ∧ r.written ≠ r.expected)) ∧
    ((n.verify r).2.err = .checksumStorage ↔
        (¬ (r.written ≠ 0 ∧ r.written ≠ r.expected) ∧ n.store.firstIndex ≤ r.start ∧
         ∃ es, readRange n r.start (r.stop - r.start) = some es ∧ chain 0 es ≠ r.expected)) :=
  verify_verdict n r hopen (by rw [herr]; exact ⟨nofun, nofun⟩)

/-- every report the middleware creates is fresh -/
theorem uvs_report_err (l l' : Log) (cs cs' : UInt64) (st st' : Nat) (r : Report)
    (h : updateVerifyState l cs st = some (l', cs', st', some r)) : r.err = .none ∧ r.read = 0 := by
  unfold updateVerifyState at h
  split at h
  · cases h
  · cases h
  · simp only [] at h
    split at h
    · cases h; exact ⟨rfl, rfl⟩
    · split at h
      · cases h
      · cases h; exact ⟨rfl, rfl⟩

/- ORIGINAL STATEMENT (false for the same reason; the counterexample above has `hw`, `hfirst`, `hread`, `hexp`
   all true and `err = .checksumInFlight` in the result)

theorem verify_clean (n : Node) (r : Report) (es : List Log) (hopen : n.store.closed = false)
    (hw : r.written = 0 ∨ r.written = r.expected) (hfirst : n.store.firstIndex ≤ r.start)
    (hread : readRange n r.start (r.stop - r.start) = some es) (hexp : r.expected = chain 0 es) :
    (n.verify r).2.err = .none ∧ (n.verify r).2.read = r.expected  -/

/-- **C16 no false alarm**: if the node wrote what the leader summed (or has no written sum), holds the range, and
    reads back exactly the entries `es` the leader hashed, the report carries no error at all.
    Extra hypothesis `herr : r.err = .none`: necessary and sufficient, since on this path the outgoing `err` is
    the incoming one (`verify_clean_err`). -/
theorem verify_clean (n : Node) (r : Report) (es : List Log) (hopen : n.store.closed = false)
    (herr : r.err = .none)
    (hw : r.written = 0 ∨ r.written = r.expected) (hfirst : n.store.firstIndex ≤ r.start)
    (hread : readRange n r.start (r.stop - r.start) = some es) (hexp : r.expected = chain 0 es) :
    (n.verify r).2.err = .none ∧ (n.verify r).2.read = r.expected := by
  have hw' : ¬ (r.written ≠ 0 ∧ r.written ≠ r.expected) := by
    intro ⟨a, b⟩; cases hw with
    | inl h => exact a h
    | inr h => exact b h
  refine ⟨?_, ?_⟩
  · rw [verify_err n r hopen]
    rw [if_neg hw', if_neg (Nat.not_lt.mpr hfirst), hread]
    simp only [hexp, ne_eq, not_true_eq_false, if_false, herr]
  · rw [verify_read n r es hopen hw' hfirst hread, hexp]

/-- on the clean path `verify` hands the incoming `err` through unchanged — why `herr` is exactly what is missing -/
theorem verify_clean_err (n : Node) (r : Report) (es : List Log) (hopen : n.store.closed = false)
    (hw : r.written = 0 ∨ r.written = r.expected) (hfirst : n.store.firstIndex ≤ r.start)
    (hread : readRange n r.start (r.stop - r.start) = some es) (hexp : r.expected = chain 0 es) :
    (n.verify r).2.err = r.err := by
  have hw' : ¬ (r.written ≠ 0 ∧ r.written ≠ r.expected) := by
    intro ⟨a, b⟩; cases hw with
    | inl h => exact a h
    | inr h => exact b h
  rw [verify_err n r hopen, if_neg hw', if_neg (Nat.not_lt.mpr hfirst), hread]
  simp only [hexp, ne_eq, not_true_eq_false, if_false]

/-- **C16**: a node that lacks the beginning of the range reports ErrRangeMismatch, not corruption -/
theorem verify_range_mismatch (n : Node) (r : Report) (hopen : n.store.closed = false)
    (hw : r.written = 0 ∨ r.written = r.expected) (hfirst : n.store.firstIndex > r.start) :
    (n.verify r).2.err = .rangeMismatch := by
  have hw' : ¬ (r.written ≠ 0 ∧ r.written ≠ r.expected) := by
    intro ⟨a, b⟩; cases hw with
    | inl h => exact a h
    | inr h => exact b h
  rw [verify_err n r hopen]
  simp [hw', hfirst]
/-! ## the running sum really is the sum of what the store holds (needs the DeleteRange reset) -/

/-- entries of the node's store with index in `[from, last]` -/
def storeFrom (n : Node) (i : Nat) : List Log := n.store.entries.drop (i - n.store.first)

/-- invariant: while a running sum exists it is the chain over the stored entries from its start index -/
def SumInv (n : Node) : Prop :=
  (n.sumStartIdx = 0 → n.checksum = 0) ∧
  (n.sumStartIdx ≠ 0 →
    (¬ n.store.entries.isEmpty ∧ n.store.first ≤ n.sumStartIdx ∧ n.sumStartIdx ≤ n.store.lastIndex ∧
     n.checksum = chain 0 (storeFrom n n.sumStartIdx)))

/-- every entry of the store has the index its position says -/
def StoreWF (n : Node) : Prop :=
  ∀ k (h : k < n.store.entries.length), (n.store.entries[k]'h).index = n.store.first + k

theorem sumInv_init : SumInv {} ∧ StoreWF {} := by
  refine ⟨⟨fun _ => rfl, fun h => absurd rfl h⟩, fun k h => absurd h (Nat.not_lt_zero _)⟩

/-- `SumInv` is `SumOver` on the node's own store -/
theorem sumInv_iff_sumOver (n : Node) :
    SumInv n ↔ SumOver n.store.first n.store.entries n.checksum n.sumStartIdx := by
  unfold SumInv SumOver storeFrom Spec.SLog.lastIndex
  constructor
  · intro ⟨h1, h2⟩
    refine ⟨h1, fun h0 => ?_⟩
    obtain ⟨a, b, c, d⟩ := h2 h0
    have hne : n.store.entries.isEmpty = false := by simpa using a
    rw [hne] at c
    have hlen : 0 < n.store.entries.length := by
      cases he : n.store.entries with
      | nil => rw [he] at hne; cases hne
      | cons x xs => simp
    simp only [Bool.false_eq_true, if_false] at c
    exact ⟨b, by omega, d⟩
  · intro ⟨h1, h2⟩
    refine ⟨h1, fun h0 => ?_⟩
    obtain ⟨a, b, c⟩ := h2 h0
    have hlen : 0 < n.store.entries.length := by omega
    have hne : n.store.entries.isEmpty = false := by
      cases he : n.store.entries with
      | nil => rw [he] at hlen; cases hlen
      | cons x xs => rfl
    rw [hne]
    simp only [Bool.false_eq_true, if_false, not_false_eq_true, true_and]
    exact ⟨a, by omega, c⟩

theorem sumInv_congr (n m : Node) (h1 : n.store = m.store) (h2 : n.checksum = m.checksum)
    (h3 : n.sumStartIdx = m.sumStartIdx) (h : SumInv m ∧ StoreWF m) : SumInv n ∧ StoreWF n := by
  unfold SumInv StoreWF storeFrom at *
  rw [h1, h2, h3]
  exact h

open Spec in
/-- appending an accepted batch whose running sum was computed by `upd` re-establishes both invariants -/
theorem sumInv_append (n : Node) (l : Log) (rest : List Log) (cs : UInt64) (st : Nat)
    (h : SumInv n) (hwf : StoreWF n)
    (hcons : consecutiveFrom l.index (l :: rest) = true)
    (hbase : if n.store.entries.isEmpty then l.index ≥ 1 else l.index = n.store.lastIndex + 1)
    (hsum : ∀ F S, SumOver F S n.checksum n.sumStartIdx → consecutiveFrom (F + S.length) (l :: rest) = true →
        1 ≤ F + S.length → SumOver F (S ++ (l :: rest)) cs st)
    (m : Node)
    (hm1 : m.store = { n.store with first := if n.store.entries.isEmpty then l.index else n.store.first,
                                    entries := n.store.entries ++ (l :: rest) })
    (hm2 : m.checksum = cs) (hm3 : m.sumStartIdx = st) :
    SumInv m ∧ StoreWF m := by
  rw [sumInv_iff_sumOver] at h ⊢
  unfold StoreWF at *
  rw [hm1, hm2, hm3]
  simp only []
  have hidx := consecutiveFrom_index _ _ hcons
  cases hE : n.store.entries with
  | nil =>
    rw [hE] at hbase h
    simp only [List.isEmpty_nil, if_true, List.nil_append] at hbase ⊢
    have hst0 : n.sumStartIdx = 0 := by
      cases Nat.eq_zero_or_pos n.sumStartIdx with
      | inl h0 => exact h0
      | inr hp =>
        obtain ⟨a, b, _⟩ := h.2 (by omega)
        simp only [List.length_nil] at b; omega
    have hP : SumOver l.index [] n.checksum n.sumStartIdx := ⟨h.1, fun h0 => absurd hst0 h0⟩
    have := hsum l.index [] hP (by simpa using hcons) (by simpa using hbase)
    exact ⟨by simpa using this, hidx⟩
  | cons e es =>
    rw [hE] at hbase h hwf
    simp only [SLog.lastIndex, hE, List.isEmpty_cons, Bool.false_eq_true, if_false, List.length_cons] at hbase ⊢
    have hl : l.index = n.store.first + (e :: es).length := by simp only [List.length_cons]; omega
    have := hsum n.store.first (e :: es) h (by rw [← hl]; exact hcons) (by omega)
    refine ⟨this, fun k hk => ?_⟩
    by_cases hk' : k < (e :: es).length
    · rw [List.getElem_append_left hk']
      exact hwf k hk'
    · rw [List.getElem_append_right (Nat.not_lt.mp hk')]
      rw [hidx]
      omega

/-- **C16 running_sum_invariant**, StoreLogs step -/
theorem sumInv_storeLogs (n : Node) (logs : List Log) (h : SumInv n) (hwf : StoreWF n) (hopen : n.store.closed = false) :
    SumInv (n.storeLogs logs).1 ∧ StoreWF (n.storeLogs logs).1 := by
  have _ := hopen  -- not needed: a closed store refuses the batch and the node is unchanged
  unfold Node.storeLogs
  split
  · exact ⟨h, hwf⟩
  · rename_i hne
    split
    · exact ⟨h, hwf⟩
    · rename_i logs' cs st reports hupd
      simp only []
      split
      · exact ⟨h, hwf⟩
      · rename_i e he
        simp only []
        obtain ⟨f1, f2, f3⟩ := foldl_trigger_frame reports
          { n with store := (n.store.store logs').1, checksum := cs, sumStartIdx := st,
                   cpWritten := n.cpWritten + reports.length }
        refine sumInv_congr _ _ f1 f2 f3 ?_
        obtain ⟨ls', hout, hlen, _, hsum⟩ := upd_spec _ _ _ _ _ _ _ _ _ hupd
        simp only [List.reverse_nil, List.nil_append] at hout
        subst hout
        cases logs' with
        | nil =>
          cases logs with
          | nil => simp at hne
          | cons => simp at hlen
        | cons l rest =>
          obtain ⟨hcons, hbase, hst⟩ := store_ok n.store l rest he
          exact sumInv_append n l rest cs st h hwf hcons hbase hsum _ hst rfl rfl

/-- **C16 running_sum_invariant**, DeleteRange step (this is where the reset matters) -/
theorem sumInv_deleteRange (n : Node) (mn mx : Nat) (h : SumInv n) (hwf : StoreWF n) (hreset : n.resetOnDelete = true) :
    SumInv (n.deleteRange mn mx).1 ∧ StoreWF (n.deleteRange mn mx).1 := by
  unfold Node.deleteRange
  simp only []
  split
  · exact ⟨h, hwf⟩
  · rename_i e he
    simp only [hreset, true_and]
    have hwf' : StoreWF { n with store := (n.store.delete mn mx).1,
                                 atRest := n.atRest.filter (fun p => p.1 < mn ∨ p.1 > mx) } := by
      unfold StoreWF at *
      simp only []
      rcases delete_ok n.store mn mx he with h0 | ⟨k, _, _, hk⟩ | ⟨j, _, _, hj⟩
      · rw [h0]; exact hwf
      · rw [hk]; simp only []
        intro i hi
        rw [List.getElem_drop, hwf]; omega
      · rw [hj]; simp only []
        intro i hi
        rw [List.getElem_take, hwf]
    split
    · exact ⟨⟨fun _ => rfl, fun h0 => absurd rfl h0⟩, hwf'⟩
    · rename_i hno
      refine ⟨?_, hwf'⟩
      rw [sumInv_iff_sumOver] at h ⊢
      simp only []
      by_cases h0 : n.sumStartIdx = 0
      · exact ⟨h.1, fun hh => absurd h0 hh⟩
      · have hlt : mx < n.sumStartIdx := by
          apply Nat.lt_of_not_le
          intro hle
          exact hno ⟨h0, hle⟩
        obtain ⟨a, b, c⟩ := h.2 h0
        refine ⟨fun hh => absurd hh h0, fun _ => ?_⟩
        rcases delete_ok n.store mn mx he with hd | ⟨k, hk1, hk2, hk⟩ | ⟨j, hj1, hj2, hj⟩
        · rw [hd]; exact ⟨a, b, c⟩
        · rw [hk]; simp only []
          refine ⟨by omega, by rw [List.length_drop]; omega, ?_⟩
          rw [List.drop_drop, c]
          congr 2
          omega
        · exfalso
          simp only [Spec.SLog.lastIndex, hj2, Bool.false_eq_true, if_false] at hj1
          omega

theorem sumInv_restart (n : Node) (hwf : StoreWF n) : SumInv n.restart ∧ StoreWF n.restart :=
  ⟨⟨fun _ => rfl, fun h0 => absurd rfl h0⟩, hwf⟩

/-! ## C18: transparency and accounting -/

/-- the middleware hands the underlying store the same entries, except that a leader's checkpoint
    (empty Extensions) gains the 24-byte metadata -/
theorem storeLogs_transparent (n : Node) (logs : List Log) :
    let (_, passed, _) := n.storeLogs logs
    passed.length ≤ logs.length ∧
    ∀ k (h1 : k < passed.length) (h2 : k < logs.length),
      let a := passed[k]'h1
      let b := logs[k]'h2
      a.index = b.index ∧ a.term = b.term ∧ a.typ = b.typ ∧ a.data = b.data ∧ a.time = b.time ∧
      (a.ext = b.ext ∨ (isCheckpoint b = .yes ∧ b.ext = [] ∧ a.ext.length = 24)) := by
  have key : ∀ passed, passed = (n.storeLogs logs).2.1 →
      passed.length ≤ logs.length ∧
      ∀ k (h1 : k < passed.length) (h2 : k < logs.length), Transp (passed[k]'h1) (logs[k]'h2) := by
    intro passed hp
    have hnil : ([] : List Log).length ≤ logs.length ∧
        ∀ k (h1 : k < ([] : List Log).length) (h2 : k < logs.length), Transp (([] : List Log)[k]'h1) (logs[k]'h2) :=
      ⟨Nat.zero_le _, fun k h1 => absurd h1 (Nat.not_lt_zero _)⟩
    unfold Node.storeLogs at hp
    split at hp
    · subst hp; exact hnil
    · split at hp
      · subst hp; exact hnil
      · rename_i logs' cs st reports hupd
        obtain ⟨ls', hout, hlen, htr, _⟩ := upd_spec _ _ _ _ _ _ _ _ _ hupd
        simp only [List.reverse_nil, List.nil_append] at hout
        subst hout
        have hgood : logs'.length ≤ logs.length ∧
            ∀ k (h1 : k < logs'.length) (h2 : k < logs.length), Transp (logs'[k]'h1) (logs[k]'h2) :=
          ⟨Nat.le_of_eq hlen, htr⟩
        simp only [] at hp
        split at hp <;> (subst hp; exact hgood)
  have := key _ rfl
  exact this

/-- outstanding = sitting in the 1-slot channel or being delivered -/
def outstanding (n : Node) : Nat := (if n.queued.isSome then 1 else 0) + (if n.busy.isSome then 1 else 0)

/-- **C18 report_or_drop_once** accounting invariant -/
def Acct (n : Node) : Prop := n.cpWritten = n.verified + n.dropped + outstanding n ∧ (n.queued.isSome → n.busy.isSome)

/-- `Acct` with `k` checkpoints written but not yet handed to `trigger` -/
def AcctK (n : Node) (k : Nat) : Prop :=
  n.cpWritten = n.verified + n.dropped + outstanding n + k ∧ (n.queued.isSome → n.busy.isSome)

theorem acctK_trigger (n : Node) (r : Report) (k : Nat) (h : AcctK n (k + 1)) : AcctK (n.trigger r) k := by
  obtain ⟨h1, h2⟩ := h
  unfold Node.trigger
  split
  · rename_i hb
    obtain ⟨_, _, _, t4, t5, t6, t7, t8⟩ := take_frame n r
    have hq : n.queued.isSome = false := by
      cases hq : n.queued.isSome with
      | false => rfl
      | true => have := h2 hq; rw [hb] at this; cases this
    unfold AcctK outstanding at *
    rw [t4, t5, t6, t7, t8]
    rw [hb, hq] at h1
    simp only [hq, Bool.false_eq_true, if_false, if_true, Option.isSome_none] at *
    exact ⟨by omega, nofun⟩
  · rename_i b hb
    split
    · rename_i hq
      unfold AcctK outstanding at *
      simp only [hb, hq, Option.isSome_some, Option.isSome_none, if_true, Bool.false_eq_true, if_false] at *
      exact ⟨by omega, fun _ => trivial⟩
    · rename_i q hq
      unfold AcctK outstanding at *
      simp only [hb, hq, Option.isSome_some, if_true] at *
      exact ⟨by omega, fun _ => trivial⟩

theorem acctK_foldl_trigger (rs : List Report) (n : Node) (k : Nat) (h : AcctK n (k + rs.length)) :
    AcctK (rs.foldl Node.trigger n) k := by
  induction rs generalizing n with
  | nil => exact h
  | cons r rs ih =>
    simp only [List.foldl_cons]
    apply ih
    apply acctK_trigger
    simpa only [List.length_cons, Nat.add_assoc] using h

theorem acct_init : Acct {} := by
  simp [Acct, outstanding]

theorem acct_storeLogs (n : Node) (logs : List Log) (h : Acct n) : Acct (n.storeLogs logs).1 := by
  unfold Node.storeLogs
  split
  · exact h
  · split
    · exact h
    · rename_i logs' cs st reports _
      simp only []
      split
      · exact h
      · simp only []
        have := acctK_foldl_trigger reports
          { n with store := (n.store.store logs').1, checksum := cs, sumStartIdx := st, cpWritten := n.cpWritten + reports.length } 0
        unfold AcctK at this
        unfold Acct at *
        simp only [Nat.zero_add, Nat.add_zero] at this
        apply this
        refine ⟨?_, h.2⟩
        have h1 := h.1
        unfold outstanding at *
        simp only []
        omega

theorem acct_release (n : Node) (h : Acct n) : Acct n.release.1 := by
  obtain ⟨h1, h2⟩ := h
  unfold Node.release
  split
  · exact ⟨h1, h2⟩
  · rename_i r hb
    simp only []
    split
    · rename_i hq
      unfold Acct outstanding at *
      simp only [hb, hq, Option.isSome_some, Option.isSome_none, if_true, Bool.false_eq_true, if_false] at *
      exact ⟨by omega, nofun⟩
    · rename_i q hq
      obtain ⟨_, _, _, t4, t5, t6, t7, t8⟩ :=
        take_frame { n with busy := none, verified := n.verified + 1, queued := none } q
      unfold Acct outstanding at *
      simp only []
      rw [t4, t5, t6, t7, t8]
      simp only [hb, hq, Option.isSome_some, Option.isSome_none, if_true, Bool.false_eq_true, if_false] at *
      exact ⟨by omega, nofun⟩

theorem acct_deleteRange (n : Node) (mn mx : Nat) (h : Acct n) : Acct (n.deleteRange mn mx).1 := by
  unfold Node.deleteRange
  simp only []
  split
  · exact h
  · simp only []
    split <;> exact h

/-- at quiescence every checkpoint is exactly one delivered report or one counted drop -/
theorem quiescent_accounting (n : Node) (h : Acct n) (hq : n.busy = none) : n.cpWritten = n.verified + n.dropped := by
  obtain ⟨h1, h2⟩ := h
  have hqq : n.queued.isSome = false := by
    cases hq' : n.queued.isSome with
    | false => rfl
    | true => have := h2 hq'; rw [hq] at this; cases this
  unfold outstanding at h1
  simp only [hq, hqq, Option.isSome_none, Bool.false_eq_true, if_false] at h1
  omega
end RaftWal.Verifier
