/-
  Proofs/VerifierClusterLemmas.lean — helper lemmas for Proofs/VerifierCluster.lean: the metadata round trip and the
  two inversions of `updateVerifyState` (leader side: empty Extensions; follower side: Extensions = encoded metadata).
-/
import RaftWal.Proofs.VerifierReach
namespace RaftWal.Verifier
open RaftWal

theorem take8_app3 (a b c : Bytes) (ha : a.length = 8) : (a ++ b ++ c).take 8 = a := by
  rw [List.append_assoc, List.take_append_of_le_length (by omega), ← ha, List.take_length]

theorem drop8_app3 (a b c : Bytes) (ha : a.length = 8) : (a ++ b ++ c).drop 8 = b ++ c := by
  rw [List.append_assoc, ← ha, List.drop_left]

theorem drop16_app3 (a b c : Bytes) (ha : a.length = 8) (hb : b.length = 8) : (a ++ b ++ c).drop 16 = c := by
  have : (a ++ b).length = 16 := by simp [ha, hb]
  rw [← this, List.drop_left]

theorem take8_app2 (b c : Bytes) (hb : b.length = 8) : (b ++ c).take 8 = b := by
  rw [List.take_append_of_le_length (by omega), ← hb, List.take_length]

theorem extensionMagic_lt : extensionMagic < 256 ^ 8 := by decide

theorem decodeMeta_encodeMeta' (start : Nat) (sum : UInt64) (hs : start < 2 ^ 64) :
    decodeMeta (encodeMeta start sum) = some (start, sum) := by
  have hlen : ¬ (encodeMeta start sum).length < 24 := by rw [encodeMeta_length]; omega
  unfold decodeMeta
  rw [if_neg hlen]
  unfold encodeMeta
  have e : (256 : Nat) ^ 8 = 2 ^ 64 := by decide
  rw [take8_app3 _ _ _ (putLE_length _ _), drop8_app3 _ _ _ (putLE_length _ _),
    drop16_app3 _ _ _ (putLE_length _ _) (putLE_length _ _), take8_app2 _ _ (putLE_length _ _),
    getLE_putLE 8 _ extensionMagic_lt, getLE_putLE 8 start (by rw [e]; exact hs),
    List.take_of_length_le (by simp), getLE_putLE 8 sum.toNat (by rw [e]; exact sum.toNat_lt)]
  simp

/-- leader side: a report from an entry with empty Extensions means the entry is a checkpoint that got stamped -/
theorem uvs_leader_inv (cp cp' : Log) (cs0 cs : UInt64) (st0 st : Nat) (rL : Report)
    (hext : cp.ext = []) (h : updateVerifyState cp cs0 st0 = some (cp', cs, st, some rL)) :
    isCheckpoint cp = .yes ∧
    cp' = { cp with ext := encodeMeta (if st0 = 0 then cp.index else st0) cs0 } ∧
    rL = { start := (if st0 = 0 then cp.index else st0), stop := cp.index, expected := cs0, written := cs0 } := by
  unfold updateVerifyState at h
  split at h
  · cases h
  · simp at h
  · rename_i hcp
    simp only [hext, List.length_nil, if_true, Option.some.injEq, Prod.mk.injEq] at h
    obtain ⟨h1, _, _, h4⟩ := h
    exact ⟨hcp, h1.symm, h4.symm⟩

/-- follower side: a report from an entry whose Extensions are the encoded metadata `(a, b)` -/
theorem uvs_follower_inv (l l2 : Log) (cs0 cs : UInt64) (st0 st : Nat) (r : Report) (a : Nat) (b : UInt64)
    (hext : l.ext = encodeMeta a b) (ha : a < 2 ^ 64)
    (h : updateVerifyState l cs0 st0 = some (l2, cs, st, some r)) :
    r = { start := a, stop := l.index, expected := b,
          written := if a ≠ (if st0 = 0 then l.index else st0) then 0 else cs0 } := by
  unfold updateVerifyState at h
  split at h
  · cases h
  · simp at h
  · have hl : ¬ ((encodeMeta a b).length = 0) := by rw [encodeMeta_length]; omega
    simp only [hext, hl, if_false, decodeMeta_encodeMeta' a b ha, Option.some.injEq, Prod.mk.injEq] at h
    exact h.2.2.2.symm

/-- forward forms, for building witnesses -/
theorem uvs_leader_fwd (cp : Log) (cs0 : UInt64) (st0 : Nat) (hcp : isCheckpoint cp = .yes) (hext : cp.ext = []) :
    updateVerifyState cp cs0 st0 =
      some ({ cp with ext := encodeMeta (if st0 = 0 then cp.index else st0) cs0 },
            checksumLog 0 { cp with ext := encodeMeta (if st0 = 0 then cp.index else st0) cs0 }, cp.index,
            some { start := (if st0 = 0 then cp.index else st0), stop := cp.index, expected := cs0, written := cs0 }) := by
  unfold updateVerifyState
  simp only [hcp, hext, List.length_nil, if_true]

theorem uvs_follower_fwd (l : Log) (cs0 : UInt64) (st0 : Nat) (a : Nat) (b : UInt64)
    (hcp : isCheckpoint l = .yes) (hext : l.ext = encodeMeta a b) (ha : a < 2 ^ 64) :
    updateVerifyState l cs0 st0 =
      some (l, checksumLog 0 l, l.index,
            some { start := a, stop := l.index, expected := b,
                   written := if a ≠ (if st0 = 0 then l.index else st0) then 0 else cs0 }) := by
  have hl : ¬ ((encodeMeta a b).length = 0) := by rw [encodeMeta_length]; omega
  unfold updateVerifyState
  simp only [hcp, hext, hl, if_false, decodeMeta_encodeMeta' a b ha]

/-- what `SumInv` says about the running sum, in one equation -/
theorem sumInv_checksum (n : Node) (h : SumInv n) :
    n.checksum = chain 0 (if n.sumStartIdx = 0 then [] else storeFrom n n.sumStartIdx) := by
  by_cases h0 : n.sumStartIdx = 0
  · rw [if_pos h0, h.1 h0]; rfl
  · rw [if_neg h0]; exact (h.2 h0).2.2.2

end RaftWal.Verifier
