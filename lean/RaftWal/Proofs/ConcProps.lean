/-
  Proofs/ConcProps.lean — invariants of the small-step concurrency model (Model/Conc.lean) for EVERY schedule:
  every interleaving of any number of readers with the writer's queued state changes and Close.
  The global invariant `Inv` (ConcLemmas2) is shown to hold initially and to be preserved by every step of the
  writer (ConcLemmas4), Close (ConcLemmas5) and a reader (ConcLemmas6); reference-count exactness and no-panic need
  no assumption on file ids and have their own small invariants (ConcLemmas7).  All statements are proved as
  originally stated.
-/
import RaftWal.Model.Conc
import RaftWal.Proofs.ConcLemmas8
namespace RaftWal.Conc

-- Several hypotheses of the statements below turn out to be unnecessary (`closePublished s = false` in
-- current_files_open / error_only_if_removed / intact_if_stays, `sid < s.objs.length` in refcount_exact,
-- `s.closed = true` in close_releases_all); the statements are kept as given.
set_option linter.unusedVariables false

/-- the repaired code: readers test for the empty state -/
def fixed : Cfg := { readersCheckEmpty := true }

/-- initial systems we quantify over: distinct file ids, and every file a mutation adds is fresh (segment ids are
    never reused — C13) -/
structure InitWF (files : List FileId) (muts : List Mutation) : Prop where
  nodup : (files ++ (muts.map (·.add)).flatten).Nodup

/-- threads of a state: everything reachable from an initial system under any schedule -/
def Reachable (files wants : List FileId) (muts : List Mutation) (s : Sys) : Prop :=
  ∃ sched : List Tid, s = run fixed (init files wants muts) sched

theorem Reachable.inv {files wants : List FileId} {muts : List Mutation} (hwf : InitWF files muts) {s : Sys}
    (h : Reachable files wants muts s) : Inv s := by
  obtain ⟨sched, rfl⟩ := h
  exact inv_run fixed sched (inv_init files wants muts hwf.nodup)

theorem Reachable.cinv {files wants : List FileId} {muts : List Mutation} {s : Sys}
    (h : Reachable files wants muts s) : CInv s := by
  obtain ⟨sched, rfl⟩ := h
  exact cinv_run fixed sched (cinv_init files wants muts)

/-- **C14 no panic**: in no execution does a reader dereference the empty state Close stores -/
theorem no_panic (files wants : List FileId) (muts : List Mutation) (s : Sys) (h : Reachable files wants muts s) :
    ∀ r ∈ s.readers, r.pc ≠ .done .panic ∧ ∀ sid, r.pc ≠ .finished sid .panic := by
  obtain ⟨sched, rfl⟩ := h
  exact noPanic_run (cfg := fixed) rfl sched (noPanic_init files wants muts)

/-- the pinned code (no empty-state test) does panic: a reader parked after its closed check, Close, reader resumed -/
theorem panic_witness_unfixed :
    ∃ sched, ∃ r ∈ (run { readersCheckEmpty := false } (init [1] [1] []) sched).readers, r.pc = .done .panic := by
  refine ⟨[.reader 0, .closer, .closer, .closer, .closer, .reader 0, .reader 0, .reader 0, .reader 0], ?_⟩
  decide

/-- **C06/C14 no handle is closed twice** (finalizers run exactly once, and never for a file another finalizer
    already closed) -/
theorem no_double_close (files wants : List FileId) (muts : List Mutation) (hwf : InitWF files muts) (s : Sys)
    (h : Reachable files wants muts s) : s.doubleClose = false := by
  exact (h.inv hwf).no_dc

/-- has Close already replaced the state pointer? -/
def closePublished (s : Sys) : Bool :=
  match s.cpc with
  | .published _ | .finSet _ | .done => true
  | _ => false

/-- **C06 files of the current state are open**: until Close swaps in the empty state, every file the current
    state references is open — whatever readers, truncations and rotations are in flight -/
theorem current_files_open (files wants : List FileId) (muts : List Mutation) (hwf : InitWF files muts) (s : Sys)
    (h : Reachable files wants muts s) (hc : closePublished s = false) :
    ∀ f ∈ (s.obj s.cur).files, s.isOpen f = true := by
  exact (h.inv hwf).cur_open

/-- **C06 error only if removed**: a read fails with a file error (an error other than not-found, not during Close)
    only for a file that a state change has dropped from the current state -/
theorem error_only_if_removed (files wants : List FileId) (muts : List Mutation) (hwf : InitWF files muts) (s : Sys)
    (h : Reachable files wants muts s) (i : Nat) (r : Reader) (hr : s.readers[i]? = some r) (sid : Nat)
    (hpc : r.pc = .acquired sid) (hc : closePublished s = false)
    (hres : ((stepReader fixed s i).readers[i]?.map (·.pc)) = some (.finished sid .errFile)) :
    r.want ∉ (s.obj s.cur).files := by
  rw [stepReader_acquired fixed s i r hr sid hpc] at hres
  injection hres with hres
  injection hres with _ hres
  exact (h.inv hwf).err_removed fixed r sid hres

/-- **C06 intact if it stays**: a read of an entry whose file is in the snapshot the reader holds and still in the
    current state (and Close has not swapped the state) succeeds -/
theorem intact_if_stays (files wants : List FileId) (muts : List Mutation) (hwf : InitWF files muts) (s : Sys)
    (h : Reachable files wants muts s) (i : Nat) (r : Reader) (hr : s.readers[i]? = some r) (sid : Nat)
    (hpc : r.pc = .acquired sid) (hin : r.want ∈ (s.obj sid).files) (hempty : (s.obj sid).empty = false)
    (hcur : r.want ∈ (s.obj s.cur).files) (hc : closePublished s = false) :
    ((stepReader fixed s i).readers[i]?.map (·.pc)) = some (.finished sid .ok) := by
  rw [stepReader_acquired fixed s i r hr sid hpc, (h.inv hwf).read_ok fixed r sid hin hempty hcur]

/-- reference counting is exact: the count of a state object equals the number of threads currently holding a
    reference to it -/
def holders (s : Sys) (sid : Nat) : Nat :=
  (s.readers.filter (fun r => match r.pc with
      | .acquired x => x == sid
      | .finished x _ => x == sid
      | _ => false)).length
  + (match s.wpc with | .held x | .published x | .finSet x => if x = sid then 1 else 0 | _ => 0)
  + (match s.cpc with | .held x | .published x | .finSet x => if x = sid then 1 else 0 | _ => 0)

theorem refcount_exact (files wants : List FileId) (muts : List Mutation) (s : Sys)
    (h : Reachable files wants muts s) (sid : Nat) (hs : sid < s.objs.length) :
    (s.obj sid).refCount = holders s sid := by
  exact h.cinv.rc sid

/-- **C14 Close is final**: once Close has set the flag, a call that starts afterwards returns ErrClosed -/
theorem closed_is_final (s : Sys) (i : Nat) (r : Reader) (hr : s.readers[i]? = some r) (hpc : r.pc = .start)
    (hcl : s.closed = true) : ((stepReader fixed s i).readers[i]?.map (·.pc)) = some (.done .errClosed) := by
  exact stepReader_start_closed fixed s i r hr hpc hcl

/-- **C14 handles released after readers**: when Close has finished, the writer is idle and every reader has
    finished, every file any state ever referenced has been closed -/
theorem close_releases_all (files wants : List FileId) (muts : List Mutation) (hwf : InitWF files muts) (s : Sys)
    (h : Reachable files wants muts s) (hc : s.cpc = .done) (hw : s.wpc = .idle)
    (hr : ∀ r ∈ s.readers, ∃ res, r.pc = .done res) (hclosed : s.closed = true) :
    ∀ sid, sid < s.objs.length → ∀ f ∈ (s.obj sid).files, s.isOpen f = false := by
  exact (h.inv hwf).all_closed hc hw hr

end RaftWal.Conc
