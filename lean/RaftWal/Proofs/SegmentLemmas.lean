/-
  Proofs/SegmentLemmas.lean — helper lemmas for Proofs/SegmentL1.lean.

  The bulk lives in Proofs/Segment/*.lean:
    Basic    arithmetic of the frame layout, model frames = README frames, list slicing
    Frames   header round trips; generic frames; one step of scanFrames / Spec.parseFrame / readFrame
    Layout   explicit form of Spec.addBatch, the frame list of a layout
    Run      one fault-free Append, the invariant `Inv` between writer and layout fold, the whole run
    Read     well-formedness of the frames, README decoder, entry frames sit at their offsets
    Recover  recoverTail over a layout followed by zeros
  This file adds the file-name lemmas.
-/
import RaftWal.Proofs.Segment.Recover
namespace RaftWal

/-! ## file names -/

theorem natToDigits_go_eq (base n v : Nat) (acc : List Char) :
    natToDigits.go base n v acc = Spec.fixedWidth base n v ++ acc := by
  induction n generalizing v acc with
  | zero => rfl
  | succ n ih =>
    rw [natToDigits.go, ih, Spec.fixedWidth, List.append_assoc]
    rfl

theorem natToDigits_eq (base n v : Nat) : natToDigits base n v = Spec.fixedWidth base n v := by
  rw [natToDigits, natToDigits_go_eq, List.append_nil]

theorem numDigits_le (b : Nat) (w : Nat) (v : Nat) (hv : v < b ^ (w+1)) : numDigits b v ≤ w + 1 := by
  induction w generalizing v with
  | zero =>
    rw [numDigits, dif_pos (Or.inl (by simpa using hv))]
    omega
  | succ w ih =>
    rw [numDigits]
    split
    · omega
    · have : v / b < b ^ (w+1) := by
        apply Nat.div_lt_of_lt_mul
        rw [Nat.pow_succ, Nat.mul_comm] at hv; exact hv
      have := ih _ this
      omega

theorem fmtPadded_eq (b : Nat) (w v : Nat) (hv : v < b ^ (w+1)) :
    fmtPadded b (w+1) v = String.ofList (Spec.fixedWidth b (w+1) v) := by
  rw [fmtPadded, Nat.max_eq_left (numDigits_le b w v hv), natToDigits_eq]

end RaftWal
