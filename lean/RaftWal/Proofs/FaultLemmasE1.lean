/-
  Proofs/FaultLemmasE1.lean — fresh states (what an Open leaves): `vdisk`, `strip`, `cleanTail` are the identity on a
  `QuiescentS` disk, readers see the disk's log, the executable invariant `FInv` holds, `init` is fresh, and the legal
  calls relative to the view are the legal calls of the crash model.
-/
import RaftWal.Proofs.FaultStmt
namespace RaftWal.Fault.E
open RaftWal.Crash

/-- no file has anything beyond the writer's offset -/
def Clean (d : Disk) : Prop := ∀ f ∈ d.files, f.pending = [] ∧ f.sealedP = false

theorem vfile_id {f : File} (hp : f.pending = []) (hs : f.sealedP = false) : vfile f = f := by
  cases f; simp only [vfile] at *; simp [hp, hs]

theorem vdisk_of_clean {d : Disk} (h : Clean d) : vdisk d = d := by
  cases d with
  | mk md files =>
    simp only [vdisk]
    congr 1
    have : ∀ l : List File, (∀ f ∈ l, f.pending = [] ∧ f.sealedP = false) → l.map vfile = l := by
      intro l hl
      induction l with
      | nil => rfl
      | cons a l ih =>
        simp only [List.map_cons]
        rw [vfile_id (hl a (by simp)).1 (hl a (by simp)).2, ih (fun f hf => hl f (by simp [hf]))]
    exact this files h

/-- every file of a `QS` disk is the file of a segment: nothing pending on it -/
theorem clean_of_QS {d : Disk} {P : List Seg} {t : Seg} {f : File} (h : QS d P t f) : Clean d := by
  intro g hg
  have hgf := file?_of_mem h.base.nodupF hg
  have := h.sub g.id (List.mem_map.2 ⟨g, hg, rfl⟩)
  obtain ⟨s, hs, e⟩ := List.mem_map.1 this
  simp only [List.mem_append, List.mem_cons, List.not_mem_nil, or_false] at hs
  rcases hs with hs | rfl
  · obtain ⟨f', hf', hsf⟩ := h.base.sealed s hs
    rw [e, hgf] at hf'; cases hf'
    exact ⟨hsf.pend, hsf.sp⟩
  · have := h.tf
    rw [e, hgf] at this; cases this
    exact ⟨h.qt.pend, h.qt.sp⟩

theorem clean_of_quiescentS {d : Disk} (h : QuiescentS d) : Clean d := by
  obtain ⟨P, t, f, hq⟩ := (quiescentS_iff d).1 h
  exact clean_of_QS hq

theorem vdisk_fresh {d : Disk} (h : QuiescentS d) : vdisk d = d := vdisk_of_clean (clean_of_quiescentS h)

theorem view_of_running {p : Proc} (hf : p.frozen = none) : view p = absLog (vdisk p.disk) := by
  unfold view
  rw [hf]
  rfl

theorem fresh_view : fresh_view_stmt := by
  intro p hp
  rw [view_of_running hp.2, vdisk_fresh hp.1]

/-! ### `strip` and `cleanTail` -/

theorem filter_all_id {α : Type} (l : List α) (q : α → Bool) (h : ∀ a ∈ l, q a = true) : l.filter q = l :=
  List.filter_eq_self.2 h

theorem strip_of_sub {d : Disk} (h : d.files.all (fun f => d.md.segs.any (fun s => s.id == f.id)) = true) :
    strip d = d := by
  cases d with
  | mk md files =>
    simp only [strip]
    congr 1
    exact filter_all_id _ _ (List.all_eq_true.1 h)

theorem strip_fresh {d : Disk} (h : QuiescentS d) : strip d = d := by
  apply strip_of_sub
  have hq : quiescentB d = true := h.1
  unfold quiescentB at hq
  split at hq
  · cases hq
  · simp only [Bool.and_eq_true] at hq
    exact hq.2

theorem updFile_id (fs : List File) (id : Nat) (g : File → File) (h : ∀ f ∈ fs, f.id = id → g f = f) :
    updFile fs id g = fs := by
  unfold updFile
  induction fs with
  | nil => rfl
  | cons a l ih =>
    simp only [List.map_cons]
    rw [ih (fun f hf => h f (by simp [hf]))]
    by_cases e : a.id = id
    · simp [e, h a (by simp) e]
    · simp [e]

theorem cleanTail_fresh {d : Disk} (h : QuiescentS d) : cleanTail d = d := by
  obtain ⟨P, t, f, hq⟩ := (quiescentS_iff d).1 h
  have hl : d.md.segs.getLast? = some t := by rw [hq.base.segs]; simp
  unfold cleanTail
  rw [hl]
  cases d with
  | mk md files =>
    simp only
    congr 1
    apply updFile_id
    intro g hg e
    have hgf := file?_of_mem hq.base.nodupF hg
    have := hq.tf
    rw [← e, hgf] at this
    have e2 : g = f := Option.some.inj this
    have h1 := hq.qt.pend
    have h2 := hq.qt.sp
    have h3 := hq.qt.ss
    rw [← e2] at h1 h2 h3
    cases g
    simp only at h1 h2 h3
    simp [h1, h2, h3]

/-! ### the invariant on fresh states -/

theorem finvRunB_of_quiescentS {d : Disk} (h : QuiescentS d) : finvRunB d = true := by
  obtain ⟨P, t, f, hq⟩ := (quiescentS_iff d).1 h
  have hl : d.md.segs.getLast? = some t := by rw [hq.base.segs]; simp
  have hc := clean_of_QS hq
  unfold finvRunB
  rw [strip_fresh h, cleanTail_fresh h, (quiescentSB_iff d).2 h]
  simp only [hl, hq.tf, Bool.true_and, Bool.and_eq_true, List.all_eq_true, Bool.or_eq_true, decide_eq_true_eq,
    Bool.not_eq_eq_eq_not, Bool.not_true, List.isEmpty_iff]
  refine ⟨⟨⟨⟨?_, ?_⟩, ?_⟩, ?_⟩, ?_⟩
  · exact (nodupB_iff _).2 hq.base.nodupF
  · intro g hg; exact hq.base.fidlt g.id (List.mem_map.2 ⟨g, hg, rfl⟩)
  · intro g hg
    cases hh : g.hsynced with
    | false => exact Or.inl rfl
    | true => exact Or.inr (h.2.1 g hg hh)
  · intro g hg
    exact Or.inr (hc g hg)
  · exact Or.inr ⟨hq.qt.pend, hq.qt.sp⟩

/-- the first conjunct of the invariant (the statement of `fresh_inv_stmt` before `FInvS` was introduced) -/
theorem fresh_finv : ∀ p, Fresh p → FInv p := by
  intro p hp
  unfold FInv finvB
  rw [hp.2]
  exact finvRunB_of_quiescentS hp.1

/-- on a `QuiescentS` disk the tail file carries no seal -/
theorem fextraRunB_of_quiescentS {d : Disk} (h : QuiescentS d) : fextraRunB d = true := by
  obtain ⟨P, t, f, hq⟩ := (quiescentS_iff d).1 h
  have hl : d.md.segs.getLast? = some t := by rw [hq.base.segs]; simp
  unfold fextraRunB
  simp only [hl, hq.tf, hq.qt.ss, hq.qt.sp, Bool.or_self, Bool.not_false, Bool.true_or]

theorem fresh_fextra : ∀ p, Fresh p → fextraB p = true := by
  intro p hp
  unfold fextraB
  rw [hp.2]
  exact fextraRunB_of_quiescentS hp.1

theorem fresh_inv : fresh_inv_stmt := fun p hp => ⟨fresh_finv p hp, fresh_fextra p hp⟩

/-! ### `init` -/

theorem init_eq : Fault.init = some { disk := disk0 } := by
  unfold Fault.init
  rw [open_empty]
  rfl

theorem disk0_quiescentS : QuiescentS disk0 := by
  obtain ⟨d, ho, hq, _⟩ := init_quiescentS
  rw [open_empty] at ho
  cases ho
  exact hq

theorem init_fresh : init_fresh_stmt := by
  refine ⟨{ disk := disk0 }, init_eq, ⟨disk0_quiescentS, rfl⟩, ?_⟩
  rw [fresh_view _ ⟨disk0_quiescentS, rfl⟩]
  decide

/-! ### legal calls -/

theorem lfirst_absLog (d : Disk) : lfirst (absLog d) = firstIndex d := rfl
theorem llast_absLog (d : Disk) : llast (absLog d) = lastIndex d := rfl

theorem okV_absLog_iff (d : Disk) (op : Op) : OkV (absLog d) op ↔ op.ok d := by
  cases op <;> exact Iff.rfl

/-- on a fresh state the calls legal for the readers' view are the calls legal in the crash model -/
theorem fresh_okV_iff {p : Proc} (hp : Fresh p) (op : Op) : OkV (view p) op ↔ op.ok p.disk := by
  rw [fresh_view p hp]
  exact okV_absLog_iff _ op

end RaftWal.Fault.E
