/-
  Proofs/FaultLemmasA4.lean — the steps of StoreLogs that preserve `FRun`: a batch put beyond (or removed from beyond)
  the writer's offset, the fsync of the tail, the deletion of a file no segment names, the base-index reset, the
  rotation; the stopped state a failing Create leaves.
-/
import RaftWal.Proofs.FaultLemmasA3
namespace RaftWal.Fault.A
open RaftWal.Crash

/-! ### what lies beyond the writer's offset -/

def setPend (x : List Entry) (b : Bool) (f : File) : File := { f with pending := x, sealedP := b }

theorem applyF_write (d : Disk) (id : Nat) (es : List Entry) (sl : Bool) :
    applyF d (.write id es sl) = updT d id (setPend es sl) := rfl

theorem failEffect_nothing (d : Disk) (id : Nat) (es : List Entry) (sl : Bool) :
    failEffect d .nothing (.write id es sl) = d := rfl
theorem failEffect_garbage (d : Disk) (id : Nat) (es : List Entry) (sl : Bool) :
    failEffect d .garbage (.write id es sl) = updT d id (setPend [] false) := rfl
theorem failEffect_whole (d : Disk) (id : Nat) (es : List Entry) (sl : Bool) :
    failEffect d .whole (.write id es sl) = updT d id (setPend es sl) := rfl

theorem FRun.putPend {d : Disk} {P : List Seg} {t : Seg} {f : File} (h : FRun d P t f) (hss : f.sealedS = false)
    (x : List Entry) (b : Bool) :
    FRun (updT d t.id (setPend x b)) P t (setPend x b f) ∧ logP (updT d t.id (setPend x b)) P = logP d P := by
  have hb := base_updT h.base (setPend x b) (fun _ => rfl) (fun _ => rfl) (fun _ => rfl)
  refine ⟨⟨hb.1, ?_, ⟨h.ft.base, h.ft.lk, h.ft.mn, h.ft.vis, ?_⟩⟩, hb.2⟩
  · rw [updT_file? d t.id (setPend x b) (fun _ => rfl)]; simp [h.tf]
  · intro hc
    have : f.sealedS = true := hc
    rw [hss] at this; cases this

/-! ### fsync of the tail -/

theorem FRun.fsyncT {d : Disk} {P : List Seg} {t : Seg} {f : File} (h : FRun d P t f) :
    ∃ f', FRun (d.apply (.fsync t.id)) P t f' ∧ logP (d.apply (.fsync t.id)) P = logP d P ∧ f'.base = f.base ∧
      f'.synced = f.synced ++ f.pending ∧ f'.pending = [] ∧ f'.sealedS = (f.sealedS || f.sealedP) ∧
      f'.sealedP = false ∧ f'.linked = true := by
  have hb := h.base.fsync t.id h.base.tid_ne
  obtain ⟨f', hf', h1, h2, h3, h4, h5, h6, _⟩ := fsync_file h.base.hl h.tf
  have hmn := h.ft.mn
  have hvis := h.ft.vis
  refine ⟨f', ⟨hb.1, hf', ⟨h1.trans h.ft.base, Or.inl h6, ?_, ?_, fun _ => ⟨h3, h5⟩⟩⟩, hb.2, h1, h2, h3, h4, h5, h6⟩
  · rw [h1, h2, List.length_append]; omega
  · rw [h1, h2, List.length_append]
    intro hne
    by_cases hx : f.synced = []
    · have : f.pending ≠ [] := by intro hy; apply hne; simp [hx, hy]
      have := List.length_pos_iff.2 this
      omega
    · have := hvis hx; omega

/-! ### deleting a file no segment names -/

theorem FRun.deleteT {d : Disk} {P : List Seg} {t : Seg} {f : File} (h : FRun d P t f) (j : Nat)
    (hj : ∀ s ∈ P ++ [t], s.id ≠ j) :
    FRun (d.apply (.delete j)) P t f ∧ logP (d.apply (.delete j)) P = logP d P := by
  have hb := h.base.delete j (fun s hs => hj s (by simp [hs]))
  refine ⟨⟨hb.1, ?_, h.ft⟩, hb.2⟩
  rw [apply_delete_file?]
  simp [hj t (by simp), h.tf]

/-! ### from and to `Rec` -/

theorem FRun.of_rec {A : Log → Prop} {d : Disk} {P : List Seg} {t : Seg} {f : File} (h : Rec A d P t)
    (hf : d.file? t.id = some f) : FRun d P t f := by
  have hr := h.tsome f hf
  refine ⟨h.base, hf, ⟨hr.base, ?_, hr.mn, hr.vis, fun hs => ⟨(hr.ss hs).1, (hr.ss hs).2.1⟩⟩⟩
  rcases hr.lk with h1 | h1
  · exact Or.inl h1
  · exact Or.inr h1.1

/-- a tail whose last append is durable, as a `Rec` state whose only admissible log is what readers see -/
theorem FRun.toRec {d : Disk} {P : List Seg} {t : Seg} {f : File} (h : FRun d P t f) (hne : f.synced ≠ [])
    (hlk : f.linked = true) (hp : f.pending = []) (hsp : f.sealedP = false) :
    Rec (fun l => l = absLog (vdisk d)) d P t := by
  refine ⟨h.base, ?_, ?_⟩
  · intro g hg
    rw [h.tf] at hg; cases hg
    refine ⟨h.ft.base, Or.inl hlk, h.ft.mn, h.ft.vis, fun _ => ⟨hp, hsp, hne⟩, ?_, h.view_eq.symm, ?_⟩
    · intro hc; rw [hsp] at hc; cases hc
    · rw [hp, List.append_nil]; exact h.view_eq.symm
  · intro hn; rw [h.tf] at hn; cases hn

/-! ### the base-index reset -/

theorem nextID_none {d : Disk} (hlt : ∀ j ∈ fids d, j < d.md.nextID) : d.file? d.md.nextID = none := by
  rw [file?_none_iff]; intro hc; exact Nat.lt_irrefl _ (hlt _ hc)

/-- commit and create of a tail that replaces everything (the log is empty) -/
theorem reset_run {d : Disk} (hn : (fids d).Nodup) (hlt : ∀ j ∈ fids d, j < d.md.nextID) (hl : HL d) (b : Nat)
    (hb : 1 ≤ b) :
    FRun ((d.apply (.commit ⟨d.md.nextID + 1, [newSeg d.md.nextID b], d.md.stable⟩)).apply (.create d.md.nextID b)) []
      (newSeg d.md.nextID b) (File.fresh d.md.nextID b) := by
  have h1 : Rec (fun _ => True) (d.apply (.commit ⟨d.md.nextID + 1, [newSeg d.md.nextID b], d.md.stable⟩)) []
      (newSeg d.md.nextID b) := Rec.fresh (A := fun _ => True) hn d.md.nextID hlt hl b hb trivial d.md.stable
  have hnone : (d.apply (.commit ⟨d.md.nextID + 1, [newSeg d.md.nextID b], d.md.stable⟩)).file?
      (newSeg d.md.nextID b).id = none := nextID_none hlt
  have h2 := h1.create hnone
  apply FRun.of_rec h2
  have := apply_create_file? _ d.md.nextID b hnone d.md.nextID
  simpa [newSeg] using this

/-! ### the stopped state a failing Create leaves -/

theorem disk_undo (d : Disk) (m : Meta) (hn : m.nextID = d.md.nextID + 1) (hst : m.stable = d.md.stable) :
    ({ md := { nextID := m.nextID - 1, segs := d.md.segs, stable := m.stable }, files := d.files } : Disk) = d := by
  cases d with
  | mk md files =>
    cases md with
    | mk n s st =>
      simp only at hn hst
      simp only [hn, Nat.add_sub_cancel, hst]

theorem finvStop_of {d : Disk} {m : Meta} {nt : Seg} (hrun : finvRunB d = true) (hn : m.nextID = d.md.nextID + 1)
    (hst : m.stable = d.md.stable) (hlast : m.segs.getLast? = some nt) (hid : nt.id = d.md.nextID)
    (hsl : nt.sealed = false) (hlt : ∀ j ∈ fids d, j < d.md.nextID) :
    FInv { disk := d.apply (.commit m), frozen := some d.md.segs } := by
  unfold FInv finvB
  simp only
  unfold finvStopB
  simp only [apply_commit_md, apply_commit_files]
  rw [disk_undo d m hn hst, hrun]
  simp only [hlast, hn, Nat.add_sub_cancel, hid, hsl, apply_commit_file?, nextID_none hlt]
  simp

/-! ### the rotation -/

theorem vfile_lastIdx {f : File} (hp : f.pending = []) : (vfile f).lastIdx = f.lastIdx := by
  simp [File.lastIdx, File.content, vfile, hp]

theorem rotateActs_vdisk {d : Disk} {P : List Seg} {t : Seg} {f : File} (h : FRun d P t f) (hp : f.pending = []) :
    rotateActs (vdisk d) = [rotCommit d P t f.lastIdx, .create d.md.nextID (f.lastIdx + 1)] := by
  have h3 : (P ++ [t]).getLast? = some t := by simp
  have hv : (vdisk d).file? t.id = some (vfile f) := by rw [vdisk_file?, h.tf]; rfl
  unfold rotateActs rotCommit sealSeg
  simp only [vdisk_md, h.base.segs, h3, hv, newTailActs, vfile_lastIdx hp]
  rw [setSeg_tail (t' := { t with sealed := true, max := f.lastIdx }) h.base.tid_ne rfl]

/-! ### the two further conjuncts (`fextraB`) -/

/-- a tail file that carries a seal is not empty -/
def XT (f : File) : Prop := (f.sealedS = true ∨ f.sealedP = true) → f.synced ++ f.pending ≠ []

theorem XT_of_noseal {f : File} (h1 : f.sealedS = false) (h2 : f.sealedP = false) : XT f := by
  intro h
  rcases h with h | h
  · rw [h1] at h; cases h
  · rw [h2] at h; cases h

theorem XT_of_synced {f : File} (h : f.synced ≠ []) : XT f :=
  fun _ hc => h (List.append_eq_nil_iff.1 hc).1

theorem XT_of_pending {f : File} (h : f.pending ≠ []) : XT f :=
  fun _ hc => h (List.append_eq_nil_iff.1 hc).2

theorem fextraRun_iff {d : Disk} {P : List Seg} {t : Seg} {f : File} (h : FRun d P t f) :
    fextraRunB d = true ↔ XT f := by
  unfold fextraRunB XT
  rw [h.last]
  simp only [h.tf, Bool.or_eq_true, Bool.not_eq_eq_eq_not, Bool.not_true, Bool.or_eq_false_iff, List.isEmpty_eq_false_iff]
  constructor
  · intro hx hs
    rcases hx with hx | hx
    · rcases hs with hs | hs
      · rw [hx.1] at hs; cases hs
      · rw [hx.2] at hs; cases hs
    · exact hx
  · intro hx
    cases h1 : f.sealedS with
    | true => exact Or.inr (hx (Or.inl h1))
    | false =>
      cases h2 : f.sealedP with
      | true => exact Or.inr (hx (Or.inr h2))
      | false => exact Or.inl ⟨rfl, rfl⟩

theorem fextraRun_of {d : Disk} {P : List Seg} {t : Seg} {f : File} (h : FRun d P t f) (hx : XT f) :
    fextraB { disk := d } = true := (fextraRun_iff h).2 hx

/-- the committed segment list of a stopped process: what `Base` says about it -/
theorem fextraStop_of_base {d : Disk} {P : List Seg} {n : Seg} (hb : Base d P n) (hm : n.min = n.base)
    (segs0 : List Seg) : fextraB { disk := d, frozen := some segs0 } = true := by
  show fextraStopB d = true
  unfold fextraStopB
  have h3 : (P ++ [n]).getLast? = some n := by simp
  rw [hb.segs, h3]
  simp only [List.dropLast_concat, Bool.and_eq_true, List.all_eq_true, fileOK_false_iff, nodupB_iff,
    decide_eq_true_eq]
  exact ⟨⟨⟨⟨⟨hb.sealed, hb.chain⟩, hb.nodupS⟩, hb.idlt⟩, hm⟩, hb.tb1⟩

end RaftWal.Fault.A
