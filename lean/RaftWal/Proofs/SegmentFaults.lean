/-
  Proofs/SegmentFaults.lean — the writer's behaviour under injected I/O failures (C10, L1).
-/
import RaftWal.Model.Segment
namespace RaftWal

/-- a failed `Append` (write error after any prefix landed, or fsync error) leaves the in-memory writer exactly as
    it was: nothing of the failed batch is visible through it -/
theorem append_fault_rollback (w : Writer) (file : Bytes) (es : List (Nat × Bytes)) (f : IoFault) (hf : f ≠ .none)
    (hne : es.isEmpty = false) :
    (w.append file es f).2.1 = w ∧ (w.indexStart = 0 → (w.append file es f).1.isSome) := by
  unfold Writer.append
  simp only [hne, Bool.false_eq_true, if_false]
  split
  · exact ⟨rfl, fun h => by omega⟩
  · split
    · exact ⟨rfl, fun _ => rfl⟩
    · split
      · exact ⟨rfl, fun _ => rfl⟩
      · rename_i w2 _
        cases f with
        | none => exact absurd rfl hf
        | write k => simp [Writer.appendCommit]
        | sync => simp [Writer.appendCommit]

/-- a failed `ForceSeal` leaves the in-memory writer exactly as it was (in particular not marked sealed) -/
theorem forceSeal_fault_rollback (w : Writer) (file : Bytes) (f : IoFault) (e : SegErr)
    (h : (w.forceSeal file f).1 = .error e) : (w.forceSeal file f).2.1 = w := by
  unfold Writer.forceSeal at *
  by_cases h0 : w.indexStart > 0
  · simp [h0]
  · simp only [h0, if_false] at h ⊢
    cases h1 : w.appendIndex with
    | error e1 => simp [h1]
    | ok w1 =>
      simp only [h1] at h ⊢
      cases h2 : w1.appendCommit file f with
      | mk r fl =>
        cases r with
        | error e2 => simp [h2]
        | ok w2 => simp [h2] at h

end RaftWal
