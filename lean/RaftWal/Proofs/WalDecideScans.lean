/-
  Proofs/WalDecideScans.lean — the model's truncation scans and StoreLogs guards are the ones obtained by plugging
  the predicates translated from wal.go (Generated/WalDecide.lean) into copies of the model functions.
  The generated bodies are never unfolded inside the walk proofs: each walk lemma takes a pointwise
  "inline condition ↔ predicate = true" hypothesis, discharged by the theorems of Proofs/WalDecide.lean.
-/
import RaftWal.Proofs.WalDecide
namespace RaftWal

/-! ## truncateHead -/

/-- copy of `Wal.truncateHead`; the scan asks `stops` -/
def Wal.truncateHeadVia (stops : Bool → Nat → Nat → Nat → Nat → Nat → Bool) (w : Wal) (newMin : Nat) : Wal × Option Err :=
  let tci := w.tailCommitIdx
  let oldLast := w.lastIndex
  let n := headRemoved w.firstIndex oldLast newMin
  let rec walk : List (SegS × Rdr) → List (SegS × Rdr) → List Nat → (Option (SegS × Rdr) × List (SegS × Rdr) × List Nat)
    | [], _, del => (none, [], del)
    | (s, r) :: rest, remaining, del =>
      if stops s.sealed s.base s.min s.max (lastIndexOf remaining tci) newMin then (some (s, r), rest, del)
      else walk rest remaining.tail (del ++ [s.id])
  let (head, rest, del) := walk w.segs w.segs []
  let w := { w with ctr := { w.ctr with headTrunc := u64 (w.ctr.headTrunc + n) } }
  match head with
  | some (h, r) =>
    ({ w with segs := ({ h with min := newMin }, r) :: rest }.removeFiles del, none)
  | none =>
    let w1 := { w with segs := [] }
    match w1.createNext (u64 (oldLast + 1)) with
    | none => (w, some .other)
    | some w2 => (w2.removeFiles del, none)


/-- generic: the model's forward walk is the copy's walk for any predicate that agrees pointwise with the inline
    condition -/
theorem truncateHead_walk_eq_of_pointwise (stops : Bool → Nat → Nat → Nat → Nat → Nat → Bool) (newMin tci : Nat)
    (hp : ∀ (s : SegS) (stateLast : Nat),
      ((¬ s.sealed ∧ stateLast ≥ newMin) ∨ (s.sealed ∧ s.max ≥ newMin)) ↔
        stops s.sealed s.base s.min s.max stateLast newMin = true)
    (segs remaining : List (SegS × Rdr)) (del : List Nat) :
    Wal.truncateHead.walk newMin tci segs remaining del = Wal.truncateHeadVia.walk stops newMin tci segs remaining del := by
  induction segs generalizing remaining del with
  | nil => simp [Wal.truncateHead.walk, Wal.truncateHeadVia.walk]
  | cons x rest ih =>
    obtain ⟨s, r⟩ := x
    unfold Wal.truncateHead.walk Wal.truncateHeadVia.walk
    by_cases h : stops s.sealed s.base s.min s.max (lastIndexOf remaining tci) newMin = true
    · rw [if_pos ((hp s _).mpr h), if_pos h]
    · rw [if_neg (fun hc => h ((hp s _).mp hc)), if_neg h]
      exact ih _ _

/-- generic: pointwise-equal predicates give the same copy -/
theorem truncateHead_eq_via_of_pointwise (stops : Bool → Nat → Nat → Nat → Nat → Nat → Bool) (w : Wal) (n : Nat)
    (hp : ∀ (s : SegS) (stateLast : Nat),
      ((¬ s.sealed ∧ stateLast ≥ n) ∨ (s.sealed ∧ s.max ≥ n)) ↔
        stops s.sealed s.base s.min s.max stateLast n = true) :
    w.truncateHead n = w.truncateHeadVia stops n := by
  unfold Wal.truncateHead Wal.truncateHeadVia
  simp only [truncateHead_walk_eq_of_pointwise stops n w.tailCommitIdx hp]
  rfl

/-- **`Wal.truncateHead` is the copy with the condition translated from `truncateHeadLocked`** -/
theorem truncateHead_eq_via (w : Wal) (n : Nat) :
    w.truncateHead n = w.truncateHeadVia Generated.truncateHeadStopsAt n :=
  truncateHead_eq_via_of_pointwise _ w n (fun s sl => truncateHead_stop_eq_source s sl n)

/-! ## truncateTail -/

/-- copy of `Wal.truncateTail`; the reverse scan asks `keeps` -/
def Wal.truncateTailVia (keeps : Nat → Nat → Nat → Nat → Bool) (w : Wal) (newMax : Nat) : Wal × Option Err :=
  let tci := w.tailCommitIdx
  let n := if w.lastIndex > newMax then w.lastIndex - newMax else 0
  let rec walk : List (SegS × Rdr) → List Nat → (List (SegS × Rdr) × List Nat)
    | [], del => ([], del)
    | (s, r) :: restRev, del =>
      if keeps s.base s.min s.max newMax then ((s, r) :: restRev, del)
      else walk restRev (del ++ [s.id])
  let (keptRev, del) := walk w.segs.reverse []
  let bump (w : Wal) : Wal := { w with ctr := { w.ctr with tailTrunc := u64 (w.ctr.tailTrunc + n) } }
  match keptRev with
  | [] =>
    let w1 := { w with segs := [] }
    match w1.createNext 0 with
    | none => (bump w, some .other)
    | some w2 => ((bump w2).removeFiles del, none)
  | (t, r) :: before =>
    let (t', files, ok) :=
      if t.sealed then (t, w.files, true)
      else match w.file? t.id with
        | none => (t, w.files, false)
        | some f =>
          if f.indexStart > 0 then ({ t with sealed := true, indexStart := f.indexStart }, w.files, true)
          else if f.entries.length = 0 then (t, w.files, false)
          else
            let hdr := if f.wsize = 0 then fileHeaderLen else 0
            let is := f.wsize + (hdr + frameHeaderLen)
            let f' := { f with indexStart := is, wsize := f.wsize + (hdr + indexFrameSize f.entries.length + frameHeaderLen) }
            ({ t with sealed := true, indexStart := is }, updFile w.files f', true)
    let _ := tci
    if ¬ ok then (w, some .other)
    else
      let w1 := { w with segs := (before.reverse ++ [({ t' with max := newMax }, r)]), files := files }
      match w1.createNext 0 with
      | none => (bump w, some .other)
      | some w2 => ((bump w2).removeFiles del, none)

theorem truncateTail_walk_eq_of_pointwise (keeps : Nat → Nat → Nat → Nat → Bool) (newMax : Nat)
    (hp : ∀ (s : SegS), (s.base ≤ newMax) ↔ keeps s.base s.min s.max newMax = true)
    (segs : List (SegS × Rdr)) (del : List Nat) :
    Wal.truncateTail.walk newMax segs del = Wal.truncateTailVia.walk keeps newMax segs del := by
  induction segs generalizing del with
  | nil => simp [Wal.truncateTail.walk, Wal.truncateTailVia.walk]
  | cons x rest ih =>
    obtain ⟨s, r⟩ := x
    unfold Wal.truncateTail.walk Wal.truncateTailVia.walk
    by_cases h : keeps s.base s.min s.max newMax = true
    · rw [if_pos ((hp s).mpr h), if_pos h]
    · rw [if_neg (fun hc => h ((hp s).mp hc)), if_neg h]
      exact ih _

theorem truncateTail_eq_via_of_pointwise (keeps : Nat → Nat → Nat → Nat → Bool) (w : Wal) (n : Nat)
    (hp : ∀ (s : SegS), (s.base ≤ n) ↔ keeps s.base s.min s.max n = true) :
    w.truncateTail n = w.truncateTailVia keeps n := by
  unfold Wal.truncateTail Wal.truncateTailVia
  simp only [truncateTail_walk_eq_of_pointwise keeps n hp]
  rfl

/-- **`Wal.truncateTail` is the copy with the condition translated from `truncateTailLocked`** -/
theorem truncateTail_eq_via (w : Wal) (n : Nat) :
    w.truncateTail n = w.truncateTailVia Generated.truncateTailKeeps n :=
  truncateTail_eq_via_of_pointwise _ w n (fun s => truncateTail_keep_eq_source s n)

/-! ## StoreLogs -/

/-- copy of `Wal.storeLogs`; the re-base guard asks `rebases`, the monotonicity loop asks `refuses` -/
def Wal.storeLogsVia (rebases : Nat → Nat → Nat → Bool) (refuses : Nat → Nat → Bool) (w : Wal) (logs : List Log) :
    Wal × Option Err :=
  if w.closed then (w, some .closed) else
  match logs with
  | [] => (w, none)
  | first :: _ =>
  let lastIdx := w.lastIndex
  let tailBase := (w.tailSeg.map (·.1.base)).getD 0
  let w? := if rebases lastIdx first.index tailBase then w.resetBase first.index else some w
  match w? with
  | none => (w, some .other)
  | some w =>
    let rec chk : Nat → List Log → Bool
      | _, [] => true
      | last, l :: ls => (if refuses last l.index then false else
                           if (encode l).isNone then false else chk l.index ls)
    if ¬ chk lastIdx logs then (w, some .other)
    else match w.tailSeg with
      | none => (w, some .other)
      | some (t, _) => match w.file? t.id with
        | none => (w, some .other)
        | some f => match appendFile f t.sizeLimit logs with
          | .error e => (w, some e)
          | .ok f' =>
            let nBytes := (logs.map encLen).sum
            let w := { w with files := updFile w.files f'
                            , ctr := { w.ctr with appends := w.ctr.appends + 1, entriesW := w.ctr.entriesW + logs.length
                                                , bytesW := w.ctr.bytesW + nBytes } }
            let w := if f'.indexStart > 0 then w.rotate f'.indexStart else w
            (w, none)

/-- the pairs (index before, index) the monotonicity loop looks at, starting from `last`: on each of them the
    predicate says what the model's inline condition says -/
def ChkAgree (refuses : Nat → Nat → Bool) : Nat → List Log → Prop
  | _, [] => True
  | last, l :: ls => ((last > 0 ∧ l.index ≠ last + 1) ↔ refuses last l.index = true) ∧ ChkAgree refuses l.index ls

theorem storeLogs_chk_eq_of_agree (refuses : Nat → Nat → Bool) (last : Nat) (logs : List Log)
    (h : ChkAgree refuses last logs) :
    Wal.storeLogs.chk last logs = Wal.storeLogsVia.chk refuses last logs := by
  induction logs generalizing last with
  | nil => simp [Wal.storeLogs.chk, Wal.storeLogsVia.chk]
  | cons l ls ih =>
    obtain ⟨h1, h2⟩ := h
    unfold Wal.storeLogs.chk Wal.storeLogsVia.chk
    by_cases hr : refuses last l.index = true
    · rw [if_pos (h1.mpr hr), if_pos hr]
    · rw [if_neg (fun hc => hr (h1.mp hc)), if_neg hr, ih _ h2]

/-- generic: `Wal.storeLogs` is the copy for any predicates that agree with the inline conditions where the
    function looks: the re-base guard on its one argument triple, the loop on the consecutive pairs -/
theorem storeLogs_eq_via_of_agree (rebases : Nat → Nat → Nat → Bool) (refuses : Nat → Nat → Bool) (w : Wal) (logs : List Log)
    (hb : ∀ lastIdx firstNew tailBase, (lastIdx = 0 ∧ firstNew ≠ tailBase) ↔ rebases lastIdx firstNew tailBase = true)
    (hr : ChkAgree refuses w.lastIndex logs) :
    w.storeLogs logs = w.storeLogsVia rebases refuses logs := by
  unfold Wal.storeLogs Wal.storeLogsVia
  cases logs with
  | nil => rfl
  | cons first rest =>
    simp only [storeLogs_chk_eq_of_agree refuses w.lastIndex (first :: rest) hr]
    by_cases hc : rebases w.lastIndex first.index ((w.tailSeg.map (·.1.base)).getD 0) = true
    · simp only [if_pos ((hb _ _ _).mpr hc), if_pos hc]
      rfl
    · simp only [if_neg (fun h => hc ((hb _ _ _).mp h)), if_neg hc]
      rfl

/-- the numeric hypothesis is enough for the pairs to agree with the translated `storeRefusesIndex`:
    `lastIdx + 1` must not wrap for any index that is followed by another one -/
theorem chkAgree_source (last : Nat) (logs : List Log)
    (h0 : last + 1 < 2^64) (h : ∀ l ∈ logs.dropLast, l.index + 1 < 2^64) :
    ChkAgree Generated.storeRefusesIndex last logs := by
  induction logs generalizing last with
  | nil => trivial
  | cons l ls ih =>
    refine ⟨store_refuses_eq_source last l.index h0, ?_⟩
    cases ls with
    | nil => trivial
    | cons l' ls' =>
      apply ih
      · exact h l (by simp [List.dropLast])
      · intro x hx
        exact h x (by simp [List.dropLast]; exact Or.inr hx)

/-- **`Wal.storeLogs` is the copy with the guards translated from `StoreLogs`**, as long as the `lastIdx + 1` of the
    monotonicity check does not wrap: the log's last index and every entry of the batch but the last are below
    2^64 − 1 -/
theorem storeLogs_eq_via (w : Wal) (logs : List Log)
    (h0 : w.lastIndex + 1 < 2^64) (h : ∀ l ∈ logs.dropLast, l.index + 1 < 2^64) :
    w.storeLogs logs = w.storeLogsVia Generated.storeRebases Generated.storeRefusesIndex logs :=
  storeLogs_eq_via_of_agree _ _ w logs store_rebase_eq_source (chkAgree_source _ _ h0 h)

/-- the hypothesis is the weakest one for the pointwise statement: the translated check agrees with the model's
    inline condition on every index exactly for the `lastIdx` whose `+ 1` does not wrap -/
theorem store_refuses_agree_iff (lastIdx : Nat) :
    (∀ idx, (lastIdx > 0 ∧ idx ≠ lastIdx + 1) ↔ Generated.storeRefusesIndex lastIdx idx = true) ↔ lastIdx + 1 < 2^64 := by
  constructor
  · intro h
    rcases Nat.lt_or_ge (lastIdx + 1) (2^64) with hlt' | hn
    · exact hlt'
    exfalso
    have h1 := (h (lastIdx + 1)).mpr
    have h2 : Generated.storeRefusesIndex lastIdx (lastIdx + 1) = true := by
      have hlt : (lastIdx + 1) % 2^64 < 2^64 := Nat.mod_lt _ (by decide)
      have hne : lastIdx + 1 ≠ (lastIdx + 1) % 2^64 := by omega
      have hpos : lastIdx > 0 := by omega
      unfold Generated.storeRefusesIndex u64
      simp only [Bool.or_eq_true, Bool.and_eq_true, decide_eq_true_eq, Bool.not_eq_true', decide_eq_false_iff_not, Nat.reducePow] at *
      all_goals omega
    exact (h1 h2).2 rfl
  · intro h idx
    exact store_refuses_eq_source lastIdx idx h

/-! ### the hypothesis cannot be dropped -/

namespace ScansCex

def t0 : WTime := { v2 := false, sec := 0, nsec := 0, offMin := 0, offSec := 0 }
def mk (i : Nat) : Log := { index := i, term := 1, typ := 0, data := [], ext := [], time := some t0 }
def seg : SegS := { id := 0, base := 2^64 - 1, min := 2^64 - 1, max := 0, indexStart := 0, sealed := false, codec := 1,
                    sizeLimit := 2^20 }
def cfg : WalCfg := { segmentSize := 2^20, codecId := 1, newSegCodec := 1 }

/-- a log whose only entry has index 2^64 − 1 (open tail file, nothing else) -/
def wFull : Wal :=
  { cfg := cfg, nextID := 1, segs := [(seg, .writer (2^64 - 1))],
    files := [{ id := 0, base := 2^64 - 1, codec := 1, entries := [mk (2^64 - 1)], wsize := 100, indexStart := 0 }],
    stable := [], ctr := {}, closed := false }

/-- an empty log whose tail is based at 2^64 − 1 -/
def wEmpty : Wal :=
  { wFull with files := [{ id := 0, base := 2^64 - 1, codec := 1, entries := [], wsize := 0, indexStart := 0 }] }

/-- `wFull` with the tail file already carrying an index frame (not a state the sequential model reaches) -/
def wSealedFile : Wal :=
  { wFull with files := [{ id := 0, base := 2^64 - 1, codec := 1, entries := [mk (2^64 - 1)], wsize := 100, indexStart := 60 }] }

theorem wFull_lastIndex : wFull.lastIndex = 2^64 - 1 := by decide
theorem wEmpty_lastIndex : wEmpty.lastIndex = 0 := by decide

/-- `h0` is tight: at `lastIndex = 2^64 − 1` the model takes index 2^64 (plain `+ 1`), the code's check asks for 0 -/
theorem storeLogs_ne_via_at_wrap :
    (wFull.storeLogs [mk (2^64)]).2 = none ∧
    (wFull.storeLogsVia Generated.storeRebases Generated.storeRefusesIndex [mk (2^64)]).2 = some .other := by
  constructor <;> decide

/-- the bound on the batch is tight: 2^64 − 1 followed by 2^64 inside one batch (log empty, so `h0` holds) -/
theorem storeLogs_ne_via_in_batch :
    (wEmpty.storeLogs [mk (2^64 - 1), mk (2^64)]).2 = none ∧
    (wEmpty.storeLogsVia Generated.storeRebases Generated.storeRefusesIndex [mk (2^64 - 1), mk (2^64)]).2 = some .other := by
  constructor <;> decide

/-- with uint64 indexes only: after 2^64 − 1 the code's check lets index 0 through (the model's does not); on a state
    whose tail file is sealed the difference shows in the error returned -/
theorem storeLogs_ne_via_uint64 :
    (wSealedFile.storeLogs [mk 0]).2 = some .other ∧
    (wSealedFile.storeLogsVia Generated.storeRebases Generated.storeRefusesIndex [mk 0]).2 = some .sealed := by
  constructor <;> decide

/-- without a hypothesis the equality of 3. is false -/
theorem storeLogs_eq_via_needs_hypothesis :
    ¬ ∀ (w : Wal) (logs : List Log),
        w.storeLogs logs = w.storeLogsVia Generated.storeRebases Generated.storeRefusesIndex logs := by
  intro h
  have h1 := congrArg Prod.snd (h wFull [mk (2^64)])
  rw [storeLogs_ne_via_at_wrap.1, storeLogs_ne_via_at_wrap.2] at h1
  cases h1

/-- … also when every index involved is a uint64 -/
theorem storeLogs_eq_via_needs_hypothesis_uint64 :
    ¬ ∀ (w : Wal) (logs : List Log), w.lastIndex < 2^64 → (∀ l ∈ logs, l.index < 2^64) →
        w.storeLogs logs = w.storeLogsVia Generated.storeRebases Generated.storeRefusesIndex logs := by
  intro h
  have h1 := congrArg Prod.snd (h wSealedFile [mk 0] (by decide) (by decide))
  rw [storeLogs_ne_via_uint64.1, storeLogs_ne_via_uint64.2] at h1
  cases h1

end ScansCex

/-! ## DeleteRange -/

/-- what the code does with a decision: the copies with the translated scan conditions -/
def Wal.applyDelVia (w : Wal) : DelAction → Wal × Option Err
  | .nothing => (w, none)
  | .head n => w.truncateHeadVia Generated.truncateHeadStopsAt n
  | .tail n => w.truncateTailVia Generated.truncateTailKeeps n
  | .refuse => (w, some .other)

theorem applyDel_eq_via (w : Wal) (a : DelAction) : w.applyDel a = w.applyDelVia a := by
  cases a <;> simp [Wal.applyDel, Wal.applyDelVia, truncateHead_eq_via, truncateTail_eq_via]

/-- **`Wal.deleteRange` on an open log with uint64 arguments = the decision translated from `DeleteRange`, carried out
    by the truncations with the scan conditions translated from `truncateHeadLocked` / `truncateTailLocked`** -/
theorem deleteRange_via_source (w : Wal) (min max : Nat) (hc : w.closed = false)
    (hmin : min < 2^64) (hmax : max < 2^64) (hf : w.firstIndex < 2^64) (hl : w.lastIndex < 2^64) :
    w.deleteRange min max = w.applyDelVia (Generated.deleteRangeDecide min max w.firstIndex w.lastIndex) := by
  rw [deleteRange_eq_decision w min max hc, delDecision_eq_source w min max hmin hmax hf hl, applyDel_eq_via]

end RaftWal

section
open RaftWal
#print axioms truncateHead_eq_via
#print axioms truncateTail_eq_via
#print axioms storeLogs_eq_via_of_agree
#print axioms storeLogs_eq_via
#print axioms ScansCex.storeLogs_eq_via_needs_hypothesis
#print axioms ScansCex.storeLogs_eq_via_needs_hypothesis_uint64
#print axioms ScansCex.storeLogs_ne_via_in_batch
#print axioms store_refuses_agree_iff
#print axioms deleteRange_via_source
end
