/-
  Proofs/CrashSpecLinkLemmas.lean — list lemmas behind Proofs/CrashSpecLink.lean: a list numbered from `f`
  (`viewG tag f es` = entry number k of `es`, abstracted by `tag`, paired with `f + k`), how it unfolds, appends, and
  how filtering it by an index bound is `drop` / `take` on the underlying list.
-/
namespace RaftWal.Crash

/-- `es` numbered from `f`, entries abstracted by `tag` -/
def viewG {α β : Type} (tag : α → β) (f : Nat) (es : List α) : List (Nat × β) :=
  ((List.range es.length).zip es).map (fun p => (f + p.1, tag p.2))

theorem viewG_nil {α β : Type} (tag : α → β) (f : Nat) : viewG tag f [] = [] := rfl

theorem viewG_cons {α β : Type} (tag : α → β) (f : Nat) (e : α) (es : List α) :
    viewG tag f (e :: es) = (f, tag e) :: viewG tag (f + 1) es := by
  unfold viewG
  rw [List.length_cons, List.range_succ_eq_map, List.zip_cons_cons, List.map_cons, List.zip_map_left, List.map_map]
  refine congr (congrArg _ (by simp)) ?_
  apply List.map_congr_left
  intro p _
  simp [Nat.add_comm 1, Nat.add_assoc]

theorem viewG_append {α β : Type} (tag : α → β) (a b : List α) (f : Nat) :
    viewG tag f (a ++ b) = viewG tag f a ++ viewG tag (f + a.length) b := by
  induction a generalizing f with
  | nil => simp [viewG_nil]
  | cons e a ih =>
    rw [List.cons_append, viewG_cons, viewG_cons, ih, List.length_cons, List.cons_append,
      Nat.add_assoc, Nat.add_comm 1]

theorem viewG_map {α β : Type} (tag : α → β) (es : List α) (f : Nat) :
    viewG tag f es = viewG (fun x => x) f (es.map tag) := by
  induction es generalizing f with
  | nil => rfl
  | cons e es ih => rw [List.map_cons, viewG_cons, viewG_cons, ih]

theorem viewG_bounds {α β : Type} (tag : α → β) (es : List α) (f : Nat) :
    ∀ p ∈ viewG tag f es, f ≤ p.1 ∧ p.1 < f + es.length := by
  induction es generalizing f with
  | nil => intro p hp; simp [viewG_nil] at hp
  | cons e es ih =>
    intro p hp
    rw [viewG_cons, List.mem_cons] at hp
    rw [List.length_cons]
    cases hp with
    | inl h => subst h; exact ⟨Nat.le_refl _, by omega⟩
    | inr h => have := ih (f + 1) p h; omega

theorem viewG_head? {α β : Type} (tag : α → β) (es : List α) (f : Nat) (hne : es ≠ []) :
    (viewG tag f es).head?.map (·.1) = some f := by
  cases es with
  | nil => exact absurd rfl hne
  | cons e es => rw [viewG_cons]; rfl

theorem viewG_getLast? {α β : Type} (tag : α → β) (es : List α) (f : Nat) (hne : es ≠ []) :
    (viewG tag f es).getLast?.map (·.1) = some (f + es.length - 1) := by
  induction es generalizing f with
  | nil => exact absurd rfl hne
  | cons e es ih =>
    cases es with
    | nil => simp [viewG_cons, viewG_nil]
    | cons e2 es =>
      rw [viewG_cons, viewG_cons, List.getLast?_cons_cons, ← viewG_cons, ih (f + 1) (by simp)]
      simp only [List.length_cons]
      congr 1
      omega

/-- keeping the indexes ≥ f + k is dropping the first k entries -/
theorem viewG_filter_ge {α β : Type} (tag : α → β) (es : List α) (f k : Nat) :
    (viewG tag f es).filter (fun p => decide (f + k ≤ p.1)) = viewG tag (f + k) (es.drop k) := by
  induction es generalizing f k with
  | nil => simp [viewG_nil]
  | cons e es ih =>
    cases k with
    | zero =>
      rw [List.drop_zero, Nat.add_zero, List.filter_eq_self]
      intro p hp
      have := (viewG_bounds tag (e :: es) f p hp).1
      simpa using this
    | succ k =>
      rw [viewG_cons, List.filter_cons, List.drop_succ_cons]
      have h1 : decide (f + (k + 1) ≤ (f, tag e).1) = false := by simp
      rw [h1]
      have h2 : f + (k + 1) = (f + 1) + k := by omega
      rw [h2]
      exact ih (f + 1) k

/-- keeping the indexes < f + k is taking the first k entries -/
theorem viewG_filter_lt {α β : Type} (tag : α → β) (es : List α) (f k : Nat) :
    (viewG tag f es).filter (fun p => decide (p.1 < f + k)) = viewG tag f (es.take k) := by
  induction es generalizing f k with
  | nil => simp [viewG_nil]
  | cons e es ih =>
    cases k with
    | zero =>
      rw [List.take_zero, viewG_nil, List.filter_eq_nil_iff]
      intro p hp
      have := (viewG_bounds tag (e :: es) f p hp).1
      simp only [Nat.add_zero, decide_eq_true_eq]
      omega
    | succ k =>
      rw [viewG_cons, List.filter_cons, List.take_succ_cons, viewG_cons]
      have h1 : decide ((f, tag e).1 < f + (k + 1)) = true := by simp
      rw [h1]
      have h2 : f + (k + 1) = (f + 1) + k := by omega
      rw [h2, if_pos rfl, ih (f + 1) k]

theorem viewG_filter_none {α β : Type} (tag : α → β) (es : List α) (f m : Nat) (h : f + es.length ≤ m) :
    (viewG tag f es).filter (fun p => decide (m ≤ p.1)) = [] := by
  rw [List.filter_eq_nil_iff]
  intro p hp
  have := (viewG_bounds tag es f p hp).2
  simp only [decide_eq_true_eq]
  omega

end RaftWal.Crash
