/-
  Proofs/FaultLemmasB4.lean — fault model, part B: the actions of a head truncation and what `runActs` makes of them
  for every position of the failing action.
-/
import RaftWal.Proofs.FaultLemmasB3
namespace RaftWal.Fault.B
open RaftWal.Crash

/-! ### deletions: a failing one is ignored -/

/-- after a run of deletions (any number of which may fail) only files with one of the identifiers may be missing;
    nothing is reported -/
theorem runActs_deletes (ids : List Nat) (d : Disk) (pl : Plan) :
    ∃ (g : Nat → Bool) (pl' : Plan), (∀ j, j ∉ ids → g j = true) ∧
      runActs d (ids.map .delete) pl = ({ d with files := d.files.filter (fun f => g f.id) }, none, pl') := by
  induction ids generalizing d pl with
  | nil =>
    refine ⟨fun _ => true, pl, fun _ _ => rfl, ?_⟩
    rw [List.map_nil, runActs_nil]
    have : d.files.filter (fun _ => true) = d.files := List.filter_eq_self.2 (fun _ _ => rfl)
    show (d, none, pl) = ({ d with files := d.files.filter (fun _ => true) }, none, pl)
    rw [this]
  | cons a l ih =>
    have step : ∀ pl1, ∃ (g : Nat → Bool) (pl' : Plan), (∀ j, j ∉ a :: l → g j = true) ∧
        runActs (d.apply (.delete a)) (l.map .delete) pl1 =
          ({ d with files := d.files.filter (fun f => g f.id) }, none, pl') := by
      intro pl1
      obtain ⟨g, pl', hg, hr⟩ := ih (d.apply (.delete a)) pl1
      refine ⟨fun j => decide (j ≠ a) && g j, pl', ?_, ?_⟩
      · intro j hj
        simp only [List.mem_cons, not_or] at hj
        simp [hj.1, hg j hj.2]
      · rw [hr]
        simp only [Disk.apply, List.filter_filter, Bool.and_comm]
    rcases pl with _ | ⟨_ | wf, pl⟩
    · exact step []
    · exact step pl
    · obtain ⟨g, pl', hg, hr⟩ := ih d pl
      exact ⟨g, pl', fun j hj => hg j (fun h => hj (List.mem_cons_of_mem _ h)), hr⟩

/-- commit, then deletions: the commit fails and nothing changed, or the call goes through -/
theorem run_keep (d : Disk) (m : Meta) (ids : List Nat) (pl : Plan) :
    (∃ pl', runActs d (.commit m :: ids.map .delete) pl = (d, some (.commit m), pl')) ∨
    ∃ (g : Nat → Bool) (pl' : Plan), (∀ j, j ∉ ids → g j = true) ∧
      runActs d (.commit m :: ids.map .delete) pl =
        ({ md := m, files := d.files.filter (fun f => g f.id) }, none, pl') := by
  rcases pl with _ | ⟨_ | wf, pl⟩
  · obtain ⟨g, pl', hg, hr⟩ := runActs_deletes ids (applyF d (.commit m)) []
    exact Or.inr ⟨g, pl', hg, hr⟩
  · obtain ⟨g, pl', hg, hr⟩ := runActs_deletes ids (applyF d (.commit m)) pl
    exact Or.inr ⟨g, pl', hg, hr⟩
  · exact Or.inl ⟨pl, rfl⟩

theorem apply_create_fresh (d : Disk) (m : Meta) (id b : Nat) (h : d.file? id = none) :
    ({ d with md := m } : Disk).apply (.create id b) = { md := m, files := d.files ++ [File.fresh id b] } := by
  have h' : ({ d with md := m } : Disk).file? id = none := h
  simp only [Disk.apply, h', Option.isSome_none, Bool.false_eq_true, ↓reduceIte, File.fresh]

/-- commit, create, then deletions: the commit fails and nothing changed; the create fails after the commit; or the
    call goes through -/
theorem run_all (d : Disk) (m : Meta) (id b : Nat) (ids : List Nat) (pl : Plan)
    (hfresh : d.file? id = none) :
    (∃ pl', runActs d (.commit m :: .create id b :: ids.map .delete) pl = (d, some (.commit m), pl')) ∨
    (∃ pl', runActs d (.commit m :: .create id b :: ids.map .delete) pl =
      ({ d with md := m }, some (.create id b), pl')) ∨
    ∃ (g : Nat → Bool) (pl' : Plan), (∀ j, j ∉ ids → g j = true) ∧
      runActs d (.commit m :: .create id b :: ids.map .delete) pl =
        ({ md := m, files := (d.files ++ [File.fresh id b]).filter (fun f => g f.id) }, none, pl') := by
  have step : ∀ pl1, ∃ (g : Nat → Bool) (pl' : Plan), (∀ j, j ∉ ids → g j = true) ∧
      runActs ((applyF d (.commit m)).apply (.create id b)) (ids.map .delete) pl1 =
        ({ md := m, files := (d.files ++ [File.fresh id b]).filter (fun f => g f.id) }, none, pl') := by
    intro pl1
    obtain ⟨g, pl', hg, hr⟩ := runActs_deletes ids ((applyF d (.commit m)).apply (.create id b)) pl1
    refine ⟨g, pl', hg, ?_⟩
    rw [hr, applyF_commit, apply_create_fresh d m id b hfresh]
  rcases pl with _ | ⟨_ | wf, pl⟩
  · exact Or.inr (Or.inr (step []))
  · rcases pl with _ | ⟨_ | wf, pl⟩
    · exact Or.inr (Or.inr (step []))
    · exact Or.inr (Or.inr (step pl))
    · exact Or.inr (Or.inl ⟨pl, rfl⟩)
  · exact Or.inl ⟨pl, rfl⟩

/-! ### the actions of a head truncation -/

theorem filter_ack_deletes (ids : List Nat) :
    (ids.map Act.delete ++ [Act.ack]).filter (· != .ack) = ids.map Act.delete := by
  rw [List.filter_append]
  have h1 : (ids.map Act.delete).filter (· != .ack) = ids.map Act.delete := by
    apply List.filter_eq_self.2
    intro a ha
    obtain ⟨j, _, rfl⟩ := List.mem_map.1 ha
    rfl
  rw [h1]
  simp

theorem delHead_acts_keep (v : Disk) (n : Nat) {h : Seg} {rest : List Seg}
    (hk : v.md.segs.dropWhile (goneB (lastIndex v) n) = h :: rest) :
    (delHeadProg v n).filter (· != .ack) =
      .commit { v.md with segs := { h with min := n } :: rest } ::
        (segIds (v.md.segs.takeWhile (goneB (lastIndex v) n))).map .delete := by
  rw [delHeadProg_eq, hk]
  show List.filter _ (Act.commit _ :: (List.map _ _ ++ [Act.ack])) = _
  rw [List.filter_cons_of_pos (by rfl), map_delete_eq, filter_ack_deletes]

theorem delHead_acts_all (v : Disk) (n : Nat) (hk : v.md.segs.dropWhile (goneB (lastIndex v) n) = []) :
    (delHeadProg v n).filter (· != .ack) =
      .commit ⟨v.md.nextID + 1, [newSeg v.md.nextID (lastIndex v + 1)], v.md.stable⟩ ::
        .create v.md.nextID (lastIndex v + 1) ::
        (segIds (v.md.segs.takeWhile (goneB (lastIndex v) n))).map .delete := by
  rw [delHeadProg_eq, hk]
  show List.filter _ (Act.commit _ :: Act.create _ _ :: (List.map _ _ ++ [Act.ack])) = _
  rw [List.filter_cons_of_pos (by rfl), List.filter_cons_of_pos (by rfl), map_delete_eq, filter_ack_deletes]
  rfl

/-! ### `runOp` for a head truncation -/

theorem runOp_delHead_frozen (p : Proc) (n : Nat) (pl : Plan) (h : p.frozen.isSome = true) :
    runOp p (.delHead n) pl = (p, false) := by
  simp only [runOp, h, ↓reduceIte]

theorem runOp_delHead_of {d : Disk} {n : Nat} {pl : Plan} {d1 : Disk} {f : Option Act}
    {pl1 : Plan} (hr : runActs d ((delHeadProg (vdisk d) n).filter (· != .ack)) pl = (d1, f, pl1)) :
    runOp { disk := d, frozen := none } (.delHead n) pl =
      match f with
      | some a => if isCreate a then ({ disk := d1, frozen := some d.md.segs }, false) else ({ disk := d1 }, false)
      | none => ({ disk := d1 }, true) := by
  cases f with
  | none => simp only [runOp, Option.isSome_none, Bool.false_eq_true, ↓reduceIte, hr]
  | some a => simp only [runOp, Option.isSome_none, Bool.false_eq_true, ↓reduceIte, hr]

end RaftWal.Fault.B
