/-
  Proofs/FaultLemmasE3.lean — without a fault, on a fresh state, `runOp` performs exactly `prog p.disk op` of the crash
  model and returns nil (`no_fault_agrees_stmt`).
-/
import RaftWal.Proofs.FaultLemmasE2
namespace RaftWal.Fault.E
open RaftWal.Crash

/-! ### set -/

theorem no_fault_set (p : Proc) (key val : Nat) {pl : Plan} (h : AllNone pl) :
    (runOp p (.set key val) pl).1.disk = p.disk.applyAll (prog p.disk (.set key val)) ∧
    (runOp p (.set key val) pl).2 = true ∧ (runOp p (.set key val) pl).1.frozen = p.frozen := by
  simp only [runOp, prog, setProg]
  rw [runActs_none_nowrite _ (NoWrite.cons (by rfl) NoWrite.nil) h]
  exact ⟨rfl, rfl, trivial⟩

/-! ### head truncation -/

theorem NoWrite.delHead (d : Disk) (newMin : Nat) : NoWrite (delHeadProg d newMin) := by
  unfold delHeadProg
  simp only
  split
  · exact (NoWrite.append (NoWrite.append (NoWrite.newTail _ _ _) (NoWrite.deletesOf _ _))
      (NoWrite.cons (by rfl) NoWrite.nil))
  · exact (NoWrite.append (NoWrite.append (NoWrite.cons (by rfl) NoWrite.nil) (NoWrite.deletesOf _ _))
      (NoWrite.cons (by rfl) NoWrite.nil))

theorem no_fault_delHead {p : Proc} (hp : Fresh p) (newMin : Nat) {pl : Plan} (h : AllNone pl) :
    (runOp p (.delHead newMin) pl).1.disk = p.disk.applyAll (prog p.disk (.delHead newMin)) ∧
    (runOp p (.delHead newMin) pl).2 = true ∧ (runOp p (.delHead newMin) pl).1.frozen = none := by
  simp only [runOp, hp.2, Option.isSome_none, Bool.false_eq_true, ↓reduceIte, vdisk_fresh hp.1, prog]
  rw [runActs_none_nowrite _ ((NoWrite.delHead _ _).filter _) h]
  simp only [applyAll_filter_ack]
  exact ⟨trivial, trivial, trivial⟩

/-! ### tail truncation -/

/-- a list of actions with at most one pwrite, run from a clean disk -/
theorem runActs_none_one_write {d : Disk} (hc : Clean d) {pre rest : List Act} (h1 : NoWrite pre)
    (h2 : NoWrite rest) (a : Act) {pl : Plan} (h : AllNone pl) :
    runActs d (pre ++ a :: rest) pl = (d.applyAll (pre ++ a :: rest), none, pl.drop (pre ++ a :: rest).length) := by
  rw [runActs_none _ _ h, List.foldl_append, List.foldl_cons, foldl_applyF_nowrite d h1,
    applyF_clean (clean_applyAll_nowrite hc h1), foldl_applyF_nowrite _ h2, applyAll_append, applyAll_cons]

theorem unsealed_is_tail {d : Disk} {P : List Seg} {t : Seg} {f : File} (h : QS d P t f) {s : Seg}
    (hs : s ∈ d.md.segs) (hu : s.sealed = false) : s = t := by
  rw [h.base.segs] at hs
  simp only [List.mem_append, List.mem_cons, List.not_mem_nil, or_false] at hs
  rcases hs with hs | rfl
  · obtain ⟨f', _, hsf⟩ := h.base.sealed s hs
    rw [hsf.sl] at hu; cases hu
  · rfl

theorem delTailActs_eq {d : Disk} {P : List Seg} {t : Seg} {f : File} (h : QS d P t f) (newMax : Nat) :
    delTailProg d newMax = [] ∧ delTailActs d newMax = [] ∨
    ∃ force rest, NoWrite rest ∧ (force = [] ∨ ∃ id es sl, force = [.write id es sl, .fsync id]) ∧
      delTailActs d newMax = force ++ rest ∧ delTailProg d newMax = force ++ rest ++ [.ack] := by
  unfold delTailProg delTailActs
  simp only
  cases hk : (d.md.segs.filter (fun s => decide (s.base ≤ newMax))).getLast? with
  | none => exact Or.inl ⟨rfl, rfl⟩
  | some s =>
    right
    have hs : s ∈ d.md.segs := (List.mem_filter.1 (List.mem_of_getLast? hk)).1
    have hN := NoWrite.append (NoWrite.newTail d.md
      (setSeg (d.md.segs.filter (fun s => decide (s.base ≤ newMax))) { s with sealed := true, max := newMax })
      (newMax + 1)) (NoWrite.deletesOf (d.md.segs.filter (fun s => !decide (s.base ≤ newMax))) (·.id))
    cases hu : s.sealed with
    | true =>
      simp only [hu, Bool.true_or, ↓reduceIte, List.nil_append]
      exact ⟨[], _, hN, Or.inl rfl, rfl, by simp only [List.nil_append, List.append_assoc]⟩
    | false =>
      have := unsealed_is_tail h hs hu
      subst this
      simp only [hu, h.tf, h.qt.ss, Bool.or_false, Bool.false_eq_true, ↓reduceIte]
      exact ⟨_, _, hN, Or.inr ⟨_, _, _, rfl⟩, rfl, by simp only [List.append_assoc]⟩

theorem no_fault_delTail {p : Proc} (hp : Fresh p) (newMax : Nat) {pl : Plan} (h : AllNone pl) :
    (runOp p (.delTail newMax) pl).1.disk = p.disk.applyAll (prog p.disk (.delTail newMax)) ∧
    (runOp p (.delTail newMax) pl).2 = true ∧ (runOp p (.delTail newMax) pl).1.frozen = none := by
  obtain ⟨P, t, f, hq⟩ := (quiescentS_iff p.disk).1 hp.1
  have hc := clean_of_QS hq
  simp only [runOp, hp.2, Option.isSome_none, Bool.false_eq_true, ↓reduceIte, vdisk_fresh hp.1, prog]
  rcases delTailActs_eq hq newMax with ⟨e1, e2⟩ | ⟨force, rest, hr, hf, e2, e1⟩
  · rw [e1, e2]
    exact ⟨rfl, rfl, rfl⟩
  · rw [e1, e2]
    have : runActs p.disk (force ++ rest) pl =
        (p.disk.applyAll (force ++ rest), none, pl.drop (force ++ rest).length) := by
      rcases hf with rfl | ⟨id, es, sl, rfl⟩
      · exact runActs_none_nowrite _ hr h
      · exact runActs_none_one_write hc NoWrite.nil (NoWrite.cons (by rfl) hr) _ h
    rw [this]
    simp only [applyAll_append, applyAll_cons, applyAll_nil, apply_ack]
    exact ⟨trivial, trivial, trivial⟩

end RaftWal.Fault.E
