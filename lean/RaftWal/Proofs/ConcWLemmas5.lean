/-
  Proofs/ConcWLemmas5.lean — deadlock freedom from `Inv0` and `Inv1`: who can move.  The lock holder can always move;
  with the lock free anybody who wants it can; a writer waiting on a channel is woken by the rotation goroutine
  (at `closing`) or has already been woken by Close.  The thread found is never a writer at `start`, so it can also
  move under the single-appender discipline.
-/
import RaftWal.Proofs.ConcWLemmas4
namespace RaftWal.ConcW

theorem setW_ne (s s2 : Sys) (i : Nat) (w w' : Writer) (hw : s.writers[i]? = some w) (h2 : s2.writers = s.writers)
    (hne : w' ≠ w) : setW s2 i w' ≠ s := by
  intro e
  have h : (setW s2 i w').writers[i]? = s.writers[i]? := by rw [e]
  have hi : i < s.writers.length := (List.getElem?_eq_some_iff.mp hw).1
  rw [setW_writers, h2, hw, List.getElem?_set_self hi] at h
  injection h with h
  exact hne h

theorem wstep_ne {s : Sys} {w : Writer} {b : Bool} {pc' : WPc} (ht : WStep s w b pc') : pc' ≠ w.pc := by
  cases ht <;> intro e <;> simp_all

theorem not_blocked (s : Sys) (w : Writer)
    (h : w.pc = .start ∨ (w.pc = .wantLock ∧ s.lock = false) ∨ w.pc = .locked ∨
      (∃ ch, w.pc = .waiting ch ∧ ch ∈ s.closedChans) ∨ (w.pc = .relock ∧ s.lock = false) ∨ w.pc = .check ∨
      (w.pc = .use ∧ s.closed = true)) : ¬ WBlocked s w := by
  intro hb
  unfold WBlocked at hb
  rcases h with h | ⟨h, h'⟩ | h | ⟨ch, h, h'⟩ | ⟨h, h'⟩ | h | ⟨h, h'⟩ <;>
    rcases hb with ⟨g, g'⟩ | ⟨ch', g, g'⟩ | ⟨g, g'⟩ | ⟨g, _, g', _⟩ | ⟨r, g⟩ <;> simp_all

theorem writer_moves (s : Sys) (i : Nat) (w : Writer) (hw : s.writers[i]? = some w) (h0 : Inv0 s)
    (hnb : ¬ WBlocked s w) : stepWriter fixed s i ≠ s := by
  rcases stepWriter_cases s i w hw h0 with ⟨_, hb⟩ | ⟨b, pc', ht, e⟩ | ⟨hpc, _, _, _, e⟩
  · exact absurd hb hnb
  · rw [e]
    exact setW_ne s _ i w _ hw rfl (fun e' => wstep_ne ht (congrArg Writer.pc e'))
  · rw [e]
    unfold sealState
    refine setW_ne s _ i w _ hw rfl (fun e' => ?_)
    have := congrArg Writer.pc e'
    rw [hpc] at this; cases this

theorem closer_moves (s : Sys) (h : s.cpc = .idle ∨ (s.cpc = .flagged ∧ s.lock = false) ∨ s.cpc = .locked) :
    stepCloser fixed s ≠ s := by
  intro e
  have := congrArg Sys.cpc e
  unfold stepCloser at this
  rcases h with h | ⟨h, hl⟩ | h
  · rw [h] at this; dsimp only at this; split at this <;> cases this
  · rw [h] at this; simp [hl] at this
  · rw [h] at this; cases this

theorem rotator_moves (s : Sys) (h : s.rpc = .locked ∨ ∃ x, s.rpc = .closing x) : stepRotator fixed s ≠ s := by
  intro e
  have := congrArg Sys.rpc e
  unfold stepRotator at this
  rcases h with h | ⟨x, h⟩
  · rw [h] at this; dsimp only at this
    split at this
    · cases this
    · split at this <;> cases this
  · rw [h] at this
    cases x with
    | none => cases this
    | some c => dsimp only at this; split at this <;> cases this

/-- the thread is not a writer at `start` -/
def NotStart (s : Sys) (t : Tid) : Prop := ∀ i w, t = .writer i → s.writers[i]? = some w → w.pc ≠ .start

theorem step1_eq_of_notStart (s : Sys) (t : Tid) (h : NotStart s t) : step1 fixed s t = step fixed s t := by
  cases t with
  | writer i =>
    rw [step1_writer]
    cases hw : s.writers[i]? with
    | none => exact (stepWriter_none fixed s i hw).symm
    | some w =>
      dsimp only
      have := h i w rfl hw
      rw [if_neg (by simp [this])]
  | rotator => rfl
  | closer => rfl

theorem can_move_core (s : Sys) (h0 : Inv0 s) (h1 : Inv1 s)
    (hp : (∃ w ∈ s.writers, (∀ r, w.pc ≠ .done r) ∧ w.pc ≠ .start) ∨ s.cpc = .flagged ∨ s.cpc = .locked) :
    ∃ t, step fixed s t ≠ s ∧ NotStart s t := by
  have hcl : NotStart s .closer := fun i w e => by cases e
  have hro : NotStart s .rotator := fun i w e => by cases e
  have hwr : ∀ i w, s.writers[i]? = some w → w.pc ≠ .start → NotStart s (.writer i) := by
    intro i w hi hns i' w' e hw'
    injection e with e
    subst e
    rw [hi] at hw'
    injection hw' with hw'
    subst hw'
    exact hns
  -- the lock is held, the flag is set: the holder can move
  have H : s.lock = true → s.closed = true → ∃ t, step fixed s t ≠ s ∧ NotStart s t := by
    intro hl hc
    rcases h0.holder hl with ⟨w, hw, hh⟩ | hr | hcp
    · obtain ⟨i, hi⟩ := get_of_mem _ _ hw
      rw [holdsPc_iff] at hh
      refine ⟨.writer i, writer_moves s i w hi h0 (not_blocked s w ?_), hwr i w hi ?_⟩
      · rcases hh with p | p | p
        · exact Or.inr (Or.inr (Or.inl p))
        · exact Or.inr (Or.inr (Or.inr (Or.inr (Or.inr (Or.inl p)))))
        · exact Or.inr (Or.inr (Or.inr (Or.inr (Or.inr (Or.inr ⟨p, hc⟩)))))
      · intro hst
        rcases hh with p | p | p <;> rw [p] at hst <;> cases hst
    · exact ⟨.rotator, rotator_moves s (Or.inl hr), hro⟩
    · exact ⟨.closer, closer_moves s (Or.inr (Or.inr hcp)), hcl⟩
  cases hcp : s.cpc with
  | idle => exact ⟨.closer, closer_moves s (Or.inl hcp), hcl⟩
  | locked => exact ⟨.closer, closer_moves s (Or.inr (Or.inr hcp)), hcl⟩
  | flagged =>
    rcases bool_cases s.lock with hl | hl
    · exact H hl (h0.closed_iff.mpr (by rw [hcp]; simp))
    · exact ⟨.closer, closer_moves s (Or.inr (Or.inl ⟨hcp, hl⟩)), hcl⟩
  | done =>
    have hc : s.closed = true := h0.closed_iff.mpr (by rw [hcp]; simp)
    rcases bool_cases s.lock with hl | hl
    · exact H hl hc
    · rcases hp with ⟨w, hw, hnd, hns⟩ | h | h
      · obtain ⟨i, hi⟩ := get_of_mem _ _ hw
        have hfree := (h0.free hl).1 w hw
        have hNS := hwr i w hi hns
        cases hpc : w.pc with
        | start => exact absurd hpc hns
        | wantLock =>
          exact ⟨.writer i, writer_moves s i w hi h0 (not_blocked s w (Or.inr (Or.inl ⟨hpc, hl⟩))), hNS⟩
        | locked => rw [hpc] at hfree; simp at hfree
        | check => rw [hpc] at hfree; simp at hfree
        | use => rw [hpc] at hfree; simp at hfree
        | waiting ch =>
          rcases h1.waiting_ok w hw ch hpc with hcc | ha | hr
          · exact ⟨.writer i,
              writer_moves s i w hi h0 (not_blocked s w (Or.inr (Or.inr (Or.inr (Or.inl ⟨ch, hpc, hcc⟩))))), hNS⟩
          · rw [h1.done_await hcp] at ha; cases ha
          · exact ⟨.rotator, rotator_moves s (Or.inr ⟨_, hr⟩), hro⟩
        | relock =>
          exact ⟨.writer i,
            writer_moves s i w hi h0 (not_blocked s w (Or.inr (Or.inr (Or.inr (Or.inr (Or.inl ⟨hpc, hl⟩)))))), hNS⟩
        | done r => exact absurd hpc (hnd r)
      · rw [hcp] at h; cases h
      · rw [hcp] at h; cases h

/-- deadlock freedom of the unrestricted system, in a state in which `Inv1` still holds -/
theorem can_move (s : Sys) (h0 : Inv0 s) (h1 : Inv1 s)
    (hp : (∃ w ∈ s.writers, ∀ r, w.pc ≠ .done r) ∨ s.cpc = .flagged ∨ s.cpc = .locked) :
    ∃ t, step fixed s t ≠ s := by
  rcases hp with ⟨w, hw, hnd⟩ | h
  · by_cases hst : w.pc = .start
    · obtain ⟨i, hi⟩ := get_of_mem _ _ hw
      exact ⟨.writer i, writer_moves s i w hi h0 (not_blocked s w (Or.inl hst))⟩
    · obtain ⟨t, ht, _⟩ := can_move_core s h0 h1 (Or.inl ⟨w, hw, hnd, hst⟩)
      exact ⟨t, ht⟩
  · obtain ⟨t, ht, _⟩ := can_move_core s h0 h1 (Or.inr h)
    exact ⟨t, ht⟩

/-- deadlock freedom under the single-appender discipline -/
theorem can_move1 (s : Sys) (h0 : Inv0 s) (h1 : Inv1 s)
    (hp : (∃ w ∈ s.writers, ∀ r, w.pc ≠ .done r) ∨ s.cpc = .flagged ∨ s.cpc = .locked) :
    ∃ t, step1 fixed s t ≠ s := by
  have core : ((∃ w ∈ s.writers, (∀ r, w.pc ≠ .done r) ∧ w.pc ≠ .start) ∨ s.cpc = .flagged ∨ s.cpc = .locked) →
      ∃ t, step1 fixed s t ≠ s := by
    intro h
    obtain ⟨t, ht, hns⟩ := can_move_core s h0 h1 h
    exact ⟨t, by rw [step1_eq_of_notStart s t hns]; exact ht⟩
  rcases hp with ⟨w, hw, hnd⟩ | h
  · by_cases hst : w.pc = .start
    · obtain ⟨i, hi⟩ := get_of_mem _ _ hw
      by_cases hb : (w.seals && w.pc == .start && sealingInFlight s) = true
      · have hf : sealingInFlight s = true := by
          simp only [Bool.and_eq_true] at hb; exact hb.2
        obtain ⟨w', hw', hin⟩ := sealingInFlight_true hf
        obtain ⟨_, hns, hnd'⟩ := (inflight_iff w').mp hin
        exact core (Or.inl ⟨w', hw', hnd', hns⟩)
      · refine ⟨.writer i, ?_⟩
        rw [step1_writer]
        simp only [hi]
        rw [if_neg hb]
        exact writer_moves s i w hi h0 (not_blocked s w (Or.inl hst))
    · exact core (Or.inl ⟨w, hw, hnd, hst⟩)
  · exact core (Or.inr h)

/-- nobody can move: it suffices to look at the rotation goroutine, Close and the writers there are -/
theorem stuck_of (cfg : Cfg) (s : Sys) (hr : stepRotator cfg s = s) (hc : stepCloser cfg s = s)
    (hw : ∀ i, i < s.writers.length → stepWriter cfg s i = s) : ∀ t, step cfg s t = s := by
  intro t
  cases t with
  | writer i =>
    by_cases hi : i < s.writers.length
    · exact hw i hi
    · exact stepWriter_none cfg s i (List.getElem?_eq_none (by omega))
  | rotator => exact hr
  | closer => exact hc

end RaftWal.ConcW
