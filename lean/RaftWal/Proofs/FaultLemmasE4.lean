/-
  Proofs/FaultLemmasE4.lean — StoreLogs without a fault on a fresh state, and `no_fault_agrees_stmt`.
-/
import RaftWal.Proofs.FaultLemmasE3
namespace RaftWal.Fault.E
open RaftWal.Crash

/-- StoreLogs without a fault, from a clean disk on which the (possibly replaced) tail's writer is not sealed -/
theorem store_agrees {p : Proc} (hf : p.frozen = none) (hc : Clean p.disk) (first : Nat) (es : List Entry) (seals : Bool)
    {pl : Plan} (hpl : AllNone pl) {a1 del : List Act} (hr : resetActs p.disk first = (a1, del)) (h1 : NoWrite a1) (h2 : NoWrite del)
    {t : Seg} (ht : (p.disk.applyAll a1).md.segs.getLast? = some t)
    (hs : tailSealedMem (p.disk.applyAll a1) = false) :
    (runOp p (.store first es seals) pl).1.disk = p.disk.applyAll (prog p.disk (.store first es seals)) ∧
    (runOp p (.store first es seals) pl).2 = true ∧ (runOp p (.store first es seals) pl).1.frozen = none := by
  have hc1 : Clean (p.disk.applyAll a1) := clean_applyAll_nowrite hc h1
  have hc2 : Clean ((p.disk.applyAll a1).applyAll [.write t.id es seals, .fsync t.id]) := clean_append hc1 _ _ _
  have hc3 : Clean (((p.disk.applyAll a1).applyAll [.write t.id es seals, .fsync t.id]).applyAll del) :=
    clean_applyAll_nowrite hc2 h2
  simp only [runOp, hf, Option.isSome_none, Bool.false_eq_true, ↓reduceIte, vdisk_of_clean hc, hr, prog, storeProg]
  rw [runActs_none_nowrite _ h1 hpl]
  simp only [vdisk_of_clean hc1, ht, hs, Bool.false_eq_true, ↓reduceIte]
  rw [runActs_none_append hc1 _ _ _ (hpl.drop _), runActs_none_nowrite _ h2 ((hpl.drop _).drop _)]
  simp only [Option.isSome_none, Bool.false_eq_true, ↓reduceIte, vdisk_of_clean hc3]
  have e3 : (p.disk.applyAll a1).applyAll ([.write t.id es seals, .fsync t.id] ++ del ++ [.ack]) =
      ((p.disk.applyAll a1).applyAll [.write t.id es seals, .fsync t.id]).applyAll del := by
    rw [applyAll_append, applyAll_append]; rfl
  rw [e3]
  cases seals with
  | false =>
    simp only [Bool.false_eq_true, ↓reduceIte, List.append_nil]
    rw [applyAll_append, e3]
    exact ⟨rfl, trivial, trivial⟩
  | true =>
    simp only [↓reduceIte]
    rw [runActs_none_nowrite _ (NoWrite.rotate _) (((hpl.drop _).drop _).drop _)]
    simp only
    rw [applyAll_append, applyAll_append, e3]
    exact ⟨rfl, trivial, trivial⟩

theorem tailSealedMem_QS {d : Disk} {P : List Seg} {t : Seg} {f : File} (h : QS d P t f) : tailSealedMem d = false := by
  have hl : d.md.segs.getLast? = some t := by rw [h.base.segs]; simp
  unfold tailSealedMem
  simp only [hl, h.tf, h.qt.ss, Bool.and_false]

theorem file?_nextID_none {d : Disk} {P : List Seg} {t : Seg} {f : File} (h : QS d P t f) :
    d.file? d.md.nextID = none := by
  rw [file?_none_iff]
  intro hm
  exact Nat.lt_irrefl _ (h.base.fidlt _ hm)

/-- the tail a base-index reset installs: its writer is not sealed -/
theorem reset_tail {d : Disk} {P : List Seg} {t : Seg} {f : File} (h : QS d P t f) (segs : List Seg) (first : Nat) :
    (d.applyAll (newTailActs d.md segs first)).md.segs.getLast? = some (newSeg d.md.nextID first) ∧
    tailSealedMem (d.applyAll (newTailActs d.md segs first)) = false := by
  have hn : (d.apply (.commit { d.md with nextID := d.md.nextID + 1, segs := segs ++ [newSeg d.md.nextID first] })).file?
      d.md.nextID = none := file?_nextID_none h
  have hl : (d.applyAll (newTailActs d.md segs first)).md.segs.getLast? = some (newSeg d.md.nextID first) := by
    simp only [newTailActs, applyAll_cons, applyAll_nil, apply_create_md, apply_commit_md, List.getLast?_append,
      List.getLast?_singleton, Option.some_or]
  refine ⟨hl, ?_⟩
  unfold tailSealedMem
  rw [hl]
  simp only [newTailActs, applyAll_cons, applyAll_nil]
  rw [apply_create_file? _ _ _ hn]
  simp [newSeg, File.fresh]

theorem no_fault_store {p : Proc} (hp : Fresh p) (first : Nat) (es : List Entry) (seals : Bool) {pl : Plan}
    (hpl : AllNone pl) :
    (runOp p (.store first es seals) pl).1.disk = p.disk.applyAll (prog p.disk (.store first es seals)) ∧
    (runOp p (.store first es seals) pl).2 = true ∧ (runOp p (.store first es seals) pl).1.frozen = none := by
  obtain ⟨P, t, f, hq⟩ := (quiescentS_iff p.disk).1 hp.1
  have hc := clean_of_QS hq
  have hl : p.disk.md.segs.getLast? = some t := by rw [hq.base.segs]; simp
  by_cases hcond : (absLog p.disk).isEmpty ∧ t.base ≠ first
  · have hr : resetActs p.disk first = (newTailActs p.disk.md p.disk.md.segs.dropLast first, [.delete t.id]) := by
      unfold resetActs
      simp only [hl]
      rw [if_pos hcond]
    obtain ⟨h1, h2⟩ := reset_tail hq p.disk.md.segs.dropLast first
    exact store_agrees hp.2 hc first es seals hpl hr (NoWrite.newTail _ _ _) (NoWrite.cons (by rfl) NoWrite.nil) h1 h2
  · have hr : resetActs p.disk first = ([], []) := by
      unfold resetActs
      simp only [hl]
      rw [if_neg hcond]
    exact store_agrees hp.2 hc first es seals hpl hr NoWrite.nil NoWrite.nil hl (tailSealedMem_QS hq)

/-- **without a fault, on a fresh state, a call does exactly what Model.Crash says it does, and returns nil**
    (legality of the call is not needed) -/
theorem no_fault_agrees' {p : Proc} (hp : Fresh p) (op : Op) {pl : Plan} (hpl : AllNone pl) :
    (runOp p op pl).1.disk = p.disk.applyAll (prog p.disk op) ∧ (runOp p op pl).2 = true ∧
    (runOp p op pl).1.frozen = none := by
  cases op with
  | store first es seals => exact no_fault_store hp first es seals hpl
  | delHead newMin => exact no_fault_delHead hp newMin hpl
  | delTail newMax => exact no_fault_delTail hp newMax hpl
  | set k v =>
    have := no_fault_set p k v hpl
    rw [hp.2] at this
    exact this

theorem no_fault_agrees : no_fault_agrees_stmt := fun _ hp op _ _ hpl => no_fault_agrees' hp op hpl

/-- … so the call leaves a fresh state whose log (and readers' view) is the specification's -/
theorem no_fault_fresh {p : Proc} (hp : Fresh p) (op : Op) (hok : OkV (view p) op) {pl : Plan} (hpl : AllNone pl) :
    Fresh (runOp p op pl).1 ∧ view (runOp p op pl).1 = specApply (view p) op := by
  have hok' := (fresh_okV_iff hp op).1 hok
  obtain ⟨h1, _, h3⟩ := no_fault_agrees' hp op hpl
  obtain ⟨hq, hl⟩ := call_refines_corrected p.disk hp.1 op hok'
  have hf : Fresh (runOp p op pl).1 := ⟨by rw [h1]; exact hq, h3⟩
  refine ⟨hf, ?_⟩
  rw [fresh_view _ hf, fresh_view _ hp, h1, hl]

end RaftWal.Fault.E
