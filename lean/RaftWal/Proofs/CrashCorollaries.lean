/-
  Proofs/CrashCorollaries.lean — the crash theorems of CrashProps.lean specialised to the shapes the properties
  C01–C04, C08, C13 are worded in.
-/
import RaftWal.Proofs.CrashProps
namespace RaftWal.Crash

/-- does a call remove index `i` from the log? -/
def Op.removes : Op → Nat → Bool
  | .delHead newMin, i => decide (i < newMin)
  | .delTail newMax, i => decide (newMax < i)
  | _, _ => false

/-- the entries an append adds -/
def appended (first : Nat) (es : List Entry) : List (Nat × Entry) :=
  ((List.range es.length).zip es).map (fun p => (first + p.1, p.2))

theorem specApply_store' (l : List (Nat × Entry)) (first : Nat) (es : List Entry) (s : Bool) :
    specApply l (.store first es s) = l ++ appended first es := rfl

/-- an entry of the log that the call does not remove is in the specification's result -/
theorem mem_specApply_of_not_removed (l : List (Nat × Entry)) (op : Op) (p : Nat × Entry) (hp : p ∈ l)
    (hr : op.removes p.1 = false) : p ∈ specApply l op := by
  cases op with
  | store first es s => exact List.mem_append_left _ hp
  | delHead newMin =>
    simp only [Op.removes, decide_eq_false_iff_not, Nat.not_lt] at hr
    simp only [specApply, List.mem_filter, decide_eq_true_eq]
    exact ⟨hp, hr⟩
  | delTail newMax =>
    simp only [Op.removes, decide_eq_false_iff_not, Nat.not_lt] at hr
    simp only [specApply, List.mem_filter, decide_eq_true_eq]
    exact ⟨hp, hr⟩
  | set k v => exact hp

/-- **C01**: an entry that is in the log when a call starts, and that the call does not delete, is in the log every
    recovery comes back with — whatever the call (append with or without rotation or base reset, truncation, stable
    write), wherever it is cut, whatever the crash, however many recoveries are themselves cut -/
theorem entries_survive (d : Disk) (hq : QuiescentS d) (op : Op) (hok : op.ok d) (k : Nat) (c : CrashKind)
    (d1 d' : Disk) (hr : ReachRec (crashAfter d (prog d op) k c) d1) (ho : openResult d1 = some d')
    (p : Nat × Entry) (hp : p ∈ absLog d) (hnr : op.removes p.1 = false) : p ∈ absLog d' := by
  obtain ⟨_, h, _⟩ := crash_safe_corrected d hq op hok k c d1 d' hr ho
  rcases h with h | h
  · rw [h]; exact hp
  · rw [h]; exact mem_specApply_of_not_removed _ op p hp hnr

/-- **C01**: once StoreLogs has returned, the recovered log is the old log followed by exactly the appended entries -/
theorem acked_append_survives (d : Disk) (hq : QuiescentS d) (first : Nat) (es : List Entry) (s : Bool)
    (hok : (Op.store first es s).ok d) (k : Nat) (c : CrashKind) (d1 d' : Disk)
    (hr : ReachRec (crashAfter d (prog d (.store first es s)) k c) d1) (ho : openResult d1 = some d')
    (hack : ackPos (prog d (.store first es s)) < k) :
    absLog d' = absLog d ++ appended first es ∧ QuiescentS d' := by
  obtain ⟨hq', _, h⟩ := crash_safe_corrected d hq _ hok k c d1 d' hr ho
  exact ⟨by rw [h hack]; rfl, hq'⟩

/-- **C02**: an append cut by a crash is recovered as absent or whole, never in part, and nothing else appears -/
theorem append_all_or_nothing (d : Disk) (hq : QuiescentS d) (first : Nat) (es : List Entry) (s : Bool)
    (hok : (Op.store first es s).ok d) (k : Nat) (c : CrashKind) (d1 d' : Disk)
    (hr : ReachRec (crashAfter d (prog d (.store first es s)) k c) d1) (ho : openResult d1 = some d') :
    absLog d' = absLog d ∨ absLog d' = absLog d ++ appended first es := by
  obtain ⟨_, h, _⟩ := crash_safe_corrected d hq _ hok k c d1 d' hr ho
  rcases h with h | h
  · exact Or.inl h
  · exact Or.inr (by rw [h]; rfl)

/-- **C03**: recovery terminates in a usable log: Open succeeds after any crash history and leaves a state from
    which every legal call behaves as specified (and is itself crash-safe, by the theorems above) -/
theorem recovery_usable (d : Disk) (hq : QuiescentS d) (op : Op) (hok : op.ok d) (k : Nat) (c : CrashKind)
    (d1 : Disk) (hr : ReachRec (crashAfter d (prog d op) k c) d1) :
    ∃ d', openResult d1 = some d' ∧ QuiescentS d' ∧
      ∀ op', op'.ok d' → QuiescentS (d'.applyAll (prog d' op')) ∧ absLog (d'.applyAll (prog d' op')) = specApply (absLog d') op' := by
  have hs := open_never_fails_corrected d hq op hok k c d1 hr
  obtain ⟨as, has⟩ := Option.isSome_iff_exists.1 hs
  refine ⟨d1.applyAll as, by simp [openResult, has], ?_, ?_⟩
  · exact (crash_safe_corrected d hq op hok k c d1 _ hr (by simp [openResult, has])).1
  · intro op' hok'
    exact call_refines_corrected _ (crash_safe_corrected d hq op hok k c d1 _ hr (by simp [openResult, has])).1 op' hok'

/-- **C04**: a truncation cut by a crash leaves the old log or the truncated log; once DeleteRange has returned it
    is the truncated log, after every later restart -/
theorem truncation_atomic (d : Disk) (hq : QuiescentS d) (op : Op) (htr : (∃ m, op = .delHead m) ∨ (∃ m, op = .delTail m))
    (hok : op.ok d) (k : Nat) (c : CrashKind) (d1 d' : Disk)
    (hr : ReachRec (crashAfter d (prog d op) k c) d1) (ho : openResult d1 = some d') :
    (absLog d' = absLog d ∨ absLog d' = specApply (absLog d) op) ∧
    (ackPos (prog d op) < k → absLog d' = specApply (absLog d) op) := by
  have := htr
  exact (crash_safe_corrected d hq op hok k c d1 d' hr ho).2

/-- **C13**: after every recovery the directory holds exactly the files of the segments the meta store lists (orphans
    of interrupted truncations and rotations are gone) and every identifier in use is below NextSegmentID -/
theorem recovered_dir_exact (d : Disk) (hq : QuiescentS d) (op : Op) (hok : op.ok d) (k : Nat) (c : CrashKind)
    (d1 d' : Disk) (hr : ReachRec (crashAfter d (prog d op) k c) d1) (ho : openResult d1 = some d') :
    (∀ f ∈ d'.files, ∃ s ∈ d'.md.segs, s.id = f.id) ∧ (∀ s ∈ d'.md.segs, (d'.file? s.id).isSome) ∧
    (∀ s ∈ d'.md.segs, s.id < d'.md.nextID) :=
  quiescent_dir_exact d' (crash_safe_corrected d hq op hok k c d1 d' hr ho).1.1

end RaftWal.Crash
