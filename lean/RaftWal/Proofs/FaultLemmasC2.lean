/-
  Proofs/FaultLemmasC2.lean — the logs of an `FR` state (what readers see, what the disk stands for); the shape of
  the tail truncation's program; `runActs` on deletions.
-/
import RaftWal.Proofs.FaultLemmasC1
namespace RaftWal.Fault.C
open RaftWal.Crash

/-! ### logs -/

theorem view_eq (p : Proc) : view p = logP (vdisk p.disk) (p.frozen.getD p.disk.md.segs) := rfl

theorem logP_congr_file? {d d' : Disk} {P : List Seg} (h : ∀ s ∈ P, d'.file? s.id = d.file? s.id) :
    logP d' P = logP d P := by
  unfold logP
  apply flatMap_congr'
  intro s hs
  rw [segEntries_eq, segEntries_eq, h s hs]

theorem logP_vdisk {d : Disk} {P : List Seg} (hs : ∀ s ∈ P, SealedOK d s) : logP (vdisk d) P = logP d P := by
  unfold logP
  apply flatMap_congr'
  intro s hsP
  obtain ⟨g, hg, hsf⟩ := hs s hsP
  have hv : (vdisk d).file? s.id = some (vfile g) := by rw [vdisk_file?, hg]; rfl
  rw [segEntries_some hg, segEntries_some hv]
  apply visF_congr s (f := g) (f' := vfile g) rfl
  simp [File.content, vfile, hsf.pend]

theorem segEntries_vdisk_tail {d : Disk} {t : Seg} {f : File} (hf : d.file? t.id = some f) (hsl : t.sealed = false) :
    segEntries (vdisk d) t = visU t.min f.base f.synced := by
  have hv : (vdisk d).file? t.id = some (vfile f) := by rw [vdisk_file?, hf]; rfl
  rw [segEntries_some hv, visF_unsealed hsl]
  simp [File.content, vfile]

/-- what readers see in an `FR` state -/
def rlog (d : Disk) (P : List Seg) (t : Seg) (f : File) : Log := logP d P ++ visU t.min f.base f.synced

theorem FR.vlog {d : Disk} {P : List Seg} {t : Seg} {f : File} (h : FR d P t f) :
    logP (vdisk d) (P ++ [t]) = rlog d P t f := by
  rw [logP_append, logP_single, logP_vdisk h.base.sealed, segEntries_vdisk_tail h.tf h.base.tsl]; rfl

theorem FR.view_run {d : Disk} {P : List Seg} {t : Seg} {f : File} (h : FR d P t f) :
    view { disk := d } = rlog d P t f := by
  rw [view_eq]
  show logP (vdisk d) d.md.segs = _
  rw [h.base.segs, h.vlog]

theorem FR.absLog_eq {d : Disk} {P : List Seg} {t : Seg} {f : File} (h : FR d P t f) :
    absLog d = logP d P ++ visU t.min f.base (f.synced ++ f.pending) := by
  rw [Crash.absLog_eq, h.base.segs, logP_append, logP_single, segEntries_some h.tf, visF_unsealed h.base.tsl]; rfl

theorem FR.absLog_clean {d : Disk} {P : List Seg} {t : Seg} {f : File} (h : FR d P t f) (hp : f.pending = []) :
    absLog d = rlog d P t f := by
  rw [h.absLog_eq, hp, List.append_nil]; rfl

theorem FR.d0_file_P {d : Disk} {P : List Seg} {t : Seg} {f : File} (h : FR d P t f) {s : Seg} (hs : s ∈ P) :
    (cleanTail (strip d)).file? s.id = d.file? s.id := by
  rw [d0_file? h.last, h.pmem hs]
  simp [h.base.tid_ne s hs]

theorem FR.absLog_d0 {d : Disk} {P : List Seg} {t : Seg} {f : File} (h : FR d P t f) :
    absLog (cleanTail (strip d)) = rlog d P t f := by
  rw [h.toQS.log_eq, logP_congr_file? (fun s hs => h.d0_file_P hs)]; rfl

/-! ### the program -/

theorem delTailActs_eq (v : Disk) (newMax : Nat) :
    delTailActs v newMax =
      match (v.md.segs.filter (keptB newMax)).getLast? with
      | none => []
      | some t =>
        (if (t.sealed || (match v.file? t.id with | some f => f.sealedS | none => false)) = true then []
          else [.write t.id [] true, .fsync t.id]) ++
          newTailActs v.md (setSeg (v.md.segs.filter (keptB newMax)) { t with sealed := true, max := newMax }) (newMax + 1) ++
          (v.md.segs.filter (fun s => !keptB newMax s)).map (fun s => .delete s.id) := rfl

theorem delTailActs_tail {d : Disk} {P : List Seg} {t : Seg} {f : File} (h : FR d P t f) {newMax : Nat}
    (hk : d.md.segs.filter (keptB newMax) = P ++ [t]) (hD : d.md.segs.filter (fun s => !keptB newMax s) = []) :
    delTailActs (vdisk d) newMax =
      (if f.sealedS = true then [] else [.write t.id [] true, .fsync t.id]) ++
        [rotCommit d P t newMax, .create d.md.nextID (newMax + 1)] := by
  have h3 : (P ++ [t]).getLast? = some t := by simp
  have hv : (vdisk d).file? t.id = some (vfile f) := by rw [vdisk_file?, h.tf]; rfl
  rw [delTailActs_eq]
  simp only [vdisk_md, hk, hD, h3, hv, h.base.tsl, Bool.false_or, newTailActs, List.map_nil, List.append_nil]
  rw [setSeg_tail (t' := { t with sealed := true, max := newMax }) h.base.tid_ne rfl]
  rfl

theorem delTailActs_sealed {d : Disk} {K0 D' : List Seg} {tk t : Seg} {f : File} (h : FR d (K0 ++ tk :: D') t f)
    {newMax : Nat} (hk : d.md.segs.filter (keptB newMax) = K0 ++ [tk])
    (hD : d.md.segs.filter (fun s => !keptB newMax s) = D' ++ [t]) :
    delTailActs (vdisk d) newMax =
      [.commit ⟨d.md.nextID + 1, K0 ++ [sealSeg tk newMax] ++ [newSeg d.md.nextID (newMax + 1)], d.md.stable⟩,
        .create d.md.nextID (newMax + 1)] ++ (segIds (D' ++ [t])).map .delete := by
  have hb := h.base
  have h3 : (K0 ++ [tk]).getLast? = some tk := by simp
  obtain ⟨fk, _, hsf⟩ := hb.sealed tk (by simp)
  have hnidK : ∀ s ∈ K0, s.id ≠ tk.id := by
    intro s hs e
    have hnd := hb.nodupS
    rw [show (K0 ++ tk :: D') ++ [t] = K0 ++ tk :: (D' ++ [t]) by simp, List.map_append] at hnd
    exact (List.nodup_append.1 hnd).2.2 s.id (List.mem_map.2 ⟨s, hs, rfl⟩) tk.id (by simp) e
  rw [delTailActs_eq]
  simp only [vdisk_md, hk, hD, h3, hsf.sl, Bool.true_or, ↓reduceIte, newTailActs, List.nil_append]
  rw [setSeg_tail (t' := { tk with sealed := true, max := newMax }) hnidK rfl, map_delete_eq]
  rfl

/-! ### `runActs` -/

theorem applyF_delete (d : Disk) (id : Nat) : applyF d (.delete id) = d.apply (.delete id) := rfl
theorem applyF_commit (d : Disk) (m : Meta) : applyF d (.commit m) = d.apply (.commit m) := rfl
theorem applyF_create (d : Disk) (id b : Nat) : applyF d (.create id b) = d.apply (.create id b) := rfl
theorem applyF_fsync (d : Disk) (id : Nat) : applyF d (.fsync id) = d.apply (.fsync id) := rfl

/-- deletions never fail the call: some of them are performed (any number of them may fail) -/
theorem runActs_deletes (ids : List Nat) (d : Disk) (pl : Plan) :
    ∃ (ids' : List Nat) (pl' : Plan), (∀ j ∈ ids', j ∈ ids) ∧
      runActs d (ids.map .delete) pl = (d.applyAll (ids'.map .delete), none, pl') := by
  induction ids generalizing d pl with
  | nil => exact ⟨[], pl, by simp, by simp [runActs]⟩
  | cons a l ih =>
    have hcons : ∀ (ids' : List Nat), (∀ j ∈ ids', j ∈ l) → ∀ j ∈ a :: ids', j ∈ a :: l := by
      intro ids' h1 j hj
      simp only [List.mem_cons] at hj ⊢
      rcases hj with rfl | hj
      · exact Or.inl rfl
      · exact Or.inr (h1 j hj)
    rcases pl with _ | ⟨_ | wf, pl⟩
    · obtain ⟨ids', pl', h1, h2⟩ := ih (d.apply (.delete a)) []
      exact ⟨a :: ids', pl', hcons ids' h1, by simp only [List.map_cons, runActs, applyF_delete, h2, applyAll_cons]⟩
    · obtain ⟨ids', pl', h1, h2⟩ := ih (d.apply (.delete a)) pl
      exact ⟨a :: ids', pl', hcons ids' h1, by simp only [List.map_cons, runActs, applyF_delete, h2, applyAll_cons]⟩
    · obtain ⟨ids', pl', h1, h2⟩ := ih d pl
      exact ⟨ids', pl', fun j hj => by simp [h1 j hj], by simp only [List.map_cons, runActs, h2]⟩

end RaftWal.Fault.C
