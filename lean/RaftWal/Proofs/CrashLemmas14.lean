/-
  Proofs/CrashLemmas14.lean — the result every call has to deliver (`CallRes`); StoreLogs without a base reset; Set.
-/
import RaftWal.Proofs.CrashLemmas13
namespace RaftWal.Crash

/-- `pre`: the actions before the call returns, `post`: those after -/
structure CallRes (d : Disk) (op : Op) (pre post : List Act) : Prop where
  shape : prog d op = pre ++ .ack :: post
  noack : ∀ a ∈ pre, a ≠ .ack
  before : ∀ k, RecE (fun l => l = absLog d ∨ l = specApply (absLog d) op) (d.applyAll (pre.take k))
  after : ∀ k, RecE (fun l => l = specApply (absLog d) op) ((d.applyAll pre).applyAll (post.take k))
  final : ∃ P' t' f', QS (d.applyAll (prog d op)) P' t' f'
  log : absLog (d.applyAll (prog d op)) = specApply (absLog d) op

theorem specApply_store (l : Log) (first : Nat) (es : List Entry) (sl : Bool) :
    specApply l (.store first es sl) = l ++ idxFrom first es := by
  simp only [specApply, zip_range_idx]

theorem storeProg_eq {d : Disk} {first : Nat} (es : List Entry) (seals : Bool) {a1 del : List Act} {t1 : Seg}
    (h1 : resetActs d first = (a1, del)) (h2 : (d.applyAll a1).md.segs.getLast? = some t1) :
    storeProg d first es seals = a1 ++ ([.write t1.id es seals, .fsync t1.id] ++ del ++ [.ack]) ++
      (if seals then rotateActs ((d.applyAll a1).applyAll ([.write t1.id es seals, .fsync t1.id] ++ del ++ [.ack]))
       else []) := by
  unfold storeProg
  rw [h1]
  simp only [h2]

theorem resetActs_no {d : Disk} {P : List Seg} {t : Seg} (hs : d.md.segs = P ++ [t]) {first : Nat}
    (h : ¬ ((absLog d).isEmpty ∧ t.base ≠ first)) : resetActs d first = ([], []) := by
  unfold resetActs
  have h3 : d.md.segs.getLast? = some t := by rw [hs]; simp
  rw [h3]
  simp only [h, ↓reduceIte]

theorem resetActs_yes {d : Disk} {P : List Seg} {t : Seg} (hs : d.md.segs = P ++ [t]) {first : Nat}
    (h : (absLog d).isEmpty ∧ t.base ≠ first) :
    resetActs d first = (newTailActs d.md P first, [.delete t.id]) := by
  unfold resetActs
  have h3 : d.md.segs.getLast? = some t := by rw [hs]; simp
  rw [h3]
  simp only
  rw [if_pos h]; simp only [hs, List.dropLast_concat]

/-- where the entries of a legal StoreLogs land when the tail is not replaced -/
theorem store_first {d : Disk} {P : List Seg} {t : Seg} {f : File} (h : QO d P t f) {first : Nat} {es : List Entry}
    {sl : Bool} (hok : (Op.store first es sl).ok d) (hno : ¬ ((absLog d).isEmpty ∧ t.base ≠ first)) :
    first = f.base + f.synced.length := by
  rcases hok.2.2 with he | hl
  · have := h.empty he
    have hb : t.base = first := by
      apply Classical.byContradiction
      intro hc; exact hno ⟨by simp [he], hc⟩
    rw [this.2, h.qt.base, hb]; rfl
  · by_cases he : absLog d = []
    · have := h.empty he
      have hb : t.base = first := by
        apply Classical.byContradiction
        intro hc; exact hno ⟨by simp [he], hc⟩
      rw [this.2, h.qt.base, hb]; rfl
    · rw [hl]; exact h.next he

theorem store_after {d : Disk} {P : List Seg} {t : Seg} {f : File} (h : QO d P t f) {first : Nat} (es : List Entry)
    (sl : Bool) (hf : first = f.base + f.synced.length) :
    specApply (absLog d) (.store first es sl) = appLog d P t f es := by
  rw [specApply_store, appLog_eq h, hf]

theorem store_noreset {d : Disk} {P : List Seg} {t : Seg} {f : File} (h : QS d P t f) {first : Nat} {es : List Entry}
    {sl : Bool} (hok : (Op.store first es sl).ok d) (hno : ¬ ((absLog d).isEmpty ∧ t.base ≠ first)) :
    CallRes d (.store first es sl) [.write t.id es sl, .fsync t.id] (appPost d t.id es sl []) := by
  have hq := h.toQO
  have hes : es ≠ [] := hok.1
  have hafter := store_after hq es sl (store_first hq hok hno)
  have hshape : prog d (.store first es sl) = [.write t.id es sl, .fsync t.id] ++ .ack :: appPost d t.id es sl [] := by
    show storeProg d first es sl = _
    rw [storeProg_eq es sl (resetActs_no h.base.segs hno) (t1 := t) (by simp [h.base.segs])]
    rfl
  obtain ⟨hpost, P', t', f', hq', hlog, hids, hfids⟩ := app_post hq es sl hes [] (by simp)
  have hfin : d.applyAll (prog d (.store first es sl)) =
      (appState d t.id es sl []).applyAll (appPost d t.id es sl []) := by
    rw [hshape, applyAll_append]; rfl
  refine ⟨hshape, by simp, ?_, ?_, ?_, ?_⟩
  · intro k
    rw [hafter]
    exact ⟨P, t, by simpa using app_pre hq es sl hes [] (by simp) k⟩
  · intro k
    rw [hafter]
    exact hpost k
  · rw [hfin]
    refine ⟨P', t', f', hq'.toQS ?_⟩
    intro j hj
    rcases hfids j hj with h1 | h1
    · exact hids j (h.sub j h1.1)
    · exact h1
  · rw [hfin, hlog, hafter]

/-! ### Set -/

theorem Rec.commit_same {A : Log → Prop} {d : Disk} {P : List Seg} {t : Seg} (h : Rec A d P t) (m : Meta)
    (hs : m.segs = d.md.segs) (hn : m.nextID = d.md.nextID) : Rec A (d.apply (.commit m)) P t := by
  have hb := h.base
  have ht := sealed_transfer_keeps (d' := d.apply (.commit m)) (fun s _ => keeps_commit d m s.id) hb.sealed
  refine ⟨⟨by simp [hs, hb.segs], ht.1, hb.chain, hb.nodupS, by simpa [hn] using hb.idlt, hb.nodupF,
    by simpa [hn] using hb.fidlt, hb.tsl, hb.tbm, hb.tb1, hb.hl⟩, ?_, ?_⟩
  · intro f hf; rw [ht.2]; exact h.tsome f hf
  · intro hn'; rw [ht.2]; exact h.tnone hn'

theorem set_res {d : Disk} {P : List Seg} {t : Seg} {f : File} (h : QS d P t f) (k v : Nat) :
    CallRes d (.set k v) [.commit { d.md with stable := upsert d.md.stable k v }] [] := by
  have h0 : Rec (fun l => l = absLog d) d P t := h.toRec rfl
  have h1 := h0.commit_same { d.md with stable := upsert d.md.stable k v } rfl rfl
  have hc : CleanTail (d.apply (.commit { d.md with stable := upsert d.md.stable k v })) t :=
    ⟨f, h.tf, h.qt.pend, h.qt.ss, h.qt.sp⟩
  obtain ⟨f', hq, ha⟩ := h1.toQS hc h.sub
  refine ⟨rfl, by simp, ?_, ?_, ⟨P, t, f', hq⟩, ha⟩
  · intro k
    rcases k with _ | k
    · exact ⟨P, t, by simpa using h0.mono (fun l hl => Or.inl hl)⟩
    · exact ⟨P, t, by simpa using h1.mono (fun l hl => Or.inl hl)⟩
  · intro k
    exact ⟨P, t, by simpa [specApply] using h1⟩

end RaftWal.Crash
