/-
  Proofs/WalDecide.lean — the decisions wal.go takes (translated from the source on every run into
  Generated/WalDecide.lean) are the decisions the model takes, for all arguments.
  A rewrite of a condition in wal.go that keeps its meaning still checks; one that changes the decision for some
  arguments breaks one of these proofs.
-/
import RaftWal.Generated.WalDecide
import RaftWal.Model.Wal
namespace RaftWal

/-- the decision `Wal.deleteRange` (the model) takes on an open log -/
def Wal.delDecision (w : Wal) (min max : Nat) : DelAction :=
  if min > max then .nothing
  else if max < w.firstIndex ∨ min > w.lastIndex then .nothing
  else if min ≤ w.firstIndex then .head (u64 ((Nat.min max w.lastIndex) + 1))
  else if max ≥ w.lastIndex then .tail (min - 1)
  else .refuse

/-- what the model does with a decision -/
def Wal.applyDel (w : Wal) : DelAction → Wal × Option Err
  | .nothing => (w, none)
  | .head n => w.truncateHead n
  | .tail n => w.truncateTail n
  | .refuse => (w, some .other)

/-- the model's `deleteRange` is: decide, then act -/
theorem deleteRange_eq_decision (w : Wal) (min max : Nat) (hc : w.closed = false) :
    w.deleteRange min max = w.applyDel (w.delDecision min max) := by
  unfold Wal.deleteRange Wal.delDecision
  simp only [hc, Bool.false_eq_true, if_false]
  by_cases h1 : min > max
  · simp [h1, Wal.applyDel]
  · simp only [h1, if_false]
    by_cases h2 : max < w.firstIndex ∨ min > w.lastIndex
    · simp [h2, Wal.applyDel]
    · simp only [h2, if_false]
      by_cases h3 : min ≤ w.firstIndex
      · simp [h3, Wal.applyDel]
      · simp only [h3, if_false]
        by_cases h4 : max ≥ w.lastIndex
        · simp [h4, Wal.applyDel]
        · simp [h4, Wal.applyDel]

/-- **the decision is the one wal.go takes** (uint64 arguments): `DeleteRange`'s early return, its classification
    switch, the clamping of `max` and the `max+1` / `min-1` it passes on, read from the source -/
theorem delDecision_eq_source (w : Wal) (min max : Nat) (hmin : min < 2^64) (hmax : max < 2^64)
    (hf : w.firstIndex < 2^64) (hl : w.lastIndex < 2^64) :
    w.delDecision min max = Generated.deleteRangeDecide min max w.firstIndex w.lastIndex := by
  -- written to survive rewrites of the conditions in wal.go that keep their meaning (operand order, `!(a > b)` for
  -- `a <= b`, `1 + max`, …): everything is unfolded to linear arithmetic and closed case by case by `omega`
  unfold Wal.delDecision Generated.deleteRangeDecide
  generalize w.firstIndex = first at *
  generalize w.lastIndex = last at *
  simp only [u64, u64sub, Bool.or_eq_true, Bool.and_eq_true, decide_eq_true_eq, Bool.not_eq_true', decide_eq_false_iff_not,
    Nat.min_def, Bool.not_eq_eq_eq_not, Bool.not_true, Nat.reducePow] at *
  repeat' split
  all_goals first
    | (exfalso; omega)
    | (simp only [DelAction.head.injEq, DelAction.tail.injEq, reduceCtorEq]; omega)
    | rfl

/-- `truncateHeadLocked`'s scan: the model stops at a segment exactly when the code does -/
theorem truncateHead_stop_eq_source (s : SegS) (stateLast newMin : Nat) :
    ((¬ s.sealed ∧ stateLast ≥ newMin) ∨ (s.sealed ∧ s.max ≥ newMin)) ↔
      Generated.truncateHeadStopsAt s.sealed s.base s.min s.max stateLast newMin = true := by
  unfold Generated.truncateHeadStopsAt
  cases s.sealed <;>
    simp only [Bool.or_eq_true, Bool.and_eq_true, decide_eq_true_eq, Bool.not_eq_true', decide_eq_false_iff_not, Bool.not_true,
      Bool.not_false, Bool.false_eq_true, Bool.true_eq_false, not_false_eq_true, not_true_eq_false, true_and, false_and, and_true,
      and_false, or_false, false_or, ge_iff_le, gt_iff_lt, reduceCtorEq] <;> omega

/-- `truncateTailLocked`'s reverse scan: the model keeps a segment exactly when the code does -/
theorem truncateTail_keep_eq_source (s : SegS) (newMax : Nat) :
    (s.base ≤ newMax) ↔ Generated.truncateTailKeeps s.base s.min s.max newMax = true := by
  unfold Generated.truncateTailKeeps
  simp only [Bool.or_eq_true, Bool.and_eq_true, decide_eq_true_eq, Bool.not_eq_true', decide_eq_false_iff_not]
  all_goals omega

/-- `StoreLogs` re-bases the empty tail exactly when the model does -/
theorem store_rebase_eq_source (lastIdx firstNew tailBase : Nat) :
    (lastIdx = 0 ∧ firstNew ≠ tailBase) ↔ Generated.storeRebases lastIdx firstNew tailBase = true := by
  unfold Generated.storeRebases
  simp only [u64, u64sub, Bool.or_eq_true, Bool.and_eq_true, decide_eq_true_eq, Bool.not_eq_true', decide_eq_false_iff_not, Nat.reducePow]
  all_goals omega

/-- `StoreLogs` refuses an index exactly when the model does (indexes below 2^64 − 1, so `lastIdx+1` does not wrap) -/
theorem store_refuses_eq_source (lastIdx idx : Nat) (h : lastIdx + 1 < 2^64) :
    (lastIdx > 0 ∧ idx ≠ lastIdx + 1) ↔ Generated.storeRefusesIndex lastIdx idx = true := by
  unfold Generated.storeRefusesIndex u64
  simp only [Bool.or_eq_true, Bool.and_eq_true, decide_eq_true_eq, Bool.not_eq_true', decide_eq_false_iff_not, Nat.reducePow] at *
  all_goals omega

/-- at the wrap-around the code's check differs from the contiguous-log reading: after index 2^64 − 1 it asks for
    index 0 (this is why C05 is stated for indexes below 2^64 − 1) -/
theorem store_refuses_wraps : Generated.storeRefusesIndex (2^64 - 1) 0 = false := by decide

end RaftWal
